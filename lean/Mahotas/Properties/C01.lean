/-
C01 — property theorems (statements only; helper lemmas live in `Proofs/`).
-/
import Mahotas.Proofs.C01
import Mahotas.Proofs.C01Scatter
import Mahotas.Proofs.C01Star
import Mahotas.Proofs.C01Fast
import Mahotas.Proofs.C01Loops
import Mahotas.Proofs.C01Tables
import Mahotas.Proofs.C01Dispatch
import Mahotas.Generated.Tables
import Mahotas.Proofs.C01Signed
namespace Mahotas.C01
open Mahotas

/-- the element is admissible for dtype `dt`: entries are in range and are non-negative heights
    or the "absent" marker (dtype minimum); for bool images the kernel sees the compressed
    footprint, i.e. only non-zero entries. -/
def AdmissibleElem (dt : DT) (sup : List (List Int × Int)) : Prop :=
  ∀ kh ∈ sup, dt.InRange kh.2 ∧ (0 ≤ kh.2 ∨ kh.2 = dt.lo) ∧ (dt.isBool = true → kh.2 = 1)

/-- every pixel value is representable in `dt` (bool: 0/1) -/
def ImageInRange (dt : DT) (A : Img Int) : Prop := ∀ q, dt.InRange (A.getD q 0)

/-- every offset of the support is an offset `k − c` of the element box `bshape`
    (true of every `support bshape bc compress`, see `C01_support_offsets_in_box`) -/
def OffsetsInBox (bshape : List Nat) (sup : List (List Int × Int)) : Prop :=
  ∀ kh ∈ sup, kh.1 ∈ boxOffsets bshape

/-- the dtypes of the statement: an integer dtype, or bool -/
def DTypeOK (dt : DT) : Prop := dt.WF ∨ dt = dtBool

/-- `(p, kh)` is a scatter pair for pixel `q`: source pixel `p` of the image, not the dtype minimum,
    member entry `kh` of the support, and the clamped target `clamp(p + k)` is `q` -/
def Reaches (dt : DT) (A : Img Int) (sup : List (List Int × Int)) (q p : List Int)
    (kh : List Int × Int) : Prop :=
  inside A.shape p = true ∧ kh ∈ sup ∧ A.getD p dt.lo ≠ dt.lo ∧ clampPos A.shape (addPos p kh.1) = q

/-- an image whose stored values are all in range is in range (`0` must be representable) -/
theorem imageInRange_of_data (dt : DT) (A : Img Int) (h0 : dt.InRange 0)
    (h : ∀ x ∈ A.data.toList, dt.InRange x) : ImageInRange dt A := by
  intro q
  unfold Img.getD
  split
  · rw [Array.getD_eq_getD_getElem?]
    cases hx : A.data[ravelI A.shape q]? with
    | none => exact h0
    | some x =>
      apply h
      have := Array.mem_of_getElem? hx
      simpa using this
  · exact h0

theorem getD_lo_inRange (dt : DT) (A : Img Int) (hlh : dt.lo ≤ dt.hi) (hA : ImageInRange dt A)
    (p : List Int) : dt.InRange (A.getD p dt.lo) := by
  have h := hA p
  unfold Img.getD at h ⊢
  split
  · next hin =>
    simp only [hin, if_true] at h
    rw [Array.getD_eq_getD_getElem?] at h ⊢
    cases hx : A.data[ravelI A.shape p]? with
    | none => simp only [Option.getD_none]; exact ⟨Int.le_refl _, hlh⟩
    | some x => rw [hx] at h; exact h
  · exact ⟨Int.le_refl _, hlh⟩

theorem valOK_of (dt : DT) (hdt : DTypeOK dt) (A : Img Int) (sup : List (List Int × Int))
    (hA : ImageInRange dt A) (hB : AdmissibleElem dt sup) : ValOK dt A sup := by
  rcases hdt with wf | rfl
  · apply valOK_wf dt wf A sup
    · intro p _
      exact getD_lo_inRange dt A (by have := wf.hi_pos; rcases wf.lo_cases with h | h <;> omega) hA p
    · intro kh hkh; exact ⟨(hB kh hkh).1, (hB kh hkh).2.1⟩
  · apply valOK_bool A sup
    · intro p _
      have := hA p
      simp only [DT.InRange, dtBool] at this; omega
    · intro kh hkh; exact (hB kh hkh).2.2 rfl

end Mahotas.C01

open Mahotas Mahotas.C01

/-- **C01-T1 (erosion, all pixels).** For every integer dtype (generic in its range), every image of
every rank and shape with positive axis lengths, every admissible structuring element (flat or
non-flat, any shape: odd, even, empty, larger than the image) and every pixel `p`, the model of the
generic `erode` kernel — running minimum over the filter offsets, neighbour read through
`fix_offset(ExtendNearest)`, `erode_sub` with two's-complement wrap-around — equals the lattice
definition: the minimum over the members of the element of `clamp(A[clamp(p+k)] − h)`;
the empty minimum is the dtype maximum. -/
theorem C01_erode_eq_spec (dt : DT) (wf : dt.WF) (A : Img Int) (sup : List (List Int × Int))
    (p : List Int) (hs : ∀ d ∈ A.shape, 0 < d) (hA : ImageInRange dt A) (hB : AdmissibleElem dt sup) :
    erodeAt dt A sup p = erodeSpecAt dt A sup p := by
  unfold erodeAt erodeSpecAt
  have hnb := wf.notBool
  have key := erode_fold dt A p hs sup hA
    (by
      intro kh hkh a ha hm
      obtain ⟨hr, h0, _⟩ := hB kh hkh
      have hne : kh.2 ≠ dt.lo := by simpa [isMember, hnb] using hm
      rcases h0 with h0 | h0
      · rw [erodeSub_spec dt wf a kh.2 ha hr h0]; simp [hne, hnb]
      · exact absurd h0 hne)
    (by
      intro kh hkh a ha hm
      obtain ⟨hr, h0, _⟩ := hB kh hkh
      have he : kh.2 = dt.lo := by simpa [isMember, hnb] using hm
      unfold erodeSub
      simp [hnb, he])
    dt.hi (Int.le_refl _)
  exact key

/-- **C01-T1 (boolean erosion = AND over the support).** -/
theorem C01_erode_bool_eq_spec (A : Img Int) (sup : List (List Int × Int)) (p : List Int)
    (hs : ∀ d ∈ A.shape, 0 < d) (hA : ∀ q, A.getD q 0 = 0 ∨ A.getD q 0 = 1)
    (hB : ∀ kh ∈ sup, kh.2 = 1) :
    erodeAt dtBool A sup p = erodeSpecAt dtBool A sup p := by
  unfold erodeAt erodeSpecAt
  have key := erode_fold dtBool A p hs sup
    (by intro q; rcases hA q with h | h <;> simp [DT.InRange, dtBool, h])
    (by
      intro kh hkh a ha _
      have h1 := hB kh hkh
      have : a = 0 ∨ a = 1 := by
        simp only [DT.InRange, dtBool] at ha; omega
      unfold erodeSub
      rcases this with rfl | rfl <;> simp [dtBool, h1])
    (by
      intro kh hkh a _ hm
      have h1 := hB kh hkh
      simp [isMember, dtBool, h1] at hm)
    1 (by simp [dtBool])
  simpa [dtBool] using key

/-- **C01-T1 (the inner loop as written, whole array).** `erodeAtExit` is the inner loop of `erode<T>` with its
early exit (`if (value == min) break;`); `erodeModel` — the array the driver prints and the harness
compares with the real generic kernel — applies it at every pixel in scan order. For every integer dtype
and bool, every image of every rank and shape with positive axis lengths and every admissible element
(empty included: the `if (!N2)` branch fills the dtype maximum) the early exit never changes the value,
and the whole output array is the lattice definition at every pixel. -/
theorem C01_erode_model_eq_spec (dt : DT) (hdt : dt.WF ∨ dt = dtBool) (A : Img Int)
    (sup : List (List Int × Int)) (hs : ∀ d ∈ A.shape, 0 < d) (hA : ImageInRange dt A)
    (hB : AdmissibleElem dt sup) :
    (∀ p, erodeAtExit dt A sup p = erodeAt dt A sup p) ∧
    erodeModel dt A sup = ((allPos A.shape).map (erodeSpecAt dt A sup)).toArray := by
  have hexit : ∀ p, erodeAtExit dt A sup p = erodeAt dt A sup p := fun p =>
    erodeAtExit_eq dt hdt A sup p hs hA (fun kh hkh => ⟨(hB kh hkh).1, (hB kh hkh).2.1⟩)
  refine ⟨hexit, ?_⟩
  unfold erodeModel
  congr 1
  apply List.map_congr_left
  intro p _
  rw [hexit p]
  rcases hdt with wf | rfl
  · exact C01_erode_eq_spec dt wf A sup p hs hA hB
  · apply C01_erode_bool_eq_spec A sup p hs
    · intro q; have := hA q; simp only [DT.InRange, dtBool] at this; omega
    · intro kh hkh; exact (hB kh hkh).2.2 rfl

/-- **F10 restated as part of C01**: the kernel's saturating subtraction is `max lo (a − h)`,
    its saturating addition `min hi (a + h)`, for every dtype and all in-range operands. -/
theorem C01_saturating_arith (dt : DT) (wf : dt.WF) (a b : Int) (ha : dt.InRange a)
    (hb : dt.InRange b) (hb0 : 0 ≤ b) :
    erodeSub dt a b = (if b = dt.lo then dt.hi else dt.clamp (a - b)) ∧
    dilateAdd dt a b = (if a = dt.lo ∨ b = dt.lo then dt.lo else dt.clamp (a + b)) :=
  ⟨erodeSub_spec dt wf a b ha hb hb0, dilateAdd_spec dt wf a b ha hb hb0⟩

/-- **F1–F5 restated**: the neighbour a kernel reads for an out-of-image coordinate is the
    edge-replicated one (and `fix_offset` never yields an index outside the axis). -/
theorem C01_border_is_edge_replication (cc len : Int) (h : 0 < len) :
    fixOffset .nearest cc len = some (max 0 (min cc (len - 1))) ∧
    ∀ m r, fixOffset m cc len = some r → 0 ≤ r ∧ r < len :=
  ⟨fixOffset_nearest cc len h, fun m r => fixOffset_range m cc len h r⟩

/-- every offset produced by `support` (the list the driver feeds to the kernels) lies in the element box
    and has the rank of the element. -/
theorem C01_support_offsets_in_box (bshape : List Nat) (bc : Array Int) (compress : Bool) :
    OffsetsInBox bshape (support bshape bc compress) ∧
    ∀ kh ∈ support bshape bc compress, kh.1.length = bshape.length :=
  ⟨fun kh h => support_mem_boxOffsets bshape bc compress kh h,
   fun kh h => boxOffsets_length bshape kh.1 (support_mem_boxOffsets bshape bc compress kh h)⟩

/-- **C01-T3 (the scatter kernel is a pointwise maximum).** The model of the generic `dilate` kernel
walks over the pixels in scan order and, for every pixel `p` that is not the dtype minimum and every
entry `(k, h)` of the element, raises the output cell `clamp(p + k)` to `dilate_add(A p, h)` if that is
larger (a fold over an array). For every image of every rank and shape with positive axis lengths, every
support whose offsets have the rank of the image, and every flat index `i` of the output, the value `v`
left in cell `i` is the maximum of the dtype minimum and of `dilate_add(A p, h)` over all scatter
pairs `(p, (k, h))` for the pixel with index `i` — stated without reference to any order: `v` is an upper bound of `lo`
and of all those values, and it is `lo` or one of them. The output has as many cells as the image. -/
theorem C01_dilate_scatter_characterisation (dt : DT) (A : Img Int) (sup : List (List Int × Int))
    (hs : ∀ d ∈ A.shape, 0 < d) (hlen : ∀ kh ∈ sup, kh.1.length = A.shape.length)
    (i : Nat) (hi : i < A.size) :
    let v := (dilateModel dt A sup).getD i dt.lo
    let q := unravelI A.shape i
    (dilateModel dt A sup).size = A.size ∧ dt.lo ≤ v ∧
    (∀ p kh, Reaches dt A sup q p kh → dilateAdd dt (A.getD p dt.lo) kh.2 ≤ v) ∧
    (v = dt.lo ∨ ∃ p kh, Reaches dt A sup q p kh ∧ v = dilateAdd dt (A.getD p dt.lo) kh.2) := by
  intro v q
  have hq : inside A.shape q = true := C01.inside_unravelI A.shape i hi
  have hiq : ravelI A.shape q = i := C01.ravelI_unravelI A.shape i hi
  obtain ⟨hsz, hv⟩ := dilateModel_getD dt A hs sup i hi
  have hv' : v = listMax dt.lo (scatCands dt A sup i) := hv
  refine ⟨hsz, ?_, ?_, ?_⟩
  · rw [hv']; exact le_listMax_init _ _
  · rintro p kh ⟨hp, hkh, hne, ht⟩
    rw [hv']
    apply le_listMax_of_mem
    rw [mem_scatCands]
    refine ⟨p, hp, hne, kh, hkh, ?_, rfl⟩
    rw [← hiq, target_eq_iff A.shape hs p kh.1 q hp (hlen kh hkh) hq]; exact ht
  · rcases listMax_mem dt.lo (scatCands dt A sup i) with h | h
    · left; rw [hv']; exact h
    · right
      rw [mem_scatCands] at h
      obtain ⟨p, hp, hne, kh, hkh, ht, hx⟩ := h
      refine ⟨p, kh, ⟨hp, hkh, hne, ?_⟩, by rw [hv']; exact hx⟩
      rw [← hiq, target_eq_iff A.shape hs p kh.1 q hp (hlen kh hkh) hq] at ht; exact ht

/-- **C01-T3b (dilation at pixels whose neighbourhood lies inside the image).** For every integer dtype
and bool, every image of every rank and shape with positive axis lengths, every admissible structuring
element of the rank of the image (flat or not, regular or not, odd or even sized) and every pixel `q`
for which the element box placed at `q` and its reflection both lie inside the image, the cell of `q`
in the model of the generic `dilate` kernel (scatter with clamp) equals the lattice definition
(gather): the maximum over the members of the element of `saturate(A[q − k] + h)`, the dtype minimum being absorbing. -/
theorem C01_dilate_eq_spec_boxInterior (dt : DT) (hdt : DTypeOK dt) (A : Img Int) (bshape : List Nat)
    (sup : List (List Int × Int)) (q : List Int)
    (hs : ∀ d ∈ A.shape, 0 < d) (hl : bshape.length = A.shape.length) (hbox : OffsetsInBox bshape sup)
    (hA : ImageInRange dt A) (hB : AdmissibleElem dt sup)
    (hq : inside A.shape q = true) (hb : boxInterior A.shape bshape q = true) :
    (dilateModel dt A sup).getD (ravelI A.shape q) dt.lo = dilateSpecAt dt A sup q := by
  apply scatter_eq_gather_at dt A sup q hs hq
  · intro kh hkh; rw [boxOffsets_length bshape kh.1 (hbox kh hkh), hl]
  · exact valOK_of dt hdt A sup hA hB
  · intro p kh hp hkh hm ht
    obtain ⟨i, hi, hk⟩ := (mem_boxOffsets bshape kh.1).mp (hbox kh hkh)
    refine ⟨kh, hkh, hm, rfl, ?_⟩
    rw [hk] at ht ⊢
    exact boxInterior_scatter A.shape bshape q p i hl hb hp hq hi ht
  · intro kh hkh hm
    obtain ⟨i, hi, hk⟩ := (mem_boxOffsets bshape kh.1).mp (hbox kh hkh)
    refine ⟨kh, hkh, hm, rfl, ?_⟩
    rw [hk]
    exact boxInterior_gather A.shape bshape q i hl hb hq hi

/-- **C01-T4 (regular elements: dilation at every pixel).** If the members of the element form a
coordinate-wise star-shaped set (with `k` every offset between `0` and `k` is a member — the executable
test `starShaped` of the driver; centred crosses, boxes and disks pass it, see `C01_se_tables`) and
all members have the same height (`flatHeights`), then for every integer dtype and bool, every image of
every rank and shape with positive axis lengths and **every** pixel `q` of the image — border pixels
included, where the kernel's scatter is clamped — the model of the generic `dilate` kernel equals the
lattice definition (gather with clamp). -/
theorem C01_dilate_regular_everywhere (dt : DT) (hdt : DTypeOK dt) (A : Img Int) (bshape : List Nat)
    (sup : List (List Int × Int)) (q : List Int)
    (hs : ∀ d ∈ A.shape, 0 < d) (hl : bshape.length = A.shape.length) (hbox : OffsetsInBox bshape sup)
    (hA : ImageInRange dt A) (hB : AdmissibleElem dt sup)
    (hstar : starShaped bshape ((sup.filter (isMember dt)).map (·.1)) = true)
    (hflat : flatHeights ((sup.filter (isMember dt)).map (·.2)) = true)
    (hq : inside A.shape q = true) :
    (dilateModel dt A sup).getD (ravelI A.shape q) dt.lo = dilateSpecAt dt A sup q := by
  have hlen : ∀ kh ∈ sup, kh.1.length = A.shape.length := by
    intro kh hkh; rw [boxOffsets_length bshape kh.1 (hbox kh hkh), hl]
  apply scatter_eq_gather_at dt A sup q hs hq hlen (valOK_of dt hdt A sup hA hB)
  · intro p kh hp hkh hm ht
    obtain ⟨hbt, hg⟩ := star_scatter A.shape p q kh.1 hp hq (hlen kh hkh) ht
    obtain ⟨kh', hkh', hm', hh, hk'⟩ := star_exchange dt bshape sup hbox hstar hflat kh hkh hm _ hbt
    exact ⟨kh', hkh', hm', hh, by rw [hk']; exact hg⟩
  · intro kh hkh hm
    obtain ⟨hbt, hg⟩ := star_gather A.shape q kh.1 hq (hlen kh hkh)
    obtain ⟨kh', hkh', hm', hh, hk'⟩ := star_exchange dt bshape sup hbox hstar hflat kh hkh hm _ hbt
    exact ⟨kh', hkh', hm', hh, by rw [hk']; exact hg⟩

/-- **C01-T3b/T4 in the form the check uses.** The driver marks pixel `q` as *observed* when
`starShaped … && flatHeights … || boxInterior …` evaluates to true on the members of the support it built;
at every observed pixel the model of the generic `dilate` kernel equals the lattice definition. (The
harness compares the real output with `dilateSpecAt` exactly at these pixels, with the scatter model
everywhere.) -/
theorem C01_dilate_eq_spec_where_observed (dt : DT) (hdt : DTypeOK dt) (A : Img Int) (bshape : List Nat)
    (sup : List (List Int × Int)) (q : List Int)
    (hs : ∀ d ∈ A.shape, 0 < d) (hl : bshape.length = A.shape.length) (hbox : OffsetsInBox bshape sup)
    (hA : ImageInRange dt A) (hB : AdmissibleElem dt sup) (hq : inside A.shape q = true)
    (hobs : (starShaped bshape ((sup.filter (isMember dt)).map (·.1)) &&
             flatHeights ((sup.filter (isMember dt)).map (·.2)) ||
             boxInterior A.shape bshape q) = true) :
    (dilateModel dt A sup).getD (ravelI A.shape q) dt.lo = dilateSpecAt dt A sup q := by
  rw [Bool.or_eq_true, Bool.and_eq_true] at hobs
  rcases hobs with ⟨hstar, hflat⟩ | hb
  · exact C01_dilate_regular_everywhere dt hdt A bshape sup q hs hl hbox hA hB hstar hflat hq
  · exact C01_dilate_eq_spec_boxInterior dt hdt A bshape sup q hs hl hbox hA hB hq hb

/-- **C01-T2 (2-D boolean fast path, erosion).** For every 2-D boolean image (any shape `Ny × Nx`),
every 2-D structuring element given as an array of `By·Bx` entries (odd or even sized, empty, larger
than the image, with or without its centre) and every pixel `(y, x)` of the image, the pointwise model
of the erosion branch of `fast_binary_dilate_erode_2d` — centre handled separately (copy of the input or
all-true), offset list with `dx` clamped to `±Nx`, AND of the reads clamped to the image — equals the lattice
definition `erodeSpecAt` over the compressed support the generic kernel uses; hence (second part) it
equals the model of the generic `erode` kernel: which code path serves the call does not change the
answer. -/
theorem C01_fast_erode_eq_spec (A : Img Int) (Ny Nx By Bx : Nat) (bc : Array Int) (y x : Int)
    (hshape : A.shape = [Ny, Nx]) (hA : ∀ q, A.getD q 0 = 0 ∨ A.getD q 0 = 1)
    (hbc : bc.size = By * Bx) (hp : inside A.shape [y, x] = true) :
    fastErodeAt A [By, Bx] bc [y, x] = erodeSpecAt dtBool A (support [By, Bx] bc true) [y, x] ∧
    ((∀ i, bc.getD i 0 = 0 ∨ bc.getD i 0 = 1) →
      fastErodeAt A [By, Bx] bc [y, x] = erodeAt dtBool A (support [By, Bx] bc true) [y, x]) := by
  obtain ⟨shape, data⟩ := A
  simp only at hshape
  subst hshape
  obtain ⟨_, _, e, hy, hx⟩ := inside2 Ny Nx _ hp
  simp only [List.cons.injEq, and_true] at e
  obtain ⟨rfl, rfl⟩ := e
  have h1 := fastErodeAt_eq_spec Ny Nx data By Bx bc y x hA hbc hy hx
  refine ⟨h1, fun hbc01 => ?_⟩
  rw [h1]
  symm
  apply C01_erode_bool_eq_spec _ _ _ ?_ hA ?_
  · intro d hd
    have : d = Ny ∨ d = Nx := by simpa using hd
    rcases this with rfl | rfl <;> omega
  · intro kh hkh
    obtain ⟨i, _, hne, rfl⟩ := (mem_support2 By Bx bc kh).mp hkh
    rcases hbc01 i with h | h
    · exact absurd h hne
    · exact h

/-- **C01-T2, row loops (the erosion branch as written).** `fastErodeLoops` transliterates the erosion branch
of `fast_binary_dilate_erode_2d` loop by loop: the output is initialised with a copy of the input (centre
set) or all-true; for every row `y` and every offset `(dy, dx)` of the list, `dy` is adjusted so that
`y + dy` stays inside, a border loop of `|dx|` iterations ANDs the replicated edge pixel of the input row
into the far columns and the main loop of `Nx − |dx|` iterations ANDs the shifted input row into the
output row (flat 0/1 array, pointer arithmetic as index arithmetic). For every 2-D 0/1 image, every
element (any shape, including non-2-D shapes for which the offset list is empty) and every pixel, the cell
the loops leave is the pointwise form `fastErodeAt` — so by `C01_fast_erode_eq_spec` the loops compute the
lattice definition. The loop bounds `dx` (not `dx − 1`) and the clamping of `dx` to `±Nx` are what make
this true; the driver prints `fastErodeLoops` and the harness compares it with the real fast path. -/
theorem C01_fast_erode_loops_eq_pointwise (A : Img Int) (Ny Nx : Nat) (bshape : List Nat) (bc : Array Int)
    (y x : Int) (hshape : A.shape = [Ny, Nx]) (hdata : A.data.size = A.size)
    (hA : ∀ q, A.getD q 0 = 0 ∨ A.getD q 0 = 1) (hp : inside A.shape [y, x] = true) :
    (fastErodeLoops A bshape bc).size = A.size ∧
    (fastErodeLoops A bshape bc).getD (ravelI A.shape [y, x]) 0 = fastErodeAt A bshape bc [y, x] ∧
    (∀ By Bx, bshape = [By, Bx] → bc.size = By * Bx →
      (fastErodeLoops A bshape bc).getD (ravelI A.shape [y, x]) 0 =
        erodeSpecAt dtBool A (support bshape bc true) [y, x]) := by
  obtain ⟨shape, data⟩ := A
  simp only at hshape
  subst hshape
  obtain ⟨_, _, e, hy, hx⟩ := inside2 Ny Nx _ hp
  simp only [List.cons.injEq, and_true] at e
  obtain ⟨rfl, rfl⟩ := e
  have h01 := data01_of_img [Ny, Nx] data hdata hA
  obtain ⟨h1, h2⟩ := fastErodeLoops_cell Ny Nx data bshape bc hdata h01 y.toNat x.toNat (by omega) (by omega)
  have ey : ((y.toNat : Nat) : Int) = y := by omega
  have ex : ((x.toNat : Nat) : Int) = x := by omega
  rw [ey, ex] at h2
  have hr : ravelI [Ny, Nx] [y, x] = y.toNat * Nx + x.toNat := by simp [ravelI, shapeSize]
  rw [hr]
  refine ⟨h1, h2, ?_⟩
  rintro By Bx rfl hbc
  rw [h2]
  exact (C01_fast_erode_eq_spec ⟨[Ny, Nx], data⟩ Ny Nx By Bx bc y x rfl hA hbc hp).1

/-- **C01-T5 (2-D boolean fast path, dilation = generic kernel).** For every 2-D boolean
image (empty ones included) and every 2-D structuring element (odd or even sized, empty, larger than the image, regular or not)
the model of the dilation branch of `fast_binary_dilate_erode_2d` (as repaired: scatter with clamp, the
centre handled by the initial copy) produces the same array as the model of the generic `dilate` kernel
with the compressed support — at every pixel, border included. Together with T3b/T4 the fast path
therefore equals the lattice definition wherever the generic kernel does. -/
theorem C01_fast_dilate_eq_generic (A : Img Int) (Ny Nx By Bx : Nat) (bc : Array Int)
    (hshape : A.shape = [Ny, Nx]) (hdata : A.data.size = A.size)
    (hA : ∀ q, A.getD q 0 = 0 ∨ A.getD q 0 = 1) (hbc : bc.size = By * Bx) :
    fastDilate A [By, Bx] bc = dilateModel dtBool A (support [By, Bx] bc true) := by
  obtain ⟨shape, data⟩ := A
  simp only at hshape
  subst hshape
  by_cases h : 0 < Ny ∧ 0 < Nx
  · exact fastDilate_eq Ny Nx data By Bx bc h.1 h.2 hdata hA hbc
  · apply fastDilate_eq_empty Ny Nx data [By, Bx] bc _ hdata
    simp only [shapeSize, Nat.mul_one]
    rcases Nat.eq_zero_or_pos Ny with h1 | h1
    · simp [h1]
    · rcases Nat.eq_zero_or_pos Nx with h2 | h2
      · simp [h2]
      · exact absurd ⟨h1, h2⟩ h

/-- **C01-T4/T5 (both code paths equal the lattice definition).** For every 2-D boolean image and 0/1
element, the fast dilation branch equals the gather definition at every box-interior pixel, and at every
pixel when the element is star-shaped (cross, box, disk) — the same observables, with the same answer, as
the generic kernel. -/
theorem C01_fast_dilate_eq_spec (A : Img Int) (Ny Nx By Bx : Nat) (bc : Array Int) (q : List Int)
    (hshape : A.shape = [Ny, Nx]) (hdata : A.data.size = A.size)
    (hA : ∀ q, A.getD q 0 = 0 ∨ A.getD q 0 = 1) (hbc : bc.size = By * Bx)
    (hbc01 : ∀ i, bc.getD i 0 = 0 ∨ bc.getD i 0 = 1)
    (hq : inside A.shape q = true)
    (hobs : boxInterior A.shape [By, Bx] q = true ∨
      starShaped [By, Bx] ((support [By, Bx] bc true).map (·.1)) = true) :
    (fastDilate A [By, Bx] bc).getD (ravelI A.shape q) 0 =
      dilateSpecAt dtBool A (support [By, Bx] bc true) q := by
  rw [C01_fast_dilate_eq_generic A Ny Nx By Bx bc hshape hdata hA hbc]
  have hs : ∀ d ∈ A.shape, 0 < d := by
    rw [hshape] at hq ⊢
    obtain ⟨y, x, _, hy, hx⟩ := inside2 Ny Nx q hq
    intro d hd
    have : d = Ny ∨ d = Nx := by simpa using hd
    rcases this with rfl | rfl <;> omega
  have hl : [By, Bx].length = A.shape.length := by rw [hshape]; rfl
  have hIR : ImageInRange dtBool A := by
    intro p; rcases hA p with h | h <;> simp [DT.InRange, dtBool, h]
  have hones : ∀ kh ∈ support [By, Bx] bc true, kh.2 = 1 := by
    intro kh hkh
    obtain ⟨i, _, hne, rfl⟩ := (mem_support2 By Bx bc kh).mp hkh
    rcases hbc01 i with h | h
    · exact absurd h hne
    · exact h
  have hB : AdmissibleElem dtBool (support [By, Bx] bc true) := by
    intro kh hkh
    rw [hones kh hkh]
    exact ⟨⟨by decide, by decide⟩, Or.inl (by decide), fun _ => rfl⟩
  have hbox := (C01_support_offsets_in_box [By, Bx] bc true).1
  rcases hobs with hb | hstar
  · exact C01_dilate_eq_spec_boxInterior dtBool (Or.inr rfl) A [By, Bx] _ q hs hl hbox hIR hB hq hb
  · apply C01_dilate_regular_everywhere dtBool (Or.inr rfl) A [By, Bx] _ q hs hl hbox hIR hB _ _ hq
    · rw [support_filter_bool]; exact hstar
    · rw [support_filter_bool]
      apply flatHeights_of_const _ 1
      intro x hx
      obtain ⟨kh, hkh, rfl⟩ := List.mem_map.mp hx
      exact hones kh hkh

/-- **C01-T6 (structuring-element tables).** In every dimension `d`:
`crossElem d r` (what `get_structuring_elem` builds for `None`/an integer, `r` the translated radius) has
as members exactly the offsets `k ∈ {−1,0,1}^d` with `‖k‖₁ ≤ r` (`l1N` = sum of absolute values), and
`diskElem d r` (`disk(r, d)`) exactly the offsets `k ∈ {−r..r}^d` with `|k|² < r²` (`sqN` = sum of squares).
All member entries are 1 (flat); both pass the driver's executable regularity test (`starShaped`,
`flatHeights`) that `C01_dilate_regular_everywhere` assumes; both are symmetric (`k` member ⇒ `−k` member);
the cross contains the centre for `r ≥ 0`, the disk for `r ≥ 1`; `disk(0)` is the empty element. -/
theorem C01_se_tables (d : Nat) :
    (∀ r : Int,
      let M := support (List.replicate d 3) (crossElem d r) true
      (∀ k, k ∈ M.map (·.1) ↔ (k.length = d ∧ ∀ x ∈ k, -1 ≤ x ∧ x ≤ 1) ∧ l1N k ≤ r) ∧
      (∀ kh ∈ M, kh.2 = 1) ∧
      starShaped (List.replicate d 3) (M.map (·.1)) = true ∧ flatHeights (M.map (·.2)) = true ∧
      (∀ k ∈ M.map (·.1), negPos k ∈ M.map (·.1)) ∧
      (0 ≤ r → List.replicate d 0 ∈ M.map (·.1))) ∧
    (∀ r : Nat,
      let M := support (List.replicate d (2 * r + 1)) (diskElem d r) true
      (∀ k, k ∈ M.map (·.1) ↔ (k.length = d ∧ ∀ x ∈ k, -(r : Int) ≤ x ∧ x ≤ r) ∧ sqN k < (r : Int) * r) ∧
      (∀ kh ∈ M, kh.2 = 1) ∧
      starShaped (List.replicate d (2 * r + 1)) (M.map (·.1)) = true ∧ flatHeights (M.map (·.2)) = true ∧
      (∀ k ∈ M.map (·.1), negPos k ∈ M.map (·.1)) ∧
      (1 ≤ r → List.replicate d 0 ∈ M.map (·.1)) ∧
      (r = 0 → M = [])) := by
  constructor
  · intro r
    have h := ball_props d 1 (fun k => decide (l1N k ≤ r))
      (fun k' k hb hk => by
        have := (norms_between k' k hb).1
        simp only [decide_eq_true_eq] at hk ⊢; omega)
      (fun k hk => by
        have := (norms_neg k).1
        simp only [decide_eq_true_eq] at hk ⊢; omega)
    rw [← crossElem_eq] at h
    obtain ⟨h1, h2, h3, h4, h5, h6, _⟩ := h
    refine ⟨?_, h2, h3, h4, h5, ?_⟩
    · intro k; rw [h1 k]; simp
    · intro hr; apply h6
      have := (norms_zero d).1
      simp only [decide_eq_true_eq]; omega
  · intro r
    have h := ball_props d r (fun k => decide (sqN k < ((r * r : Nat) : Int)))
      (fun k' k hb hk => by
        have := (norms_between k' k hb).2
        simp only [decide_eq_true_eq] at hk ⊢; omega)
      (fun k hk => by
        have := (norms_neg k).2
        simp only [decide_eq_true_eq] at hk ⊢; omega)
    rw [← diskElem_eq] at h
    obtain ⟨h1, h2, h3, h4, h5, h6, h7⟩ := h
    refine ⟨?_, h2, h3, h4, h5, ?_, ?_⟩
    · intro k; rw [h1 k]; simp
    · intro hr; apply h6
      have := (norms_zero d).2
      have hpos : 0 < r * r := Nat.mul_pos hr hr
      simp only [decide_eq_true_eq]; omega
    · intro hr; apply h7
      intro k
      subst hr
      have := sqN_nonneg k
      simp only [decide_eq_false_iff_not]; omega

/-- **C01-T4 + T6 (dilation at every pixel for a centred cross, box or disk).** For bool and every unsigned
integer dtype, every image of every rank `d` and shape with positive axis lengths, and for the structuring
element being `crossElem d r` (any radius), `diskElem d r` (any radius) or an all-ones box of any shape
(odd or even sized), the model of the generic `dilate` kernel, run on the support exactly as the driver
builds it (`support bshape bc dt.isBool`), equals the lattice definition at **every** pixel. (For signed
dtypes a 0 entry is a member of height 0 — the element is then not flat and only
`C01_dilate_eq_spec_boxInterior` applies.) -/
theorem C01_dilate_cross_box_disk_everywhere (dt : DT) (hdt : DTypeOK dt) (hlo : dt.lo = 0) (A : Img Int)
    (bshape : List Nat) (bc : Array Int) (q : List Int)
    (hs : ∀ d ∈ A.shape, 0 < d) (hA : ImageInRange dt A) (hq : inside A.shape q = true)
    (hreg : (∃ r : Int, bshape = List.replicate A.shape.length 3 ∧ bc = crossElem A.shape.length r) ∨
            (∃ r : Nat, bshape = List.replicate A.shape.length (2 * r + 1) ∧ bc = diskElem A.shape.length r) ∨
            (bshape.length = A.shape.length ∧ ∀ i, i < shapeSize bshape → bc.getD i 0 = 1)) :
    (dilateModel dt A (support bshape bc dt.isBool)).getD (ravelI A.shape q) dt.lo =
      dilateSpecAt dt A (support bshape bc dt.isBool) q := by
  -- regularity of the compressed support, entries 0/1, rank
  have key : bshape.length = A.shape.length ∧
      (starShaped bshape ((support bshape bc true).map (·.1)) = true ∧
       flatHeights ((support bshape bc true).map (·.2)) = true ∧ ∀ kh ∈ support bshape bc true, kh.2 = 1) ∧
      (∀ i, i < shapeSize bshape → bc.getD i 0 = 0 ∨ bc.getD i 0 = 1) := by
    rcases hreg with ⟨r, rfl, rfl⟩ | ⟨r, rfl, rfl⟩ | ⟨hl, h1⟩
    · refine ⟨by simp, ?_, ?_⟩
      · have := C01_se_tables A.shape.length
        obtain ⟨_, h2, h3, h4, _⟩ := this.1 r
        exact ⟨h3, h4, h2⟩
      · intro i hi; rw [crossElem_eq]; exact ballElem_entries _ 1 _ i hi
    · refine ⟨by simp, ?_, ?_⟩
      · have := C01_se_tables A.shape.length
        obtain ⟨_, h2, h3, h4, _⟩ := this.2 r
        exact ⟨h3, h4, h2⟩
      · intro i hi; rw [diskElem_eq]; exact ballElem_entries _ r _ i hi
    · exact ⟨hl, box_regular bshape bc h1, fun i hi => Or.inr (h1 i hi)⟩
  obtain ⟨hl, ⟨hstar, hflat, hones⟩, h01⟩ := key
  have hfilter : (support bshape bc dt.isBool).filter (isMember dt) = support bshape bc true := by
    rcases hdt with wf | rfl
    · rw [wf.notBool]; exact support_filter_unsigned dt hlo wf.notBool bshape bc
    · exact support_filter_bool bshape bc
  have hB : AdmissibleElem dt (support bshape bc dt.isBool) := by
    intro kh hkh
    obtain ⟨i, hi, he⟩ := support_heights bshape bc _ kh hkh
    rcases hdt with wf | rfl
    · have := wf.hi_pos
      rcases h01 i hi with h | h
      · rw [he, h]; exact ⟨⟨by omega, by omega⟩, Or.inl (Int.le_refl _), by simp [wf.notBool]⟩
      · rw [he, h]; exact ⟨⟨by omega, by omega⟩, Or.inl (by decide), by simp [wf.notBool]⟩
    · have h1 := hones kh hkh
      rw [h1]; exact ⟨⟨by decide, by decide⟩, Or.inl (by decide), fun _ => rfl⟩
  exact C01_dilate_regular_everywhere dt hdt A bshape _ q hs hl
    (C01_support_offsets_in_box bshape bc _).1 hA hB (by rw [hfilter]; exact hstar)
    (by rw [hfilter]; exact hflat) hq

/-- **C01-T6 (tables extracted from the sources).** `Generated.defaultCross` (the literal 2-D default of
`get_structuring_elem`) and `Generated.translateSizes` (its `translate_sizes` table) are regenerated from
`morph.py` on every run; the literal cross is `crossElem 2 1`, and the table sends the connectivity
counts (2-D, 4) ↦ radius 1, (2-D, 8) ↦ 2, (3-D, 6) ↦ 1, whose ℓ1 balls have 5, 9 and 7 members — one more
(the centre) than the number of neighbours asked for. -/
theorem C01_se_tables_generated :
    Generated.defaultCross = (crossElem 2 1).toList ∧
    Generated.translateSizes = [(2, 4, 1), (2, 8, 2), (3, 6, 1)] ∧
    (Generated.translateSizes.map fun t =>
      ((crossElem t.1 (t.2.2 : Int)).toList.filter (· ≠ 0)).length) = [5, 9, 7] ∧
    (Generated.translateSizes.all fun t =>
      ((crossElem t.1 (t.2.2 : Int)).toList.filter (· ≠ 0)).length == t.2.1 + 1) = true := by
  decide +kernel

/-- **C01-T5, row loops (the dilation branch as written).** `fastDilateLoops` transliterates the dilation
branch of `fast_binary_dilate_erode_2d` (as repaired) loop by loop: output initialised with a copy of the
input (centre set) or all-false; for every row `y` and offset `(dy, dx)`, `dy` adjusted so that `y + dy`
stays inside, a border loop of `|dx|` iterations ORs the pixels that would leave the image into the edge
cell of the output row and the main loop of `Nx − |dx|` iterations ORs the input row into the shifted
output row. For every 2-D 0/1 image (empty ones included) and every element the loops produce the same
array as the pointwise scatter `fastDilate`, hence (by `C01_fast_dilate_eq_generic`) the same array as the
generic kernel. The driver prints `fastDilateLoops`; the harness compares it with the real fast path. -/
theorem C01_fast_dilate_loops_eq_pointwise (A : Img Int) (Ny Nx : Nat) (bshape : List Nat) (bc : Array Int)
    (hshape : A.shape = [Ny, Nx]) (hdata : A.data.size = A.size)
    (hA : ∀ q, A.getD q 0 = 0 ∨ A.getD q 0 = 1) :
    fastDilateLoops A bshape bc = fastDilate A bshape bc := by
  obtain ⟨shape, data⟩ := A
  simp only at hshape
  subst hshape
  exact fastDilateLoops_eq Ny Nx data bshape bc hdata (data01_of_img [Ny, Nx] data hdata hA)

/-! non-vacuity: a 2×3 int8 image with negative values and a non-flat, even-sized element
    meets every hypothesis of `C01_erode_eq_spec`; the early exit of `erodeModel` fires (values −128). -/
example :
    let A : Img Int := { shape := [2, 3], data := #[-128, 5, 127, -3, 0, 7] }
    let sup := support [2, 2] #[0, 3, -128, 1] false
    (∀ d ∈ A.shape, 0 < d) ∧ (sup.length = 4) ∧
      (allPos A.shape).map (erodeAt (dtI 8) A sup) = [-128, -128, 5, -128, -128, 5] ∧
      (erodeModel (dtI 8) A sup).toList = [-128, -128, 5, -128, -128, 5] := by
  decide +kernel

/-! non-vacuity of T3/T3b: a 3×4 int8 image, an even-sized non-flat irregular element with an absent entry.
    The two box-interior pixels agree with the gather definition; border pixels (where the statement
    is silent) differ — the box-interior hypothesis is not idle. -/
example :
    let A : Img Int := { shape := [3, 4], data := #[-128, 5, 127, -3, 0, 7, -128, 100, 1, 2, 3, 4] }
    let sup := support [2, 2] #[0, 3, -128, 1] false
    (allPos A.shape).map (boxInterior A.shape [2, 2]) =
      [false, false, false, false, false, true, true, false, false, false, false, false] ∧
    (dilateModel (dtI 8) A sup).toList = [7, 127, 127, 103, 4, 8, 6, 101, 2, 3, 4, 5] ∧
    (allPos A.shape).map (dilateSpecAt (dtI 8) A sup) = [7, 10, 127, 103, 4, 8, 6, 101, 4, 5, 6, 7] := by
  decide +kernel

/-! non-vacuity of T4: the 1×3 box passes the executable regularity test and scatter = gather at
    every pixel; the one-sided element `{+1}` fails the test and scatter ≠ gather at the border. -/
example :
    let A : Img Int := { shape := [1, 3], data := #[5, 0, 0] }
    let box := support [1, 3] #[1, 1, 1] false
    let shift := support [1, 3] #[0, 0, 1] false
    let mem := fun (s : List (List Int × Int)) => s.filter (isMember (dtU 8))
    starShaped [1, 3] ((mem box).map (·.1)) = true ∧ flatHeights ((mem box).map (·.2)) = true ∧
    (dilateModel (dtU 8) A box).toList = (allPos A.shape).map (dilateSpecAt (dtU 8) A box) ∧
    starShaped [1, 3] ((mem shift).map (·.1)) = false ∧
    (dilateModel (dtU 8) A shift).toList = [0, 6, 0] ∧
    (allPos A.shape).map (dilateSpecAt (dtU 8) A shift) = [6, 6, 0] := by
  decide +kernel

/-! non-vacuity of T2/T5: the 3×4 image and the asymmetric 3×3 element (centre absent) on which the pinned
    fast path was wrong, and a 2×2 image under a 5×5 element whose offsets are clamped to `±Nx`:
    the fast model equals the specification / the generic model; for the irregular element the scatter
    result differs from the gather definition at a border pixel (index 7), where the statement is silent. -/
example :
    let A : Img Int := { shape := [3, 4], data := #[1,1,0,1, 1,1,1,1, 0,1,1,1] }
    let D : Img Int := { shape := [3, 4], data := #[0,0,0,1, 0,0,0,0, 1,0,0,0] }
    let bc : Array Int := #[1,0,1, 1,0,1, 0,0,1]
    let sup := support [3, 3] bc true
    (allPos A.shape).map (fastErodeAt A [3, 3] bc) = [1, 0, 1, 0, 1, 0, 1, 0, 0, 0, 1, 1] ∧
    (allPos A.shape).map (erodeSpecAt dtBool A sup) = [1, 0, 1, 0, 1, 0, 1, 0, 0, 0, 1, 1] ∧
    (fastErodeLoops A [3, 3] bc).toList = [1, 0, 1, 0, 1, 0, 1, 0, 0, 0, 1, 1] ∧
    (fastDilate D [3, 3] bc).toList = [0, 0, 1, 1, 1, 1, 0, 1, 1, 1, 0, 0] ∧
    (fastDilateLoops D [3, 3] bc).toList = [0, 0, 1, 1, 1, 1, 0, 1, 1, 1, 0, 0] ∧
    (dilateModel dtBool D sup).toList = [0, 0, 1, 1, 1, 1, 0, 1, 1, 1, 0, 0] ∧
    (allPos D.shape).map (dilateSpecAt dtBool D sup) = [0, 0, 1, 1, 1, 1, 0, 0, 1, 1, 0, 0] := by
  decide +kernel

example :
    let A : Img Int := { shape := [2, 2], data := #[1, 0, 0, 0] }
    let bc : Array Int := #[0,0,0,0,1, 0,0,0,0,0, 0,0,0,0,0, 0,0,0,0,0, 1,0,0,0,0]
    fastPositions 2 [5, 5] bc true = [(-2, 2), (2, -2)] ∧
    (allPos A.shape).map (fastErodeAt A [5, 5] bc) = [0, 0, 0, 0] ∧
    (fastDilate A [5, 5] bc).toList = [0, 1, 1, 0] ∧
    (dilateModel dtBool A (support [5, 5] bc true)).toList = [0, 1, 1, 0] := by
  decide +kernel

/-! non-vacuity of T4 + T6: a 2×3 uint8 image under the default cross meets every hypothesis of
    `C01_dilate_cross_box_disk_everywhere` (here at the corner pixel, where the scatter is clamped),
    and the cross is what the tables say. -/
example :
    let A : Img Int := { shape := [2, 3], data := #[0, 200, 255, 7, 0, 31] }
    let sup := support [3, 3] (crossElem 2 1) false
    (dilateModel (dtU 8) A sup).getD (ravelI A.shape [0, 0]) 0 = dilateSpecAt (dtU 8) A sup [0, 0] :=
  C01_dilate_cross_box_disk_everywhere (dtU 8) (Or.inl wf_u8) rfl _ [3, 3] (crossElem 2 1) [0, 0]
    (by decide) (imageInRange_of_data _ _ (by simp [DT.InRange, dtU]) (by simp [DT.InRange, dtU])) (by decide) (Or.inl ⟨1, rfl, rfl⟩)

example :
    (support [3, 3] (crossElem 2 1) true).map (·.1) = [[-1, 0], [0, -1], [0, 0], [0, 1], [1, 0]] ∧
    (diskElem 2 2).toList = [0,0,0,0,0, 0,1,1,1,0, 0,1,1,1,0, 0,1,1,1,0, 0,0,0,0,0] ∧
    (diskElem 2 0).toList = [0] := by
  decide +kernel

/-! ## Round 3: the Python dispatch (`get_structuring_elem`) and the C++ dispatch (`py_erode`/`py_dilate`) -/

/-- **C01-T6b (`get_structuring_elem`, the dispatch on `Bc`).** `getStructuringElem dt d Bc` transliterates
`get_structuring_elem(A, Bc)` for an array `A` of dtype `dt` and rank `d` (any `d`, 0 included): `None` becomes 1; a Python
`int` that is a key `(d, Bc)` of `translate_sizes` (the table regenerated from `morph.py`) is replaced by the
table's radius; the 2-D/radius-1 case returns the literal 3×3 cross and every other integer runs the loop
over `{0,1,2}^d` (`crossLoop`, a fold setting cells of a zero array); an array of another rank raises, an array
of the right rank is cast to `dt`, raises if it has a zero-length axis, and is otherwise passed through.
The theorem states, for every `dt` and `d`:
(1, 2) `None` and `1` give the ℓ1 ball of radius 1 in `{0,1,2}^d` (`crossElem d 1`, shape `(3,)*d`);
(3) every integer `v` — negative, zero and huge ones included, Python accepts them all — gives
`crossElem d (seRadius d v)`, whose members are exactly the offsets `k ∈ {−1,0,1}^d` with `‖k‖₁ ≤ seRadius d v`
(so a negative radius gives the empty element, 0 only the centre, anything `≥ d` the full box);
(4–6) `seRadius d v` is the translated radius for the three keys of `translate_sizes` ((2-D, 4) ↦ 1,
(2-D, 8) ↦ 2, (3-D, 6) ↦ 1: every row of the generated table is honoured) and `v` itself for every other pair;
(7) an array whose rank differs from `d` is rejected (`ValueError`), (8) an array of rank `d` with a zero-length
axis is rejected (the guard added by fix c895f82), (9) any other array of rank `d` is returned with its shape and with
every entry cast to `dt` (`castTo`: `x != 0` for bool, the value modulo `2^bits` for integers), and (10) if
its entries are representable in `dt` (bool: 0/1) it is returned unchanged. Not modelled: arguments that are
neither `None`, `int` nor an integer/boolean ndarray (lists and `bool`s raise `AttributeError`; float arrays
are truncated by numpy). -/
theorem C01_get_structuring_elem_spec (dt : DT) (d : Nat) :
    getStructuringElem dt d .none = .ok (List.replicate d 3, crossElem d 1) ∧
    getStructuringElem dt d (.int 1) = .ok (List.replicate d 3, crossElem d 1) ∧
    (∀ v : Int,
      getStructuringElem dt d (.int v) = .ok (List.replicate d 3, crossElem d (seRadius d v)) ∧
      ∀ k, k ∈ (support (List.replicate d 3) (crossElem d (seRadius d v)) true).map (·.1) ↔
        (k.length = d ∧ ∀ x ∈ k, -1 ≤ x ∧ x ≤ 1) ∧ l1N k ≤ seRadius d v) ∧
    (∀ v : Int, seRadius d v =
      if d = 2 ∧ v = 4 then 1 else if d = 2 ∧ v = 8 then 2 else if d = 3 ∧ v = 6 then 1 else v) ∧
    (∀ c r : Nat, (d, c, r) ∈ Generated.translateSizes → seRadius d (c : Int) = (r : Int)) ∧
    (∀ v : Int, (∀ t ∈ Generated.translateSizes, ¬ (t.1 = d ∧ (t.2.1 : Int) = v)) → seRadius d v = v) ∧
    (∀ bshape bc, bshape.length ≠ d → getStructuringElem dt d (.array bshape bc) = .error .rank) ∧
    (∀ bshape bc, bshape.length = d → shapeSize bshape = 0 →
      getStructuringElem dt d (.array bshape bc) = .error .empty) ∧
    (∀ bshape bc, bshape.length = d → shapeSize bshape ≠ 0 →
      getStructuringElem dt d (.array bshape bc) = .ok (bshape, bc.map (castTo dt))) ∧
    (∀ bshape bc, DTypeOK dt → bshape.length = d → shapeSize bshape ≠ 0 → (∀ x ∈ bc.toList, dt.InRange x) →
      getStructuringElem dt d (.array bshape bc) = .ok (bshape, bc)) := by
  have hrad : ∀ v : Int, seRadius d v =
      if d = 2 ∧ v = 4 then 1 else if d = 2 ∧ v = 8 then 2 else if d = 3 ∧ v = 6 then 1 else v := by
    intro v
    unfold seRadius
    rw [translateLookup_eq]
    by_cases h1 : d = 2 ∧ v = 4 <;> by_cases h2 : d = 2 ∧ v = 8 <;> by_cases h3 : d = 3 ∧ v = 6 <;>
      simp [h1, h2, h3]
  have harr : ∀ bshape bc, bshape.length = d → shapeSize bshape ≠ 0 →
      getStructuringElem dt d (.array bshape bc) = .ok (bshape, bc.map (castTo dt)) := by
    intro bshape bc hl hz
    simp [getStructuringElem, hl, hz]
  refine ⟨getSE_none dt d, ?_, ?_, hrad, ?_, ?_, ?_, ?_, harr, ?_⟩
  · rw [getSE_int, hrad]
    have : ¬ ((1 : Int) = 4) ∧ ¬ ((1 : Int) = 8) ∧ ¬ ((1 : Int) = 6) := by decide
    simp [this]
  · intro v
    exact ⟨getSE_int dt d v, ((C01_se_tables d).1 (seRadius d v)).1⟩
  · intro c r h
    rw [hrad]
    simp only [Generated.translateSizes, List.mem_cons, Prod.mk.injEq, List.mem_nil_iff, or_false] at h
    rcases h with ⟨rfl, rfl, rfl⟩ | ⟨rfl, rfl, rfl⟩ | ⟨rfl, rfl, rfl⟩ <;> simp
  · intro v h
    rw [hrad]
    have h1 : ¬ (2 = d ∧ (4 : Int) = v) := by simpa using h (2, 4, 1) (by simp [Generated.translateSizes])
    have h2 : ¬ (2 = d ∧ (8 : Int) = v) := by simpa using h (2, 8, 2) (by simp [Generated.translateSizes])
    have h3 : ¬ (3 = d ∧ (6 : Int) = v) := by simpa using h (3, 6, 1) (by simp [Generated.translateSizes])
    have e1 : ¬ (d = 2 ∧ v = 4) := fun ⟨a, b⟩ => h1 ⟨a.symm, b.symm⟩
    have e2 : ¬ (d = 2 ∧ v = 8) := fun ⟨a, b⟩ => h2 ⟨a.symm, b.symm⟩
    have e3 : ¬ (d = 3 ∧ v = 6) := fun ⟨a, b⟩ => h3 ⟨a.symm, b.symm⟩
    simp only [e1, e2, e3, if_false]
  · intro bshape bc hl
    have : (d != bshape.length) = true := by simpa using fun h => hl h.symm
    simp [getStructuringElem, this]
  · intro bshape bc hl hz
    simp [getStructuringElem, hl, hz]
  · intro bshape bc hdt hl hz hr
    rw [harr bshape bc hl hz, map_castTo_id dt hdt bc hr]

/-- **C01-T5b (the C++ dispatch never changes the answer).** `pathOf dt ndim flags` transliterates the test
of `py_erode`/`py_dilate` — `check_type<bool>(array) && PyArray_NDIM(array) == 2 && PyArray_ISCARRAY(array)`
(C-contiguous, aligned, writeable, native byte order) — and `erodeDispatch`/`dilateDispatch` run the fast
binary branch **as the row loops are written** (`fastErodeLoops`, `fastDilateLoops`) when it says `fast`, and
the generic kernel with the footprint it builds (`support bshape bc dt.isBool`) otherwise. For every integer
dtype and bool, every image of every rank and shape (empty images included) stored with as many cells as its
shape says, with values representable in the dtype, every element of the rank of the image (what `py_erode` checks;
any shape: odd, even, larger than the image, empty) with 0/1 entries when the image is boolean, and **all**
flag combinations: the dispatched result is the array the generic kernel returns — for erosion and for
dilation, at every pixel, border included. Hence any two layouts/flag settings of the same logical input get
the same answer: which code path serves the call never changes the result. -/
theorem C01_path_independent (dt : DT) (hdt : DTypeOK dt) (A : Img Int) (bshape : List Nat) (bc : Array Int)
    (hrank : bshape.length = A.shape.length) (hdata : A.data.size = A.size)
    (hbc : bc.size = shapeSize bshape) (hA : ImageInRange dt A)
    (hB : dt.isBool = true → ∀ i, bc.getD i 0 = 0 ∨ bc.getD i 0 = 1) :
    (∀ fl, erodeDispatch dt fl A bshape bc = erodeModel dt A (support bshape bc dt.isBool)) ∧
    (∀ fl, dilateDispatch dt fl A bshape bc = dilateModel dt A (support bshape bc dt.isBool)) ∧
    (∀ fl fl', erodeDispatch dt fl A bshape bc = erodeDispatch dt fl' A bshape bc ∧
      dilateDispatch dt fl A bshape bc = dilateDispatch dt fl' A bshape bc) := by
  -- what the fast path is entitled to: a 2-D boolean image and a 2-D 0/1 element
  have fastcase : ∀ fl, pathOf dt A.shape.length fl = .fast →
      dt = dtBool ∧ ∃ Ny Nx By Bx, A.shape = [Ny, Nx] ∧ bshape = [By, Bx] := by
    intro fl h
    obtain ⟨hb, h2, _⟩ := pathOf_fast dt _ fl h
    refine ⟨isBool_eq dt hdt hb, ?_⟩
    rw [h2] at hrank
    match hA' : A.shape, hB' : bshape, h2, hrank with
    | [Ny, Nx], [By, Bx], _, _ => exact ⟨Ny, Nx, By, Bx, rfl, rfl⟩
  have he : ∀ fl, erodeDispatch dt fl A bshape bc = erodeModel dt A (support bshape bc dt.isBool) := by
    intro fl
    unfold erodeDispatch
    cases hp : pathOf dt A.shape.length fl with
    | generic => rfl
    | fast =>
      obtain ⟨rfl, Ny, Nx, By, Bx, hshape, rfl⟩ := fastcase fl hp
      have hbc01 := hB rfl
      have hA01 : ∀ q, A.getD q 0 = 0 ∨ A.getD q 0 = 1 := by
        intro q; have := hA q; simp only [DT.InRange, dtBool] at this; omega
      have hbc' : bc.size = By * Bx := by rw [hbc]; simp [shapeSize]
      show fastErodeLoops A [By, Bx] bc = erodeModel dtBool A (support [By, Bx] bc true)
      apply array_eq_of_cells _ _ A.size
      · obtain ⟨shape, data⟩ := A
        simp only at hshape; subst hshape
        exact fastErodeLoops_size Ny Nx data _ bc hdata
      · exact erodeModel_size _ _ _
      · intro i hi
        have hin := C01.inside_unravelI A.shape i hi
        have hrv := C01.ravelI_unravelI A.shape i hi
        have hs : ∀ d ∈ A.shape, 0 < d := by
          intro d hd
          rw [hshape] at hd
          have hsz : A.size = Ny * Nx := by simp [Img.size, hshape, shapeSize]
          have hpos : 0 < Ny * Nx := by omega
          have : d = Ny ∨ d = Nx := by simpa using hd
          rcases this with rfl | rfl
          · exact Nat.pos_of_mul_pos_right hpos
          · exact Nat.pos_of_mul_pos_left hpos
        rw [erodeModel_getD _ _ _ i hi]
        have hin2 := hin
        rw [hshape] at hin2
        obtain ⟨y, x, hyx, _, _⟩ := inside2 Ny Nx _ hin2
        have hp' : inside A.shape [y, x] = true := by rw [← hyx, ← hshape]; exact hin
        have hones : ∀ kh ∈ support [By, Bx] bc true, kh.2 = 1 := by
          intro kh hkh
          obtain ⟨j, _, hne, rfl⟩ := (mem_support2 By Bx bc kh).mp hkh
          rcases hbc01 j with h | h
          · exact absurd h hne
          · exact h
        rw [erodeAtExit_eq dtBool (Or.inr rfl) A _ _ hs hA
          (fun kh hkh => by rw [hones kh hkh]; exact ⟨⟨by decide, by decide⟩, Or.inl (by decide)⟩)]
        have h1 := (C01_fast_erode_loops_eq_pointwise A Ny Nx [By, Bx] bc y x hshape hdata hA01 hp').2.1
        have h2 := (C01_fast_erode_eq_spec A Ny Nx By Bx bc y x hshape hA01 hbc' hp').2 hbc01
        rw [← hyx, ← hshape, hrv] at h1
        rw [← hyx, ← hshape] at h2
        rw [h1]
        exact h2
  have hd : ∀ fl, dilateDispatch dt fl A bshape bc = dilateModel dt A (support bshape bc dt.isBool) := by
    intro fl
    unfold dilateDispatch
    cases hp : pathOf dt A.shape.length fl with
    | generic => rfl
    | fast =>
      obtain ⟨rfl, Ny, Nx, By, Bx, hshape, rfl⟩ := fastcase fl hp
      have hA01 : ∀ q, A.getD q 0 = 0 ∨ A.getD q 0 = 1 := by
        intro q; have := hA q; simp only [DT.InRange, dtBool] at this; omega
      have hbc' : bc.size = By * Bx := by rw [hbc]; simp [shapeSize]
      show fastDilateLoops A [By, Bx] bc = dilateModel dtBool A (support [By, Bx] bc true)
      rw [C01_fast_dilate_loops_eq_pointwise A Ny Nx [By, Bx] bc hshape hdata hA01]
      exact C01_fast_dilate_eq_generic A Ny Nx By Bx bc hshape hdata hA01 hbc'
  exact ⟨he, hd, fun fl fl' => ⟨by rw [he fl, he fl'], by rw [hd fl, hd fl']⟩⟩

namespace Mahotas.C01

/-- a 0/1 element is admissible for every dtype of the statement (for bool the kernel sees the compressed footprint) -/
theorem admissible_of_01 (dt : DT) (hdt : DTypeOK dt) (bshape : List Nat) (bc : Array Int)
    (h01 : ∀ i, bc.getD i 0 = 0 ∨ bc.getD i 0 = 1) : AdmissibleElem dt (support bshape bc dt.isBool) := by
  intro kh hkh
  obtain ⟨i, _, he⟩ := support_heights bshape bc _ kh hkh
  rcases hdt with wf | rfl
  · have := wf.hi_pos
    have hlo : dt.lo ≤ 0 := by rcases wf.lo_cases with h | h <;> omega
    rcases h01 i with h | h
    · rw [he, h]; exact ⟨⟨hlo, by omega⟩, Or.inl (Int.le_refl _), by simp [wf.notBool]⟩
    · rw [he, h]; exact ⟨⟨by omega, by omega⟩, Or.inl (by decide), by simp [wf.notBool]⟩
  · have hne : kh.2 ≠ 0 := by
      have hm : kh ∈ (support bshape bc true).filter (isMember dtBool) := by
        rw [support_filter_bool]; exact hkh
      have := (List.mem_filter.mp hm).2
      simpa [isMember, dtBool] using this
    have h1 : kh.2 = 1 := by
      rcases h01 i with h | h
      · rw [he] at hne; exact absurd h hne
      · rw [he]; exact h
    rw [h1]; exact ⟨⟨by decide, by decide⟩, Or.inl (by decide), fun _ => rfl⟩

end Mahotas.C01

/-- **C01-T1…T5 through the dispatch (what `_morph.erode` / `_morph.dilate` return equals the lattice
definition).** For every integer dtype and bool, every flag combination of the input array (hence whichever
of the two code paths `py_erode`/`py_dilate` choose), every image of every rank and shape with positive axis
lengths and in-range values, and every admissible structuring element of the rank of the image: the array
returned by the dispatched erosion is the lattice definition at every pixel, and the cell of every pixel `q`
the check observes — every pixel when the members are flat and star-shaped (cross, box, disk), the pixels
whose element box and reflected box lie inside the image otherwise — in the dispatched dilation is the
lattice definition (gather). -/
theorem C01_dispatch_eq_spec (dt : DT) (hdt : DTypeOK dt) (fl : ArrFlags) (A : Img Int) (bshape : List Nat)
    (bc : Array Int) (hs : ∀ d ∈ A.shape, 0 < d) (hrank : bshape.length = A.shape.length)
    (hdata : A.data.size = A.size) (hbc : bc.size = shapeSize bshape) (hA : ImageInRange dt A)
    (hB : AdmissibleElem dt (support bshape bc dt.isBool)) :
    erodeDispatch dt fl A bshape bc =
      ((allPos A.shape).map (erodeSpecAt dt A (support bshape bc dt.isBool))).toArray ∧
    ∀ q, inside A.shape q = true →
      (starShaped bshape (((support bshape bc dt.isBool).filter (isMember dt)).map (·.1)) &&
        flatHeights (((support bshape bc dt.isBool).filter (isMember dt)).map (·.2)) ||
        boxInterior A.shape bshape q) = true →
      (dilateDispatch dt fl A bshape bc).getD (ravelI A.shape q) dt.lo =
        dilateSpecAt dt A (support bshape bc dt.isBool) q := by
  have hB01 : dt.isBool = true → ∀ i, bc.getD i 0 = 0 ∨ bc.getD i 0 = 1 := by
    intro hb i
    by_cases h0 : bc.getD i 0 = 0
    · exact Or.inl h0
    · right
      have hi : i < shapeSize bshape := by rw [← hbc]; exact getD_ne_lt bc i h0
      exact (hB _ (mem_support_of bshape bc dt.isBool i hi h0)).2.2 hb
  obtain ⟨he, hd, _⟩ := C01_path_independent dt hdt A bshape bc hrank hdata hbc hA hB01
  refine ⟨?_, fun q hq hobs => ?_⟩
  · rw [he fl]
    exact (C01_erode_model_eq_spec dt hdt A _ hs hA hB).2
  · rw [hd fl]
    exact C01_dilate_eq_spec_where_observed dt hdt A bshape _ q hs hrank
      (C01_support_offsets_in_box bshape bc _).1 hA hB hq hobs

/-- **C01 end to end for `None`/integer arguments (`mahotas.erode(A, Bc)`, `mahotas.dilate(A, Bc)`).**
`erodePy`/`dilatePy` compose `get_structuring_elem` with the C++ dispatch exactly as `morph.erode`/`morph.dilate`
do. For every integer dtype and bool, every flag combination, every image of rank `d` (any `d`) and shape
with positive axis lengths and in-range values, and `Bc` being `None` or **any** Python integer `v`: the call
does not raise; with `r = 1` for `None` and `r = seRadius d v` for `v` (the `translate_sizes` radius, or `v`
itself) the erosion returned is the lattice definition for the ℓ1 ball `crossElem d r` at every pixel; and for
bool and unsigned dtypes the dilation returned is the lattice definition at **every** pixel, border included.
(For signed dtypes the 0 entries of the cross are members of height 0, the element is not flat, and the
dilation equals the lattice definition at box-interior pixels by `C01_dispatch_eq_spec`.) -/
theorem C01_python_call_cross (dt : DT) (hdt : DTypeOK dt) (fl : ArrFlags) (A : Img Int) (Bc : BcArg) (r : Int)
    (hBc : (Bc = .none ∧ r = 1) ∨ ∃ v, Bc = .int v ∧ r = seRadius A.shape.length v)
    (hs : ∀ d ∈ A.shape, 0 < d) (hdata : A.data.size = A.size) (hA : ImageInRange dt A) :
    let bshape := List.replicate A.shape.length 3
    let sup := support bshape (crossElem A.shape.length r) dt.isBool
    ∃ e d, erodePy dt fl A Bc = .ok e ∧ dilatePy dt fl A Bc = .ok d ∧
      e = ((allPos A.shape).map (erodeSpecAt dt A sup)).toArray ∧
      (dt.lo = 0 → ∀ q, inside A.shape q = true → d.getD (ravelI A.shape q) dt.lo = dilateSpecAt dt A sup q) := by
  intro bshape sup
  have hse : getStructuringElem dt A.shape.length Bc = .ok (bshape, crossElem A.shape.length r) := by
    rcases hBc with ⟨rfl, rfl⟩ | ⟨v, rfl, rfl⟩
    · exact getSE_none dt _
    · exact getSE_int dt _ v
  have hrank : bshape.length = A.shape.length := by simp [bshape]
  have hbc := crossElem_size A.shape.length r
  have h01 := crossElem_01 A.shape.length r
  have hB := admissible_of_01 dt hdt bshape _ h01
  refine ⟨erodeDispatch dt fl A bshape (crossElem A.shape.length r),
    dilateDispatch dt fl A bshape (crossElem A.shape.length r), ?_, ?_, ?_, ?_⟩
  · simp only [erodePy, hse]
  · simp only [dilatePy, hse]
  · exact (C01_dispatch_eq_spec dt hdt fl A bshape _ hs hrank hdata hbc hA hB).1
  · intro hlo q hq
    rw [(C01_path_independent dt hdt A bshape _ hrank hdata hbc hA (fun _ => h01)).2.1 fl]
    exact C01_dilate_cross_box_disk_everywhere dt hdt hlo A bshape _ q hs hA hq (Or.inl ⟨r, rfl, rfl⟩)

/-! non-vacuity of the dispatch theorems: a 3×4 boolean image and the asymmetric 3×3 element on which the pinned
    fast path was wrong. A C-contiguous aligned writeable array takes the fast path, a read-only (or Fortran)
    one the generic path; both dispatches return the same arrays. `get_structuring_elem`: the translated
    radius for (2-D, 8), a negative integer (empty element), rank mismatch, empty array, pass-through with cast. -/
example :
    let A : Img Int := { shape := [3, 4], data := #[1,1,0,1, 1,1,1,1, 0,1,1,1] }
    let bc : Array Int := #[1,0,1, 1,0,1, 0,0,1]
    let c : ArrFlags := ⟨true, true, true, true⟩
    let ro : ArrFlags := ⟨true, true, false, true⟩
    pathOf dtBool 2 c = .fast ∧ pathOf dtBool 2 ro = .generic ∧ pathOf dtBool 3 c = .generic ∧
    pathOf (dtU 8) 2 c = .generic ∧
    (erodeDispatch dtBool c A [3, 3] bc).toList = [1, 0, 1, 0, 1, 0, 1, 0, 0, 0, 1, 1] ∧
    (erodeDispatch dtBool ro A [3, 3] bc).toList = [1, 0, 1, 0, 1, 0, 1, 0, 0, 0, 1, 1] ∧
    (dilateDispatch dtBool c A [3, 3] bc) = (dilateDispatch dtBool ro A [3, 3] bc) := by
  decide +kernel

example :
    let ok := fun (x : Except SEError (List Nat × Array Int)) => x.toOption
    let err := fun (x : Except SEError (List Nat × Array Int)) =>
      match x with | .error e => some e | .ok _ => none
    ok (getStructuringElem dtBool 2 (.int 8)) = some ([3, 3], #[1,1,1, 1,1,1, 1,1,1]) ∧
    ok (getStructuringElem dtBool 2 (.int 4)) = some ([3, 3], #[0,1,0, 1,1,1, 0,1,0]) ∧
    ok (getStructuringElem (dtU 8) 3 (.int 6)) = ok (getStructuringElem (dtU 8) 3 .none) ∧
    ok (getStructuringElem (dtU 8) 1 (.int (-2))) = some ([3], #[0, 0, 0]) ∧
    ok (getStructuringElem (dtU 8) 1 (.int 0)) = some ([3], #[0, 1, 0]) ∧
    err (getStructuringElem (dtU 8) 2 (.array [3] #[1, 1, 1])) = some .rank ∧
    err (getStructuringElem (dtU 8) 2 (.array [0, 3] #[])) = some .empty ∧
    ok (getStructuringElem (dtU 8) 2 (.array [1, 3] #[1, 256, -1])) = some ([1, 3], #[1, 0, 255]) ∧
    ok (getStructuringElem dtBool 2 (.array [1, 3] #[1, 256, 0])) = some ([1, 3], #[1, 1, 0]) := by
  decide +kernel

/-! non-vacuity of `C01_python_call_cross`: `erode(A, 4)`/`dilate(A, 8)` on a 2×3 uint8 image -/
example :
    let A : Img Int := { shape := [2, 3], data := #[9, 200, 255, 7, 4, 31] }
    let c : ArrFlags := ⟨true, true, true, true⟩
    (erodePy (dtU 8) c A (.int 4)).toOption.map (·.toList) = some [6, 3, 30, 3, 3, 3] ∧
    (dilatePy (dtU 8) c A (.int 4)).toOption.map (·.toList) = some [201, 255, 255, 10, 201, 255] ∧
    (dilatePy (dtU 8) c A (.int 8)).toOption.map (·.toList) = some [201, 255, 255, 201, 255, 255] := by
  decide +kernel

example :
    let A : Img Int := { shape := [2, 3], data := #[9, 200, 255, 7, 4, 31] }
    ∃ e d, erodePy (dtU 8) ⟨true, true, true, true⟩ A (.int 8) = .ok e ∧
      dilatePy (dtU 8) ⟨true, true, true, true⟩ A (.int 8) = .ok d ∧
      (∀ q, inside A.shape q = true → d.getD (ravelI A.shape q) 0 =
        dilateSpecAt (dtU 8) A (support [3, 3] (crossElem 2 2) false) q) := by
  obtain ⟨e, d, h1, h2, _, h4⟩ := C01_python_call_cross (dtU 8) (Or.inl wf_u8) ⟨true, true, true, true⟩
    { shape := [2, 3], data := #[9, 200, 255, 7, 4, 31] } (.int 8) 2 (Or.inr ⟨8, rfl, by decide +kernel⟩)
    (by decide) rfl (imageInRange_of_data _ _ (by simp [DT.InRange, dtU]) (by simp [DT.InRange, dtU]))
  exact ⟨e, d, h1, h2, h4 rfl⟩


/-! ## Round 4 — non-flat elements and signed dtypes: dilation at every pixel

For a signed dtype a 0 entry of the structuring element is a **member of height 0** (only `dt.lo` means "not in
the element"), so the cross of `get_structuring_elem` is the full `3 × … × 3` box with height 1 on the ℓ1 ball
and height 0 elsewhere — not flat, and `C01_dilate_regular_everywhere` does not apply. What makes the clamped
scatter of the kernel equal to the lattice definition (clamped gather) at border pixels is not flatness but
**monotonicity of the heights towards the centre**. -/

/-- **C01-T4' (height-monotone star-shaped elements: dilation at every pixel).** If with every member `(k, h)`
every offset `k'` coordinate-wise between `0` and `k` is a member of height `≥ h` (`HeightMonotoneStar`: flat
star-shaped elements, "pyramids", and every cross/box/disk on a signed dtype), then for every integer dtype
(signed included) and bool, every image of every rank and shape with positive axis lengths and in-range values
(negative ones included), and **every** pixel `q` — border pixels included, where the kernel's scatter is
clamped — the model of the generic `dilate` kernel equals the lattice definition. -/
theorem C01_dilate_height_monotone_everywhere (dt : DT) (hdt : DTypeOK dt) (A : Img Int) (bshape : List Nat)
    (sup : List (List Int × Int)) (q : List Int)
    (hs : ∀ d ∈ A.shape, 0 < d) (hl : bshape.length = A.shape.length) (hbox : OffsetsInBox bshape sup)
    (hA : ImageInRange dt A) (hB : AdmissibleElem dt sup) (hmono : HeightMonotoneStar dt sup)
    (hq : inside A.shape q = true) :
    (dilateModel dt A sup).getD (ravelI A.shape q) dt.lo = dilateSpecAt dt A sup q :=
  dilate_heightMonotone_everywhere dt A sup q hs
    (fun kh hkh => by rw [boxOffsets_length bshape kh.1 (hbox kh hkh), hl])
    (valOK_of dt hdt A sup hA hB) hmono hq

/-- the executable test `starMonotone` of the driver (enumerate every box offset between 0 and each member and
look for a member there of at least the same height) is sound for `HeightMonotoneStar`; the predicate itself
is spelled out in the second component. -/
theorem C01_star_monotone_check (dt : DT) (bshape : List Nat) (sup : List (List Int × Int))
    (hbox : OffsetsInBox bshape sup) :
    (starMonotone bshape (sup.filter (isMember dt)) = true → HeightMonotoneStar dt sup) ∧
    (HeightMonotoneStar dt sup ↔
      ∀ kh ∈ sup, isMember dt kh = true → ∀ k', between k' kh.1 = true →
        ∃ kh' ∈ sup, isMember dt kh' = true ∧ kh.2 ≤ kh'.2 ∧ kh'.1 = k') :=
  ⟨heightMonotone_of_check dt bshape sup hbox, Iff.rfl⟩

/-- **C01-T3b/T4/T4' in the form the check uses since round 4.** The driver marks pixel `q` as *observed* when
`starShaped … && flatHeights … || starMonotone … || boxInterior …` evaluates to true on the members of the
support it built; at every observed pixel the model of the generic `dilate` kernel equals the lattice
definition. -/
theorem C01_dilate_eq_spec_where_observed_r4 (dt : DT) (hdt : DTypeOK dt) (A : Img Int) (bshape : List Nat)
    (sup : List (List Int × Int)) (q : List Int)
    (hs : ∀ d ∈ A.shape, 0 < d) (hl : bshape.length = A.shape.length) (hbox : OffsetsInBox bshape sup)
    (hA : ImageInRange dt A) (hB : AdmissibleElem dt sup) (hq : inside A.shape q = true)
    (hobs : (starShaped bshape ((sup.filter (isMember dt)).map (·.1)) &&
             flatHeights ((sup.filter (isMember dt)).map (·.2)) ||
             starMonotone bshape (sup.filter (isMember dt)) ||
             boxInterior A.shape bshape q) = true) :
    (dilateModel dt A sup).getD (ravelI A.shape q) dt.lo = dilateSpecAt dt A sup q := by
  rw [Bool.or_eq_true, Bool.or_eq_true, Bool.and_eq_true] at hobs
  rcases hobs with (⟨hstar, hflat⟩ | hmono) | hb
  · exact C01_dilate_regular_everywhere dt hdt A bshape sup q hs hl hbox hA hB hstar hflat hq
  · exact C01_dilate_height_monotone_everywhere dt hdt A bshape sup q hs hl hbox hA hB
      (heightMonotone_of_check dt bshape sup hbox hmono) hq
  · exact C01_dilate_eq_spec_boxInterior dt hdt A bshape sup q hs hl hbox hA hB hq hb

/-- **C01-T4' + T6 (signed dtypes: dilation at every pixel for a centred cross, disk or odd box).** For every
**signed** integer dtype, every image of every rank `d` and shape with positive axis lengths and in-range
(possibly negative) values, and the structuring element being `crossElem d r` (any radius), `diskElem d r` (any
radius) or an all-ones box of odd sides, the model of the generic `dilate` kernel on the support the driver
builds (`support bshape bc false`: every cell of the box is a member, height 1 on the footprint, 0 off it)
equals the lattice definition at **every** pixel, border included. -/
theorem C01_dilate_cross_box_disk_everywhere_signed (dt : DT) (wf : dt.WF) (hneg : dt.lo < 0) (A : Img Int)
    (bshape : List Nat) (bc : Array Int) (q : List Int)
    (hs : ∀ d ∈ A.shape, 0 < d) (hA : ImageInRange dt A) (hq : inside A.shape q = true)
    (hfam : CrossBoxDisk A.shape.length bshape bc) :
    (dilateModel dt A (support bshape bc false)).getD (ravelI A.shape q) dt.lo =
      dilateSpecAt dt A (support bshape bc false) q := by
  have hr := hfam.regular
  have hp := wf.hi_pos
  have hB : AdmissibleElem dt (support bshape bc false) := by
    intro kh hkh
    refine ⟨?_, ?_, fun hb => ?_⟩
    · unfold DT.InRange; rcases hr.heights false kh hkh with h | h <;> omega
    · left; rcases hr.heights false kh hkh with h | h <;> omega
    · rw [wf.notBool] at hb; cases hb
  exact C01_dilate_height_monotone_everywhere dt (Or.inl wf) A bshape _ q hs hr.rank
    (C01_support_offsets_in_box bshape bc false).1 hA hB (heightMonotone_regular_signed dt wf hneg hr) hq

/-- **C01 end to end for `None`/integer arguments on signed images (`mahotas.dilate(A, Bc)`).** For every
signed integer dtype, every flag combination, every image of rank `d` and shape with positive axis lengths and
in-range values, and `Bc` being `None` or **any** Python integer: the call does not raise and the dilation
returned is the lattice definition for the (non-flat) element `get_structuring_elem` builds at **every** pixel,
border included — closing the gap left by `C01_python_call_cross`, which had it for bool and unsigned only. -/
theorem C01_python_call_cross_signed (dt : DT) (wf : dt.WF) (hneg : dt.lo < 0) (fl : ArrFlags) (A : Img Int)
    (Bc : BcArg) (r : Int)
    (hBc : (Bc = .none ∧ r = 1) ∨ ∃ v, Bc = .int v ∧ r = seRadius A.shape.length v)
    (hs : ∀ d ∈ A.shape, 0 < d) (hdata : A.data.size = A.size) (hA : ImageInRange dt A) :
    let bshape := List.replicate A.shape.length 3
    let sup := support bshape (crossElem A.shape.length r) false
    ∃ d, dilatePy dt fl A Bc = .ok d ∧
      ∀ q, inside A.shape q = true → d.getD (ravelI A.shape q) dt.lo = dilateSpecAt dt A sup q := by
  intro bshape sup
  have hdt : DTypeOK dt := Or.inl wf
  have hse : getStructuringElem dt A.shape.length Bc = .ok (bshape, crossElem A.shape.length r) := by
    rcases hBc with ⟨rfl, rfl⟩ | ⟨v, rfl, rfl⟩
    · exact getSE_none dt _
    · exact getSE_int dt _ v
  have hrank : bshape.length = A.shape.length := by simp [bshape]
  have hbc := crossElem_size A.shape.length r
  have h01 := crossElem_01 A.shape.length r
  refine ⟨dilateDispatch dt fl A bshape (crossElem A.shape.length r), by simp only [dilatePy, hse], ?_⟩
  intro q hq
  have hpi := (C01_path_independent dt hdt A bshape _ hrank hdata hbc hA (fun _ => h01)).2.1 fl
  rw [wf.notBool] at hpi
  rw [hpi]
  exact C01_dilate_cross_box_disk_everywhere_signed dt wf hneg A bshape _ q hs hA hq (Or.inl ⟨r, rfl, rfl⟩)

/-! non-vacuity (round 4): `dilate(A)` on an int8 2×3 image with negative values and a pixel at the dtype minimum —
    model = lattice definition at all six (border) pixels; the signed cross passes `starMonotone` but is not flat;
    a 1-D "pyramid" `[1, 2, 1]` on uint8 passes it too. -/
example :
    let A : Img Int := { shape := [2, 3], data := #[-5, 9, -128, 7, -7, 100] }
    let sup := support [3, 3] (crossElem 2 1) false
    (dilatePy (dtI 8) ⟨true, true, true, true⟩ A .none).toOption.map (·.toList) = some [10, 100, 101, 9, 101, 101] ∧
    (allPos A.shape).map (dilateSpecAt (dtI 8) A sup) = [10, 100, 101, 9, 101, 101] ∧
    starMonotone [3, 3] (sup.filter (isMember (dtI 8))) = true ∧
    flatHeights ((sup.filter (isMember (dtI 8))).map (·.2)) = false ∧
    (allPos A.shape).all (fun q => boxInterior A.shape [3, 3] q) = false ∧
    starMonotone [3] ((support [3] #[1, 2, 1] false).filter (isMember (dtU 8))) = true := by
  decide +kernel

example :
    let A : Img Int := { shape := [2, 3], data := #[-5, 9, -128, 7, -7, 100] }
    ∃ d, dilatePy (dtI 8) ⟨true, true, true, true⟩ A (.int 8) = .ok d ∧
      ∀ q, inside A.shape q = true → d.getD (ravelI A.shape q) (-128) =
        dilateSpecAt (dtI 8) A (support [3, 3] (crossElem 2 2) false) q :=
  C01_python_call_cross_signed (dtI 8) wf_i8 (by decide) ⟨true, true, true, true⟩
    { shape := [2, 3], data := #[-5, 9, -128, 7, -7, 100] } (.int 8) 2 (Or.inr ⟨8, rfl, by decide +kernel⟩)
    (by decide) rfl (imageInRange_of_data _ _ (by simp [DT.InRange, dtI]) (by simp [DT.InRange, dtI]))

/-! the hypothesis cannot be dropped: heights that *increase* away from the centre (`[3, 1, 1, 1, 3]` on uint8).
    At the border pixel 0 of the image `[1, 20, 1]` the kernel's clamped scatter brings `20 + 3` (from pixel 1
    through the offset −2, clamped), while the lattice definition reads pixel 1 only through the offset −1 and
    gives `20 + 1`. -/
example :
    let A : Img Int := { shape := [3], data := #[1, 20, 1] }
    let sup := support [5] #[3, 1, 1, 1, 3] false
    (dilateModel (dtU 8) A sup).toList = [23, 21, 23] ∧
    (allPos A.shape).map (dilateSpecAt (dtU 8) A sup) = [21, 21, 21] ∧
    starMonotone [5] (sup.filter (isMember (dtU 8))) = false := by
  decide +kernel
