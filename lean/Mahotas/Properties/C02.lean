/-
C02 — property theorems (statements only; helper lemmas live in `Proofs/C02*.lean`).

All theorems are about the definitions the driver runs: `C02.openModel`, `closeModel`,
`cerodeModel`, `cdilateModel`, `tophatOpenModel`, `tophatCloseModel`, `submModel` — the Python
compositions over the C01 kernels `erodeModel` (gather, clamped reads) and `dilateModel` (scatter
with clamp) with the saturating, wrap-around scalar helpers `erode_sub`, `dilate_add`, `subm`.
Images are compared pointwise on flat indices (`LeImg`); `RangeImg` says every datum is
representable. The dtype enters through the interface `Scalars dt sup` (range, monotonicity and
adjointness of `erode_sub(·,h)`/`dilate_add(·,h)` for the heights of the element), which
`C02_scalars_unsigned` and `C02_scalars_bool` establish for every unsigned dtype and for bool.
-/
import Mahotas.Proofs.C02Laws
import Mahotas.Proofs.StarCheck
import Mahotas.Proofs.C02Families
import Mahotas.Proofs.C02Signed
import Mahotas.Proofs.C02Buffer
open Mahotas Mahotas.C01 Mahotas.C02

/-- **the scalar interface holds for every unsigned dtype** (generic in the range `[0, hi]`,
wrap-around arithmetic) and every element whose entries are representable. -/
theorem C02_scalars_unsigned (dt : DT) (wf : dt.WF) (hlo : dt.lo = 0) (sup : List (List Int × Int))
    (hsup : ∀ kh ∈ sup, dt.InRange kh.2) : Scalars dt sup :=
  scalars_unsigned dt wf hlo sup hsup

/-- **the scalar interface holds for bool** (the kernel sees the compressed footprint: set entries only). -/
theorem C02_scalars_bool (sup : List (List Int × Int)) (hsup : ∀ kh ∈ sup, kh.2 ≠ 0) :
    Scalars dtBool sup :=
  scalars_bool sup hsup

/-- **C02-T1 (adjunction).** `dilate(f) ≤ g` holds exactly when `f ≤ erode(g)` — for every rank and
shape, **every** structuring element (any shape, flat or not; no symmetry needed: the scatter
dilation is the adjoint of the gather erosion for any clamped target map), bool and unsigned
dtypes, provided the values that meet do not saturate: for every pixel `i` and element entry
`(k, h)`, the image is boolean, or `g` at the pixel reached is below the dtype maximum, or
`f i + h` does not exceed it ("values stay clear of the saturation limits"; a pixel of `f` equal
to 0 is the absorbing −∞ of `dilate_add` and needs no condition). -/
theorem C02_adjunction (dt : DT) (sup : List (List Int × Int)) (sc : Scalars dt sup) (F G : Img Int)
    (hshape : G.shape = F.shape) (hs : ∀ d ∈ F.shape, 0 < d)
    (hlen : ∀ kh ∈ sup, kh.1.length = F.shape.length) (hF : RangeImg dt F) (hG : RangeImg dt G)
    (hns : ∀ i, i < shapeSize F.shape → ∀ kh ∈ sup,
      NoSat dt (F.data.getD i 0) (G.data.getD (tgt F.shape i kh.1) 0) kh.2) :
    LeImg (dilateImg dt F sup) G ↔ LeImg F (erodeImg dt G sup) :=
  adjunction dt sup sc F G hshape hs hlen hF hG hns

/-- **C02-T2 (opening is anti-extensive)**: `open(g) ≤ g` whenever no pixel of `g` sits at the
dtype maximum (no condition for bool). -/
theorem C02_open_anti_extensive (dt : DT) (sup : List (List Int × Int)) (sc : Scalars dt sup)
    (G : Img Int) (hs : ∀ d ∈ G.shape, 0 < d) (hlen : ∀ kh ∈ sup, kh.1.length = G.shape.length)
    (hG : RangeImg dt G) (hc : HiClear dt G) : LeImg (openModel dt G sup) G :=
  open_le dt sup sc G hs hlen hG hc

/-- **C02-T2 (closing is extensive)**: `f ≤ close(f)` whenever the dilation of `f` does not reach
the dtype maximum (no condition for bool); `C02_dilate_below_max` derives that from
`f i + h < hi` for every height `h` of the element. -/
theorem C02_close_extensive (dt : DT) (sup : List (List Int × Int)) (sc : Scalars dt sup)
    (F : Img Int) (hs : ∀ d ∈ F.shape, 0 < d) (hlen : ∀ kh ∈ sup, kh.1.length = F.shape.length)
    (hF : RangeImg dt F) (hc : HiClear dt (dilateImg dt F sup)) : LeImg F (closeModel dt F sup) :=
  le_close dt sup sc F hs hlen hF
    (noSat_of_hiClear dt sup sc F (dilateImg dt F sup) rfl hs hlen hc)

/-- **C02-T2 (opening is idempotent)**: `open(open(g)) = open(g)` at every pixel. -/
theorem C02_open_idempotent (dt : DT) (sup : List (List Int × Int)) (sc : Scalars dt sup)
    (G : Img Int) (hs : ∀ d ∈ G.shape, 0 < d) (hlen : ∀ kh ∈ sup, kh.1.length = G.shape.length)
    (hG : RangeImg dt G) (hc : HiClear dt G) :
    ∀ j, j < shapeSize G.shape →
      (openModel dt (openModel dt G sup) sup).data.getD j 0 = (openModel dt G sup).data.getD j 0 :=
  open_idem dt sup sc G hs hlen hG hc

/-- **C02-T2 (closing is idempotent)**: `close(close(f)) = close(f)` at every pixel. -/
theorem C02_close_idempotent (dt : DT) (sup : List (List Int × Int)) (sc : Scalars dt sup)
    (F : Img Int) (hs : ∀ d ∈ F.shape, 0 < d) (hlen : ∀ kh ∈ sup, kh.1.length = F.shape.length)
    (hF : RangeImg dt F) (hc : HiClear dt (dilateImg dt F sup)) :
    ∀ j, j < shapeSize F.shape →
      (closeModel dt (closeModel dt F sup) sup).data.getD j 0 = (closeModel dt F sup).data.getD j 0 :=
  close_idem dt sup sc F hs hlen hF hc

/-- **C02-T2 (opening and closing are increasing)** — no saturation hypothesis at all. -/
theorem C02_open_close_increasing (dt : DT) (sup : List (List Int × Int)) (sc : Scalars dt sup)
    (F G : Img Int) (hshape : G.shape = F.shape) (hs : ∀ d ∈ F.shape, 0 < d)
    (hlen : ∀ kh ∈ sup, kh.1.length = F.shape.length) (hF : RangeImg dt F) (hG : RangeImg dt G)
    (hle : LeImg F G) :
    LeImg (openModel dt F sup) (openModel dt G sup) ∧ LeImg (closeModel dt F sup) (closeModel dt G sup) :=
  ⟨open_mono dt sup sc F G hshape hs hlen hF hG hle, close_mono dt sup sc F G hshape hs hlen hF hG hle⟩

/-- **C02-T3 (clear of the limits ⇒ the dilation stays below the maximum)**: for an unsigned image
with `f i + h < hi` for every pixel and every height of the element, `dilate(f)` never reaches the
dtype maximum — the hypothesis `HiClear (dilate f)` of the closing laws. -/
theorem C02_dilate_below_max (dt : DT) (wf : dt.WF) (hlo : dt.lo = 0) (sup : List (List Int × Int))
    (hsup : ∀ kh ∈ sup, dt.InRange kh.2) (F : Img Int) (hs : ∀ d ∈ F.shape, 0 < d) (hF : RangeImg dt F)
    (hcl : ∀ i, i < shapeSize F.shape → ∀ kh ∈ sup, F.data.getD i 0 + kh.2 < dt.hi) :
    HiClear dt (dilateImg dt F sup) :=
  hiClear_dilate_unsigned dt wf hlo sup hsup F hs hF hcl

/-- **C02-T5 (conditional erosion)**: `g ≤ cerode(f, g) ≤ max(f, g)` at every pixel, saturation
included, whenever the centre of the element is a member. -/
theorem C02_cerode_bounds (dt : DT) (sup : List (List Int × Int)) (sc : Scalars dt sup)
    (cm : CentreMember dt sup) (f g : Img Int) (hshape : g.shape = f.shape)
    (hs : ∀ d ∈ f.shape, 0 < d) (hlen : ∀ kh ∈ sup, kh.1.length = f.shape.length)
    (hf : RangeImg dt f) (hg : RangeImg dt g) :
    ∀ i, i < shapeSize f.shape →
      g.data.getD i 0 ≤ (cerodeModel dt f g sup).data.getD i 0 ∧
      (cerodeModel dt f g sup).data.getD i 0 ≤ max (f.data.getD i 0) (g.data.getD i 0) :=
  cerode_bounds dt sup sc cm f g hshape hs hlen hf hg

/-- **C02-T5 (conditional dilation)**: `min(f, g) ≤ cdilate(f, g, Bc, n) ≤ g` at every pixel, for
every iteration count `n` (the early exit included), saturation included. -/
theorem C02_cdilate_bounds (dt : DT) (sup : List (List Int × Int)) (sc : Scalars dt sup)
    (cm : CentreMember dt sup) (f g : Img Int) (hshape : g.shape = f.shape)
    (hs : ∀ d ∈ f.shape, 0 < d) (hlen : ∀ kh ∈ sup, kh.1.length = f.shape.length)
    (hf : RangeImg dt f) (hg : RangeImg dt g) (n : Nat) :
    ∀ i, i < shapeSize f.shape →
      min (f.data.getD i 0) (g.data.getD i 0) ≤ (cdilateModel dt f g sup n).data.getD i 0 ∧
      (cdilateModel dt f g sup n).data.getD i 0 ≤ g.data.getD i 0 :=
  cdilate_bounds dt sup sc cm f g hshape hs hlen hf hg n

/-- the centre of an element is a member for unsigned dtypes as soon as its entry is non-zero … -/
theorem C02_centre_member_unsigned (dt : DT) (wf : dt.WF) (hlo : dt.lo = 0) (sup : List (List Int × Int))
    (kh : List Int × Int) (hkh : kh ∈ sup) (hz : C14.isZeroPos kh.1 = true) (hr : dt.InRange kh.2)
    (hne : kh.2 ≠ 0) : CentreMember dt sup :=
  centreMember_unsigned dt wf hlo sup kh hkh hz hr hne

/-- … and for bool. -/
theorem C02_centre_member_bool (sup : List (List Int × Int)) (kh : List Int × Int) (hkh : kh ∈ sup)
    (hz : C14.isZeroPos kh.1 = true) (hne : kh.2 ≠ 0) : CentreMember dtBool sup :=
  centreMember_bool sup kh hkh hz hne

/-- **C02-T6 (`subm` is exact subtraction clamped to the dtype range)** for every pair of values of
every integer dtype (signed: the wrap-around tests of the C++; unsigned: the comparison). -/
theorem C02_subm_exact (dt : DT) (wf : dt.WF) (a b : Int) (ha : dt.InRange a) (hb : dt.InRange b) :
    submElem dt a b = dt.clamp (a - b) :=
  submElem_spec dt wf a b ha hb

/-- **C02-T6 on images**: `subm(a, b)` is the clamped difference at every pixel. -/
theorem C02_subm_image (dt : DT) (wf : dt.WF) (a b : Img Int) (hshape : b.shape = a.shape)
    (ha : RangeImg dt a) (hb : RangeImg dt b) :
    ∀ i, i < shapeSize a.shape →
      (submModel dt a b).data.getD i 0 = dt.clamp (a.data.getD i 0 - b.data.getD i 0) := by
  intro i hi
  unfold submModel
  rw [map2_getD _ a b i hi]
  exact submElem_spec dt wf _ _ (ha i hi) (hb i (by rw [hshape]; exact hi))

/-- **C02-T7 (top-hats)**: `tophat_open(f) = f − open(f)` and `tophat_close(f) = close(f) − f` as exact
integers at every pixel, for bool and unsigned dtypes, under the hypotheses of anti-extensivity /
extensivity (no clamping happens because `open(f) ≤ f ≤ close(f)`). -/
theorem C02_tophats (dt : DT) (sup : List (List Int × Int)) (sc : Scalars dt sup) (f : Img Int)
    (hs : ∀ d ∈ f.shape, 0 < d) (hlen : ∀ kh ∈ sup, kh.1.length = f.shape.length)
    (hf : RangeImg dt f) (hc : HiClear dt f) (hcd : HiClear dt (dilateImg dt f sup)) :
    ∀ i, i < shapeSize f.shape →
      (tophatOpenModel dt f sup).data.getD i 0 = f.data.getD i 0 - (openModel dt f sup).data.getD i 0 ∧
      (tophatCloseModel dt f sup).data.getD i 0 = (closeModel dt f sup).data.getD i 0 - f.data.getD i 0 :=
  fun i hi =>
    ⟨tophatOpen_exact dt sc.lo0 f sup (open_le dt sup sc f hs hlen hf hc) i hi,
     tophatClose_exact dt sc.lo0 f sup
       (le_close dt sup sc f hs hlen hf (noSat_of_hiClear dt sup sc f (dilateImg dt f sup) rfl hs hlen hcd)) i hi⟩

/-- **C02-T4 (boolean duality)**: `dilate(f) = ¬ erode(¬ f)` at every pixel of a boolean image of any
rank and shape, for every element whose offsets are symmetric and coordinate-wise star-shaped
(`SymStar`: with a member every offset between 0 and it, and its negation, are members — centred
crosses, boxes and disks; `C02_symstar_check` decides it for a concrete element). Uses F12 (scatter with
clamp = gather with clamp for such elements), proved here in the model's own coordinates. -/
theorem C02_bool_duality (F : Img Int) (sup : List (List Int × Int)) (hsup : ∀ kh ∈ sup, kh.2 ≠ 0)
    (hs : ∀ d ∈ F.shape, 0 < d) (hlen : ∀ kh ∈ sup, kh.1.length = F.shape.length)
    (hF : RangeImg dtBool F) (hss : SymStar sup) :
    ∀ j, j < shapeSize F.shape →
      (dilateImg dtBool F sup).data.getD j 0 = 1 - (erodeImg dtBool (notImg F) sup).data.getD j 0 :=
  bool_duality F sup hsup hs hlen hF (scatterGatherSym_of_symStar F.shape sup hs hlen hss)

/-- **F12 in the model's coordinates**: for a symmetric star-shaped element, pixel `i` reaches pixel `j`
through some clamped offset iff `j` reaches `i` — on every image shape. -/
theorem C02_scatter_gather_symmetric (shape : List Nat) (sup : List (List Int × Int))
    (hs : ∀ d ∈ shape, 0 < d) (hlen : ∀ kh ∈ sup, kh.1.length = shape.length) (hss : SymStar sup) :
    ScatterGatherSym shape sup :=
  scatterGatherSym_of_symStar shape sup hs hlen hss

/-- the Boolean check `C14.symStarB` (enumerate every offset between 0 and each member) is sound for `SymStar` -/
theorem C02_symstar_check (sup : List (List Int × Int)) (h : C14.symStarB sup = true) : SymStar sup :=
  symStar_of_check sup h

/-! non-vacuity: a 2×3 uint8 image clear of the limits with the default cross (entries 1, so erosion
    subtracts and dilation adds 1) meets the hypotheses; opening and closing act non-trivially. -/
example :
    let dt := dtU 8
    let sup := support [3, 3] #[0, 1, 0, 1, 1, 1, 0, 1, 0] false
    let f : Img Int := { shape := [2, 3], data := #[5, 9, 5, 7, 7, 250] }
    (sup.all fun kh => decide (dt.lo ≤ kh.2) && decide (kh.2 ≤ dt.hi) && kh.1.length == f.shape.length) = true ∧
    (openModel dt f sup).data.toList = [5, 7, 5, 7, 7, 7] ∧
    (closeModel dt f sup).data.toList = [7, 9, 9, 7, 7, 250] ∧
    (tophatOpenModel dt f sup).data.toList = [0, 2, 0, 0, 0, 243] ∧
    (cdilateModel dt f { shape := [2, 3], data := #[6, 6, 6, 6, 6, 6] } sup 2).data.toList = [6, 6, 6, 6, 6, 6] := by
  decide +kernel

/-! the elements of the property's quantifier are symmetric and star-shaped: the 2-D cross, the 3×3 and
    5×3 boxes, the 3-D cross, the disk of radius 2 (the 5×5 array produced by `disk(2)`) -/
example : C14.symStarB (support [3, 3] #[0, 1, 0, 1, 1, 1, 0, 1, 0] true) = true := by decide
example : C14.symStarB (support [3, 3] #[1, 1, 1, 1, 1, 1, 1, 1, 1] true) = true := by decide
example : C14.symStarB (support [5, 3] (Array.replicate 15 1) false) = true := by decide
example : C14.symStarB (support [3, 3, 3] (crossElem 3 1) true) = true := by decide
example : C14.symStarB (support [5, 5] (diskElem 2 2) true) = true := by decide

/-! ## Round 2 — the element hypotheses proved for whole families

`CrossBoxDisk d S bc` (`Proofs/C02Families.lean`): the element `(S, bc)` is `crossElem d r` on the shape
`3 × … × 3` (what `get_structuring_elem` builds; any radius `r`), or `diskElem d r` on the shape
`(2r+1) × … × (2r+1)` (what `disk(r, d)` builds; any radius), or an all-ones box of rank `d` with arbitrary odd
sides. `CentredCrossBoxDisk` restricts to `r ≥ 0` (cross) / `r ≥ 1` (disk; `disk(0)` is empty), where the
centre is a member. `UnsignedOrBool dt`: an unsigned integer dtype (range `[0, hi]`, `hi ≥ 1`) or bool.
In every corollary below the support is the one the driver builds for the dtype,
`support S bc dt.isBool` (compressed for bool, every entry kept otherwise), and **no hypothesis about
the element remains** besides membership in the family. -/

/-- what the family predicates say, spelled out (both hold by unfolding the definitions) -/
theorem C02_cross_box_disk_family (d : Nat) (S : List Nat) (bc : Array Int) :
    (CrossBoxDisk d S bc ↔
      (∃ r : Int, S = List.replicate d 3 ∧ bc = crossElem d r) ∨
      (∃ r : Nat, S = List.replicate d (2 * r + 1) ∧ bc = diskElem d r) ∨
      (S.length = d ∧ (∀ b ∈ S, b % 2 = 1) ∧ ∀ i, i < shapeSize S → bc.getD i 0 = 1)) ∧
    (CentredCrossBoxDisk d S bc ↔
      (∃ r : Int, 0 ≤ r ∧ S = List.replicate d 3 ∧ bc = crossElem d r) ∨
      (∃ r : Nat, 1 ≤ r ∧ S = List.replicate d (2 * r + 1) ∧ bc = diskElem d r) ∨
      (S.length = d ∧ (∀ b ∈ S, b % 2 = 1) ∧ ∀ i, i < shapeSize S → bc.getD i 0 = 1)) ∧
    (UnsignedOrBool (dtU 8) ∧ UnsignedOrBool (dtU 16) ∧ UnsignedOrBool (dtU 32) ∧ UnsignedOrBool (dtU 64) ∧
      UnsignedOrBool dtBool) :=
  ⟨Iff.rfl, Iff.rfl, Or.inl ⟨wf_u8, rfl⟩, Or.inl ⟨wf_u16, rfl⟩, Or.inl ⟨wf_u32, rfl⟩, Or.inl ⟨wf_u64, rfl⟩,
    Or.inr rfl⟩

/-- **every hypothesis the C02 theorems put on the structuring element, for the whole families.** For
every rank `d`, every radius and every odd box shape: the support of a cross `crossElem d r`, a disk
`diskElem d r` or an all-ones odd box, built either way the driver builds it (`compress = true` for bool
images, `false` otherwise),
* is symmetric and coordinate-wise star-shaped (`SymStar`, the hypothesis of `C02_bool_duality` and
  `C02_scatter_gather_symmetric`), has all offsets of length `d` (the `hlen` hypotheses) and all heights in
  `{0, 1}`;
* compressed, has all heights `= 1` (so `≠ 0`: the `hsup` hypothesis of `C02_scalars_bool` /
  `C02_bool_duality`);
* for every unsigned dtype and bool satisfies the scalar interface `Scalars`, has all entries in range
  (hypothesis of `C02_scalars_unsigned`, `C02_dilate_below_max`), and its members are exactly the compressed
  support;
* when centred (cross `r ≥ 0`, disk `r ≥ 1`, any box) contains the centre `(0,…,0)` with height 1 in both
  supports, and `CentreMember` holds (hypothesis of `C02_cerode_bounds` / `C02_cdilate_bounds`). -/
theorem C02_cross_box_disk_symstar (d : Nat) (S : List Nat) (bc : Array Int) (h : CrossBoxDisk d S bc) :
    (∀ c : Bool,
      SymStar (support S bc c) ∧ (∀ kh ∈ support S bc c, kh.1.length = d) ∧
      (∀ kh ∈ support S bc c, kh.2 = 0 ∨ kh.2 = 1)) ∧
    (∀ kh ∈ support S bc true, kh.2 = 1) ∧
    (∀ dt : DT, UnsignedOrBool dt →
      Scalars dt (support S bc dt.isBool) ∧ (∀ kh ∈ support S bc dt.isBool, dt.InRange kh.2) ∧
      (support S bc dt.isBool).filter (isMember dt) = support S bc true) ∧
    (CentredCrossBoxDisk d S bc →
      (List.replicate d 0, 1) ∈ support S bc true ∧ (List.replicate d 0, 1) ∈ support S bc false ∧
      ∀ dt : DT, UnsignedOrBool dt → CentreMember dt (support S bc dt.isBool)) := by
  have hr := h.regular
  refine ⟨fun c => ⟨symStar_family hr c, hr.len c, hr.heights c⟩, hr.ones, ?_, ?_⟩
  · intro dt hdt
    refine ⟨scalars_family dt hdt hr, ?_, ?_⟩
    · intro kh hkh
      have h01 := hr.heights _ kh hkh
      rcases hdt with ⟨wf, hlo⟩ | rfl
      · have := wf.hi_pos
        unfold DT.InRange
        rcases h01 with h0 | h1 <;> omega
      · unfold DT.InRange dtBool
        rcases h01 with h0 | h1 <;> simp only <;> omega
    · rcases hdt with ⟨wf, hlo⟩ | rfl
      · rw [wf.notBool]; exact support_filter_unsigned dt hlo wf.notBool S bc
      · exact support_filter_bool S bc
  · intro hc
    exact ⟨hc.centre, ((mem_support_true_iff S bc _).mp hc.centre).1,
      fun dt hdt => centreMember_family dt hdt hc⟩

/-- **adjunction for every cross / box / disk**: `dilate(f) ≤ g ↔ f ≤ erode(g)` for every unsigned or
bool dtype, images of every rank and shape, whenever no pixel of `f` or no pixel of `g` sits at the dtype
maximum (nothing for bool) — a hypothesis about the images only (the heights are 0 or 1). -/
theorem C02_adjunction_cross_box_disk (dt : DT) (hdt : UnsignedOrBool dt) (F G : Img Int) (S : List Nat)
    (bc : Array Int) (hfam : CrossBoxDisk F.shape.length S bc) (hshape : G.shape = F.shape)
    (hs : ∀ d ∈ F.shape, 0 < d) (hF : RangeImg dt F) (hG : RangeImg dt G)
    (hc : HiClear dt F ∨ HiClear dt G) :
    LeImg (dilateImg dt F (support S bc dt.isBool)) G ↔ LeImg F (erodeImg dt G (support S bc dt.isBool)) :=
  adjunction dt _ (scalars_family dt hdt hfam.regular) F G hshape hs (hfam.regular.len _) hF hG
    (noSat_family dt hfam.regular F G hshape hs rfl _ hc)

/-- **opening by any cross / box / disk is anti-extensive and idempotent** (every rank, shape, radius;
unsigned dtypes and bool), provided no pixel of `g` sits at the dtype maximum (nothing for bool). -/
theorem C02_open_idempotent_cross_box_disk (dt : DT) (hdt : UnsignedOrBool dt) (G : Img Int) (S : List Nat)
    (bc : Array Int) (hfam : CrossBoxDisk G.shape.length S bc) (hs : ∀ d ∈ G.shape, 0 < d)
    (hG : RangeImg dt G) (hc : HiClear dt G) :
    let sup := support S bc dt.isBool
    LeImg (openModel dt G sup) G ∧
    ∀ j, j < shapeSize G.shape →
      (openModel dt (openModel dt G sup) sup).data.getD j 0 = (openModel dt G sup).data.getD j 0 :=
  ⟨open_le dt _ (scalars_family dt hdt hfam.regular) G hs (hfam.regular.len _) hG hc,
   open_idem dt _ (scalars_family dt hdt hfam.regular) G hs (hfam.regular.len _) hG hc⟩

/-- **closing by any cross / box / disk is extensive and idempotent**, provided every pixel satisfies
`f + 1 < hi` (nothing for bool): the heights of these elements are 0 or 1, so the dilation stays below the
maximum. -/
theorem C02_close_idempotent_cross_box_disk (dt : DT) (hdt : UnsignedOrBool dt) (F : Img Int) (S : List Nat)
    (bc : Array Int) (hfam : CrossBoxDisk F.shape.length S bc) (hs : ∀ d ∈ F.shape, 0 < d)
    (hF : RangeImg dt F)
    (hcl : dt.isBool = true ∨ ∀ i, i < shapeSize F.shape → F.data.getD i 0 + 1 < dt.hi) :
    let sup := support S bc dt.isBool
    LeImg F (closeModel dt F sup) ∧
    ∀ j, j < shapeSize F.shape →
      (closeModel dt (closeModel dt F sup) sup).data.getD j 0 = (closeModel dt F sup).data.getD j 0 := by
  have hr := hfam.regular
  have sc := scalars_family dt hdt hr
  have hcd := hiClear_dilate_family dt hdt hr F hs hF hcl
  exact ⟨le_close dt _ sc F hs (hr.len _) hF (noSat_of_hiClear dt _ sc F _ rfl hs (hr.len _) hcd),
    close_idem dt _ sc F hs (hr.len _) hF hcd⟩

/-- **opening and closing by any cross / box / disk are increasing** — no hypothesis beyond representable
values. -/
theorem C02_open_close_increasing_cross_box_disk (dt : DT) (hdt : UnsignedOrBool dt) (F G : Img Int)
    (S : List Nat) (bc : Array Int) (hfam : CrossBoxDisk F.shape.length S bc) (hshape : G.shape = F.shape)
    (hs : ∀ d ∈ F.shape, 0 < d) (hF : RangeImg dt F) (hG : RangeImg dt G) (hle : LeImg F G) :
    let sup := support S bc dt.isBool
    LeImg (openModel dt F sup) (openModel dt G sup) ∧ LeImg (closeModel dt F sup) (closeModel dt G sup) :=
  C02_open_close_increasing dt _ (scalars_family dt hdt hfam.regular) F G hshape hs (hfam.regular.len _)
    hF hG hle

/-- **conditional operators with any centred cross / box / disk**: `g ≤ cerode(f, g) ≤ max(f, g)` and
`min(f, g) ≤ cdilate(f, g, Bc, n) ≤ g` at every pixel, for every iteration count `n`, every unsigned dtype
and bool, saturation included — no hypothesis on the element. -/
theorem C02_cerode_cdilate_bounds_cross_box_disk (dt : DT) (hdt : UnsignedOrBool dt) (f g : Img Int)
    (S : List Nat) (bc : Array Int) (hfam : CentredCrossBoxDisk f.shape.length S bc)
    (hshape : g.shape = f.shape) (hs : ∀ d ∈ f.shape, 0 < d) (hf : RangeImg dt f) (hg : RangeImg dt g)
    (n : Nat) :
    let sup := support S bc dt.isBool
    ∀ i, i < shapeSize f.shape →
      (g.data.getD i 0 ≤ (cerodeModel dt f g sup).data.getD i 0 ∧
       (cerodeModel dt f g sup).data.getD i 0 ≤ max (f.data.getD i 0) (g.data.getD i 0)) ∧
      (min (f.data.getD i 0) (g.data.getD i 0) ≤ (cdilateModel dt f g sup n).data.getD i 0 ∧
       (cdilateModel dt f g sup n).data.getD i 0 ≤ g.data.getD i 0) := by
  have hr := hfam.toFamily.regular
  have sc := scalars_family dt hdt hr
  have cm := centreMember_family dt hdt hfam
  exact fun i hi =>
    ⟨cerode_bounds dt _ sc cm f g hshape hs (hr.len _) hf hg i hi,
     cdilate_bounds dt _ sc cm f g hshape hs (hr.len _) hf hg n i hi⟩

/-- **top-hats with any cross / box / disk are exact differences**: `tophat_open(f) = f − open(f)` and
`tophat_close(f) = close(f) − f` as integers at every pixel when `f + 1 < hi` everywhere (nothing for
bool). -/
theorem C02_tophats_cross_box_disk (dt : DT) (hdt : UnsignedOrBool dt) (f : Img Int) (S : List Nat)
    (bc : Array Int) (hfam : CrossBoxDisk f.shape.length S bc) (hs : ∀ d ∈ f.shape, 0 < d)
    (hf : RangeImg dt f)
    (hcl : dt.isBool = true ∨ ∀ i, i < shapeSize f.shape → f.data.getD i 0 + 1 < dt.hi) :
    let sup := support S bc dt.isBool
    ∀ i, i < shapeSize f.shape →
      (tophatOpenModel dt f sup).data.getD i 0 = f.data.getD i 0 - (openModel dt f sup).data.getD i 0 ∧
      (tophatCloseModel dt f sup).data.getD i 0 = (closeModel dt f sup).data.getD i 0 - f.data.getD i 0 :=
  C02_tophats dt _ (scalars_family dt hdt hfam.regular) f hs (hfam.regular.len _) hf
    (hiClear_of_below dt f hcl) (hiClear_dilate_family dt hdt hfam.regular f hs hf hcl)

/-- **Boolean duality for every cross / box / disk**: `dilate(f) = ¬ erode(¬ f)` at every pixel of every
0/1 image of every rank and shape (positive axis lengths), for `crossElem d r` and `diskElem d r` of every
radius and every all-ones box of odd sides — no hypothesis on the element. -/
theorem C02_bool_duality_cross_box_disk (F : Img Int) (S : List Nat) (bc : Array Int)
    (hfam : CrossBoxDisk F.shape.length S bc) (hs : ∀ d ∈ F.shape, 0 < d) (hF : RangeImg dtBool F) :
    ∀ j, j < shapeSize F.shape →
      (dilateImg dtBool F (support S bc true)).data.getD j 0 =
        1 - (erodeImg dtBool (notImg F) (support S bc true)).data.getD j 0 :=
  C02_bool_duality F _ (fun kh hkh => by rw [hfam.regular.ones kh hkh]; decide) hs
    (hfam.regular.len true) hF (symStar_true hfam.regular)

/-- **F12 for every cross / box / disk**, on every image shape of the rank of the element and for both
ways the driver builds the support: pixel `i` reaches `j` through a clamped offset iff `j` reaches `i`. -/
theorem C02_scatter_gather_symmetric_cross_box_disk (shape : List Nat) (S : List Nat) (bc : Array Int)
    (hfam : CrossBoxDisk shape.length S bc) (hs : ∀ d ∈ shape, 0 < d) (c : Bool) :
    ScatterGatherSym shape (support S bc c) :=
  scatterGatherSym_of_symStar shape _ hs (hfam.regular.len c) (symStar_family hfam.regular c)

/-! non-vacuity of Round 2: the families are inhabited in every rank (3-D cross of radius 2, the 5×5 disk,
    a 5×3 box, a 1-D box, the rank-0 box), the Boolean checker agrees on instances, and the corollaries
    apply to a concrete bool image and a concrete uint8 image without any further hypothesis on the
    element. -/
example : CentredCrossBoxDisk 3 [3, 3, 3] (crossElem 3 2) := Or.inl ⟨2, by decide, rfl, rfl⟩
example : CentredCrossBoxDisk 2 [5, 5] (diskElem 2 2) := Or.inr (Or.inl ⟨2, by decide, rfl, rfl⟩)
example : CentredCrossBoxDisk 2 [5, 3] (Array.replicate 15 1) := Or.inr (Or.inr ⟨rfl, by decide, by decide⟩)
example : CrossBoxDisk 2 [1, 1] (diskElem 2 0) := Or.inr (Or.inl ⟨0, rfl, rfl⟩)
example : SymStar (support [5, 5] (diskElem 2 2) true) ∧ SymStar (support [5, 5] (diskElem 2 2) false) :=
  ⟨((C02_cross_box_disk_symstar 2 _ _ (Or.inr (Or.inl ⟨2, rfl, rfl⟩))).1 true).1,
   ((C02_cross_box_disk_symstar 2 _ _ (Or.inr (Or.inl ⟨2, rfl, rfl⟩))).1 false).1⟩

example :
    let F : Img Int := { shape := [2, 3], data := #[0, 1, 0, 0, 0, 1] }
    ∀ j, j < 6 →
      (dilateImg dtBool F (support [3, 3] (crossElem 2 1) true)).data.getD j 0 =
        1 - (erodeImg dtBool (notImg F) (support [3, 3] (crossElem 2 1) true)).data.getD j 0 := by
  intro F
  exact C02_bool_duality_cross_box_disk F [3, 3] (crossElem 2 1) (Or.inl ⟨1, rfl, rfl⟩) (by decide)
    (by unfold RangeImg DT.InRange; decide)

example :
    let f : Img Int := { shape := [2, 3], data := #[5, 9, 5, 7, 7, 250] }
    let g : Img Int := { shape := [2, 3], data := #[6, 6, 6, 6, 255, 0] }
    let sup := support [3, 5] (Array.replicate 15 1) false
    ∀ i, i < 6 →
      (g.data.getD i 0 ≤ (cerodeModel (dtU 8) f g sup).data.getD i 0 ∧
       (cerodeModel (dtU 8) f g sup).data.getD i 0 ≤ max (f.data.getD i 0) (g.data.getD i 0)) ∧
      (min (f.data.getD i 0) (g.data.getD i 0) ≤ (cdilateModel (dtU 8) f g sup 4).data.getD i 0 ∧
       (cdilateModel (dtU 8) f g sup 4).data.getD i 0 ≤ g.data.getD i 0) := by
  intro f g
  exact C02_cerode_cdilate_bounds_cross_box_disk (dtU 8) (Or.inl ⟨wf_u8, rfl⟩) f g [3, 5]
    (Array.replicate 15 1) (Or.inr (Or.inr ⟨rfl, by decide, by decide⟩)) rfl (by decide)
    (by unfold RangeImg DT.InRange; decide) (by unfold RangeImg DT.InRange; decide) 4

/-! ## Round 4 — signed dtypes (and every integer dtype at once)

For a signed image the smallest value `dt.lo` is negative. It is the absorbing −∞ of `dilate_add`, and an
entry of the structuring element equal to it means "not in the element"; a **0 entry is a member of height
0**, so the cross that `get_structuring_elem` builds (entries 0/1 on the `3 × … × 3` box) is not flat: it
is the full box with height 1 on the ℓ1 ball and height 0 elsewhere. The laws below are proved for the very
model the driver runs (`erodeImg`/`dilateImg`/`openModel`/… over `erode_sub`/`dilate_add` with
wrap-around arithmetic), through the interface `ScalarsG dt sup` (`Scalars` without `lo = 0`,
`Proofs/C02Signed.lean`) and the same universal properties (E)/(D). They need **no hypothesis at the lower
limit**: `erode_sub` saturates at `lo`, but `lo` is absorbing for `dilate_add`, so the adjunction survives.
At the upper limit the hypotheses are those of the unsigned theorems (`NoSat` / `HiClear`).
Images are well formed (`WFImg`: `data.size = shapeSize shape`). -/

/-- **the scalar interface holds for every integer dtype, signed and unsigned** (generic in the range:
`lo = 0` or `lo = −(hi+1)`, wrap-around arithmetic) and **every** element whose entries are the marker `dt.lo`
("not in the element") or a height in `[0, hi]` (`AdmissibleEntry`; for a signed dtype the height 0 is a
member). The four signed dtypes of the driver are instances. -/
theorem C02_scalars_signed (dt : DT) (wf : dt.WF) (sup : List (List Int × Int))
    (hsup : ∀ kh ∈ sup, AdmissibleEntry dt kh.2) :
    ScalarsG dt sup ∧
    ((dtI 8).WF ∧ (dtI 16).WF ∧ (dtI 32).WF ∧ (dtI 64).WF ∧ (dtI 8).lo = -128 ∧ (dtI 8).hi = 127) ∧
    (∀ h : Int, AdmissibleEntry dt h ↔ (h = dt.lo ∨ (0 ≤ h ∧ h ≤ dt.hi))) :=
  ⟨scalars_int dt wf sup hsup, ⟨wf_i8, wf_i16, wf_i32, wf_i64, by decide, by decide⟩, fun _ => Iff.rfl⟩

/-- the interface of rounds 1–2 (bool, unsigned) is an instance of the general one -/
theorem C02_scalars_general (dt : DT) (sup : List (List Int × Int)) (sc : Scalars dt sup) : ScalarsG dt sup :=
  sc.toG

/-- **adjunction on signed images** (every integer dtype, **every** element — any shape, even-sided,
asymmetric, non-flat): `dilate(f) ≤ g ↔ f ≤ erode(g)` provided that for every pixel `i` and entry `(k, h)` the
pair that meets does not saturate at the top (`g` at the pixel reached `< hi`, or `f i + h ≤ hi`). Nothing is
required at the lower limit. -/
theorem C02_adjunction_signed (dt : DT) (sup : List (List Int × Int)) (sc : ScalarsG dt sup) (F G : Img Int)
    (wfF : WFImg F) (hshape : G.shape = F.shape) (hs : ∀ d ∈ F.shape, 0 < d)
    (hlen : ∀ kh ∈ sup, kh.1.length = F.shape.length) (hF : RangeImg dt F) (hG : RangeImg dt G)
    (hns : ∀ i, i < shapeSize F.shape → ∀ kh ∈ sup,
      NoSat dt (F.data.getD i 0) (G.data.getD (tgt F.shape i kh.1) 0) kh.2) :
    LeImg (dilateImg dt F sup) G ↔ LeImg F (erodeImg dt G sup) :=
  adjunctionG dt sup sc F G wfF hshape hs hlen hF hG hns

/-- **opening on signed images is anti-extensive and idempotent** for every element, whenever no pixel of
`g` sits at the dtype maximum; pixels at the dtype *minimum* are allowed. -/
theorem C02_open_laws_signed (dt : DT) (sup : List (List Int × Int)) (sc : ScalarsG dt sup)
    (G : Img Int) (hs : ∀ d ∈ G.shape, 0 < d) (hlen : ∀ kh ∈ sup, kh.1.length = G.shape.length)
    (hG : RangeImg dt G) (hc : HiClear dt G) :
    LeImg (openModel dt G sup) G ∧
    ∀ j, j < shapeSize G.shape →
      (openModel dt (openModel dt G sup) sup).data.getD j 0 = (openModel dt G sup).data.getD j 0 :=
  ⟨open_leG dt sup sc G hs hlen hG hc, open_idemG dt sup sc G hs hlen hG hc⟩

/-- **closing on signed images is extensive and idempotent** for every element, whenever the dilation of `f`
does not reach the dtype maximum (`C02_dilate_below_max_signed` derives that from `f i + h < hi`). -/
theorem C02_close_laws_signed (dt : DT) (sup : List (List Int × Int)) (sc : ScalarsG dt sup)
    (F : Img Int) (wfF : WFImg F) (hs : ∀ d ∈ F.shape, 0 < d)
    (hlen : ∀ kh ∈ sup, kh.1.length = F.shape.length)
    (hF : RangeImg dt F) (hc : HiClear dt (dilateImg dt F sup)) :
    LeImg F (closeModel dt F sup) ∧
    ∀ j, j < shapeSize F.shape →
      (closeModel dt (closeModel dt F sup) sup).data.getD j 0 = (closeModel dt F sup).data.getD j 0 :=
  ⟨le_closeG dt sup sc F wfF hs hlen hF (noSat_of_hiClearG dt sup F (dilateImg dt F sup) rfl hs hlen hc),
   close_idemG dt sup sc F wfF hs hlen hF hc⟩

/-- **opening and closing on signed images are increasing** — no saturation hypothesis at all. -/
theorem C02_open_close_increasing_signed (dt : DT) (sup : List (List Int × Int)) (sc : ScalarsG dt sup)
    (F G : Img Int) (wfF : WFImg F) (wfG : WFImg G) (hshape : G.shape = F.shape) (hs : ∀ d ∈ F.shape, 0 < d)
    (hlen : ∀ kh ∈ sup, kh.1.length = F.shape.length) (hF : RangeImg dt F) (hG : RangeImg dt G)
    (hle : LeImg F G) :
    LeImg (openModel dt F sup) (openModel dt G sup) ∧ LeImg (closeModel dt F sup) (closeModel dt G sup) :=
  ⟨open_monoG dt sup sc F G hshape hs hlen hF hG hle,
   close_monoG dt sup sc F G wfF wfG hshape hs hlen hF hG hle⟩

/-- **clear of the upper limit ⇒ the dilation stays below the maximum**, every integer dtype: if
`f i + h < hi` for every pixel and every height `h` of a member, `dilate(f)` never reaches `hi`. -/
theorem C02_dilate_below_max_signed (dt : DT) (wf : dt.WF) (sup : List (List Int × Int))
    (hsup : ∀ kh ∈ sup, AdmissibleEntry dt kh.2) (F : Img Int) (wfF : WFImg F)
    (hs : ∀ d ∈ F.shape, 0 < d) (hF : RangeImg dt F)
    (hcl : ∀ i, i < shapeSize F.shape → ∀ kh ∈ sup, kh.2 ≠ dt.lo → F.data.getD i 0 + kh.2 < dt.hi) :
    HiClear dt (dilateImg dt F sup) :=
  hiClear_dilate_int dt wf sup hsup F wfF hs hF hcl

/-- the centre of an element is a member for every integer dtype as soon as its entry is a height in
`[0, hi]` other than the marker — for a signed dtype the height 0 qualifies. -/
theorem C02_centre_member_signed (dt : DT) (wf : dt.WF) (sup : List (List Int × Int))
    (kh : List Int × Int) (hkh : kh ∈ sup) (hz : C14.isZeroPos kh.1 = true) (h0 : 0 ≤ kh.2)
    (h1 : kh.2 ≤ dt.hi) (hne : kh.2 ≠ dt.lo) : CentreMember dt sup :=
  centreMember_int dt wf sup kh hkh hz h0 h1 hne

/-- **conditional operators on signed images**: `g ≤ cerode(f, g) ≤ max(f, g)` and
`min(f, g) ≤ cdilate(f, g, Bc, n) ≤ g` at every pixel for every `n` (early exit included), saturation at
either limit included, whenever the centre of the element is a member. -/
theorem C02_cerode_cdilate_bounds_signed (dt : DT) (sup : List (List Int × Int)) (sc : ScalarsG dt sup)
    (cm : CentreMember dt sup) (f g : Img Int) (hshape : g.shape = f.shape)
    (hs : ∀ d ∈ f.shape, 0 < d) (hlen : ∀ kh ∈ sup, kh.1.length = f.shape.length)
    (hf : RangeImg dt f) (hg : RangeImg dt g) (n : Nat) :
    ∀ i, i < shapeSize f.shape →
      (g.data.getD i 0 ≤ (cerodeModel dt f g sup).data.getD i 0 ∧
       (cerodeModel dt f g sup).data.getD i 0 ≤ max (f.data.getD i 0) (g.data.getD i 0)) ∧
      (min (f.data.getD i 0) (g.data.getD i 0) ≤ (cdilateModel dt f g sup n).data.getD i 0 ∧
       (cdilateModel dt f g sup n).data.getD i 0 ≤ g.data.getD i 0) :=
  fun i hi => ⟨cerode_boundsG dt sup cm f g hshape hs hlen hf hg i hi,
    cdilate_boundsG dt sup sc cm f g hshape hs hlen hf hg n i hi⟩

/-- **top-hats on signed images**: under the hypotheses of anti-extensivity / extensivity,
`tophat_open(f) = min(f − open f, hi)` and `tophat_close(f) = min(close f − f, hi)` at every pixel — the
difference is non-negative but, unlike the unsigned case, it may exceed the dtype maximum (e.g. `100 − (−100)`
in int8), where `subm` clamps; it is the exact difference wherever that difference is `≤ hi`. -/
theorem C02_tophats_signed (dt : DT) (wf : dt.WF) (sup : List (List Int × Int)) (sc : ScalarsG dt sup)
    (f : Img Int) (wff : WFImg f) (hs : ∀ d ∈ f.shape, 0 < d)
    (hlen : ∀ kh ∈ sup, kh.1.length = f.shape.length)
    (hf : RangeImg dt f) (hc : HiClear dt f) (hcd : HiClear dt (dilateImg dt f sup)) :
    ∀ i, i < shapeSize f.shape →
      ((tophatOpenModel dt f sup).data.getD i 0 =
          min (f.data.getD i 0 - (openModel dt f sup).data.getD i 0) dt.hi ∧
       (tophatCloseModel dt f sup).data.getD i 0 =
          min ((closeModel dt f sup).data.getD i 0 - f.data.getD i 0) dt.hi) ∧
      (f.data.getD i 0 - (openModel dt f sup).data.getD i 0 ≤ dt.hi →
        (tophatOpenModel dt f sup).data.getD i 0 = f.data.getD i 0 - (openModel dt f sup).data.getD i 0) ∧
      ((closeModel dt f sup).data.getD i 0 - f.data.getD i 0 ≤ dt.hi →
        (tophatCloseModel dt f sup).data.getD i 0 = (closeModel dt f sup).data.getD i 0 - f.data.getD i 0) := by
  intro i hi
  have hE := range_erodeG dt sup sc f hs hlen hf
  have hO : RangeImg dt (openModel dt f sup) := range_dilateG dt sup sc _ (wf_erode dt f sup) hs hE
  have hD := range_dilateG dt sup sc f wff hs hf
  have hC : RangeImg dt (closeModel dt f sup) := range_erodeG dt sup sc _ hs hlen hD
  have h1 := tophatOpen_int dt wf f sup hf hO (open_leG dt sup sc f hs hlen hf hc) i hi
  have h2 := tophatClose_int dt wf f sup hf hC
    (le_closeG dt sup sc f wff hs hlen hf (noSat_of_hiClearG dt sup f (dilateImg dt f sup) rfl hs hlen hcd)) i hi
  refine ⟨⟨h1, h2⟩, fun h => ?_, fun h => ?_⟩
  · rw [h1]; omega
  · rw [h2]; omega

/-- **every cross / box / disk on every integer dtype** (`support S bc false`, what the driver builds for a
non-bool image): all entries are admissible heights 0/1 — so `ScalarsG` holds, for signed dtypes **every cell
of the box is a member** (height 0 off the footprint: the element is not flat) — and the centre is a member
for the centred families. -/
theorem C02_cross_box_disk_signed (dt : DT) (wf : dt.WF) (d : Nat) (S : List Nat) (bc : Array Int)
    (h : CrossBoxDisk d S bc) :
    ScalarsG dt (support S bc false) ∧
    (∀ kh ∈ support S bc false, AdmissibleEntry dt kh.2 ∧ kh.1.length = d) ∧
    (dt.lo < 0 → ∀ kh ∈ support S bc false, isMember dt kh = true) ∧
    (CentredCrossBoxDisk d S bc → CentreMember dt (support S bc false)) := by
  have hr := h.regular
  have hp := wf.hi_pos
  have hadm : ∀ kh ∈ support S bc false, AdmissibleEntry dt kh.2 := by
    intro kh hkh
    rcases hr.heights false kh hkh with h0 | h1
    · exact Or.inr (by omega)
    · exact Or.inr (by omega)
  refine ⟨scalars_int dt wf _ hadm, fun kh hkh => ⟨hadm kh hkh, hr.len false kh hkh⟩, ?_, ?_⟩
  · intro hneg kh hkh
    unfold isMember
    rw [wf.notBool]
    rcases hr.heights false kh hkh with h0 | h1 <;> simp <;> omega
  · intro hc
    have hmem := ((mem_support_true_iff S bc _).mp hc.centre).1
    have hlc := wf.lo_cases
    refine centreMember_int dt wf _ (List.replicate d 0, 1) hmem ?_ (by show (0 : Int) ≤ 1; decide) (by show (1 : Int) ≤ dt.hi; omega)
      (by show (1 : Int) ≠ dt.lo; omega)
    show C14.isZeroPos (List.replicate d (0 : Int)) = true
    induction d with
    | zero => rfl
    | succ n ih => simp [List.replicate_succ, C14.isZeroPos]; first | exact ih | skip

/-- **the laws for `Bc = None`/int/box/disk on signed images**, hypotheses about the image only: for every
integer dtype, every cross/box/disk, every well-formed image of the element's rank with non-empty axes and
representable values: opening is anti-extensive and idempotent when no pixel is at the maximum; closing is
extensive and idempotent when `f + 1 < hi` everywhere; both are increasing unconditionally. -/
theorem C02_open_close_laws_cross_box_disk_signed (dt : DT) (wf : dt.WF) (F : Img Int) (S : List Nat)
    (bc : Array Int) (hfam : CrossBoxDisk F.shape.length S bc) (wfF : WFImg F) (hs : ∀ d ∈ F.shape, 0 < d)
    (hF : RangeImg dt F) :
    let sup := support S bc false
    (HiClear dt F →
      LeImg (openModel dt F sup) F ∧
      ∀ j, j < shapeSize F.shape →
        (openModel dt (openModel dt F sup) sup).data.getD j 0 = (openModel dt F sup).data.getD j 0) ∧
    ((∀ i, i < shapeSize F.shape → F.data.getD i 0 + 1 < dt.hi) →
      LeImg F (closeModel dt F sup) ∧
      ∀ j, j < shapeSize F.shape →
        (closeModel dt (closeModel dt F sup) sup).data.getD j 0 = (closeModel dt F sup).data.getD j 0) ∧
    (∀ G : Img Int, WFImg G → G.shape = F.shape → RangeImg dt G → LeImg F G →
      LeImg (openModel dt F sup) (openModel dt G sup) ∧ LeImg (closeModel dt F sup) (closeModel dt G sup)) := by
  obtain ⟨sc, hk, -, -⟩ := C02_cross_box_disk_signed dt wf _ S bc hfam
  have hlen : ∀ kh ∈ support S bc false, kh.1.length = F.shape.length := fun kh hkh => (hk kh hkh).2
  have hadm : ∀ kh ∈ support S bc false, AdmissibleEntry dt kh.2 := fun kh hkh => (hk kh hkh).1
  refine ⟨fun hc => C02_open_laws_signed dt _ sc F hs hlen hF hc, fun hcl => ?_, fun G wfG hshape hG hle =>
    C02_open_close_increasing_signed dt _ sc F G wfF wfG hshape hs hlen hF hG hle⟩
  apply C02_close_laws_signed dt _ sc F wfF hs hlen hF
  apply hiClear_dilate_int dt wf _ hadm F wfF hs hF
  intro i hi kh hkh _
  have := hcl i hi
  rcases hfam.regular.heights false kh hkh with h0 | h1 <;> omega

/-! non-vacuity (signed): an int8 2×3 image with negative values and a pixel at the dtype minimum, the
    default cross (for int8 the full 3×3 box, height 1 on the cross and 0 at the corners): the laws hold
    and act non-trivially; the signed cross is *not* the flat cross (the corners take part). -/
example :
    let dt := dtI 8
    let sup := support [3, 3] (crossElem 2 1) false
    let f : Img Int := { shape := [2, 3], data := #[-5, 9, -128, 7, -7, 100] }
    (sup.all fun kh => isMember dt kh) = true ∧
    (erodeImg dt f sup).data.toList = [-7, -128, -128, -8, -128, -128] ∧
    (dilateImg dt f sup).data.toList = [10, 100, 101, 9, 101, 101] ∧
    (openModel dt f sup).data.toList = [-6, -6, -128, -6, -7, -128] ∧
    (closeModel dt f sup).data.toList = [8, 9, 99, 8, 8, 100] ∧
    (tophatOpenModel dt f sup).data.toList = [1, 15, 0, 13, 0, 127] ∧
    (tophatCloseModel dt f sup).data.toList = [13, 0, 127, 1, 15, 0] ∧
    -- the flat cross (corners absent: marker −128) gives another closing
    (closeModel dt f (support [3, 3] #[-128, 1, -128, 1, 1, 1, -128, 1, -128] false)).data.toList ≠
      (closeModel dt f sup).data.toList := by
  decide +kernel

/-- the corollary applies to that image: every hypothesis is discharged by `decide` -/
example :
    let f : Img Int := { shape := [2, 3], data := #[-5, 9, -128, 7, -7, 100] }
    LeImg (openModel (dtI 8) f (support [3, 3] (crossElem 2 1) false)) f ∧
    LeImg f (closeModel (dtI 8) f (support [3, 3] (crossElem 2 1) false)) := by
  intro f
  have h := C02_open_close_laws_cross_box_disk_signed (dtI 8) wf_i8 f [3, 3] (crossElem 2 1)
    (Or.inl ⟨1, rfl, rfl⟩) rfl (by decide) (by unfold RangeImg DT.InRange; decide)
  exact ⟨(h.1 (by unfold HiClear; decide)).1, (h.2.1 (by decide)).1⟩

/-! where signed laws genuinely stop (each `decide`d on the model the driver runs):
    * the top-hat is **not** the exact difference when the difference exceeds the maximum (int8, 1-D box of
      heights 1: `f − open f = 200` at the first pixel, `subm` clamps to 127);
    * at the dtype maximum closing is not extensive (as for unsigned dtypes: `dilate_add` saturates at `hi`,
      `erode_sub` then subtracts from the saturated value: `close [127, 0, 0] = [126, 0, 0]`). -/
example :
    let f : Img Int := { shape := [3], data := #[100, -100, -100] }
    let sup := support [3] #[1, 1, 1] false
    (openModel (dtI 8) f sup).data.toList = [-100, -100, -100] ∧
    (tophatOpenModel (dtI 8) f sup).data.toList = [127, 0, 0] := by
  decide +kernel

example :
    let f : Img Int := { shape := [3], data := #[127, 0, 0] }
    let sup := support [3] #[1, 1, 1] false
    (closeModel (dtI 8) f sup).data.toList = [126, 0, 0] ∧ ¬ LeImg f (closeModel (dtI 8) f sup) := by
  refine ⟨by decide +kernel, fun h => absurd (h 0 (by decide)) (by decide +kernel)⟩

/-! ## Round 4 — `open` / `close` with `out=`: the buffer programs of `morph.py:393-472`

`openBuf dt A sup out` / `closeBuf dt A sup out` (`Model/C02.lean`) run the source line by line on an explicit
output buffer: `erode(f, Bc, out=out)` stores into every cell of `out` in scan order; `.copy()`;
`dilate(copy, Bc, out=eroded)` fills the buffer with the dtype minimum and scatters into it. The driver prints
them (`openbuf=`/`closebuf=`) next to the pure compositions, and the harness calls the real `open`/`close` with a
dirty caller buffer. -/

/-- **`open(f, Bc, out=buf)` and `close(f, Bc, out=buf)` compute the pure compositions the laws are about**, for
every dtype, image, element and **every initial content of the buffer** (of the size of the image — what
`_get_output` enforces); the intermediate kernels alone also ignore the old contents. -/
theorem C02_open_close_buffer_program (dt : DT) (A : Img Int) (sup : List (List Int × Int)) (buf : Array Int)
    (hsz : buf.size = A.size) :
    openBuf dt A sup buf = (openModel dt A sup).data ∧
    closeBuf dt A sup buf = (closeModel dt A sup).data ∧
    erodeInto dt A sup buf = (erodeImg dt A sup).data ∧
    dilateInto dt A sup buf = (dilateImg dt A sup).data :=
  ⟨openBuf_eq dt A sup buf hsz, closeBuf_eq dt A sup buf hsz, erodeInto_eq dt A sup buf hsz,
   dilateInto_eq dt A sup buf hsz⟩

/-- **why the source copies** ("otherwise the image will be modified in place, which can mess up the
implementation"): `dilate(eroded, Bc, out=eroded)` on one and the same memory first fills it with the dtype
minimum and then finds every pixel absorbing — the aliased "opening" is the constant `lo` image, for every
image, element and buffer. -/
theorem C02_open_aliased_is_constant (dt : DT) (A : Img Int) (sup : List (List Int × Int)) (buf : Array Int)
    (hsz : buf.size = A.size) :
    openAliased dt A sup buf = Array.replicate A.size dt.lo := by
  unfold openAliased
  rw [dilateInPlace_eq, erodeInto_eq dt A sup buf hsz]
  congr 1
  exact size_map_allPos _ _

/-! non-vacuity and the aliasing counterexamples, `decide`d on the definitions the driver runs: a uint8 2×3
    image, the default cross, a dirty buffer. The buffer program gives the opening/closing; dilating or eroding
    in place (no copy) gives something else. -/
example :
    let dt := dtU 8
    let sup := support [3, 3] #[0, 1, 0, 1, 1, 1, 0, 1, 0] false
    let f : Img Int := { shape := [2, 3], data := #[5, 9, 5, 7, 7, 250] }
    let dirty : Array Int := #[255, 0, 13, 255, 1, 77]
    (openBuf dt f sup dirty).toList = [5, 7, 5, 7, 7, 7] ∧
    (openModel dt f sup).data.toList = [5, 7, 5, 7, 7, 7] ∧
    (openAliased dt f sup dirty).toList = [0, 0, 0, 0, 0, 0] ∧
    (closeBuf dt f sup dirty).toList = (closeModel dt f sup).data.toList ∧
    (closeAliased dt f sup dirty).toList ≠ (closeModel dt f sup).data.toList := by
  decide +kernel

/-! ## Round 4 — `subm(a, b, out=…)` as a buffer program

`morph.subm` is `out = _get_output(a, out)`, `if out is not a: out[:] = a`, `_morph.subm(out, b)`, and the C++ loop
works in place on its first argument. `submBuf dt a b arg` (`Model/C02.lean`) runs that on explicit buffers for the three
things `out=` can name; the driver prints it as `prog=` and the harness calls the real `subm` in the same three ways. -/

/-- **`subm` with `out=` is the pure clamped subtraction in every aliasing mode**: in place on `a` (the documented form),
into a separate buffer with arbitrary old contents, and — since fix e250a86 — in place on `b`; every cell is
`subm(a[i], b[i]) = clamp(a[i] − b[i])` (`C02_subm_exact`). The loop is aliasing-safe because it reads cell `i` of both
operands before it writes cell `i`, and the wrapper copies `b` before overwriting it with `a`. Before the fix the `out=b`
call subtracted the buffer from itself (`submBufUnfixed`: every cell `subm(a[i], a[i])`, i.e. 0 for representable values). -/
theorem C02_subm_buffer_program (dt : DT) (a b buf : Array Int) (hb : b.size = a.size) (hbuf : buf.size = a.size) :
    submBuf dt a b .aliasA = submPure dt a b ∧
    submBuf dt a b (.fresh buf) = submPure dt a b ∧
    submBuf dt a b .aliasB = submPure dt a b ∧
    (∀ j, j < a.size → (submPure dt a b).getD j 0 = submElem dt (a.getD j 0) (b.getD j 0)) ∧
    (∀ j, j < a.size → (submBufUnfixed dt a b .aliasB).getD j 0 = submElem dt (a.getD j 0) (a.getD j 0)) := by
  refine ⟨submInPlace_eq dt a b, ?_, ?_, fun j hj => submPure_getD dt a b j hj, fun j hj => ?_⟩
  · show submInPlace dt (copyInto buf a) b = _
    rw [copyInto_eq buf a hbuf]; exact submInPlace_eq dt a b
  · show submInPlace dt (copyInto b a) b = _
    rw [copyInto_eq b a hb]; exact submInPlace_eq dt a b
  · show (submInPlaceSelf dt (copyInto b a)).getD j 0 = _
    rw [copyInto_eq b a hb]; exact submInPlaceSelf_getD dt a j hj

/-! non-vacuity, and the two broken orders `decide`d on the definitions the driver runs (uint8):
    the buffer program in all three modes gives `[0, 4, 100]`; the wrapper before fix e250a86 gave zeros for `out=b`;
    the seeded "mask after the subtraction" fast path run with `out=a` gives `[255, 4, 100]`. -/
example :
    let a : Array Int := #[0, 10, 200]
    let b : Array Int := #[1, 6, 100]
    (submBuf (dtU 8) a b .aliasA).toList = [0, 4, 100] ∧
    (submBuf (dtU 8) a b (.fresh #[255, 7, 13])).toList = [0, 4, 100] ∧
    (submBuf (dtU 8) a b .aliasB).toList = [0, 4, 100] ∧
    (submBufUnfixed (dtU 8) a b .aliasB).toList = [0, 0, 0] ∧
    (submMaskAfter (dtU 8) a b).toList = [255, 4, 100] := by
  decide +kernel
