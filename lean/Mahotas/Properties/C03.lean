/-
C03 — property theorems about `labelModel`, the executable model of `mahotas.label`
(the driver runs `labelModel Mode.constant`; helper lemmas live in `Proofs/C03*.lean`).
-/
import Mahotas.Proofs.C03Label
import Mahotas.Proofs.C03Spec
import Mahotas.Proofs.C03Iter
import Mahotas.Proofs.C03Addr
import Mahotas.Generated.Guards
import Mathlib.Data.Int.Interval
namespace Mahotas.C03
open Mahotas Relation

/-- the adjacency of the property statement on flat (C-order) pixel indices: `x` and `y` are non-zero
    pixels and `y` sits at `position(x) + k` for an offset `k` of the connectivity element, inside the image -/
def Linked (shape : List Nat) (data : List Int) (offs : List (List Int)) (x y : Nat) : Prop :=
  Fg data x ∧ Fg data y ∧ ∃ k ∈ offs,
    inside shape (addPos (unravelI shape x) k) = true ∧ y = ravelI shape (addPos (unravelI shape x) k)

end Mahotas.C03

open Mahotas Mahotas.C03 Relation

/-- **C03-T2a (background).** For every shape, image, element and border mode the model of `label`
returns 0 at a pixel exactly when the input pixel is 0. -/
theorem C03_label_zero_iff_background (m : Mode) (shape : List Nat) (data : List Int) (bshape : List Nat)
    (bc : Array Int) (i : Nat) (hi : i < data.length) :
    (labelModel m shape data bshape bc).1.getD i 0 = 0 ↔ data.getD i 0 = 0 :=
  labels_zero_iff m shape data bshape bc i hi

/-- **C03-T1/T2b (partition).** With the neighbour rule of the repaired code (`ExtendConstant`, flagged
neighbours skipped) two non-zero pixels receive the same label exactly when they are linked by a chain of
non-zero pixels, all inside the image, whose consecutive members differ by an offset of the connectivity
element or its reflection (`SymmGen`). Any rank, shape, image and element of the same rank as the image.
The proof goes through the union–find refinement (`find_spec`, `join_spec`, fuel adequacy `RootN.depth_lt`),
the scan invariant (`join_inv`, `scan_inv`), the final compression (`compress_inv`) and the injectivity of
the renumbering (`renumber_map`). -/
theorem C03_label_same_iff_linked (shape : List Nat) (data : List Int) (bshape : List Nat) (bc : Array Int)
    (hnd : bshape.length = shape.length) (i j : Nat) (fi : Fg data i) (fj : Fg data j) :
    (labelModel .constant shape data bshape bc).1.getD i 0 = (labelModel .constant shape data bshape bc).1.getD j 0 ↔
      ReflTransGen (SymmGen (Linked shape data (offsets bshape bc))) i j := by
  rw [labels_same_iff .constant shape data bshape bc i j fi fj, EqvGen.reflTransGen_symmGen]
  have hk : ∀ k ∈ offsets bshape bc, k.length = shape.length := by
    intro k hk; rw [offsets_length bshape bc k hk, hnd]
  have : Edge .constant shape (offsets bshape bc) data = Linked shape data (offsets bshape bc) := by
    funext x y
    apply propext
    unfold Edge Linked
    rw [mem_neighbours_constant shape (offsets bshape bc) x y hk]
  rw [this]

/-- **C03-T2 for an arbitrary border rule** (used to explain the pinned defect): labels are equal exactly
on the equivalence closure of the edges *the filter iterator yields*; with `Mode.nearest` these include
clamped out-of-image neighbours. -/
theorem C03_label_same_iff_edges (m : Mode) (shape : List Nat) (data : List Int) (bshape : List Nat)
    (bc : Array Int) (i j : Nat) (fi : Fg data i) (fj : Fg data j) :
    (labelModel m shape data bshape bc).1.getD i 0 = (labelModel m shape data bshape bc).1.getD j 0 ↔
      EqvGen (Edge m shape (offsets bshape bc) data) i j :=
  labels_same_iff m shape data bshape bc i j fi fj

/-- **C03-T3 (numbering and count).** The labels are the consecutive integers `1..n` in order of first
appearance in C scan order and the returned count is `n`: the output has one entry per pixel; every entry
lies in `[0, n]`; every `k` in `1..n` occurs; and before the first occurrence of a label `l` every smaller
positive label has already occurred (`Consec`: each entry is an old label or exactly the next fresh one). -/
theorem C03_label_numbering (m : Mode) (shape : List Nat) (data : List Int) (bshape : List Nat) (bc : Array Int) :
    let r := labelModel m shape data bshape bc
    r.1.length = data.length ∧ Consec 1 r.1 ∧
    (∀ l ∈ r.1, 0 ≤ l ∧ l ≤ r.2) ∧ (∀ k, 1 ≤ k → k ≤ r.2 → k ∈ r.1) ∧
    (∀ (i : Nat) (l : Int), r.1[i]? = some l → ∀ k, 1 ≤ k → k < l → ∃ j, j < i ∧ r.1[j]? = some k) := by
  intro r
  have hlt : ∀ (v l : Int), ([((-1 : Int), (0 : Int))] : List (Int × Int)).lookup v = some l → l < 1 := by
    intro v l h
    have := (seenInv_init (-1)).lt v l h
    omega
  have hc : Consec 1 r.1 := renumGo_consec _ _ _ hlt
  obtain ⟨_, hle, hall⟩ := renumGo_count (parents m shape data (offsets bshape bc)).toList _ _ hlt
  obtain ⟨f, hf, hbg, hpos, _⟩ := renumber_map (-1) (parents m shape data (offsets bshape bc)).toList
  have hsz := (parents_spec m shape data (offsets bshape bc)).1.size
  refine ⟨?_, hc, ?_, hall, ?_⟩
  · show (renumber (-1) (parents m shape data (offsets bshape bc)).toList).1.length = data.length
    rw [hf]; simp [hsz]
  · intro l hl
    refine ⟨?_, hle l hl⟩
    have hl' : l ∈ (renumber (-1) (parents m shape data (offsets bshape bc)).toList).1 := hl
    rw [hf] at hl'
    obtain ⟨v, hv, rfl⟩ := List.mem_map.mp hl'
    by_cases e : v = -1
    · rw [e, hbg]
    · have := hpos v hv e; omega
  · exact Consec.earlier r.1 1 hc

/-- **C03-T1 (union–find refinement, executable `find`/`join` on the int buffer).** Whenever cell `i` has
a root `r` in the buffer (`RootN`), the model's `find` with the fuel the model passes (`size + 1`) returns
`r`, keeps every cell's root and lengthens no path; `join i j` sends exactly the class of `i` to the root
of `j` and leaves every other class alone. No bound on the buffer size: fuel adequacy is proved
(`RootN.depth_lt`, pigeonhole). -/
theorem C03_union_find_refinement (par : Array Int) (i j ri rj di dj : Nat)
    (hi : RootN par i ri di) (hj : RootN par j rj dj) :
    (find (par.size + 1) par i).2 = ri ∧
    (∀ x rx dx, RootN par x rx dx → ∃ dx', dx' ≤ dx ∧ RootN (find (par.size + 1) par i).1 x rx dx') ∧
    (∀ x rx dx, RootN par x rx dx →
      ∃ dx', RootN (join (par.size + 1) par i j) x (if rx = ri then rj else rx) dx') := by
  have hdi : di ≤ par.size + 1 := by have := hi.depth_lt; omega
  have hdj : dj ≤ par.size + 1 := by have := hj.depth_lt; omega
  obtain ⟨a, _, c⟩ := find_spec _ par i ri di hi hdi
  exact ⟨a, c, (join_spec _ par i j ri rj di dj hi hj hdi hdj).2⟩

/-- **C03-T4 (border semantics of the repaired code).** In `ExtendConstant` mode the neighbours the scan
retrieves at pixel `x` are exactly the flat indices of the positions `position(x) + k`, `k` an offset of
the element, that lie inside the image: no clamped edge is processed. -/
theorem C03_neighbours_inside_image (shape : List Nat) (bshape : List Nat) (bc : Array Int)
    (hnd : bshape.length = shape.length) (x y : Nat) :
    y ∈ neighbours .constant shape (offsets bshape bc) (unravelI shape x) ↔
      ∃ k ∈ offsets bshape bc, inside shape (addPos (unravelI shape x) k) = true ∧
        y = ravelI shape (addPos (unravelI shape x) k) :=
  mem_neighbours_constant shape _ x y (by intro k hk; rw [offsets_length bshape bc k hk, hnd])

/-- **F9 for C03 (pixels ↔ positions).** C-order flat indices and positions inside the image are in bijection:
`unravelI` of an in-range index is inside the image and ravels back; a position inside the image ravels to an
in-range index and unravels back. So in `Linked` the neighbour `y = ravelI (pos x + k)` of an in-image position
is automatically a pixel of the image when the image fills its shape, and distinct positions are distinct pixels. -/
theorem C03_index_roundtrip (shape : List Nat) :
    (∀ i, i < shapeSize shape →
      inside shape (unravelI shape i) = true ∧ ravelI shape (unravelI shape i) = i) ∧
    (∀ p : List Int, p.length = shape.length → inside shape p = true →
      ravelI shape p < shapeSize shape ∧ unravelI shape (ravelI shape p) = p) :=
  ⟨unravel_inside_ravel shape, ravel_inside_unravel shape⟩

/-- **C03-T4 (negation on the pinned code).** With `ExtendNearest` (the pinned tree) the image `[[1,1]]`
with the element `{(-1,-1)}` gets ONE component: the out-of-image neighbour of pixel (0,1) is clamped onto
pixel (0,0). With `ExtendConstant` (after the fix) it gets two, as the specification says. -/
theorem C03_pinned_clamp_defect :
    labelModel .nearest [1, 2] [1, 1] [3, 3] #[1, 0, 0, 0, 0, 0, 0, 0, 0] = ([1, 1], 1) ∧
    labelModel .constant [1, 2] [1, 1] [3, 3] #[1, 0, 0, 0, 0, 0, 0, 0, 0] = ([1, 2], 2) ∧
    specLabels [1, 2] [1, 1] [3, 3] #[1, 0, 0, 0, 0, 0, 0, 0, 0] = ([1, 2], 2) := by
  decide

/-- the edges of the repaired scan are the `Linked` relation of the statement -/
theorem C03_edge_eq_linked (shape : List Nat) (data : List Int) (bshape : List Nat) (bc : Array Int)
    (hnd : bshape.length = shape.length) :
    Edge .constant shape (offsets bshape bc) data = Linked shape data (offsets bshape bc) := by
  have hk : ∀ k ∈ offsets bshape bc, k.length = shape.length := by
    intro k hk; rw [offsets_length bshape bc k hk, hnd]
  funext x y
  apply propext
  unfold Edge Linked
  rw [mem_neighbours_constant shape (offsets bshape bc) x y hk]

/-- **C03 oracle soundness.** `specLabels` — the executable oracle the harness compares the real `label` with,
an implementation written independently of union–find (neighbour-minimum relaxation sweeps to a fixpoint, then
counting roots) — *is* the labelling the statement describes, for every rank, shape, image that fills its shape
and element of the image's rank: one label per pixel; 0 exactly on zero pixels; two non-zero pixels carry the same
label exactly when a chain of non-zero pixels inside the image links them, consecutive members differing by an
offset of the element or its reflection; labels are numbered `1..n` in order of first appearance in C scan order
(`Consec 1`, every label in `[0, n]`, every `k ∈ 1..n` occurs, every smaller positive label occurs earlier) and
the returned count is `n`. The proof shows that the relaxation ends (within the fuel `2·N + 2` the oracle passes:
each full sweep makes at least one more pixel correct) in the state where every non-zero pixel holds the least
flat index of its component. -/
theorem C03_specLabels_sound (shape : List Nat) (data : List Int) (bshape : List Nat) (bc : Array Int)
    (hnd : bshape.length = shape.length) (hlen : data.length = shapeSize shape) :
    let r := specLabels shape data bshape bc
    r.1.length = data.length ∧
    (∀ i, i < data.length → (r.1.getD i 0 = 0 ↔ data.getD i 0 = 0)) ∧
    (∀ i j, Fg data i → Fg data j →
      (r.1.getD i 0 = r.1.getD j 0 ↔ ReflTransGen (SymmGen (Linked shape data (offsets bshape bc))) i j)) ∧
    Consec 1 r.1 ∧ (∀ l ∈ r.1, 0 ≤ l ∧ l ≤ r.2) ∧ (∀ k, 1 ≤ k → k ≤ r.2 → k ∈ r.1) ∧
    (∀ (i : Nat) (l : Int), r.1[i]? = some l → ∀ k, 1 ≤ k → k < l → ∃ j, j < i ∧ r.1[j]? = some k) := by
  intro r
  obtain ⟨h1, h2, h3, h4, h5, h6, _⟩ := specLabels_core shape data bshape bc hnd hlen
  refine ⟨h1, h2, ?_, h4, h5, ?_, Consec.earlier r.1 1 h4⟩
  · intro i j fi fj
    rw [h3 i j fi fj, EqvGen.reflTransGen_symmGen, C03_edge_eq_linked shape data bshape bc hnd]
  · intro k hk1 hk2
    have hmem : r.2 ∈ r.1 := h6 (Int.le_trans hk1 hk2)
    by_cases e : k = r.2
    · rw [e]; exact hmem
    · obtain ⟨i, hi⟩ := List.getElem?_of_mem hmem
      obtain ⟨j, _, hj⟩ := Consec.earlier r.1 1 h4 i r.2 hi k hk1 (by omega)
      exact List.mem_of_getElem? hj

/-- **C03: the model IS the oracle.** For every rank, shape, image that fills its shape and element of the
image's rank, the transliterated union–find model of the (repaired) `label` returns exactly what the oracle
`specLabels` returns — labels and count. Hence the harness' comparison "real output = `specLabels`" is a
comparison with the proved specification, and its comparison "real output = `labelModel`" is the same check.
Proof: both satisfy the characterisation (`C03_label_zero_iff_background`, `C03_label_same_iff_linked`,
`C03_label_numbering` / `C03_specLabels_sound`), and a first-appearance numbering with a given equality
pattern is unique (`consec_unique`, `count_unique`). -/
theorem C03_model_eq_specLabels (shape : List Nat) (data : List Int) (bshape : List Nat) (bc : Array Int)
    (hnd : bshape.length = shape.length) (hlen : data.length = shapeSize shape) :
    labelModel .constant shape data bshape bc = specLabels shape data bshape bc := by
  obtain ⟨s1, s2, s3, s4, s5, s6, s7⟩ := specLabels_core shape data bshape bc hnd hlen
  obtain ⟨m1, m4, m5, m6, _⟩ := C03_label_numbering .constant shape data bshape bc
  have m2 := fun i hi => C03_label_zero_iff_background .constant shape data bshape bc i hi
  have m3 := fun i j fi fj => labels_same_iff .constant shape data bshape bc i j fi fj
  have hL : (labelModel .constant shape data bshape bc).1 = (specLabels shape data bshape bc).1 := by
    apply consec_unique _ _ 1 (by rw [m1, s1]) m4 s4
    · intro i j hi hj
      rw [m1] at hi hj
      by_cases fi : Fg data i
      · by_cases fj : Fg data j
        · rw [m3 i j fi fj, s3 i j fi fj]
        · have zj : data.getD j 0 = 0 := by
            by_contra hc; exact fj ⟨hj, hc⟩
          have a1 := (m2 j hj).mpr zj
          have a2 := (s2 j hj).mpr zj
          have b1 := mt (m2 i hi).mp fi.2
          have b2 := mt (s2 i hi).mp fi.2
          rw [a1, a2]
          exact ⟨fun h => absurd h b1, fun h => absurd h b2⟩
      · have zi : data.getD i 0 = 0 := by
          by_contra hc; exact fi ⟨hi, hc⟩
        have a1 := (m2 i hi).mpr zi
        have a2 := (s2 i hi).mpr zi
        rw [a1, a2]
        by_cases fj : Fg data j
        · have b1 := mt (m2 j hj).mp fj.2
          have b2 := mt (s2 j hj).mp fj.2
          exact ⟨fun h => absurd h.symm b1, fun h => absurd h.symm b2⟩
        · have zj : data.getD j 0 = 0 := by
            by_contra hc; exact fj ⟨hj, hc⟩
          rw [(m2 j hj).mpr zj, (s2 j hj).mpr zj]
    · intro i hi h
      rw [m1] at hi
      have hm : (labelModel .constant shape data bshape bc).1.getD i 0 ∈ (labelModel .constant shape data bshape bc).1 := by
        rw [List.getD_eq_getElem?_getD, List.getElem?_eq_getElem (by rw [m1]; exact hi)]
        exact List.getElem_mem _
      have hs : (specLabels shape data bshape bc).1.getD i 0 ∈ (specLabels shape data bshape bc).1 := by
        rw [List.getD_eq_getElem?_getD, List.getElem?_eq_getElem (by rw [s1]; exact hi)]
        exact List.getElem_mem _
      have n1 := (m5 _ hm).1
      have n2 := (s5 _ hs).1
      rcases h with h | h
      · have z : (labelModel .constant shape data bshape bc).1.getD i 0 = 0 := by omega
        rw [z, (s2 i hi).mpr ((m2 i hi).mp z)]
      · have z : (specLabels shape data bshape bc).1.getD i 0 = 0 := by omega
        rw [z, (m2 i hi).mpr ((s2 i hi).mp z)]
  have hc : (labelModel .constant shape data bshape bc).2 = (specLabels shape data bshape bc).2 := by
    have hnn : 0 ≤ (labelModel .constant shape data bshape bc).2 := by
      have := (renumGo_count (parents .constant shape data (offsets bshape bc)).toList [((-1 : Int), (0 : Int))] 1
        (by intro v l h; have := (seenInv_init (-1)).lt v l h; omega)).1
      unfold labelModel renumber
      omega
    apply count_unique (specLabels shape data bshape bc).1 _ _
    · intro l hl; rw [← hL] at hl; exact (m5 l hl).2
    · intro l hl; exact (s5 l hl).2
    · intro h; rw [← hL]; exact m6 _ h (by omega)
    · exact s6
    · exact hnn
    · exact s7
  exact Prod.ext hL hc

/-- **C03 ↔ F6 (the filter iterator).** The neighbour list the model of `label` uses at the `i`-th pixel of the
scan — `offset k − shape/2` pushed through `fix_offset` per axis (`neighbours`, `offsets`) — is, entry by entry,
what the transliterated `filter_iterator` mechanism (`init_filter_offsets` table over array regions,
`init_filter_iterator` strides/backstrides, `iterate_both`, `retrieve`; `Model/FilterIter.lean`, whose walk the
harness compares with the real `_filters.cpp` under op `f6`) retrieves after `i` steps for the footprint of the
non-zero entries of the element: flagged entries are skipped, any other entry `off` reads the pixel at
`position + off`. Any border mode, any rank, array and element shapes with entries ≥ 1 (element smaller than,
equal to or larger than the image, odd or even). So the closed form is not an extra modelling assumption of C03:
it is the F6 theorem instantiated. -/
theorem C03_neighbours_are_filter_iterator_reads (m : Mode) (shape bshape : List Nat) (bc : Array Int)
    (hlen : shape.length = bshape.length) (ha : ∀ a ∈ shape, 1 ≤ a) (hf : ∀ f ∈ bshape, 1 ≤ f)
    (i : Nat) (hi : i < shapeSize shape) :
    neighbours m shape (offsets bshape bc) (unravelI shape i) =
      (List.range (offsets bshape bc).length).filterMap fun j =>
        retrievedIndex shape (unravelI shape i)
          (FilterIter.retrieve (FilterIter.mkFIter m shape bshape (fpOf bc))
            (FilterIter.stateAfter (FilterIter.mkFIter m shape bshape (fpOf bc)) shape i) j) :=
  neighbours_eq_retrieved m shape bshape bc hlen ha hf i hi

/-! non-vacuity: a 3×4 image whose three scan-order fragments merge late (U shape) plus an isolated
    pixel; both hypotheses of the partition theorem are met and the model labels it as the spec does. -/
example :
    let data : List Int := [1, 0, 1, 0,
                            1, 0, 1, 0,
                            1, 1, 1, 1]
    Fg data 0 ∧ Fg data 2 ∧ ([3, 3] : List Nat).length = ([3, 4] : List Nat).length ∧
    labelModel .constant [3, 4] data [3, 3] #[0, 1, 0, 1, 1, 1, 0, 1, 0] =
      ([1, 0, 1, 0, 1, 0, 1, 0, 1, 1, 1, 1], 1) := by
  intro data
  refine ⟨?_, ?_, rfl, ?_⟩
  · unfold Fg; decide
  · unfold Fg; decide
  · decide +kernel

/-! non-vacuity of the oracle theorems: the hypotheses (`bshape.length = shape.length`, the image fills its shape)
    hold for the 3×4 example above, and model and oracle indeed agree there. -/
example :
    let data : List Int := [1, 0, 1, 0,
                            1, 0, 1, 0,
                            1, 1, 1, 1]
    ([3, 3] : List Nat).length = ([3, 4] : List Nat).length ∧ data.length = shapeSize [3, 4] ∧
    specLabels [3, 4] data [3, 3] #[0, 1, 0, 1, 1, 1, 0, 1, 0] =
      ([1, 0, 1, 0, 1, 0, 1, 0, 1, 1, 1, 1], 1) := by
  intro data
  refine ⟨rfl, rfl, ?_⟩
  decide +kernel

/-! non-vacuity of the F6 tie: pixel (0,1) of a 1×2 image under the element `{(-1,-1), (0,-1)}` (3×3): the
    mechanism flags the first entry (outside the image, constant mode) and reads pixel 0 through the second. -/
example :
    (List.range (offsets [3, 3] #[1, 0, 0, 1, 0, 0, 0, 0, 0]).length).filterMap (fun j =>
        retrievedIndex [1, 2] (unravelI [1, 2] 1)
          (FilterIter.retrieve (FilterIter.mkFIter .constant [1, 2] [3, 3] (fpOf #[1, 0, 0, 1, 0, 0, 0, 0, 0]))
            (FilterIter.stateAfter (FilterIter.mkFIter .constant [1, 2] [3, 3] (fpOf #[1, 0, 0, 1, 0, 0, 0, 0, 0])) [1, 2] 1) j))
      = [0] := by
  decide +kernel

/-! ## Round 4 — the address-level model; what the native kernel is handed; the int32 domain -/

/-- **C03 (address-level model = coordinate model).** `labelAddr` is `label()` as the C++ runs it on ADDRESSES: the int32
buffer doubles as the union–find parent array, the scan walks flat indices `i`, and a neighbour is read at address
`i + flatDelta shape k` — the flat delta `Σ_d k_d · Π_{e>d} shape_e` of the footprint entry `k` in the C-contiguous buffer —
unless the offset table holds the border flag for it (`ExtendConstant`, `p + k` outside: `retrieve` returns false). For every
rank, shape, image filling its shape and connectivity element of the image's rank it returns exactly the labels and the
count of the coordinate model `labelModel .constant` (which computes the neighbour's coordinates, applies `fix_offset`
and ravels them), hence of the proved specification `specLabels`. The read of footprint entry `k` at pixel `i` is, as an
`Option`, literally the coordinate model's neighbour: `retrieveAddr shape i k = (fixPos .constant shape (p_i + k)).map ravel`. -/
theorem C03_addr_model_eq_coord (shape : List Nat) (data : List Int) (bshape : List Nat) (bc : Array Int)
    (hb : bshape.length = shape.length) (hsz : data.length = shapeSize shape) :
    labelAddr shape data bshape bc = labelModel .constant shape data bshape bc ∧
    labelAddr shape data bshape bc = specLabels shape data bshape bc ∧
    (∀ i, i < shapeSize shape → ∀ k ∈ offsets bshape bc,
      retrieveAddr shape i k = (fixPos .constant shape (addPos (unravelI shape i) k)).map (ravelI shape)) := by
  have h := labelAddr_eq shape data bshape bc hb hsz
  refine ⟨h, by rw [h, C03_model_eq_specLabels shape data bshape bc hb hsz], fun i hi k hk => ?_⟩
  exact retrieveAddr_eq shape i hi k (by rw [offsets_length bshape bc k hk, hb])

/-- **C03 (every read of the scan is inside the buffer).** Each address `i + delta` at which the address-level scan reads
`labeled[…]` (all pixels `i`, all footprint entries that are not flagged) is `< shapeSize shape`, the number of elements of
the buffer — for every rank, shape and element of the image's rank, elements larger than the image and even-sided ones
included. (A bounds lemma for C10: with `ExtendNearest`, the pinned code, the same holds, but the read lands on a clamped
border pixel — defect #5.) -/
theorem C03_addr_reads_in_bounds (shape : List Nat) (n : Nat) (hn : n ≤ shapeSize shape) (bshape : List Nat)
    (bc : Array Int) (hb : bshape.length = shape.length) :
    ∀ a ∈ addrReads shape n (offsets bshape bc), a < shapeSize shape :=
  addrReads_lt shape n hn _ (fun k hk => by rw [offsets_length bshape bc k hk, hb])

/-- **C03 (source tie: the kernel is handed the OUTPUT buffer, never the caller's input view).** From the argument links
`translator/links.py` regenerates from `labeled.py` on every run: the single call of `_labeled.label` in `label` passes
`_get_output(array, out, …)` for the C parameter `array` — a fresh `np.empty(array.shape, int32)` or the caller's `out`
after `_get_output` has checked its dtype, shape and C-contiguity — and `get_structuring_elem(output, Bc)` for `filter`.
The caller's `array` only goes through numpy's `output[:] = (array != 0)`: whatever its strides, dtype or byte order, the
kernel walks a C-contiguous int32 buffer holding the logical 0/1 content, which is why the address-level model uses the
C strides `Π_{e>d} shape_e` and why the result depends on the input only through `array != 0` in logical order. -/
theorem C03_kernel_sees_output_buffer :
    ((Generated.argLinkTable.filter fun e => e.1 == "labeled.label").map fun e => (e.2.1, e.2.2.1))
      = [("_labeled.label", 0)] ∧
    Generated.links_labeled_label__labeled_label
      = [("array", .output "array" "out"), ("filter", .structElem "array" "Bc")] := by
  decide

/-- **C03 (documented domain: int32).** The buffer is `int32` and, during the scan, holds flat indices. If the image has
fewer than `2³¹` pixels then the count is at most the number of pixels and every label of the result lies in
`[0, 2³¹)`: nothing the kernel stores at the end overflows the buffer's type. (Beyond `2³¹ − 1` pixels `const int N =
labeled.size()` itself overflows: outside the domain, not reachable with the memory of the test machine.) -/
theorem C03_labels_fit_int32 (m : Mode) (shape : List Nat) (data : List Int) (bshape : List Nat) (bc : Array Int)
    (hN : data.length < 2 ^ 31) :
    (labelModel m shape data bshape bc).2 ≤ data.length ∧
    ∀ l ∈ (labelModel m shape data bshape bc).1, 0 ≤ l ∧ l < 2 ^ 31 := by
  obtain ⟨hlen, _, hrange, hall, _⟩ := C03_label_numbering m shape data bshape bc
  have hcount : (labelModel m shape data bshape bc).2 ≤ data.length := by
    by_contra hgt
    have hgt := not_le.1 hgt
    have hsub : Finset.Icc (1 : Int) (labelModel m shape data bshape bc).2 ⊆
        (labelModel m shape data bshape bc).1.toFinset := by
      intro k hk
      rw [Finset.mem_Icc] at hk
      exact List.mem_toFinset.2 (hall k hk.1 hk.2)
    have h1 := Finset.card_le_card hsub
    have h2 := List.toFinset_card_le (labelModel m shape data bshape bc).1
    rw [Int.card_Icc] at h1
    omega
  refine ⟨hcount, fun l hl => ⟨(hrange l hl).1, ?_⟩⟩
  have := (hrange l hl).2
  omega

/-- non-vacuity: the address-level model on the witness of defect #5 (`[[1,1]]`, element `{(-1,-1)}`: two components),
on a 2×3 image with the 8-neighbourhood, and with an element LARGER than the image (5×5 on 2×2); the reads of the scan
with their addresses. -/
example :
    labelAddr [1, 2] [1, 1] [3, 3] #[1, 0, 0, 0, 0, 0, 0, 0, 0] = ([1, 2], 2) ∧
    labelAddr [2, 3] [1, 0, 1, 0, 1, 0] [3, 3] #[1, 1, 1, 1, 1, 1, 1, 1, 1] = ([1, 0, 1, 0, 1, 0], 1) ∧
    labelAddr [2, 2] [1, 0, 0, 1] [5, 5] (Array.replicate 25 1) = ([1, 0, 0, 1], 1) ∧
    addrReads [2, 3] 6 (offsets [3, 3] #[0, 1, 0, 1, 1, 1, 0, 1, 0]) =
      [0, 1, 3, 0, 1, 2, 4, 1, 2, 5, 0, 3, 4, 1, 3, 4, 5, 2, 4, 5] ∧
    flatDelta [2, 3] [-1, 1] = -2 := by
  decide +kernel
