/-
C04 — property theorems (statements only; helper lemmas live in `Proofs/C04*.lean`).
-/
import Mahotas.Proofs.C04Flood
import Mahotas.Proofs.C04Term
import Mahotas.Proofs.C04Lines
open Mahotas Mahotas.C04

/-- **C04-T3 (the kernel is the specified flooding).** For every surface (any rank, shape, values),
every marker image of the same shape and every neighbourhood of the same rank, the transliteration of
`cwatershed<T>` — neighbour table with flat deltas (zero deltas skipped), `margin_of` lower bounds
with the shortcut `margin − step ≥ 0` and recomputation, statuses white/grey/black, flat-index
access — returns exactly the labels and exactly the lines of the specification flooding over
coordinates (queue ordered by (cost, insertion index), markers queued in scan order, label handed to
every still-unlabelled neighbour inside the image, a queued pixel visited from another label is a
line pixel), and the two queues are drained together. -/
theorem C04_model_refines_flood (surf markers : Img Int) (bshape : List Nat) (bc : Array Int)
    (hm : markers.shape = surf.shape) (hb : bshape.length = surf.shape.length) :
    (cwatershedModel surf markers bshape bc).res = (cwatershedSpec surf markers bshape bc).label.data ∧
    (cwatershedModel surf markers bshape bc).lines = (cwatershedSpec surf markers bshape bc).lines.data ∧
    ((cwatershedModel surf markers bshape bc).queue = [] ↔ (cwatershedSpec surf markers bshape bc).queue = []) := by
  have h := cwatershed_rel surf markers bshape bc hm hb
  refine ⟨h.ldata.symm, h.ndata.symm, ?_⟩
  rw [h.queue]
  simp

/-- **C04-T3a (the flooding is complete).** The `size + 1` iterations granted to both runs always
drain the queue (potential = number of white pixels + queue length: kept at `size` by the marker scan,
lowered by exactly one per iteration), so the outputs compared in `C04_model_refines_flood` are the
*final* labels and lines of the kernel and of the specified flooding. -/
theorem C04_flood_drained (surf markers : Img Int) (bshape : List Nat) (bc : Array Int)
    (hm : markers.shape = surf.shape) (hb : bshape.length = surf.shape.length) :
    (cwatershedModel surf markers bshape bc).queue = [] ∧
    (cwatershedSpec surf markers bshape bc).queue = [] := by
  have h := cwatershed_drained surf markers bshape bc hm hb
  exact ⟨h, (C04_model_refines_flood surf markers bshape bc hm hb).2.2.1 h⟩

/-- **C04-T1 (margins).** If the margin stored with a queued pixel is a lower bound of its true
distance to the border, the bounds decision of the inner loop (`nmargin = margin − step`; recompute
`margin_of` only when negative) skips a neighbour exactly when it lies outside the image; the margin
pushed with an accepted neighbour is again a lower bound of that neighbour's true margin, and the
updated running margin is still a lower bound for the centre pixel. Any rank, any shape, any offset. -/
theorem C04_margin_check_sound (s : List Nat) (i : Nat) (m : Int) (o : List Int) (delta : Int)
    (hi : i < shapeSize s) (ho : o.length = s.length) (hm : m ≤ marginOf s (unravelI s i)) :
    match nbCheck s i m ⟨delta, chebStep o, o⟩ with
    | none => inside s (addPos (unravelI s i) o) = false
    | some (nm, m') => inside s (addPos (unravelI s i) o) = true ∧
        nm ≤ marginOf s (addPos (unravelI s i) o) ∧ m ≤ m' ∧ m' ≤ marginOf s (unravelI s i) :=
  nbCheck_sound s i m o delta hi ho hm

/-- **C04-T1a.** A position of the right rank is inside the image exactly when `margin_of` is
non-negative, and `margin_of` is 1-Lipschitz for the Chebyshev length of an offset. -/
theorem C04_margin_of (s : List Nat) (p o : List Int) (hp : p.length = s.length) (ho : o.length = s.length) :
    (inside s p = true ↔ 0 ≤ marginOf s p) ∧ marginOf s p - chebStep o ≤ marginOf s (addPos p o) :=
  ⟨inside_iff_margin s p hp, margin_lipschitz' s p o hp ho⟩

/-- **C04-T2 (flat deltas).** Whenever a pixel and its neighbour `p + off` are both inside the image,
`pos_to_flat(p) + pos_to_flat(off)` is the flat index of the neighbour; and an offset whose flat
delta is zero (those are dropped from the neighbour table) can only join a pixel to itself. -/
theorem C04_delta_sound (s : List Nat) (p o : List Int) (hp : inside s p = true)
    (hq : inside s (addPos p o) = true) :
    ((ravelI s (addPos p o) : Nat) : Int) = (ravelI s p : Int) + posToFlat s o ∧
    (posToFlat s o = 0 → addPos p o = p) :=
  ⟨ravelI_addPos s p o hp hq, zero_delta_same s p o hp hq⟩

/-- **C04-T4 (every region is connected to one of its own markers).** In the output of the kernel
model every pixel with a non-zero label is joined to a marker pixel carrying that same label by a
path of neighbourhood steps inside the image along which the label never changes. -/
theorem C04_regions_connected (surf markers : Img Int) (bshape : List Nat) (bc : Array Int)
    (hm : markers.shape = surf.shape) (hb : bshape.length = surf.shape.length) (p : List Int)
    (hp : inside surf.shape p = true) (hl : (modelLabels surf markers bshape bc).getD p 0 ≠ 0) :
    Joined surf.shape (offsets bshape bc) markers
      (fun r => (modelLabels surf markers bshape bc).getD r 0) p := by
  rw [modelLabels_eq surf markers bshape bc hm hb] at hl ⊢
  exact (cwatershedSpec_inv surf markers bshape bc).joined p hp hl

/-- **C04-T5a (markers keep their labels).** -/
theorem C04_markers_keep_labels (surf markers : Img Int) (bshape : List Nat) (bc : Array Int)
    (hm : markers.shape = surf.shape) (hb : bshape.length = surf.shape.length) (p : List Int)
    (hp : inside surf.shape p = true) (hk : markers.getD p 0 ≠ 0) :
    (modelLabels surf markers bshape bc).getD p 0 = markers.getD p 0 := by
  rw [modelLabels_eq surf markers bshape bc hm hb]
  exact (cwatershedSpec_inv surf markers bshape bc).keep p hp hk

/-- **C04-T5b (pixels no marker can reach are 0).** A pixel that cannot be reached from any marker
by neighbourhood steps inside the image has label 0 in the output of the kernel model (the output
buffers start zero-filled, as repaired, and the flooding never writes such a pixel). -/
theorem C04_unreached_zero (surf markers : Img Int) (bshape : List Nat) (bc : Array Int)
    (hm : markers.shape = surf.shape) (hb : bshape.length = surf.shape.length) (p : List Int)
    (hp : inside surf.shape p = true)
    (hun : ¬ Reach surf.shape (offsets bshape bc) markers p) :
    (modelLabels surf markers bshape bc).getD p 0 = 0 := by
  by_contra hl
  exact hun (C04_regions_connected surf markers bshape bc hm hb p hp hl).reach

/-- **C04-T5c (lines lie on region boundaries).** Every pixel that is True in the lines output of the
kernel model was reached through the neighbourhood from a labelled pixel whose final label differs from
its own final label (labels never change once set, so the label seen at the visit is the final one);
in particular a line pixel is labelled and is never interior to a single region's reach. -/
theorem C04_lines_on_boundaries (surf markers : Img Int) (bshape : List Nat) (bc : Array Int)
    (hm : markers.shape = surf.shape) (hb : bshape.length = surf.shape.length) (r : List Int)
    (hr : inside surf.shape r = true)
    (hl : (⟨surf.shape, (cwatershedModel surf markers bshape bc).lines⟩ : Img Bool).getD r false = true) :
    Boundary surf.shape (offsets bshape bc) (fun x => (modelLabels surf markers bshape bc).getD x 0) r := by
  have h := cwatershed_rel surf markers bshape bc hm hb
  have hlines : (⟨surf.shape, (cwatershedModel surf markers bshape bc).lines⟩ : Img Bool)
      = (cwatershedSpec surf markers bshape bc).lines := by rw [← h.ndata, ← h.nshape]
  rw [hlines] at hl
  rw [modelLabels_eq surf markers bshape bc hm hb]
  exact (cwatershedSpec_linv surf markers bshape bc).line r hr hl

/-- non-vacuity: a 2×3 surface with two markers and the cross; both runs drain their queues -/
example :
    let surf : Img Int := ⟨[2, 3], #[0, 1, 2, 1, 0, 1]⟩
    let mk : Img Int := ⟨[2, 3], #[1, 0, 0, 0, 0, 2]⟩
    let bc : Array Int := #[0, 1, 0, 1, 1, 1, 0, 1, 0]
    (cwatershedModel surf mk [3, 3] bc).res = #[1, 1, 2, 1, 2, 2] ∧
    (cwatershedSpec surf mk [3, 3] bc).lines.data = #[false, true, true, true, false, false] ∧
    (cwatershedSpec surf mk [3, 3] bc).queue = [] := by decide +kernel
