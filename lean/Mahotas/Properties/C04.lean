/-
C04 — property theorems (statements only; helper lemmas live in `Proofs/C04*.lean`).
-/
import Mahotas.Proofs.C04Flood
import Mahotas.Proofs.C04Term
import Mahotas.Proofs.C04Lines
import Mahotas.Proofs.C04Order
import Mahotas.Proofs.C04LinesExact
import Mahotas.Proofs.C04View
open Mahotas Mahotas.C04

/-- **C04-T3 (the kernel is the specified flooding).** For every surface (any rank, shape, values),
every marker image of the same shape and every neighbourhood of the same rank, the transliteration of
`cwatershed<T>` — neighbour table with flat deltas (zero deltas skipped), `margin_of` lower bounds
with the shortcut `margin − step ≥ 0` and recomputation, statuses white/grey/black, flat-index
access — returns exactly the labels and exactly the lines of the specification flooding over
coordinates (queue ordered by (cost, insertion index), markers queued in scan order, label handed to
every still-unlabelled neighbour inside the image, a queued pixel visited from another label is a
line pixel), and the two queues are drained together. -/
theorem C04_model_refines_flood (surf markers : Img Int) (bshape : List Nat) (bc : Array Int)
    (hm : markers.shape = surf.shape) (hb : bshape.length = surf.shape.length) :
    (cwatershedModel surf markers bshape bc).res = (cwatershedSpec surf markers bshape bc).label.data ∧
    (cwatershedModel surf markers bshape bc).lines = (cwatershedSpec surf markers bshape bc).lines.data ∧
    ((cwatershedModel surf markers bshape bc).queue = [] ↔ (cwatershedSpec surf markers bshape bc).queue = []) := by
  have h := cwatershed_rel surf markers bshape bc hm hb
  refine ⟨h.ldata.symm, h.ndata.symm, ?_⟩
  rw [h.queue]
  simp

/-- **C04-T3a (the flooding is complete).** The `size + 1` iterations granted to both runs always
drain the queue (potential = number of white pixels + queue length: kept at `size` by the marker scan,
lowered by exactly one per iteration), so the outputs compared in `C04_model_refines_flood` are the
*final* labels and lines of the kernel and of the specified flooding. -/
theorem C04_flood_drained (surf markers : Img Int) (bshape : List Nat) (bc : Array Int)
    (hm : markers.shape = surf.shape) (hb : bshape.length = surf.shape.length) :
    (cwatershedModel surf markers bshape bc).queue = [] ∧
    (cwatershedSpec surf markers bshape bc).queue = [] := by
  have h := cwatershed_drained surf markers bshape bc hm hb
  exact ⟨h, (C04_model_refines_flood surf markers bshape bc hm hb).2.2.1 h⟩

/-- **C04-T1 (margins).** If the margin stored with a queued pixel is a lower bound of its true
distance to the border, the bounds decision of the inner loop (`nmargin = margin − step`; recompute
`margin_of` only when negative) skips a neighbour exactly when it lies outside the image; the margin
pushed with an accepted neighbour is again a lower bound of that neighbour's true margin, and the
updated running margin is still a lower bound for the centre pixel. Any rank, any shape, any offset. -/
theorem C04_margin_check_sound (s : List Nat) (i : Nat) (m : Int) (o : List Int) (delta : Int)
    (hi : i < shapeSize s) (ho : o.length = s.length) (hm : m ≤ marginOf s (unravelI s i)) :
    match nbCheck s i m ⟨delta, chebStep o, o⟩ with
    | none => inside s (addPos (unravelI s i) o) = false
    | some (nm, m') => inside s (addPos (unravelI s i) o) = true ∧
        nm ≤ marginOf s (addPos (unravelI s i) o) ∧ m ≤ m' ∧ m' ≤ marginOf s (unravelI s i) :=
  nbCheck_sound s i m o delta hi ho hm

/-- **C04-T1a.** A position of the right rank is inside the image exactly when `margin_of` is
non-negative, and `margin_of` is 1-Lipschitz for the Chebyshev length of an offset. -/
theorem C04_margin_of (s : List Nat) (p o : List Int) (hp : p.length = s.length) (ho : o.length = s.length) :
    (inside s p = true ↔ 0 ≤ marginOf s p) ∧ marginOf s p - chebStep o ≤ marginOf s (addPos p o) :=
  ⟨inside_iff_margin s p hp, margin_lipschitz' s p o hp ho⟩

/-- **C04-T2 (flat deltas).** Whenever a pixel and its neighbour `p + off` are both inside the image,
`pos_to_flat(p) + pos_to_flat(off)` is the flat index of the neighbour; and an offset whose flat
delta is zero (those are dropped from the neighbour table) can only join a pixel to itself. -/
theorem C04_delta_sound (s : List Nat) (p o : List Int) (hp : inside s p = true)
    (hq : inside s (addPos p o) = true) :
    ((ravelI s (addPos p o) : Nat) : Int) = (ravelI s p : Int) + posToFlat s o ∧
    (posToFlat s o = 0 → addPos p o = p) :=
  ⟨ravelI_addPos s p o hp hq, zero_delta_same s p o hp hq⟩

/-- **C04-T4 (every region is connected to one of its own markers).** In the output of the kernel
model every pixel with a non-zero label is joined to a marker pixel carrying that same label by a
path of neighbourhood steps inside the image along which the label never changes. -/
theorem C04_regions_connected (surf markers : Img Int) (bshape : List Nat) (bc : Array Int)
    (hm : markers.shape = surf.shape) (hb : bshape.length = surf.shape.length) (p : List Int)
    (hp : inside surf.shape p = true) (hl : (modelLabels surf markers bshape bc).getD p 0 ≠ 0) :
    Joined surf.shape (offsets bshape bc) markers
      (fun r => (modelLabels surf markers bshape bc).getD r 0) p := by
  rw [modelLabels_eq surf markers bshape bc hm hb] at hl ⊢
  exact (cwatershedSpec_inv surf markers bshape bc).joined p hp hl

/-- **C04-T5a (markers keep their labels).** -/
theorem C04_markers_keep_labels (surf markers : Img Int) (bshape : List Nat) (bc : Array Int)
    (hm : markers.shape = surf.shape) (hb : bshape.length = surf.shape.length) (p : List Int)
    (hp : inside surf.shape p = true) (hk : markers.getD p 0 ≠ 0) :
    (modelLabels surf markers bshape bc).getD p 0 = markers.getD p 0 := by
  rw [modelLabels_eq surf markers bshape bc hm hb]
  exact (cwatershedSpec_inv surf markers bshape bc).keep p hp hk

/-- **C04-T5b (pixels no marker can reach are 0).** A pixel that cannot be reached from any marker
by neighbourhood steps inside the image has label 0 in the output of the kernel model (the output
buffers start zero-filled, as repaired, and the flooding never writes such a pixel). -/
theorem C04_unreached_zero (surf markers : Img Int) (bshape : List Nat) (bc : Array Int)
    (hm : markers.shape = surf.shape) (hb : bshape.length = surf.shape.length) (p : List Int)
    (hp : inside surf.shape p = true)
    (hun : ¬ Reach surf.shape (offsets bshape bc) markers p) :
    (modelLabels surf markers bshape bc).getD p 0 = 0 := by
  by_contra hl
  exact hun (C04_regions_connected surf markers bshape bc hm hb p hp hl).reach

/-- **C04-T5c (lines lie on region boundaries).** Every pixel that is True in the lines output of the
kernel model was reached through the neighbourhood from a labelled pixel whose final label differs from
its own final label (labels never change once set, so the label seen at the visit is the final one);
in particular a line pixel is labelled and is never interior to a single region's reach. -/
theorem C04_lines_on_boundaries (surf markers : Img Int) (bshape : List Nat) (bc : Array Int)
    (hm : markers.shape = surf.shape) (hb : bshape.length = surf.shape.length) (r : List Int)
    (hr : inside surf.shape r = true)
    (hl : (⟨surf.shape, (cwatershedModel surf markers bshape bc).lines⟩ : Img Bool).getD r false = true) :
    Boundary surf.shape (offsets bshape bc) (fun x => (modelLabels surf markers bshape bc).getD x 0) r := by
  have h := cwatershed_rel surf markers bshape bc hm hb
  have hlines : (⟨surf.shape, (cwatershedModel surf markers bshape bc).lines⟩ : Img Bool)
      = (cwatershedSpec surf markers bshape bc).lines := by rw [← h.ndata, ← h.nshape]
  rw [hlines] at hl
  rw [modelLabels_eq surf markers bshape bc hm hb]
  exact (cwatershedSpec_linv surf markers bshape bc).line r hr hl

/-- non-vacuity: a 2×3 surface with two markers and the cross; both runs drain their queues -/
example :
    let surf : Img Int := ⟨[2, 3], #[0, 1, 2, 1, 0, 1]⟩
    let mk : Img Int := ⟨[2, 3], #[1, 0, 0, 0, 0, 2]⟩
    let bc : Array Int := #[0, 1, 0, 1, 1, 1, 0, 1, 0]
    (cwatershedModel surf mk [3, 3] bc).res = #[1, 1, 2, 1, 2, 2] ∧
    (cwatershedSpec surf mk [3, 3] bc).lines.data = #[false, true, true, true, false, false] ∧
    (cwatershedSpec surf mk [3, 3] bc).queue = [] := by decide +kernel

/-- **C04-T7a (the specified flooding only looks at the order of the costs).** Let `surf` and `surf'` be
two surfaces of one shape whose values compare alike at every pair of pixels (`surf[i] < surf[j]` exactly
when `surf'[i] < surf'[j]`; equal values are then equal on both sides as well). Then, for every marker
image and every neighbourhood — no further hypothesis — the specification flooding returns the same label
image and the same lines image for both surfaces (the two runs pop the same pixel with the same insertion
index at every iteration: the queue is only ever *compared*, by (cost, insertion index), and ties are
broken by the insertion counter, which does not depend on the costs). -/
theorem C04_spec_order_invariant (surf surf' markers : Img Int) (bshape : List Nat) (bc : Array Int)
    (hs : surf'.shape = surf.shape)
    (hord : ∀ i j, i < shapeSize surf.shape → j < shapeSize surf.shape →
      (surf.data.getD i 0 < surf.data.getD j 0 ↔ surf'.data.getD i 0 < surf'.data.getD j 0)) :
    (cwatershedSpec surf' markers bshape bc).label = (cwatershedSpec surf markers bshape bc).label ∧
    (cwatershedSpec surf' markers bshape bc).lines = (cwatershedSpec surf markers bshape bc).lines := by
  have h := cwatershedSpec_orel (surf := surf) (surf' := surf') ⟨hs, hord⟩ markers bshape bc
  exact ⟨h.label, h.lines⟩

/-- **C04-T7 (order-isomorphism invariance of the flooding — labels and lines, specification and kernel
model).** If two surfaces of one shape compare alike at every pair of pixels (as in
`C04_spec_order_invariant`: `surf[i] < surf[j] ↔ surf'[i] < surf'[j]` for all flat indices inside the
image), then for markers of the surface's shape and a neighbourhood of the surface's rank both the
specification flooding and the transliterated kernel `cwatershed<T>` return the same labels and the same
lines for `surf'` as for `surf`. In particular the result is unchanged by any cost map that is strictly
increasing on the values that occur (`C04_strict_mono_invariant`), e.g. by the reduction of a surface to
its dense ranks (`C04_dense_rank_invariant`), which is what the harness sends for floating surfaces. -/
theorem C04_order_isomorphism_invariant (surf surf' markers : Img Int) (bshape : List Nat) (bc : Array Int)
    (hm : markers.shape = surf.shape) (hb : bshape.length = surf.shape.length)
    (hs : surf'.shape = surf.shape)
    (hord : ∀ i j, i < shapeSize surf.shape → j < shapeSize surf.shape →
      (surf.data.getD i 0 < surf.data.getD j 0 ↔ surf'.data.getD i 0 < surf'.data.getD j 0)) :
    (cwatershedSpec surf' markers bshape bc).label = (cwatershedSpec surf markers bshape bc).label ∧
    (cwatershedSpec surf' markers bshape bc).lines = (cwatershedSpec surf markers bshape bc).lines ∧
    (cwatershedModel surf' markers bshape bc).res = (cwatershedModel surf markers bshape bc).res ∧
    (cwatershedModel surf' markers bshape bc).lines = (cwatershedModel surf markers bshape bc).lines := by
  obtain ⟨h1, h2⟩ := C04_spec_order_invariant surf surf' markers bshape bc hs hord
  have r := C04_model_refines_flood surf markers bshape bc hm hb
  have r' := C04_model_refines_flood surf' markers bshape bc (by rw [hm, hs]) (by rw [hb, hs])
  exact ⟨h1, h2, by rw [r.1, r'.1, h1], by rw [r.2.1, r'.2.1, h2]⟩

/-- **C04-T7b (strictly increasing cost maps).** Let `phi : ℤ → ℤ` be strictly increasing *on the values
that occur in the surface* (`a < b → phi a < phi b` for `a, b` among the surface's values; nothing is
asked elsewhere), the surface holding at least as many values as its shape has pixels. Then flooding
`phi ∘ surf` gives the same labels and the same lines as flooding `surf` — for the specification and for
the kernel model. -/
theorem C04_strict_mono_invariant (phi : Int → Int) (surf markers : Img Int) (bshape : List Nat)
    (bc : Array Int) (hm : markers.shape = surf.shape) (hb : bshape.length = surf.shape.length)
    (hsz : shapeSize surf.shape ≤ surf.data.size)
    (hphi : ∀ a ∈ surf.data.toList, ∀ b ∈ surf.data.toList, a < b → phi a < phi b) :
    (cwatershedSpec (mapSurf phi surf) markers bshape bc).label = (cwatershedSpec surf markers bshape bc).label ∧
    (cwatershedSpec (mapSurf phi surf) markers bshape bc).lines = (cwatershedSpec surf markers bshape bc).lines ∧
    (cwatershedModel (mapSurf phi surf) markers bshape bc).res = (cwatershedModel surf markers bshape bc).res ∧
    (cwatershedModel (mapSurf phi surf) markers bshape bc).lines = (cwatershedModel surf markers bshape bc).lines :=
  have h := mapSurf_ordEquiv phi surf hsz hphi
  C04_order_isomorphism_invariant surf (mapSurf phi surf) markers bshape bc hm hb h.shape h.lt

/-- **C04-T7c (the rank reduction of the harness is sound).** Replacing every cost by its *dense rank*
(the number of distinct values of the surface below it — `numpy.unique(surf, return_inverse=True)[1]`)
changes neither the labels nor the lines, for the specification and for the kernel model: the dense rank
is strictly increasing on the values that occur. So a surface may be sent to the Lean driver as its dense
ranks; for a floating surface without NaN the ranks are an integer surface with the very order pattern
of the floats (`-0.0 = 0.0` on both sides). -/
theorem C04_dense_rank_invariant (surf markers : Img Int) (bshape : List Nat) (bc : Array Int)
    (hm : markers.shape = surf.shape) (hb : bshape.length = surf.shape.length)
    (hsz : shapeSize surf.shape ≤ surf.data.size) :
    (cwatershedSpec (mapSurf (denseRank surf.data) surf) markers bshape bc).label
      = (cwatershedSpec surf markers bshape bc).label ∧
    (cwatershedSpec (mapSurf (denseRank surf.data) surf) markers bshape bc).lines
      = (cwatershedSpec surf markers bshape bc).lines ∧
    (cwatershedModel (mapSurf (denseRank surf.data) surf) markers bshape bc).res
      = (cwatershedModel surf markers bshape bc).res ∧
    (cwatershedModel (mapSurf (denseRank surf.data) surf) markers bshape bc).lines
      = (cwatershedModel surf markers bshape bc).lines :=
  C04_strict_mono_invariant (denseRank surf.data) surf markers bshape bc hm hb hsz
    (denseRank_strictMonoOn surf.data)

/-- non-vacuity of T7b: every affine map with positive slope qualifies, for every surface -/
example (surf markers : Img Int) (bshape : List Nat) (bc : Array Int)
    (hm : markers.shape = surf.shape) (hb : bshape.length = surf.shape.length)
    (hsz : shapeSize surf.shape ≤ surf.data.size) :
    (cwatershedModel (mapSurf (fun x => 3 * x - 7) surf) markers bshape bc).res
      = (cwatershedModel surf markers bshape bc).res :=
  (C04_strict_mono_invariant (fun x => 3 * x - 7) surf markers bshape bc hm hb hsz
    (by intro a _ b _ h; show 3 * a - 7 < 3 * b - 7; omega)).2.2.1

/-- non-vacuity of T7c: the dense ranks of a concrete surface (they differ from the surface), and the
hypotheses of `C04_order_isomorphism_invariant` hold between a surface and a non-affine re-valuation -/
example :
    (mapSurf (denseRank #[5, -7, 100, 5, 0, 3]) ⟨[2, 3], #[5, -7, 100, 5, 0, 3]⟩ : Img Int).data
      = #[3, 0, 4, 3, 1, 2] := by decide +kernel

/-- **C04-T8 (lines, exactly).** `cwatershedTrace` is the list of neighbour visits the kernel model
performs, in order (defined in step with `modelRun`: same `extractMin`, same `modelVisit` fold): one
event for every popped queue entry `next` and every entry of the neighbour table that passes the bounds
decision, recording `next.position` (`pos`), `npos`, and what the kernel reads there at that moment:
`status[npos]`, whether `npos` is in the queue, `rdata[next.position]` (`lab`) and `rdata[npos]` (`nlab`).
For every surface, marker image, neighbourhood and flat index `i` — no hypothesis —
(1) `lines[i]` is True in the output of the kernel model **iff** some visit of the trace looked at `i`
while `status[i]` was grey and read two different labels — literally the C++
`case grey: if (lines && rdata[next.position] != rdata[npos]) lines->at_flat(npos) = true`; and
(2) the same with the *final* labels of the two pixels in place of the labels read at the visit (labels
of non-white pixels are never written again; the popped pixel is black). -/
theorem C04_lines_exact (surf markers : Img Int) (bshape : List Nat) (bc : Array Int) (i : Nat) :
    ((cwatershedModel surf markers bshape bc).lines.getD i false = true ↔
      ∃ ev ∈ cwatershedTrace surf markers bshape bc, ev.npos = i ∧ ev.status = 1 ∧ ev.lab ≠ ev.nlab) ∧
    ((cwatershedModel surf markers bshape bc).lines.getD i false = true ↔
      ∃ ev ∈ cwatershedTrace surf markers bshape bc, ev.npos = i ∧ ev.status = 1 ∧
        (cwatershedModel surf markers bshape bc).res.getD ev.pos 0
          ≠ (cwatershedModel surf markers bshape bc).res.getD i 0) :=
  ⟨cwatershed_lines_exact surf markers bshape bc i, cwatershed_lines_exact_final surf markers bshape bc i⟩

/-- **C04-T8a (the visits of the trace are what the words say).** For markers of the surface's shape and
a neighbourhood of the surface's rank, every visit of the trace: pops a pixel of the image that is
labelled; looks at a pixel of the image that is the popped pixel plus an offset of the neighbourhood;
finds it grey exactly when it is in the queue at that moment (already labelled, not yet popped) and white
exactly when it is still unlabelled; and the labels it reads are the final labels of the popped pixel
and (unless white) of the neighbour. -/
theorem C04_trace_visits (surf markers : Img Int) (bshape : List Nat) (bc : Array Int)
    (hm : markers.shape = surf.shape) (hb : bshape.length = surf.shape.length) :
    ∀ ev ∈ cwatershedTrace surf markers bshape bc,
      ev.pos < shapeSize surf.shape ∧ ev.npos < shapeSize surf.shape ∧
      (∃ o ∈ offsets bshape bc, unravelI surf.shape ev.npos = addPos (unravelI surf.shape ev.pos) o) ∧
      (ev.status = 1 ↔ ev.queued = true) ∧ (ev.status = 0 ↔ ev.nlab = 0) ∧ ev.lab ≠ 0 ∧
      ev.lab = (cwatershedModel surf markers bshape bc).res.getD ev.pos 0 ∧
      (ev.status ≠ 0 → ev.nlab = (cwatershedModel surf markers bshape bc).res.getD ev.npos 0) := by
  intro ev hev
  have g := cwatershedTrace_good surf markers bshape bc hm hb ev hev
  have f := modelTrace_final surf (neighbours surf.shape (offsets bshape bc)) (fuelOf surf.shape)
    (modelInit surf markers) (modelInit_sized surf markers) ev hev
  exact ⟨g.pos_lt, g.npos_lt, g.nb, g.grey, g.white, g.lab, f.1, f.2⟩

/-- **C04-T8b (lines = queued pixels visited from another label).** For markers of the surface's shape
and a neighbourhood of the surface's rank: a pixel `i` is True in the lines output — of the kernel model
and of the specification flooding alike — **iff** at some visit of the trace `i` was looked at from a
popped pixel while `i` was in the queue (labelled, not yet popped) and the final label of the popped
pixel differs from the final label of `i`. (By `C04_trace_visits` that visit goes from a labelled pixel
of the image through an offset of the neighbourhood, so this sharpens `C04_lines_on_boundaries` to an
equivalence.) -/
theorem C04_lines_exact_queued (surf markers : Img Int) (bshape : List Nat) (bc : Array Int)
    (hm : markers.shape = surf.shape) (hb : bshape.length = surf.shape.length) (i : Nat) :
    ((cwatershedModel surf markers bshape bc).lines.getD i false = true ↔
      ∃ ev ∈ cwatershedTrace surf markers bshape bc, ev.npos = i ∧ ev.queued = true ∧
        (cwatershedModel surf markers bshape bc).res.getD ev.pos 0
          ≠ (cwatershedModel surf markers bshape bc).res.getD i 0) ∧
    ((cwatershedSpec surf markers bshape bc).lines.data.getD i false = true ↔
      ∃ ev ∈ cwatershedTrace surf markers bshape bc, ev.npos = i ∧ ev.queued = true ∧
        (cwatershedSpec surf markers bshape bc).label.data.getD ev.pos 0
          ≠ (cwatershedSpec surf markers bshape bc).label.data.getD i 0) := by
  have key : (cwatershedModel surf markers bshape bc).lines.getD i false = true ↔
      ∃ ev ∈ cwatershedTrace surf markers bshape bc, ev.npos = i ∧ ev.queued = true ∧
        (cwatershedModel surf markers bshape bc).res.getD ev.pos 0
          ≠ (cwatershedModel surf markers bshape bc).res.getD i 0 := by
    rw [cwatershed_lines_exact_final]
    constructor
    · rintro ⟨ev, hev, h1, h2, h3⟩
      exact ⟨ev, hev, h1, (cwatershedTrace_good surf markers bshape bc hm hb ev hev).grey.1 h2, h3⟩
    · rintro ⟨ev, hev, h1, h2, h3⟩
      exact ⟨ev, hev, h1, (cwatershedTrace_good surf markers bshape bc hm hb ev hev).grey.2 h2, h3⟩
  have r := C04_model_refines_flood surf markers bshape bc hm hb
  refine ⟨key, ?_⟩
  rw [← r.1, ← r.2.1]
  exact key

/-- non-vacuity of T8: on the 2×3 example the trace has 14 visits; exactly three of them satisfy the
C++ condition, at the pixels 1, 3 and 2 (each queued at that moment), and these are the True pixels -/
example :
    let surf : Img Int := ⟨[2, 3], #[0, 1, 2, 1, 0, 1]⟩
    let mk : Img Int := ⟨[2, 3], #[1, 0, 0, 0, 0, 2]⟩
    let bc : Array Int := #[0, 1, 0, 1, 1, 1, 0, 1, 0]
    (cwatershedTrace surf mk [3, 3] bc).length = 14 ∧
    ((cwatershedTrace surf mk [3, 3] bc).filter (fun ev => ev.status == 1 && ev.lab != ev.nlab)).map
        (fun ev => (ev.pos, ev.npos, ev.queued, ev.lab, ev.nlab))
      = [(4, 1, true, 2, 1), (4, 3, true, 2, 1), (1, 2, true, 1, 2)] ∧
    (cwatershedModel surf mk [3, 3] bc).lines = #[false, true, true, true, false, false] := by
  decide +kernel

/-- **C04-T8c (lines of the specification flooding, exactly, over its own trace).** `cwatershedSpecTrace`
is the list of neighbour visits of the specification flooding, in order (defined in step with `specRun`:
same `extractMin`, same `specVisit` fold): one event for every popped pixel `p` and every offset with
`q = p + off` inside the image, recording `p`, `q`, whether `q` is in the queue, and the labels of `p` and
`q` at that moment. For every surface, marker image, neighbourhood and position `r` — no hypothesis —
`lines[r]` is True in the specification's output **iff** some visit of its trace looked at `r` while `r`
was labelled and in the queue (assigned a label, not yet popped) from a popped pixel carrying a different
label. -/
theorem C04_spec_lines_exact (surf markers : Img Int) (bshape : List Nat) (bc : Array Int) (r : List Int) :
    (cwatershedSpec surf markers bshape bc).lines.getD r false = true ↔
      ∃ ev ∈ cwatershedSpecTrace surf markers bshape bc,
        ev.q = r ∧ ev.lq ≠ 0 ∧ ev.queued = true ∧ ev.lp ≠ ev.lq :=
  cwatershedSpec_lines_exact surf markers bshape bc r

/-- non-vacuity of T8c: on the 2×3 example the specification makes 20 visits (the 14 of the kernel plus the
6 centre visits whose zero delta the kernel skips); the same three make a line pixel -/
example :
    let surf : Img Int := ⟨[2, 3], #[0, 1, 2, 1, 0, 1]⟩
    let mk : Img Int := ⟨[2, 3], #[1, 0, 0, 0, 0, 2]⟩
    let bc : Array Int := #[0, 1, 0, 1, 1, 1, 0, 1, 0]
    (cwatershedSpecTrace surf mk [3, 3] bc).length = 20 ∧
    ((cwatershedSpecTrace surf mk [3, 3] bc).filter
        (fun ev => ev.lq != 0 && ev.queued && ev.lp != ev.lq)).map (fun ev => (ev.p, ev.q, ev.lp, ev.lq))
      = [([1, 1], [0, 1], 2, 1), ([1, 1], [1, 0], 2, 1), ([0, 1], [0, 2], 1, 2)] := by
  decide +kernel

/-! ## Round 4 — T6: layout and dtype independence; the marker cast -/

open Mahotas.C08 in
/-- **C04-T6a (the kernel on views = the specified flooding of the logical arrays, any memory layout).**
`C08.cwatershedView` is `cwatershed<T>` as it reads its arguments: the surface and the markers only through
`aligned_array::at_flat(i)`, `i < N` (the repaired loop `c = p % dim(d); p /= dim(d)` for a strided array, `data()[p]`
for a C-array), the structuring element through its own iterator. For EVERY base address and EVERY element strides
(negative, zero, transposed, sliced — `View.WF` only asks for one stride per axis, and that an array flagged as a C-array
has C strides) of the three arrays and every memory content: labels and lines of the view kernel are exactly the labels
and lines of the SPECIFICATION flooding (`cwatershedSpec`: priority queue on (cost, insertion index) over coordinates)
run on the logical contents `logicalImg mem view` (element `k` = memory at the address of the `k`-th position in C order;
`logicalImg` is `C08.toImg`, by `rfl`).
Hence the result depends on the three arguments only through their logical contents. Hypotheses: the markers have
the surface's shape and the element its rank (both enforced by `morph.py`). -/
theorem C04_view_eq_spec (mS mM mB : Int → Int) (vS vM vB : View) (wS : vS.WF) (wM : vM.WF) (wB : vB.WF)
    (hm : vM.shape = vS.shape) (hb : vB.shape.length = vS.shape.length) :
    (cwatershedView mS vS mM vM mB vB).res =
      (cwatershedSpec (logicalImg mS vS) (logicalImg mM vM) vB.shape (logical mB vB).toArray).label.data ∧
    (cwatershedView mS vS mM vM mB vB).lines =
      (cwatershedSpec (logicalImg mS vS) (logicalImg mM vM) vB.shape (logical mB vB).toArray).lines.data ∧
    cwatershedView mS vS mM vM mB vB =
      cwatershedModel (logicalImg mS vS) (logicalImg mM vM) vB.shape (logical mB vB).toArray := by
  have e : cwatershedView mS vS mM vM mB vB =
      cwatershedModel (logicalImg mS vS) (logicalImg mM vM) vB.shape (logical mB vB).toArray := by
    unfold cwatershedView
    rw [flatImg_eq_logicalImg _ _ wS, flatImg_eq_logicalImg _ _ wM, filtVals_eq_logical _ _ wB]
  have r := C04_model_refines_flood (logicalImg mS vS) (logicalImg mM vM) vB.shape (logical mB vB).toArray hm hb
  exact ⟨by rw [e, r.1], by rw [e, r.2.1], e⟩

open Mahotas.C08 in
/-- **C04-T6 (layout AND dtype independence).** Two calls whose marker arrays and structuring elements have the same
logical content (any two layouts each) and whose surfaces — of one shape, in any two layouts, holding values of any two
cost types — are ORDER-ISOMORPHIC (`surf₁[i] < surf₁[j] ↔ surf₂[i] < surf₂[j]` for all pixels: e.g. an integer surface
and the same numbers stored as float64, a float surface and its dense ranks, a uint8 surface and its int64 copy) give
the same label image and the same lines image. Composition of `C04_view_eq_spec` with `C04_spec_order_invariant`. What
is assumed about the C++: `MarkerInfo<T>::operator<` on the non-NaN values of `T` is the numeric order. -/
theorem C04_view_layout_dtype_independent (mS₁ mS₂ mM₁ mM₂ mB₁ mB₂ : Int → Int) (vS₁ vS₂ vM₁ vM₂ vB₁ vB₂ : View)
    (wS₁ : vS₁.WF) (wS₂ : vS₂.WF) (wM₁ : vM₁.WF) (wM₂ : vM₂.WF) (wB₁ : vB₁.WF) (wB₂ : vB₂.WF)
    (hm : vM₁.shape = vS₁.shape) (hb : vB₁.shape.length = vS₁.shape.length) (hs : vS₂.shape = vS₁.shape)
    (hM : logicalImg mM₂ vM₂ = logicalImg mM₁ vM₁) (hB : vB₂.shape = vB₁.shape ∧ logical mB₂ vB₂ = logical mB₁ vB₁)
    (hord : ∀ i j, i < shapeSize vS₁.shape → j < shapeSize vS₁.shape →
      ((logicalImg mS₁ vS₁).data.getD i 0 < (logicalImg mS₁ vS₁).data.getD j 0 ↔
        (logicalImg mS₂ vS₂).data.getD i 0 < (logicalImg mS₂ vS₂).data.getD j 0)) :
    (cwatershedView mS₂ vS₂ mM₂ vM₂ mB₂ vB₂).res = (cwatershedView mS₁ vS₁ mM₁ vM₁ mB₁ vB₁).res ∧
    (cwatershedView mS₂ vS₂ mM₂ vM₂ mB₂ vB₂).lines = (cwatershedView mS₁ vS₁ mM₁ vM₁ mB₁ vB₁).lines := by
  have hm₂ : vM₂.shape = vS₂.shape := by
    have : (logicalImg mM₂ vM₂).shape = (logicalImg mM₁ vM₁).shape := by rw [hM]
    rw [hs, ← hm]; exact this
  have hb₂ : vB₂.shape.length = vS₂.shape.length := by rw [hB.1, hs]; exact hb
  obtain ⟨a1, a2, _⟩ := C04_view_eq_spec mS₁ mM₁ mB₁ vS₁ vM₁ vB₁ wS₁ wM₁ wB₁ hm hb
  obtain ⟨b1, b2, _⟩ := C04_view_eq_spec mS₂ mM₂ mB₂ vS₂ vM₂ vB₂ wS₂ wM₂ wB₂ hm₂ hb₂
  obtain ⟨o1, o2⟩ := C04_spec_order_invariant (logicalImg mS₁ vS₁) (logicalImg mS₂ vS₂) (logicalImg mM₁ vM₁) vB₁.shape
    (logical mB₁ vB₁).toArray hs hord
  rw [a1, a2, b1, b2, hM, hB.1, hB.2, o1, o2]
  exact ⟨rfl, rfl⟩

/-- **C04 (the marker cast, `morph.py:314`).** `castMarker` — `np.asanyarray(markers, np.int64)` on one value — is the
identity on `[−2⁶³, 2⁶³)` (every value of bool, int8…int64, uint8…uint32 marker images), maps a `uint64` value
`v ≥ 2⁶³` to the negative label `v − 2⁶⁴`, always lands in the int64 range, and is zero exactly when the caller's value
is zero (for every value of every integer dtype): the SET of marker pixels is the caller's, the labels are the cast
values. So for every marker dtype but `uint64` `cwatershedPy = cwatershedModel` on the caller's markers, and all C04
theorems apply to `cwatershedPy` with `castMarkers markers` for `markers` — "markers keep their labels" is about the cast
values (a `uint64` label `2⁶⁴ − 1` comes back as `−1`). -/
theorem C04_marker_cast (v : Int) :
    (-9223372036854775808 ≤ v → v < 9223372036854775808 → castMarker v = v) ∧
    (9223372036854775808 ≤ v → v < 18446744073709551616 → castMarker v = v - 18446744073709551616) ∧
    (-9223372036854775808 ≤ castMarker v ∧ castMarker v < 9223372036854775808) ∧
    (-9223372036854775808 ≤ v → v < 18446744073709551616 → (castMarker v = 0 ↔ v = 0)) := by
  unfold castMarker
  simp only []
  refine ⟨fun h1 h2 => ?_, fun h1 h2 => ?_, ?_, fun h1 h2 => ?_⟩ <;> split <;> omega

/-- `cwatershedPy` on markers that fit int64 is the kernel on the caller's markers. -/
theorem C04_py_eq_model_of_int64 (surf markers : Img Int) (bshape : List Nat) (bc : Array Int)
    (h : ∀ v ∈ markers.data.toList, -9223372036854775808 ≤ v ∧ v < 9223372036854775808) :
    cwatershedPy surf markers bshape bc = cwatershedModel surf markers bshape bc := by
  unfold cwatershedPy castMarkers
  have : markers.data.map castMarker = markers.data := by
    apply Array.ext (by simp)
    intro i h1 h2
    rw [Array.getElem_map]
    exact (C04_marker_cast _).1 (h _ (by simp)).1 (h _ (by simp)).2
  rw [this]

/-- non-vacuity of T6a: the 2×3 surface `[[0,1,2],[1,0,1]]` stored in FORTRAN order (element strides `(1, 2)`, memory
`0,1,1,0,2,1`) with the markers stored reversed (base 5, strides `(-3, -1)`): the view kernel returns the labels and
lines of the C-contiguous example above; both views are well-formed, neither is a C-array. -/
example :
    let mS : Int → Int := fun a => (#[0, 1, 1, 0, 2, 1] : Array Int).getD a.toNat 0
    let mM : Int → Int := fun a => (#[2, 0, 0, 0, 0, 1] : Array Int).getD a.toNat 0
    let mB : Int → Int := fun a => (#[0, 1, 0, 1, 1, 1, 0, 1, 0] : Array Int).getD a.toNat 0
    let vS : C08.View := { base := 0, shape := [2, 3], strides := [1, 2] }
    let vM : C08.View := { base := 5, shape := [2, 3], strides := [-3, -1] }
    let vB : C08.View := { base := 0, shape := [3, 3], strides := [3, 1], carray := true }
    (logicalImg mS vS).data = #[0, 1, 2, 1, 0, 1] ∧ (logicalImg mM vM).data = #[1, 0, 0, 0, 0, 2] ∧
    (C08.cwatershedView mS vS mM vM mB vB).res = #[1, 1, 2, 1, 2, 2] ∧
    (C08.cwatershedView mS vS mM vM mB vB).lines = #[false, true, true, true, false, false] := by
  decide +kernel
example (mS mM mB : Int → Int) :
    let vS : C08.View := { base := 0, shape := [2, 3], strides := [1, 2] }
    let vM : C08.View := { base := 5, shape := [2, 3], strides := [-3, -1] }
    let vB : C08.View := { base := 0, shape := [3, 3], strides := [3, 1], carray := true }
    (C08.cwatershedView mS vS mM vM mB vB).res =
      (cwatershedSpec (logicalImg mS vS) (logicalImg mM vM) vB.shape (C08.logical mB vB).toArray).label.data := by
  intro vS vM vB
  have wS : vS.WF := ⟨rfl, by intro h; cases h⟩
  have wM : vM.WF := ⟨rfl, by intro h; cases h⟩
  have wB : vB.WF := ⟨rfl, fun _ => by decide⟩
  exact (C04_view_eq_spec mS mM mB vS vM vB wS wM wB rfl rfl).1

/-- non-vacuity of the marker cast: `uint64` labels at and above `2⁶³`, and a surface flooded from such a marker -/
example : castMarker 18446744073709551615 = -1 ∧ castMarker 9223372036854775808 = -9223372036854775808 ∧
    castMarker 255 = 255 ∧ castMarker (-128) = -128 ∧
    (cwatershedPy ⟨[1, 3], #[0, 0, 0]⟩ ⟨[1, 3], #[18446744073709551615, 0, 0]⟩ [1, 3] #[1, 1, 1]).res = #[-1, -1, -1] := by
  decide +kernel

/-- non-vacuity of T3 for a neighbourhood LARGER than the image (round 4): a 7×5 all-ones element on a 2×3 surface, an
even-sided 2×4 element, and the empty (all-zero) element — model = specification, queues drained; with the large
element every pixel is a neighbour of every pixel, so the two markers race for the whole image by cost and index. -/
example :
    let surf : Img Int := ⟨[2, 3], #[3, 1, 2, 1, 0, 1]⟩
    let mk : Img Int := ⟨[2, 3], #[1, 0, 0, 0, 0, 2]⟩
    (cwatershedModel surf mk [7, 5] (Array.replicate 35 1)).res = #[1, 2, 2, 2, 2, 2] ∧
    (cwatershedSpec surf mk [7, 5] (Array.replicate 35 1)).label.data = #[1, 2, 2, 2, 2, 2] ∧
    (cwatershedModel surf mk [7, 5] (Array.replicate 35 1)).lines
      = (cwatershedSpec surf mk [7, 5] (Array.replicate 35 1)).lines.data ∧
    (cwatershedModel surf mk [2, 4] (Array.replicate 8 1)).res
      = (cwatershedSpec surf mk [2, 4] (Array.replicate 8 1)).label.data ∧
    (cwatershedModel surf mk [3, 3] (Array.replicate 9 0)).res = #[1, 0, 0, 0, 0, 2] := by
  decide +kernel
