/-
C05 — property theorems (statements only; helper lemmas live in `Proofs/C05*.lean`).
-/
import Mahotas.Proofs.C05Nd
import Mahotas.Proofs.C05Strided
import Mahotas.Proofs.C05Abscissa
import Mahotas.Proofs.C05Bounds
import Mahotas.Proofs.C05Rounded
import Mahotas.Proofs.C05Binary64
import Mahotas.Generated.Guards
open Mahotas Mahotas.C05 Mahotas.C04

/-- **C05-T1 (the 1-D pass is the exact lower envelope).** For every integer line `f` of every
length, the model of `dist_transform` — stack of parabola roots `v` and breakpoints `z` with the pop
loop `s ≤ z[k]`, then the read-out walk `while (z[k+1] < q) ++k` — returns at every `q` exactly
`min_v (q − v)² + f v`. No assumption on the values of `f` (any integers: zeros, finite "infinity"
fill values, results of an earlier pass). -/
theorem C05_dt1d_lower_envelope (f : Array Int) :
    dt1d f = (List.range f.size).map (minPlus1d f) :=
  dt1d_eq_min f

/-- **C05-T1a (what `minPlus1d` is).** The specification value is a lower bound of every candidate
`(q − v)² + f v`, `v < f.size`, and is attained by one of them. -/
theorem C05_minPlus1d_is_min (f : Array Int) (q : Nat) (hf : 0 < f.size) :
    (∀ v < f.size, minPlus1d f q ≤ valueAt f q v) ∧ ∃ v < f.size, minPlus1d f q = valueAt f q v := by
  unfold minPlus1d
  obtain ⟨h0, h1⟩ := foldl_min_le (fun v => valueAt f q v) (List.range f.size) (valueAt f q 0)
  refine ⟨fun v hv => h1 v (List.mem_range.2 hv), ?_⟩
  rcases foldl_min_mem (fun v => valueAt f q v) (List.range f.size) (valueAt f q 0) with h | ⟨v, hv, h⟩
  · exact ⟨0, hf, h⟩
  · exact ⟨v, List.mem_range.1 hv, h⟩

/-- **C05-T1b (the read-out walk).** The incremental walk of the second loop of `dist_transform`
(`k` only ever moves up while `z[k+1] < q`) selects, for every `q`, the same root as a search of the
whole stack from the top for the first breakpoint below `q`. -/
theorem C05_walk_finds_owner (f : Array Int) : owners1d f = owners1dTop f :=
  owners1d_eq_top f

/-- **C05-T1c (envelope invariant at every rational abscissa).** After the first loop has handled
`q = 1 … m`, the root owning `x` minimises all `m + 1` parabolas at *every* rational `x`, the stack is
a chain (roots and breakpoints strictly increasing, each breakpoint the intersection with the entry
below) and the owner is one of the roots `0 … m`. -/
theorem C05_envelope_invariant (g : ℕ → ℚ) (m : ℕ) (x : ℚ) :
    Chain g (build g m) ∧ owner (build g m) x ≤ m ∧
    ∀ u ≤ m, P g (owner (build g m) x) x ≤ P g u x :=
  ⟨(build_inv g m).1, owner_build_le g m x, fun u hu => owner_build_min g m x u hu⟩

/-- **C05-T2 (`distance` is the exact squared Euclidean transform, any rank and shape).** Let `bw`
be an image of any rank and shape with at least one background pixel (`bw = 0`). After the passes of
the 1-D kernel along every axis, started from 0 on the background and the Python fill value
(`2·max(shape)²+1` for 2-D, `Σ shape²+1` otherwise) on the foreground, the value at every pixel `p` is
a lower bound of the squared distance to every background pixel and is attained by one:
it *is* the minimum squared Euclidean distance to the background. -/
theorem C05_distance_exact (shape : List Nat) (bw : Array Int) (p : List Int)
    (hp : inside shape p = true)
    (hbg : ∃ q0, inside shape q0 = true ∧ bw.getD (ravelI shape q0) 0 = 0) :
    (∀ q, inside shape q = true → bw.getD (ravelI shape q) 0 = 0 →
        (distanceCoord shape bw).1.getD p 0 ≤ sqDist p q) ∧
    (∃ q, inside shape q = true ∧ bw.getD (ravelI shape q) 0 = 0 ∧
        (distanceCoord shape bw).1.getD p 0 = sqDist p q) := by
  obtain ⟨n, hn, _, hbn, hval, hmin⟩ := nd_core shape bw p hp hbg
  obtain ⟨hoin, horav⟩ := unravelI_inside shape n hn
  refine ⟨fun q hq hb => by rw [hval]; exact hmin q hq hb, unravelI shape n, hoin, ?_, hval⟩
  rw [horav]; exact hbn

/-- **C05-T2c (the passes use the 1-D kernel).** The value a pass writes at a pixel is the entry of
`dt1d` (the model of `dist_transform` that the correspondence check compares with the native
`_distance.dt` on arbitrary sampled lines) for the line through that pixel: by T1 it is
`min_t (p_ax − t)² + F(p[ax := t])`. -/
theorem C05_pass_is_dt1d (fo : Img Int × Img Int) (ax : Nat) (p : List Int)
    (hp : inside fo.1.shape p = true) (hax : ax < fo.1.shape.length) :
    (passCoord fo ax).1.getD p 0 = (dt1d (lineOf fo.1 p ax)).getD (p.getD ax 0).toNat 0 ∧
    (passCoord fo ax).1.getD p 0 = minPlus1d (lineOf fo.1 p ax) (p.getD ax 0).toNat := by
  obtain ⟨h0, h1⟩ := inside_getD fo.1.shape p ax hp hax
  have hq : (p.getD ax 0).toNat < (lineOf fo.1 p ax).size := by rw [lineOf_size]; omega
  have hv : (passCoord fo ax).1.getD p 0 =
      valueAt (lineOf fo.1 p ax) (p.getD ax 0).toNat (ownerAt (lineOf fo.1 p ax) (p.getD ax 0).toNat) := by
    simp only [passCoord]; rw [tabulate_getD _ _ p 0 hp]
  refine ⟨by rw [hv, dt1d_getD _ _ hq], ?_⟩
  rw [hv, ← dt1d_getD _ _ hq, C05_dt1d_lower_envelope]
  exact map_range_getD _ _ _ hq

/-- **C05-T2a (0 on the background).** -/
theorem C05_distance_background_zero (shape : List Nat) (bw : Array Int) (p : List Int)
    (hp : inside shape p = true) (hb : bw.getD (ravelI shape p) 0 = 0) :
    (distanceCoord shape bw).1.getD p 0 = 0 := by
  obtain ⟨h1, q, _, _, h2⟩ := C05_distance_exact shape bw p hp ⟨p, hp, hb⟩
  have := h1 p hp hb
  rw [sqDist_self] at this
  have := sqDist_nonneg p q
  omega

/-- **C05-T2b (no background).** If no pixel is background, every pixel gets a value larger than
the largest squared distance attainable inside the array, `Σ (shape_d − 1)²`. -/
theorem C05_distance_no_background (shape : List Nat) (bw : Array Int) (p : List Int)
    (hp : inside shape p = true)
    (hno : ∀ q, inside shape q = true → bw.getD (ravelI shape q) 0 ≠ 0) :
    maxDist2 shape < (distanceCoord shape bw).1.getD p 0 := by
  obtain ⟨n, hn, _, hval, _⟩ := nd_final shape bw p hp
  obtain ⟨hoin, horav⟩ := unravelI_inside shape n hn
  rw [f0_getD shape bw _ hoin, if_neg (hno _ hoin)] at hval
  have h1 := maxDist2_lt_sentinel shape (inside_dims_pos shape p hp)
  have h2 := sqDist_nonneg p (unravelI shape n)
  omega

/-- **C05-T3 (`gvoronoi` assigns a nearest label).** For a label image `lab` (any rank/shape, at
least one labelled pixel) the origin tracked through the passes (background of the transform =
labelled pixels) is, at every pixel `p`, a *labelled* pixel at minimum squared Euclidean distance
from `p`; the output `lab.flat[orig]` is its label; labelled pixels keep their own label. -/
theorem C05_gvoronoi_nearest (shape : List Nat) (lab : Array Int) (hsz : lab.size = shapeSize shape)
    (p : List Int) (hp : inside shape p = true)
    (hlab : ∃ q0, inside shape q0 = true ∧ lab.getD (ravelI shape q0) 0 ≠ 0) :
    let bw := lab.map fun l => if l == 0 then (1 : Int) else 0
    let o := unravelI shape ((distanceCoord shape bw).2.getD p 0).toNat
    inside shape o = true ∧
    lab.getD ((distanceCoord shape bw).2.getD p 0).toNat 0 = lab.getD (ravelI shape o) 0 ∧
    lab.getD (ravelI shape o) 0 ≠ 0 ∧
    (∀ q, inside shape q = true → lab.getD (ravelI shape q) 0 ≠ 0 → sqDist p o ≤ sqDist p q) ∧
    (lab.getD (ravelI shape p) 0 ≠ 0 → o = p) := by
  intro bw o
  have hbw : ∀ i, i < shapeSize shape → (bw.getD i 0 = 0 ↔ lab.getD i 0 ≠ 0) := by
    intro i hi
    have hi' : i < lab.size := by rw [hsz]; exact hi
    simp only [bw, Array.getD_eq_getD_getElem?, Array.getElem?_map, Array.getElem?_eq_getElem hi',
      Option.map_some, Option.getD_some]
    by_cases h : lab[i] = 0 <;> simp [h]
  obtain ⟨q0, hq0, hl0⟩ := hlab
  obtain ⟨n, hn, ho, hbn, _, hmin⟩ := nd_core shape bw p hp
    ⟨q0, hq0, (hbw _ (ravelI_lt shape q0 hq0)).2 hl0⟩
  obtain ⟨hoin, horav⟩ := unravelI_inside shape n hn
  have hon : o = unravelI shape n := by simp only [o, ho, Int.toNat_natCast]
  rw [hon, horav, ho, Int.toNat_natCast]
  refine ⟨hoin, rfl, (hbw n hn).1 hbn, ?_, ?_⟩
  · intro q hq hlq
    exact hmin q hq ((hbw _ (ravelI_lt shape q hq)).2 hlq)
  · intro hlp
    have := hmin p hp ((hbw _ (ravelI_lt shape p hp)).2 hlp)
    rw [sqDist_self] at this
    have h0 : sqDist p (unravelI shape n) = 0 := le_antisymm this (sqDist_nonneg _ _)
    exact (sqDist_eq_zero p _ (by rw [inside_length shape p hp, inside_length shape _ hoin]) h0).symm

/-- non-vacuity: a 2×2×3 image with one background pixel, and an all-foreground one -/
example : (distanceCoord [2, 2, 3] #[1, 1, 1, 1, 1, 1, 1, 1, 1, 1, 0, 1]).1.data
    = #[3, 2, 3, 2, 1, 2, 2, 1, 2, 1, 0, 1] := by decide +kernel
example : (distanceCoord [4] #[1, 1, 1, 1]).1.data = #[17, 17, 17, 17] ∧ maxDist2 [4] = 9 := by
  decide +kernel

/-- non-vacuity: a line with two zeros, a large fill value and ties -/
example : dt1d #[5, 9, 0, 9, 9, 1] = [4, 1, 0, 1, 2, 1] := by decide +kernel
example : (List.range 6).map (minPlus1d #[5, 9, 0, 9, 9, 1]) = [4, 1, 0, 1, 2, 1] := by decide +kernel

/-! ## Round 2 — the flat/strided transliteration of `py_dt`, the wrapper, double vs rational -/

/-- **C05-T2d (`py_dt` on ANY strided 2-D view = the two coordinate-level passes).** `pyDt` is the
transliteration of `py_dt` of `_distance.cpp` as it is now: for `k = 0, 1` the `size/dim(k)` lines that
start at `data + start·strides[1−k]` are handed to `dist_transform` with stride `strides[k]`, which
reads the line, stages `Df`/`ot` and copies them back. For every buffer pair (values, origins), every
shape `(d0, d1)` with positive sides and every data pointer / element strides `b, s0, s1` (any sign,
any order: C, Fortran, transposed, reversed, sliced, `(1, n)` rows …) such that the view addresses are
inside the buffer and pairwise distinct (`ViewOK`, what numpy guarantees for a non-overlapping view;
likewise for `orig`): the logical images read through the views after the call are exactly
`passCoord (passCoord · 0) 1` of the logical images before the call, the buffers keep their sizes, and
every buffer element outside the view is unchanged. -/
theorem C05_strided_eq_coord (fo : Array Int × Array Int) (d0 d1 : Nat) (b s0 s1 ob os0 os1 : Int)
    (hd0 : 0 < d0) (hd1 : 0 < d1)
    (hv : ViewOK fo.1.size d0 d1 b s0 s1) (ho : ViewOK fo.2.size d0 d1 ob os0 os1) :
    (logical2 (pyDt fo d0 d1 b s0 s1 ob os0 os1).1 d0 d1 b s0 s1,
     logical2 (pyDt fo d0 d1 b s0 s1 ob os0 os1).2 d0 d1 ob os0 os1) =
      passCoord (passCoord (logical2 fo.1 d0 d1 b s0 s1, logical2 fo.2 d0 d1 ob os0 os1) 0) 1 ∧
    (pyDt fo d0 d1 b s0 s1 ob os0 os1).1.size = fo.1.size ∧
    (pyDt fo d0 d1 b s0 s1 ob os0 os1).2.size = fo.2.size ∧
    (∀ x, (∀ i < d0, ∀ j < d1, addr2 b s0 s1 i j ≠ x) →
      (pyDt fo d0 d1 b s0 s1 ob os0 os1).1.getD x 0 = fo.1.getD x 0) ∧
    (∀ x, (∀ i < d0, ∀ j < d1, addr2 ob os0 os1 i j ≠ x) →
      (pyDt fo d0 d1 b s0 s1 ob os0 os1).2.getD x 0 = fo.2.getD x 0) := by
  obtain ⟨h1, h2, h3, h4, h5⟩ := pyDt_logical fo d0 d1 b s0 s1 ob os0 os1 hd0 hd1 hv ho
  exact ⟨h3, h1, h2, h4, h5⟩

/-- **C05-T2e (the `(1, n)` views of the n-D loop).** What the repaired `distance.py` does for arrays
that are not 2-D: for one axis, every line (enumerated by its first element, in `np.ndindex` order)
is passed to `py_dt` as a `(1, n)` view with strides `(0, stride_ax)`. (a) On such a view `py_dt` is
exactly one `dist_transform` of the row (the pass along the length-1 axis changes nothing).
(b) The whole loop over the lines of axis `ax` — on C-contiguous buffers of any rank and shape —
produces the data of `passCoord · ax`. -/
theorem C05_row_views_eq_coord :
    (∀ (fo : Array Int × Array Int) (n i st : Nat), 0 < n →
      pyDt fo 1 n (i : Int) 0 (st : Int) (i : Int) 0 (st : Int) =
        dtLineA fo (fun t => i + t * st) (fun t => i + t * st) n) ∧
    (∀ (shape : List Nat) (ax : Nat) (A O : Img Int), ax < shape.length →
      A.shape = shape → O.shape = shape → A.data.size = shapeSize shape → O.data.size = shapeSize shape →
      passAxis shape ax (A.data, O.data) = ((passCoord (A, O) ax).1.data, (passCoord (A, O) ax).2.data)) :=
  ⟨fun fo n i st hn => pyDt_row fo n i st hn,
   fun shape ax A O hax hA hO hAs hOs => passAxis_coord shape ax hax A O hA hO hAs hOs⟩

/-- **C05-T2f (the model of the code = the coordinate-level passes, every rank and shape).**
`distanceModel` — `f = zeros(shape)` filled with the Python sentinel, `orig = arange(size)`, then
`py_dt` on the whole C-contiguous array when it is 2-D and the loop over axes and `(1, n)` line views
otherwise — returns exactly the value and origin arrays of `distanceCoord`, for every shape (empty
axes included) and every input of matching size. This was a run-time comparison
(`model-coord-vs-flat`) before. -/
theorem C05_model_eq_coord (shape : List Nat) (bw : Array Int) (hsz : bw.size = shapeSize shape) :
    (distanceModel shape bw).1 = (distanceCoord shape bw).1.data ∧
    (distanceModel shape bw).2 = (distanceCoord shape bw).2.data := by
  rw [distanceModel_eq_coord shape bw hsz]
  exact ⟨rfl, rfl⟩

/-- **C05-T2 for the model of the code (`C05_distance_exact` transferred).** With some background
pixel, the flat output of `distanceModel` at the C-order index of every pixel `p` is a lower bound of
the squared distance from `p` to every background pixel and equals the squared distance to one of
them — for every rank and shape. -/
theorem C05_model_exact (shape : List Nat) (bw : Array Int) (hsz : bw.size = shapeSize shape)
    (p : List Int) (hp : inside shape p = true)
    (hbg : ∃ q0, inside shape q0 = true ∧ bw.getD (ravelI shape q0) 0 = 0) :
    (∀ q, inside shape q = true → bw.getD (ravelI shape q) 0 = 0 →
        (distanceModel shape bw).1.getD (ravelI shape p) 0 ≤ sqDist p q) ∧
    (∃ q, inside shape q = true ∧ bw.getD (ravelI shape q) 0 = 0 ∧
        (distanceModel shape bw).1.getD (ravelI shape p) 0 = sqDist p q) := by
  have hshape : (distanceCoord shape bw).1.shape = shape :=
    (passes_flat shape shape.length (Nat.le_refl _) (initCoord shape bw) (initCoord_good shape bw)).2.1
  have hget : (distanceCoord shape bw).1.getD p 0 =
      (distanceModel shape bw).1.getD (ravelI shape p) 0 := by
    rw [(C05_model_eq_coord shape bw hsz).1]
    unfold Img.getD
    rw [hshape, if_pos hp]
  rw [← hget]
  exact C05_distance_exact shape bw p hp hbg

/-- **C05 (`metric='euclidean'`).** In the wrapper model the result for `metric='euclidean'` is the
element-wise IEEE square root (`np.sqrt(f, f)`; `Float.sqrt` is the correctly rounded C `sqrt`) of the
double array holding the squared transform, which is the result for `'euclidean2'`: element `i` is
`sqrt(double(distanceModel[i]))`. -/
theorem C05_euclidean_is_sqrt (shape : List Nat) (bw : Array Int) :
    distanceWrapper shape bw true = (distanceWrapper shape bw false).map Float.sqrt ∧
    distanceWrapper shape bw false = (distanceModel shape bw).1.map Float.ofInt ∧
    ∀ i (h : i < (distanceModel shape bw).1.size),
      (distanceWrapper shape bw true)[i]? = some (Float.sqrt (Float.ofInt (distanceModel shape bw).1[i])) := by
  refine ⟨rfl, rfl, ?_⟩
  intro i h
  simp [distanceWrapper, h]

/-- **C05 (separation of intersection abscissae).** Two distinct fractions with positive denominators
at most `D` differ by at least `1/D²`; a fraction that is not the integer `q` differs from it by at
least `1/b`. (The abscissae of the kernel are integers over `2(v−u) ≤ 2n`.) -/
theorem C05_abscissa_separation (a c : ℤ) (b d D : ℕ) (hb : 0 < b) (hd : 0 < d) (hbD : b ≤ D) (hdD : d ≤ D) :
    ((a : ℚ) / b ≠ (c : ℚ) / d → 1 / (D : ℚ) ^ 2 ≤ |(a : ℚ) / b - (c : ℚ) / d|) ∧
    ((a : ℚ) / b ≠ (c : ℚ) → 1 / (b : ℚ) ≤ |(a : ℚ) / b - (c : ℚ)|) :=
  ⟨fun h => frac_separation_bound a c b d D hb hd hbD hdD h, fun h => frac_separation_int a c b hb h⟩

/-- **C05 (the double-vs-rational assumption, made precise and discharged).** `AbscissaExact rnd g n`
says: every comparison the C code makes — a rounded abscissa `rnd (s(u,v))` against another rounded
abscissa, or against an integer `q ≤ n` — has the same outcome as the exact rational comparison.
It holds for every rounding function that is monotone, has relative error at most `2⁻⁵³` and is exact
on integers up to `2⁵³` (`Rounding`: what one IEEE-754 binary64 round-to-nearest division gives in the
normal range; bit patterns are not modelled) whenever the sampled values are integers with
`|g i| + i² ≤ B` and `4·n²·B < 2⁵³` — in particular for lines of at most `2¹²` elements with values
in `[0, 2²⁶]` (the sentinels and all intermediate pass values of arrays with sides below `2¹²`, rank ≤ 4). -/
theorem C05_abscissa_exact_of_bounds (rnd : ℚ → ℚ) (hr : Rounding rnd) (g : ℕ → ℚ) (mi : ℕ → ℤ) (n : ℕ)
    (hg : ∀ i ≤ n, g i = (mi i : ℚ)) :
    (∀ B : ℚ, (∀ i ≤ n, |g i| + (i : ℚ) ^ 2 ≤ B) → 4 * (n : ℚ) ^ 2 * B < 2 ^ 53 → AbscissaExact rnd g n) ∧
    (n < 2 ^ 12 → (∀ i ≤ n, 0 ≤ g i) → (∀ i ≤ n, g i ≤ 2 ^ 26) → AbscissaExact rnd g n) :=
  ⟨fun B hgB hB => abscissaExact_of_bounds rnd hr g mi n B hg hgB hB,
   fun hn hlo hhi => abscissaExact_small rnd hr g mi n hn hg hlo hhi⟩

/-- **C05 (the kernel with rounded abscissae selects the same owners).** `owners1dR rnd` is the model
of `dist_transform` in which every abscissa is rounded (`s = rnd(…)`, stored in `z`, compared with
stored `z` and with integers) — `buildR`/`popToR`/`pushR` instead of `build`/`popTo`/`push`. Under
`AbscissaExact` it returns the same owners as the exact-rational model the theorems T1–T3 are about;
hence for every `Rounding` and every line of at most `2¹²` values in `[0, 2²⁶]` the two kernels agree. -/
theorem C05_rounded_kernel_same_owners (rnd : ℚ → ℚ) (f : Array Int) :
    (AbscissaExact rnd (gOf f) (f.size - 1) → owners1dR rnd f = owners1d f) ∧
    (Rounding rnd → f.size ≤ 2 ^ 12 → (∀ i, 0 ≤ f.getD i 0) → (∀ i, f.getD i 0 ≤ 2 ^ 26) →
      owners1dR rnd f = owners1d f) :=
  ⟨fun hA => owners1dR_eq rnd f hA, fun hr hs hlo hhi => owners1dR_eq_small rnd hr f hs hlo hhi⟩

/-- **C05 (doubles decide like rationals on every line of every pass).** For every shape whose sides are
at most `2¹²` and whose Python sentinel is at most `2²⁶` (every 2-D and 3-D array with sides `≤ 2¹²`,
every 4-D array with sides `< 2¹²`), every input, every pass `k` and every pixel `p`: all values of the
image before pass `k` lie in `[0, sentinel]` (each pass can only lower a value and keeps it non-negative),
hence the line through `p` along axis `k` — the argument of the 1-D kernel in that pass — gets the same
owners from the kernel with rounded abscissae (`owners1dR rnd`, any `Rounding`) as from the exact model. -/
theorem C05_rounded_passes_same_owners (rnd : ℚ → ℚ) (hr : Rounding rnd) (shape : List Nat) (bw : Array Int)
    (hside : ∀ d ∈ shape, d ≤ 2 ^ 12) (hsent : sentinel shape ≤ 2 ^ 26)
    (k : Nat) (hk : k < shape.length) (p : List Int) :
    Bounded (sentinel shape) ((List.range k).foldl passCoord (initCoord shape bw)).1 ∧
    owners1dR rnd (lineOf ((List.range k).foldl passCoord (initCoord shape bw)).1 p k) =
      owners1d (lineOf ((List.range k).foldl passCoord (initCoord shape bw)).1 p k) :=
  ⟨(passes_bounded shape bw k (by omega)).1, lines_rounded_same rnd hr shape bw hside hsent k hk p⟩

/-- non-vacuity of the size hypotheses: the largest 2-D, 3-D and 4-D shapes covered -/
example : sentinel [4096, 4096] ≤ 2 ^ 26 ∧ sentinel [4096, 4096, 4096] ≤ 2 ^ 26 ∧
    sentinel [4095, 4095, 4095, 4095] ≤ 2 ^ 26 := by decide

/-- non-vacuity: a reversed-rows, every-other-column view (base 5, strides −4, 2) into a buffer of 8
elements is `ViewOK`; `py_dt` on it transforms the four view elements and leaves the rest alone -/
example : ViewOK 8 2 2 5 (-4) 2 :=
  ⟨by decide, by intro i hi j hj i' hi' j' hj' h; omega⟩
example : (pyDt (#[7, 9, 7, 9, 7, 0, 7, 9], #[0, 1, 2, 3, 4, 5, 6, 7]) 2 2 5 (-4) 2 5 (-4) 2)
    = (#[7, 1, 7, 2, 7, 0, 7, 1], #[0, 5, 2, 5, 4, 5, 6, 5]) := by decide +kernel
/-- non-vacuity: the model of the code on a 2-D and a 3-D image; the wrapper's square root -/
example : (distanceModel [3, 4] #[1, 1, 1, 1, 1, 1, 1, 1, 1, 1, 0, 1]).1
    = #[8, 5, 4, 5, 5, 2, 1, 2, 4, 1, 0, 1] := by decide +kernel
example : (distanceModel [2, 2, 3] #[1, 1, 1, 1, 1, 1, 1, 1, 1, 1, 0, 1]).1
    = #[3, 2, 3, 2, 1, 2, 2, 1, 2, 1, 0, 1] := by decide +kernel
example : Rounding id ∧ AbscissaExact id (fun _ => 0) 5 :=
  ⟨⟨fun _ _ h => h, fun x => by simp; positivity, fun _ _ => rfl⟩, ⟨fun _ _ _ _ _ _ _ _ => Iff.rfl, fun _ _ _ _ _ _ => Iff.rfl⟩⟩

/-! ## Round 3 — the whole-image model with rounded abscissae -/

/-- **C05 (what the rounded whole-image model is).** `distanceRounded rnd` (proof-side definition,
`Proofs/C05Rounded.lean`) starts from the same images as `distanceCoord` (`initCoord`: 0 on the background,
the Python sentinel elsewhere; origins = own flat index) and folds `passCoordR rnd` over the axes in the
same order. `passCoordR rnd` is `passCoord` with the 1-D kernel with ROUNDED abscissae on every line: the
value it writes at a pixel `p` is the entry of `dt1dR rnd` — `(q − v)² + f v` for the owner `v` that
`owners1dR rnd` (first loop `buildR`/`popToR`/`pushR` with every abscissa `rnd (s)`, stored and compared
rounded; read-out walk against the integers) reports at `q = p_ax` — for the line through `p`, and the
origin it writes is the previous origin at that owner. With the identity for `rnd` the kernel is the exact
one. -/
theorem C05_rounded_is_line_kernel (rnd : ℚ → ℚ) :
    (∀ shape bw, distanceRounded rnd shape bw =
        (List.range shape.length).foldl (passCoordR rnd) (initCoord shape bw)) ∧
    (∀ (fo : Img Int × Img Int) (ax : Nat) (p : List Int), inside fo.1.shape p = true →
      ax < fo.1.shape.length →
      (passCoordR rnd fo ax).1.getD p 0 = (dt1dR rnd (lineOf fo.1 p ax)).getD (p.getD ax 0).toNat 0 ∧
      (passCoordR rnd fo ax).2.getD p 0 =
        fo.2.getD (p.set ax ((ownerAtR rnd (lineOf fo.1 p ax) (p.getD ax 0).toNat : Nat) : Int)) 0) ∧
    (∀ f : Array Int, owners1dR id f = owners1d f) :=
  ⟨fun _ _ => rfl, fun fo ax p hp hax => passCoordR_is_dt1dR rnd fo ax p hp hax, owners1dR_id⟩

/-- **C05 (one pass with the rounded kernel).** For ANY pair of images and any axis: if the kernel with
rounded abscissae selects the owners of the exact kernel on the line through every pixel, the rounded pass
returns exactly the pair of images (values and tracked origins) of the exact pass `passCoord`. -/
theorem C05_rounded_pass_exact (rnd : ℚ → ℚ) (fo : Img Int × Img Int) (ax : Nat)
    (h : ∀ p : List Int, owners1dR rnd (lineOf fo.1 p ax) = owners1d (lineOf fo.1 p ax)) :
    passCoordR rnd fo ax = passCoord fo ax :=
  passCoordR_eq_of_owners rnd fo ax h

/-- **C05 (doubles compute the same image as rationals: the whole function).** For every rounding function
with the properties of one IEEE-754 binary64 round-to-nearest division in the normal range (`Rounding`:
monotone, relative error at most `2⁻⁵³`, exact on integers up to `2⁵³`), every rank and shape whose sides
are at most `2¹²` and whose Python sentinel is at most `2²⁶` (the side condition of
`C05_rounded_passes_same_owners`: every 1-D, 2-D and 3-D array with sides `≤ 2¹²`, every 4-D array with
sides `< 2¹²`) and every input `bw`: the whole-image model in which EVERY intersection abscissa of EVERY
kernel call of EVERY pass is rounded returns exactly the same pair of images — values AND tracked origins
— as the exact-rational model `distanceCoord` that T2/T3 are about and that the driver runs. (Induction
over the passes: the images before pass `k` are equal by induction, so the lines are those of the exact
passes, whose values lie in `[0, sentinel]`, so by the separation lemma every comparison on rounded
abscissae has the exact outcome and the same owners are selected line by line.) -/
theorem C05_rounded_image_exact (rnd : ℚ → ℚ) (hr : Rounding rnd) (shape : List Nat) (bw : Array Int)
    (hside : ∀ d ∈ shape, d ≤ 2 ^ 12) (hsent : sentinel shape ≤ 2 ^ 26) :
    distanceRounded rnd shape bw = distanceCoord shape bw :=
  distanceRounded_eq_small rnd hr shape bw hside hsent

/-- **C05 (the same, under the general numeric bound).** Same conclusion for every shape whose sides are at
most `N + 1` (indices `0 … N`) with `4·N²·(sentinel + N²) < 2⁵³`: e.g. every 1-D line of up to 5793 samples,
every 2-D array with sides up to 5234 — slightly beyond the round figures `2¹²`/`2²⁶`. -/
theorem C05_rounded_image_exact_of_bound (rnd : ℚ → ℚ) (hr : Rounding rnd) (shape : List Nat)
    (bw : Array Int) (N : ℕ) (hside : ∀ d ∈ shape, d ≤ N + 1)
    (hB : 4 * (N : ℚ) ^ 2 * ((sentinel shape : ℚ) + (N : ℚ) ^ 2) < 2 ^ 53) :
    distanceRounded rnd shape bw = distanceCoord shape bw :=
  distanceRounded_eq_of_bound rnd hr shape bw N hside hB

/-- **C05-T2 for the rounded whole-image model (`C05_distance_exact` / `C05_model_exact` transferred).**
Under the side condition of `C05_rounded_image_exact`, with some background pixel: the value that the model
with rounded abscissae returns at every pixel `p` is a lower bound of the squared distance from `p` to every
background pixel and equals the squared distance to one of them; and for an input of matching size the flat
arrays of the model of the code (`distanceModel`: `py_dt` on strided views) are the data of the rounded
model's images (values and origins). -/
theorem C05_rounded_model_exact (rnd : ℚ → ℚ) (hr : Rounding rnd) (shape : List Nat) (bw : Array Int)
    (hside : ∀ d ∈ shape, d ≤ 2 ^ 12) (hsent : sentinel shape ≤ 2 ^ 26) :
    (∀ p, inside shape p = true →
      (∃ q0, inside shape q0 = true ∧ bw.getD (ravelI shape q0) 0 = 0) →
      (∀ q, inside shape q = true → bw.getD (ravelI shape q) 0 = 0 →
          (distanceRounded rnd shape bw).1.getD p 0 ≤ sqDist p q) ∧
      (∃ q, inside shape q = true ∧ bw.getD (ravelI shape q) 0 = 0 ∧
          (distanceRounded rnd shape bw).1.getD p 0 = sqDist p q)) ∧
    (bw.size = shapeSize shape →
      (distanceModel shape bw).1 = (distanceRounded rnd shape bw).1.data ∧
      (distanceModel shape bw).2 = (distanceRounded rnd shape bw).2.data) := by
  rw [C05_rounded_image_exact rnd hr shape bw hside hsent]
  exact ⟨fun p hp hbg => C05_distance_exact shape bw p hp hbg, fun hsz => C05_model_eq_coord shape bw hsz⟩

/-- **C05-T3 for the rounded whole-image model (`C05_gvoronoi_nearest` transferred).** Under the side
condition of `C05_rounded_image_exact`: the origin tracked through the passes with rounded abscissae is, at
every pixel, a labelled pixel at minimum squared Euclidean distance; labelled pixels keep their label. -/
theorem C05_rounded_gvoronoi_nearest (rnd : ℚ → ℚ) (hr : Rounding rnd) (shape : List Nat) (lab : Array Int)
    (hside : ∀ d ∈ shape, d ≤ 2 ^ 12) (hsent : sentinel shape ≤ 2 ^ 26)
    (hsz : lab.size = shapeSize shape) (p : List Int) (hp : inside shape p = true)
    (hlab : ∃ q0, inside shape q0 = true ∧ lab.getD (ravelI shape q0) 0 ≠ 0) :
    let bw := lab.map fun l => if l == 0 then (1 : Int) else 0
    let o := unravelI shape ((distanceRounded rnd shape bw).2.getD p 0).toNat
    inside shape o = true ∧
    lab.getD ((distanceRounded rnd shape bw).2.getD p 0).toNat 0 = lab.getD (ravelI shape o) 0 ∧
    lab.getD (ravelI shape o) 0 ≠ 0 ∧
    (∀ q, inside shape q = true → lab.getD (ravelI shape q) 0 ≠ 0 → sqDist p o ≤ sqDist p q) ∧
    (lab.getD (ravelI shape p) 0 ≠ 0 → o = p) := by
  simp only [C05_rounded_image_exact rnd hr shape _ hside hsent]
  exact C05_gvoronoi_nearest shape lab hsz p hp hlab

/-- non-vacuity: the identity on `ℚ` is a `Rounding`; the rounded whole-image model evaluates on a 2×2×3
image (values and origins) and on a 3×4 image, and agrees with `distanceCoord` there -/
example : Rounding id ∧ (∀ d ∈ [2, 2, 3], d ≤ 2 ^ 12) ∧ sentinel [2, 2, 3] ≤ 2 ^ 26 :=
  ⟨⟨fun _ _ h => h, fun x => by simp; positivity, fun _ _ => rfl⟩, by decide, by decide⟩
example : (distanceRounded id [2, 2, 3] #[1, 1, 1, 1, 1, 1, 1, 1, 1, 1, 0, 1]).1.data
    = #[3, 2, 3, 2, 1, 2, 2, 1, 2, 1, 0, 1] ∧
    (distanceRounded id [2, 2, 3] #[1, 1, 1, 1, 1, 1, 1, 1, 1, 1, 0, 1]).2.data
    = #[10, 10, 10, 10, 10, 10, 10, 10, 10, 10, 10, 10] := by decide +kernel
example : (distanceRounded id [3, 4] #[1, 0, 1, 1, 1, 1, 1, 1, 1, 1, 0, 1]).1.data
    = (distanceCoord [3, 4] #[1, 0, 1, 1, 1, 1, 1, 1, 1, 1, 0, 1]).1.data ∧
    (distanceRounded id [3, 4] #[1, 0, 1, 1, 1, 1, 1, 1, 1, 1, 0, 1]).2.data
    = #[1, 1, 1, 1, 1, 1, 10, 10, 10, 10, 10, 10] := by decide +kernel
example : dt1dR id #[5, 9, 0, 9, 9, 1] = [4, 1, 0, 1, 2, 1] := by decide +kernel

/-! ## Round 3 — a concrete rounding: binary64 round-to-nearest -/

/-- **C05 (binary64 round-to-nearest satisfies the `Rounding` interface).** `rndBin n x` rounds a rational
`x` to a multiple of `2^(⌊log₂|x|⌋ − 52)` (the spacing of the binary64 numbers in the binade of `|x|`), the
integer quotient being chosen by a nearest-integer function `n`; `roundEven` is nearest with ties to even
and `rne53 = rndBin roundEven` is IEEE-754 binary64 `roundTiesToEven` with an unbounded exponent range (what
the hardware division returns whenever the exact quotient has magnitude in the normal range
`[2^-1022, 2^1024)`; bit patterns, infinities and subnormals are not modelled). Proved: (1) `rne53` is a
`Rounding` — monotone, relative error at most `2⁻⁵³`, exact on integers up to `2⁵³`; (2) so is `rndBin n`
for EVERY nearest-integer function `n` (any tie rule); (3) `roundEven` is a nearest-integer function and
resolves ties to the even integer; (4) for `x ≠ 0` the result is `m·2^(e−52)` with an integer significand
`2⁵² ≤ |m| ≤ 2⁵³` at most half a unit from `x/2^(e−52)`: a nearest binary64 value. -/
theorem C05_binary64_is_rounding :
    Rounding rne53 ∧
    (∀ n : ℚ → ℤ, (∀ y, |(n y : ℚ) - y| ≤ 1 / 2) → Rounding (rndBin n)) ∧
    ((∀ y : ℚ, |(roundEven y : ℚ) - y| ≤ 1 / 2) ∧
      ∀ y : ℚ, y - (⌊y⌋ : ℚ) = 1 / 2 → roundEven y % 2 = 0) ∧
    (∀ x : ℚ, x ≠ 0 → ∃ m : ℤ, rne53 x = (m : ℚ) * (2 : ℚ) ^ (Int.log 2 |x| - 52) ∧
      2 ^ 52 ≤ |m| ∧ |m| ≤ 2 ^ 53 ∧ |(m : ℚ) - x / (2 : ℚ) ^ (Int.log 2 |x| - 52)| ≤ 1 / 2) :=
  ⟨rne53_rounding, rndBin_rounding, ⟨roundEven_near, roundEven_tie_even⟩,
   fun x hx => rndBin_significand roundEven roundEven_near x hx⟩

/-- **C05 (every abscissa of `distance()` is 0 or far inside the normal range of binary64).** For sides
`≤ 2¹²` and sentinel `≤ 2²⁶`: on the line of every pass `k` through every pixel, the intersection abscissa
of any two roots `u < v` of the line — the kernel only ever computes abscissae of this form — is `0` or has
magnitude between `2⁻¹³` and `2²⁷`. So the division that produces it neither overflows nor underflows, which
is the range in which `rne53` is the hardware rounding. -/
theorem C05_abscissa_normal_range (shape : List Nat) (bw : Array Int)
    (hside : ∀ d ∈ shape, d ≤ 2 ^ 12) (hsent : sentinel shape ≤ 2 ^ 26)
    (k : Nat) (hk : k < shape.length) (p : List Int) (u v : ℕ) (huv : u < v)
    (hv : v < shape.getD k 0) :
    sInt (gOf (lineOf ((List.range k).foldl passCoord (initCoord shape bw)).1 p k)) u v = 0 ∨
    (1 / 2 ^ 13 ≤ |sInt (gOf (lineOf ((List.range k).foldl passCoord (initCoord shape bw)).1 p k)) u v| ∧
     |sInt (gOf (lineOf ((List.range k).foldl passCoord (initCoord shape bw)).1 p k)) u v| ≤ 2 ^ 27) :=
  lines_abscissa_normal shape bw hside hsent k hk p u v huv hv

/-- **C05 (`distance()` with binary64 abscissae = `distance()` with exact rational abscissae).** The
instance of `C05_rounded_image_exact` at the concrete rounding `rne53`: for every rank and shape with sides
`≤ 2¹²` and sentinel `≤ 2²⁶` and every input, the whole-image model in which every intersection abscissa is
rounded to binary64 (round to nearest, ties to even) returns exactly the images — values and tracked
origins — of `distanceCoord`; hence (with `C05_model_eq_coord`) the flat arrays of `distanceModel`, and with
some background pixel every value is the exact minimum squared distance to the background. No hypothesis
about the rounding remains. -/
theorem C05_binary64_image_exact (shape : List Nat) (bw : Array Int)
    (hside : ∀ d ∈ shape, d ≤ 2 ^ 12) (hsent : sentinel shape ≤ 2 ^ 26) :
    distanceRounded rne53 shape bw = distanceCoord shape bw ∧
    (bw.size = shapeSize shape →
      (distanceModel shape bw).1 = (distanceRounded rne53 shape bw).1.data ∧
      (distanceModel shape bw).2 = (distanceRounded rne53 shape bw).2.data) ∧
    (∀ p, inside shape p = true →
      (∃ q0, inside shape q0 = true ∧ bw.getD (ravelI shape q0) 0 = 0) →
      (∀ q, inside shape q = true → bw.getD (ravelI shape q) 0 = 0 →
          (distanceRounded rne53 shape bw).1.getD p 0 ≤ sqDist p q) ∧
      (∃ q, inside shape q = true ∧ bw.getD (ravelI shape q) 0 = 0 ∧
          (distanceRounded rne53 shape bw).1.getD p 0 = sqDist p q)) :=
  ⟨distanceRounded_rne53_eq shape bw hside hsent,
   (C05_rounded_model_exact rne53 rne53_rounding shape bw hside hsent).2,
   (C05_rounded_model_exact rne53 rne53_rounding shape bw hside hsent).1⟩

/-- non-vacuity: `rne53` really rounds (`1/3 ↦ 6004799503160661·2⁻⁵⁴`, the binary64 number `0x3FD5555555555555`),
and the whole-image model with `rne53` abscissae on a 2×2×3 image -/
example : rne53 (1 / 3) = 6004799503160661 / 18014398509481984 ∧ rne53 (1 / 3) ≠ 1 / 3 := by
  rw [rne53_one_third]; norm_num
example : (distanceRounded rne53 [2, 2, 3] #[1, 1, 1, 1, 1, 1, 1, 1, 1, 1, 0, 1]).1.data
    = #[3, 2, 3, 2, 1, 2, 2, 1, 2, 1, 0, 1] := by
  rw [(C05_binary64_image_exact [2, 2, 3] _ (by decide) (by decide)).1]
  decide +kernel
/-- non-vacuity of the general bound: a line of 5793 samples and a 5234×5234 image are covered -/
example : 4 * ((5792 : ℕ) : ℚ) ^ 2 * ((sentinel [5793] : ℚ) + ((5792 : ℕ) : ℚ) ^ 2) < 2 ^ 53 ∧
    4 * ((5233 : ℕ) : ℚ) ^ 2 * ((sentinel [5234, 5234] : ℚ) + ((5233 : ℕ) : ℚ) ^ 2) < 2 ^ 53 := by
  have h1 : sentinel [5793] = 33558850 := by decide
  have h2 : sentinel [5234, 5234] = 54789513 := by decide
  rw [h1, h2]; norm_num

/-! ## Round 4 — `gvoronoi` for every rank; which native entry points the wrappers reach -/

/-- **C05-T3 for the model of the code, every rank (`gvoronoi` as repaired in round 4).** `gvoronoiModel` is
`labeled.flat[orig]` with `orig` tracked by the flat/strided model of `_distance.dt` (`distanceModel`: one call on
the whole array for a 2-D image, the per-axis loop over `(1, n)` line views of `f` and `orig` for every other rank).
For every label image of every rank and shape with at least one labelled pixel, the entry at the C-order index of
every pixel `p` is the label of a labelled pixel `o` at minimum squared Euclidean distance from `p`, and a labelled
pixel keeps its own label. -/
theorem C05_gvoronoi_model_nearest (shape : List Nat) (lab : Array Int) (hsz : lab.size = shapeSize shape)
    (p : List Int) (hp : inside shape p = true)
    (hlab : ∃ q0, inside shape q0 = true ∧ lab.getD (ravelI shape q0) 0 ≠ 0) :
    (gvoronoiModel shape lab).length = shapeSize shape ∧
    ∃ o, inside shape o = true ∧ lab.getD (ravelI shape o) 0 ≠ 0 ∧
      (gvoronoiModel shape lab).getD (ravelI shape p) 0 = lab.getD (ravelI shape o) 0 ∧
      (∀ q, inside shape q = true → lab.getD (ravelI shape q) 0 ≠ 0 → sqDist p o ≤ sqDist p q) ∧
      (lab.getD (ravelI shape p) 0 ≠ 0 → o = p) := by
  have hbsz : (lab.map fun l => if l == 0 then (1 : Int) else 0).size = shapeSize shape := by
    rw [Array.size_map]; exact hsz
  obtain ⟨hin, hl, hne, hmin, hkeep⟩ := C05_gvoronoi_nearest shape lab hsz p hp hlab
  have hm := (C05_model_eq_coord shape _ hbsz).2
  obtain ⟨_, hshape0, _, hsize0⟩ := (passes_flat shape shape.length (Nat.le_refl _)
    (initCoord shape (lab.map fun l => if l == 0 then (1 : Int) else 0)) (initCoord_good shape _)).2
  have hshape : (distanceCoord shape (lab.map fun l => if l == 0 then (1 : Int) else 0)).2.shape = shape := hshape0
  have hsize : (distanceCoord shape (lab.map fun l => if l == 0 then (1 : Int) else 0)).2.data.size
      = shapeSize shape := hsize0
  have hlen : (gvoronoiModel shape lab).length = shapeSize shape := by
    unfold gvoronoiModel
    simp only [List.length_map, Array.length_toList]
    rw [hm]; exact hsize
  have hlt : ravelI shape p < shapeSize shape := ravelI_lt shape p hp
  have hget : (distanceCoord shape (lab.map fun l => if l == 0 then (1 : Int) else 0)).2.getD p 0 =
      (distanceCoord shape (lab.map fun l => if l == 0 then (1 : Int) else 0)).2.data.getD (ravelI shape p) 0 := by
    unfold Img.getD
    rw [hshape, if_pos hp]
  refine ⟨hlen, _, hin, hne, ?_, hmin, hkeep⟩
  rw [← hl, hget]
  unfold gvoronoiModel
  simp only []
  rw [hm, List.getD_eq_getElem?_getD, List.getElem?_map, Array.getElem?_toList]
  have hlt' : ravelI shape p < (distanceCoord shape (lab.map fun l => if l == 0 then (1 : Int) else 0)).2.data.size := by
    rw [hsize]; exact hlt
  have hd : (distanceCoord shape (lab.map fun l => if l == 0 then (1 : Int) else 0)).2.data.getD (ravelI shape p) 0
      = (distanceCoord shape (lab.map fun l => if l == 0 then (1 : Int) else 0)).2.data[ravelI shape p] := by
    rw [Array.getD_eq_getD_getElem?, Array.getElem?_eq_getElem hlt', Option.getD_some]
  rw [hd, Array.getElem?_eq_getElem hlt']
  rfl

/-- non-vacuity: a 2×2×3 label image (rank 3: the per-axis path) and a 1-D one through the model of the code;
the pixel `(0,0,0)` of the first is at distance² 2 from label 5 at `(0,1,1)` and 3 from label 7 at `(1,1,1)`. -/
example : gvoronoiModel [2, 2, 3] #[0, 0, 0, 0, 5, 0, 0, 0, 0, 0, 7, 0] = [5, 5, 5, 5, 5, 5, 7, 7, 7, 7, 7, 7] ∧
    gvoronoiModel [5] #[0, 2, 0, 0, 9] = [2, 2, 2, 9, 9] := by
  decide +kernel
example : ∃ o, inside [2, 2, 3] o = true ∧
    (gvoronoiModel [2, 2, 3] #[0, 0, 0, 0, 5, 0, 0, 0, 0, 0, 7, 0]).getD (ravelI [2, 2, 3] [1, 0, 2]) 0
      = (#[0, 0, 0, 0, 5, 0, 0, 0, 0, 0, 7, 0] : Array Int).getD (ravelI [2, 2, 3] o) 0 := by
  obtain ⟨_, o, ho, _, h, _⟩ := C05_gvoronoi_model_nearest [2, 2, 3] #[0, 0, 0, 0, 5, 0, 0, 0, 0, 0, 7, 0] (by decide)
    [1, 0, 2] (by decide) ⟨[0, 1, 1], by decide, by decide⟩
  exact ⟨o, ho, h⟩

/-- **C05 (source tie: `distance` and `gvoronoi` reach `_distance.dt` only; nothing reaches `distance_multi`).**
About `Generated.argLinkTable`, which `translator/links.py` regenerates on every run from the Python sources of
`/repo` (one row per call of a native entry point in the body of a top-level wrapper): the rows of
`distance.distance` are exactly two calls of `_distance.dt` (the 2-D call and the call in the per-axis line loop) and
the rows of `segmentation.gvoronoi` likewise; **no wrapper of the package calls `_morph.distance_multi`** (the inexact
n-D propagation kernel of the pinned tree: T4–T6 of the design are moot as long as this theorem compiles); the
transformed array `f` handed to the 2-D call is, textually, `np.zeros(bw.shape, np.double)` in both wrappers — a
float64 array, so `dist_transform<float>` (the float32 instantiation of the kernel, whose abscissae would be rounded
to 24 bits) is not reachable from either wrapper and the binary64 analysis (`C05_binary64_image_exact`) is the one that
applies; `distance` passes `None` for `orig` at both calls. Re-introducing a `distance_multi` call, or building `f`
with another dtype, makes `lake build` (hence `./check C05`) fail. -/
theorem C05_wrappers_reach_only_dt :
    ((Generated.argLinkTable.filter fun e => e.1 == "distance.distance").map fun e => (e.2.1, e.2.2.1))
      = [("_distance.dt", 0), ("_distance.dt", 1)] ∧
    ((Generated.argLinkTable.filter fun e => e.1 == "segmentation.gvoronoi").map fun e => (e.2.1, e.2.2.1))
      = [("_distance.dt", 0), ("_distance.dt", 1)] ∧
    (Generated.argLinkTable.all fun e => e.2.1 != "_morph.distance_multi") = true ∧
    Generated.links_distance_distance__distance_dt
      = [("f", .other "np.zeros(bw.shape, np.double)"), ("orig", .noneLit)] ∧
    Generated.links_distance_distance__distance_dt_1.getD 1 default = ("orig", .noneLit) ∧
    Generated.links_segmentation_gvoronoi__distance_dt.getD 0 default
      = ("f", .other "np.zeros(bw.shape, np.double)") := by
  decide

/-- **C05 (the integers the repaired kernel forms are exact doubles).** Since `8ed1f44` `dist_transform<double>` takes the
squares `q*q`, `v[k]*v[k]`, `(q − v[k])²` in `double` (they were 32-bit `int` products: wrong from axis length 46 342 on). For
every axis of at most `2²⁶` pixels and every sampled function with values in `[0, 2⁵²]` (the fill values of `distance` /
`gvoronoi` and all intermediate pass values are far below), every integer the kernel computes before the one division —
the three squares, `f[q] + q²`, `f[v] + v²`, their difference (the numerator of the abscissa) and the read-out value
`(q − v)² + f[v]` — has magnitude below `2⁵³`, i.e. is an exactly representable double: up to that size the C arithmetic
agrees with the unbounded integers of the model, and the only rounded operation is the division analysed in
`C05_binary64_image_exact`. (An `int` index bounds the axis length by `2³¹`; beyond `2²⁶·√2` pixels `q²` itself stops being
an exact double.) -/
theorem C05_kernel_integers_below_2p53 (n q v fq fv : Int) (hn : n ≤ 2 ^ 26) (hv : 0 ≤ v) (hvq : v < q) (hq : q < n)
    (hfq : 0 ≤ fq ∧ fq ≤ 2 ^ 52) (hfv : 0 ≤ fv ∧ fv ≤ 2 ^ 52) :
    q * q < 2 ^ 52 ∧ v * v < 2 ^ 52 ∧ (q - v) * (q - v) < 2 ^ 52 ∧
    fq + q * q < 2 ^ 53 ∧ fv + v * v < 2 ^ 53 ∧
    -(2 ^ 53) < (fq + q * q) - (fv + v * v) ∧ (fq + q * q) - (fv + v * v) < 2 ^ 53 ∧
    (q - v) * (q - v) + fv < 2 ^ 53 := by
  have hq0 : 0 ≤ q := by omega
  have hq26 : q ≤ 2 ^ 26 - 1 := by omega
  have hv26 : v ≤ 2 ^ 26 - 1 := by omega
  have hd0 : 0 ≤ q - v := by omega
  have hd26 : q - v ≤ 2 ^ 26 - 1 := by omega
  have sq : ∀ x : Int, 0 ≤ x → x ≤ 2 ^ 26 - 1 → x * x < 2 ^ 52 ∧ 0 ≤ x * x := by
    intro x h0 h1
    have := Int.mul_le_mul h1 h1 h0 (by norm_num)
    exact ⟨by norm_num at this ⊢; omega, Int.mul_nonneg h0 h0⟩
  obtain ⟨a1, a0⟩ := sq q hq0 hq26
  obtain ⟨b1, b0⟩ := sq v hv hv26
  obtain ⟨c1, c0⟩ := sq (q - v) hd0 hd26
  norm_num at *
  refine ⟨a1, b1, c1, ?_, ?_, ?_, ?_, ?_⟩ <;> omega

/-- non-vacuity: the first axis length at which the old 32-bit products failed, and the largest covered one -/
example : (46341 : Int) * 46341 > 2 ^ 31 - 1 ∧ (46341 : Int) * 46341 < 2 ^ 52 ∧ ((2 : Int) ^ 26 - 1) * (2 ^ 26 - 1) < 2 ^ 52 := by
  norm_num
