/-
C05 — property theorems (statements only; helper lemmas live in `Proofs/C05*.lean`).
-/
import Mahotas.Proofs.C05Nd
open Mahotas Mahotas.C05 Mahotas.C04

/-- **C05-T1 (the 1-D pass is the exact lower envelope).** For every integer line `f` of every
length, the model of `dist_transform` — stack of parabola roots `v` and breakpoints `z` with the pop
loop `s ≤ z[k]`, then the read-out walk `while (z[k+1] < q) ++k` — returns at every `q` exactly
`min_v (q − v)² + f v`. No assumption on the values of `f` (any integers: zeros, finite "infinity"
fill values, results of an earlier pass). -/
theorem C05_dt1d_lower_envelope (f : Array Int) :
    dt1d f = (List.range f.size).map (minPlus1d f) :=
  dt1d_eq_min f

/-- **C05-T1a (what `minPlus1d` is).** The specification value is a lower bound of every candidate
`(q − v)² + f v`, `v < f.size`, and is attained by one of them. -/
theorem C05_minPlus1d_is_min (f : Array Int) (q : Nat) (hf : 0 < f.size) :
    (∀ v < f.size, minPlus1d f q ≤ valueAt f q v) ∧ ∃ v < f.size, minPlus1d f q = valueAt f q v := by
  unfold minPlus1d
  obtain ⟨h0, h1⟩ := foldl_min_le (fun v => valueAt f q v) (List.range f.size) (valueAt f q 0)
  refine ⟨fun v hv => h1 v (List.mem_range.2 hv), ?_⟩
  rcases foldl_min_mem (fun v => valueAt f q v) (List.range f.size) (valueAt f q 0) with h | ⟨v, hv, h⟩
  · exact ⟨0, hf, h⟩
  · exact ⟨v, List.mem_range.1 hv, h⟩

/-- **C05-T1b (the read-out walk).** The incremental walk of the second loop of `dist_transform`
(`k` only ever moves up while `z[k+1] < q`) selects, for every `q`, the same root as a search of the
whole stack from the top for the first breakpoint below `q`. -/
theorem C05_walk_finds_owner (f : Array Int) : owners1d f = owners1dTop f :=
  owners1d_eq_top f

/-- **C05-T1c (envelope invariant at every rational abscissa).** After the first loop has handled
`q = 1 … m`, the root owning `x` minimises all `m + 1` parabolas at *every* rational `x`, the stack is
a chain (roots and breakpoints strictly increasing, each breakpoint the intersection with the entry
below) and the owner is one of the roots `0 … m`. -/
theorem C05_envelope_invariant (g : ℕ → ℚ) (m : ℕ) (x : ℚ) :
    Chain g (build g m) ∧ owner (build g m) x ≤ m ∧
    ∀ u ≤ m, P g (owner (build g m) x) x ≤ P g u x :=
  ⟨(build_inv g m).1, owner_build_le g m x, fun u hu => owner_build_min g m x u hu⟩

/-- **C05-T2 (`distance` is the exact squared Euclidean transform, any rank and shape).** Let `bw`
be an image of any rank and shape with at least one background pixel (`bw = 0`). After the passes of
the 1-D kernel along every axis, started from 0 on the background and the Python fill value
(`2·max(shape)²+1` for 2-D, `Σ shape²+1` otherwise) on the foreground, the value at every pixel `p` is
a lower bound of the squared distance to every background pixel and is attained by one:
it *is* the minimum squared Euclidean distance to the background. -/
theorem C05_distance_exact (shape : List Nat) (bw : Array Int) (p : List Int)
    (hp : inside shape p = true)
    (hbg : ∃ q0, inside shape q0 = true ∧ bw.getD (ravelI shape q0) 0 = 0) :
    (∀ q, inside shape q = true → bw.getD (ravelI shape q) 0 = 0 →
        (distanceCoord shape bw).1.getD p 0 ≤ sqDist p q) ∧
    (∃ q, inside shape q = true ∧ bw.getD (ravelI shape q) 0 = 0 ∧
        (distanceCoord shape bw).1.getD p 0 = sqDist p q) := by
  obtain ⟨n, hn, _, hbn, hval, hmin⟩ := nd_core shape bw p hp hbg
  obtain ⟨hoin, horav⟩ := unravelI_inside shape n hn
  refine ⟨fun q hq hb => by rw [hval]; exact hmin q hq hb, unravelI shape n, hoin, ?_, hval⟩
  rw [horav]; exact hbn

/-- **C05-T2c (the passes use the 1-D kernel).** The value a pass writes at a pixel is the entry of
`dt1d` (the model of `dist_transform` that the correspondence check compares with the native
`_distance.dt` on arbitrary sampled lines) for the line through that pixel: by T1 it is
`min_t (p_ax − t)² + F(p[ax := t])`. -/
theorem C05_pass_is_dt1d (fo : Img Int × Img Int) (ax : Nat) (p : List Int)
    (hp : inside fo.1.shape p = true) (hax : ax < fo.1.shape.length) :
    (passCoord fo ax).1.getD p 0 = (dt1d (lineOf fo.1 p ax)).getD (p.getD ax 0).toNat 0 ∧
    (passCoord fo ax).1.getD p 0 = minPlus1d (lineOf fo.1 p ax) (p.getD ax 0).toNat := by
  obtain ⟨h0, h1⟩ := inside_getD fo.1.shape p ax hp hax
  have hq : (p.getD ax 0).toNat < (lineOf fo.1 p ax).size := by rw [lineOf_size]; omega
  have hv : (passCoord fo ax).1.getD p 0 =
      valueAt (lineOf fo.1 p ax) (p.getD ax 0).toNat (ownerAt (lineOf fo.1 p ax) (p.getD ax 0).toNat) := by
    simp only [passCoord]; rw [tabulate_getD _ _ p 0 hp]
  refine ⟨by rw [hv, dt1d_getD _ _ hq], ?_⟩
  rw [hv, ← dt1d_getD _ _ hq, C05_dt1d_lower_envelope]
  exact map_range_getD _ _ _ hq

/-- **C05-T2a (0 on the background).** -/
theorem C05_distance_background_zero (shape : List Nat) (bw : Array Int) (p : List Int)
    (hp : inside shape p = true) (hb : bw.getD (ravelI shape p) 0 = 0) :
    (distanceCoord shape bw).1.getD p 0 = 0 := by
  obtain ⟨h1, q, _, _, h2⟩ := C05_distance_exact shape bw p hp ⟨p, hp, hb⟩
  have := h1 p hp hb
  rw [sqDist_self] at this
  have := sqDist_nonneg p q
  omega

/-- **C05-T2b (no background).** If no pixel is background, every pixel gets a value larger than
the largest squared distance attainable inside the array, `Σ (shape_d − 1)²`. -/
theorem C05_distance_no_background (shape : List Nat) (bw : Array Int) (p : List Int)
    (hp : inside shape p = true)
    (hno : ∀ q, inside shape q = true → bw.getD (ravelI shape q) 0 ≠ 0) :
    maxDist2 shape < (distanceCoord shape bw).1.getD p 0 := by
  obtain ⟨n, hn, _, hval, _⟩ := nd_final shape bw p hp
  obtain ⟨hoin, horav⟩ := unravelI_inside shape n hn
  rw [f0_getD shape bw _ hoin, if_neg (hno _ hoin)] at hval
  have h1 := maxDist2_lt_sentinel shape (inside_dims_pos shape p hp)
  have h2 := sqDist_nonneg p (unravelI shape n)
  omega

/-- **C05-T3 (`gvoronoi` assigns a nearest label).** For a label image `lab` (any rank/shape, at
least one labelled pixel) the origin tracked through the passes (background of the transform =
labelled pixels) is, at every pixel `p`, a *labelled* pixel at minimum squared Euclidean distance
from `p`; the output `lab.flat[orig]` is its label; labelled pixels keep their own label. -/
theorem C05_gvoronoi_nearest (shape : List Nat) (lab : Array Int) (hsz : lab.size = shapeSize shape)
    (p : List Int) (hp : inside shape p = true)
    (hlab : ∃ q0, inside shape q0 = true ∧ lab.getD (ravelI shape q0) 0 ≠ 0) :
    let bw := lab.map fun l => if l == 0 then (1 : Int) else 0
    let o := unravelI shape ((distanceCoord shape bw).2.getD p 0).toNat
    inside shape o = true ∧
    lab.getD ((distanceCoord shape bw).2.getD p 0).toNat 0 = lab.getD (ravelI shape o) 0 ∧
    lab.getD (ravelI shape o) 0 ≠ 0 ∧
    (∀ q, inside shape q = true → lab.getD (ravelI shape q) 0 ≠ 0 → sqDist p o ≤ sqDist p q) ∧
    (lab.getD (ravelI shape p) 0 ≠ 0 → o = p) := by
  intro bw o
  have hbw : ∀ i, i < shapeSize shape → (bw.getD i 0 = 0 ↔ lab.getD i 0 ≠ 0) := by
    intro i hi
    have hi' : i < lab.size := by rw [hsz]; exact hi
    simp only [bw, Array.getD_eq_getD_getElem?, Array.getElem?_map, Array.getElem?_eq_getElem hi',
      Option.map_some, Option.getD_some]
    by_cases h : lab[i] = 0 <;> simp [h]
  obtain ⟨q0, hq0, hl0⟩ := hlab
  obtain ⟨n, hn, ho, hbn, _, hmin⟩ := nd_core shape bw p hp
    ⟨q0, hq0, (hbw _ (ravelI_lt shape q0 hq0)).2 hl0⟩
  obtain ⟨hoin, horav⟩ := unravelI_inside shape n hn
  have hon : o = unravelI shape n := by simp only [o, ho, Int.toNat_natCast]
  rw [hon, horav, ho, Int.toNat_natCast]
  refine ⟨hoin, rfl, (hbw n hn).1 hbn, ?_, ?_⟩
  · intro q hq hlq
    exact hmin q hq ((hbw _ (ravelI_lt shape q hq)).2 hlq)
  · intro hlp
    have := hmin p hp ((hbw _ (ravelI_lt shape p hp)).2 hlp)
    rw [sqDist_self] at this
    have h0 : sqDist p (unravelI shape n) = 0 := le_antisymm this (sqDist_nonneg _ _)
    exact (sqDist_eq_zero p _ (by rw [inside_length shape p hp, inside_length shape _ hoin]) h0).symm

/-- non-vacuity: a 2×2×3 image with one background pixel, and an all-foreground one -/
example : (distanceCoord [2, 2, 3] #[1, 1, 1, 1, 1, 1, 1, 1, 1, 1, 0, 1]).1.data
    = #[3, 2, 3, 2, 1, 2, 2, 1, 2, 1, 0, 1] := by decide +kernel
example : (distanceCoord [4] #[1, 1, 1, 1]).1.data = #[17, 17, 17, 17] ∧ maxDist2 [4] = 9 := by
  decide +kernel

/-- non-vacuity: a line with two zeros, a large fill value and ties -/
example : dt1d #[5, 9, 0, 9, 9, 1] = [4, 1, 0, 1, 2, 1] := by decide +kernel
example : (List.range 6).map (minPlus1d #[5, 9, 0, 9, 9, 1]) = [4, 1, 0, 1, 2, 1] := by decide +kernel
