/-
C05 — property theorems (statements only; helper lemmas live in `Proofs/C05*.lean`).
-/
import Mahotas.Proofs.C05
open Mahotas Mahotas.C05

/-- **C05-T1 (the 1-D pass is the exact lower envelope).** For every integer line `f` of every
length, the model of `dist_transform` — stack of parabola roots `v` and breakpoints `z` with the pop
loop `s ≤ z[k]`, then the read-out walk `while (z[k+1] < q) ++k` — returns at every `q` exactly
`min_v (q − v)² + f v`. No assumption on the values of `f` (any integers: zeros, finite "infinity"
fill values, results of an earlier pass). -/
theorem C05_dt1d_lower_envelope (f : Array Int) :
    dt1d f = (List.range f.size).map (minPlus1d f) :=
  dt1d_eq_min f

/-- **C05-T1a (what `minPlus1d` is).** The specification value is a lower bound of every candidate
`(q − v)² + f v`, `v < f.size`, and is attained by one of them. -/
theorem C05_minPlus1d_is_min (f : Array Int) (q : Nat) (hf : 0 < f.size) :
    (∀ v < f.size, minPlus1d f q ≤ valueAt f q v) ∧ ∃ v < f.size, minPlus1d f q = valueAt f q v := by
  unfold minPlus1d
  obtain ⟨h0, h1⟩ := foldl_min_le (fun v => valueAt f q v) (List.range f.size) (valueAt f q 0)
  refine ⟨fun v hv => h1 v (List.mem_range.2 hv), ?_⟩
  rcases foldl_min_mem (fun v => valueAt f q v) (List.range f.size) (valueAt f q 0) with h | ⟨v, hv, h⟩
  · exact ⟨0, hf, h⟩
  · exact ⟨v, List.mem_range.1 hv, h⟩

/-- **C05-T1b (the read-out walk).** The incremental walk of the second loop of `dist_transform`
(`k` only ever moves up while `z[k+1] < q`) selects, for every `q`, the same root as a search of the
whole stack from the top for the first breakpoint below `q`. -/
theorem C05_walk_finds_owner (f : Array Int) : owners1d f = owners1dTop f :=
  owners1d_eq_top f

/-- **C05-T1c (envelope invariant at every rational abscissa).** After the first loop has handled
`q = 1 … m`, the root owning `x` minimises all `m + 1` parabolas at *every* rational `x`, the stack is
a chain (roots and breakpoints strictly increasing, each breakpoint the intersection with the entry
below) and the owner is one of the roots `0 … m`. -/
theorem C05_envelope_invariant (g : ℕ → ℚ) (m : ℕ) (x : ℚ) :
    Chain g (build g m) ∧ owner (build g m) x ≤ m ∧
    ∀ u ≤ m, P g (owner (build g m) x) x ≤ P g u x :=
  ⟨(build_inv g m).1, owner_build_le g m x, fun u hu => owner_build_min g m x u hu⟩

/-- non-vacuity: a line with two zeros, a large fill value and ties -/
example : dt1d #[5, 9, 0, 9, 9, 1] = [4, 1, 0, 1, 2, 1] := by decide +kernel
example : (List.range 6).map (minPlus1d #[5, 9, 0, 9, 9, 1]) = [4, 1, 0, 1, 2, 1] := by decide +kernel
