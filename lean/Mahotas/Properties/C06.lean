/-
C06 — property theorems (statements only; helper lemmas live in `Proofs/C06*.lean`).
The kernels are the polymorphic definitions of `Model/C06.lean` that the driver runs at `Float`;
here they are instantiated at an arbitrary commutative semiring `R` (ℤ, ℚ, ℝ, …), where the
"accumulation in double precision" is exact.
-/
import Mahotas.Proofs.C06
import Mahotas.Proofs.C06Fast
open Mahotas Mahotas.C06

/-- **C06-T1 (generic kernel = defining sum).** For every border mode (nearest, wrap, reflect, mirror,
constant 0, ignore), every image of every rank and shape with positive axis lengths, every kernel of
every shape (odd, even, larger than the image, with zeros) and every pixel `p`, the accumulator of the
model of `convolve<T>` — footprint order, zero weights dropped by `filter_iterator(compress=true)`,
neighbour offsets through `fix_offset` on each axis, flagged samples skipped — equals
`Σ_j w[j] · f[border(p + j − c)]` with `c = shape(w)/2` over all kernel positions `j`, the out-of-image
samples taken per the mathematical border rule (`borderSpec`; 0 / dropped for constant / ignore). -/
theorem C06_convolve_eq_spec {R : Type} [CommSemiring R] (isZero : R → Bool)
    (hz : ∀ x, isZero x = true → x = 0) (m : Mode) (f : Img R) (hs : ∀ d ∈ f.shape, 0 < d)
    (wshape : List Nat) (w : Array R) (p : List Int) :
    convAcc m f (support isZero wshape w) p = convSpec m f wshape w p := by
  exact (conv_fold isZero hz m f hs wshape w p _ 0).trans (zero_add _)

/-- **C06-T2a (fast row path: every column written exactly once).** Under the guard of the Python
wrapper, `len(w) < N1`, the columns written for a row by the interior loop
`for (x = c; x != N1 − c; ++x)` followed by the border loop
`for (x_ = 0; x_ != 2c && x_ < N1; ++x_) x = (x_ < c ? x_ : N1 − 1 − (x_ − c))` are a permutation of
`0, …, N1 − 1`: no column is skipped and none is written twice, for every kernel length (odd or even). -/
theorem C06_fast_columns_once (Nf N1 : Nat) (h : Nf < N1) : (fastXs Nf N1).Perm (List.range N1) :=
  fastXs_perm Nf N1 h

/-- **C06-T2b (fast row path: interior reads stay inside the row)** — the interior loop indexes
`base0[x + j − c]` without any border handling; for every column it visits and every kernel position
the index lies in `[0, N1)` (also the memory-safety lemma of C10 for this loop). -/
theorem C06_fast_interior_in_range (Nf N1 x j : Nat) (h : Nf < N1) (hx : x ∈ interiorXs Nf N1) (hj : j < Nf) :
    0 ≤ (x : Int) + (j : Int) - ((Nf / 2 : Nat) : Int) ∧
    (x : Int) + (j : Int) - ((Nf / 2 : Nat) : Int) < (N1 : Int) := by
  rw [mem_interiorXs Nf N1 x h] at hx
  omega

/-- **C06-T2c (fast row path = defining sum = generic kernel).** For a 2-D row view `[N0, N1]`, every
border mode and every kernel shorter than the row, each write `(y, x, v)` the model of
`convolve1d<T>` performs — interior loop with direct reads and all weights, border loop with per-mode
offsets and flagged samples read as 0 — targets a cell of the image and stores the defining sum with
the kernel embedded on the last axis (kernel shape `[1, Nf]`, centre `Nf/2`), which is also what the
generic kernel `convolve<T>` accumulates at that pixel. -/
theorem C06_fast_eq_spec {R : Type} [CommSemiring R] (isZero : R → Bool)
    (hz : ∀ x, isZero x = true → x = 0) (m : Mode) (f : Img R) (N0 N1 : Nat)
    (hf : f.shape = [N0, N1]) (w : Array R) (h : w.size < N1) :
    ∀ t ∈ fastWrites m f w N0 N1, t.1 < N0 ∧ t.2.1 < N1 ∧
      t.2.2 = convSpec m f [1, w.size] w [(t.1 : Int), (t.2.1 : Int)] ∧
      t.2.2 = convAcc m f (support isZero [1, w.size] w) [(t.1 : Int), (t.2.1 : Int)] := by
  have hN1 : 0 < N1 := by omega
  have key : ∀ y x v, y < N0 → x < N1 → v = convSpec m f [1, w.size] w [(y : Int), (x : Int)] →
      v = convAcc m f (support isZero [1, w.size] w) [(y : Int), (x : Int)] := by
    intro y x v hy _ hv
    rw [hv, C06_convolve_eq_spec isZero hz m f (by
      rw [hf]; intro d hd; simp only [List.mem_cons, List.not_mem_nil, or_false] at hd
      rcases hd with rfl | rfl <;> omega)]
  intro t ht
  unfold fastWrites at ht
  rcases List.mem_append.1 ht with ht | ht
  · obtain ⟨y, hy, ht⟩ := List.mem_flatMap.1 ht
    obtain ⟨x, hx, rfl⟩ := List.mem_map.1 ht
    have hy' : y < N0 := List.mem_range.1 hy
    have hx' : x < N1 := by
      have := (mem_interiorXs w.size N1 x h).1 hx; omega
    have hv : fastInterior f w y x = convSpec m f [1, w.size] w [(y : Int), (x : Int)] := by
      rw [fastInterior_eq_border m f w N1 y x hx h, fastBorder_eq_spec m f N0 N1 hf hN1 w y x hy']
    exact ⟨hy', hx', hv, key y x _ hy' hx' hv⟩
  · obtain ⟨x, hx, ht⟩ := List.mem_flatMap.1 ht
    obtain ⟨y, hy, rfl⟩ := List.mem_map.1 ht
    have hy' : y < N0 := List.mem_range.1 hy
    have hx' : x < N1 := by
      have := (mem_borderXs w.size N1 x h).1 hx; omega
    have hv := fastBorder_eq_spec m f N0 N1 hf hN1 w y x hy'
    exact ⟨hy', hx', hv, key y x _ hy' hx' hv⟩

/-- non-vacuity of T2: a 2×5 row view, an even kernel of length 4 (< 5), mirror mode: the write
    sequence covers the columns `2, 0, 1, 4, 3` and fills every cell. -/
example :
    fastXs 4 5 = [2, 0, 1, 4, 3] ∧
    let f : Img Int := { shape := [2, 5], data := #[1, 2, 3, 4, 5, 6, 7, 8, 9, 10] }
    (applyWrites 2 5 (fastWrites .mirror f #[1, 0, -1, 2] 2 5)).toList =
      ((allPos f.shape).map fun p => some (convSpec .mirror f [1, 4] #[1, 0, -1, 2] p)) := by
  decide

/-- non-vacuity: a 1-D integer image of length 2 under a length-5 asymmetric kernel with a zero, in
    reflect mode (offsets reach two periods), meets the hypotheses; both sides evaluate to the same
    non-trivial values. -/
example :
    let f : Img Int := { shape := [2], data := #[1, 10] }
    let w : Array Int := #[1, 0, 2, 3, 4]
    (∀ d ∈ f.shape, 0 < d) ∧
    (allPos f.shape).map (convAcc .reflect f (support (fun x => x == 0) [5] w)) = [82, 55] ∧
    (allPos f.shape).map (convSpec .reflect f [5] w) = [82, 55] := by
  decide
