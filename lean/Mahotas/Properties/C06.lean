/-
C06 — property theorems (statements only; helper lemmas live in `Proofs/C06*.lean`).
The kernels are the polymorphic definitions of `Model/C06.lean` that the driver runs at `Float`;
here they are instantiated at an arbitrary commutative semiring `R` (ℤ, ℚ, ℝ, …), where the
"accumulation in double precision" is exact.
-/
import Mahotas.Proofs.C06
import Mahotas.Proofs.C06Fast
import Mahotas.Proofs.C06Axis
import Mahotas.Proofs.C06Gauss
import Mahotas.Proofs.C06Const
import Mahotas.Proofs.C06Transpose
import Mahotas.Proofs.C06Cast
import Mathlib.Data.Rat.Floor
import Mahotas.Proofs.C06Edge
import Mahotas.Proofs.C06Separable
import Mahotas.Proofs.Modes
open Mahotas Mahotas.C06

/-- **C06-T1 (generic kernel = defining sum).** For every border mode (nearest, wrap, reflect, mirror,
constant 0, ignore), every image of every rank and shape with positive axis lengths, every kernel of
every shape (odd, even, larger than the image, with zeros) and every pixel `p`, the accumulator of the
model of `convolve<T>` — footprint order, zero weights dropped by `filter_iterator(compress=true)`,
neighbour offsets through `fix_offset` on each axis, flagged samples skipped — equals
`Σ_j w[j] · f[border(p + j − c)]` with `c = shape(w)/2` over all kernel positions `j`, the out-of-image
samples taken per the mathematical border rule (`borderSpec`; 0 / dropped for constant / ignore). -/
theorem C06_convolve_eq_spec {R : Type} [CommSemiring R] (isZero : R → Bool)
    (hz : ∀ x, isZero x = true → x = 0) (m : Mode) (f : Img R) (hs : ∀ d ∈ f.shape, 0 < d)
    (wshape : List Nat) (w : Array R) (p : List Int) :
    convAcc m f (support isZero wshape w) p = convSpec m f wshape w p := by
  exact (conv_fold isZero hz m f hs wshape w p _ 0).trans (zero_add _)

/-- **C06-T2a (fast row path: every column written exactly once).** Under the guard of the Python
wrapper, `len(w) < N1`, the columns written for a row by the interior loop
`for (x = c; x != N1 − c; ++x)` followed by the border loop
`for (x_ = 0; x_ != 2c && x_ < N1; ++x_) x = (x_ < c ? x_ : N1 − 1 − (x_ − c))` are a permutation of
`0, …, N1 − 1`: no column is skipped and none is written twice, for every kernel length (odd or even). -/
theorem C06_fast_columns_once (Nf N1 : Nat) (h : Nf < N1) : (fastXs Nf N1).Perm (List.range N1) :=
  fastXs_perm Nf N1 h

/-- **C06-T2b (fast row path: interior reads stay inside the row)** — the interior loop indexes
`base0[x + j − c]` without any border handling; for every column it visits and every kernel position
the index lies in `[0, N1)` (also the memory-safety lemma of C10 for this loop). -/
theorem C06_fast_interior_in_range (Nf N1 x j : Nat) (h : Nf < N1) (hx : x ∈ interiorXs Nf N1) (hj : j < Nf) :
    0 ≤ (x : Int) + (j : Int) - ((Nf / 2 : Nat) : Int) ∧
    (x : Int) + (j : Int) - ((Nf / 2 : Nat) : Int) < (N1 : Int) := by
  rw [mem_interiorXs Nf N1 x h] at hx
  omega

/-- **C06-T2c (fast row path = defining sum = generic kernel).** For a 2-D row view `[N0, N1]`, every
border mode and every kernel shorter than the row, each write `(y, x, v)` the model of
`convolve1d<T>` performs — interior loop with direct reads and all weights, border loop with per-mode
offsets and flagged samples read as 0 — targets a cell of the image and stores the defining sum with
the kernel embedded on the last axis (kernel shape `[1, Nf]`, centre `Nf/2`), which is also what the
generic kernel `convolve<T>` accumulates at that pixel. -/
theorem C06_fast_eq_spec {R : Type} [CommSemiring R] (isZero : R → Bool)
    (hz : ∀ x, isZero x = true → x = 0) (m : Mode) (f : Img R) (N0 N1 : Nat)
    (hf : f.shape = [N0, N1]) (w : Array R) (h : w.size < N1) :
    ∀ t ∈ fastWrites m f w N0 N1, t.1 < N0 ∧ t.2.1 < N1 ∧
      t.2.2 = convSpec m f [1, w.size] w [(t.1 : Int), (t.2.1 : Int)] ∧
      t.2.2 = convAcc m f (support isZero [1, w.size] w) [(t.1 : Int), (t.2.1 : Int)] := by
  have hN1 : 0 < N1 := by omega
  have key : ∀ y x v, y < N0 → x < N1 → v = convSpec m f [1, w.size] w [(y : Int), (x : Int)] →
      v = convAcc m f (support isZero [1, w.size] w) [(y : Int), (x : Int)] := by
    intro y x v hy _ hv
    rw [hv, C06_convolve_eq_spec isZero hz m f (by
      rw [hf]; intro d hd; simp only [List.mem_cons, List.not_mem_nil, or_false] at hd
      rcases hd with rfl | rfl <;> omega)]
  intro t ht
  unfold fastWrites at ht
  rcases List.mem_append.1 ht with ht | ht
  · obtain ⟨y, hy, ht⟩ := List.mem_flatMap.1 ht
    obtain ⟨x, hx, rfl⟩ := List.mem_map.1 ht
    have hy' : y < N0 := List.mem_range.1 hy
    have hx' : x < N1 := by
      have := (mem_interiorXs w.size N1 x h).1 hx; omega
    have hv : fastInterior f w y x = convSpec m f [1, w.size] w [(y : Int), (x : Int)] := by
      rw [fastInterior_eq_border m f w N1 y x hx h, fastBorder_eq_spec m f N0 N1 hf hN1 w y x hy']
    exact ⟨hy', hx', hv, key y x _ hy' hx' hv⟩
  · obtain ⟨x, hx, ht⟩ := List.mem_flatMap.1 ht
    obtain ⟨y, hy, rfl⟩ := List.mem_map.1 ht
    have hy' : y < N0 := List.mem_range.1 hy
    have hx' : x < N1 := by
      have := (mem_borderXs w.size N1 x h).1 hx; omega
    have hv := fastBorder_eq_spec m f N0 N1 hf hN1 w y x hy'
    exact ⟨hy', hx', hv, key y x _ hy' hx' hv⟩

/-- non-vacuity of T2: a 2×5 row view, an even kernel of length 4 (< 5), mirror mode: the write
    sequence covers the columns `2, 0, 1, 4, 3` and fills every cell. -/
example :
    fastXs 4 5 = [2, 0, 1, 4, 3] ∧
    let f : Img Int := { shape := [2, 5], data := #[1, 2, 3, 4, 5, 6, 7, 8, 9, 10] }
    (applyWrites 2 5 (fastWrites .mirror f #[1, 0, -1, 2] 2 5)).toList =
      ((allPos f.shape).map fun p => some (convSpec .mirror f [1, 4] #[1, 0, -1, 2] p)) := by
  decide

/-- non-vacuity: a 1-D integer image of length 2 under a length-5 asymmetric kernel with a zero, in
    reflect mode (offsets reach two periods), meets the hypotheses; both sides evaluate to the same
    non-trivial values. -/
example :
    let f : Img Int := { shape := [2], data := #[1, 10] }
    let w : Array Int := #[1, 0, 2, 3, 4]
    (∀ d ∈ f.shape, 0 < d) ∧
    (allPos f.shape).map (convAcc .reflect f (support (fun x => x == 0) [5] w)) = [82, 55] ∧
    (allPos f.shape).map (convSpec .reflect f [5] w) = [82, 55] := by
  decide

/-! ## Round 2: the n-D glue of `convolve1d`, the Gaussian weights, `gaussian_filter` as a fold -/

/-- **C06-T3a (axis normalisation, `_get_axis`).** For an axis argument in `[−ndim, ndim)` the
normalised axis is a valid axis, equals the argument when it is non-negative and `axis + ndim` when it
is negative; `axis` and `axis − ndim` name the same axis. -/
theorem C06_normAxis (ndim : Nat) (axis : Int) (h0 : -(ndim : Int) ≤ axis) (h1 : axis < ndim) :
    normAxis ndim axis < ndim ∧
    (0 ≤ axis → (normAxis ndim axis : Int) = axis ∧ normAxis ndim (axis - ndim) = normAxis ndim axis) ∧
    (axis < 0 → (normAxis ndim axis : Int) = axis + ndim) := by
  unfold normAxis
  refine ⟨?_, ?_, ?_⟩
  · split <;> omega
  · intro h
    rw [if_neg (by omega), if_pos (by omega)]
    constructor <;> omega
  · intro h
    rw [if_pos h]
    omega

/-- **C06-T3 (`convolve1d` along any axis = `convolve` with the kernel embedded on that axis).** For every
rank, shape, axis `< ndim` (after `C06_normAxis`: every axis argument, negative included), 1-D kernel
`w` and border mode, over any commutative semiring:
(i) under the guard of the fast path, `len(w) < shape[axis]`, the value the row-wise kernel leaves at
the logical position `p` — it sees the row `f.transpose(others + [axis]).reshape(-1, N)[row of p]`,
which the model reads as `lineThrough f axis p`, and uses the interior or the border loop according to
the column `p[axis]` — equals the defining sum `Σ_j w[j]·f[border(p + (j − Nf/2)·e_axis)]` with the
kernel of shape `[1,…,Nf,…,1]` (`embedShape`), and equals the accumulator of the generic kernel
`convolve<T>` for that embedded kernel;
(ii) hence the whole output of `convolve1d` is that tabulated defining sum whichever path the Python
wrapper chooses (contiguous or not, kernel shorter than the axis or not), for any output cast. -/
theorem C06_convolve1d_axis {R : Type} [CommSemiring R] (isZero : R → Bool)
    (hz : ∀ x, isZero x = true → x = 0) (m : Mode) (f : Img R) (axis : Nat) (w : Array R)
    (hax : axis < f.shape.length) :
    (∀ p, inside f.shape p = true → w.size < f.shape.getD axis 1 →
      fastAt m f axis w p = convSpec m f (embedShape f.shape.length axis w.size) w p ∧
      fastAt m f axis w p = convAcc m f (support isZero (embedShape f.shape.length axis w.size) w) p) ∧
    (∀ (cast : R → R) (contig : Bool), (convolve1dG cast isZero m f contig axis w).1 =
      (allPos f.shape).map fun p => cast (convSpec m f (embedShape f.shape.length axis w.size) w p)) := by
  refine ⟨fun p hp hw => ?_, fun cast contig => convolve1dG_eq_spec cast isZero hz m f contig axis w hax⟩
  have h := fastAt_eq_spec m f axis w p hp hax hw
  refine ⟨h, ?_⟩
  rw [h, C06_convolve_eq_spec isZero hz m f (inside_dims_pos _ _ hp)]

/-- **C06-T3b (the two paths of `convolve1d` agree).** The fast row path (contiguous input) and the
generic path (`convolve` with `weights[None,…,:,…,None]`) return the same list of values for every
image, axis, kernel, mode and output cast, and equal lists for `axis` and `axis − ndim`. -/
theorem C06_convolve1d_paths_agree {R : Type} [CommSemiring R] (cast : R → R) (isZero : R → Bool)
    (hz : ∀ x, isZero x = true → x = 0) (m : Mode) (f : Img R) (axis : Int) (w : Array R)
    (h0 : 0 ≤ axis) (h1 : axis < f.shape.length) :
    (convolve1dG cast isZero m f true (normAxis f.shape.length axis) w).1 =
      (convolve1dG cast isZero m f false (normAxis f.shape.length axis) w).1 ∧
    (convolve1dG cast isZero m f true (normAxis f.shape.length (axis - f.shape.length)) w).1 =
      (convolve1dG cast isZero m f false (normAxis f.shape.length axis) w).1 := by
  obtain ⟨hlt, hnn, _⟩ := C06_normAxis f.shape.length axis (by omega) h1
  rw [(hnn h0).2, convolve1dG_eq_spec cast isZero hz m f true _ w hlt,
    convolve1dG_eq_spec cast isZero hz m f false _ w hlt]
  exact ⟨rfl, rfl⟩

/-- **C06-T4 (weights of `gaussian_filter1d`).** Over any ordered field `K`, for every `lw = int(4σ+0.5)`,
every `s2 = σ²` and every function `e` that is even and positive (standing for `x ↦ exp(−x²/2σ²)`; the
driver instantiates the same definition with `Float.exp`), the weights `gaussWeightsG` computes — samples
at `x = i − lw`, normalised by their sum, times the derivative polynomial, odd orders flipped — satisfy,
with `W k` the weights of order `k` and `i ≤ 2·lw`:
* there are `2·lw + 1` of them for every order;
* order 0: `W₀[2lw − i] = W₀[i]`, every weight is positive, and they sum to 1;
* order 1: `W₁[i] = W₀[i]·(i − lw)/σ²` — after the flip the weight right of the centre is positive, so
  the correlation the kernels compute responds with `+` to an increasing ramp —,
  `W₁[2lw − i] = −W₁[i]`, and they sum to 0;
* order 2: `W₂[2lw − i] = W₂[i]` (their sum is `(m₂/σ² − 1)/σ²`, not 0 in general — see the example below);
* order 3: `W₃[2lw − i] = −W₃[i]`, and they sum to 0. -/
theorem C06_gauss_weights {K : Type} [Field K] [LinearOrder K] [IsStrictOrderedRing K]
    (e : K → K) (he : ∀ x, e (-x) = e x) (hpos : ∀ x, 0 < e x) (s2 : K) (lw : Nat) :
    let W := fun order => gaussWeightsG (Nat.cast : Nat → K) e s2 lw order
    (∀ order, (W order).size = 2 * lw + 1) ∧
    ((∀ i ≤ 2 * lw, (W 0).getD (2 * lw - i) 0 = (W 0).getD i 0 ∧ 0 < (W 0).getD i 0) ∧
      (W 0).toList.sum = 1) ∧
    ((∀ i ≤ 2 * lw, (W 1).getD i 0 = (W 0).getD i 0 * (((i : K) - (lw : K)) / s2) ∧
        (W 1).getD (2 * lw - i) 0 = -(W 1).getD i 0) ∧
      (W 1).toList.sum = 0) ∧
    (∀ i ≤ 2 * lw, (W 2).getD (2 * lw - i) 0 = (W 2).getD i 0) ∧
    ((∀ i ≤ 2 * lw, (W 3).getD (2 * lw - i) 0 = -(W 3).getD i 0) ∧ (W 3).toList.sum = 0) := by
  intro W
  have hget : ∀ order i, i ≤ 2 * lw → (W order).getD i 0 = gweight e s2 lw order i :=
    fun order i hi => gaussWeightsG_getD e he s2 lw order i hi
  have hlist : ∀ order, (W order).toList = (List.range (2 * lw + 1)).map (gweight e s2 lw order) :=
    fun order => gaussWeightsG_toList e he s2 lw order
  refine ⟨fun order => gaussWeightsG_size e s2 lw order, ⟨fun i hi => ⟨?_, ?_⟩, ?_⟩,
    ⟨fun i hi => ⟨?_, ?_⟩, ?_⟩, fun i hi => ?_, fun i hi => ?_, ?_⟩
  · rw [hget 0 _ (by omega), hget 0 i hi]
    exact gweight_symm e he s2 lw 0 i (Or.inl rfl) hi
  · rw [hget 0 i hi]
    simp only [gweight, gpoly, mul_one]
    exact div_pos (hpos _) (gtot_pos e hpos lw)
  · rw [hlist 0]; exact gweight_sum_order0 e hpos s2 lw
  · rw [hget 1 i hi, hget 0 i hi]
    simp only [gweight, gpoly, gx]
    simp
  · rw [hget 1 _ (by omega), hget 1 i hi]
    exact gweight_antisymm e he s2 lw 1 i (Or.inl rfl) hi
  · rw [hlist 1]; exact gweight_sum_odd e he s2 lw 1 (Or.inl rfl)
  · rw [hget 2 _ (by omega), hget 2 i hi]
    exact gweight_symm e he s2 lw 2 i (Or.inr rfl) hi
  · rw [hget 3 _ (by omega), hget 3 i hi]
    exact gweight_antisymm e he s2 lw 3 i (Or.inr rfl) hi
  · rw [hlist 3]; exact gweight_sum_odd e he s2 lw 3 (Or.inr rfl)

/-- **C06-T4a (a constant image under one Gaussian pass).** In the four extending border modes
(nearest, wrap, reflect, mirror), for an image of any rank and shape that holds the constant `c`, any
axis and any pixel `p`: the accumulator of `gaussian_filter1d` (generic kernel with the weights embedded
on `axis`) is `c` for order 0 and `0` for orders 1 and 3; under the guard of the fast path the row-wise
kernel leaves the same value. (Order 2 leaves `c·(m₂/σ² − 1)/σ²`, which is small but not 0.) -/
theorem C06_gauss_constant {K : Type} [Field K] [LinearOrder K] [IsStrictOrderedRing K]
    (isZero : K → Bool) (hz : ∀ x, isZero x = true → x = 0)
    (e : K → K) (he : ∀ x, e (-x) = e x) (hpos : ∀ x, 0 < e x) (s2 : K) (lw order : Nat)
    (m : Mode) (hm : Extending m) (f : Img K) (c : K)
    (hc : ∀ q, inside f.shape q = true → f.getD q 0 = c) (axis : Nat) (hax : axis < f.shape.length)
    (p : List Int) (hp : inside f.shape p = true) :
    let W := gaussWeightsG (Nat.cast : Nat → K) e s2 lw order
    let acc := convAcc m f (support isZero (embedShape f.shape.length axis W.size) W) p
    (order = 0 → acc = c) ∧ (order = 1 ∨ order = 3 → acc = 0) ∧
    (W.size < f.shape.getD axis 1 → fastAt m f axis W p = acc) := by
  intro W acc
  have hs := inside_dims_pos _ _ hp
  have hacc : acc = W.toList.sum * c := by
    show convAcc m f _ p = _
    rw [C06_convolve_eq_spec isZero hz m f hs]
    exact convSpec_embed_const m hm f c hc hs axis hax W p (inside_length _ _ hp)
  have hw := C06_gauss_weights e he hpos s2 lw
  refine ⟨?_, ?_, fun hlt => ?_⟩
  · rintro rfl
    rw [hacc, hw.2.1.2, one_mul]
  · rintro (rfl | rfl)
    · rw [hacc, hw.2.2.1.2, zero_mul]
    · rw [hacc, hw.2.2.2.2.2, zero_mul]
  · exact ((C06_convolve1d_axis isZero hz m f axis W hax).1 p hp hlt).2

/-- **C06-T4b (`gaussian_filter` = successive `gaussian_filter1d` over the axes).** The model of
`gaussian_filter` is the left fold over `axis = 0, 1, …, ndim − 1` of the model of one
`gaussian_filter1d` pass (`gaussianPass` = `convolve1d` on a contiguous buffer with the weights of that
axis, stored through the output cast in a buffer of the same shape), and every pass is the tabulated
defining sum along its axis: the result equals the fold of
`cur ↦ [p ↦ cast(Σ_j w_axis[j]·cur[border(p + (j − c)·e_axis)])]`, the shape being preserved. -/
theorem C06_gaussian_filter_is_fold {R : Type} [CommSemiring R] (cast : R → R) (isZero : R → Bool)
    (hz : ∀ x, isZero x = true → x = 0) (m : Mode) (f : Img R) (ws : Nat → Array R) :
    gaussianFilterG cast isZero m f ws =
      (List.range f.shape.length).foldl (fun cur ax => gaussianPass cast isZero m cur ax (ws ax)) f ∧
    gaussianFilterG cast isZero m f ws =
      (List.range f.shape.length).foldl (fun cur ax =>
        Img.tabulate cur.shape fun p =>
          cast (convSpec m cur (embedShape cur.shape.length ax (ws ax).size) (ws ax) p)) f ∧
    (gaussianFilterG cast isZero m f ws).shape = f.shape := by
  have h := foldl_congr_inv (fun cur : Img R => cur.shape = f.shape)
    (fun cur ax => gaussianPass cast isZero m cur ax (ws ax))
    (fun cur ax => Img.tabulate cur.shape fun p =>
      cast (convSpec m cur (embedShape cur.shape.length ax (ws ax).size) (ws ax) p))
    (List.range f.shape.length) f rfl (by
      intro cur ax hax hcur
      have hax' : ax < cur.shape.length := by rw [hcur]; exact List.mem_range.1 hax
      exact ⟨gaussianPass_eq_tabulate cast isZero hz m cur ax (ws ax) hax', hcur⟩)
  exact ⟨rfl, h.1, h.2⟩

/-- **C06-T4c (`gaussian_filter` on a constant image).** In the extending border modes, with exact
arithmetic and no output rounding, `gaussian_filter` maps the constant image `c` (any rank and shape) to
the constant image `c · Π_axis Σ(weights of that axis)`; with the Gaussian weights of order 0 on every
axis (each `σ`, hence `lw`, `s2` and the sampled function, may differ per axis) the image is reproduced,
and if some axis has order 1 or 3 the result is 0 everywhere. -/
theorem C06_gaussian_filter_constant {K : Type} [Field K] [LinearOrder K] [IsStrictOrderedRing K]
    (isZero : K → Bool) (hz : ∀ x, isZero x = true → x = 0) (m : Mode) (hm : Extending m)
    (f : Img K) (c : K) (hc : ∀ q, inside f.shape q = true → f.getD q 0 = c) :
    (∀ (ws : Nat → Array K) q, inside f.shape q = true →
      (gaussianFilterG id isZero m f ws).getD q 0 =
        ((List.range f.shape.length).map fun ax => (ws ax).toList.sum).prod * c) ∧
    (∀ (e : Nat → K → K) (s2 : Nat → K) (lw order : Nat → Nat),
      (∀ ax x, e ax (-x) = e ax x) → (∀ ax x, 0 < e ax x) →
      ∀ q, inside f.shape q = true →
        ((∀ ax < f.shape.length, order ax = 0) →
          (gaussianFilterG id isZero m f fun ax =>
            gaussWeightsG (Nat.cast : Nat → K) (e ax) (s2 ax) (lw ax) (order ax)).getD q 0 = c) ∧
        ((∃ ax < f.shape.length, order ax = 1 ∨ order ax = 3) →
          (gaussianFilterG id isZero m f fun ax =>
            gaussWeightsG (Nat.cast : Nat → K) (e ax) (s2 ax) (lw ax) (order ax)).getD q 0 = 0)) := by
  have hgen : ∀ (ws : Nat → Array K) q, inside f.shape q = true →
      (gaussianFilterG id isZero m f ws).getD q 0 =
        ((List.range f.shape.length).map fun ax => (ws ax).toList.sum).prod * c := by
    intro ws q hq
    exact (gaussianFold_const isZero hz m hm ws f.shape (List.range f.shape.length)
      (fun a ha => List.mem_range.1 ha) f c rfl hc).2 q hq
  refine ⟨hgen, fun e s2 lw order he hpos q hq => ⟨fun h0 => ?_, fun h13 => ?_⟩⟩
  · rw [hgen _ q hq]
    have : ((List.range f.shape.length).map fun ax =>
        (gaussWeightsG (Nat.cast : Nat → K) (e ax) (s2 ax) (lw ax) (order ax)).toList.sum) =
        (List.range f.shape.length).map fun _ => (1 : K) := by
      apply List.map_congr_left
      intro ax hax
      rw [h0 ax (List.mem_range.1 hax)]
      exact (C06_gauss_weights (e ax) (he ax) (hpos ax) (s2 ax) (lw ax)).2.1.2
    rw [this]
    simp
  · rw [hgen _ q hq]
    obtain ⟨ax, hax, ho⟩ := h13
    have hz0 : (gaussWeightsG (Nat.cast : Nat → K) (e ax) (s2 ax) (lw ax) (order ax)).toList.sum = 0 := by
      have hw := C06_gauss_weights (e ax) (he ax) (hpos ax) (s2 ax) (lw ax)
      rcases ho with h | h
      · rw [h]; exact hw.2.2.1.2
      · rw [h]; exact hw.2.2.2.2.2
    rw [prod_eq_zero_of_mem _ (List.mem_map.2 ⟨ax, List.mem_range.2 hax, hz0⟩), zero_mul]

/-- **C06-T4d (order-1 response to a unit ramp: sign and closed form).** At a pixel whose window lies
inside the image, the correlation the kernels compute with the order-1 weights on the ramp
`f(t) = t` — `Σ_i W₁[i]·(t + (i − lw))` — does not depend on `t` and equals `m₂/σ²` with
`m₂ = Σ_i W₀[i]·(i − lw)²` the second moment of the truncated normalised Gaussian; it is strictly
positive for `σ² > 0`, `lw ≥ 1` (the sign the statement asks for, "+1"; that `m₂/σ² ≈ 1` is validated
numerically, not proved). -/
theorem C06_gauss_ramp_response {K : Type} [Field K] [LinearOrder K] [IsStrictOrderedRing K]
    (e : K → K) (he : ∀ x, e (-x) = e x) (hpos : ∀ x, 0 < e x) (s2 : K) (lw : Nat) (t : K) :
    let W := fun order => gaussWeightsG (Nat.cast : Nat → K) e s2 lw order
    ((List.range (2 * lw + 1)).map fun i => (W 1).getD i 0 * (t + ((i : K) - (lw : K)))).sum =
      ((List.range (2 * lw + 1)).map fun i => (W 0).getD i 0 * ((i : K) - (lw : K)) ^ 2).sum / s2 ∧
    (0 < s2 → 1 ≤ lw →
      0 < ((List.range (2 * lw + 1)).map fun i => (W 0).getD i 0 * ((i : K) - (lw : K)) ^ 2).sum / s2) := by
  intro W
  have hw := C06_gauss_weights e he hpos s2 lw
  constructor
  · have h1 : ((List.range (2 * lw + 1)).map fun i => (W 1).getD i 0 * (t + ((i : K) - (lw : K)))) =
        (List.range (2 * lw + 1)).map fun i =>
          (W 1).getD i 0 * t + (W 0).getD i 0 * ((i : K) - (lw : K)) ^ 2 / s2 := by
      apply List.map_congr_left
      intro i hi
      have hi' : i ≤ 2 * lw := by have := List.mem_range.1 hi; omega
      rw [(hw.2.2.1.1 i hi').1]
      ring
    rw [h1, List.sum_map_add, sum_map_mul_const]
    have h2 : (List.range (2 * lw + 1)).map (fun i => (W 1).getD i 0) = (W 1).toList := by
      rw [← hw.1 1]; exact range_map_getD (W 1)
    rw [h2, hw.2.2.1.2, zero_mul, zero_add]
    have h3 : ((List.range (2 * lw + 1)).map fun i => (W 0).getD i 0 * ((i : K) - (lw : K)) ^ 2 / s2) =
        ((List.range (2 * lw + 1)).map fun i => (W 0).getD i 0 * ((i : K) - (lw : K)) ^ 2).map (· / s2) := by
      rw [List.map_map]; rfl
    rw [h3, sum_map_div]
  · intro hs2 hlw
    apply div_pos _ hs2
    have hnn : ∀ x ∈ (List.range (2 * lw + 1)).map fun i => (W 0).getD i 0 * ((i : K) - (lw : K)) ^ 2,
        0 ≤ x := by
      intro x hx
      obtain ⟨i, hi, rfl⟩ := List.mem_map.1 hx
      have hi' : i ≤ 2 * lw := by have := List.mem_range.1 hi; omega
      exact mul_nonneg (le_of_lt (hw.2.1.1 i hi').2) (sq_nonneg _)
    have hmem : (W 0).getD 0 0 * (((0 : Nat) : K) - (lw : K)) ^ 2 ∈
        (List.range (2 * lw + 1)).map fun i => (W 0).getD i 0 * ((i : K) - (lw : K)) ^ 2 :=
      List.mem_map.2 ⟨0, List.mem_range.2 (by omega), rfl⟩
    have hle := List.single_le_sum hnn _ hmem
    have hlwK : (0 : K) < (lw : K) := by exact_mod_cast hlw
    have hterm : 0 < (W 0).getD 0 0 * (((0 : Nat) : K) - (lw : K)) ^ 2 := by
      apply mul_pos (hw.2.1.1 0 (by omega)).2
      have : (((0 : Nat) : K) - (lw : K)) ^ 2 = (lw : K) ^ 2 := by push_cast; ring
      rw [this]
      exact pow_pos hlwK 2
    exact lt_of_lt_of_le hterm hle

/-- non-vacuity of T3: a 2×3×2 integer image, the *middle* axis (a genuine transposition), kernel
    `[2, −1]` (even length, asymmetric) shorter than the axis, mirror mode: axis `−2` normalises to 1, the
    two paths are taken and return the same values. -/
example :
    let f : Img Int := { shape := [2, 3, 2], data := #[1, 2, 3, 4, 5, 6, 7, 8, 9, 10, 11, 12] }
    let w : Array Int := #[2, -1]
    normAxis 3 (-2) = 1 ∧ 1 < f.shape.length ∧ w.size < f.shape.getD 1 1 ∧
    (convolve1dG id (fun x => x == 0) .mirror f true 1 w).2 = true ∧
    (convolve1dG id (fun x => x == 0) .mirror f false 1 w).2 = false ∧
    (convolve1dG id (fun x => x == 0) .mirror f true 1 w).1 =
      (convolve1dG id (fun x => x == 0) .mirror f false 1 w).1 ∧
    (convolve1dG id (fun x => x == 0) .mirror f true 1 w).1 = [5, 6, -1, 0, 1, 2, 11, 12, 5, 6, 7, 8] := by
  decide

/-- non-vacuity of T4 over ℚ with the positive even function `e x = 1/(1 + x²)`, `σ² = 2`, `lw = 1`:
    the four weight vectors (order 0 symmetric with sum 1; order 1 antisymmetric, positive right of the
    centre; order 2 symmetric with sum `−3/8 ≠ 0` — a constant image is *not* annihilated exactly by
    order 2 —; order 3 antisymmetric). -/
example :
    gaussWeightsG (Nat.cast : Nat → ℚ) (fun x => 1 / (1 + x * x)) 2 1 0 = #[1 / 4, 1 / 2, 1 / 4] ∧
    gaussWeightsG (Nat.cast : Nat → ℚ) (fun x => 1 / (1 + x * x)) 2 1 1 = #[-1 / 8, 0, 1 / 8] ∧
    gaussWeightsG (Nat.cast : Nat → ℚ) (fun x => 1 / (1 + x * x)) 2 1 2 = #[-1 / 16, -1 / 4, -1 / 16] ∧
    gaussWeightsG (Nat.cast : Nat → ℚ) (fun x => 1 / (1 + x * x)) 2 1 3 = #[5 / 32, 0, -5 / 32] ∧
    (gaussWeightsG (Nat.cast : Nat → ℚ) (fun x => 1 / (1 + x * x)) 2 1 2).toList.sum = -3 / 8 := by
  decide +kernel

/-- non-vacuity of T4c: the constant 2×3 image `5` under `gaussian_filter` with those order-0 weights on
    both axes in reflect mode is reproduced; with order 1 on the second axis it becomes 0. -/
example :
    let f : Img ℚ := { shape := [2, 3], data := #[5, 5, 5, 5, 5, 5] }
    (gaussianFilterG id (fun x => x == 0) .reflect f fun _ =>
      gaussWeightsG (Nat.cast : Nat → ℚ) (fun x => 1 / (1 + x * x)) 2 1 0).data = #[5, 5, 5, 5, 5, 5] ∧
    (gaussianFilterG id (fun x => x == 0) .reflect f fun ax =>
      gaussWeightsG (Nat.cast : Nat → ℚ) (fun x => 1 / (1 + x * x)) 2 1 ax).data = #[0, 0, 0, 0, 0, 0] := by
  decide +kernel

/-- **C06-T5 (`laplacian_2D`: the weights sum to 0).** Over any field, for every `alpha` with
`alpha + 1 ≠ 0` (in particular every `alpha` clamped to `[0, 1]` in an ordered field), the nine weights
`laplacianWeightsG` computes — `alpha/(alpha+1)` on the diagonals, `(1−alpha)/(alpha+1)` on the
vertical/horizontal neighbours, `−4/(alpha+1)` at the centre — sum to 0; hence, in the `nearest` mode
`laplacian_2D` uses (and in every extending mode), the generic kernel with these weights returns 0 at
every pixel of a constant 2-D image. -/
theorem C06_laplacian_weights_sum_zero {K : Type} [Field K] (alpha : K) (ha : alpha + 1 ≠ 0) :
    (laplacianWeightsG (Nat.cast : Nat → K) alpha).size = 9 ∧
    (laplacianWeightsG (Nat.cast : Nat → K) alpha).toList.sum = 0 ∧
    (∀ (isZero : K → Bool), (∀ x, isZero x = true → x = 0) →
      ∀ (m : Mode), Extending m → ∀ (f : Img K) (c : K), f.shape.length = 2 →
      (∀ q, inside f.shape q = true → f.getD q 0 = c) → ∀ p, inside f.shape p = true →
        convAcc m f (support isZero [3, 3] (laplacianWeightsG (Nat.cast : Nat → K) alpha)) p = 0) := by
  have hsum : (laplacianWeightsG (Nat.cast : Nat → K) alpha).toList.sum = 0 := by
    simp only [laplacianWeightsG, List.sum_cons, List.sum_nil, Nat.cast_one, Nat.cast_ofNat]
    field_simp
    ring
  refine ⟨rfl, hsum, fun isZero hz m hm f c h2 hc p hp => ?_⟩
  have hs := inside_dims_pos _ _ hp
  rw [C06_convolve_eq_spec isZero hz m f hs,
    convSpec_const m hm f c hc hs [3, 3] _ p (inside_length _ _ hp) (by rw [h2]; rfl)]
  have h9 : shapeSize [3, 3] = (laplacianWeightsG (Nat.cast : Nat → K) alpha).size := rfl
  rw [h9, range_map_getD, hsum, zero_mul]

/-- non-vacuity of T5 over ℚ, `alpha = 1/5` (the default): the weights, and their sum. -/
example :
    laplacianWeightsG (Nat.cast : Nat → ℚ) (1 / 5) =
      #[1 / 6, 2 / 3, 1 / 6, 2 / 3, -10 / 3, 2 / 3, 1 / 6, 2 / 3, 1 / 6] ∧
    ((1 : ℚ) / 5 + 1 ≠ 0) := by
  decide +kernel

/-! ## Round 3: the transposition / reshape glue as index arithmetic; separability -/

/-- **C06-T3c (`lineThrough` IS the row of `f.transpose(indices).reshape((-1, N))`, and the way back).**
numpy semantics assumed, and nothing else: `a.transpose(perm)` permutes the axes logically — shape
`[a.shape[perm[i]]]_i`, element at `q` = element of `a` at the `p` with `p[perm[i]] = q[i]`
(`transposeImg`; `transposeImg_getD` proves `a.transpose(perm)[[p[perm[i]]]_i] = a[p]` for every
permutation `perm` of the axes) — and `a.reshape(newshape)` of a possibly non-contiguous array is the
C-order ravel of its logical content read with the new shape (`reshapeImg`). With
`indices = [a for a in range(ndim) if a != axis] + [axis]` (`moveLast`) and
`rindices = [indices.index(a) for a in range(ndim)]` (`invPerm`), for every rank, shape and `axis < ndim`:
* `indices` is a permutation of the axes, the transposed shape is (the other lengths) `++ [N]`,
  `N = shape[axis]`, and the 2-D view has shape `[Π other lengths, N]` (what `-1` resolves to);
* for every inside position `p`, the row of the 2-D view whose number is the C-order rank of `p`
  without its `axis` coordinate in the transposed shape without its last axis (`rowIndex`) is a valid
  row and equals `lineThrough f axis p` — the object through which `fastAt` / `convolve1dG` (T3) read
  the row; cell `(row of p, x)` of the view is `f[p[axis := x]]`;
* the way back: for every 2-D buffer `tmp` of the shape of the view,
  `tmp.reshape(tshape).transpose(rindices)` has the shape of `f`, and the cell `(row of p, x)` of `tmp`
  lands at the logical position `p[axis := x]`. -/
theorem C06_lineThrough_is_transpose_reshape {R : Type} [CommSemiring R] (f : Img R) (axis : Nat)
    (hax : axis < f.shape.length) :
    (moveLast f.shape.length axis).Perm (List.range f.shape.length) ∧
    (transposeImg (moveLast f.shape.length axis) f).shape = otherShape f.shape axis ++ [f.shape.getD axis 1] ∧
    (rowsView f axis).shape = [shapeSize (otherShape f.shape axis), f.shape.getD axis 1] ∧
    (∀ p, inside f.shape p = true →
      rowIndex f.shape axis p < shapeSize (otherShape f.shape axis) ∧
      rowOf (rowsView f axis) (rowIndex f.shape axis p) = lineThrough f axis p ∧
      ∀ x : Int, 0 ≤ x → x < ((f.shape.getD axis 1 : Nat) : Int) →
        (rowsView f axis).getD [(rowIndex f.shape axis p : Int), x] 0 = f.getD (setAxis p axis x) 0) ∧
    (∀ tmp : Img R, tmp.shape = [shapeSize (otherShape f.shape axis), f.shape.getD axis 1] →
      (unrowsView f.shape axis tmp).shape = f.shape ∧
      ∀ p, inside f.shape p = true → ∀ x : Int, 0 ≤ x → x < ((f.shape.getD axis 1 : Nat) : Int) →
        (unrowsView f.shape axis tmp).getD (setAxis p axis x) 0 =
          tmp.getD [(rowIndex f.shape axis p : Int), x] 0) :=
  ⟨moveLast_perm _ _ hax, transposed_shape f.shape axis, rfl,
    fun p hp => ⟨rowIndex_lt f.shape axis p hp, rowOf_rowsView f axis p hax hp,
      fun x h0 h1 => rowsView_getD f axis p x hax hp h0 h1⟩,
    fun tmp htmp => unrowsView_getD f.shape axis hax tmp htmp⟩

/-- **C06-T3d (the fast path of `convolve1d` as written = the defining sum; T3 no longer rests on a reading
of numpy beyond the two semantic facts of T3c).** `convolve1dViaTranspose` is the Python fast path
literally: `f.transpose(indices)`, `.reshape((-1, N))`, the C kernel `_convolve.convolve1d` on that 2-D array
(the write sequence `fastWrites` of T2 applied to a buffer `tmp`, each store through the output cast),
`tmp.reshape(tshape).transpose(rindices)`. For every rank, shape, axis, kernel shorter than the axis (the
guard of the fast path), mode and output cast, over any commutative semiring: the result has the shape of
`f`, every cell of `tmp` is written (no uninitialised value survives), and its C-order content is
`[cast(Σ_j w[j]·f[border(p + (j − Nf/2)·e_axis)])]_p` — the tabulated defining sum with the kernel
embedded on `axis` —, which is exactly the list `convolve1dG` (the model the driver runs, which reads
rows through `lineThrough`) returns on either path. -/
theorem C06_convolve1d_via_transpose {R : Type} [CommSemiring R] (cast : R → R) (isZero : R → Bool)
    (hz : ∀ x, isZero x = true → x = 0) (m : Mode) (f : Img R) (axis : Nat) (w : Array R)
    (hax : axis < f.shape.length) (hw : w.size < f.shape.getD axis 1) :
    (convolve1dViaTranspose cast m f axis w).shape = f.shape ∧
    (convolve1dViaTranspose cast m f axis w).data.toList =
      ((allPos f.shape).map fun p => cast (convSpec m f (embedShape f.shape.length axis w.size) w p)) ∧
    (∀ contig, (convolve1dViaTranspose cast m f axis w).data.toList =
      (convolve1dG cast isZero m f contig axis w).1) := by
  obtain ⟨h1, h2⟩ := viaTranspose_eq_spec cast m f axis w hax hw
  refine ⟨h1, h2, fun contig => ?_⟩
  rw [h2, convolve1dG_eq_spec cast isZero hz m f contig axis w hax]

/-- non-vacuity of T3c / T3d: the 2×3×2 image of the T3 example, middle axis (a genuine transposition:
    `indices = rindices = [0, 2, 1]`, transposed shape `[2, 2, 3]`, view `[4, 3]`); the pixel `(1, 2, 0)`
    lies in row 2, which is `[7, 9, 11]` = `lineThrough`; the whole pipeline with the kernel `[2, −1]` in
    mirror mode returns the values of the T3 example. -/
example :
    let f : Img Int := { shape := [2, 3, 2], data := #[1, 2, 3, 4, 5, 6, 7, 8, 9, 10, 11, 12] }
    moveLast 3 1 = [0, 2, 1] ∧ invPerm (moveLast 3 1) = [0, 2, 1] ∧
    (transposeImg (moveLast 3 1) f).shape = [2, 2, 3] ∧
    (rowsView f 1).shape = [4, 3] ∧ (rowsView f 1).data = #[1, 3, 5, 2, 4, 6, 7, 9, 11, 8, 10, 12] ∧
    rowIndex f.shape 1 [1, 2, 0] = 2 ∧
    (rowOf (rowsView f 1) 2).data = #[7, 9, 11] ∧ (lineThrough f 1 [1, 2, 0]).data = #[7, 9, 11] ∧
    (unrowsView f.shape 1 (rowsView f 1)).data = f.data ∧
    (convolve1dViaTranspose id .mirror f 1 #[2, -1]).shape = [2, 3, 2] ∧
    (convolve1dViaTranspose id .mirror f 1 #[2, -1]).data = #[5, 6, -1, 0, 1, 2, 11, 12, 5, 6, 7, 8] ∧
    (convolve1dViaTranspose id .mirror f 1 #[2, -1]).data.toList =
      (convolve1dG id (fun x => x == 0) .mirror f true 1 #[2, -1]).1 := by
  decide +kernel

/-- **C06-T3e (the branch `axis == ndim − 1` of the fast path: no `tmp`).** When the axis is the last one
`indices` is the identity (`moveLast (k+1) k = range (k+1)`), and the Python code lets the C kernel write
straight into `out.reshape((-1, N))`, a 2-D view of the C-contiguous output: `out` is then the 2-D buffer
read with the shape of `f` (`convolve1dLastAxis` = `reshapeImg f.shape tmp`; numpy semantics assumed: a
reshape of a C-contiguous array is a view with the same C-order content). For every rank ≥ 1, shape, kernel
shorter than the last axis, mode and cast, this equals the tabulated cast defining sum with the kernel
embedded on the last axis, i.e. `convolve1dG` on either path — the same list as the general branch of T3d
(`unrowsView` on the last axis is that plain reshape, `unrowsView_last`). -/
theorem C06_convolve1d_last_axis_branch {R : Type} [CommSemiring R] (cast : R → R) (isZero : R → Bool)
    (hz : ∀ x, isZero x = true → x = 0) (m : Mode) (f : Img R) (w : Array R) (hn : 0 < f.shape.length)
    (hw : w.size < f.shape.getD (f.shape.length - 1) 1) :
    moveLast f.shape.length (f.shape.length - 1) = List.range f.shape.length ∧
    (convolve1dLastAxis cast m f w).shape = f.shape ∧
    (convolve1dLastAxis cast m f w).data.toList =
      ((allPos f.shape).map fun p =>
        cast (convSpec m f (embedShape f.shape.length (f.shape.length - 1) w.size) w p)) ∧
    (convolve1dLastAxis cast m f w).data.toList =
      (convolve1dViaTranspose cast m f (f.shape.length - 1) w).data.toList ∧
    (∀ contig, (convolve1dLastAxis cast m f w).data.toList =
      (convolve1dG cast isZero m f contig (f.shape.length - 1) w).1) := by
  have hax : f.shape.length - 1 < f.shape.length := by omega
  obtain ⟨h1, h2⟩ := lastAxis_eq_spec cast m f w hn hw
  have hid : moveLast f.shape.length (f.shape.length - 1) = List.range f.shape.length := by
    have := moveLast_last (f.shape.length - 1)
    rwa [Nat.sub_add_cancel hn] at this
  refine ⟨hid, h1, h2, ?_, fun contig => ?_⟩
  · rw [h2, (viaTranspose_eq_spec cast m f _ w hax hw).2]
  · rw [h2, convolve1dG_eq_spec cast isZero hz m f contig _ w hax]

/-- non-vacuity of T3e: the same 2×3×2 image along its last axis (view `[6, 2]`, rows = memory rows),
    kernel `[3]` of length 1 < 2, nearest mode. -/
example :
    let f : Img Int := { shape := [2, 3, 2], data := #[1, 2, 3, 4, 5, 6, 7, 8, 9, 10, 11, 12] }
    moveLast 3 2 = [0, 1, 2] ∧ (rowsView f 2).shape = [6, 2] ∧ (rowsView f 2).data = f.data ∧
    (convolve1dLastAxis id .nearest f #[3]).data = #[3, 6, 9, 12, 15, 18, 21, 24, 27, 30, 33, 36] ∧
    (convolve1dLastAxis id .nearest f #[3]).data.toList =
      (convolve1dG id (fun x => x == 0) .nearest f true 2 #[3]).1 := by
  decide +kernel

/-- **C06-T4e (separability: `gaussian_filter` = ONE n-D convolution with the outer-product kernel).**
With exact arithmetic and no rounding between the passes (commutative semiring, identity output cast —
the float64 / exactly-representable case), for every rank, every shape (axes shorter than the kernels
included), arbitrary per-axis weights `ws axis` (hence every σ and every derivative order per axis) and
**every one of the six border modes**: the model of `gaussian_filter` — one `convolve1d` pass per axis,
axes `0, 1, …` in turn — keeps the shape and at every pixel `p` equals the n-D defining sum
`Σ_j W[j]·f[border(p + j − c)]` with the outer-product kernel of shape `(len w_0, …, len w_{d−1})`,
`W[j] = Π_a w_a[j_a]` (`outerKernel`), `c = shape(W)/2`; by T1 this is what `convolve(f, W, mode)`
accumulates; for rank ≥ 1 the returned buffer is that tabulated sum. Reason: the border rule acts
coordinate-wise, so the composed passes read `f` at `(border(p_0 + j_0 − c_0), …)`, and a sample outside
on some axis in the `constant` (cval is 0: any other value is refused by `_check_mode`) / `ignore` modes
contributes nothing in either form (nothing is renormalised) — no mode fails. What does fail is
separability *with rounding between the passes* (integer or float32 output dtype, or float64 round-off):
see the example below. -/
theorem C06_gaussian_separable {R : Type} [CommSemiring R] (isZero : R → Bool)
    (hz : ∀ x, isZero x = true → x = 0) (m : Mode) (f : Img R) (ws : Nat → Array R) :
    (outerShape f.shape.length ws = (List.range f.shape.length).map fun a => (ws a).size) ∧
    (∀ i < shapeSize (outerShape f.shape.length ws), (outerKernel f.shape.length ws).getD i 0 =
      ((List.range f.shape.length).map fun a =>
        (ws a).getD ((unravel (outerShape f.shape.length ws) i).getD a 0) 0).prod) ∧
    (gaussianFilterG id isZero m f ws).shape = f.shape ∧
    (∀ p, inside f.shape p = true →
      (gaussianFilterG id isZero m f ws).getD p 0 =
        convSpec m f (outerShape f.shape.length ws) (outerKernel f.shape.length ws) p ∧
      (gaussianFilterG id isZero m f ws).getD p 0 =
        convAcc m f (support isZero (outerShape f.shape.length ws) (outerKernel f.shape.length ws)) p) ∧
    (0 < f.shape.length → (gaussianFilterG id isZero m f ws).data.toList =
      (allPos f.shape).map (convSpec m f (outerShape f.shape.length ws) (outerKernel f.shape.length ws))) := by
  obtain ⟨h1, h2⟩ := gaussianFilterG_separable isZero hz m f ws
  refine ⟨rfl, fun i hi => outerKernel_getD _ ws i hi, h1, fun p hp => ⟨h2 p hp, ?_⟩,
    gaussianFilterG_separable_list isZero hz m f ws⟩
  rw [h2 p hp, C06_convolve_eq_spec isZero hz m f (inside_dims_pos _ _ hp)]

/-- non-vacuity of T4e: a 2×3 image, kernels `[1, 2, −3, 5]` (longer than axis 0) and `[2, −1, 7]`, the
    4×3 outer-product kernel; the two passes equal the single 2-D defining sum in mirror mode and in
    ignore mode (samples dropped on either axis). -/
example :
    let f : Img Int := { shape := [2, 3], data := #[1, 2, 3, 4, 5, 6] }
    let ws : Nat → Array Int := fun a => if a = 0 then #[1, 2, -3, 5] else #[2, -1, 7]
    outerShape 2 ws = [4, 3] ∧ outerKernel 2 ws = #[2, -1, 7, 4, -2, 14, -6, 3, -21, 10, -5, 35] ∧
    (gaussianFilterG id (fun x => x == 0) .mirror f ws).data.toList = [253, 273, 243, 37, 57, 27] ∧
    (allPos f.shape).map (convSpec .mirror f (outerShape 2 ws) (outerKernel 2 ws)) =
      [253, 273, 243, 37, 57, 27] ∧
    (gaussianFilterG id (fun x => x == 0) .ignore f ws).data.toList = [116, 162, 17, -67, -93, -10] ∧
    (allPos f.shape).map (convSpec .ignore f (outerShape 2 ws) (outerKernel 2 ws)) =
      [116, 162, 17, -67, -93, -10] := by
  decide +kernel

/-- where separability fails: a rounding output cast (here: round down to a multiple of 4, standing for
    an integer / float32 output dtype) is applied after *each* pass, so the two passes differ from the
    rounded single 2-D sum (same image and kernels as above, mirror mode). -/
example :
    let f : Img Int := { shape := [2, 3], data := #[1, 2, 3, 4, 5, 6] }
    let ws : Nat → Array Int := fun a => if a = 0 then #[1, 2, -3, 5] else #[2, -1, 7]
    let c : Int → Int := fun x => x / 4 * 4
    (gaussianFilterG c (fun x => x == 0) .mirror f ws).data.toList = [228, 272, 216, 40, 44, 28] ∧
    ((allPos f.shape).map fun p => c (convSpec .mirror f (outerShape 2 ws) (outerKernel 2 ws) p)) =
      [252, 272, 240, 36, 56, 24] := by
  decide +kernel

/-- **C06 (tie to the source, generated tables).** The code by which the models number a border mode is the code the
current source gives it in both places: `mode2int` of `mahotas/_filters.py` (what the wrappers send) and
`enum ExtendMode` of `mahotas/_filters.h` (what `fix_offset` switches on); neither table has an entry the models do
not know. Both tables are regenerated from the source on every run. -/
theorem C06_mode_codes_agree (m : Mahotas.Mode) :
    (Mahotas.Generated.pyModes.lookup m.name = some m.code ∧ Mahotas.Generated.cppModes.lookup m.name = some m.code) ∧
    Mahotas.Generated.pyModes.length = 6 ∧ Mahotas.Generated.cppModes.length = 6 :=
  ⟨Mahotas.mode_codes_agree m, Mahotas.mode_tables_complete.1, Mahotas.mode_tables_complete.2.1⟩

/-- non-vacuity: `reflect` is mode 2 in both tables -/
example : Mahotas.Generated.pyModes.lookup (Mahotas.Mode.reflect).name = some 2 := by decide

/-! ## Round 4: the C cast of the accumulator; `edge.sobel` / `edge.dog` / `laplacian_2D` as compositions -/

/-- **C06-T6 (the cast to `f`'s dtype: truncation toward zero, on its domain).** `castIntG floor ceil 0 lo hi1` is the
definition the driver runs (at `Float`, with `Float.floor` / `Float.ceil`, for the eight integer dtypes: `dtBounds`) to
decide WHICH cells are compared with the real code and what value is expected there. Over any ordered field with a
floor function, for every integer range `[lo, hi1)` and every accumulator `x`:
(i) the cast is defined exactly when the truncation `truncZ x` (`⌈x⌉` for `x < 0`, `⌊x⌋` otherwise) is in range, and then
its value is that integer — otherwise `none`: the C++ standard leaves the conversion undefined and the check skips the
cell;
(ii) truncation is toward zero: for `x ≥ 0`, `0 ≤ t ≤ x < t + 1`; for `x < 0`, `t − 1 < x ≤ t ≤ 0` — so a negative
accumulator above `−1` becomes `0` and is DEFINED for unsigned dtypes;
(iii) an integer-valued accumulator inside the range is stored unchanged. -/
theorem C06_cast_in_range {α : Type} [Field α] [LinearOrder α] [IsStrictOrderedRing α] [FloorRing α]
    (lo hi1 : ℤ) (x : α) :
    (castIntG (floorA (α := α)) ceilA 0 (lo : α) (hi1 : α) x =
      if lo ≤ truncZ x ∧ truncZ x < hi1 then some ((truncZ x : ℤ) : α) else none) ∧
    (0 ≤ x → 0 ≤ truncZ x ∧ ((truncZ x : ℤ) : α) ≤ x ∧ x < (truncZ x : α) + 1) ∧
    (x < 0 → truncZ x ≤ 0 ∧ x ≤ ((truncZ x : ℤ) : α) ∧ (truncZ x : α) - 1 < x) ∧
    (∀ n : ℤ, lo ≤ n → n < hi1 →
      castIntG (floorA (α := α)) ceilA 0 (lo : α) (hi1 : α) ((n : ℤ) : α) = some ((n : ℤ) : α)) := by
  refine ⟨castIntG_eq lo hi1 x, truncZ_nonneg x, truncZ_neg x, fun n h1 h2 => ?_⟩
  rw [castIntG_eq, truncZ_of_int, if_pos ⟨h1, h2⟩]

/-- **C06-T6a (the `Float` run is that definition).** For each of the eight integer dtype names the driver's `castTo`
is `truncG Float.floor Float.ceil 0`, and wherever `castDefined` says the conversion is defined the value the driver
prints is the value of `castIntG Float.floor Float.ceil 0 lo hi1` with `(lo, hi1) = dtBounds dt` (`hi1 = max + 1`, a power
of two, exactly representable). `f64`, `f32` and `b1` have no bounds: their conversions are defined for every double. -/
theorem C06_cast_float_tie (dt : String) (x lo hi1 : Float) (hb : dtBounds dt = some (lo, hi1)) :
    castTo dt x = truncG Float.floor Float.ceil 0 x ∧
    (castDefined dt x = true → castIntG Float.floor Float.ceil 0 lo hi1 x = some (castTo dt x)) ∧
    dtBounds "f64" = none ∧ dtBounds "f32" = none ∧ dtBounds "b1" = none :=
  ⟨castTo_int dt x (by rw [hb]; rfl), castDefined_some dt x lo hi1 hb, rfl, rfl, rfl⟩

/-- non-vacuity over ℚ: `−1/2 ↦ 0` is defined for `uint8`, `−3/2` and `256` are not, `511/2 ↦ 255`, and `int8` keeps `−128` -/
example :
    castIntG (floorA (α := ℚ)) ceilA 0 ((0 : ℤ) : ℚ) ((256 : ℤ) : ℚ) (-1 / 2) = some 0 ∧
    castIntG (floorA (α := ℚ)) ceilA 0 ((0 : ℤ) : ℚ) ((256 : ℤ) : ℚ) (-3 / 2) = none ∧
    castIntG (floorA (α := ℚ)) ceilA 0 ((0 : ℤ) : ℚ) ((256 : ℤ) : ℚ) 256 = none ∧
    castIntG (floorA (α := ℚ)) ceilA 0 ((0 : ℤ) : ℚ) ((256 : ℤ) : ℚ) (511 / 2) = some 255 ∧
    castIntG (floorA (α := ℚ)) ceilA 0 ((-128 : ℤ) : ℚ) ((128 : ℤ) : ℚ) (-128) = some (-128) := by
  simp only [castIntG_eq, truncZ]
  norm_num [Int.floor_eq_iff, Int.ceil_eq_iff]

/-- **C06 (`edge.sobel`: the tables and the calls, regenerated from `edge.py`).** Both filters are 3×3 with divisor 8; the
numerators of each sum to 0; the vertical filter weighs the rows `(−1, 0, +1)` by `(1, 2, 1)` and the horizontal one the
columns; `sobel` convolves with each of them once, in `nearest` mode. -/
theorem C06_sobel_tables :
    Generated.vsobelShape = [3, 3] ∧ Generated.hsobelShape = [3, 3] ∧
    Generated.vsobelDiv = 8 ∧ Generated.hsobelDiv = 8 ∧
    Generated.vsobelNum = [-1, -2, -1, 0, 0, 0, 1, 2, 1] ∧ Generated.hsobelNum = [-1, 0, 1, -2, 0, 2, -1, 0, 1] ∧
    Generated.vsobelNum.sum = 0 ∧ Generated.hsobelNum.sum = 0 ∧
    Generated.sobelCalls = [("_hsobel_filter", "nearest"), ("_vsobel_filter", "nearest")] := by
  decide

/-- **C06 (`sobel` on constants and ramps, exact arithmetic).** Over any field in which `8 ≠ 0`, for a 2-D image `f` of
shape `N0 × N1` and the generic kernel with the Sobel weights of `edge.py` in `nearest` mode (`sobelLinearG` is the list
of these accumulators over all pixels):
(i) on a constant image both responses are 0 at every pixel, border included;
(ii) on an affine image `f[y, x] = a·y + b·x + c` the vertical response is exactly the slope `a` along axis 0 and the
horizontal response exactly the slope `b` along axis 1 at every interior pixel (`1 ≤ y ≤ N0 − 2`, `1 ≤ x ≤ N1 − 2`):
the divisor 8 normalises the kernels to unit gain, and the orientation is "+ towards increasing index" (the kernel is
applied as a correlation, `f[p + j − c]`). So `sobel(just_filter=True)` of such a ramp is `a² + b²` in the interior. -/
theorem C06_sobel_constant_and_ramp {K : Type} [Field K] (h8 : (8 : K) ≠ 0) (isZero : K → Bool)
    (hz : ∀ x, isZero x = true → x = 0) (f : Img K) (N0 N1 : Nat) (hf : f.shape = [N0, N1]) :
    (∀ c, (∀ q, inside f.shape q = true → f.getD q 0 = c) → ∀ p, inside f.shape p = true →
      convAcc .nearest f (support isZero Generated.vsobelShape
        (sobelWeightsG (Int.cast : Int → K) Generated.vsobelNum Generated.vsobelDiv)) p = 0 ∧
      convAcc .nearest f (support isZero Generated.hsobelShape
        (sobelWeightsG (Int.cast : Int → K) Generated.hsobelNum Generated.hsobelDiv)) p = 0) ∧
    (∀ a b c : K, (∀ y x : Int, 0 ≤ y → y < N0 → 0 ≤ x → x < N1 → f.getD [y, x] 0 = a * (y : K) + b * (x : K) + c) →
      ∀ y x : Int, 1 ≤ y → y + 1 < N0 → 1 ≤ x → x + 1 < N1 →
      convAcc .nearest f (support isZero Generated.vsobelShape
        (sobelWeightsG (Int.cast : Int → K) Generated.vsobelNum Generated.vsobelDiv)) [y, x] = a ∧
      convAcc .nearest f (support isZero Generated.hsobelShape
        (sobelWeightsG (Int.cast : Int → K) Generated.hsobelNum Generated.hsobelDiv)) [y, x] = b) := by
  have hv : sobelWeightsG (Int.cast : Int → K) Generated.vsobelNum Generated.vsobelDiv =
      #[(-1 : K) / 8, -2 / 8, -1 / 8, 0 / 8, 0 / 8, 0 / 8, 1 / 8, 2 / 8, 1 / 8] := by
    simp [sobelWeightsG, Generated.vsobelNum, Generated.vsobelDiv]
  have hh : sobelWeightsG (Int.cast : Int → K) Generated.hsobelNum Generated.hsobelDiv =
      #[(-1 : K) / 8, 0 / 8, 1 / 8, -2 / 8, 0 / 8, 2 / 8, -1 / 8, 0 / 8, 1 / 8] := by
    simp [sobelWeightsG, Generated.hsobelNum, Generated.hsobelDiv]
  have hshape : Generated.vsobelShape = [3, 3] ∧ Generated.hsobelShape = [3, 3] := ⟨rfl, rfl⟩
  rw [hv, hh, hshape.1, hshape.2]
  refine ⟨fun c hc p hp => ?_, fun a b c hf' y x hy0 hy1 hx0 hx1 => ?_⟩
  · have hs := inside_dims_pos _ _ hp
    have hl : p.length = f.shape.length := inside_length _ _ hp
    rw [C06_convolve_eq_spec isZero hz .nearest f hs, C06_convolve_eq_spec isZero hz .nearest f hs,
      convSpec_const .nearest ⟨by decide, by decide⟩ f c hc hs [3, 3] _ p hl (by rw [hf]; rfl),
      convSpec_const .nearest ⟨by decide, by decide⟩ f c hc hs [3, 3] _ p hl (by rw [hf]; rfl)]
    have h9 : List.range (shapeSize [3, 3]) = [0, 1, 2, 3, 4, 5, 6, 7, 8] := by decide
    rw [h9]
    constructor <;> (simp [Array.getD]; ring_nf; simp)
  · have hs : ∀ d ∈ f.shape, 0 < d := by
      rw [hf]; intro d hd
      simp only [List.mem_cons, List.not_mem_nil, or_false] at hd
      rcases hd with rfl | rfl <;> omega
    rw [C06_convolve_eq_spec isZero hz .nearest f hs, C06_convolve_eq_spec isZero hz .nearest f hs,
      convSpec33_interior f N0 N1 hf _ y x ⟨hy0, hy1⟩ ⟨hx0, hx1⟩,
      convSpec33_interior f N0 N1 hf _ y x ⟨hy0, hy1⟩ ⟨hx0, hx1⟩]
    rw [hf' (y - 1) (x - 1) (by omega) (by omega) (by omega) (by omega),
      hf' (y - 1) x (by omega) (by omega) (by omega) (by omega),
      hf' (y - 1) (x + 1) (by omega) (by omega) (by omega) (by omega),
      hf' y (x - 1) (by omega) (by omega) (by omega) (by omega),
      hf' y x (by omega) (by omega) (by omega) (by omega),
      hf' y (x + 1) (by omega) (by omega) (by omega) (by omega),
      hf' (y + 1) (x - 1) (by omega) (by omega) (by omega) (by omega),
      hf' (y + 1) x (by omega) (by omega) (by omega) (by omega),
      hf' (y + 1) (x + 1) (by omega) (by omega) (by omega) (by omega)]
    simp only [Array.getD, List.size_toArray, List.length_cons, List.length_nil]
    constructor <;> (simp; field_simp; ring)

/-- non-vacuity of the Sobel theorem over ℚ: the ramp `f[y, x] = 2y + x` on 3×4 — interior pixels `(1,1)`, `(1,2)` get
exactly `(2, 1)` (border pixels do not: the `nearest` extension flattens the ramp), `just_filter` output `2² + 1² = 5`
there; a constant image gives 0 everywhere; the hypotheses of the theorem hold for this image. -/
example :
    sobelLinearG (fun x => x == 0) (Int.cast : Int → ℚ) (⟨[3, 4], #[0, 1, 2, 3, 2, 3, 4, 5, 4, 5, 6, 7]⟩ : Img ℚ) =
      ([1, 1, 1, 1, 2, 2, 2, 2, 1, 1, 1, 1], [1 / 2, 1, 1, 1 / 2, 1 / 2, 1, 1, 1 / 2, 1 / 2, 1, 1, 1 / 2]) ∧
    sobelFilteredG (fun x => x == 0) (Int.cast : Int → ℚ) (⟨[3, 4], #[0, 1, 2, 3, 2, 3, 4, 5, 4, 5, 6, 7]⟩ : Img ℚ) =
      [5 / 4, 2, 2, 5 / 4, 17 / 4, 5, 5, 17 / 4, 5 / 4, 2, 2, 5 / 4] ∧
    sobelLinearG (fun x => x == 0) (Int.cast : Int → ℚ) (⟨[2, 2], #[5, 5, 5, 5]⟩ : Img ℚ) = ([0, 0, 0, 0], [0, 0, 0, 0]) := by
  decide +kernel
example : convAcc .nearest (⟨[3, 4], #[0, 1, 2, 3, 2, 3, 4, 5, 4, 5, 6, 7]⟩ : Img ℚ)
    (support (fun x => x == 0) Generated.vsobelShape
      (sobelWeightsG (Int.cast : Int → ℚ) Generated.vsobelNum Generated.vsobelDiv)) [1, 2] = 2 :=
  ((C06_sobel_constant_and_ramp (K := ℚ) (by norm_num) (fun x => x == 0) (fun x h => by simpa using h)
    ⟨[3, 4], #[0, 1, 2, 3, 2, 3, 4, 5, 4, 5, 6, 7]⟩ 3 4 rfl).2 2 1 0
    (by
      intro y x hy0 hy1 hx0 hx1
      have hy : y = 0 ∨ y = 1 ∨ y = 2 := by omega
      have hx : x = 0 ∨ x = 1 ∨ x = 2 ∨ x = 3 := by omega
      rcases hy with rfl | rfl | rfl <;> rcases hx with rfl | rfl | rfl | rfl <;> decide +kernel)
    1 2 (by decide) (by decide) (by decide) (by decide)).1

/-- **C06 (`edge.dog` and `laplacian_2D` on constants, exact arithmetic).** `dogG` is `G2 − G1` element by element with
`G_i = gaussian_filter(img, σ_i, mode='nearest')` (definitional). On a constant image of any rank, for ANY two families of
order-0 Gaussian weights (any two `σ`, truncation radii and even positive sampled functions per axis), both smoothed images
equal the constant at every pixel, so their difference — the DoG response before the zero-crossing search — is 0
everywhere; no zero crossing can be reported on a flat image. (In `Float` the two smoothings differ by round-off of
order 1e-16·|c|; the correspondence run compares `dog(just_filter=True)` with the model within 1e-11.) -/
theorem C06_dog_constant {K : Type} [Field K] [LinearOrder K] [IsStrictOrderedRing K]
    (isZero : K → Bool) (hz : ∀ x, isZero x = true → x = 0) (f : Img K) (c : K)
    (hc : ∀ q, inside f.shape q = true → f.getD q 0 = c)
    (e1 e2 : Nat → K → K) (s1 s2 : Nat → K) (lw1 lw2 : Nat → Nat)
    (he1 : ∀ ax x, e1 ax (-x) = e1 ax x) (hp1 : ∀ ax x, 0 < e1 ax x)
    (he2 : ∀ ax x, e2 ax (-x) = e2 ax x) (hp2 : ∀ ax x, 0 < e2 ax x) :
    (∀ w1 w2 : Nat → Array K, dogG isZero f w1 w2 =
      List.zipWith (fun g2 g1 => g2 - g1) (gaussianFilterG id isZero .nearest f w2).data.toList
        (gaussianFilterG id isZero .nearest f w1).data.toList) ∧
    ∀ q, inside f.shape q = true →
      (gaussianFilterG id isZero .nearest f fun ax => gaussWeightsG (Nat.cast : Nat → K) (e2 ax) (s2 ax) (lw2 ax) 0).getD q 0 -
      (gaussianFilterG id isZero .nearest f fun ax => gaussWeightsG (Nat.cast : Nat → K) (e1 ax) (s1 ax) (lw1 ax) 0).getD q 0
        = 0 := by
  refine ⟨fun _ _ => rfl, fun q hq => ?_⟩
  have h := (C06_gaussian_filter_constant isZero hz .nearest ⟨by decide, by decide⟩ f c hc).2
  rw [((h e2 s2 lw2 (fun _ => 0) he2 hp2 q hq).1 (fun _ _ => rfl)),
    ((h e1 s1 lw1 (fun _ => 0) he1 hp1 q hq).1 (fun _ _ => rfl)), sub_self]

/-- **C06 (`gaussian_filter` with scalar / sequence `sigma` and `order`).** `normalizeSeq` is `_normalize_sequence`: a scalar
stands for the same value on every axis, a sequence (list or tuple) must have exactly one entry per axis and is then used as
it is, any other length is the `ValueError`. Hence `gaussianFilterPy` — `gaussian_filter` from its Python arguments —
is the fold of `C06_gaussian_filter_is_fold` with the weights `gaussWeights sigmas[axis] orders[axis]` on axis `axis`
(per-axis sigmas AND per-axis orders), it raises exactly when one of the two sequences has the wrong length, and with two
scalars every axis uses the same weights `gaussWeights sigma order`. -/
theorem C06_gaussian_filter_tuple (dt : String) (m : Mode) (f : Img Float) :
    (∀ {α : Type} (ndim : Nat) (v : α), normalizeSeq ndim (.scalar v) = some (List.replicate ndim v)) ∧
    (∀ {α : Type} (ndim : Nat) (vs : List α), normalizeSeq ndim (.seq vs) = if vs.length = ndim then some vs else none) ∧
    (∀ (ss : List Float) (os : List Nat), ss.length = f.shape.length → os.length = f.shape.length →
      gaussianFilterPy dt m f (.seq ss) (.seq os) = some (gaussianFilterModel dt m f true ss os) ∧
      gaussianFilterModel dt m f true ss os =
        ((List.range f.shape.length).foldl (fun cur ax => gaussianPass (castTo dt) fIsZero m cur ax
          ((gaussWeights (ss.getD ax 1.0) (os.getD ax 0)).map (castTo dt))) f).data.toList) ∧
    (∀ (ss : List Float) (os : List Nat), ss.length ≠ f.shape.length ∨ os.length ≠ f.shape.length →
      gaussianFilterPy dt m f (.seq ss) (.seq os) = none) ∧
    (∀ (sigma : Float) (order : Nat),
      gaussianFilterPy dt m f (.scalar sigma) (.scalar order) =
        some (gaussianFilterModel dt m f true (List.replicate f.shape.length sigma) (List.replicate f.shape.length order)) ∧
      ∀ ax, ax < f.shape.length → (List.replicate f.shape.length sigma).getD ax 1.0 = sigma ∧
        (List.replicate f.shape.length order).getD ax 0 = order) := by
  refine ⟨fun _ _ => rfl, fun _ _ => rfl, fun ss os hs ho => ⟨?_, rfl⟩, fun ss os h => ?_, fun sigma order => ⟨rfl, fun ax hax => ?_⟩⟩
  · simp only [gaussianFilterPy, normalizeSeq, hs, ho, if_true]
  · simp only [gaussianFilterPy, normalizeSeq]
    rcases h with h | h
    · by_cases ho : os.length = f.shape.length <;> simp [h, ho]
    · simp [h]
  · simp [List.getD_eq_getElem?_getD, hax]

/-- non-vacuity: the three argument forms on a rank-2 array -/
example : normalizeSeq 2 (.scalar (3 : Nat)) = some [3, 3] ∧ normalizeSeq 2 (.seq [1, 0]) = some [1, 0] ∧
    normalizeSeq 2 (.seq [(1 : Nat)]) = none ∧ normalizeSeq (α := Nat) 0 (.seq []) = some [] := by decide

/-- **C06-T5b (`laplacian_2D` is exact on quadratics).** `laplacian_2D(array, alpha)` is `convolve(array as double,
laplacianWeightsG alpha, mode='nearest')` (the driver's `kind=laplacian`). Over any field, for every `alpha` with
`alpha + 1 ≠ 0` and every 2-D image that is a quadratic polynomial of the pixel coordinates,
`f[y, x] = a·y² + b·x² + c·x·y + d·y + e·x + g`, the generic kernel with these nine weights returns at every interior
pixel exactly `2a + 2b` — the true Laplacian `f_yy + f_xx`, independently of `alpha` (the diagonal and axial second
differences are mixed with weights that always add up to one) — in particular 0 on every affine image. -/
theorem C06_laplacian_quadratic {K : Type} [Field K] (alpha : K) (ha : alpha + 1 ≠ 0) (isZero : K → Bool)
    (hz : ∀ x, isZero x = true → x = 0) (f : Img K) (N0 N1 : Nat) (hf : f.shape = [N0, N1])
    (a b c d e g : K)
    (hq : ∀ y x : Int, 0 ≤ y → y < N0 → 0 ≤ x → x < N1 →
      f.getD [y, x] 0 = a * (y : K) * (y : K) + b * (x : K) * (x : K) + c * (x : K) * (y : K) + d * (y : K) + e * (x : K) + g)
    (y x : Int) (hy0 : 1 ≤ y) (hy1 : y + 1 < N0) (hx0 : 1 ≤ x) (hx1 : x + 1 < N1) :
    convAcc .nearest f (support isZero [3, 3] (laplacianWeightsG (Nat.cast : Nat → K) alpha)) [y, x] = 2 * a + 2 * b := by
  have hs : ∀ d ∈ f.shape, 0 < d := by
    rw [hf]; intro d hd
    simp only [List.mem_cons, List.not_mem_nil, or_false] at hd
    rcases hd with rfl | rfl <;> omega
  rw [C06_convolve_eq_spec isZero hz .nearest f hs, convSpec33_interior f N0 N1 hf _ y x ⟨hy0, hy1⟩ ⟨hx0, hx1⟩]
  rw [hq (y - 1) (x - 1) (by omega) (by omega) (by omega) (by omega),
    hq (y - 1) x (by omega) (by omega) (by omega) (by omega),
    hq (y - 1) (x + 1) (by omega) (by omega) (by omega) (by omega),
    hq y (x - 1) (by omega) (by omega) (by omega) (by omega),
    hq y x (by omega) (by omega) (by omega) (by omega),
    hq y (x + 1) (by omega) (by omega) (by omega) (by omega),
    hq (y + 1) (x - 1) (by omega) (by omega) (by omega) (by omega),
    hq (y + 1) x (by omega) (by omega) (by omega) (by omega),
    hq (y + 1) (x + 1) (by omega) (by omega) (by omega) (by omega)]
  simp only [laplacianWeightsG, Array.getD, List.size_toArray, List.length_cons, List.length_nil]
  simp
  field_simp
  ring

/-- non-vacuity over ℚ: `f[y, x] = y² + 2x²` on 3×3, `alpha = 1/5` (the default): the centre pixel gets `2·1 + 2·2 = 6`;
the affine image `2y + x` gets 0 there. -/
example :
    convAcc .nearest (⟨[3, 3], #[0, 2, 8, 1, 3, 9, 4, 6, 12]⟩ : Img ℚ)
      (support (fun x => x == 0) [3, 3] (laplacianWeightsG (Nat.cast : Nat → ℚ) (1 / 5))) [1, 1] = 6 ∧
    convAcc .nearest (⟨[3, 3], #[0, 1, 2, 2, 3, 4, 4, 5, 6]⟩ : Img ℚ)
      (support (fun x => x == 0) [3, 3] (laplacianWeightsG (Nat.cast : Nat → ℚ) (1 / 5))) [1, 1] = 0 := by
  decide +kernel
