/-
C06 — property theorems (statements only; helper lemmas live in `Proofs/C06*.lean`).
The kernels are the polymorphic definitions of `Model/C06.lean` that the driver runs at `Float`;
here they are instantiated at an arbitrary commutative semiring `R` (ℤ, ℚ, ℝ, …), where the
"accumulation in double precision" is exact.
-/
import Mahotas.Proofs.C06
open Mahotas Mahotas.C06

/-- **C06-T1 (generic kernel = defining sum).** For every border mode (nearest, wrap, reflect, mirror,
constant 0, ignore), every image of every rank and shape with positive axis lengths, every kernel of
every shape (odd, even, larger than the image, with zeros) and every pixel `p`, the accumulator of the
model of `convolve<T>` — footprint order, zero weights dropped by `filter_iterator(compress=true)`,
neighbour offsets through `fix_offset` on each axis, flagged samples skipped — equals
`Σ_j w[j] · f[border(p + j − c)]` with `c = shape(w)/2` over all kernel positions `j`, the out-of-image
samples taken per the mathematical border rule (`borderSpec`; 0 / dropped for constant / ignore). -/
theorem C06_convolve_eq_spec {R : Type} [CommSemiring R] (isZero : R → Bool)
    (hz : ∀ x, isZero x = true → x = 0) (m : Mode) (f : Img R) (hs : ∀ d ∈ f.shape, 0 < d)
    (wshape : List Nat) (w : Array R) (p : List Int) :
    convAcc m f (support isZero wshape w) p = convSpec m f wshape w p := by
  exact (conv_fold isZero hz m f hs wshape w p _ 0).trans (zero_add _)

/-- non-vacuity: a 1-D integer image of length 2 under a length-5 asymmetric kernel with a zero, in
    reflect mode (offsets reach two periods), meets the hypotheses; both sides evaluate to the same
    non-trivial values. -/
example :
    let f : Img Int := { shape := [2], data := #[1, 10] }
    let w : Array Int := #[1, 0, 2, 3, 4]
    (∀ d ∈ f.shape, 0 < d) ∧
    (allPos f.shape).map (convAcc .reflect f (support (fun x => x == 0) [5] w)) = [82, 55] ∧
    (allPos f.shape).map (convSpec .reflect f [5] w) = [82, 55] := by
  decide
