/-
C07 — property theorems (statements only; helper lemmas live in `Proofs/C07*.lean`).
All definitions are those of `Model/C07.lean`, which the driver runs.
-/
import Mahotas.Proofs.C07
import Mahotas.Proofs.C07Order
import Mahotas.Proofs.C07Erode
import Mahotas.Proofs.C07Wrap
import Mahotas.Proofs.C07Dilate
import Mahotas.Proofs.C07Currank
import Mahotas.Proofs.C07Float
import Mahotas.Proofs.C07FloatBound
import Mahotas.Proofs.C07Mean
import Mahotas.Proofs.C07Iso
import Mahotas.Proofs.C07Defined
import Mahotas.Proofs.C07Majority
import Mahotas.Properties.C01
import Mathlib.Algebra.Order.Field.Basic
import Mathlib.Algebra.Order.Field.Rat
import Mathlib.Data.Rat.Cast.Order
import Mahotas.Proofs.Modes
open Mahotas Mahotas.C07

/-- **C07-T1 (rank filter = element of the sorted samples).** For every border mode, image of any
rank/shape with positive axis lengths, neighbourhood and rank inside `[0, N2)`, the model of
`rank_filter<T>` returns the element at index `currank` of the sorted list of the samples that the
*mathematical* border rule selects (constant: 0 for out-of-image samples; ignore: dropped), where
`currank = rank` when every sample is present and `⌊n·rank/N2⌋` otherwise. -/
theorem C07_rank_eq_sorted (m : Mode) (f : Img Int) (hs : ∀ d ∈ f.shape, 0 < d) (fp : List (List Int))
    (rank : Int) (p : List Int) (h0 : 0 ≤ rank) (h1 : rank < fp.length) :
    rankAt m f fp rank p =
      ((specSamples m f fp p).mergeSort leB)[curRank (specSamples m f fp p).length fp.length rank.toNat]? := by
  unfold rankAt
  rw [if_neg (by omega), gather_eq_specSamples m f hs]
  rfl

/-- **C07-T1' (model = executable specification)**: the model of `rank_filter` agrees with the
specification "first sample that has at most `k` smaller and more than `k` smaller-or-equal samples"
at every pixel, for every rank (also outside the range, where both are undefined). -/
theorem C07_rank_eq_spec (m : Mode) (f : Img Int) (hs : ∀ d ∈ f.shape, 0 < d) (fp : List (List Int))
    (rank : Int) (p : List Int) : rankAt m f fp rank p = rankSpecAt m f fp rank p := by
  unfold rankAt rankSpecAt
  rw [gather_eq_specSamples m f hs]
  simp only [kthSmallest_eq_nthElement]

/-- **C07-T1'' (the output is the k-th smallest sample).** With a rank inside `[0, N2)` and at least
one selected sample, the output exists, is one of the samples, has at most `k` strictly smaller and
more than `k` smaller-or-equal samples (`k` = the rescaled rank), and is the only value with this
property. -/
theorem C07_rank_is_kth_smallest (m : Mode) (f : Img Int) (hs : ∀ d ∈ f.shape, 0 < d)
    (fp : List (List Int)) (rank : Int) (p : List Int) (h0 : 0 ≤ rank) (h1 : rank < fp.length)
    (hne : specSamples m f fp p ≠ []) :
    ∃ v, rankAt m f fp rank p = some v ∧
      IsKthSmallest (specSamples m f fp p) (curRank (specSamples m f fp p).length fp.length rank.toNat) v ∧
      ∀ v', IsKthSmallest (specSamples m f fp p)
        (curRank (specSamples m f fp p).length fp.length rank.toNat) v' → v' = v := by
  have hn : 0 < (specSamples m f fp p).length := List.length_pos_iff.2 hne
  have hr : rank.toNat < fp.length := by omega
  have hk : curRank (specSamples m f fp p).length fp.length rank.toNat < (specSamples m f fp p).length := by
    unfold curRank
    split
    · rw [Nat.div_lt_iff_lt_mul (by omega)]
      exact Nat.mul_lt_mul_of_pos_left hr hn
    · rename_i h; simp only [ne_eq, Decidable.not_not] at h; omega
  obtain ⟨v, hv, hkth⟩ := nthElement_isKth _ _ hk
  refine ⟨v, ?_, hkth, fun v' h' => isKth_unique _ _ _ _ h' hkth⟩
  unfold rankAt
  rw [if_neg (by omega), gather_eq_specSamples m f hs]
  exact hv

/-- **C07-T2a (median).** When an odd number `2r+1` of samples is present, the value of rank `r`
(the rank `Bc.sum()//2` that `median_filter` passes for a 0/1 neighbourhood of `2r+1` members) has at
most `r` samples below it and at most `r` samples above it. -/
theorem C07_median_balanced (xs : List Int) (r : Nat) (v : Int) (hlen : xs.length = 2 * r + 1)
    (h : IsKthSmallest xs r v) :
    xs.countP (fun x => decide (x < v)) ≤ r ∧ xs.countP (fun x => decide (v < x)) ≤ r := by
  refine ⟨h.2.1, ?_⟩
  have hsplit := List.length_eq_countP_add_countP (fun x => decide (x ≤ v)) (l := xs)
  have heq : xs.countP (fun x => decide (v < x)) = xs.countP (fun a => ¬ (decide (a ≤ v)) = true) := by
    congr 1; funext x; simp
  have := h.2.2
  omega

/-- **C07-T2b (mean).** The model of `mean_filter<T>` divides the exact sum of the samples selected by
the border rule by their number (constant: zeros are counted; ignore: dropped samples are not). -/
theorem C07_mean_exact (m : Mode) (f : Img Int) (hs : ∀ d ∈ f.shape, 0 < d) (fp : List (List Int))
    (p : List Int) : meanParts m f fp p = meanSpecParts m f fp p := by
  unfold meanParts meanSpecParts
  rw [gather_eq_specSamples m f hs]
  simp [List.sum_eq_foldl]

/-- **C07-T3 (template_match = sum of squared differences).** At every pixel the model of
`template_match<T>` (absolute difference, squared, accumulated over every template entry, samples
through `fix_offset`) equals `Σ_j (f[border(p + j − c)] − t[j])²` over the samples the border rule
provides (none for out-of-image positions in constant/ignore), in exact integer arithmetic. -/
theorem C07_template_match_ssd (m : Mode) (f : Img Int) (hs : ∀ d ∈ f.shape, 0 < d) (tshape : List Nat)
    (t : Array Int) (p : List Int) : tmAt m f tshape t p = tmSpecAt m f tshape t p := by
  exact (tm_fold m f hs tshape t p _ 0).trans (Int.zero_add _)

/-- **C07-T4 (find).** `find2d` marks `(y, x)` iff the template fits with its top-left corner at
`(y, x)` and equals the image there, for every image position `(y, x)` — including `y = N0 − Nt0`, `x = N1 − Nt1` (flush with the
bottom/right edge) and the template equal to the whole image. -/
theorem C07_find_iff (f t : Img Int) (N0 N1 Nt0 Nt1 : Nat) (hf : f.shape = [N0, N1])
    (ht : t.shape = [Nt0, Nt1]) (y x : Nat) (hy : y < N0) (hx : x < N1) :
    (y, x) ∈ findMarks f t ↔ OccursAt f t y x := by
  unfold findMarks OccursAt
  rw [hf, ht]
  simp only [List.mem_flatMap, List.mem_map, List.mem_filter, mem_takeWhile_range, Prod.mk.injEq]
  have hm : matchesAt f t y x = true ↔ ∀ sy < Nt0, ∀ sx < Nt1,
      f.getD [((y + sy : Nat) : Int), ((x + sx : Nat) : Int)] 0 = t.getD [(sy : Int), (sx : Int)] 0 := by
    unfold matchesAt
    rw [ht]
    simp [List.all_eq_true]
  constructor
  · rintro ⟨y', ⟨_, hy2⟩, x', ⟨⟨_, hx2⟩, hmm⟩, rfl, rfl⟩
    exact ⟨N0, N1, Nt0, Nt1, rfl, rfl, hy2, hx2, hm.1 hmm⟩
  · rintro ⟨a, b, c, d, hab, hcd, hy', hx', hall⟩
    simp only [List.cons.injEq, and_true] at hab hcd
    obtain ⟨rfl, rfl⟩ := hab
    obtain ⟨rfl, rfl⟩ := hcd
    exact ⟨y, ⟨hy, hy'⟩, x, ⟨⟨hx, hx'⟩, hm.2 hall⟩, rfl, rfl⟩

/-! non-vacuity -/

/-- template equal to the whole image: the single match `(0,0)` is reported; a template in the last
    row / last column is reported at its flush position -/
example :
    let f : Img Int := { shape := [2, 3], data := #[1, 2, 3, 4, 5, 6] }
    findMarks f f = [(0, 0)] ∧
    findMarks f { shape := [1, 2], data := #[5, 6] } = [(1, 1)] ∧
    findMarks f { shape := [2, 1], data := #[3, 6] } = [(0, 2)] := by
  decide

/-- rank filter in ignore mode at a corner pixel: 3 of 5 cross samples present, rank 2 of 5 rescales
    to ⌊3·2/5⌋ = 1; template match and mean on the same image -/
example :
    let f : Img Int := { shape := [2, 2], data := #[7, 1, 5, 3] }
    let fp := footprint [3, 3] #[0, 1, 0, 1, 1, 1, 0, 1, 0]
    (∀ d ∈ f.shape, 0 < d) ∧ fp.length = 5 ∧
    specSamples .ignore f fp [0, 0] = [7, 1, 5] ∧ rankSpecAt .ignore f fp 2 [0, 0] = some 5 ∧
    meanParts .ignore f fp [0, 0] = (13, 3) ∧
    tmAt .nearest f [1, 2] #[1, 5] [0, 0] = 40 := by
  decide

example : rankAt .ignore { shape := [2, 2], data := #[7, 1, 5, 3] }
    (footprint [3, 3] #[0, 1, 0, 1, 1, 1, 0, 1, 0]) 2 [0, 0] = some 5 := by
  rw [C07_rank_eq_spec _ _ (by decide)]
  decide

/-! ## Round 2: the median rank, monotonicity in the rank, extremes, mean between the extremes -/

/-- **C07-R1 (the rank `median_filter` passes is the middle one).** For a neighbourhood `Bc` whose
entries are 0 or 1 (one entry per position of its shape) the rank `Bc.sum() // 2` computed by
`median_filter` is `⌊n/2⌋`, `n` = the number of members of the neighbourhood as the filter iterator
counts them (`N2`): the middle sample for odd `n`, the upper of the two middle samples for even `n`;
it lies in `[0, n)` as soon as the neighbourhood has a member, so `rank_filter` accepts it. -/
theorem C07_median_rank_is_middle (bshape : List Nat) (bc : Array Int) (hsz : bc.size = shapeSize bshape)
    (h01 : ∀ x ∈ bc.toList, x = 0 ∨ x = 1) :
    medianRank bc = (((footprint bshape bc).length / 2 : Nat) : Int) ∧
    (0 < (footprint bshape bc).length →
      0 ≤ medianRank bc ∧ medianRank bc < ((footprint bshape bc).length : Int)) := by
  have h : medianRank bc = (((footprint bshape bc).length / 2 : Nat) : Int) := by
    unfold medianRank
    rw [foldl_add_01 _ h01, footprint_length bshape bc hsz]
    omega
  exact ⟨h, fun hpos => by rw [h]; omega⟩

/-- **C07-R1' (rank `⌊n/2⌋` is the upper median).** Among `n ≥ 1` samples the value of rank `⌊n/2⌋`
has at most `⌊n/2⌋` samples strictly below it and at most `⌊(n−1)/2⌋` strictly above it (for odd `n`
both bounds are `(n−1)/2`: the median; for even `n` it is the upper of the two middle values).
Extends `C07_median_balanced` to even counts. -/
theorem C07_median_is_upper_median (xs : List Int) (v : Int) (h : IsKthSmallest xs (xs.length / 2) v) :
    xs.countP (fun x => decide (x < v)) ≤ xs.length / 2 ∧
    xs.countP (fun x => decide (v < x)) ≤ (xs.length - 1) / 2 := by
  refine ⟨h.2.1, ?_⟩
  have hsplit := List.length_eq_countP_add_countP (fun x => decide (x ≤ v)) (l := xs)
  have heq : xs.countP (fun x => decide (v < x)) = xs.countP (fun a => ¬ (decide (a ≤ v)) = true) := by
    congr 1; funext x; simp
  have := h.2.2
  omega

/-- **C07-R2 (monotone in the rank).** At every pixel, in every border mode (including `ignore`, where
the rank is rescaled to `⌊n·rank/N2⌋`), the output of `rank_filter` for a rank `r` is not larger than
its output for any rank `r' ≥ r` (in particular `r' = r + 1`), whenever both are defined. -/
theorem C07_rank_monotone (m : Mode) (f : Img Int) (fp : List (List Int)) (r r' : Int) (p : List Int)
    (a b : Int) (hr : r ≤ r') (ha : rankAt m f fp r p = some a) (hb : rankAt m f fp r' p = some b) :
    a ≤ b := by
  unfold rankAt at ha hb
  split at ha
  · cases ha
  split at hb
  · cases hb
  exact nthElement_mono _ _ _ a b (curRank_mono _ _ _ _ (by omega)) ha hb

/-- **C07-R3 (extreme ranks).** When at least one sample is selected at pixel `p`, rank 0 yields the
minimum of the samples the border rule selects (a sample that is ≤ every sample — the flat grey
erosion over the neighbourhood) and the last rank `N2 − 1` yields their maximum (the flat grey
dilation over the reflected neighbourhood), in every mode; in `ignore` mode with `n < N2` samples the
last rank rescales to `⌊n(N2−1)/N2⌋ = n − 1`, still the last of the sorted samples. -/
theorem C07_rank_extremes (m : Mode) (f : Img Int) (hs : ∀ d ∈ f.shape, 0 < d) (fp : List (List Int))
    (p : List Int) (hne : specSamples m f fp p ≠ []) :
    (∃ lo, rankAt m f fp 0 p = some lo ∧ lo ∈ specSamples m f fp p ∧
      ∀ x ∈ specSamples m f fp p, lo ≤ x) ∧
    (∃ hi, rankAt m f fp ((fp.length : Int) - 1) p = some hi ∧ hi ∈ specSamples m f fp p ∧
      ∀ x ∈ specSamples m f fp p, x ≤ hi) := by
  have hn : 0 < (specSamples m f fp p).length := List.length_pos_iff.2 hne
  have hle : (specSamples m f fp p).length ≤ fp.length := by
    rw [← gather_eq_specSamples m f hs]; exact gather_length_le m f fp p
  constructor
  · obtain ⟨v, hv, _⟩ := nthElement_isKth (specSamples m f fp p) 0 hn
    refine ⟨v, ?_, nthElement_mem _ _ _ hv, nthElement_zero_le _ _ hv⟩
    unfold rankAt
    rw [if_neg (by omega), gather_eq_specSamples m f hs]
    simp only [Int.toNat_zero, curRank_zero]
    exact hv
  · obtain ⟨v, hv, _⟩ := nthElement_isKth (specSamples m f fp p) ((specSamples m f fp p).length - 1) (by omega)
    refine ⟨v, ?_, nthElement_mem _ _ _ hv, nthElement_last_ge _ _ hv⟩
    unfold rankAt
    rw [if_neg (by omega), gather_eq_specSamples m f hs]
    have h1 : ((fp.length : Int) - 1).toNat = fp.length - 1 := by omega
    simp only [h1, curRank_last _ _ hn hle]
    exact hv

/-- **C07-R4 (the mean lies between the extreme ranks).** Wherever `rank_filter` defines a value `lo`
for rank 0 and a value `hi` for the last rank, `mean_filter` has `n ≥ 1` samples and its exact
quotient `sum / n` (which the code rounds once to double) satisfies `lo ≤ sum/n ≤ hi`; in integers,
`lo·n ≤ sum ≤ hi·n`. -/
theorem C07_mean_between_min_max (m : Mode) (f : Img Int) (fp : List (List Int)) (p : List Int)
    (lo hi : Int) (hlo : rankAt m f fp 0 p = some lo)
    (hhi : rankAt m f fp ((fp.length : Int) - 1) p = some hi) :
    0 < (meanParts m f fp p).2 ∧
    lo * ((meanParts m f fp p).2 : Int) ≤ (meanParts m f fp p).1 ∧
    (meanParts m f fp p).1 ≤ hi * ((meanParts m f fp p).2 : Int) ∧
    (lo : ℚ) ≤ ((meanParts m f fp p).1 : ℚ) / ((meanParts m f fp p).2 : ℚ) ∧
    ((meanParts m f fp p).1 : ℚ) / ((meanParts m f fp p).2 : ℚ) ≤ (hi : ℚ) := by
  unfold rankAt at hlo hhi
  split at hlo
  · cases hlo
  split at hhi
  · cases hhi
  simp only [Int.toNat_zero, curRank_zero] at hlo
  have hn : 0 < (gather m f fp p).length := nthElement_lt _ _ _ hlo
  have h1 : ((fp.length : Int) - 1).toNat = fp.length - 1 := by omega
  simp only [h1, curRank_last _ _ hn (gather_length_le m f fp p)] at hhi
  have hsum : (meanParts m f fp p).1 = (gather m f fp p).sum := by
    unfold meanParts; simp [List.sum_eq_foldl]
  have hlen : (meanParts m f fp p).2 = (gather m f fp p).length := rfl
  have hA := sum_ge_of_le _ lo (nthElement_zero_le _ _ hlo)
  have hB := sum_le_of_le _ hi (nthElement_last_ge _ _ hhi)
  rw [hsum, hlen]
  have hq : (0 : ℚ) < ((gather m f fp p).length : ℚ) := by exact_mod_cast hn
  refine ⟨hn, hA, hB, ?_, ?_⟩
  · rw [le_div_iff₀ hq]; exact_mod_cast hA
  · rw [div_le_iff₀ hq]; exact_mod_cast hB

/-- **C07-R3' (rank 0 in `nearest` mode = flat grey erosion of C01).** For a signed, non-boolean dtype
(`lo ≠ 0`, so that height 0 marks a member of a structuring element), an image whose samples at `p`
lie in the dtype range, and a non-empty neighbourhood: `rank_filter(f, Bc, 0, mode='nearest')[p]` is the
value the *specification* of C01 gives for the erosion of `f` by the flat structuring element with
height 0 on the members of `Bc` (minimum over the members of `f[clamp(p + k)]`). For unsigned dtypes a
0/1 `Bc` is not a flat element for `erode` (height 1 is subtracted), so the link does not apply. -/
theorem C07_rank0_eq_flat_erosion (dt : DT) (hb : dt.isBool = false) (hlo : dt.lo ≠ 0) (f : Img Int)
    (hs : ∀ d ∈ f.shape, 0 < d) (fp : List (List Int)) (hfp : fp ≠ []) (p : List Int)
    (hrange : ∀ k ∈ fp, dt.lo ≤ f.getD (clampPos f.shape (addPos p k)) 0 ∧
      f.getD (clampPos f.shape (addPos p k)) 0 ≤ dt.hi) :
    rankAt .nearest f fp 0 p = some (C01.erodeSpecAt dt f (fp.map fun k => (k, 0)) p) := by
  have hsamp := specSamples_nearest f fp p
  have hne : specSamples .nearest f fp p ≠ [] := by
    rw [hsamp]; simpa using hfp
  obtain ⟨⟨lo, hlo1, hlo2, hlo3⟩, _⟩ := C07_rank_extremes .nearest f hs fp p hne
  rw [hlo1]
  congr 1
  unfold C01.erodeSpecAt
  have hfilt : (fp.map fun k => ((k, 0) : List Int × Int)).filter (C01.isMember dt) =
      fp.map fun k => ((k, 0) : List Int × Int) := by
    rw [List.filter_eq_self]
    intro a ha
    obtain ⟨k, _, rfl⟩ := List.mem_map.1 ha
    simp [C01.isMember, hb, Ne.symm hlo]
  rw [hfilt, List.foldl_map]
  simp only [hb, Bool.false_eq_true, if_false, Int.sub_zero]
  obtain ⟨h1, h2, h3⟩ := foldl_min_spec
    (fun k => dt.clamp (f.getD (clampPos f.shape (addPos p k)) 0)) fp dt.hi
  have hg : ∀ k ∈ fp, dt.clamp (f.getD (clampPos f.shape (addPos p k)) 0) =
      f.getD (clampPos f.shape (addPos p k)) 0 := by
    intro k hk
    have := hrange k hk
    unfold DT.clamp
    omega
  rw [hsamp] at hlo2 hlo3
  obtain ⟨k0, hk0, hk0e⟩ := List.mem_map.1 hlo2
  have hle : ∀ k ∈ fp, lo ≤ f.getD (clampPos f.shape (addPos p k)) 0 :=
    fun k hk => hlo3 _ (List.mem_map.2 ⟨k, hk, rfl⟩)
  have hv_le : fp.foldl (fun v k => min v (dt.clamp (f.getD (clampPos f.shape (addPos p k)) 0))) dt.hi ≤ lo := by
    have := h1 k0 hk0
    rw [hg k0 hk0, hk0e] at this
    exact this
  have hv_ge : lo ≤ fp.foldl (fun v k => min v (dt.clamp (f.getD (clampPos f.shape (addPos p k)) 0))) dt.hi := by
    rcases h3 with h | ⟨k, hk, h⟩
    · rw [h]
      have := (hrange k0 hk0).2
      rw [hk0e] at this
      exact this
    · rw [h, hg k hk]; exact hle k hk
  omega

/-- non-vacuity of round 2: the 3×3 cross has 5 members, `Bc.sum()//2 = 2`; on the 2×2 image in
    reflect mode every pixel has all 5 samples, ranks 0 / 2 / 4 are min / median / max of the
    samples, increasing, and the mean parts lie between; an even 2×2 neighbourhood gets rank 2 of 4. -/
example :
    let bc : Array Int := #[0, 1, 0, 1, 1, 1, 0, 1, 0]
    let f : Img Int := { shape := [2, 2], data := #[7, 1, 5, 3] }
    let fp := footprint [3, 3] bc
    bc.size = shapeSize [3, 3] ∧ (∀ x ∈ bc.toList, x = 0 ∨ x = 1) ∧ medianRank bc = 2 ∧ fp.length = 5 ∧
    specSamples .reflect f fp [0, 0] = [7, 7, 7, 1, 5] ∧
    rankSpecAt .reflect f fp 0 [0, 0] = some 1 ∧ rankSpecAt .reflect f fp 2 [0, 0] = some 7 ∧
    rankSpecAt .reflect f fp 4 [0, 0] = some 7 ∧ meanParts .reflect f fp [0, 0] = (27, 5) ∧
    medianRank #[1, 1, 1, 1] = 2 := by
  decide

/-- the hypotheses of `C07_mean_between_min_max` are met on that image: `1 ≤ 27/5 ≤ 7` -/
example :
    let f : Img Int := { shape := [2, 2], data := #[7, 1, 5, 3] }
    let fp := footprint [3, 3] #[0, 1, 0, 1, 1, 1, 0, 1, 0]
    (1 : ℚ) ≤ ((meanParts .reflect f fp [0, 0]).1 : ℚ) / ((meanParts .reflect f fp [0, 0]).2 : ℚ) := by
  intro f fp
  have h0 : rankAt .reflect f fp 0 [0, 0] = some 1 := by
    rw [C07_rank_eq_spec _ _ (by decide)]; decide
  have h4 : rankAt .reflect f fp ((fp.length : Int) - 1) [0, 0] = some 7 := by
    rw [C07_rank_eq_spec _ _ (by decide)]; decide
  exact_mod_cast (C07_mean_between_min_max .reflect f fp [0, 0] 1 7 h0 h4).2.2.2.1

/-- the hypotheses of `C07_rank0_eq_flat_erosion` are met (int8, 3×3 cross, corner pixel): both sides are 1 -/
example :
    let dt : DT := { lo := -128, hi := 127 }
    let f : Img Int := { shape := [2, 2], data := #[7, 1, 5, 3] }
    let fp := footprint [3, 3] #[0, 1, 0, 1, 1, 1, 0, 1, 0]
    dt.isBool = false ∧ dt.lo ≠ 0 ∧ (∀ d ∈ f.shape, 0 < d) ∧ fp ≠ [] ∧
    (∀ k ∈ fp, dt.lo ≤ f.getD (clampPos f.shape (addPos [0, 0] k)) 0 ∧
      f.getD (clampPos f.shape (addPos [0, 0] k)) 0 ≤ dt.hi) ∧
    C01.erodeSpecAt dt f (fp.map fun k => (k, 0)) [0, 0] = 1 ∧ rankSpecAt .nearest f fp 0 [0, 0] = some 1 := by
  decide

/-! ## Round 3: template_match in the arithmetic of the image dtype; last rank = flat grey dilation -/

/-- **C07-W1 (template_match in the dtype's wrap-around arithmetic).** `tmAtWrap dt` transliterates
`template_match<T>` operation by operation in the arithmetic of the image dtype `T`: `val - tj` (or
`tj - val`), `delta*delta` and `diff2 + delta*delta` are evaluated in the promoted type (`int`, 32 bits,
for 8- and 16-bit `T` — where `65535*65535` overflows `int` and wraps under `-fno-strict-overflow` —
and `T` itself for 32- and 64-bit `T`), each wrapping there, and `delta` and the new `diff2` are
converted back to `T`. For each of the eight integer dtypes of numpy (`uint8 … uint64`, `int8 … int64`),
every border mode, every image and template of any shape and any stored values, at every pixel this
equals the exact sum of squared differences of the model `tmAt` reduced modulo `2^bits` into the range
of `T` (`DT.wrap`) — also when the absolute difference `val - tj` itself overflows a signed `T`
(its square is still right modulo `2^bits`). Consequently, with positive axis lengths it equals the
specification `tmSpecAt` (sum of squared differences over the samples of the border rule) reduced
into `T`, and equals `tmSpecAt` itself wherever that value lies in the range of `T`; no condition on
the intermediate quantities is needed. Floating-point dtypes are not covered by this model. -/
theorem C07_template_match_wrapping (dt : DT) (hdt : dt ∈ intDTs) (m : Mode) (f : Img Int)
    (tshape : List Nat) (t : Array Int) (p : List Int) :
    tmAtWrap dt m f tshape t p = dt.wrap (tmAt m f tshape t p) ∧
    ((∀ d ∈ f.shape, 0 < d) →
      tmAtWrap dt m f tshape t p = dt.wrap (tmSpecAt m f tshape t p) ∧
      (dt.lo ≤ tmSpecAt m f tshape t p ∧ tmSpecAt m f tshape t p ≤ dt.hi →
        tmAtWrap dt m f tshape t p = tmSpecAt m f tshape t p)) := by
  obtain ⟨hb, h0, hd⟩ := intDTs_ok dt hdt
  have h := tmAtWrap_eq_wrap dt hb h0 hd m f tshape t p
  refine ⟨h, fun hs => ?_⟩
  rw [h, C07_template_match_ssd m f hs tshape t p]
  exact ⟨rfl, fun hfit => DT.wrap_in dt _ hfit⟩

/-- **C07-W1' (the same for any dtype shape).** The statement of `C07_template_match_wrapping` holds
for every non-boolean integer range `[lo, hi]` that contains 0 and whose size divides the size of the
type its operands are promoted to (true of every two's-complement type of at most 16 bits, promoted to
the 32-bit `int`, and of every wider type, which is its own promoted type). -/
theorem C07_template_match_wrapping_generic (dt : DT) (hb : dt.isBool = false)
    (h0 : dt.lo ≤ 0 ∧ 0 ≤ dt.hi) (hd : dt.card ∣ (promote dt).card) (m : Mode) (f : Img Int)
    (tshape : List Nat) (t : Array Int) (p : List Int) :
    tmAtWrap dt m f tshape t p = dt.wrap (tmAt m f tshape t p) :=
  tmAtWrap_eq_wrap dt hb h0 hd m f tshape t p

/-- **C07-W2 (template_match on bool images).** For `T = bool` (operands promoted to `int`, conversion
back to `bool` = "non-zero") and 0/1 data the wrapping model gives 1 exactly when the exact sum of
squared differences is not zero — with positive axis lengths: exactly when the template differs from
the window somewhere on the samples the border rule provides (`tmSpecAt ≠ 0`); not the sum modulo 2. -/
theorem C07_template_match_bool (m : Mode) (f : Img Int) (tshape : List Nat) (t : Array Int)
    (p : List Int) (hf : ∀ q, f.getD q 0 = 0 ∨ f.getD q 0 = 1) (ht : ∀ j, t.getD j 0 = 0 ∨ t.getD j 0 = 1) :
    tmAtWrap dtBool m f tshape t p = (if tmAt m f tshape t p = 0 then 0 else 1) ∧
    ((∀ d ∈ f.shape, 0 < d) →
      tmAtWrap dtBool m f tshape t p = if tmSpecAt m f tshape t p = 0 then 0 else 1) := by
  have h := tmAtWrap_bool m f tshape t p hf ht
  refine ⟨h, fun hs => ?_⟩
  rw [h, C07_template_match_ssd m f hs tshape t p]

/-- **C07-R3'' (the last rank in `nearest` mode = flat grey dilation of C01 by the reflected element).**
For a signed, non-boolean dtype (`lo ≠ 0`, so that height 0 marks a member of a structuring element and
nothing is added), a completely stored image with positive axis lengths, a pixel `p` of the image, a
non-empty list `fp` of neighbourhood offsets of the image's rank (for `rank_filter`: `footprint bshape Bc`,
offsets `k − shape/2` of the non-zero entries) and samples at `p` inside the dtype range:
`rank_filter(f, Bc, N2 − 1, mode='nearest')[p]` (`N2` = number of members) is the value the gather
*specification* of C01 gives for the grey dilation of `f` at `p` by the flat structuring element whose
support is the *reflection* `{−k : k ∈ fp}` of the neighbourhood through the centre, with height 0:
`max_k f[clamp(p − (−k))] = max_k f[clamp(p + k)]`. The theorem is about offset lists, so even-sized
neighbourhoods are covered: for an even axis length the reflected offsets `−(k − shape/2)` are *not*
the offsets of the flipped array `Bc[::-1]` about its own centre `shape/2` (they are shifted by one), so
`rank_filter(f, Bc, N2−1)` equals the dilation by the flipped array only for odd shapes; in terms of
supports there is no such restriction. For unsigned dtypes a 0/1 `Bc` is not a flat element for `dilate`
(height 1 is added), as for the erosion link. Where C01's theorems show that the scatter kernel
`dilateModel` equals `dilateSpecAt` (box-interior pixels, or star-shaped flat elements everywhere), the
last rank therefore equals the output of the model of `dilate` itself. -/
theorem C07_last_rank_is_flat_dilation (dt : DT) (hb : dt.isBool = false) (hlo : dt.lo ≠ 0) (f : Img Int)
    (hs : ∀ d ∈ f.shape, 0 < d) (hsz : shapeSize f.shape ≤ f.data.size) (fp : List (List Int))
    (hfp : fp ≠ []) (hlen : ∀ k ∈ fp, k.length = f.shape.length) (p : List Int)
    (hp : inside f.shape p = true)
    (hrange : ∀ k ∈ fp, dt.lo ≤ f.getD (clampPos f.shape (addPos p k)) 0 ∧
      f.getD (clampPos f.shape (addPos p k)) 0 ≤ dt.hi) :
    rankAt .nearest f fp ((fp.length : Int) - 1) p =
      some (C01.dilateSpecAt dt f (fp.map fun k => (negPos k, 0)) p) := by
  have hsamp := specSamples_nearest f fp p
  have hne : specSamples .nearest f fp p ≠ [] := by
    rw [hsamp]; simpa using hfp
  obtain ⟨_, hi, hhi1, hhi2, hhi3⟩ := C07_rank_extremes .nearest f hs fp p hne
  rw [hhi1, dilateSpecAt_flat_reflected dt hb hlo f hs hsz fp hlen p hp hrange, ← hsamp]
  congr 1
  apply Int.le_antisymm
  · exact C01.le_listMax_of_mem _ _ _ hhi2
  · apply C01.listMax_le _ _ _ _ hhi3
    rw [hsamp] at hhi2
    obtain ⟨k, hk, hke⟩ := List.mem_map.1 hhi2
    rw [← hke]
    exact (hrange k hk).1

/-- non-vacuity of `C07_template_match_wrapping`: uint8 image `[0, 250, 100]`, template `[255, 1]`
    (centre 1), nearest mode: the exact sums 65026, 127026, 9826 wrap to 2, 50, 98; int8 with
    `val − tj = 127 − (−128) = 255` (overflows int8 as −1, square 1): 65026 ↦ 2; uint16
    `65535² + 65535²` overflows `int` twice on the way and still wraps to 2; an in-range pixel agrees
    with the specification; bool: two differences give `true`, not `2 mod 2` -/
example :
    let f : Img Int := { shape := [3], data := #[0, 250, 100] }
    dtU 8 ∈ intDTs ∧ dtI 8 ∈ intDTs ∧ dtU 16 ∈ intDTs ∧ (∀ d ∈ f.shape, 0 < d) ∧
    (allPos [3]).map (tmSpecAt .nearest f [2] #[255, 1]) = [65026, 127026, 9826] ∧
    (allPos [3]).map (tmAtWrap (dtU 8) .nearest f [2] #[255, 1]) = [2, 50, 98] ∧
    tmAtWrap (dtI 8) .nearest { shape := [1], data := #[127] } [2] #[-128, -128] [0] = 2 ∧
    tmAtWrap (dtU 16) .nearest { shape := [1], data := #[65535] } [2] #[0, 0] [0] = 2 ∧
    tmSpecAt .nearest f [2] #[3, 247] [1] = 18 ∧ tmAtWrap (dtU 8) .nearest f [2] #[3, 247] [1] = 18 ∧
    tmAtWrap dtBool .nearest { shape := [2], data := #[0, 1] } [2] #[1, 0] [1] = 1 ∧
    tmAt .nearest { shape := [2], data := #[0, 1] } [2] #[1, 0] [1] = 2 := by
  decide

/-- the hypotheses of `C07_last_rank_is_flat_dilation` are met (int8, 3×3 cross, corner pixel): both
    sides are 7. The even 2×2 box has offsets `{−1,0}²`; at pixel (1,1) the last rank reads rows/columns
    0..1 (maximum 7) and so does the dilation by the reflected support `{0,1}²`, whereas the dilation by
    the unreflected support (= the support of the flipped all-ones 2×2 array) reads
    `clamp((1,1) + {0,1}²)` and yields 3. -/
example :
    let dt : DT := { lo := -128, hi := 127 }
    let f : Img Int := { shape := [2, 2], data := #[7, 1, 5, 3] }
    let fp := footprint [3, 3] #[0, 1, 0, 1, 1, 1, 0, 1, 0]
    let fp2 := footprint [2, 2] #[1, 1, 1, 1]
    dt.isBool = false ∧ dt.lo ≠ 0 ∧ (∀ d ∈ f.shape, 0 < d) ∧ shapeSize f.shape ≤ f.data.size ∧ fp ≠ [] ∧
    (∀ k ∈ fp, k.length = f.shape.length) ∧ inside f.shape [0, 0] = true ∧
    (∀ k ∈ fp, dt.lo ≤ f.getD (clampPos f.shape (addPos [0, 0] k)) 0 ∧
      f.getD (clampPos f.shape (addPos [0, 0] k)) 0 ≤ dt.hi) ∧
    C01.dilateSpecAt dt f (fp.map fun k => (negPos k, 0)) [0, 0] = 7 ∧
    rankSpecAt .nearest f fp 4 [0, 0] = some 7 ∧
    fp2 = [[-1, -1], [-1, 0], [0, -1], [0, 0]] ∧
    C01.dilateSpecAt dt f (fp2.map fun k => (negPos k, 0)) [1, 1] = 7 ∧
    rankSpecAt .nearest f fp2 3 [1, 1] = some 7 ∧
    C01.dilateSpecAt dt f (fp2.map fun k => (k, 0)) [1, 1] = 3 := by
  decide

/-- **C07-R3k (the last rank = the output of the `dilate` kernel, where C01 proves kernel = definition).**
Let `dt` be a signed integer dtype, `f` a completely stored image with positive axis lengths and all
values in the dtype range, `fp` a non-empty list of neighbourhood offsets whose reflections `−k` are
offsets of an element box `bshape` of the image's rank, and `p` a pixel of the image such that either
the reflected support is coordinate-wise star-shaped (`C01.starShaped`, true of centred crosses, boxes,
disks) or the box placed at `p` and its reflection lie inside the image (`C01.boxInterior`). Then
`rank_filter(f, Bc, N2 − 1, mode='nearest')[p]` equals the cell of `p` in the model of the generic
scatter kernel `dilate<T>` (`C01.dilateModel`, the definition C01's driver runs) applied to `f` and the
flat structuring element with support `{−k : k ∈ fp}` and height 0
(`C07_last_rank_is_flat_dilation` composed with `C01_dilate_eq_spec_where_observed`). -/
theorem C07_last_rank_eq_dilate_kernel (dt : DT) (wf : dt.WF) (hlo : dt.lo ≠ 0) (f : Img Int)
    (hs : ∀ d ∈ f.shape, 0 < d) (hsz : shapeSize f.shape ≤ f.data.size) (bshape : List Nat)
    (hl : bshape.length = f.shape.length) (fp : List (List Int)) (hfp : fp ≠ [])
    (hbox : ∀ k ∈ fp, negPos k ∈ C01.boxOffsets bshape) (hA : C01.ImageInRange dt f) (p : List Int)
    (hp : inside f.shape p = true)
    (hobs : C01.starShaped bshape (fp.map negPos) = true ∨ C01.boxInterior f.shape bshape p = true) :
    rankAt .nearest f fp ((fp.length : Int) - 1) p =
      some ((C01.dilateModel dt f (fp.map fun k => (negPos k, 0))).getD (ravelI f.shape p) dt.lo) := by
  have hb : dt.isBool = false := wf.notBool
  have hlen : ∀ k ∈ fp, k.length = f.shape.length := by
    intro k hk
    have := C01.boxOffsets_length bshape _ (hbox k hk)
    rw [← hl, ← this]; simp [negPos]
  have h0 : dt.InRange 0 := by
    have := wf.hi_pos
    rcases wf.lo_cases with h | h <;> unfold DT.InRange <;> omega
  have hmem : (fp.map fun k => ((negPos k, 0) : List Int × Int)).filter (C01.isMember dt) =
      fp.map fun k => ((negPos k, 0) : List Int × Int) := by
    rw [List.filter_eq_self]
    intro a ha
    obtain ⟨k, _, rfl⟩ := List.mem_map.1 ha
    simp [C01.isMember, hb, Ne.symm hlo]
  rw [C07_last_rank_is_flat_dilation dt hb hlo f hs hsz fp hfp hlen p hp (fun k _ => hA _)]
  congr 1
  symm
  apply C01_dilate_eq_spec_where_observed dt (Or.inl wf) f bshape _ p hs hl
  · intro kh hkh
    obtain ⟨k, hk, rfl⟩ := List.mem_map.1 hkh
    exact hbox k hk
  · exact hA
  · intro kh hkh
    obtain ⟨k, _, rfl⟩ := List.mem_map.1 hkh
    exact ⟨h0, Or.inl (Int.le_refl 0), fun h => by rw [hb] at h; cases h⟩
  · exact hp
  · rw [hmem, List.map_map, List.map_map]
    have hfl : C01.flatHeights (fp.map ((fun x : List Int × Int => x.2) ∘ fun k => (negPos k, 0))) = true := by
      cases fp with
      | nil => rfl
      | cons a t => simp [C01.flatHeights]
    have hst : (fp.map ((fun x : List Int × Int => x.1) ∘ fun k => (negPos k, 0))) = fp.map negPos := by
      apply List.map_congr_left; intro k _; rfl
    rw [hfl, hst]
    rcases hobs with h | h <;> simp [h]

/-- non-vacuity of `C07_last_rank_eq_dilate_kernel`: int8, 3×3 cross (symmetric, star-shaped) on the
    2×2 image, every pixel; the scatter kernel of C01 and the last rank both give `[7, 7, 7, 5]` -/
example :
    let dt : DT := dtI 8
    let f : Img Int := { shape := [2, 2], data := #[7, 1, 5, 3] }
    let fp := footprint [3, 3] #[0, 1, 0, 1, 1, 1, 0, 1, 0]
    dt.lo ≠ 0 ∧ (∀ d ∈ f.shape, 0 < d) ∧ shapeSize f.shape ≤ f.data.size ∧ fp ≠ [] ∧
    (∀ k ∈ fp, negPos k ∈ C01.boxOffsets [3, 3]) ∧ C01.starShaped [3, 3] (fp.map negPos) = true ∧
    (C01.dilateModel dt f (fp.map fun k => (negPos k, 0))).toList = [7, 7, 7, 5] ∧
    (allPos f.shape).map (rankSpecAt .nearest f fp 4) = [some 7, some 7, some 7, some 5] := by
  decide +kernel

/-- **C07 (tie to the source, generated tables).** The code by which the models number a border mode is the code the
current source gives it in both places: `mode2int` of `mahotas/_filters.py` (what the wrappers send) and
`enum ExtendMode` of `mahotas/_filters.h` (what `fix_offset` switches on); neither table has an entry the models do
not know. Both tables are regenerated from the source on every run. -/
theorem C07_mode_codes_agree (m : Mahotas.Mode) :
    (Mahotas.Generated.pyModes.lookup m.name = some m.code ∧ Mahotas.Generated.cppModes.lookup m.name = some m.code) ∧
    Mahotas.Generated.pyModes.length = 6 ∧ Mahotas.Generated.cppModes.length = 6 :=
  ⟨Mahotas.mode_codes_agree m, Mahotas.mode_tables_complete.1, Mahotas.mode_tables_complete.2.1⟩

/-- non-vacuity: `reflect` is mode 2 in both tables -/
example : Mahotas.Generated.pyModes.lookup (Mahotas.Mode.reflect).name = some 2 := by decide

/-! ## Round 4: `currank` in binary64, pixels without a sample, float `template_match`, `majority_filter` -/

/-- **C07-R4a (the rescaled rank, as the C++ computes it in double, is the exact floor).**
`rank_filter` computes `currank = npy_intp(n * rank / double(N2))`: the 64-bit integer product `n·rank` and `N2` are
converted to double, divided there, and the quotient is truncated. For EVERY round-to-nearest arithmetic with a 53-bit
significand (`Rounding rnd`: monotone, relative error `≤ 2^-53`, exact on integers up to `2^53` — IEEE binary64
`roundTiesToEven` is `rne53`, second part) and all sizes that occur (`n ≤ N2` gathered samples, `rank < N2`,
fewer than `2^26` members) the generic definition `curRankG` — which the driver runs with binary64 operations
(`floatRankOps`) and prints as `dmodel=` — instantiated with the rounded rational operations equals `curRank`, the
`Nat` division `⌊n·rank / N2⌋` the model and all other C07 theorems use. Hence the whole filter: `rankAtG = rankAt`. -/
theorem C07_currank_double_eq_floor (rnd : ℚ → ℚ) (hr : Mahotas.C05.Rounding rnd) :
    (∀ n N2 rank : ℕ, n ≤ N2 → rank < N2 → N2 < 2 ^ 26 →
      curRankG (ratRankOps rnd) n N2 rank = curRank n N2 rank) ∧
    (∀ (m : Mode) (f : Img Int) (fp : List (List Int)) (rank : Int) (p : List Int), fp.length < 2 ^ 26 →
      rankAtG (ratRankOps rnd) m f fp rank p = rankAt m f fp rank p) := by
  refine ⟨fun n N2 rank hn hrank hsz => curRankG_small rnd hr n N2 rank hn hrank hsz, ?_⟩
  intro m f fp rank p hsz
  unfold rankAtG rankAt
  by_cases h : rank < 0 ∨ rank ≥ (fp.length : Int)
  · rw [if_pos h, if_pos h]
  · rw [if_neg h, if_neg h]
    simp only
    rw [curRankG_small rnd hr _ _ _ (gather_length_le m f fp p) (by omega) hsz]

/-- binary64 `roundTiesToEven` is such an arithmetic, exact arithmetic another; `⌊3·2/5⌋ = 1` at a corner pixel -/
example : (∀ n N2 rank : ℕ, n ≤ N2 → rank < N2 → N2 < 2 ^ 26 →
      curRankG (ratRankOps Mahotas.C05.rne53) n N2 rank = curRank n N2 rank) ∧ curRank 3 5 2 = 1 :=
  ⟨(C07_currank_double_eq_floor _ Mahotas.C05.rne53_rounding).1, by decide⟩

/-- **C07-R4b (pixels without a sample: `ignore` mode and an all-outside neighbourhood).** For a rank inside `[0, N2)`
and offsets of the image's rank: the model of `rank_filter` is undefined at `p` (`none`: the C++ calls `nth_element` on
an empty range and stores `neighbours[0]`, a value left over from the previous pixel — nothing the statement or the
`nth_element` contract fixes) **iff** the mode is `ignore` and every member of the neighbourhood placed at `p` falls
outside the image; `mean_filter` divides by `n = 0` (NaN) in exactly the same case. In the five other modes, and
whenever some member lands inside (e.g. the centre is a member and `p` is a pixel), the value exists and is the
`k`-th smallest sample (`C07_rank_is_kth_smallest`). -/
theorem C07_no_sample_iff (m : Mode) (f : Img Int) (fp : List (List Int)) (rank : Int) (p : List Int)
    (h0 : 0 ≤ rank) (h1 : rank < fp.length) (hlen : ∀ k ∈ fp, (addPos p k).length = f.shape.length) :
    (rankAt m f fp rank p = none ↔ (m = .ignore ∧ ∀ k ∈ fp, inside f.shape (addPos p k) = false)) ∧
    ((meanParts m f fp p).2 = 0 ↔ (m = .ignore ∧ ∀ k ∈ fp, inside f.shape (addPos p k) = false)) ∧
    ((m ≠ .ignore ∨ ∃ k ∈ fp, inside f.shape (addPos p k) = true) → ∃ v, rankAt m f fp rank p = some v) := by
  have hne : fp ≠ [] := by
    intro h; rw [h] at h1; simp at h1; omega
  have hg := gather_eq_nil_iff m f fp p hlen
  have hg' : gather m f fp p = [] ↔ (m = .ignore ∧ ∀ k ∈ fp, inside f.shape (addPos p k) = false) := by
    rw [hg]; constructor
    · rintro (h | h); exact absurd h hne; exact h
    · exact Or.inr
  have hr := rankAt_none_iff_gather m f fp rank p h0 h1
  refine ⟨hr.trans hg', ?_, ?_⟩
  · unfold meanParts
    simp only
    rw [List.length_eq_zero_iff]; exact hg'
  · intro h
    cases hv : rankAt m f fp rank p with
    | some v => exact ⟨v, rfl⟩
    | none =>
      exfalso
      obtain ⟨hm, hall⟩ := (hr.trans hg').1 hv
      rcases h with h | ⟨k, hk, hin⟩
      · exact h hm
      · rw [hall k hk] at hin; cases hin

/-- non-vacuity: the two horizontal neighbours (centre not a member) on a 1×1 image: no sample in `ignore` mode —
    undefined rank (by the theorem), zero count —, two samples in `reflect` mode -/
example :
    let f : Img Int := { shape := [1, 1], data := #[7] }
    let fp := footprint [1, 3] #[1, 0, 1]
    fp = [[0, -1], [0, 1]] ∧ rankAt .ignore f fp 1 [0, 0] = none ∧ meanParts .ignore f fp [0, 0] = (0, 0) ∧
    rankAt .reflect f fp 1 [0, 0] = some 7 ∧ meanParts .reflect f fp [0, 0] = (14, 2) := by
  intro f fp
  have hfp : fp = [[0, -1], [0, 1]] := by decide
  refine ⟨hfp, ?_, by decide, ?_, by decide⟩
  · exact (C07_no_sample_iff .ignore f fp 1 [0, 0] (by decide) (by decide) (by decide)).1.2 ⟨rfl, by decide⟩
  · rw [C07_rank_eq_spec _ _ (by decide)]
    decide

/-- **C07-R4c (`template_match` generic in the arithmetic of `T`; float images with integer values are exact).**
`tmAtG` is `template_match<T>` written once for every `T` (`T diff2 = 0; delta = val > tj ? val − tj : tj − val;
diff2 += delta*delta`); the driver runs it with binary64 and binary32 operations for float images (kind `tmf`, compared
bit for bit with the real output on arbitrary finite values). (1) With the integer operations it IS the exact model of
rounds 1–3 (`tmAtG intTmOps = tmAt`, so `C07_template_match_ssd` and the wrapping theorems speak about an instance of it).
(2) With rounded rational operations `rnd (a ∘ b)`, for every round-to-nearest `rnd` of 53 bits (`Rounding rnd`), on an
integer-valued image and template whose exact sum of squared differences at `p` is at most `2^53`, no operation rounds:
the result is the exact value of the specification `tmSpecAt` (this is the case on which the harness compares float
images with the specification exactly). -/
theorem C07_template_match_float_exact (m : Mode) (f : Img Int) (tshape : List Nat) (t : Array Int) (p : List Int) :
    tmAtG intTmOps m f tshape t p = tmAt m f tshape t p ∧
    ∀ (rnd : ℚ → ℚ), Mahotas.C05.Rounding rnd → (∀ d ∈ f.shape, 0 < d) → tmSpecAt m f tshape t p ≤ 2 ^ 53 →
      tmAtG (ratTmOps rnd) m (castImg f) tshape (castArr t) p = ((tmSpecAt m f tshape t p : ℤ) : ℚ) := by
  refine ⟨tmAtG_int m f tshape t p, fun rnd hr hs hb => ?_⟩
  rw [← C07_template_match_ssd m f hs tshape t p] at hb ⊢
  exact tmAtG_rat_exact rnd hr m f tshape t p hb

/-- non-vacuity: binary64 rounding, the 2×2 image of the earlier examples: SSD 40 at the corner, below `2^53` -/
example :
    let f : Img Int := { shape := [2, 2], data := #[7, 1, 5, 3] }
    tmAtG (ratTmOps Mahotas.C05.rne53) .nearest (castImg f) [1, 2] (castArr #[1, 5]) [0, 0] = 40 := by
  intro f
  have h := (C07_template_match_float_exact .nearest f [1, 2] #[1, 5] [0, 0]).2 _ Mahotas.C05.rne53_rounding
    (by decide) (by decide)
  rw [h]
  have : tmSpecAt .nearest f [1, 2] #[1, 5] [0, 0] = 40 := by decide
  rw [this]; norm_num

/-- **C07-R4c' (forward error bound of float `template_match`).** For ANY rational image and template (every finite
float is a rational), every border mode and pixel: the kernel `tmAtG` run with operations rounded to nearest with a
53-bit significand returns a value between `(1 − u)^(N+3) · S` and `(1 + u)^(N+3) · S`, where `u = 2^-53`, `N` is the number
of template entries and `S ≥ 0` is the same kernel in exact rational arithmetic (the exact sum of squared differences over
the provided samples): the difference rounds once, its square carries that factor twice and rounds once, and each of the
at most `N` additions rounds once; all terms are non-negative, so the bound is relative to `S` itself — no cancellation.
This is the margin of the harness (`|got − S| ≤ 2 (N + 3) u · S`, with `(1+u)^k − 1 ≤ 2 k u` for `k u ≤ 1`). Overflow
and underflow are outside the `Rounding` interface (unbounded exponent). -/
theorem C07_template_match_float_error_bound (rnd : ℚ → ℚ) (hr : Mahotas.C05.Rounding rnd) (m : Mode) (f : Img ℚ)
    (tshape : List Nat) (t : Array ℚ) (p : List Int) :
    0 ≤ tmAtG exactTmOps m f tshape t p ∧
    (1 - uRnd) ^ (shapeSize tshape + 3) * tmAtG exactTmOps m f tshape t p ≤ tmAtG (ratTmOps rnd) m f tshape t p ∧
    tmAtG (ratTmOps rnd) m f tshape t p ≤ (1 + uRnd) ^ (shapeSize tshape + 3) * tmAtG exactTmOps m f tshape t p :=
  tmAtG_rat_bound rnd hr m f tshape t p

/-- non-vacuity: binary64 rounding of a 1×2 window with values 1/3 and 1/5 against the template (1/7, 2) centred on the second pixel: the exact
    value is `(1/3 − 1/7)² + (2 − 1/5)² = 36121/11025`, and `u = 2^-53` -/
example :
    let f : Img ℚ := { shape := [1, 2], data := #[1 / 3, 1 / 5] }
    tmAtG exactTmOps .nearest f [1, 2] #[1 / 7, 2] [0, 1] = 36121 / 11025 ∧ uRnd = 1 / 9007199254740992 ∧
    (1 - uRnd) ^ 5 * (36121 / 11025) ≤ tmAtG (ratTmOps Mahotas.C05.rne53) .nearest f [1, 2] #[1 / 7, 2] [0, 1] := by
  intro f
  have h := C07_template_match_float_error_bound _ Mahotas.C05.rne53_rounding .nearest f [1, 2] #[1 / 7, 2] [0, 1]
  have e : tmAtG exactTmOps .nearest f [1, 2] #[1 / 7, 2] [0, 1] = 36121 / 11025 := by
    simp [tmAtG, exactTmOps, f, shapeSize, List.range, List.range.loop, fixPos, fixOffset, addPos, offsetOf, unravelI, unravel,
      subPos, centreOf, Img.getD, inside, ravelI]
    norm_num
  refine ⟨e, by unfold uRnd; norm_num, ?_⟩
  rw [e] at h
  exact h.2.1

/-- **C07-R4e (`mean_filter` in double is the correctly rounded exact mean).** `meanAtG` is `mean_filter<T>` generic in
the arithmetic (`double sum = 0; sum += val` over the gathered samples in scan order, then `sum / n`); the driver runs it
with binary64 operations (kind `meanf`, compared bit for bit with the real output on arbitrary finite float values). At
`Int` its samples are those of `gather`. With operations rounded to nearest with a 53-bit significand (`Rounding rnd`), on
an integer-valued image (positive axis lengths) whose selected samples have magnitudes summing to at most `2^53` (and a
neighbourhood of at most `2^53` members), every addition is exact and the result is the ONE rounding of the exact quotient
of the specification: `rnd (Σ samples / number of samples)` — what the harness computes as `float(Fraction(sum, n))`. -/
theorem C07_mean_double_exact (rnd : ℚ → ℚ) (hr : Mahotas.C05.Rounding rnd) (m : Mode) (f : Img Int)
    (hs : ∀ d ∈ f.shape, 0 < d) (fp : List (List Int)) (p : List Int)
    (hb : absSum (specSamples m f fp p) ≤ 2 ^ 53) (hn : (fp.length : Int) ≤ 2 ^ 53) :
    gatherG 0 m f fp p = specSamples m f fp p ∧
    meanAtG (ratMeanOps rnd) m (castImg f) fp p =
      rnd (((meanSpecParts m f fp p).1 : ℚ) / ((meanSpecParts m f fp p).2 : ℚ)) := by
  refine ⟨(gatherG_int m f fp p).trans (gather_eq_specSamples m f hs fp p), ?_⟩
  rw [← C07_mean_exact m f hs fp p]
  rw [← gather_eq_specSamples m f hs fp p] at hb
  exact meanAtG_rat_exact rnd hr m f fp p hb hn

/-- non-vacuity: binary64 rounding, the 3×3 cross at the corner of the 2×2 image in `ignore` mode: samples 7, 1, 5,
    magnitudes sum to 13, result = the rounding of 13/3 -/
example :
    let f : Img Int := { shape := [2, 2], data := #[7, 1, 5, 3] }
    let fp := footprint [3, 3] #[0, 1, 0, 1, 1, 1, 0, 1, 0]
    absSum (specSamples .ignore f fp [0, 0]) = 13 ∧
    meanAtG (ratMeanOps Mahotas.C05.rne53) .ignore (castImg f) fp [0, 0] = Mahotas.C05.rne53 (13 / 3) := by
  intro f fp
  have ha : absSum (specSamples .ignore f fp [0, 0]) = 13 := by decide
  refine ⟨ha, ?_⟩
  have h := (C07_mean_double_exact _ Mahotas.C05.rne53_rounding .ignore f (by decide) fp [0, 0]
    (by rw [ha]; norm_num) (by decide)).2
  rw [h]
  have : meanSpecParts .ignore f fp [0, 0] = (13, 3) := by decide
  rw [this]; norm_num

/-- **C07-R4f (error bounds for any precision: binary32 images, and `mean_filter` with cancellation).** For every
rounding `rnd` with relative error at most `u` (`0 < u < 1`; binary64: `u = 2^-53`, binary32: `u = 2^-24` — the arithmetic of
`template_match<float>`), any rational data, every mode and pixel:
(1) `template_match`: `(1−u)^(N+3) · S ≤ computed ≤ (1+u)^(N+3) · S`, `S` the exact kernel, `N` the template size;
(2) `mean_filter` (samples of both signs, so cancellation is possible): with `n ≥ 1` gathered samples whose count converts
exactly, `|computed − exact mean| ≤ ((1+u)^(n+1) − 1) · (Σ|x|) / n` — the error of recursive summation relative to the sum
of the magnitudes, one more rounding for the division. These are the margins the harness uses for float images
(`2(N+3)u·S` and `2(n+1)u·Σ|x|/n`). -/
theorem C07_float_error_bounds_any_precision (rnd : ℚ → ℚ) (u : ℚ) (hu0 : 0 < u) (hu1 : u < 1)
    (hrel : ∀ x : ℚ, |rnd x - x| ≤ |x| * u) (m : Mode) (f : Img ℚ) (p : List Int) :
    (∀ (tshape : List Nat) (t : Array ℚ),
      (1 - u) ^ (shapeSize tshape + 3) * tmAtG exactTmOps m f tshape t p ≤ tmAtG (ratTmOps rnd) m f tshape t p ∧
      tmAtG (ratTmOps rnd) m f tshape t p ≤ (1 + u) ^ (shapeSize tshape + 3) * tmAtG exactTmOps m f tshape t p) ∧
    (∀ (fp : List (List Int)), 0 < (gatherG (0 : ℚ) m f fp p).length →
      rnd ((gatherG (0 : ℚ) m f fp p).length : ℚ) = ((gatherG (0 : ℚ) m f fp p).length : ℚ) →
      |meanAtG (ratMeanOps rnd) m f fp p - meanAtG exactMeanOps m f fp p| ≤
        ((1 + u) ^ ((gatherG (0 : ℚ) m f fp p).length + 1) - 1) * absSumQ (gatherG (0 : ℚ) m f fp p) /
          ((gatherG (0 : ℚ) m f fp p).length : ℚ)) :=
  ⟨fun tshape t => (tmAtG_rat_bound_u rnd u hu0 hu1 hrel m f tshape t p).2,
   fun fp hn0 hn => meanAtG_rat_bound_u rnd u hu0 hrel m f fp p hn0 hn⟩

/-- non-vacuity: binary64 rounding satisfies the hypothesis with `u = 2^-24` as well (a coarser bound), and converts
    the count 2 exactly; the two horizontal neighbours of a 1×3 row with values 1/3, −1/3 + 1/7 in `nearest` mode -/
example :
    let f : Img ℚ := { shape := [1, 3], data := #[1 / 3, 0, -1 / 3 + 1 / 7] }
    let fp : List (List Int) := [[0, -1], [0, 1]]
    gatherG (0 : ℚ) .nearest f fp [0, 1] = [1 / 3, -1 / 3 + 1 / 7] ∧
    |meanAtG (ratMeanOps Mahotas.C05.rne53) .nearest f fp [0, 1] - meanAtG exactMeanOps .nearest f fp [0, 1]| ≤
      ((1 + 1 / 2 ^ 24) ^ 3 - 1) * absSumQ [1 / 3, -1 / 3 + 1 / 7] / 2 := by
  intro f fp
  have hg : gatherG (0 : ℚ) .nearest f fp [0, 1] = [1 / 3, -1 / 3 + 1 / 7] := by
    simp [gatherG, f, fp, fixPos, fixOffset, addPos, Img.getD, inside, ravelI, shapeSize]
  refine ⟨hg, ?_⟩
  have hrel : ∀ x : ℚ, |Mahotas.C05.rne53 x - x| ≤ |x| * (1 / 2 ^ 24) := by
    intro x
    have h := Mahotas.C05.rne53_rounding.rel x
    have : |x| / 2 ^ 53 ≤ |x| * (1 / 2 ^ 24) := by
      rw [mul_one_div]
      exact div_le_div_of_nonneg_left (abs_nonneg x) (by norm_num) (by norm_num)
    linarith
  have h := (C07_float_error_bounds_any_precision Mahotas.C05.rne53 (1 / 2 ^ 24) (by norm_num) (by norm_num) hrel
    .nearest f [0, 1]).2 fp
  rw [hg] at h
  have h2 := Mahotas.C05.rne53_rounding.exact_int 2 (by norm_num)
  exact h (by decide) (by simpa using h2)

/-- **C07-R4g (the rank filter is invariant under order embeddings of the values).** `rank_filter` / `median_filter` only
compare samples: for every strictly increasing `g : ℤ → ℤ` with `g 0 = 0` (0 is the `cval` of `constant` mode), every mode,
image, neighbourhood, rank and pixel, filtering the re-encoded image gives the re-encoded result:
`rankAt m (mapImg g f) … = (rankAt m f …).map g` (both undefined together). This is the fact by which the check feeds FLOAT
images to the integer model: quarter-integers through `x ↦ 4x`, arbitrary non-NaN floats (denormals, ±inf; not −0.0) through
`x ↦ sign(x)·bits(|x|)` — the float order is the integer order of the codes, and the real output decodes to the model's. -/
theorem C07_rank_order_embedding (g : Int → Int) (hg : StrictMono g) (h0 : g 0 = 0) (m : Mode) (f : Img Int)
    (fp : List (List Int)) (rank : Int) (p : List Int) :
    rankAt m (mapImg g f) fp rank p = (rankAt m f fp rank p).map g :=
  rankAt_mapImg g hg h0 m f fp rank p

/-- non-vacuity: `x ↦ 4x` on the 2×2 image of the earlier examples, ignore mode at the corner: rank 2 of the cross gives
    5 there and 20 on the re-encoded image -/
example :
    let f : Img Int := { shape := [2, 2], data := #[7, 1, 5, 3] }
    let fp := footprint [3, 3] #[0, 1, 0, 1, 1, 1, 0, 1, 0]
    StrictMono (fun x : Int => 4 * x) ∧ (mapImg (fun x => 4 * x) f).data.toList = [28, 4, 20, 12] ∧
    rankAt .ignore (mapImg (fun x => 4 * x) f) fp 2 [0, 0] = some 20 := by
  intro f fp
  have hm : StrictMono (fun x : Int => 4 * x) := fun a b h => by simp only; omega
  refine ⟨hm, by simp [mapImg, f], ?_⟩
  rw [C07_rank_order_embedding _ hm (by norm_num), C07_rank_eq_spec _ _ (by decide)]
  decide

/-- **C07-R4d (`majority_filter`, closed form of the loops).** For a 2-D image `rows × cols` and window size `N` (the
wrapper replaces an even `N` by `N + 1`, `majorityN`), `py_majority_filter` — output cleared, nothing done when
`rows < N` or `cols < N`, otherwise `for (y = 0; y != rows−N; ++y) for (x = 0; x != cols−N; ++x)` — sets pixel `(Y, X)`
**iff** the `N × N` window centred on it (top-left corner `(Y − N/2, X − N/2)`) lies inside the image, is NOT the last
such window of its column or row (`Y − N/2 + N < rows`, strictly — the loops stop one short of the window flush with the
bottom/right edge), and holds at least `⌊N²/2⌋` set pixels (for `N = 3`: 4 of 9 suffice; a window never counts more
than `N²`). `majoritySpecB` is the executable form of the right-hand side the driver prints. (Observation for the report: the
docstring's "majority … in the square centred on (y,x)" would be `count > N²/2` on every window inside the image; the
function is outside the fixed statement of C07, so this is modelled as it is.) -/
theorem C07_majority_closed_form (f : Img Int) (rows cols N Y X : Nat) (hf : f.shape = [rows, cols]) :
    ((Y, X) ∈ majorityMarks f N ↔
      (N / 2 ≤ Y ∧ Y - N / 2 + N < rows ∧ N / 2 ≤ X ∧ X - N / 2 + N < cols ∧
        N * N / 2 ≤ windowCount f N (Y - N / 2) (X - N / 2))) ∧
    ((Y, X) ∈ majorityMarks f N ↔ majoritySpecB f N Y X = true) ∧
    windowCount f N (Y - N / 2) (X - N / 2) ≤ N * N :=
  ⟨mem_majorityMarks f rows cols N Y X hf,
   (mem_majorityMarks f rows cols N Y X hf).trans (majoritySpecB_iff f rows cols N Y X hf).symm,
   windowCount_le f N _ _⟩

/-- non-vacuity: a 5×5 image, `N = 3`: the window at the top-left holds 4 of 9 set pixels and is marked at its centre
    `(1,1)`; the window flush with the bottom-right corner (8 of 9 set, centre `(3,3)`) is not evaluated; `N = 4` becomes 5 -/
example :
    let f : Img Int := { shape := [5, 5], data := #[1,1,0,0,0, 1,1,0,0,0, 0,0,0,1,1, 0,0,1,1,1, 0,0,1,1,1] }
    majorityMarks f 3 = [(1, 1), (2, 2)] ∧ windowCount f 3 0 0 = 4 ∧ windowCount f 3 2 2 = 8 ∧
    majoritySpecB f 3 3 3 = false ∧ majorityN 4 = 5 ∧ majorityMarks f 5 = [] := by
  decide
