/-
C08 — property theorems for the *logic part* of layout independence: the accessor layer of
`numpypp/array.hpp` computes the logical element for arbitrary (negative, non-monotone, offset)
strides, so a kernel that reads its arguments only through these accessors cannot depend on the
memory layout.  (Heap-history independence and whole-API purity are validated by the sweep, not proved.)
Helper lemmas: `Proofs/C08.lean`.
-/
import Mahotas.Proofs.C08
import Mahotas.Proofs.C08Kernels
import Mahotas.Proofs.C08Defined
import Mahotas.Proofs.C05Nd
import Mahotas.Proofs.C13BBox
import Mahotas.Proofs.C08Ties
import Mahotas.Proofs.C08TiesMark
import Mahotas.Proofs.C08TiesDilate
import Mahotas.Proofs.C08TiesHitmiss
import Mahotas.Proofs.C08Fast
import Mahotas.Proofs.C08Rank
import Mahotas.Proofs.C08ViewsA
import Mahotas.Proofs.C08ViewsB
import Mahotas.Proofs.C08ViewsCooc
import Mahotas.Properties.C19
import Mahotas.Properties.C17
import Mahotas.Properties.C01
import Mahotas.Properties.C04
import Mahotas.Properties.C06
import Mahotas.Properties.C07
import Mahotas.Properties.C13
import Mahotas.Properties.C14
import Mathlib.Data.List.Basic
import Mahotas.Generated.Normalise
import Mahotas.Generated.CopyGuards
open Mahotas Mahotas.C08

namespace Mahotas.C08

/-- two (memory, view) pairs present the same logical array: same shape, same element at every
C-order position -/
def SameLogical {α} (m₁ : Int → α) (v₁ : View) (m₂ : Int → α) (v₂ : View) : Prop :=
  v₁.shape = v₂.shape ∧
  ∀ k, k < shapeSize v₁.shape → m₁ (v₁.addr (unravel v₁.shape k)) = m₂ (v₂.addr (unravel v₂.shape k))

theorem SameLogical.toImg_eq {α : Type} {m₁ m₂ : Int → α} {v₁ v₂ : View} (h : SameLogical m₁ v₁ m₂ v₂) :
    toImg m₁ v₁ = toImg m₂ v₂ := toImg_congr m₁ m₂ v₁ v₂ h.1 h.2

end Mahotas.C08

/-- **F7 (`iterator_base`).** For any base, any shape and any strides (one per axis; negative, zero,
non-monotone all allowed): after `k < size` applications of `operator++` to `begin()`, the iterator's
pointer is the address of the logical element at C-order position `unravel k`, and `position()`
reports exactly that position. -/
theorem C08_iterator_visits_C_order (v : View) (h : v.strides.length = v.shape.length) (k : Nat)
    (hk : k < shapeSize v.shape) :
    ((Iter.begin v).incrN k).data = v.addr (unravel v.shape k) ∧
    ((Iter.begin v).incrN k).position = unravel v.shape k := by
  rw [incrN_eq v h k hk]
  refine ⟨le_address v h k hk, ?_⟩
  simp only [Iter.position]
  rw [unravelLE_reverse _ _ hk, List.reverse_reverse]

/-- **F8 (`at_flat`, as repaired).** For every well-formed view (the `is_carray` shortcut only taken
for C-contiguous strides) and every flat index `p < size`, `at_flat(p)` is the address of the logical
element at C-order position `unravel p`. -/
theorem C08_atFlat_eq (v : View) (wf : v.WF) (p : Nat) (hp : p < shapeSize v.shape) :
    v.atFlat p = v.addr (unravel v.shape p) :=
  atFlat_eq_addr v wf p hp

/-- **F8 negation on the pinned tree.** The loop as it was (`p /= dim(d-1)`) addresses the wrong element:
shape (2,3) in Fortran order, `p = 2` lands on the element (1,2) (address 5) instead of (0,2) (address 4).
(Defect #6, repaired by `fix: aligned_array::at_flat …`.) -/
theorem C08_atFlat_pinned_wrong :
    let v : View := { base := 0, shape := [2, 3], strides := [1, 2] }
    atFlatOldGo v.shape.reverse v.strides.reverse 2 v.base = 5 ∧ v.addr (unravel v.shape 2) = 4 ∧
    v.atFlat 2 = 4 := by
  decide

/-- **F9 (`pos_to_flat` / `flat_to_pos`).** Inside the image the two are the C-order ravel/unravel:
`pos_to_flat(unravel k) = k`, `flat_to_pos(k) = unravel k`, hence they round-trip — for every shape,
independently of the strides. -/
theorem C08_posToFlat_flatToPos (v : View) (k : Nat) (hk : k < shapeSize v.shape) :
    v.posToFlat (unravelI v.shape k) = (k : Int) ∧
    v.flatToPos (k : Int) = unravelI v.shape k ∧
    v.flatToPos (v.posToFlat (unravelI v.shape k)) = unravelI v.shape k := by
  have h1 := posToFlat_unravel v k hk
  have h2 := flatToPos_unravel v k hk
  exact ⟨h1, h2, by rw [h1, h2]⟩

/-- **positional access and the row idiom.** `at(pos)`/`data(pos)` (`PyArray_GetPtr`) is the address of
`pos` by definition, and `data(y) + x*stride(1)` is the address of `(y, x)` in a 2-D view. -/
theorem C08_at_and_rowPtr (v : View) (pos : List Nat) (s0 s1 : Int) (y x : Nat) :
    v.at pos = v.addr pos ∧
    ({ v with strides := [s0, s1] } : View).rowPtr y x = ({ v with strides := [s0, s1] } : View).addr [y, x] := by
  constructor
  · rfl
  · simp only [View.rowPtr, View.addr, dot]
    ring

/-- **Consequence: reads through the accessors are layout-free.** If two views of two memories present
the same logical array (e.g. a C-contiguous copy and a Fortran / strided / reversed / offset /
transposed view of the same data), then the `k`-th value delivered by the iterator, the value at flat
index `k` through `at_flat`, and the value at position `unravel k` through `at(pos)` coincide. -/
theorem C08_accessor_reads_layout_free {α} (m₁ m₂ : Int → α) (v₁ v₂ : View) (wf₁ : v₁.WF) (wf₂ : v₂.WF)
    (h : SameLogical m₁ v₁ m₂ v₂) (k : Nat) (hk : k < shapeSize v₁.shape) :
    readIter m₁ v₁ k = readIter m₂ v₂ k ∧
    readAtFlat m₁ v₁ k = readAtFlat m₂ v₂ k ∧
    readAt m₁ v₁ (unravel v₁.shape k) = readAt m₂ v₂ (unravel v₂.shape k) := by
  obtain ⟨hs, he⟩ := h
  have hk2 : k < shapeSize v₂.shape := hs ▸ hk
  refine ⟨?_, ?_, ?_⟩
  · unfold readIter
    rw [(C08_iterator_visits_C_order v₁ wf₁.len k hk).1, (C08_iterator_visits_C_order v₂ wf₂.len k hk2).1]
    exact he k hk
  · unfold readAtFlat
    rw [C08_atFlat_eq v₁ wf₁ k hk, C08_atFlat_eq v₂ wf₂ k hk2]
    exact he k hk
  · exact he k hk

/-- **The iterator sequence *is* the logical content.** Reading a whole array through the iterator, or
through `at_flat` at `0 … size-1`, yields exactly the C-order list of its logical elements — for every
well-formed view. (`iterAddrs`, printed by the driver and compared with numpy and with the compiled
`iterator_base`, is the address version of the same statement.) -/
theorem C08_iterator_sequence_is_logical {α} (m : Int → α) (v : View) (wf : v.WF) :
    (List.range (shapeSize v.shape)).map (readIter m v) = logical m v ∧
    (List.range (shapeSize v.shape)).map (readAtFlat m v) = logical m v ∧
    iterAddrs v = (List.range (shapeSize v.shape)).map (fun k => v.addr (unravel v.shape k)) := by
  refine ⟨?_, ?_, ?_⟩
  · apply List.map_congr_left
    intro k hk
    have hk' : k < shapeSize v.shape := List.mem_range.1 hk
    simp only [readIter]
    rw [(C08_iterator_visits_C_order v wf.len k hk').1]
  · apply List.map_congr_left
    intro k hk
    have hk' : k < shapeSize v.shape := List.mem_range.1 hk
    simp only [readAtFlat]
    rw [C08_atFlat_eq v wf k hk']
  · apply List.map_congr_left
    intro k hk
    exact (C08_iterator_visits_C_order v wf.len k (List.mem_range.1 hk)).1

/-- **T2 instance: the labeled folds (`labeled_sum`, `labeled_max`, `labeled_min`) are layout-free.**
The model of `labeled_foldl`, which reads `array` and `labeled` step by step through their iterators,
equals the fold over the *logical* contents, for every fold function, start value, number of labels and
every pair of well-formed views of the same shape — so any two layouts of the same data give the same
result. -/
theorem C08_labeled_fold_layout_free {α} (f : α → α → α) (start : α) (maxlabel : Nat)
    (mA : Int → α) (vA : View) (mL : Int → Int) (vL : View) (wfA : vA.WF) (wfL : vL.WF)
    (hs : vL.shape = vA.shape) :
    labeledFoldView f start maxlabel mA vA mL vL =
      labeledFoldList f start maxlabel (logical mA vA) (logical mL vL) := by
  unfold labeledFoldView
  simp only []
  rw [(C08_iterator_sequence_is_logical mA vA wfA).1, ← hs, (C08_iterator_sequence_is_logical mL vL wfL).1]

/-- **Kernel form.** Any kernel `K` that consumes an array only as the sequence of values the iterator
(or `at_flat`) delivers returns the same result for every memory layout of the same logical array. -/
theorem C08_kernel_layout_free {α β} (m₁ m₂ : Int → α) (v₁ v₂ : View) (wf₁ : v₁.WF) (wf₂ : v₂.WF)
    (h : SameLogical m₁ v₁ m₂ v₂) (K : (Fin (shapeSize v₁.shape) → α) → β) :
    K (fun i => readIter m₁ v₁ i) = K (fun i => readIter m₂ v₂ i) ∧
    K (fun i => readAtFlat m₁ v₁ i) = K (fun i => readAtFlat m₂ v₂ i) := by
  constructor
  · congr 1; funext i
    exact (C08_accessor_reads_layout_free m₁ m₂ v₁ v₂ wf₁ wf₂ h i i.2).1
  · congr 1; funext i
    exact (C08_accessor_reads_layout_free m₁ m₂ v₁ v₂ wf₁ wf₂ h i i.2).2.1

/-- **Machine-level detail of `stride()`.** The C++ divides the byte stride by `sizeof(T)` in *unsigned*
64-bit arithmetic (a negative stride first becomes `2^64 - |s|`). Whenever the item size divides both
`2^64` (1, 2, 4, 8, 16 bytes) and the stride, stepping `c` elements in wrapping pointer arithmetic moves by
exactly `c * stride` bytes modulo `2^64` — the signed element stride of the model. -/
theorem C08_unsigned_stride_division (sb : Int) (sz c : Nat) (h64 : sz ∣ two64) (hdiv : (sz : Int) ∣ sb) :
    ((unsignedStepBytes sb sz c : Nat) : Int) = ((c : Int) * sb) % (two64 : Int) :=
  unsignedStep_eq sb sz c h64 hdiv

/-- **T4 (wrapper accepts all layouts), decision logic.** `np.require(a, requirements='CAW')` and
`np.array(a, order='C')` hand a behaved C array to the native `ISCARRAY` guard whatever the flags of the
user's array; `requirements='CW'` does so for every aligned array (all seven layouts are aligned). -/
theorem C08_normalisation_accepts_all_layouts (f : Flags) :
    wrapperAccepts .requireCAW f = true ∧ wrapperAccepts .arrayC f = true ∧
    (f.aligned = true → wrapperAccepts .requireCW f = true) := by
  obtain ⟨c, a, w, o⟩ := f
  cases c <;> cases a <;> cases w <;> cases o <;> decide

/-- **Defect #17 as a theorem about the pinned normalisations.** `np.ascontiguousarray` returns a
read-only C-contiguous array unchanged (so `fullhistogram`/`otsu`/`rc`/`pftas`/`convexhull` raised for
read-only images), and `np.array(a)` with the default `order='K'` keeps Fortran order (so `relabel` /
`remove_regions` raised for Fortran-ordered labels): in both cases valid data turned into an exception. -/
theorem C08_pinned_normalisations_reject :
    wrapperAccepts .ascontiguousarray { ccontig := true, aligned := true, writeable := false, fOrder := false } = false ∧
    wrapperAccepts .arrayK { ccontig := false, aligned := true, writeable := true, fOrder := true } = false := by
  decide

/-- **Tie to the current source.** Every normalisation the translator finds today in front of the
native guards of `_labeled` (`_as_labeled`, `_convert_labeled`), `_histogram` (`fullhistogram`) and
`_convex` (`convexhull`) is one of the accepting ones: for all eight flag combinations of an aligned
array the wrapper reaches the native code with a behaved C array. Reverting one of the repairs
(`order='C'`, `requirements='CAW'`) changes `Generated.normSites` and breaks this theorem. -/
theorem C08_wrappers_accept_all_layouts_source_tie :
    (Generated.normSites.all fun site =>
      match Norm.ofString site.2 with
      | none => false
      | some n =>
        [true, false].all fun c => [true, false].all fun w => [true, false].all fun o =>
          wrapperAccepts n { ccontig := c, aligned := true, writeable := w, fOrder := o }) = true := by
  decide

/-- **T5 (purity, decision logic tied to the source).** In the current source the three wrappers
around in-place native kernels — `convolve._wavelet_array` (haar, ihaar, daubechies, idaubechies),
`labeled._as_labeled` (relabel, remove_regions, remove_regions_where) and `features.surf.integral` —
hand the kernel a fresh array (`copy()`, `astype`, `np.array`) on every path taken when their
`inline` / `inplace` / `in_place` flag is false: the caller's array is only reachable when asked for.
(That `copy`/`astype`/`np.array` really copy, and that no other function writes to an argument, is
validated by the sweep's before/after hashes.) -/
theorem C08_inplace_kernels_only_when_asked :
    Generated.copyGuards.map (fun g => (g.1, g.2.1)) =
      [("convolve._wavelet_array", "inline"), ("labeled._as_labeled", "inplace"),
       ("features.surf.integral", "in_place")] ∧
    (Generated.copyGuards.all fun g => inplaceTarget false g.2.2 == .copy) = true ∧
    (∀ calls, inplaceTarget true calls = .user) := by
  refine ⟨by decide, by decide +kernel, fun calls => by simp [inplaceTarget]⟩


/-! ## Round 2 — T2 per kernel: `kernel_layout_free`, and T3: `defined_everywhere`

The view-level kernels of `Model/C08.lean` (`erodeView`, `dilateView`, `locView`, `convolveView`, `rankView`,
`meanView`, `tmView`, `bordersView`, `hitmissView`, `cwatershedView`, `bboxView`, `comView`, `lineVals`) read their
array arguments only through the transliterated accessors: the array iterator, `at_flat`, and the offset table of a
`filter_iterator` multiplied with the strides of the array it is applied to. -/

/-- **T1, filter iterator over a view (F6 with `astrides` + F7).** For every well-formed view `vA` with at least
one element per axis, every filter view `vF` of the same rank with at least one element per axis (any layout when
`compress`, C-contiguous when the raw data pointer is indexed), every border mode, and every loop iteration
`i < size`: the pairs `(retrieve(iter, j, ·), filter[j])` the inner loop of a neighbourhood kernel sees are exactly
the *logical* neighbours: footprint elements in C order, each with the logical element at
`fix(mode, unravel i + k − ⌊fshape/2⌋)` (`none` when flagged) and the logical filter value — whatever the
strides of either array. -/
theorem C08_filter_reads_logical_neighbours {α : Type} (isNZ : α → Bool) (mA : Int → α) (vA : View) (mF : Int → α)
    (vF : View) (m : Mode) (compress : Bool) (h : FilterArgs vA vF compress) (d : α) (i : Nat)
    (hi : i < shapeSize vA.shape) :
    (mkFiltV isNZ vA mF vF m compress).neigh d mA (iterPtr vA i) i =
      logicalNeigh m (toImg mA vA) vF.shape (logical mF vF) (if compress then isNZ else fun _ => true) d
        (unravelI vA.shape i) :=
  neigh_logical isNZ mA vA mF vF h.wfA h.wfF h.posA h.posF h.rank m compress h.raw d i hi

/-- **erode is layout-free.** `erode<T>` (iterator over the input, filter offsets built from the *input's* strides,
empty element filled with the maximum) returns the same output for any two layouts of the same logical image and
the same logical structuring element (for non-bool dtypes `Bc` reaches the kernel C-contiguous:
`get_structuring_elem` copies a non-contiguous one). -/
theorem C08_erode_layout_free (dt : DT) (mA₁ mA₂ mB₁ mB₂ : Int → Int) (vA₁ vA₂ vB₁ vB₂ : View)
    (h₁ : FilterArgs vA₁ vB₁ dt.isBool) (h₂ : FilterArgs vA₂ vB₂ dt.isBool)
    (hA : SameLogical mA₁ vA₁ mA₂ vA₂) (hB : SameLogical mB₁ vB₁ mB₂ vB₂) :
    erodeView dt mA₁ vA₁ mB₁ vB₁ = erodeView dt mA₂ vA₂ mB₂ vB₂ := by
  have eA := hA.toImg_eq
  have eB := hB.toImg_eq
  unfold erodeView
  simp only
  rw [size_layout_free _ .nearest dt.isBool mB₁ mB₂ vA₁ vA₂ vB₁ vB₂ h₁.wfF h₂.wfF eB 0, ← hA.1]
  split
  · rfl
  · apply pixelLoop_congr
    intro i hi
    rw [neigh_layout_free _ .nearest dt.isBool 0 mA₁ mA₂ mB₁ mB₂ vA₁ vA₂ vB₁ vB₂ h₁ h₂ eA eB i hi]

/-- **locmin_max (as repaired: filter built from the input array) is layout-free.** -/
theorem C08_locminmax_layout_free (isMin : Bool) (mA₁ mA₂ mB₁ mB₂ : Int → Int) (vA₁ vA₂ vB₁ vB₂ : View)
    (h₁ : FilterArgs vA₁ vB₁ true) (h₂ : FilterArgs vA₂ vB₂ true)
    (hA : SameLogical mA₁ vA₁ mA₂ vA₂) (hB : SameLogical mB₁ vB₁ mB₂ vB₂) :
    locView isMin mA₁ vA₁ mB₁ vB₁ = locView isMin mA₂ vA₂ mB₂ vB₂ := by
  have eA := hA.toImg_eq
  have eB := hB.toImg_eq
  unfold locView
  simp only
  rw [← hA.1]
  apply markLoop_congr
  intro i hi
  rw [neigh_layout_free _ .nearest true 0 mA₁ mA₂ mB₁ mB₂ vA₁ vA₂ vB₁ vB₂ h₁ h₂ eA eB i hi,
    readIter_layout_free mA₁ mA₂ vA₁ vA₂ h₁.wfA h₂.wfA eA i hi 0]

/-- **convolve is layout-free** (any arithmetic: the driver instantiates it at exact integers, C06 at `Float`). -/
theorem C08_convolve_layout_free {α : Type} [Add α] [Mul α] (zero : α) (isZero : α → Bool) (cast : α → α) (m : Mode)
    (mA₁ mA₂ mW₁ mW₂ : Int → α) (vA₁ vA₂ vW₁ vW₂ : View)
    (h₁ : FilterArgs vA₁ vW₁ true) (h₂ : FilterArgs vA₂ vW₂ true)
    (hA : SameLogical mA₁ vA₁ mA₂ vA₂) (hW : SameLogical mW₁ vW₁ mW₂ vW₂) :
    convolveView zero isZero cast m mA₁ vA₁ mW₁ vW₁ = convolveView zero isZero cast m mA₂ vA₂ mW₂ vW₂ := by
  have eA := hA.toImg_eq
  have eW := hW.toImg_eq
  unfold convolveView
  simp only
  rw [← hA.1]
  apply pixelLoop_congr
  intro i hi
  rw [neigh_layout_free _ m true zero mA₁ mA₂ mW₁ mW₂ vA₁ vA₂ vW₁ vW₂ h₁ h₂ eA eW i hi]

/-- **rank_filter (hence median_filter) is layout-free.** -/
theorem C08_rank_filter_layout_free (m : Mode) (rank : Int) (mA₁ mA₂ mB₁ mB₂ : Int → Int) (vA₁ vA₂ vB₁ vB₂ : View)
    (h₁ : FilterArgs vA₁ vB₁ true) (h₂ : FilterArgs vA₂ vB₂ true)
    (hA : SameLogical mA₁ vA₁ mA₂ vA₂) (hB : SameLogical mB₁ vB₁ mB₂ vB₂) :
    rankView m rank mA₁ vA₁ mB₁ vB₁ = rankView m rank mA₂ vA₂ mB₂ vB₂ := by
  have eA := hA.toImg_eq
  have eB := hB.toImg_eq
  unfold rankView
  simp only
  rw [size_layout_free _ m true mB₁ mB₂ vA₁ vA₂ vB₁ vB₂ h₁.wfF h₂.wfF eB 0, ← hA.1]
  split
  · rfl
  · congr 1
    apply pixelLoop_congr
    intro i hi
    rw [neigh_layout_free _ m true 0 mA₁ mA₂ mB₁ mB₂ vA₁ vA₂ vB₁ vB₂ h₁ h₂ eA eB i hi]

/-- **mean_filter is layout-free.** -/
theorem C08_mean_filter_layout_free (m : Mode) (mA₁ mA₂ mB₁ mB₂ : Int → Int) (vA₁ vA₂ vB₁ vB₂ : View)
    (h₁ : FilterArgs vA₁ vB₁ true) (h₂ : FilterArgs vA₂ vB₂ true)
    (hA : SameLogical mA₁ vA₁ mA₂ vA₂) (hB : SameLogical mB₁ vB₁ mB₂ vB₂) :
    meanView m mA₁ vA₁ mB₁ vB₁ = meanView m mA₂ vA₂ mB₂ vB₂ := by
  have eA := hA.toImg_eq
  have eB := hB.toImg_eq
  unfold meanView
  simp only
  rw [← hA.1]
  apply pixelLoop_congr
  intro i hi
  rw [neigh_layout_free _ m true 0 mA₁ mA₂ mB₁ mB₂ vA₁ vA₂ vB₁ vB₂ h₁ h₂ eA eB i hi]

/-- **template_match is layout-free in the image**, and in the template once the wrapper has made it C-contiguous
(`compress = false`: the kernel indexes the template's raw data pointer — the defect 6f6fc49 repaired). -/
theorem C08_template_match_layout_free (m : Mode) (mA₁ mA₂ mT₁ mT₂ : Int → Int) (vA₁ vA₂ vT₁ vT₂ : View)
    (h₁ : FilterArgs vA₁ vT₁ false) (h₂ : FilterArgs vA₂ vT₂ false)
    (hA : SameLogical mA₁ vA₁ mA₂ vA₂) (hT : SameLogical mT₁ vT₁ mT₂ vT₂) :
    tmView m mA₁ vA₁ mT₁ vT₁ = tmView m mA₂ vA₂ mT₂ vT₂ := by
  have eA := hA.toImg_eq
  have eT := hT.toImg_eq
  unfold tmView
  simp only
  rw [← hA.1]
  apply pixelLoop_congr
  intro i hi
  rw [neigh_layout_free _ m false 0 mA₁ mA₂ mT₁ mT₂ vA₁ vA₂ vT₁ vT₂ h₁ h₂ eA eT i hi]

/-- **labeled.borders is layout-free.** -/
theorem C08_borders_layout_free (m : Mode) (mA₁ mA₂ mB₁ mB₂ : Int → Int) (vA₁ vA₂ vB₁ vB₂ : View)
    (h₁ : FilterArgs vA₁ vB₁ true) (h₂ : FilterArgs vA₂ vB₂ true)
    (hA : SameLogical mA₁ vA₁ mA₂ vA₂) (hB : SameLogical mB₁ vB₁ mB₂ vB₂) :
    bordersView m mA₁ vA₁ mB₁ vB₁ = bordersView m mA₂ vA₂ mB₂ vB₂ := by
  have eA := hA.toImg_eq
  have eB := hB.toImg_eq
  unfold bordersView
  simp only
  rw [← hA.1]
  apply markLoop_congr
  intro i hi
  rw [neigh_layout_free _ m true 0 mA₁ mA₂ mB₁ mB₂ vA₁ vA₂ vB₁ vB₂ h₁ h₂ eA eB i hi,
    readIter_layout_free mA₁ mA₂ vA₁ vA₂ h₁.wfA h₂.wfA eA i hi 0]

/-- **cwatershed is layout-free.** The surface and the markers are only ever read as `at_flat(i)`, `i < N` (F8), the
structuring element through its iterator (F7); everything else is flat-index arithmetic on the C-contiguous outputs.
The view-level kernel *is* the C04 model run on the logical arrays. -/
theorem C08_cwatershed_layout_free (mS₁ mS₂ mM₁ mM₂ mB₁ mB₂ : Int → Int) (vS₁ vS₂ vM₁ vM₂ vB₁ vB₂ : View)
    (wS₁ : vS₁.WF) (wS₂ : vS₂.WF) (wM₁ : vM₁.WF) (wM₂ : vM₂.WF) (wB₁ : vB₁.WF) (wB₂ : vB₂.WF)
    (hS : SameLogical mS₁ vS₁ mS₂ vS₂) (hM : SameLogical mM₁ vM₁ mM₂ vM₂) (hB : SameLogical mB₁ vB₁ mB₂ vB₂) :
    cwatershedView mS₁ vS₁ mM₁ vM₁ mB₁ vB₁ =
      C04.cwatershedModel (toImg mS₁ vS₁) (toImg mM₁ vM₁) vB₁.shape (logical mB₁ vB₁).toArray ∧
    cwatershedView mS₁ vS₁ mM₁ vM₁ mB₁ vB₁ = cwatershedView mS₂ vS₂ mM₂ vM₂ mB₂ vB₂ := by
  unfold cwatershedView
  rw [flatImg_eq _ _ wS₁, flatImg_eq _ _ wM₁, flatImg_eq _ _ wS₂, flatImg_eq _ _ wM₂,
    filtVals_eq _ _ wB₁, filtVals_eq _ _ wB₂, hS.toImg_eq, hM.toImg_eq,
    (logical_eq_of_toImg _ _ _ _ hB.toImg_eq).1, hB.1]
  exact ⟨rfl, rfl⟩

/-- **bbox is layout-free, both paths.** The generic `bbox<T>` (value *and* `position()` of the array iterator) and
the raw-pointer walk `carray2_bbox` taken for 2-D C-arrays both compute `C13.bboxGeneric` of the logical array. -/
theorem C08_bbox_layout_free (mA : Int → Int) (vA : View) (wf : vA.WF) :
    bboxView mA vA = C13.bboxGeneric vA.shape (logical mA vA) ∧
    ∀ (mA₂ : Int → Int) (vA₂ : View), vA₂.WF → SameLogical mA vA mA₂ vA₂ → bboxView mA vA = bboxView mA₂ vA₂ := by
  have gen : ∀ (m : Int → Int) (v : View), v.WF → bboxGenericView m v = C13.bboxGeneric v.shape (logical m v) := by
    intro m v w
    unfold bboxGenericView C13.bboxGeneric
    rw [logical_length]
    congr 1
    apply List.foldl_ext
    intro ext i hi
    have hi' : i < shapeSize v.shape := List.mem_range.1 hi
    rw [position_eq v w i hi']
    have : (logical m v).getD i 0 = readIter m v i := by
      rw [← (C08_iterator_sequence_is_logical m v w).1]
      simp [List.getD_eq_getElem?_getD, List.getElem?_map, List.getElem?_range hi']
    rw [this]
  have all : ∀ (m : Int → Int) (v : View), v.WF → bboxView m v = C13.bboxGeneric v.shape (logical m v) := by
    intro m v w
    unfold bboxView
    split
    · rename_i N0 N1 hc hs
      have hsz : shapeSize v.shape = N0 * N1 := by rw [hs]; simp [shapeSize]
      have hraw : ((List.range (N0 * N1)).map fun (k : Nat) => m (v.base + (k : Int))) = logical m v := by
        unfold logical
        rw [hsz]
        apply List.map_congr_left
        intro k hk
        unfold View.addr
        rw [w.carray hc, dot_cStrides _ _ (by rw [hsz]; exact List.mem_range.1 hk)]
      rw [hraw, hs]
      exact C13.bboxFast_eq_generic N0 N1 _ (by rw [logical_length, hsz])
    · exact gen m v w
  refine ⟨all mA vA wf, fun mA₂ vA₂ wf₂ h => ?_⟩
  rw [all mA vA wf, all mA₂ vA₂ wf₂, (logical_eq_of_toImg _ _ _ _ h.toImg_eq).1, h.1]

/-- **center_of_mass is layout-free**: the image is read as `*pos` of its iterator. -/
theorem C08_center_of_mass_layout_free {α : Type} (ops : C13.NumOps α) (mA₁ mA₂ : Int → α) (vA₁ vA₂ : View)
    (w₁ : vA₁.WF) (w₂ : vA₂.WF) (labels : List Int) (h : SameLogical mA₁ vA₁ mA₂ vA₂) :
    comView ops mA₁ vA₁ labels = C13.comModelG ops vA₁.shape (logical mA₁ vA₁) labels ∧
    comView ops mA₁ vA₁ labels = comView ops mA₂ vA₂ labels := by
  unfold comView
  rw [(C08_iterator_sequence_is_logical mA₁ vA₁ w₁).1, (C08_iterator_sequence_is_logical mA₂ vA₂ w₂).1,
    (logical_eq_of_toImg _ _ _ _ h.toImg_eq).1, h.1]
  exact ⟨rfl, rfl⟩

/-- **dilate is layout-free.** `dilate<T>` reads the input only as `*iter` (F7); its filter iterator is built on the
output, which `_get_output` makes C-contiguous, and the structuring element is read through its own iterator (bool)
or arrives C-contiguous (other dtypes). -/
theorem C08_dilate_layout_free (dt : DT) (mA₁ mA₂ mB₁ mB₂ : Int → Int) (vA₁ vA₂ vB₁ vB₂ : View)
    (wA₁ : vA₁.WF) (wA₂ : vA₂.WF) (wB₁ : vB₁.WF) (wB₂ : vB₂.WF)
    (raw₁ : dt.isBool = false → vB₁.strides = cStrides vB₁.shape)
    (raw₂ : dt.isBool = false → vB₂.strides = cStrides vB₂.shape)
    (hA : SameLogical mA₁ vA₁ mA₂ vA₂) (hB : SameLogical mB₁ vB₁ mB₂ vB₂) :
    dilateView dt mA₁ vA₁ mB₁ vB₁ = dilateView dt mA₂ vA₂ mB₂ vB₂ := by
  have eA := hA.toImg_eq
  have eB := hB.toImg_eq
  have hfv : mkFiltV (fun x => x != 0) (outView vA₁.shape) mB₁ vB₁ .nearest dt.isBool =
      mkFiltV (fun x => x != 0) (outView vA₁.shape) mB₂ vB₂ .nearest dt.isBool := by
    obtain ⟨hl, hs⟩ := logical_eq_of_toImg _ _ _ _ eB
    unfold mkFiltV
    simp only [filtVals_eq _ _ wB₁, filtVals_eq _ _ wB₂, hl, hs]
    cases hb : dt.isBool with
    | true => rfl
    | false =>
      simp only [Bool.false_eq_true, if_false]
      have r : ∀ (m : Int → Int) (v : View), v.strides = cStrides v.shape →
          ((List.range (shapeSize v.shape)).map fun (j : Nat) => m (v.base + (j : Int))) = logical m v := by
        intro m v hv
        unfold logical
        apply List.map_congr_left
        intro k hk
        unfold View.addr
        rw [hv, dot_cStrides _ _ (List.mem_range.1 hk)]
      have r1 := r mB₁ vB₁ (raw₁ hb)
      have r2 := r mB₂ vB₂ (raw₂ hb)
      rw [hs] at r1
      rw [r1, r2, hl]
  unfold dilateView
  simp only
  rw [← hA.1, hfv]
  split
  · rfl
  · apply List.foldl_ext
    intro res i hi
    rw [readIter_layout_free mA₁ mA₂ vA₁ vA₂ wA₁ wA₂ eA i (List.mem_range.1 hi) 0]

/-- **distance: every line is addressed by its own stride.** `distance.py` (as repaired) runs the exact 1-D pass on
`(1, n)` views `lines[idx][None, :]` of the work array: the `t`-th element `_distance.dt` reads from the line
through `p` along `axis` (`f[t*stride]`) is the logical element at `p` with coordinate `axis` replaced by `t`, for all
strides of the array. -/
theorem C08_distance_lines_layout_free {α : Type} (mem : Int → α) (v : View) (wf : v.WF) (axis : Nat)
    (p : List Nat) (hp : inside v.shape (p.map Int.ofNat) = true) (ha : axis < v.shape.length) (d : α) :
    lineVals mem v axis p =
      (List.range (v.shape.getD axis 0)).map fun (t : Nat) =>
        (toImg mem v).getD ((p.map Int.ofNat).set axis (t : Int)) d := by
  have hpl : p.length = v.shape.length := by simpa using C01.inside_length hp
  unfold lineVals
  apply List.map_congr_left
  intro t ht
  have ht' : t < v.shape.getD axis 0 := List.mem_range.1 ht
  rw [lineView_addr v axis p t (by rw [hpl, wf.len]) (by rw [hpl]; exact ha)]
  have hin := C05.inside_set v.shape (p.map Int.ofNat) axis (t : Int) hp (by omega) (by exact_mod_cast ht')
  rw [toImg_getD mem v _ d hin]
  unfold View.addr
  rw [← elemOffset_ofNat, List.map_set]
  rfl

/-- **F15, erode (as repaired).** Started on an output nobody has written (`none` everywhere), `erode<T>` leaves no
cell unwritten — also for an empty structuring element, where it fills the output with the dtype maximum. -/
theorem C08_defined_everywhere_erode (dt : DT) (mA : Int → Int) (vA : View) (mB : Int → Int) (vB : View) :
    (erodeView dt mA vA mB vB).size = shapeSize vA.shape ∧ AllSome (erodeView dt mA vA mB vB) := by
  unfold erodeView
  simp only
  split <;> exact pixelLoop_defined _ _

/-- **F15, dilate.** `std::fill` writes every cell before the scatter, and the scatter only overwrites. -/
theorem C08_defined_everywhere_dilate (dt : DT) (mA : Int → Int) (vA : View) (mB : Int → Int) (vB : View) :
    (dilateView dt mA vA mB vB).size = shapeSize vA.shape ∧ AllSome (dilateView dt mA vA mB vB) :=
  dilateView_defined dt mA vA mB vB

/-- **F15, the one-write-per-pixel kernels**: locmin_max and borders (on the zero-filled output they are handed),
convolve, mean_filter, template_match, hitmiss write every cell of their output. -/
theorem C08_defined_everywhere_pixel_kernels (m : Mode) (isMin : Bool) (mA : Int → Int) (vA : View) (mB : Int → Int)
    (vB : View) :
    AllSome (locView isMin mA vA mB vB) ∧ AllSome (bordersView m mA vA mB vB) ∧
    AllSome (convolveView 0 (fun x => x == 0) id m mA vA mB vB) ∧ AllSome (meanView m mA vA mB vB) ∧
    AllSome (tmView m mA vA mB vB) ∧ AllSome (hitmissView mA vA mB vB) :=
  ⟨(markLoop_defined _ _).2, (markLoop_defined _ _).2, (pixelLoop_defined _ _).2, (pixelLoop_defined _ _).2,
   (pixelLoop_defined _ _).2, (pixelLoop_defined _ _).2⟩

/-- **F15, cwatershed (as repaired: both outputs zero-filled).** The label and the lines output keep the size of
the zero-filled arrays the kernel starts from and are only overwritten in place: a pixel no marker reaches holds the
zero of the fill, never stale memory. -/
theorem C08_defined_everywhere_cwatershed (mS : Int → Int) (vS : View) (mM : Int → Int) (vM : View)
    (mB : Int → Int) (vB : View) :
    (cwatershedView mS vS mM vM mB vB).res.size = shapeSize vS.shape ∧
    (cwatershedView mS vS mM vM mB vB).lines.size = shapeSize vS.shape :=
  modelRun_sized _ _ _ _ _ (modelInit_sized _ _)

/-- **F15, rank_filter.** With `rank` outside `[0, N2)` the native kernel returns at once and *no* cell is written
(the defect b48a666 repaired by a guard in the wrapper). Inside the guard, for every border mode that delivers or
replaces every sample (nearest, wrap, reflect, mirror, constant) and — in `ignore` mode — for every neighbourhood
that contains its centre, every cell of the output is written with a defined value (the `nth_element` answer
`C07.rankAt` of `C08_rankView_eq_C07`): the gathered sample list is never empty, so `currank < n`.
The hypothesis on `ignore` mode is necessary: see `C08_rank_filter_ignore_stale_witness`. -/
theorem C08_defined_everywhere_rank_filter (m : Mode) (rank : Int) (mA : Int → Int) (vA : View)
    (mB : Int → Int) (vB : View) (h : FilterArgs vA vB true) :
    let fv := mkFiltV (fun x => x != 0) vA mB vB m true
    ((rank < 0 ∨ rank ≥ (fv.fi.size : Int)) →
      rankView m rank mA vA mB vB = Array.replicate (shapeSize vA.shape) none) ∧
    (0 ≤ rank ∧ rank < (fv.fi.size : Int) →
      (m ≠ .ignore ∨ (logical mB vB).getD (ravelI vB.shape (centreOf vB.shape)) 0 ≠ 0) →
      (rankView m rank mA vA mB vB).size = shapeSize vA.shape ∧ AllSome (rankView m rank mA vA mB vB)) := by
  intro fv
  constructor
  · intro hr
    unfold rankView
    simp only
    rw [if_pos hr]
  · intro hr hc
    exact rankView_defined m rank mA vA mB vB h hr hc

/-- **the `ignore`-mode hypothesis of `C08_defined_everywhere_rank_filter` cannot be dropped.** A 1×2 image, the
neighbourhood `[[1, 0, 0]]` (only the left neighbour, centre not a member), `mode = ignore`, `rank = 0` (inside the
wrapper's guard `0 ≤ rank < 1`): at pixel 0 every sample is outside the image and dropped, `nth_element` has no
element to deliver — the model's cell is `none` (the native kernel stores the stale slot `neighbours[0]` of its
scratch vector there). -/
theorem C08_rank_filter_ignore_stale_witness :
    let mA : Int → Int := fun a => [5, 7].getD a.toNat 0
    let mB : Int → Int := fun a => [1, 0, 0].getD a.toNat 0
    let vA : View := { base := 0, shape := [1, 2], strides := [2, 1], carray := true }
    let vB : View := { base := 0, shape := [1, 3], strides := [3, 1], carray := true }
    (mkFiltV (fun x => x != 0) vA mB vB .ignore true).fi.size = 1 ∧
    (rankView .ignore 0 mA vA mB vB).toList = [none, some 5] := by
  decide +kernel

/-! non-vacuity: a reversed, transposed, gapped 3×2×2 view (negative and non-monotone strides, offset
    base) is well-formed; the iterator, `at_flat` and the address map agree on all 12 elements, and it
    presents the same logical array as a C-contiguous view of a permuted memory. -/
example :
    let v : View := { base := 10, shape := [3, 2, 2], strides := [-2, 12, -6] }
    v.strides.length = v.shape.length ∧
    (List.range 12).map (fun k => ((Iter.begin v).incrN k).data) = [10, 4, 22, 16, 8, 2, 20, 14, 6, 0, 18, 12] ∧
    (List.range 12).map v.atFlat = [10, 4, 22, 16, 8, 2, 20, 14, 6, 0, 18, 12] ∧
    (List.range 12).map (fun k => v.addr (unravel v.shape k)) = [10, 4, 22, 16, 8, 2, 20, 14, 6, 0, 18, 12] := by
  decide

/-! non-vacuity (Round 2): a Fortran-ordered and a C-contiguous 2×2 view of the same logical image `[[5,9],[3,1]]`, a 1×2
    structuring element: the hypotheses of `C08_erode_layout_free` hold (compress = false), and the two runs of the
    view-level `erode<uint8>` agree cell by cell and leave no cell unwritten. -/
namespace Mahotas.C08.Example
def memF : Int → Int := fun a => [5, 3, 9, 1].getD a.toNat 0
def memC : Int → Int := fun a => [5, 9, 3, 1].getD a.toNat 0
def memB : Int → Int := fun a => [1, 1].getD a.toNat 0
def vF : View := { base := 0, shape := [2, 2], strides := [1, 2] }
def vC : View := { base := 0, shape := [2, 2], strides := [2, 1], carray := true }
def vB : View := { base := 0, shape := [1, 2], strides := [2, 1], carray := true }

example : FilterArgs vF vB false ∧ FilterArgs vC vB false ∧ SameLogical memF vF memC vC ∧
    erodeView (dtU 8) memF vF memB vB = erodeView (dtU 8) memC vC memB vB ∧
    (erodeView (dtU 8) memF vF memB vB).toList = [some 4, some 4, some 2, some 0] := by
  refine ⟨⟨⟨rfl, by decide⟩, ⟨rfl, by decide⟩, by (unfold View.Pos; decide), by (unfold View.Pos; decide), rfl, fun _ => rfl⟩,
          ⟨⟨rfl, by decide⟩, ⟨rfl, by decide⟩, by (unfold View.Pos; decide), by (unfold View.Pos; decide), rfl, fun _ => rfl⟩,
          ⟨rfl, by decide⟩, by decide, by decide⟩
end Mahotas.C08.Example


/-! ## Round 3 — every view kernel *is* the owning property's logical model (value-level ties), and therefore returns
the property's specification for ANY memory layout of its arguments (`C08_<kernel>_view_correct`)

`toImg mem v` / `logical mem v` are the logical array (C order) a (memory, view) pair presents; `FilterArgs` is what the
wrappers and native guards establish (well-formed views, at least one element per axis, equal rank, and a
C-contiguous filter where the kernel indexes its raw data pointer). Unwritten cells are `none`: an equation with
`….map some` on the right also says that every cell is written (F15). -/

namespace Mahotas.C08
theorem View.Pos.pos {v : View} (h : v.Pos) : ∀ d ∈ v.shape, 0 < d := fun d hd => by have := h d hd; omega

theorem map_some_getD {β : Type} (X : Array β) (i : Nat) (d : β) (hi : i < X.size) :
    (X.map some).getD i none = some (X.getD i d) := by
  simp [Array.getD_eq_getD_getElem?, hi]
end Mahotas.C08

/-- **erode over views = `C01.erodeModel`.** For every dtype, every (memory, view) pair of the image (any strides:
negative, zero, non-monotone, offset) and of the structuring element: the output of the view-level `erode<T>` is, cell
by cell, `some` of the array `C01.erodeModel` computes from the *logical* image and the support of the *logical*
element — the very definition C01's theorems are about. -/
theorem C08_erodeView_eq_C01 (dt : DT) (mA : Int → Int) (vA : View) (mB : Int → Int) (vB : View)
    (h : FilterArgs vA vB dt.isBool) :
    erodeView dt mA vA mB vB =
      (C01.erodeModel dt (toImg mA vA) (C01.support vB.shape (logical mB vB).toArray dt.isBool)).map some :=
  erodeView_eq_C01 dt mA vA mB vB h

/-- **erode is correct for any memory layout.** For every integer dtype and bool, every view of an in-range image and
every view of an admissible structuring element, the view-level kernel writes at every pixel the lattice definition
`min_{k ∈ Bc} saturate(A[clamp(p+k)] − Bc[k])` of the logical arrays (`C01_erode_model_eq_spec` composed with the tie). -/
theorem C08_erode_view_correct (dt : DT) (hdt : dt.WF ∨ dt = dtBool) (mA : Int → Int) (vA : View) (mB : Int → Int)
    (vB : View) (h : FilterArgs vA vB dt.isBool) (hA : C01.ImageInRange dt (toImg mA vA))
    (hB : C01.AdmissibleElem dt (C01.support vB.shape (logical mB vB).toArray dt.isBool)) :
    erodeView dt mA vA mB vB =
      (((allPos vA.shape).map (C01.erodeSpecAt dt (toImg mA vA)
        (C01.support vB.shape (logical mB vB).toArray dt.isBool))).toArray).map some := by
  rw [erodeView_eq_C01 dt mA vA mB vB h,
    (C01_erode_model_eq_spec dt hdt (toImg mA vA) _ h.posA.pos hA hB).2]
  rfl

/-- **dilate over views = `C01.dilateModel`.** The scatter kernel reads the input through its iterator and writes
through a filter iterator built on the C-contiguous output: `i + Σ cstride·(q − p)` is the flat index of the clamped
target `q`, and the `Option` cells of the view model are `some` of the cells of C01's scatter model throughout. -/
theorem C08_dilateView_eq_C01 (dt : DT) (mA : Int → Int) (vA : View) (mB : Int → Int) (vB : View)
    (wfA : vA.WF) (h : FilterArgs (outView vA.shape) vB dt.isBool) :
    dilateView dt mA vA mB vB =
      (C01.dilateModel dt (toImg mA vA) (C01.support vB.shape (logical mB vB).toArray dt.isBool)).map some :=
  dilateView_eq_C01 dt mA vA mB vB wfA h

/-- **dilate is correct for any memory layout** at every pixel C01 proves the scatter kernel correct at (regular —
star-shaped, flat — elements: everywhere; any admissible element: where the element box fits): the written cell is the
lattice definition `max_{k ∈ Bc} saturate(A[clamp(q−k)] + Bc[k])` of the logical arrays. -/
theorem C08_dilate_view_correct (dt : DT) (hdt : C01.DTypeOK dt) (mA : Int → Int) (vA : View) (mB : Int → Int)
    (vB : View) (wfA : vA.WF) (h : FilterArgs (outView vA.shape) vB dt.isBool)
    (hA : C01.ImageInRange dt (toImg mA vA))
    (hB : C01.AdmissibleElem dt (C01.support vB.shape (logical mB vB).toArray dt.isBool))
    (q : List Int) (hq : inside vA.shape q = true)
    (hobs : (C01.starShaped vB.shape (((C01.support vB.shape (logical mB vB).toArray dt.isBool).filter
                (C01.isMember dt)).map (·.1)) &&
             C01.flatHeights (((C01.support vB.shape (logical mB vB).toArray dt.isBool).filter
                (C01.isMember dt)).map (·.2)) ||
             C01.boxInterior vA.shape vB.shape q) = true) :
    (dilateView dt mA vA mB vB).getD (ravelI vA.shape q) none =
      some (C01.dilateSpecAt dt (toImg mA vA) (C01.support vB.shape (logical mB vB).toArray dt.isBool) q) := by
  have hsz := (dilateView_defined dt mA vA mB vB).1
  have hspec := C01_dilate_eq_spec_where_observed dt hdt (toImg mA vA) vB.shape
    (C01.support vB.shape (logical mB vB).toArray dt.isBool) q h.posA.pos h.rank.symm
    (C01_support_offsets_in_box vB.shape _ dt.isBool).1 hA hB hq hobs
  rw [dilateView_eq_C01 dt mA vA mB vB wfA h] at hsz ⊢
  rw [map_some_getD _ _ dt.lo (by rw [Array.size_map] at hsz; rw [hsz]; exact C01.ravelI_lt _ _ hq)]
  exact congrArg some hspec

/-- **convolve over views = `C06.convAcc` tabulated** (then the cast `T(cur)`), in any arithmetic — the driver runs
the polymorphic kernel at exact integers, C06 at `Float`. -/
theorem C08_convolveView_eq_C06 {α : Type} [Add α] [Mul α] [Zero α] (isZero : α → Bool) (cast : α → α) (m : Mode)
    (mA : Int → α) (vA : View) (mW : Int → α) (vW : View) (h : FilterArgs vA vW true) :
    convolveView 0 isZero cast m mA vA mW vW =
      (((allPos vA.shape).map fun p =>
        cast (C06.convAcc m (toImg mA vA) (C06.support isZero vW.shape (logical mW vW).toArray) p)).toArray).map
        some :=
  convolveView_eq_C06 isZero cast m mA vA mW vW h

/-- **convolve is correct for any memory layout.** Over every commutative semiring, every border mode, every view of
the image and of the weights: each output cell is the cast of the defining sum `Σ_j w[j]·f[border(p + j − c)]` of the
logical arrays (`C06_convolve_eq_spec`). -/
theorem C08_convolve_view_correct {R : Type} [CommSemiring R] (isZero : R → Bool)
    (hz : ∀ x, isZero x = true → x = 0) (cast : R → R) (m : Mode)
    (mA : Int → R) (vA : View) (mW : Int → R) (vW : View) (h : FilterArgs vA vW true) :
    convolveView 0 isZero cast m mA vA mW vW =
      (((allPos vA.shape).map fun p =>
        cast (C06.convSpec m (toImg mA vA) vW.shape (logical mW vW).toArray p)).toArray).map some := by
  rw [convolveView_eq_C06 isZero cast m mA vA mW vW h]
  congr 2
  apply List.map_congr_left
  intro p _
  rw [C06_convolve_eq_spec isZero hz m (toImg mA vA) h.posA.pos]

/-- **rank_filter over views = `C07.rankAt`** at every pixel (`none` where the native kernel writes nothing defined). -/
theorem C08_rankView_eq_C07 (m : Mode) (rank : Int) (mA : Int → Int) (vA : View) (mB : Int → Int) (vB : View)
    (h : FilterArgs vA vB true) :
    rankView m rank mA vA mB vB =
      ((allPos vA.shape).map
        (C07.rankAt m (toImg mA vA) (C07.footprint vB.shape (logical mB vB).toArray) rank)).toArray :=
  rankView_eq_C07 m rank mA vA mB vB h

/-- **rank_filter (median_filter) is correct for any memory layout**: every cell is the specification
`C07.rankSpecAt` — the `k`-th smallest of the samples the mathematical border rule selects — of the logical arrays. -/
theorem C08_rank_filter_view_correct (m : Mode) (rank : Int) (mA : Int → Int) (vA : View) (mB : Int → Int)
    (vB : View) (h : FilterArgs vA vB true) :
    rankView m rank mA vA mB vB =
      ((allPos vA.shape).map
        (C07.rankSpecAt m (toImg mA vA) (C07.footprint vB.shape (logical mB vB).toArray) rank)).toArray := by
  rw [rankView_eq_C07 m rank mA vA mB vB h]
  congr 1
  apply List.map_congr_left
  intro p _
  exact C07_rank_eq_spec m (toImg mA vA) h.posA.pos _ rank p

/-- **mean_filter over views = `C07.meanParts`** (`(sum, n)` per pixel). -/
theorem C08_meanView_eq_C07 (m : Mode) (mA : Int → Int) (vA : View) (mB : Int → Int) (vB : View)
    (h : FilterArgs vA vB true) :
    meanView m mA vA mB vB =
      (((allPos vA.shape).map
        (C07.meanParts m (toImg mA vA) (C07.footprint vB.shape (logical mB vB).toArray))).toArray).map some :=
  meanView_eq_C07 m mA vA mB vB h

/-- **mean_filter is correct for any memory layout**: exact sum and number of the samples the border rule selects. -/
theorem C08_mean_filter_view_correct (m : Mode) (mA : Int → Int) (vA : View) (mB : Int → Int) (vB : View)
    (h : FilterArgs vA vB true) :
    meanView m mA vA mB vB =
      (((allPos vA.shape).map
        (C07.meanSpecParts m (toImg mA vA) (C07.footprint vB.shape (logical mB vB).toArray))).toArray).map some := by
  rw [meanView_eq_C07 m mA vA mB vB h]
  congr 2
  apply List.map_congr_left
  intro p _
  exact C07_mean_exact m (toImg mA vA) h.posA.pos _ p

/-- **template_match over views = `C07.tmAt`** (template C-contiguous, as the wrapper passes it). -/
theorem C08_tmView_eq_C07 (m : Mode) (mA : Int → Int) (vA : View) (mT : Int → Int) (vT : View)
    (h : FilterArgs vA vT false) :
    tmView m mA vA mT vT =
      (((allPos vA.shape).map
        (C07.tmAt m (toImg mA vA) vT.shape (logical mT vT).toArray)).toArray).map some :=
  tmView_eq_C07 m mA vA mT vT h

/-- **template_match is correct for any memory layout of the image**: the sum of squared differences `C07.tmSpecAt`. -/
theorem C08_template_match_view_correct (m : Mode) (mA : Int → Int) (vA : View) (mT : Int → Int) (vT : View)
    (h : FilterArgs vA vT false) :
    tmView m mA vA mT vT =
      (((allPos vA.shape).map
        (C07.tmSpecAt m (toImg mA vA) vT.shape (logical mT vT).toArray)).toArray).map some := by
  rw [tmView_eq_C07 m mA vA mT vT h]
  congr 2
  apply List.map_congr_left
  intro p _
  exact C07_template_match_ssd m (toImg mA vA) h.posA.pos _ _ p

/-- **locmin_max over views = `C14.locModel`** with the neighbourhood `C14.neighbours` (centre removed; a centre entry
left in `Bc` never beats the pixel itself, so it changes nothing). -/
theorem C08_locView_eq_C14 (isMin : Bool) (mA : Int → Int) (vA : View) (mB : Int → Int) (vB : View)
    (h : FilterArgs vA vB true) :
    locView isMin mA vA mB vB =
      (C14.locModel isMin (toImg mA vA) (C14.neighbours vB.shape (logical mB vB).toArray)).map some :=
  locView_eq_C14 isMin mA vA mB vB h

/-- **locmax/locmin are correct for any memory layout**: with a star-shaped neighbourhood (cross, box, disk) a pixel is
marked exactly when no neighbour *inside the image* beats it (`C14_locmax_eq_spec`). -/
theorem C08_locminmax_view_correct (isMin : Bool) (mA : Int → Int) (vA : View) (mB : Int → Int) (vB : View)
    (h : FilterArgs vA vB true)
    (hstar : C14.StarShaped (C14.neighbours vB.shape (logical mB vB).toArray)) :
    locView isMin mA vA mB vB =
      (((allPos vA.shape).map
        (C14.locSpecAt isMin (toImg mA vA) (C14.neighbours vB.shape (logical mB vB).toArray))).toArray).map some := by
  rw [locView_eq_C14 isMin mA vA mB vB h]
  unfold C14.locModel
  congr 2
  apply List.map_congr_left
  intro p hp
  obtain ⟨hin, hpl⟩ := C10.mem_allPos _ _ hp
  apply C14_locmax_eq_spec isMin (toImg mA vA) _ p hin _ hstar
  intro k hk
  rw [C14_neighbours_eq] at hk
  simp only [List.mem_map] at hk
  obtain ⟨kk, _, rfl⟩ := hk
  rw [offAt_length, hpl]
  exact h.rank.symm

/-- **labeled.borders over views = `C13.bordersModel`.** -/
theorem C08_bordersView_eq_C13 (m : Mode) (mA : Int → Int) (vA : View) (mB : Int → Int) (vB : View)
    (h : FilterArgs vA vB true) :
    bordersView m mA vA mB vB =
      ((C13.bordersModel m vA.shape (logical mA vA) (C03.offsets vB.shape (logical mB vB).toArray)).map
        some).toArray :=
  bordersView_eq_C13 m mA vA mB vB h

/-- **labeled.borders is correct for any memory layout**: a pixel is marked exactly when one of the neighbours the
element and the mathematical border rule of the mode define carries a different label (`C13_borders_spec`). -/
theorem C08_borders_view_correct (m : Mode) (mA : Int → Int) (vA : View) (mB : Int → Int) (vB : View)
    (h : FilterArgs vA vB true) :
    bordersView m mA vA mB vB =
      ((C13.bordersSpec m vA.shape (logical mA vA) (C03.offsets vB.shape (logical mB vB).toArray)).map
        some).toArray := by
  rw [bordersView_eq_C13 m mA vA mB vB h, C13_borders_spec m vA.shape _ _ h.posA.pos]

/-- **hitmiss over views = `C14.hitmissAt`, no bound assumed.** Wherever the loop control lets the template be
evaluated the template fits, so every `i + delta` is the flat index of the inside position `p + k − centre` (the
argument of `C10_hitmiss_in_bounds`, re-derived here for the pointwise loop control `C14.hmEvaluated`, odd and even
template sizes); `at_flat` (F8) then reads that logical element, whatever the strides. -/
theorem C08_hitmissView_eq_C14 (mA : Int → Int) (vA : View) (mB : Int → Int) (vB : View) (wfA : vA.WF) (wfB : vB.WF)
    (hl : vB.shape.length = vA.shape.length) :
    hitmissView mA vA mB vB =
      (((allPos vA.shape).map
        (C14.hitmissAt (toImg mA vA) vB.shape (C14.hmEntries vB.shape (logical mB vB).toArray))).toArray).map
        some :=
  hitmissView_eq_C14 mA vA mB vB wfA wfB hl

/-- **hitmiss is layout-free** (replaces `C08_hitmiss_layout_free_partial`: the in-bounds hypothesis is gone). -/
theorem C08_hitmiss_layout_free (mA₁ mA₂ mB₁ mB₂ : Int → Int) (vA₁ vA₂ vB₁ vB₂ : View)
    (wA₁ : vA₁.WF) (wA₂ : vA₂.WF) (wB₁ : vB₁.WF) (wB₂ : vB₂.WF) (hl : vB₁.shape.length = vA₁.shape.length)
    (hA : SameLogical mA₁ vA₁ mA₂ vA₂) (hB : SameLogical mB₁ vB₁ mB₂ vB₂) :
    hitmissView mA₁ vA₁ mB₁ vB₁ = hitmissView mA₂ vA₂ mB₂ vB₂ := by
  rw [hitmissView_eq_C14 mA₁ vA₁ mB₁ vB₁ wA₁ wB₁ hl,
    hitmissView_eq_C14 mA₂ vA₂ mB₂ vB₂ wA₂ wB₂ (by rw [← hA.1, ← hB.1]; exact hl),
    hA.toImg_eq, (logical_eq_of_toImg _ _ _ _ hB.toImg_eq).1, hA.1, hB.1]

/-- **hitmiss is correct for any memory layout**: for templates with odd sides the output is 1 exactly where the
whole template lies inside the image and every 0/1 entry equals the pixel under it (`C14_hitmiss_eq_spec`). -/
theorem C08_hitmiss_view_correct (mA : Int → Int) (vA : View) (mB : Int → Int) (vB : View) (wfA : vA.WF)
    (wfB : vB.WF) (hl : vB.shape.length = vA.shape.length) (hne : vA.shape ≠ [])
    (hodd : ∀ b ∈ vB.shape, b % 2 = 1) :
    hitmissView mA vA mB vB =
      (((allPos vA.shape).map
        (C14.hitmissSpecAt (toImg mA vA) vB.shape (logical mB vB).toArray)).toArray).map some := by
  rw [hitmissView_eq_C14 mA vA mB vB wfA wfB hl]
  congr 2
  apply List.map_congr_left
  intro p hp
  exact C14_hitmiss_eq_spec (toImg mA vA) vB.shape _ p hodd hne hl (C10.mem_allPos _ _ hp).2

/-- **bbox is correct for any memory layout** (both code paths): all zeros for an image without non-zero pixel,
otherwise the box left by the scan of the logical array, which `C13_bbox_generic_tight` shows tight on every axis. -/
theorem C08_bbox_view_correct (mA : Int → Int) (vA : View) (wf : vA.WF) (hnd : 0 < vA.shape.length) :
    let data := logical mA vA
    let ps := ((List.range data.length).filter fun i => data.getD i 0 ≠ 0).map (unravelI vA.shape)
    let ext := (List.range data.length).foldl (fun ext i =>
      if data.getD i 0 ≠ 0 then C13.bboxUpdate ext (unravelI vA.shape i) else ext) (C13.bboxInit vA.shape)
    (ps = [] → bboxView mA vA = (C13.bboxInit vA.shape).map (fun _ => 0)) ∧
    (ps ≠ [] → bboxView mA vA = ext) := by
  intro data ps ext
  rw [(C08_bbox_layout_free mA vA wf).1]
  exact C13_bbox_result vA.shape (logical mA vA) (logical_length mA vA) hnd

/-- **center_of_mass is correct for any memory layout**: over any field, `Σ v·coord_j / Σ v` per label and axis of the
logical image (`C13_com_eq`). -/
theorem C08_center_of_mass_view_correct {α : Type} [Field α] (mA : Int → α) (vA : View) (wf : vA.WF)
    (labels : List Int) :
    comView (C13.fieldOps α) mA vA labels =
      (List.range ((C13.maxOf labels).toNat + 1)).flatMap fun l =>
        (List.range vA.shape.length).map fun j =>
          (((List.range (logical mA vA).length).filter fun i => (labels.getD i 0).toNat = l).map fun i =>
              (logical mA vA).getD i 0 * (((unravel vA.shape i).getD j 0 : Nat) : α)).sum /
          (((List.range (logical mA vA).length).filter fun i => (labels.getD i 0).toNat = l).map fun i =>
              (logical mA vA).getD i 0).sum := by
  rw [(C08_center_of_mass_layout_free (C13.fieldOps α) mA mA vA vA wf wf labels ⟨rfl, fun _ _ => rfl⟩).1]
  exact C13_com_eq vA.shape (logical mA vA) labels


/-- **cwatershed is correct for any memory layout** (composition of `C08_cwatershed_layout_free` with C04-T4/T5): for
every view of the surface, of the markers and of the structuring element, in the label output of the view kernel
(i) every marker pixel keeps its label, (ii) every labelled pixel is joined to a marker of its own label by
neighbourhood steps inside the image along which the label is constant, (iii) a pixel no marker can reach is 0 —
all stated on the logical arrays. -/
theorem C08_cwatershed_view_correct (mS mM mB : Int → Int) (vS vM vB : View) (wS : vS.WF) (wM : vM.WF) (wB : vB.WF)
    (hm : vM.shape = vS.shape) (hb : vB.shape.length = vS.shape.length) (p : List Int)
    (hp : inside vS.shape p = true) :
    let labels : Img Int := ⟨vS.shape, (cwatershedView mS vS mM vM mB vB).res⟩
    let offs := C04.offsets vB.shape (logical mB vB).toArray
    ((toImg mM vM).getD p 0 ≠ 0 → labels.getD p 0 = (toImg mM vM).getD p 0) ∧
    (labels.getD p 0 ≠ 0 → C04.Joined vS.shape offs (toImg mM vM) (fun r => labels.getD r 0) p) ∧
    (¬ C04.Reach vS.shape offs (toImg mM vM) p → labels.getD p 0 = 0) := by
  intro labels offs
  have e := (C08_cwatershed_layout_free mS mS mM mM mB mB vS vS vM vM vB vB wS wS wM wM wB wB
    ⟨rfl, fun _ _ => rfl⟩ ⟨rfl, fun _ _ => rfl⟩ ⟨rfl, fun _ _ => rfl⟩).1
  have hl : labels = C04.modelLabels (toImg mS vS) (toImg mM vM) vB.shape (logical mB vB).toArray := by
    show (⟨vS.shape, (cwatershedView mS vS mM vM mB vB).res⟩ : Img Int) = _
    rw [e]; rfl
  rw [hl]
  exact ⟨fun hk => C04_markers_keep_labels _ _ _ _ hm hb p hp hk,
    fun h => C04_regions_connected _ _ _ _ hm hb p hp h,
    fun h => C04_unreached_zero _ _ _ _ hm hb p hp h⟩

/-- **F15 and value-level tie of the binary fast path.** `fast_binary_dilate_erode_2d` (taken by `py_erode` /
`py_dilate` for 2-D bool C-arrays) only ever *updates* its output in the row loops (`&=`, `|=`). Started on an output
nobody has written (`none` everywhere; an update of an unwritten cell leaves it unwritten), for every image shape
`Ny × Nx`, every 2-D structuring element in any memory layout (read through `Bc.at(y, x)`) and both branches: the
`std::copy` / `std::fill_n` in front of the loops assigns every cell, no cell is unwritten at the end, and the output is
cell by cell `some` of C01's row-loop model (`fastErodeLoops` / `fastDilateLoops`) run on the logical arrays. -/
theorem C08_defined_everywhere_fast_binary (isErosion : Bool) (mA : Int → Int) (vA : View) (mB : Int → Int)
    (vB : View) (Ny Nx By Bx : Nat) (hA : vA.shape = [Ny, Nx]) (hB : vB.shape = [By, Bx]) (wfA : vA.WF)
    (hc : vA.carray = true) :
    fastBinaryView isErosion mA vA mB vB =
      (if isErosion then C01.fastErodeLoops (toImg mA vA) vB.shape (logical mB vB).toArray
       else C01.fastDilateLoops (toImg mA vA) vB.shape (logical mB vB).toArray).map some ∧
    AllSome (fastBinaryView isErosion mA vA mB vB) := by
  have h := fastBinaryView_eq isErosion mA vA mB vB Ny Nx By Bx hA hB wfA hc
  refine ⟨h, ?_⟩
  rw [h]
  intro o ho
  simp only [Array.toList_map, List.mem_map] at ho
  obtain ⟨x, _, rfl⟩ := ho
  rfl

/-- **the binary fast path of erode is correct** (composition with `C01_fast_erode_loops_eq_pointwise`): for a 0/1
image the cell the fast path leaves at every pixel `(y, x)` is the lattice definition `C01.erodeSpecAt` over the
compressed support of the logical element — the same value the generic kernel writes (`C08_erode_view_correct`), so
the dispatch of `py_erode` on `ISCARRAY` (a property of the memory layout) is unobservable. -/
theorem C08_fast_erode_view_correct (mA : Int → Int) (vA : View) (mB : Int → Int) (vB : View) (Ny Nx By Bx : Nat)
    (hA : vA.shape = [Ny, Nx]) (hB : vB.shape = [By, Bx]) (wfA : vA.WF) (hc : vA.carray = true)
    (h01 : ∀ q, (toImg mA vA).getD q 0 = 0 ∨ (toImg mA vA).getD q 0 = 1)
    (y x : Int) (hp : inside vA.shape [y, x] = true) :
    pyErodeView dtBool mA vA mB vB = fastBinaryView true mA vA mB vB ∧
    (fastBinaryView true mA vA mB vB).getD (ravelI vA.shape [y, x]) none =
      some (C01.erodeSpecAt dtBool (toImg mA vA) (C01.support vB.shape (logical mB vB).toArray true) [y, x]) := by
  constructor
  · unfold pyErodeView
    rw [if_pos (by simp [dtBool, hA, hc])]
  · have hdata : (toImg mA vA).data.size = (toImg mA vA).size := by
      simp [toImg, Img.size, logical_length]
    obtain ⟨hsz, _, hspec⟩ := C01_fast_erode_loops_eq_pointwise (toImg mA vA) Ny Nx vB.shape (logical mB vB).toArray
      y x hA hdata h01 hp
    rw [(C08_defined_everywhere_fast_binary true mA vA mB vB Ny Nx By Bx hA hB wfA hc).1]
    simp only [if_true]
    rw [map_some_getD _ _ 0 (by rw [hsz]; exact C01.ravelI_lt _ _ hp)]
    congr 1
    exact hspec By Bx hB (by simp [logical_length, hB, shapeSize])


/-- **the binary fast path of dilate equals the generic kernel, for any layout of `Bc`** (composition with
`C01_fast_dilate_loops_eq_pointwise` and `C01_fast_dilate_eq_generic`): on a 0/1 image the fast path taken by
`py_dilate` for 2-D bool C-arrays writes exactly the array the generic view kernel `dilateView` writes — the
`ISCARRAY` dispatch, a property of the memory layout, is unobservable, and `C08_dilate_view_correct` applies to both. -/
theorem C08_fast_dilate_view_eq_generic (mA : Int → Int) (vA : View) (mB : Int → Int) (vB : View) (Ny Nx By Bx : Nat)
    (hA : vA.shape = [Ny, Nx]) (hB : vB.shape = [By, Bx]) (wfA : vA.WF) (hc : vA.carray = true)
    (h : FilterArgs (outView vA.shape) vB true)
    (h01 : ∀ q, (toImg mA vA).getD q 0 = 0 ∨ (toImg mA vA).getD q 0 = 1) :
    pyDilateView dtBool mA vA mB vB = fastBinaryView false mA vA mB vB ∧
    fastBinaryView false mA vA mB vB = dilateView dtBool mA vA mB vB := by
  constructor
  · unfold pyDilateView
    rw [if_pos (by simp [dtBool, hA, hc])]
  · have hdata : (toImg mA vA).data.size = (toImg mA vA).size := by
      simp [toImg, Img.size, logical_length]
    have hb : dtBool.isBool = true := rfl
    rw [(C08_defined_everywhere_fast_binary false mA vA mB vB Ny Nx By Bx hA hB wfA hc).1,
      dilateView_eq_C01 dtBool mA vA mB vB wfA (hb ▸ h)]
    simp only [Bool.false_eq_true, if_false, hb]
    rw [C01_fast_dilate_loops_eq_pointwise (toImg mA vA) Ny Nx vB.shape _ hA hdata h01, hB,
      C01_fast_dilate_eq_generic (toImg mA vA) Ny Nx By Bx _ hA hdata h01
        (by simp [logical_length, hB, shapeSize])]


/-! non-vacuity (Round 3). (i) The Fortran-ordered 2×2 view of `[[5,9],[3,1]]` and the 1×2 element of the Round-2 example
    meet the hypotheses of `C08_erodeView_eq_C01`; the right-hand side is the non-trivial array `[4,4,2,0]` of
    `C01.erodeModel` on the logical arrays. (ii) hitmiss on a 3×3 Fortran-ordered view with a 3×3 template in a
    *reversed* layout: the centre pixel is evaluated (so the in-bounds argument is exercised: eight `i + delta ≠ i`) and
    matches. (iii) the binary fast path on a 2×3 C-array with the element `[[1,1]]` (centre set: `std::copy`) and `[[1,0]]`
    read through negative strides (centre not set: `std::fill_n`): every cell defined, values as C01's row loops. -/
namespace Mahotas.C08.Example
theorem fa : FilterArgs vF vB false :=
  ⟨⟨rfl, by decide⟩, ⟨rfl, by decide⟩, by (unfold View.Pos; decide), by (unfold View.Pos; decide), rfl, fun _ => rfl⟩

example : erodeView (dtU 8) memF vF memB vB =
      (C01.erodeModel (dtU 8) (toImg memF vF) (C01.support vB.shape (logical memB vB).toArray false)).map some ∧
    (C01.erodeModel (dtU 8) (toImg memF vF) (C01.support vB.shape (logical memB vB).toArray false)).toList
      = [4, 4, 2, 0] :=
  ⟨C08_erodeView_eq_C01 (dtU 8) memF vF memB vB fa, by decide +kernel⟩

def memH : Int → Int := fun a => [1, 0, 1, 0, 1, 0, 1, 1, 0].getD a.toNat 0      -- Fortran order of [[1,0,1],[0,1,1],[1,0,0]]
def vH : View := { base := 0, shape := [3, 3], strides := [1, 3] }
def memT : Int → Int := fun a => [0, 0, 1, 1, 1, 0, 1, 0, 1].getD a.toNat 0      -- the template, stored reversed
def vT : View := { base := 8, shape := [3, 3], strides := [-3, -1] }

example : vH.WF ∧ vT.WF ∧ logical memH vH = [1, 0, 1, 0, 1, 1, 1, 0, 0] ∧ logical memT vT = [1, 0, 1, 0, 1, 1, 1, 0, 0] ∧
    C14.hmEvaluated vH.shape vT.shape (unravelI vH.shape 4) = true ∧
    (hitmissView memH vH memT vT).toList = [some 0, some 0, some 0, some 0, some 1, some 0, some 0, some 0, some 0] := by
  refine ⟨⟨rfl, by decide⟩, ⟨rfl, by decide⟩, by decide +kernel, by decide +kernel, by decide +kernel, by decide +kernel⟩

def memI : Int → Int := fun a => [1, 1, 0, 1, 1, 1].getD a.toNat 0
def vI : View := { base := 0, shape := [2, 3], strides := [3, 1], carray := true }
def memE : Int → Int := fun a => [0, 1].getD a.toNat 0                           -- `[[1,0]]` stored reversed
def vE : View := { base := 1, shape := [1, 2], strides := [-2, -1] }

example : pyErodeView dtBool memI vI memB vB = fastBinaryView true memI vI memB vB ∧
    (fastBinaryView true memI vI memB vB).toList = [some 1, some 1, some 0, some 1, some 1, some 1] ∧
    (fastBinaryView false memI vI memB vB).toList = [some 1, some 1, some 0, some 1, some 1, some 1] ∧
    logical memE vE = [1, 0] ∧
    (fastBinaryView true memI vI memE vE).toList = [some 1, some 1, some 1, some 1, some 1, some 1] ∧
    (fastBinaryView false memI vI memE vE).toList = [some 1, some 0, some 0, some 1, some 1, some 0] := by
  decide +kernel
end Mahotas.C08.Example


/-! ## Round 4 — more view kernels = the owners' logical models: the `at(pos)` kernels of `_morph.cpp`
(`regmax`/`regmin`, `close_holes`, `majority_filter`) -/

/-- **regmax / regmin over views = `C14.regModel`.** `py_regminmax` (zero fill, `locmin_max`, then
`remove_fake_regmin_max`, which reads the image as `f.at(pos)` and `Bc` through `neighbours(Bc)`) on ANY views of the
image and the structuring element (strides of any sign and order, offsets) returns, in every cell, the value of the
owner's model on the logical arrays — the model `c14 kind=reg` runs. `….map some`: no cell is left unwritten (F15). -/
theorem C08_regView_eq_C14 (isMin : Bool) (mA : Int → Int) (vA : View) (mB : Int → Int) (vB : View)
    (h : FilterArgs vA vB true) :
    regView isMin mA vA mB vB =
      (C14.regModel isMin (toImg mA vA) (C14.neighbours vB.shape (logical mB vB).toArray)).map some :=
  regView_eq_C14 isMin mA vA mB vB h

/-- **regmax / regmin are layout-free**: two (image, `Bc`) pairs of views with the same logical content give the same
output array. -/
theorem C08_regmin_max_layout_free (isMin : Bool) (mA₁ mA₂ mB₁ mB₂ : Int → Int) (vA₁ vA₂ vB₁ vB₂ : View)
    (h₁ : FilterArgs vA₁ vB₁ true) (h₂ : FilterArgs vA₂ vB₂ true)
    (hA : SameLogical mA₁ vA₁ mA₂ vA₂) (hB : SameLogical mB₁ vB₁ mB₂ vB₂) :
    regView isMin mA₁ vA₁ mB₁ vB₁ = regView isMin mA₂ vA₂ mB₂ vB₂ := by
  rw [regView_eq_C14 isMin mA₁ vA₁ mB₁ vB₁ h₁, regView_eq_C14 isMin mA₂ vA₂ mB₂ vB₂ h₂, hA.toImg_eq]
  obtain ⟨hl, hs⟩ := logical_eq_of_toImg _ _ _ _ hB.toImg_eq
  rw [hl, hs]

/-- **regmax / regmin are correct for any memory layout** (composition with `C14_regional_eq_spec`): with a symmetric,
star-shaped neighbourhood (cross, box) the cell of a pixel `q` inside the image is `some true` exactly when every pixel
of the plateau of `q` has no strictly better neighbour inside the image — whatever the strides of image and `Bc`. -/
theorem C08_regmin_max_view_correct (isMin : Bool) (mA : Int → Int) (vA : View) (mB : Int → Int) (vB : View)
    (h : FilterArgs vA vB true)
    (hn : C14.SymNb (toImg mA vA) (C14.neighbours vB.shape (logical mB vB).toArray))
    (hstar : C14.StarShaped (C14.neighbours vB.shape (logical mB vB).toArray))
    (q : List Int) (hq : inside vA.shape q = true) :
    (regView isMin mA vA mB vB).getD (ravelI vA.shape q) none = some true ↔
      C14.Regional isMin (toImg mA vA) (C14.neighbours vB.shape (logical mB vB).toArray) q := by
  rw [regView_eq_C14 isMin mA vA mB vB h]
  have hsp := C14_regional_eq_spec isMin (toImg mA vA) _ hn hstar q hq
  have hsh : (toImg mA vA).shape = vA.shape := rfl
  rw [hsh] at hsp
  rw [← hsp]
  generalize C14.regModel isMin (toImg mA vA) (C14.neighbours vB.shape (logical mB vB).toArray) = r
  generalize ravelI vA.shape q = i
  simp only [Array.getD_eq_getD_getElem?, Array.getElem?_map]
  cases r[i]? <;> simp

/-- **close_holes over views = `C14.closeHoles`**: the reference image is read as `ref.at(pos)` only, so for ANY strides
the kernel returns the owner's model of the logical image (the model `c14 kind=holes` runs); every cell is written
(`std::fill_n` on the fresh output, then the negation loop). -/
theorem C08_closeHolesView_eq_C14 (mR : Int → Int) (vR : View) (mB : Int → Int) (vB : View) (wfB : vB.WF) :
    closeHolesView mR vR mB vB =
      (C14.closeHoles (toImg mR vR) (C14.neighbours vB.shape (logical mB vB).toArray)).map some :=
  closeHolesView_eq_C14 mR vR mB vB wfB

/-- **close_holes is layout-free.** -/
theorem C08_close_holes_layout_free (mR₁ mR₂ mB₁ mB₂ : Int → Int) (vR₁ vR₂ vB₁ vB₂ : View)
    (wf₁ : vB₁.WF) (wf₂ : vB₂.WF)
    (hR : SameLogical mR₁ vR₁ mR₂ vR₂) (hB : SameLogical mB₁ vB₁ mB₂ vB₂) :
    closeHolesView mR₁ vR₁ mB₁ vB₁ = closeHolesView mR₂ vR₂ mB₂ vB₂ := by
  rw [closeHolesView_eq_C14 mR₁ vR₁ mB₁ vB₁ wf₁, closeHolesView_eq_C14 mR₂ vR₂ mB₂ vB₂ wf₂, hR.toImg_eq]
  obtain ⟨hl, hs⟩ := logical_eq_of_toImg _ _ _ _ hB.toImg_eq
  rw [hl, hs]

/-- **close_holes is correct for any memory layout** (composition with `C14_close_holes_eq_spec`): the cell of a pixel
`q` inside the image is `some true` exactly when `q` is not connected to the border through background pixels. -/
theorem C08_close_holes_view_correct (mR : Int → Int) (vR : View) (mB : Int → Int) (vB : View) (wfB : vB.WF)
    (q : List Int) (hq : inside vR.shape q = true) :
    (closeHolesView mR vR mB vB).getD (ravelI vR.shape q) none = some true ↔
      ¬ C14.BorderConn (toImg mR vR) (C14.neighbours vB.shape (logical mB vB).toArray) q := by
  rw [closeHolesView_eq_C14 mR vR mB vB wfB]
  have hwf : (toImg mR vR).data.size = shapeSize (toImg mR vR).shape := by
    simp [toImg, logical_length]
  have hsp := C14_close_holes_eq_spec (toImg mR vR) (C14.neighbours vB.shape (logical mB vB).toArray) hwf q hq
  have hsh : (toImg mR vR).shape = vR.shape := rfl
  rw [hsh] at hsp
  rw [← hsp]
  generalize C14.closeHoles (toImg mR vR) (C14.neighbours vB.shape (logical mB vB).toArray) = r
  generalize ravelI vR.shape q = i
  simp only [Array.getD_eq_getD_getElem?, Array.getElem?_map]
  cases r[i]? <;> simp

/-- **majority_filter over views = the same loops on the logical image**, for ANY strides of the input
(`input.at(y+dy, x+dx)` = `PyArray_GETPTR2`); window size, the `!= rows-N` loop bounds and the threshold `N*N/2` as in the
C++. -/
theorem C08_majorityView_eq_logical (n : Nat) (mA : Int → Int) (vA : View) :
    majorityView n mA vA = majorityLogical n (toImg mA vA) :=
  majorityView_eq_logical n mA vA

/-- **majority_filter is layout-free.** -/
theorem C08_majority_filter_layout_free (n : Nat) (mA₁ mA₂ : Int → Int) (vA₁ vA₂ : View)
    (hA : SameLogical mA₁ vA₁ mA₂ vA₂) :
    majorityView n mA₁ vA₁ = majorityView n mA₂ vA₂ := by
  rw [majorityView_eq_logical, majorityView_eq_logical, hA.toImg_eq]

/-- **majority_filter, pointwise, for any memory layout.** For a `rows × cols` view of ANY strides and a window `N ≤ rows, cols`:
cell `i` of the output is `some true` exactly when some window the loops visit (`y < rows−N`, `x < cols−N` — the last window row and
column are not visited, as in the C++) whose output position `(y+N/2)*cols + N/2 + x` is `i` contains at least `N*N/2` set pixels of
the LOGICAL image; every other cell is `some false`. -/
theorem C08_majority_filter_view_spec (n : Nat) (mA : Int → Int) (vA : View) (rows cols : Nat) (hs : vA.shape = [rows, cols])
    (hr : n ≤ rows) (hc : n ≤ cols) (i : Nat) (hi : i < rows * cols) :
    (majorityView n mA vA).getD i none =
      some ((List.range (rows - n)).any fun y => (List.range (cols - n)).any fun x =>
        decide (majorityCount n (fun y x => (toImg mA vA).getD [(y : Int), (x : Int)] 0 != 0) y x ≥ n * n / 2) &&
          ((y + n / 2) * cols + n / 2 + x == i)) := by
  rw [majorityView_eq_logical]
  unfold majorityLogical
  have : (toImg mA vA).shape = [rows, cols] := hs
  rw [this]
  exact majorityLoops_spec rows cols n _ hr hc i hi

/-- **F15 for regmax/regmin, close_holes, majority_filter**: every cell of their outputs is written, for every layout:
the first two are `….map some` of a total model, the third starts from the zero fill and only ever stores `true`. -/
theorem C08_defined_everywhere_morph_at_kernels (isMin : Bool) (n : Nat) (mA : Int → Int) (vA : View)
    (mB : Int → Int) (vB : View) (h : FilterArgs vA vB true) (rows cols : Nat) (hs : vA.shape = [rows, cols]) :
    (∀ i, i < (regView isMin mA vA mB vB).size → ((regView isMin mA vA mB vB).getD i none).isSome = true) ∧
    (∀ i, i < (closeHolesView mA vA mB vB).size → ((closeHolesView mA vA mB vB).getD i none).isSome = true) ∧
    (majorityView n mA vA).size = rows * cols ∧
    (∀ i, i < rows * cols → ((majorityView n mA vA).getD i none).isSome = true) := by
  refine ⟨?_, ?_, ?_, ?_⟩
  · rw [regView_eq_C14 isMin mA vA mB vB h]
    intro i hi
    simp only [Array.size_map] at hi
    simp [Array.getD_eq_getD_getElem?, hi]
  · rw [closeHolesView_eq_C14 mA vA mB vB h.wfF]
    intro i hi
    simp only [Array.size_map] at hi
    simp [Array.getD_eq_getD_getElem?, hi]
  · unfold majorityView; rw [hs]; exact (majorityLoops_defined rows cols n _).1
  · unfold majorityView; rw [hs]; exact (majorityLoops_defined rows cols n _).2

namespace Mahotas.C08.Example4
open Mahotas.C08.Example
/-- a 3×3 image with one interior plateau maximum, stored in Fortran order and (second copy) reversed with a gap -/
def memR : Int → Int := fun a => [1, 1, 1, 1, 5, 1, 1, 1, 2].getD a.toNat 0
def vRF : View := { base := 0, shape := [3, 3], strides := [1, 3] }
def memR2 : Int → Int := fun a => [2, 0, 1, 0, 1, 0, 1, 0, 5, 0, 1, 0, 1, 0, 1, 0, 1].getD a.toNat 0
def vRN : View := { base := 16, shape := [3, 3], strides := [-6, -2] }
def memX : Int → Int := fun a => [0, 1, 0, 1, 0, 1, 0, 1, 0].getD a.toNat 0     -- the cross without its centre
def vX : View := { base := 0, shape := [3, 3], strides := [3, 1], carray := true }

theorem faR : FilterArgs vRF vX true :=
  ⟨⟨rfl, by decide⟩, ⟨rfl, by decide⟩, by (unfold View.Pos; decide), by (unfold View.Pos; decide), rfl, fun h => by cases h⟩
theorem faR2 : FilterArgs vRN vX true :=
  ⟨⟨rfl, by decide⟩, ⟨rfl, by decide⟩, by (unfold View.Pos; decide), by (unfold View.Pos; decide), rfl, fun h => by cases h⟩

example : SameLogical memR vRF memR2 vRN ∧ logical memR vRF = [1, 1, 1, 1, 5, 1, 1, 1, 2] ∧
    regView false memR vRF memX vX = regView false memR2 vRN memX vX ∧
    (regView false memR vRF memX vX).toList =
      [some false, some false, some false, some false, some true, some false, some false, some false, some true] ∧
    (locView false memR vRF memX vX).toList =
      [some true, some false, some true, some false, some true, some false, some true, some false, some true] := by
  refine ⟨⟨rfl, by decide⟩, by decide, ?_, by decide +kernel, by decide +kernel⟩
  exact C08_regmin_max_layout_free false memR memR2 memX memX vRF vRN vX vX faR faR2 ⟨rfl, by decide⟩ ⟨rfl, fun _ _ => rfl⟩

/-- a ring with a hole, Fortran order: the hole is closed; majority filter of a 4×4 view with negative strides -/
def memO : Int → Int := fun a => [0, 0, 0, 0, 0, 0, 1, 1, 1, 0, 0, 1, 0, 1, 0, 0, 1, 1, 1, 0, 0, 0, 0, 0, 0].getD a.toNat 0
def vO : View := { base := 0, shape := [5, 5], strides := [1, 5] }
example : (closeHolesView memO vO memX vX).toList.map (fun o => o.getD false) =
    [false, false, false, false, false, false, true, true, true, false, false, true, true, true, false,
     false, true, true, true, false, false, false, false, false, false] := by decide +kernel

def memJ : Int → Int := fun a => [1, 1, 1, 0, 1, 1, 0, 0, 1, 0, 0, 0, 0, 0, 0, 0].getD a.toNat 0
def vJ : View := { base := 0, shape := [4, 4], strides := [1, 4] }                -- Fortran order
def vJn : View := { base := 15, shape := [4, 4], strides := [-4, -1] }             -- both axes reversed
example : logical memJ vJ = [1, 1, 1, 0, 1, 1, 0, 0, 1, 0, 0, 0, 0, 0, 0, 0] ∧
    logical memJ vJn = [0, 0, 0, 0, 0, 0, 0, 1, 0, 0, 1, 1, 0, 1, 1, 1] ∧
    (majorityView 2 memJ vJ).toList.map (fun o => o.getD false) =
      [false, false, false, false, false, true, true, false, false, true, false, false, false, false, false, false] ∧
    (majorityView 3 memJ vJ).toList.map (fun o => o.getD false) =
      [false, false, false, false, false, true, false, false, false, false, false, false, false, false, false, false] ∧
    (majorityView 3 memJ vJn).toList.map (fun o => o.getD false) = List.replicate 16 false := by
  decide +kernel
end Mahotas.C08.Example4


/-- **cooccurence over views = `C19.coocModel`.** `cooccurence<T>` (image through its iterator, the one-hot direction array
as a compressed `ExtendIgnore` filter iterator built from the image's strides, `++res.at(val, val2)`) on ANY views of the
image and of the direction array yields the matrix of the owner's model on the logical image, with the direction
`d = position of the first non-zero entry of Bc − centre` — the definition `c19 kind=cooc` runs. -/
theorem C08_coocView_eq_C19 (mm : Nat) (mA : Int → Int) (vA : View) (mB : Int → Int) (vB : View)
    (h : FilterArgs vA vB true) (kk0 : Nat) (rest : List Nat)
    (hfp : (List.range (shapeSize vB.shape)).filter (fun kk => (logical mB vB).getD kk 0 != 0) = kk0 :: rest) :
    coocView mm mA vA mB vB =
      C19.coocModel mm (toImg mA vA) (subPos (unravelI vB.shape kk0) (centreOf vB.shape)) :=
  coocView_eq_C19 mm mA vA mB vB h kk0 rest hfp

/-- **cooccurence is layout-free**: two (image, direction array) pairs of views with the same logical content give the same
matrix. -/
theorem C08_cooccurence_layout_free (mm : Nat) (mA₁ mA₂ mB₁ mB₂ : Int → Int) (vA₁ vA₂ vB₁ vB₂ : View)
    (h₁ : FilterArgs vA₁ vB₁ true) (h₂ : FilterArgs vA₂ vB₂ true)
    (hA : SameLogical mA₁ vA₁ mA₂ vA₂) (hB : SameLogical mB₁ vB₁ mB₂ vB₂) (kk0 : Nat) (rest : List Nat)
    (hfp : (List.range (shapeSize vB₁.shape)).filter (fun kk => (logical mB₁ vB₁).getD kk 0 != 0) = kk0 :: rest) :
    coocView mm mA₁ vA₁ mB₁ vB₁ = coocView mm mA₂ vA₂ mB₂ vB₂ := by
  obtain ⟨hl, hs⟩ := logical_eq_of_toImg _ _ _ _ hB.toImg_eq
  rw [coocView_eq_C19 mm mA₁ vA₁ mB₁ vB₁ h₁ kk0 rest hfp,
    coocView_eq_C19 mm mA₂ vA₂ mB₂ vB₂ h₂ kk0 rest (by rw [← hl, ← hs]; exact hfp), hA.toImg_eq, hs]

/-- **cooccurence is correct for any memory layout** (composition with `C19_cooc_counts`): with all values in `[0, mm)`,
cell `(a, b)` of the matrix computed from ANY views is the number of positions `p` with `p` and `p + d` inside the image,
`f p = a` and `f (p + d) = b`. -/
theorem C08_cooccurence_view_correct (mm : Nat) (mA : Int → Int) (vA : View) (mB : Int → Int) (vB : View)
    (h : FilterArgs vA vB true) (kk0 : Nat) (rest : List Nat)
    (hfp : (List.range (shapeSize vB.shape)).filter (fun kk => (logical mB vB).getD kk 0 != 0) = kk0 :: rest)
    (hv : ∀ p, 0 ≤ (toImg mA vA).getD p 0 ∧ (toImg mA vA).getD p 0 < (mm : Int))
    (a b : Nat) (ha : a < mm) (hb : b < mm) :
    (coocView mm mA vA mB vB).getD (a * mm + b) 0 =
      C19.coocCount vA.shape (fun p => (toImg mA vA).getD p 0)
        (subPos (unravelI vB.shape kk0) (centreOf vB.shape)) a b := by
  rw [coocView_eq_C19 mm mA vA mB vB h kk0 rest hfp]
  exact ((C19_cooc_counts mm (toImg mA vA) _ hv).2.2 a b ha hb).1

example : (coocView 6 Mahotas.C08.Example4.memR Mahotas.C08.Example4.vRF Mahotas.C08.Example4.memX Mahotas.C08.Example4.vX).getD (1 * 6 + 5) 0 = 1 ∧
    (coocView 6 Mahotas.C08.Example4.memR Mahotas.C08.Example4.vRF Mahotas.C08.Example4.memX Mahotas.C08.Example4.vX).getD (1 * 6 + 1) 0 = 3 ∧
    coocView 6 Mahotas.C08.Example4.memR2 Mahotas.C08.Example4.vRN Mahotas.C08.Example4.memX Mahotas.C08.Example4.vX =
      coocView 6 Mahotas.C08.Example4.memR Mahotas.C08.Example4.vRF Mahotas.C08.Example4.memX Mahotas.C08.Example4.vX := by
  decide +kernel

/-- **`iterate_both` reads the position from the array iterator** (closes the gap left in rounds 2/3, where the filter
model carried its own copy of the odometer). The loop as the C++ runs it — `iterate_both` takes `index_rev(d)` and
`dimension_rev(d)` from the ARRAY iterator (the transliterated `Iter` over a view of any strides), moves the table pointer,
then `++iterator` — reaches after `i < size` iterations exactly the array iterator `begin().incrN i` and the table pointer
of `FilterIter.stateAfter` (the state F6 `filterIter_refines` is about), so `retrieve` through the joint state is the
`FiltV.retrieve` every view kernel of `Model/C08Base.lean` uses. -/
theorem C08_iterate_both_reads_iterator_position {α : Type} (isNZ : α → Bool) (vA : View) (mF : Int → α) (vF : View)
    (m : Mode) (compress : Bool) (h : FilterArgs vA vF compress) (mem : Int → α) (i : Nat)
    (hi : i < shapeSize vA.shape) (j : Nat) :
    (bothAfter (mkFiltV isNZ vA mF vF m compress).fi vA i).it = (Iter.begin vA).incrN i ∧
    (bothAfter (mkFiltV isNZ vA mF vF m compress).fi vA i).cur =
      (FilterIter.stateAfter (mkFiltV isNZ vA mF vF m compress).fi vA.shape i).cur ∧
    retrieveBoth (mkFiltV isNZ vA mF vF m compress) mem vA i j =
      (mkFiltV isNZ vA mF vF m compress).retrieve mem (iterPtr vA i) i j := by
  have hc := bothAfter_cur m vA h.wfA vF.shape
    (if compress then ((filtVals mF vF).map isNZ).toArray else Array.replicate (shapeSize vF.shape) true)
    h.rank h.posA h.posF i (Nat.le_of_lt hi)
  refine ⟨bothAfter_it _ vA i, hc, ?_⟩
  unfold retrieveBoth FiltV.retrieve FilterIter.retrieve
  simp only [bothAfter_it]
  have hc' : (bothAfter (mkFiltV isNZ vA mF vF m compress).fi vA i).cur =
      (FilterIter.stateAfter (mkFiltV isNZ vA mF vF m compress).fi (mkFiltV isNZ vA mF vF m compress).ashape i).cur := hc
  rw [hc']
  rfl

example : (bothAfter (mkFiltV (fun x => x != 0) Mahotas.C08.Example4.vRF Mahotas.C08.Example4.memX Mahotas.C08.Example4.vX .nearest true).fi
      Mahotas.C08.Example4.vRF 4).it.data = 4 ∧
    retrieveBoth (mkFiltV (fun x => x != 0) Mahotas.C08.Example4.vRF Mahotas.C08.Example4.memX Mahotas.C08.Example4.vX .nearest true)
      Mahotas.C08.Example4.memR Mahotas.C08.Example4.vRF 8 0 = some 1 := by decide +kernel

/-- **T5, whole API (purity: arguments unchanged unless asked).** The translator scans ALL Python sources for calls of the 15
native kernels that overwrite one of their array arguments (`_morph.subm`, `_labeled.label/relabel/remove_regions/slic`,
`_distance.dt`, `_interpolate.spline_filter1d`, `_surf.integral`, `_thin.thin`, the six wavelet kernels) and records where
the buffer handed over comes from (`Generated.inplaceSites`, regenerated on every run; a new call site appears by itself).
At EVERY site found in the current sources (16 sites in 15 public functions at the time of writing; the
statement does not pin the number, so that a new wrapper that copies does not alarm) the kernel receives —
when the caller did not ask for in-place operation — a fresh array: allocated or copied in the wrapper (`distance`,
`gvoronoi`, `slic`, `thin` ×2), the result of `_get_output` without `out` (`label`, `subm`, `spline_filter`,
`spline_filter1d`), or the copy made by a guard of `copyGuards` (`haar`, `ihaar`, `daubechies`, `idaubechies`, `relabel`,
`remove_regions`, `surf.integral`). So no native kernel can overwrite a caller's argument unless `out`, `inline`,
`inplace` or `in_place` was passed. (That the listed numpy calls copy, and that kernels NOT in the list leave their inputs
alone, is validated by the sweep's before/after digests of every argument and its root buffer.) -/
theorem C08_inplace_kernels_receive_fresh_buffers :
    10 ≤ Generated.inplaceSites.length ∧
    (Generated.inplaceSites.all fun s => siteTarget Generated.copyGuards s == .copy) = true ∧
    siteTarget Generated.copyGuards ("x.f", "_morph.subm", "param", "a") = .user := by
  refine ⟨by decide, by decide +kernel, by decide +kernel⟩

/-! ## Round 4 — the in-place wavelet kernels on strided rows (`haar`, `ihaar`, `daubechies`, `idaubechies`, `inline=True`
included): `Model/C08ViewsB.lean`

`toIm m v` is the image a 2-D view presents as the total function the C17 model works on; `Inj2` says that distinct
positions of the view have distinct addresses (any signs/sizes of strides otherwise); `Local T` that a row transform reads
its row only inside `[0, N)` (proved for the four transforms of `Model/C17.lean`). -/

/-- **one native wavelet call on a strided view = the owner's row pass.** For ANY row transform `T` that is local (all four
of `_convolve.cpp` are: `haarRow_local`, `ihaarRow_local`, `waveletRow_local`, `iwaveletRow_local`), any memory and any 2-D
view whose positions have distinct addresses (C, Fortran, sliced with steps, reversed, offset — `step = stride(1)` of any
sign): after `kernel(array)` — per row `data = array.data(y)`, reads `data[p*step]`, buffer, `data[step*x] = buffer[x]` —
the view presents `C17.rowsPass T N1` of what it presented before, and every address that is not an element of the view
keeps its content (padding between strided elements, neighbouring data of a slice: purity of `inline=True`). -/
theorem C08_wavelet_rows_view_eq_C17 {α : Type} (T : Nat → (Nat → α) → Nat → α) (hT : Local T) (m : Mem α) (v : View)
    (N0 N1 : Nat) (s0 s1 : Int) (hsh : v.shape = [N0, N1]) (hst : v.strides = [s0, s1])
    (hinj : Inj2 v.base s0 s1 N0 N1) :
    (∀ y x, y < N0 → x < N1 → toIm (rowsInPlaceView T m v) v y x = C17.rowsPass T N1 (toIm m v) y x) ∧
    (∀ a, (∀ y x : Nat, y < N0 → x < N1 → a ≠ v.base + (y : Int) * s0 + (x : Int) * s1) →
      (rowsInPlaceView T m v).rd a = m.rd a) :=
  rowsInPlaceView_spec T hT m v N0 N1 s0 s1 hsh hst hinj

/-- **haar / ihaar / daubechies / idaubechies on a strided view = the C17 models** (`convolve.py`: the kernel on `f`, then on
`f.T`; `idaubechies` the other way round; the `/= 2`, `*= 2` of `preserve_energy` are numpy operations outside the
kernels): for every injective 2-D view of any strides the view presents afterwards exactly `C17.haar2 false`,
`C17.ihaar2 false`, `C17.daubechies2 cs`, `C17.idaubechies2 cs` of what it presented before — the definitions
`c17 kind=t` runs —, and nothing outside the view is written. -/
theorem C08_wavelets_view_eq_C17 {α : Type} [Add α] [Sub α] [Mul α] [Div α] [Neg α] [NatCast α] [IntCast α]
    (cs : List α) (m : Mem α) (v : View)
    (N0 N1 : Nat) (s0 s1 : Int) (hsh : v.shape = [N0, N1]) (hst : v.strides = [s0, s1])
    (hinj : Inj2 v.base s0 s1 N0 N1) :
    (∀ y x, y < N0 → x < N1 →
      toIm (rowsThenCols C17.haarRow m v) v y x = C17.haar2 false N0 N1 (toIm m v) y x ∧
      toIm (rowsThenCols C17.ihaarRow m v) v y x = C17.ihaar2 false N0 N1 (toIm m v) y x ∧
      toIm (rowsThenCols (C17.waveletRow cs) m v) v y x = C17.daubechies2 cs N0 N1 (toIm m v) y x ∧
      toIm (colsThenRows (C17.iwaveletRow cs) m v) v y x = C17.idaubechies2 cs N0 N1 (toIm m v) y x) ∧
    (∀ a, (∀ y x : Nat, y < N0 → x < N1 → a ≠ v.base + (y : Int) * s0 + (x : Int) * s1) →
      (rowsThenCols C17.haarRow m v).rd a = m.rd a ∧ (rowsThenCols C17.ihaarRow m v).rd a = m.rd a ∧
      (rowsThenCols (C17.waveletRow cs) m v).rd a = m.rd a ∧ (colsThenRows (C17.iwaveletRow cs) m v).rd a = m.rd a) := by
  have h1 := rowsThenCols_spec C17.haarRow haarRow_local m v N0 N1 s0 s1 hsh hst hinj
  have h2 := rowsThenCols_spec C17.ihaarRow ihaarRow_local m v N0 N1 s0 s1 hsh hst hinj
  have h3 := rowsThenCols_spec (C17.waveletRow cs) (waveletRow_local cs) m v N0 N1 s0 s1 hsh hst hinj
  have h4 := colsThenRows_spec (C17.iwaveletRow cs) (iwaveletRow_local cs) m v N0 N1 s0 s1 hsh hst hinj
  exact ⟨fun y x hy hx => ⟨h1.1 y x hy hx, h2.1 y x hy hx, h3.1 y x hy hx, h4.1 y x hy hx⟩,
         fun a ha => ⟨h1.2 a ha, h2.2 a ha, h3.2 a ha, h4.2 a ha⟩⟩

/-- **the wavelet kernels are layout-free**: two (memory, view) pairs — each injective, any strides — that present the same
image present the same image after `K(f); K(f.T)`, for every local row transform `K`. -/
theorem C08_wavelets_layout_free {α : Type} (T : Nat → (Nat → α) → Nat → α) (hT : Local T)
    (m₁ m₂ : Mem α) (v₁ v₂ : View) (N0 N1 : Nat) (s0 s1 t0 t1 : Int)
    (hsh₁ : v₁.shape = [N0, N1]) (hst₁ : v₁.strides = [s0, s1]) (hinj₁ : Inj2 v₁.base s0 s1 N0 N1)
    (hsh₂ : v₂.shape = [N0, N1]) (hst₂ : v₂.strides = [t0, t1]) (hinj₂ : Inj2 v₂.base t0 t1 N0 N1)
    (hsame : ∀ y x, y < N0 → x < N1 → toIm m₁ v₁ y x = toIm m₂ v₂ y x)
    (y x : Nat) (hy : y < N0) (hx : x < N1) :
    toIm (rowsThenCols T m₁ v₁) v₁ y x = toIm (rowsThenCols T m₂ v₂) v₂ y x := by
  rw [(rowsThenCols_spec T hT m₁ v₁ N0 N1 s0 s1 hsh₁ hst₁ hinj₁).1 y x hy hx,
    (rowsThenCols_spec T hT m₂ v₂ N0 N1 t0 t1 hsh₂ hst₂ hinj₂).1 y x hy hx]
  exact passes_congr T hT N0 N1 _ _ hsame y x hx

/-- **`ihaar(haar(f, inline=True), inline=True)` restores `f` for any memory layout** (composition with `C17_ihaar_haar`): over
any field with `2 ≠ 0`, for every injective 2-D view with even sides, running the two native `haar` passes and then the two
native `ihaar` passes in place leaves exactly `f` at every element of the view (`preserve_energy` off in both
calls; with it on, numpy divides and multiplies by 2 outside the kernels). -/
theorem C08_ihaar_haar_view_correct {K : Type} [Field K] (h2 : (2 : K) ≠ 0) (m : Mem K) (v : View)
    (N0 N1 : Nat) (s0 s1 : Int) (hsh : v.shape = [N0, N1]) (hst : v.strides = [s0, s1])
    (hinj : Inj2 v.base s0 s1 N0 N1) (h0 : N0 % 2 = 0) (h1 : N1 % 2 = 0)
    (y x : Nat) (hy : y < N0) (hx : x < N1) :
    toIm (rowsThenCols C17.ihaarRow (rowsThenCols C17.haarRow m v) v) v y x = toIm m v y x := by
  rw [(rowsThenCols_spec C17.ihaarRow ihaarRow_local _ v N0 N1 s0 s1 hsh hst hinj).1 y x hy hx]
  rw [passes_congr C17.ihaarRow ihaarRow_local N0 N1 _ (C17.colsPass C17.haarRow N0 (C17.rowsPass C17.haarRow N1 (toIm m v)))
    (fun y x hy hx => (rowsThenCols_spec C17.haarRow haarRow_local m v N0 N1 s0 s1 hsh hst hinj).1 y x hy hx) y x hx]
  exact C17_ihaar_haar h2 false N0 N1 h0 h1 (toIm m v) y x hy hx

/-- **the defect repaired by 63fe463, as a theorem**: the pinned `ihaar<T>` computed the start of the high-pass half as
`data + step*N1/2` = `(step*N1)/2`. For a row of odd length 3 walked with step 2 (a column of a 3×2 C-array) it reads address
`data + 3`, which is not an element of the row (those are `data + 0, 2, 4`): two memories that agree on the whole row give
different results, i.e. the value depended on memory outside the logical content; the repaired row (`C17.ihaarRow` on
`data[p*step]`) reads element 1 = address `data + 2`. -/
theorem C08_ihaar_pinned_wrong :
    let m₁ : Int → Int := fun a => if a = 3 then 2 else 0
    let m₂ : Int → Int := fun _ => 0
    (∀ p : Nat, p < 3 → m₁ (0 + (p : Int) * 2) = m₂ (0 + (p : Int) * 2)) ∧
    ihaarRowPinned 3 2 0 m₁ 0 ≠ ihaarRowPinned 3 2 0 m₂ 0 ∧
    (∀ k, C17.ihaarRow 3 (fun p => m₁ (0 + (p : Int) * 2)) k = C17.ihaarRow 3 (fun p => m₂ (0 + (p : Int) * 2)) k) := by
  refine ⟨?_, by decide, ?_⟩
  · intro p hp
    have : p = 0 ∨ p = 1 ∨ p = 2 := by omega
    rcases this with rfl | rfl | rfl <;> decide
  · intro k
    apply ihaarRow_local
    intro p hp
    have : p = 0 ∨ p = 1 ∨ p = 2 := by omega
    rcases this with rfl | rfl | rfl <;> decide

namespace Mahotas.C08.Example4
/-- a 2×4 image stored reversed along both axes with gaps (element strides −10 and −2, base 16); `haar` in place -/
def memW : Mem Int := ⟨fun a => [0, 0, 8, 0, 7, 0, 6, 0, 5, 0, 0, 0, 4, 0, 3, 0, 2, 0, 1, 0].getD a.toNat 0⟩
def vW : View := { base := 18, shape := [2, 4], strides := [-10, -2] }

theorem injW : Inj2 vW.base (-10) (-2) 2 4 := by
  intro y y' x x' hy hy' hx hx' h
  simp only [vW] at h
  omega

example : (List.range 2).map (fun y => (List.range 4).map (toIm memW vW y)) = [[1, 2, 3, 4], [5, 6, 7, 8]] ∧
    (List.range 2).map (fun y => (List.range 4).map (toIm (rowsThenCols C17.haarRow memW vW) vW y)) =
      [[14, 22, 2, 2], [8, 8, 0, 0]] ∧
    (List.range 2).map (fun y => (List.range 4).map (C17.haar2 false 2 4 (toIm memW vW) y)) =
      [[14, 22, 2, 2], [8, 8, 0, 0]] ∧
    (List.range 20).filter (fun (k : Nat) => (rowsThenCols C17.haarRow memW vW).rd (k : Int) ≠ memW.rd (k : Int)) =
      [2, 4, 6, 8, 12, 14, 16, 18] := by decide +kernel

/-- the injectivity hypothesis is needed: with a zero column stride both columns are the same cell, the second store wins and
the view does not present the row transform -/
def vZ : View := { base := 0, shape := [1, 2], strides := [0, 0] }
example : toIm (rowsInPlaceView C17.haarRow ⟨fun _ => (1 : Int)⟩ vZ) vZ 0 0 = 0 ∧
    C17.rowsPass C17.haarRow 2 (toIm ⟨fun _ => (1 : Int)⟩ vZ) 0 0 = 2 := by decide +kernel
end Mahotas.C08.Example4
