/-
C08 — property theorems for the *logic part* of layout independence: the accessor layer of
`numpypp/array.hpp` computes the logical element for arbitrary (negative, non-monotone, offset)
strides, so a kernel that reads its arguments only through these accessors cannot depend on the
memory layout.  (Heap-history independence and whole-API purity are validated by the sweep, not proved.)
Helper lemmas: `Proofs/C08.lean`.
-/
import Mahotas.Proofs.C08
import Mahotas.Generated.Normalise
import Mahotas.Generated.CopyGuards
open Mahotas Mahotas.C08

namespace Mahotas.C08

/-- two (memory, view) pairs present the same logical array: same shape, same element at every
C-order position -/
def SameLogical {α} (m₁ : Int → α) (v₁ : View) (m₂ : Int → α) (v₂ : View) : Prop :=
  v₁.shape = v₂.shape ∧
  ∀ k, k < shapeSize v₁.shape → m₁ (v₁.addr (unravel v₁.shape k)) = m₂ (v₂.addr (unravel v₂.shape k))

end Mahotas.C08

/-- **F7 (`iterator_base`).** For any base, any shape and any strides (one per axis; negative, zero,
non-monotone all allowed): after `k < size` applications of `operator++` to `begin()`, the iterator's
pointer is the address of the logical element at C-order position `unravel k`, and `position()`
reports exactly that position. -/
theorem C08_iterator_visits_C_order (v : View) (h : v.strides.length = v.shape.length) (k : Nat)
    (hk : k < shapeSize v.shape) :
    ((Iter.begin v).incrN k).data = v.addr (unravel v.shape k) ∧
    ((Iter.begin v).incrN k).position = unravel v.shape k := by
  rw [incrN_eq v h k hk]
  refine ⟨le_address v h k hk, ?_⟩
  simp only [Iter.position]
  rw [unravelLE_reverse _ _ hk, List.reverse_reverse]

/-- **F8 (`at_flat`, as repaired).** For every well-formed view (the `is_carray` shortcut only taken
for C-contiguous strides) and every flat index `p < size`, `at_flat(p)` is the address of the logical
element at C-order position `unravel p`. -/
theorem C08_atFlat_eq (v : View) (wf : v.WF) (p : Nat) (hp : p < shapeSize v.shape) :
    v.atFlat p = v.addr (unravel v.shape p) :=
  atFlat_eq_addr v wf p hp

/-- **F8 negation on the pinned tree.** The loop as it was (`p /= dim(d-1)`) addresses the wrong element:
shape (2,3) in Fortran order, `p = 2` lands on the element (1,2) (address 5) instead of (0,2) (address 4).
(Defect #6, repaired by `fix: aligned_array::at_flat …`.) -/
theorem C08_atFlat_pinned_wrong :
    let v : View := { base := 0, shape := [2, 3], strides := [1, 2] }
    atFlatOldGo v.shape.reverse v.strides.reverse 2 v.base = 5 ∧ v.addr (unravel v.shape 2) = 4 ∧
    v.atFlat 2 = 4 := by
  decide

/-- **F9 (`pos_to_flat` / `flat_to_pos`).** Inside the image the two are the C-order ravel/unravel:
`pos_to_flat(unravel k) = k`, `flat_to_pos(k) = unravel k`, hence they round-trip — for every shape,
independently of the strides. -/
theorem C08_posToFlat_flatToPos (v : View) (k : Nat) (hk : k < shapeSize v.shape) :
    v.posToFlat (unravelI v.shape k) = (k : Int) ∧
    v.flatToPos (k : Int) = unravelI v.shape k ∧
    v.flatToPos (v.posToFlat (unravelI v.shape k)) = unravelI v.shape k := by
  have h1 := posToFlat_unravel v k hk
  have h2 := flatToPos_unravel v k hk
  exact ⟨h1, h2, by rw [h1, h2]⟩

/-- **positional access and the row idiom.** `at(pos)`/`data(pos)` (`PyArray_GetPtr`) is the address of
`pos` by definition, and `data(y) + x*stride(1)` is the address of `(y, x)` in a 2-D view. -/
theorem C08_at_and_rowPtr (v : View) (pos : List Nat) (s0 s1 : Int) (y x : Nat) :
    v.at pos = v.addr pos ∧
    ({ v with strides := [s0, s1] } : View).rowPtr y x = ({ v with strides := [s0, s1] } : View).addr [y, x] := by
  constructor
  · rfl
  · simp only [View.rowPtr, View.addr, dot]
    ring

/-- **Consequence: reads through the accessors are layout-free.** If two views of two memories present
the same logical array (e.g. a C-contiguous copy and a Fortran / strided / reversed / offset /
transposed view of the same data), then the `k`-th value delivered by the iterator, the value at flat
index `k` through `at_flat`, and the value at position `unravel k` through `at(pos)` coincide. -/
theorem C08_accessor_reads_layout_free {α} (m₁ m₂ : Int → α) (v₁ v₂ : View) (wf₁ : v₁.WF) (wf₂ : v₂.WF)
    (h : SameLogical m₁ v₁ m₂ v₂) (k : Nat) (hk : k < shapeSize v₁.shape) :
    readIter m₁ v₁ k = readIter m₂ v₂ k ∧
    readAtFlat m₁ v₁ k = readAtFlat m₂ v₂ k ∧
    readAt m₁ v₁ (unravel v₁.shape k) = readAt m₂ v₂ (unravel v₂.shape k) := by
  obtain ⟨hs, he⟩ := h
  have hk2 : k < shapeSize v₂.shape := hs ▸ hk
  refine ⟨?_, ?_, ?_⟩
  · unfold readIter
    rw [(C08_iterator_visits_C_order v₁ wf₁.len k hk).1, (C08_iterator_visits_C_order v₂ wf₂.len k hk2).1]
    exact he k hk
  · unfold readAtFlat
    rw [C08_atFlat_eq v₁ wf₁ k hk, C08_atFlat_eq v₂ wf₂ k hk2]
    exact he k hk
  · exact he k hk

/-- **The iterator sequence *is* the logical content.** Reading a whole array through the iterator, or
through `at_flat` at `0 … size-1`, yields exactly the C-order list of its logical elements — for every
well-formed view. (`iterAddrs`, printed by the driver and compared with numpy and with the compiled
`iterator_base`, is the address version of the same statement.) -/
theorem C08_iterator_sequence_is_logical {α} (m : Int → α) (v : View) (wf : v.WF) :
    (List.range (shapeSize v.shape)).map (readIter m v) = logical m v ∧
    (List.range (shapeSize v.shape)).map (readAtFlat m v) = logical m v ∧
    iterAddrs v = (List.range (shapeSize v.shape)).map (fun k => v.addr (unravel v.shape k)) := by
  refine ⟨?_, ?_, ?_⟩
  · apply List.map_congr_left
    intro k hk
    have hk' : k < shapeSize v.shape := List.mem_range.1 hk
    simp only [readIter]
    rw [(C08_iterator_visits_C_order v wf.len k hk').1]
  · apply List.map_congr_left
    intro k hk
    have hk' : k < shapeSize v.shape := List.mem_range.1 hk
    simp only [readAtFlat]
    rw [C08_atFlat_eq v wf k hk']
  · apply List.map_congr_left
    intro k hk
    exact (C08_iterator_visits_C_order v wf.len k (List.mem_range.1 hk)).1

/-- **T2 instance: the labeled folds (`labeled_sum`, `labeled_max`, `labeled_min`) are layout-free.**
The model of `labeled_foldl`, which reads `array` and `labeled` step by step through their iterators,
equals the fold over the *logical* contents, for every fold function, start value, number of labels and
every pair of well-formed views of the same shape — so any two layouts of the same data give the same
result. -/
theorem C08_labeled_fold_layout_free {α} (f : α → α → α) (start : α) (maxlabel : Nat)
    (mA : Int → α) (vA : View) (mL : Int → Int) (vL : View) (wfA : vA.WF) (wfL : vL.WF)
    (hs : vL.shape = vA.shape) :
    labeledFoldView f start maxlabel mA vA mL vL =
      labeledFoldList f start maxlabel (logical mA vA) (logical mL vL) := by
  unfold labeledFoldView
  simp only []
  rw [(C08_iterator_sequence_is_logical mA vA wfA).1, ← hs, (C08_iterator_sequence_is_logical mL vL wfL).1]

/-- **Kernel form.** Any kernel `K` that consumes an array only as the sequence of values the iterator
(or `at_flat`) delivers returns the same result for every memory layout of the same logical array. -/
theorem C08_kernel_layout_free {α β} (m₁ m₂ : Int → α) (v₁ v₂ : View) (wf₁ : v₁.WF) (wf₂ : v₂.WF)
    (h : SameLogical m₁ v₁ m₂ v₂) (K : (Fin (shapeSize v₁.shape) → α) → β) :
    K (fun i => readIter m₁ v₁ i) = K (fun i => readIter m₂ v₂ i) ∧
    K (fun i => readAtFlat m₁ v₁ i) = K (fun i => readAtFlat m₂ v₂ i) := by
  constructor
  · congr 1; funext i
    exact (C08_accessor_reads_layout_free m₁ m₂ v₁ v₂ wf₁ wf₂ h i i.2).1
  · congr 1; funext i
    exact (C08_accessor_reads_layout_free m₁ m₂ v₁ v₂ wf₁ wf₂ h i i.2).2.1

/-- **Machine-level detail of `stride()`.** The C++ divides the byte stride by `sizeof(T)` in *unsigned*
64-bit arithmetic (a negative stride first becomes `2^64 - |s|`). Whenever the item size divides both
`2^64` (1, 2, 4, 8, 16 bytes) and the stride, stepping `c` elements in wrapping pointer arithmetic moves by
exactly `c * stride` bytes modulo `2^64` — the signed element stride of the model. -/
theorem C08_unsigned_stride_division (sb : Int) (sz c : Nat) (h64 : sz ∣ two64) (hdiv : (sz : Int) ∣ sb) :
    ((unsignedStepBytes sb sz c : Nat) : Int) = ((c : Int) * sb) % (two64 : Int) :=
  unsignedStep_eq sb sz c h64 hdiv

/-- **T4 (wrapper accepts all layouts), decision logic.** `np.require(a, requirements='CAW')` and
`np.array(a, order='C')` hand a behaved C array to the native `ISCARRAY` guard whatever the flags of the
user's array; `requirements='CW'` does so for every aligned array (all seven layouts are aligned). -/
theorem C08_normalisation_accepts_all_layouts (f : Flags) :
    wrapperAccepts .requireCAW f = true ∧ wrapperAccepts .arrayC f = true ∧
    (f.aligned = true → wrapperAccepts .requireCW f = true) := by
  obtain ⟨c, a, w, o⟩ := f
  cases c <;> cases a <;> cases w <;> cases o <;> decide

/-- **Defect #17 as a theorem about the pinned normalisations.** `np.ascontiguousarray` returns a
read-only C-contiguous array unchanged (so `fullhistogram`/`otsu`/`rc`/`pftas`/`convexhull` raised for
read-only images), and `np.array(a)` with the default `order='K'` keeps Fortran order (so `relabel` /
`remove_regions` raised for Fortran-ordered labels): in both cases valid data turned into an exception. -/
theorem C08_pinned_normalisations_reject :
    wrapperAccepts .ascontiguousarray { ccontig := true, aligned := true, writeable := false, fOrder := false } = false ∧
    wrapperAccepts .arrayK { ccontig := false, aligned := true, writeable := true, fOrder := true } = false := by
  decide

/-- **Tie to the current source.** Every normalisation the translator finds today in front of the
native guards of `_labeled` (`_as_labeled`, `_convert_labeled`), `_histogram` (`fullhistogram`) and
`_convex` (`convexhull`) is one of the accepting ones: for all eight flag combinations of an aligned
array the wrapper reaches the native code with a behaved C array. Reverting one of the repairs
(`order='C'`, `requirements='CAW'`) changes `Generated.normSites` and breaks this theorem. -/
theorem C08_wrappers_accept_all_layouts_source_tie :
    (Generated.normSites.all fun site =>
      match Norm.ofString site.2 with
      | none => false
      | some n =>
        [true, false].all fun c => [true, false].all fun w => [true, false].all fun o =>
          wrapperAccepts n { ccontig := c, aligned := true, writeable := w, fOrder := o }) = true := by
  decide

/-- **T5 (purity, decision logic tied to the source).** In the current source the three wrappers
around in-place native kernels — `convolve._wavelet_array` (haar, ihaar, daubechies, idaubechies),
`labeled._as_labeled` (relabel, remove_regions, remove_regions_where) and `features.surf.integral` —
hand the kernel a fresh array (`copy()`, `astype`, `np.array`) on every path taken when their
`inline` / `inplace` / `in_place` flag is false: the caller's array is only reachable when asked for.
(That `copy`/`astype`/`np.array` really copy, and that no other function writes to an argument, is
validated by the sweep's before/after hashes.) -/
theorem C08_inplace_kernels_only_when_asked :
    Generated.copyGuards.map (fun g => (g.1, g.2.1)) =
      [("convolve._wavelet_array", "inline"), ("labeled._as_labeled", "inplace"),
       ("features.surf.integral", "in_place")] ∧
    (Generated.copyGuards.all fun g => inplaceTarget false g.2.2 == .copy) = true ∧
    (∀ calls, inplaceTarget true calls = .user) := by
  refine ⟨by decide, by decide +kernel, fun calls => by simp [inplaceTarget]⟩

/-! non-vacuity: a reversed, transposed, gapped 3×2×2 view (negative and non-monotone strides, offset
    base) is well-formed; the iterator, `at_flat` and the address map agree on all 12 elements, and it
    presents the same logical array as a C-contiguous view of a permuted memory. -/
example :
    let v : View := { base := 10, shape := [3, 2, 2], strides := [-2, 12, -6] }
    v.strides.length = v.shape.length ∧
    (List.range 12).map (fun k => ((Iter.begin v).incrN k).data) = [10, 4, 22, 16, 8, 2, 20, 14, 6, 0, 18, 12] ∧
    (List.range 12).map v.atFlat = [10, 4, 22, 16, 8, 2, 20, 14, 6, 0, 18, 12] ∧
    (List.range 12).map (fun k => v.addr (unravel v.shape k)) = [10, 4, 22, 16, 8, 2, 20, 14, 6, 0, 18, 12] := by
  decide
