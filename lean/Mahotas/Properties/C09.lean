/-
C09 — property theorems: the out= convention (decision logic of `_get_output`, `hitmiss`'s own
validation, and the buffer-flow programs of the multi-pass wrappers). Helper lemmas: `Proofs/C09.lean`.
-/
import Mahotas.Proofs.C09
import Mahotas.Generated.OutConv
import Mahotas.Properties.C10
set_option linter.unusedSimpArgs false
open Mahotas Mahotas.C09

/-- **C09-T1 (acceptance).** `_get_output` returns the supplied buffer exactly when it has the expected
dtype (the `dtype` argument, by default the array's), the array's shape, and is C-contiguous. -/
theorem C09_getOutput_accepts_iff (a o : Desc) (dt : Option Nat) :
    getOutput a (some o) dt = .useOut ↔
      o.dtype = expectedDtype a dt ∧ o.shape = a.shape ∧ o.ccontig = true :=
  getOutput_useOut_iff a o dt

/-- **C09-T1 (rejection).** Any other supplied buffer is rejected (`ValueError`), for the first failing
test in source order (dtype, shape, contiguity); a supplied buffer is never silently replaced by a
fresh array. -/
theorem C09_getOutput_rejects_otherwise (a o : Desc) (dt : Option Nat)
    (h : ¬ (o.dtype = expectedDtype a dt ∧ o.shape = a.shape ∧ o.ccontig = true)) :
    (∃ r, getOutput a (some o) dt = .reject r) ∧
    getOutput a (some o) dt =
      (if o.dtype ≠ expectedDtype a dt then .reject .dtype
       else if o.shape ≠ a.shape then .reject .shape
       else .reject .contig) := by
  refine ⟨getOutput_reject_of_not a o dt h, ?_⟩
  rw [getOutput_reason]
  split_ifs <;> simp_all

/-- **C09-T3 (default).** Without `out` the result buffer has the documented dtype (the `dtype`
argument, by default the input's), the input's shape, and is C-contiguous. -/
theorem C09_getOutput_default (a : Desc) (dt : Option Nat) :
    getOutput a none dt = .fresh { dtype := expectedDtype a dt, shape := a.shape, ccontig := true } := by
  unfold getOutput expectedDtype; cases dt <;> rfl

/-- **C09-T1 on buffers.** On acceptance the buffer `_get_output` hands to the kernel **is** `out`
(same identity) and the heap is untouched; on rejection it raises with the heap untouched (nothing
was written before the raise). -/
theorem C09_getOut_out_itself_or_untouched (s : St) (a o : Nat) (dt : Option Nat) :
    (Acceptable (s.desc a) (s.desc o) dt → getOut a (some o) dt s = .ok o s) ∧
    (¬ Acceptable (s.desc a) (s.desc o) dt → ∃ r, getOut a (some o) dt s = .raise r s) := by
  constructor
  · intro h
    have := (getOutput_useOut_iff _ _ dt).2 h
    simp [getOut, this]
  · intro h
    obtain ⟨r, hr⟩ := getOutput_reject_of_not _ _ dt h
    exact ⟨r, by simp [getOut, hr]⟩

/-- **C09-T2 (single-pass wrappers).** `output = _get_output(A, out, dtype); return kernel(A, Bc, output)`
(erode, dilate, locmax/locmin/regmax/regmin, majority_filter, convolve, median/mean/rank filter,
template_match, label, border(s), spline filters, shift — for every kernel `op` and dtype argument). -/
theorem C09_flow_single_pass (op : Op) (A bc : Desc) (dt : Option Nat) :
    Honours [A, bc] A dt (fun out => kernel1 op 0 1 out dt) (.ap op (.inp 0) (.inp 1)) := by
  cases dt with
  | none => honours_tac A, none
  | some d => honours_tac A, (some d)

/-- **C09-T2 (`open`).** `eroded = erode(f, Bc, out=out); return dilate(eroded.copy(), Bc, out=eroded)`:
the user's buffer receives the *final* dilation of the erosion, not the intermediate erosion. -/
theorem C09_flow_open (f bc : Desc) :
    Honours [f, bc] f none (openP 0 1) (.ap .dilate (.ap .erode (.inp 0) (.inp 1)) (.inp 1)) := by
  honours_tac f, none

/-- **C09-T2 (`close`).** -/
theorem C09_flow_close (f bc : Desc) :
    Honours [f, bc] f none (closeP 0 1) (.ap .erode (.ap .dilate (.inp 0) (.inp 1)) (.inp 1)) := by
  honours_tac f, none

/-- **C09-T2 (`cerode`).** `f = maximum(f, g); out = _get_output(f, out); erode(f, Bc, out); maximum(out, g, out=out)`:
the temporary `maximum(f, g)` is allocated *before* the validation, but nothing is written to `out`
or to the inputs before a rejection. -/
theorem C09_flow_cerode (f g bc : Desc) :
    Honours [f, g, bc] f none (cerodeP 0 1 2)
      (.ap .maximum (.ap .erode (.ap .maximum (.inp 0) (.inp 1)) (.inp 2)) (.inp 1)) := by
  honours_tac f, none

/-- **C09-T2 (`subm`).** `out = _get_output(a, out); if out is not a: out[:] = a; return _morph.subm(out, b)`. -/
theorem C09_flow_subm (a b : Desc) :
    Honours [a, b] a none (submP 0 1) (.ap .subm (.inp 0) (.inp 1)) := by
  honours_tac a, none

/-- **C09 (`subm`, documented aliasing).** "Pass `a` as output to subtract in-place": with `out = a`
(buffer 0, acceptable because it is C-contiguous) the result lands in `a` and is `subm(a, b)`. -/
theorem C09_flow_subm_inplace (a b : Desc) (hc : a.ccontig = true) :
    (submP 0 1 (some 0) (initSt [a, b] none)).ret = some 0 ∧
    (submP 0 1 (some 0) (initSt [a, b] none)).st.val 0 = .ap .subm (.inp 0) (.inp 1) ∧
    (submP 0 1 (some 0) (initSt [a, b] none)).st.val 1 = .inp 1 := by
  flow_eval getOutput, hc

/-- **C09-T2 (`tophat_close`).** `out = _get_output(f, out); fc = close(f, Bc); return subm(fc, f, out=out)`. -/
theorem C09_flow_tophat_close (f bc : Desc) :
    Honours [f, bc] f none (tophatCloseP 0 1)
      (.ap .subm (.ap .erode (.ap .dilate (.inp 0) (.inp 1)) (.inp 1)) (.inp 0)) := by
  honours_tac f, none

/-- **C09-T2 (`tophat_open`).** `out = _get_output(f, out); fo = open(f, Bc); return subm(f, fo, out=out)`. -/
theorem C09_flow_tophat_open (f bc : Desc) :
    Honours [f, bc] f none (tophatOpenP 0 1)
      (.ap .subm (.inp 0) (.ap .dilate (.ap .erode (.inp 0) (.inp 1)) (.inp 1))) := by
  honours_tac f, none

/-- **C09 (Gaussian ping-pong, pinned tree: the convention is violated).** With a perfectly
acceptable `out`, two axes: the returned buffer is *not* `out`, and `out` is left holding a copy of
the input (known finding `gaussian_filter:out-ignored`, defect #14, repair owned by C06). -/
theorem C09_gaussian_pinned_violates (a bc o : Desc) (h : Acceptable a o none) :
    (gaussPinnedP 0 1 (some 2) 2 (initSt [a, bc] (some o))).ret ≠ some 2 ∧
    (gaussPinnedP 0 1 (some 2) 2 (initSt [a, bc] (some o))).st.val 2 = .inp 0 := by
  obtain ⟨h1, h2, h3⟩ := h
  simp only [expectedDtype] at h1
  flow_eval getOutput, h1, h2, h3

/-- **C09-T2 (Gaussian ping-pong honouring the convention), any number of axes.** Passes alternate
between the user's buffer and one scratch buffer (allocated by the first pass) and the last pass is
copied back when it landed in the scratch buffer: for every rank `n`, with an acceptable `out` the
returned buffer is `out` itself and holds the `n`-fold filtered input, exactly what the call without
`out` returns; an unacceptable `out` raises before anything is written. (This is the flow a repair of
defect #14 has to realise; the pinned flow is `C09_gaussian_pinned_violates`.) -/
theorem C09_flow_gaussian_pingpong (a bc : Desc) (n : Nat) :
    Honours [a, bc] a none (fun out => gaussRepairedP 0 1 out n) (gaussIter (.inp 1) n (.inp 0)) :=
  flow_gaussian_all a bc n

/-- **C09 (`hitmiss`, hand-written validation, as repaired).** The supplied buffer is used (itself, or
its uint8 view when a bool buffer is given for a uint8 input) exactly when it has the input's shape,
is C-contiguous and has the input's dtype (or is that bool/uint8 pair); otherwise `ValueError`
(shape, contiguity) or `TypeError` (dtype) — never a silent fresh array. -/
theorem C09_hitmiss_validation (inp o : Desc) :
    ((hitmissOut inp (some o) = .useOut ∨ hitmissOut inp (some o) = .useView) ↔
      (o.shape = inp.shape ∧ o.ccontig = true ∧
        (o.dtype = inp.dtype ∨ (o.dtype = C09.dtBool ∧ inp.dtype = C09.dtU8)))) ∧
    (hitmissOut inp (some o) ≠ .fresh) ∧
    (o.ccontig = false → hitmissOut inp (some o) = .valueError) := by
  simp only [hitmissOut]
  refine ⟨?_, ?_, ?_⟩
  · split_ifs <;> simp_all
  · split_ifs <;> simp
  · intro h; split_ifs <;> simp_all

/-! ### tie to the current source (regenerated by the translator on every run) -/

/-- the model's three tests are the tests of the current `internal._get_output`, in source order,
each raising `ValueError`; without `out` it allocates `np.empty(array.shape, dtype)`. -/
theorem C09_getOutput_source_tie :
    Generated.getOutputChecksSrc =
      [("out.dtype != dtype", "ValueError"), ("out.shape != array.shape", "ValueError"),
       ("not out.flags.contiguous", "ValueError")] ∧
    Generated.getOutputChecksSrc.length = getOutputChecks.length ∧
    Generated.getOutputDefault = "np.empty(array.shape, dtype)" := by
  decide

/-- how each wrapper that satisfies the convention consumes `out` in the current source: the array and
dtype arguments of its `_get_output` call and the calls `out` is forwarded to (the wrappers with open
known findings — gaussian filters, convolve1d, zoom — and `remove_bordering`, which documents no
requirement, are not pinned here so that their repair does not break the tie). -/
def C09.expectedSites : List (String × List String × List String) := [
  ("morph.dilate", ["get_output(A,out,None,output)"], []),
  ("morph.erode", ["get_output(A,out,None,output)"], []),
  ("morph.cerode", ["get_output(f,out,None,output)", "forward:maximum(out=f)"], []),
  ("morph.hitmiss", [], ["out.shape != input.shape->ValueError", "not out.flags.c_contiguous->ValueError"]),
  ("morph.open", ["forward:erode(out=out)", "forward:dilate(out=eroded)"], []),
  ("morph.close", ["forward:dilate(out=out)", "forward:erode(out=dilated)"], []),
  ("morph.majority_filter", ["get_output(img,out,np.bool_,output)"], []),
  ("morph.locmax", ["get_output(f,out,np.bool_,output)"], []),
  ("morph.locmin", ["get_output(f,out,np.bool_,output)"], []),
  ("morph.regmin", ["get_output(f,out,np.bool_,output)"], []),
  ("morph.regmax", ["get_output(f,out,np.bool_,output)"], []),
  ("morph.subm", ["get_output(a,out,None)"], []),
  ("morph.tophat_close", ["get_output(f,out,None)", "forward:subm(out=out)"], []),
  ("morph.tophat_open", ["get_output(f,out,None)", "forward:subm(out=out)"], []),
  ("convolve.convolve", ["get_output(f,out,None,output)"], []),
  ("convolve.median_filter", ["get_output(f,out,None,output)"], []),
  ("convolve.mean_filter", ["get_output(f,out,np.float64)"], []),
  ("convolve.rank_filter", ["get_output(f,out,None,output)"], []),
  ("convolve.template_match", ["get_output(f,out,None,output)"], []),
  ("labeled.label", ["get_output(array,out,np.int32,output)"], []),
  ("labeled.border", ["get_output(labeled,out,bool,output)"], []),
  ("labeled.borders", ["get_output(labeled,out,bool,output)"], []),
  ("interpolate.spline_filter1d", ["get_output(array,out,dtype,output)"], []),
  ("interpolate.spline_filter", ["get_output(array,out,dtype,output)"], []),
  ("interpolate.shift", ["get_output(array,out,np.float64,output)"], [])]

/-- the current source still contains, for this wrapper, every `_get_output` call / forwarding / own
raise-test the model relies on (additional ones — e.g. a repaired `output=` alias — are allowed) -/
def C09.siteOk (e : String × List String × List String) : Bool :=
  Generated.outSites.any fun s =>
    s.1 == e.1 && e.2.1.all (fun x => s.2.2.1.contains x) && e.2.2.all (fun x => s.2.2.2.contains x)

/-- every wrapper listed in `C09.expectedSites` still validates/forwards `out` in the current source
as the buffer-flow models assume: the `_get_output` call with its array and dtype arguments, the
forwarding of `out`, hitmiss's own tests are all still there (a weakened or removed guard changes
`Generated.outSites` and breaks this theorem; extra validation does not); and the public functions with an out/output parameter are exactly the
known ones (a new one must be modelled). -/
theorem C09_out_sites_source_tie :
    C09.expectedSites.all C09.siteOk = true ∧
    Generated.outSites.map (·.1) =
      ["morph.dilate", "morph.erode", "morph.cerode", "morph.hitmiss", "morph.open", "morph.close",
       "morph.majority_filter", "morph.locmax", "morph.locmin", "morph.regmin", "morph.regmax", "morph.subm",
       "morph.tophat_close", "morph.tophat_open", "convolve.convolve", "convolve.convolve1d",
       "convolve.median_filter", "convolve.mean_filter", "convolve.rank_filter", "convolve.template_match",
       "convolve.gaussian_filter1d", "convolve.gaussian_filter", "labeled.label", "labeled.remove_bordering",
       "labeled.border", "labeled.borders", "interpolate.spline_filter1d", "interpolate.spline_filter",
       "interpolate.zoom", "interpolate.shift"] := by
  decide +kernel


/-! ## Round 2 — the wrappers repaired after the first report -/

/-- **C09-T2 (`convolve1d` as repaired, both paths, every axis).** On the contiguous fast path `out` is validated by
`_get_output` against `f` itself; along the last axis the kernel writes the rows of `out` directly, along any other
axis it writes a temporary and `out[...] = tmp…transpose(rindices)` copies it back; off the fast path `out` is
forwarded to `convolve`. In all four cases the convention holds: no `out` → a fresh buffer with the result; an
acceptable `out` → **that buffer** is returned and holds the result; any other `out` → the `ValueError` of
`_get_output`, raised before anything is written. -/
theorem C09_flow_convolve1d (f w : Desc) (fast lastAxis : Bool) :
    Honours [f, w] f none (fun out => convolve1dP 0 1 out fast lastAxis) (.ap .kernel (.inp 0) (.inp 1)) := by
  cases fast <;> cases lastAxis <;>
  (refine ⟨?_, fun o => ⟨fun h => ?_, fun h => ?_⟩⟩
   · flow_eval getOutput, convolve1dP
   · obtain ⟨h1, h2, h3⟩ := h
     simp only [expectedDtype] at h1
     flow_eval getOutput, convolve1dP, h1, h2, h3
   · obtain ⟨r, hr⟩ := getOutput_reject_of_not f o none h
     flow_eval hr, convolve1dP)

/-- **C09-T2 (`gaussian_filter1d` / `gaussian_filter` as repaired, bc1f729).** One pass forwards `out` to
`convolve1d`; the n-D filter validates `out` once, copies the input into it, lets the passes alternate between it and
one scratch buffer and, when the last pass landed in the scratch buffer, copies the result back
(`if output is not result: result[...] = output`) and returns the user's buffer — for every number of axes.
(`gaussRepairedP` is now the flow of the source; the pinned flow of `C09_gaussian_pinned_violates` is history.) -/
theorem C09_flow_gaussian_repaired (a bc : Desc) (n : Nat) :
    Honours [a, bc] a none (gauss1dP 0 1) (.ap .gauss1d (.inp 0) (.inp 1)) ∧
    Honours [a, bc] a none (fun out => gaussRepairedP 0 1 out n) (gaussIter (.inp 1) n (.inp 0)) := by
  refine ⟨?_, flow_gaussian_all a bc n⟩
  honours_tac a, none

/-- **C09-T2 (`open` / `close` with the deprecated `output=` alias, as repaired 399d97f).** The alias is forwarded
to the first pass, where `_get_output` resolves it (`out` wins when both are given): a buffer passed as `output=`
is honoured exactly like one passed as `out=`. -/
theorem C09_flow_output_alias (f bc : Desc) :
    Honours [f, bc] f none (fun o => openAliasP 0 1 none o)
      (.ap .dilate (.ap .erode (.inp 0) (.inp 1)) (.inp 1)) ∧
    Honours [f, bc] f none (fun o => closeAliasP 0 1 none o)
      (.ap .erode (.ap .dilate (.inp 0) (.inp 1)) (.inp 1)) ∧
    (∀ out output, out ≠ none → resolveAlias out output = out) := by
  refine ⟨?_, ?_, ?_⟩
  · have := C09_flow_open f bc
    simpa [openAliasP, resolveAlias] using this
  · have := C09_flow_close f bc
    simpa [closeAliasP, resolveAlias] using this
  · intro out output h
    cases out with
    | none => exact absurd rfl h
    | some o => rfl

/-- **C09 (`zoom` as repaired, 1873bd9).** `out` fixes the shape and the dtype of the result, so the only
requirements are: an array of the input's rank, C-contiguous, writeable. Exactly then the call returns **`out`
itself** holding the zoomed image (directly, or through a float temporary when the dtypes differ), the input intact;
any other `out` raises (`ValueError`, from Python, before the native code runs) with `out` and the input untouched;
without `out` a fresh buffer of the computed shape is returned. -/
theorem C09_flow_zoom (a : Desc) (o : ZOut) (oshape : List Nat) :
    let ok := o.isArray = true ∧ o.desc.shape.length = a.shape.length ∧ o.desc.ccontig = true ∧ o.writeable = true
    let run := zoomP 0 (some 1) (some o) oshape (initSt [a] (some o.desc))
    (ok → run.ret = some 1 ∧ run.st.val 1 = .ap .kernel (.inp 0) (.inp 0) ∧ run.st.val 0 = .inp 0) ∧
    (¬ ok → zoomDecision a (some o) = .valueError ∧ run.ret = none ∧ run.st.val 1 = .old ∧ run.st.val 0 = .inp 0) ∧
    ((zoomP 0 none none oshape (initSt [a] none)).retVal = some (.ap .kernel (.inp 0) (.inp 0)) ∧
     (zoomP 0 none none oshape (initSt [a] none)).ret = some 1 ∧
     (zoomP 0 none none oshape (initSt [a] none)).st.val 0 = .inp 0) := by
  obtain ⟨od, ia, wr⟩ := o
  obtain ⟨odt, osh, oc⟩ := od
  intro ok run
  refine ⟨?_, ?_, ?_⟩
  · rintro ⟨h1, h2, h3, h4⟩
    simp only at h1 h2 h3 h4
    subst h1 h3 h4
    by_cases hd : odt = a.dtype
    · simp [run, zoomP, zoomDecision, initSt, St.desc, St.val, R.bind, alloc, write, List.zipIdx, R.ret, R.st, h2, hd]
    · simp [run, zoomP, zoomDecision, initSt, St.desc, St.val, R.bind, alloc, write, List.zipIdx, R.ret, R.st, h2, hd]
  · intro h
    have hv : zoomDecision a (some ⟨⟨odt, osh, oc⟩, ia, wr⟩) = .valueError := by
      simp only [zoomDecision]
      by_cases c1 : ia = true
      · by_cases c2 : osh.length = a.shape.length
        · by_cases c3 : oc = true
          · by_cases c4 : wr = true
            · exact absurd ⟨c1, c2, c3, c4⟩ h
            · simp [c1, c2, c3, c4]
          · simp [c1, c2, c3]
        · simp [c1, c2]
      · simp [c1]
    refine ⟨hv, ?_⟩
    have hd : (initSt [a] (some ⟨odt, osh, oc⟩)).desc 0 = a := by
      simp [initSt, St.desc, List.zipIdx]
    have hrun : run = .raise .contig (initSt [a] (some ⟨odt, osh, oc⟩)) := by
      show zoomP 0 (some 1) _ oshape _ = _
      unfold zoomP
      rw [hd, hv]
    rw [hrun]
    simp [R.ret, R.st, initSt, St.val, List.zipIdx]
  · simp [zoomP, zoomDecision, initSt, St.desc, St.val, R.bind, alloc, write, List.zipIdx, R.ret, R.retVal, R.st]

/-- how the repaired wrappers consume `out` in the current source (regenerated on every run): `convolve1d`
validates with `_get_output(f, out)`, stores the transposed temporary with `out[...] = …`, returns `out`, and forwards
`out` to `convolve` off the fast path; `gaussian_filter1d` forwards `out` to `convolve1d`; `gaussian_filter` validates
with `_get_output`, hands the spare buffer to `gaussian_filter1d` (positionally, in the `out` slot), copies the last
pass back with `result[...] = output` and returns `result`; `open`/`close` forward the `output=` alias; `zoom`
raises `ValueError` for a non-array / wrong-rank / non-contiguous / read-only `out`. -/
def C09.expectedSitesRepaired : List (String × List String × List String) := [
  ("convolve.convolve1d", ["get_output(f,out,None)", "forward:convolve(out=out)",
     "store:out[...]=tmp.reshape(tshape).transpose(rindices)", "return:out"], []),
  ("convolve.gaussian_filter1d", ["forward:convolve1d(out=out)"], []),
  ("convolve.gaussian_filter", ["get_output(array,out,None,output)", "forward:gaussian_filter1d(out=noutput)",
     "store:result[...]=output", "return:result"], []),
  ("morph.open", ["forward:erode(out=out)", "forward:erode(output=output)", "forward:dilate(out=eroded)"], []),
  ("morph.close", ["forward:dilate(out=out)", "forward:dilate(output=output)", "forward:erode(out=dilated)"], []),
  ("interpolate.zoom", ["return:out"],
     ["not isinstance(out, np.ndarray) or out.ndim != array.ndim->ValueError",
      "not (out.flags.c_contiguous and out.flags.writeable)->ValueError"])]

/-- **tie of the Round-2 flows to the current source**: every validation, forwarding, copy-back and `return` the
models `convolve1dP`, `gauss1dP`, `gaussRepairedP`, `openAliasP`, `closeAliasP`, `zoomP` rely on is still in the
source the translator read today; removing one (e.g. the `result[...] = output` copy-back, the `output=output`
forwarding, zoom's contiguity test) changes `Generated.outSites` and breaks `lake build`. -/
theorem C09_repaired_sites_source_tie : C09.expectedSitesRepaired.all C09.siteOk = true := by
  decide +kernel

/-! non-vacuity: a concrete acceptable and three concrete unacceptable buffers for a (3,4) uint8 image,
    and the full run of `open` on them. -/
example :
    let f : Desc := { dtype := C09.dtU8, shape := [3, 4], ccontig := true }
    let good : Desc := { dtype := C09.dtU8, shape := [3, 4], ccontig := true }
    Acceptable f good none ∧
    ¬ Acceptable f { good with dtype := C09.dtBool } none ∧
    ¬ Acceptable f { good with shape := [4, 3] } none ∧
    ¬ Acceptable f { good with ccontig := false } none ∧
    (openP 0 1 (some 2) (initSt [f, f] (some good))).ret = some 2 ∧
    (openP 0 1 (some 2) (initSt [f, f] (some { good with ccontig := false }))).exc = some .contig := by
  decide

/-! ## Round 4 — `out` aliased to an input (the `np.may_share_memory` guards) -/

/-- **C09 (aliasing, single-pass wrappers, as repaired).** `output = _get_output(A, out, dtype);
if np.may_share_memory(A, output): A = A.copy(); return kernel(A, Bc, output)` — dilate, erode, locmax/locmin/regmax/regmin,
majority_filter, hitmiss, convolve, convolve1d (fast path), median/mean/rank filter, template_match, border(s), shift, zoom.
When the input itself is passed as `out` (it has the documented dtype and is C-contiguous) the call returns that buffer and it
holds exactly the result of the call without `out`: the kernel read a private copy taken before the first write. -/
theorem C09_alias_single_pass (op : Op) (A bc : Desc) (dt : Option Nat) (h : Acceptable A A dt) :
    AliasSafe [A, bc] 0 (fun out => kernel1G true op 0 1 out dt) (.ap op (.inp 0) (.inp 1)) := by
  obtain ⟨h1, -, h3⟩ := h
  cases dt with
  | none => flowG_eval getOutput, h3
  | some d => simp only [expectedDtype] at h1; flowG_eval getOutput, h1, h3

/-- **C09 (aliasing, single-pass wrappers: the SECOND operand as `out`).** A structuring element / weights / template that
has the documented dtype, the image's shape and is C-contiguous may be passed as `out` too: the wrapper (erode, dilate,
template_match: `if np.may_share_memory(Bc, output): Bc = Bc.copy()`) or the native filter iterator (which copies the
filter into its own tables before the first store) works on a private copy; the buffer of the second operand is returned
holding the result of the call without `out`, the image is intact. -/
theorem C09_alias_second_operand (op : Op) (A bc : Desc) (dt : Option Nat) (h : Acceptable A bc dt) :
    AliasSafe [A, bc] 1 (fun out => kernel1G true op 0 1 out dt) (.ap op (.inp 0) (.inp 1)) := by
  obtain ⟨h1, h2, h3⟩ := h
  cases dt with
  | none => simp only [expectedDtype] at h1; flowG_eval getOutput, h1, h2, h3
  | some d => simp only [expectedDtype] at h1; flowG_eval getOutput, h1, h2, h3

/-- **C09 (aliasing: the guard is necessary, and it protects the image only).** Without the guard the kernel reads the
image while it overwrites it: the model's result contains an unspecified operand and is not the result of the call without
`out` (the real erode/dilate/locmax/convolve/median/… returned wrong values: repaired in b59f356, 5cc8b45, 4f4d652, cdef7af).
The same holds for the second operand (structuring element / template) passed as `out` (third conjunct; repaired in
fe3aaf2, f3c2a7a). -/
theorem C09_alias_single_pass_unguarded (op : Op) (A bc : Desc) (h : Acceptable A A none) :
    (kernel1G false op 0 1 (some 0) none (initSt [A, bc] none)).retVal = some (.ap op .undef (.inp 1)) ∧
    ¬ AliasSafe [A, bc] 0 (fun out => kernel1G false op 0 1 out none) (.ap op (.inp 0) (.inp 1)) ∧
    (Acceptable A bc none →
      (kernel1G false op 0 1 (some 1) none (initSt [A, bc] none)).retVal = some (.ap op (.inp 0) .undef)) := by
  obtain ⟨-, -, h3⟩ := h
  refine ⟨?_, ?_, ?_⟩
  · flowG_eval getOutput, h3
  · flowG_eval getOutput, h3
  · rintro ⟨h1, h2, h3'⟩
    simp only [expectedDtype] at h1
    flowG_eval getOutput, h1, h2, h3'

/-- **C09-T2 for the guarded wrappers (single pass, store-then-in-place).** With an `out` that is a buffer of its own the
guards do nothing: the round-4 programs honour the convention exactly like the earlier ones (fresh buffer without `out`; an
acceptable `out` is returned and holds the complete result; any other `out` raises with nothing written) — with or without
the guards. -/
theorem C09_flow_guarded (g : Bool) (op : Op) (A bc : Desc) (dt : Option Nat) :
    Honours [A, bc] A dt (fun out => kernel1G g op 0 1 out dt) (.ap op (.inp 0) (.inp 1)) ∧
    Honours [A, bc] A dt (fun out => inplaceP g op 0 1 out dt) (.ap op (.inp 0) (.inp 1)) := by
  refine ⟨?_, ?_⟩
  · cases g <;> cases dt with
    | none => honoursG_tac A, none
    | some d => honoursG_tac A, (some d)
  · cases g <;> cases dt with
    | none => honoursG_tac A, none
    | some d => honoursG_tac A, (some d)

/-- **C09-T2 for the guarded two-pass wrappers** (`open`, `close` over the guarded `erode`/`dilate`, with their own guard
for the structuring element): the convention holds as before, with or without the guards. -/
theorem C09_flow_guarded_open_close (g : Bool) (A bc : Desc) :
    Honours [A, bc] A none (openGP g 0 1) (.ap .dilate (.ap .erode (.inp 0) (.inp 1)) (.inp 1)) ∧
    Honours [A, bc] A none (closeGP g 0 1) (.ap .erode (.ap .dilate (.inp 0) (.inp 1)) (.inp 1)) := by
  refine ⟨?_, ?_⟩
  · cases g <;> honoursG_tac A, none
  · cases g <;> honoursG_tac A, none

/-- **C09-T2 for the guarded `cerode` and `subm`.** -/
theorem C09_flow_guarded_cerode_subm (g : Bool) (A B bc : Desc) :
    Honours [A, B, bc] A none (cerodeGP g 0 1 2)
      (.ap .maximum (.ap .erode (.ap .maximum (.inp 0) (.inp 1)) (.inp 2)) (.inp 1)) ∧
    Honours [A, B] A none (submGP g 0 1) (.ap .subm (.inp 0) (.inp 1)) := by
  refine ⟨?_, ?_⟩
  · cases g <;> honoursG_tac A, none
  · cases g <;> honoursG_tac A, none

/-- **C09-T2 for the guarded `tophat_close`.** -/
theorem C09_flow_guarded_tophat_close (g : Bool) (A bc : Desc) :
    Honours [A, bc] A none (tophatCloseGP g 0 1)
      (.ap .subm (.ap .erode (.ap .dilate (.inp 0) (.inp 1)) (.inp 1)) (.inp 0)) := by
  cases g <;> honoursG_tac A, none

/-- **C09-T2 for the guarded `tophat_open`.** -/
theorem C09_flow_guarded_tophat_open (g : Bool) (A bc : Desc) :
    Honours [A, bc] A none (tophatOpenGP g 0 1)
      (.ap .subm (.inp 0) (.ap .dilate (.ap .erode (.inp 0) (.inp 1)) (.inp 1))) := by
  cases g <;> honoursG_tac A, none

/-- **C09 (aliasing, `open` / `close`).** `open(f, Bc, out=f)`: the first pass (`erode`, guarded) reads a copy of `f` and
writes `f`; the second pass works on `eroded.copy()` and writes `eroded` = `f`: the input buffer is returned and holds the
opening of its call-time content. Same for `close`. -/
theorem C09_alias_open_close (f bc : Desc) (hc : f.ccontig = true) :
    AliasSafe [f, bc] 0 (openGP true 0 1) (.ap .dilate (.ap .erode (.inp 0) (.inp 1)) (.inp 1)) ∧
    AliasSafe [f, bc] 0 (closeGP true 0 1) (.ap .erode (.ap .dilate (.inp 0) (.inp 1)) (.inp 1)) := by
  constructor <;> flowG_eval getOutput, hc

/-- **C09 (aliasing, `open` / `close` with the structuring element as `out`).** `if np.may_share_memory(Bc, out): Bc = Bc.copy()`
in front of the two passes: both passes use the saved element although the first pass overwrites `out` = `Bc`. Without the
guards the second pass would use the eroded image as its structuring element (third conjunct). -/
theorem C09_alias_open_close_Bc (f bc : Desc) (h : Acceptable f bc none) :
    AliasSafe [f, bc] 1 (openGP true 0 1) (.ap .dilate (.ap .erode (.inp 0) (.inp 1)) (.inp 1)) ∧
    AliasSafe [f, bc] 1 (closeGP true 0 1) (.ap .erode (.ap .dilate (.inp 0) (.inp 1)) (.inp 1)) ∧
    (openGP false 0 1 (some 1) (initSt [f, bc] none)).retVal ≠
      some (.ap .dilate (.ap .erode (.inp 0) (.inp 1)) (.inp 1)) := by
  obtain ⟨h1, h2, h3⟩ := h
  simp only [expectedDtype] at h1
  refine ⟨?_, ?_, ?_⟩ <;> flowG_eval getOutput, h1, h2, h3

/-- **C09 (aliasing, `cerode`).** `out = f` needs no guard (the kernel reads the temporary `maximum(f, g)`); `out = g` is
safe because of the guard `if np.may_share_memory(g, out): g = g.copy()`: the final `maximum(eroded, g)` uses the saved
condition. Without that guard `out = g` returns `maximum(eroded, eroded)`: the condition is lost (third conjunct). -/
theorem C09_alias_cerode (f g bc : Desc) :
    (f.ccontig = true → ∀ gd : Bool,
      AliasSafe [f, g, bc] 0 (cerodeGP gd 0 1 2)
        (.ap .maximum (.ap .erode (.ap .maximum (.inp 0) (.inp 1)) (.inp 2)) (.inp 1))) ∧
    (Acceptable f g none →
      AliasSafe [f, g, bc] 1 (cerodeGP true 0 1 2)
        (.ap .maximum (.ap .erode (.ap .maximum (.inp 0) (.inp 1)) (.inp 2)) (.inp 1))) ∧
    (Acceptable f g none →
      (cerodeGP false 0 1 2 (some 1) (initSt [f, g, bc] none)).retVal =
        some (.ap .maximum (.ap .erode (.ap .maximum (.inp 0) (.inp 1)) (.inp 2))
                           (.ap .erode (.ap .maximum (.inp 0) (.inp 1)) (.inp 2)))) ∧
    (Acceptable f bc none →
      AliasSafe [f, g, bc] 2 (cerodeGP true 0 1 2)
        (.ap .maximum (.ap .erode (.ap .maximum (.inp 0) (.inp 1)) (.inp 2)) (.inp 1))) := by
  refine ⟨fun hc gd => ?_, ?_, ?_, ?_⟩
  rotate_left 3
  · rintro ⟨h1, h2, h3⟩
    simp only [expectedDtype] at h1
    flowG_eval getOutput, h1, h2, h3
  · cases gd <;> flowG_eval getOutput, hc
  · rintro ⟨h1, h2, h3⟩
    simp only [expectedDtype] at h1
    flowG_eval getOutput, h1, h2, h3
  · rintro ⟨h1, h2, h3⟩
    simp only [expectedDtype] at h1
    flowG_eval getOutput, h1, h2, h3

/-- **C09 (aliasing, `subm`).** `out = a` is the documented in-place use (`out is a`: no copy, the element-wise native
`subm` works in place); `out = b` is safe because of the guard (`b` is saved before `out[:] = a` overwrites it); without the
guard `subm(a, b, out=b)` computes `a − a` (third conjunct: the defect repaired in 5ae511d). -/
theorem C09_alias_subm (a b : Desc) :
    (a.ccontig = true → ∀ gd : Bool, AliasSafe [a, b] 0 (submGP gd 0 1) (.ap .subm (.inp 0) (.inp 1))) ∧
    (Acceptable a b none → AliasSafe [a, b] 1 (submGP true 0 1) (.ap .subm (.inp 0) (.inp 1))) ∧
    (Acceptable a b none →
      (submGP false 0 1 (some 1) (initSt [a, b] none)).retVal = some (.ap .subm (.inp 0) (.inp 0))) := by
  refine ⟨fun hc gd => ?_, ?_, ?_⟩
  · cases gd <;> flowG_eval getOutput, hc
  · rintro ⟨h1, h2, h3⟩
    simp only [expectedDtype] at h1
    flowG_eval getOutput, h1, h2, h3
  · rintro ⟨h1, h2, h3⟩
    simp only [expectedDtype] at h1
    flowG_eval getOutput, h1, h2, h3

/-- **C09 (aliasing, top-hats).** `tophat_close(f, Bc, out=f)`: `fc = close(f)` is a fresh buffer, then
`subm(fc, f, out=f)` — `out` is the subtrahend, saved by `subm`'s guard; `tophat_open(f, Bc, out=f)`: `subm(f, fo, out=f)` is
the in-place use. Both return `f` holding the top-hat of its call-time content. -/
theorem C09_alias_tophat (f bc : Desc) (hc : f.ccontig = true) :
    AliasSafe [f, bc] 0 (tophatCloseGP true 0 1)
      (.ap .subm (.ap .erode (.ap .dilate (.inp 0) (.inp 1)) (.inp 1)) (.inp 0)) ∧
    AliasSafe [f, bc] 0 (tophatOpenGP true 0 1)
      (.ap .subm (.inp 0) (.ap .dilate (.ap .erode (.inp 0) (.inp 1)) (.inp 1))) := by
  constructor <;> flowG_eval getOutput, hc

/-- **C09 (aliasing, store-then-in-place wrappers: `label`, `spline_filter1d`, `spline_filter`).**
`output = _get_output(array, out, dtype); output[...] = array; kernel(output, …)`: with `out = array` the store is a
self-assignment and the kernel only ever works on `output`: safe without any guard. `label` also reads a structuring
element: passed as `out` it is saved by `if np.may_share_memory(Bc, output): Bc = Bc.copy()` before the store (second
conjunct); without that guard the store would overwrite it first (third conjunct; repaired in 1c2ac70). -/
theorem C09_alias_inplace (g : Bool) (op : Op) (A bc : Desc) (dt : Option Nat) :
    (Acceptable A A dt → AliasSafe [A, bc] 0 (fun out => inplaceP g op 0 1 out dt) (.ap op (.inp 0) (.inp 1))) ∧
    (Acceptable A bc dt → AliasSafe [A, bc] 1 (fun out => inplaceP true op 0 1 out dt) (.ap op (.inp 0) (.inp 1))) ∧
    (Acceptable A bc dt →
      (inplaceP false op 0 1 (some 1) dt (initSt [A, bc] none)).retVal = some (.ap op (.inp 0) .undef)) := by
  refine ⟨?_, ?_, ?_⟩
  · rintro ⟨h1, -, h3⟩
    cases g <;> cases dt with
    | none => flowG_eval getOutput, h3
    | some d => simp only [expectedDtype] at h1; flowG_eval getOutput, h1, h3
  · rintro ⟨h1, h2, h3⟩
    cases dt with
    | none => simp only [expectedDtype] at h1; flowG_eval getOutput, h1, h2, h3
    | some d => simp only [expectedDtype] at h1; flowG_eval getOutput, h1, h2, h3
  · rintro ⟨h1, h2, h3⟩
    cases dt with
    | none => simp only [expectedDtype] at h1; flowG_eval getOutput, h1, h2, h3
    | some d => simp only [expectedDtype] at h1; flowG_eval getOutput, h1, h2, h3

/-- **C09 (aliasing, `gaussian_filter`, every number of axes).** `gaussian_filter(array, σ, out=array)`: `output[...] =
array[...]` is a self-assignment, every pass reads one buffer and writes the *other* one of the ping-pong (never the one it
reads), and the copy-back lands in `array`: safe without any guard, for every rank. -/
theorem C09_alias_gaussian (a bc : Desc) (n : Nat) (hc : a.ccontig = true) :
    AliasSafe [a, bc] 0 (fun out => gaussRepairedP 0 1 out n) (gaussIter (.inp 1) n (.inp 0)) := by
  refine ⟨(flow_gaussian_all a bc n).1.1, ?_⟩
  have hg : getOutput a (some a) none = .useOut := (getOutput_useOut_iff a a none).2 ⟨rfl, rfl, hc⟩
  let s0 := initSt [a, bc] none
  let sW := write 0 (.inp 0) s0
  have key : gaussRepairedP 0 1 (some 0) n s0 = (gaussLoop 1 n 0 none sW).bind (copyBack 0) := by
    have hd0 : s0.desc 0 = a := rfl
    unfold gaussRepairedP getOut
    simp only [Option.map_some, hd0, hg, R.bind]
    rfl
  have hl : sW.heap.length = 2 := rfl
  obtain ⟨s', h1, h2, h3⟩ := gaussRun 1 n 0 sW (by rw [hl]; omega) (by rw [hl]; omega) (by decide) (by exact hc)
  have hv1 : sW.val 1 = .inp 1 := rfl
  have hv0 : sW.val 0 = .inp 0 := rfl
  show (gaussRepairedP 0 1 (some 0) n s0).ret = some 0 ∧ (gaussRepairedP 0 1 (some 0) n s0).st.val 0 = _ ∧
    intactBut (gaussRepairedP 0 1 (some 0) n s0).st 0 2
  rw [key]
  unfold copyBack
  rw [h1]
  refine ⟨rfl, ?_, ?_⟩
  · simp only [R.st, h2, hv1, hv0]
  · simp only [intactBut, R.st]
    exact ⟨fun _ => by rw [h3 1 (by rw [hl]; omega) (by omega), hv1], fun h => absurd rfl h, trivial⟩

/-! ### tie of the aliasing models to the current source -/

/-- do the events `xs` occur in `ys` in this order (not necessarily next to each other)? -/
def C09.isSubseq : List (String × String) → List (String × String) → Bool
  | [], _ => true
  | _ :: _, [] => false
  | x :: xs, y :: ys => if x == y then C09.isSubseq xs ys else C09.isSubseq (x :: xs) ys

/-- for every public function with an out/output parameter: the aliasing class its model belongs to and the events — in
source order — that class relies on. `guarded`: `_get_output`, then the guard `if np.may_share_memory(x, out): x = x.copy()`,
then the native call on the (possibly copied) `x` and `out` (`kernel1G true`, theorem `C09_alias_single_pass`); `cerode`,
`subm`: their own guards (`C09_alias_cerode`, `C09_alias_subm`); `compose`: built from guarded functions
(`C09_alias_open_close`, `C09_alias_tophat`; `gaussian_filter1d` forwards to `convolve1d`); `inplace`: whole-buffer store, then
an in-place kernel on the output only (`C09_alias_inplace`); `pingpong`: `C09_alias_gaussian`; `elementwise`:
`remove_bordering` (numpy element-wise statements only, in-place use documented). -/
def C09.aliasPlan : List (String × String × List (String × String)) := [
  ("morph.dilate", "guarded", [("get_output", "(A,out,None,output)"), ("unalias", "A|A~output"), ("unalias", "Bc|Bc~output"), ("native", "_morph.dilate(A,Bc,output)")]),
  ("morph.erode", "guarded", [("get_output", "(A,out,None,output)"), ("unalias", "A|A~output"), ("unalias", "Bc|Bc~output"), ("native", "_morph.erode(A,Bc,output)")]),
  ("morph.cerode", "cerode", [("get_output", "(f,out,None,output)"), ("unalias", "g|g~out"), ("unalias", "Bc|Bc~out"), ("native", "_morph.erode(f,Bc,out)"), ("call", "np.maximum(f,g,out=f)")]),
  ("morph.hitmiss", "guarded", [("unalias", "input|input~out"), ("native", "_morph.hitmiss(input,Bc,out)")]),
  ("morph.open", "compose", [("unalias", "Bc|Bc~out if out is not None else output"), ("call", "erode(f,Bc,out=out,output=output)"), ("call", "dilate(eroded.copy(),Bc,out=eroded)")]),
  ("morph.close", "compose", [("unalias", "Bc|Bc~out if out is not None else output"), ("call", "dilate(f,Bc,out=out,output=output)"), ("call", "erode(dilated.copy(),Bc,out=dilated)")]),
  ("morph.majority_filter", "guarded", [("get_output", "(img,out,np.bool_,output)"), ("unalias", "img|img~output"), ("native", "_morph.majority_filter(img,N,output)")]),
  ("morph.locmax", "guarded", [("get_output", "(f,out,np.bool_,output)"), ("unalias", "f|f~output"), ("native", "_morph.locmin_max(f,Bc,output,False)")]),
  ("morph.locmin", "guarded", [("get_output", "(f,out,np.bool_,output)"), ("unalias", "f|f~output"), ("native", "_morph.locmin_max(f,Bc,output,True)")]),
  ("morph.regmin", "guarded", [("get_output", "(f,out,np.bool_,output)"), ("unalias", "f|f~output"), ("native", "_morph.regmin_max(f,Bc,output,True)")]),
  ("morph.regmax", "guarded", [("get_output", "(f,out,np.bool_,output)"), ("unalias", "f|f~output"), ("native", "_morph.regmin_max(f,Bc,output,False)")]),
  ("morph.subm", "subm", [("get_output", "(a,out,None)"), ("unalias", "b|out~b"), ("store", "out[:]=a"), ("native", "_morph.subm(out,b)")]),
  ("morph.tophat_close", "compose", [("get_output", "(f,out,None)"), ("call", "close(f,Bc)"), ("call", "subm(fc,f,out=out)")]),
  ("morph.tophat_open", "compose", [("get_output", "(f,out,None)"), ("call", "open(f,Bc)"), ("call", "subm(f,fo,out=out)")]),
  ("convolve.convolve", "guarded", [("get_output", "(f,out,None,output)"), ("unalias", "f|f~output"), ("native", "_convolve.convolve(f,weights,output,mode2int[mode])")]),
  ("convolve.convolve1d", "guarded", [("get_output", "(f,out,None)"), ("unalias", "f|f~out"),
     ("native", "_convolve.convolve1d(f,weights,out.reshape(f.shape),mode2int[mode])"), ("native", "_convolve.convolve1d(f,weights,tmp,mode2int[mode])"),
     ("store", "out[...]=tmp.reshape(tshape).transpose(rindices)"), ("call", "convolve(f,weights,mode=mode,cval=cval,out=out)")]),
  ("convolve.median_filter", "guarded", [("get_output", "(f,out,None,output)"), ("unalias", "f|f~output"), ("native", "_convolve.rank_filter(f,Bc,output,int(rank),mode2int[mode])")]),
  ("convolve.mean_filter", "guarded", [("get_output", "(f,out,np.float64)"), ("unalias", "f|f~out"), ("native", "_convolve.mean_filter(f,Bc,out,mode2int[mode],cval)")]),
  ("convolve.rank_filter", "guarded", [("get_output", "(f,out,None,output)"), ("unalias", "f|f~output"), ("native", "_convolve.rank_filter(f,Bc,output,rank,mode2int[mode])")]),
  ("convolve.template_match", "guarded", [("get_output", "(f,out,None,output)"), ("unalias", "f|f~output"), ("unalias", "template|template~output"), ("native", "_convolve.template_match(f,template,output,mode2int[mode],0)")]),
  ("convolve.gaussian_filter1d", "compose", [("call", "convolve1d(array,weights,axis,mode,cval,out=out)")]),
  ("convolve.gaussian_filter", "pingpong", [("get_output", "(array,out,None,output)"), ("store", "output[...]=array[...]"),
     ("call", "gaussian_filter1d(output,sigma,axis,order,mode,cval,noutput)"), ("store", "result[...]=output"), ("return", "result")]),
  ("labeled.label", "inplace", [("get_output", "(array,out,np.int32,output)"), ("unalias", "Bc|Bc~output"), ("store", "output[:]=array != 0"), ("native", "_labeled.label(output,Bc)")]),
  ("labeled.remove_bordering", "elementwise", [("unalias", "im|out~im"), ("store", "out[:]=im"), ("return", "out")]),
  ("labeled.border", "guarded", [("get_output", "(labeled,out,bool,output)"), ("unalias", "labeled|labeled~output"), ("fill", "output(False)"),
     ("native", "_labeled.border(labeled,Bc,output,i,j,bool(always_return))")]),
  ("labeled.borders", "guarded", [("get_output", "(labeled,out,bool,output)"), ("unalias", "labeled|labeled~output"), ("fill", "output(False)"),
     ("native", "_labeled.borders(labeled,Bc,output,_checked_mode2int(mode, 0.0, 'borders'))")]),
  ("interpolate.spline_filter1d", "inplace", [("get_output", "(array,out,dtype,output)"), ("store", "output[...]=array"), ("native", "_interpolate.spline_filter1d(output,order,axis)")]),
  ("interpolate.spline_filter", "inplace", [("get_output", "(array,out,dtype,output)"), ("store", "output[...]=array"), ("native", "_interpolate.spline_filter1d(output,order,axis)")]),
  ("interpolate.zoom", "guarded", [("unalias", "array|array~out"), ("native", "_interpolate.zoom_shift(array,zoom,None,out,order,mode2int[mode],cval)")]),
  ("interpolate.shift", "guarded", [("get_output", "(array,out,np.float64,output)"), ("unalias", "array|array~output"),
     ("native", "_interpolate.zoom_shift(array,None,shift,output,order,mode2int[mode],cval)")])]

/-- the events of one function in the current source -/
def C09.eventsOf (fn : String) : List (String × String) :=
  match Generated.outEvents.find? (·.1 == fn) with
  | some e => e.2
  | none => []

/-- **tie of the aliasing theorems to the current source** (regenerated on every run): (1) the functions with an out/output
parameter are exactly the planned ones, in order; (2) for each, the events its class relies on occur in the source **in
that order** — in particular every `guarded` wrapper still has its `if np.may_share_memory(x, out): x = x.copy()` *after*
`_get_output` and *before* the native call; (3) every `guarded` plan does contain such a guard and a native call after it
(the plan itself is not vacuous), and the only native kernels called on an `out` buffer that may be the input without a guard
are the in-place ones without a second array operand (`spline_filter1d`, `spline_filter`); `label` and `subm` work in place
and guard their second operand. Removing or moving one guard makes this `decide` fail. -/
theorem C09_alias_guards_source_tie :
    Generated.outEvents.map (·.1) = C09.aliasPlan.map (·.1) ∧
    C09.aliasPlan.all (fun p => C09.isSubseq p.2.2 (C09.eventsOf p.1)) = true ∧
    (C09.aliasPlan.filter (fun p => p.2.1 == "guarded")).all (fun p =>
      match p.2.2.dropWhile (fun e => e.1 != "unalias") with
      | _ :: rest => rest.any (·.1 == "native")
      | [] => false) = true ∧
    (Generated.outEvents.filter (fun e => e.2.any (·.1 == "native") && !e.2.any (·.1 == "unalias"))).map (·.1) =
      ["interpolate.spline_filter1d", "interpolate.spline_filter"] := by
  decide +kernel


/-! ### "writes the COMPLETE result": composition with the defined-everywhere cover of C10 -/

/-- for every function with an out/output parameter: the rows of C10's allocation cover (`allocCover`: file, function,
variable; regenerated site list `Generated.allocSiteTable`) that describe how the buffer it hands to a kernel is filled.
The kernel cannot tell a fresh `np.empty` buffer from the caller's `out` (`C09_getOut_out_itself_or_untouched`: on
acceptance the very same code runs on `out` itself), so the theorem that every cell of the fresh buffer is stored before the
call returns is the theorem that every cell of `out` is. Functions that only forward `out` cite the rows of the functions
they forward to. -/
def C09.writeCover : List (String × List (String × String × String)) := [
  ("morph.dilate", [("morph.py", "dilate", "output")]),
  ("morph.erode", [("morph.py", "erode", "output")]),
  ("morph.cerode", [("morph.py", "cerode", "out")]),
  ("morph.hitmiss", [("morph.py", "hitmiss", "out")]),
  ("morph.open", [("morph.py", "erode", "output"), ("morph.py", "dilate", "output")]),
  ("morph.close", [("morph.py", "dilate", "output"), ("morph.py", "erode", "output")]),
  ("morph.majority_filter", [("morph.py", "majority_filter", "output")]),
  ("morph.locmax", [("morph.py", "locmax", "output")]),
  ("morph.locmin", [("morph.py", "locmin", "output")]),
  ("morph.regmin", [("morph.py", "regmin", "output")]),
  ("morph.regmax", [("morph.py", "regmax", "output")]),
  ("morph.subm", [("morph.py", "subm", "out")]),
  ("morph.tophat_close", [("morph.py", "tophat_close", "out"), ("morph.py", "subm", "out")]),
  ("morph.tophat_open", [("morph.py", "tophat_open", "out"), ("morph.py", "subm", "out")]),
  ("convolve.convolve", [("convolve.py", "convolve", "output")]),
  ("convolve.convolve1d", [("convolve.py", "convolve1d", "out"), ("convolve.py", "convolve1d", "tmp"), ("convolve.py", "convolve", "output")]),
  ("convolve.median_filter", [("convolve.py", "median_filter", "output")]),
  ("convolve.mean_filter", [("convolve.py", "mean_filter", "out")]),
  ("convolve.rank_filter", [("convolve.py", "rank_filter", "output")]),
  ("convolve.template_match", [("convolve.py", "template_match", "output")]),
  ("convolve.gaussian_filter1d", [("convolve.py", "convolve1d", "out"), ("convolve.py", "convolve1d", "tmp"), ("convolve.py", "convolve", "output")]),
  ("convolve.gaussian_filter", [("convolve.py", "gaussian_filter", "output"), ("convolve.py", "convolve1d", "out")]),
  ("labeled.label", [("labeled.py", "label", "output")]),
  ("labeled.remove_bordering", []),
  ("labeled.border", [("labeled.py", "border", "output")]),
  ("labeled.borders", [("labeled.py", "borders", "output")]),
  ("interpolate.spline_filter1d", [("interpolate.py", "spline_filter1d", "output")]),
  ("interpolate.spline_filter", [("interpolate.py", "spline_filter", "output")]),
  ("interpolate.zoom", [("interpolate.py", "zoom", "out")]),
  ("interpolate.shift", [("interpolate.py", "shift", "output")])]

/-- **C09 ("writes the complete result").** (1) Every public function with an out/output parameter of the current source
has an entry in `C09.writeCover`; (2) every row it cites is a row of C10's `allocCover` that is marked *proved* and names at
least one theorem about the loop shape that stores every cell (whole-buffer fill / one store per pixel of the iteration / every
column of every row / window loops after a fill — `C10_alloc_*_defined`), and the site is still in the regenerated
`Generated.allocSiteTable`; (3) the only function without such a row is `remove_bordering`, which consists of numpy
whole-array statements (`out[:] = im; out *= …`). Together with `C09_getOut_out_itself_or_untouched` (the kernel runs on `out`
itself) and the flow theorems (`st.val k = V`: the last whole-buffer write is the final result): an accepted `out` is written in
every cell. -/
theorem C09_complete_write_cover :
    Generated.outSites.map (·.1) = C09.writeCover.map (·.1) ∧
    C09.writeCover.all (fun w => w.2.all fun r =>
      (allocCover.any fun c => c.file == r.1 && c.fn == r.2.1 && c.var == r.2.2 && c.proved && !c.thms.isEmpty) &&
      (Generated.allocSiteTable.any fun s => s.1 == r.1 && s.2.1 == r.2.1 && s.2.2.1 == r.2.2)) = true ∧
    (C09.writeCover.filter (·.2.isEmpty)).map (·.1) = ["labeled.remove_bordering"] := by
  decide +kernel

/-! non-vacuity (round 4): a (3,4) uint8 image passed as its own `out` — safe with the guard, garbage without it; a strided
    image is not an acceptable `out` for itself; the subsequence test really tests the order. -/
example :
    let f : Desc := { dtype := C09.dtU8, shape := [3, 4], ccontig := true }
    AliasSafe [f, f] 0 (fun out => kernel1G true .dilate 0 1 out none) (.ap .dilate (.inp 0) (.inp 1)) ∧
    (kernel1G false .dilate 0 1 (some 0) none (initSt [f, f] none)).retVal = some (.ap .dilate .undef (.inp 1)) ∧
    AliasSafe [f, f] 1 (submGP true 0 1) (.ap .subm (.inp 0) (.inp 1)) ∧
    ¬ Acceptable { f with ccontig := false } { f with ccontig := false } none ∧
    (kernel1G true .dilate 0 1 (some 0) none (initSt [{ f with ccontig := false }, f] none)).exc = some .contig := by
  intro f
  refine ⟨C09_alias_single_pass _ _ _ _ ⟨rfl, rfl, rfl⟩, (C09_alias_single_pass_unguarded .dilate f f ⟨rfl, rfl, rfl⟩).1,
    (C09_alias_subm f f).2.1 ⟨rfl, rfl, rfl⟩, by decide, by decide⟩

example : C09.isSubseq [("a", "1"), ("b", "2")] [("a", "1"), ("x", "0"), ("b", "2")] = true ∧
    C09.isSubseq [("b", "2"), ("a", "1")] [("a", "1"), ("x", "0"), ("b", "2")] = false := by decide

/-! ### native re-checks of `out`: the element-type test is an EQUIVALENCE test -/

/-- is the atom a type test on argument `o`? `some true`: an equivalence test (`numpy::equiv_typenums`, `check_type<T>`,
`PyArray_EquivTypenums`) or an exact comparison with a type number that has no second number of the same layout (bool,
32-bit int, double); `some false`: an exact comparison (`PyArray_TYPE(o) != NPY_X`) with one of the 64-bit integer numbers,
which come in pairs (`NPY_LONG`/`NPY_LONGLONG`: 7/9, `NPY_ULONG`/`NPY_ULONGLONG`: 8/10); `none`: not a type test on `o`. -/
def C09.typeTestOn (o : String) : C11.NAtom → Option Bool
  | .typesDiffer as => if as.contains o then some true else none
  | .typeNotEquiv a _ => if a == o then some true else none
  | .typeNe a t => if a == o then some (!(t == 7 || t == 8 || t == 9 || t == 10)) else none
  | .whenArr _ inner => C09.typeTestOn o inner
  | .whenNotNone _ inner => C09.typeTestOn o inner
  | _ => none

/-- the native entry points that receive the caller's `out` (or the fresh buffer), the name of that parameter, and their
guards as extracted from the current C++ sources (`Generated/Guards.lean`, regenerated on every run) -/
def C09.nativeOutKernels : List (String × String × List C11.NAtom) := [
  ("_morph.dilate", "output", Generated.nativeGuards_morph_dilate),
  ("_morph.erode", "output", Generated.nativeGuards_morph_erode),
  ("_morph.hitmiss", "res_a", Generated.nativeGuards_morph_hitmiss),
  ("_morph.majority_filter", "res_a", Generated.nativeGuards_morph_majority_filter),
  ("_morph.locmin_max", "output", Generated.nativeGuards_morph_locmin_max),
  ("_morph.regmin_max", "output", Generated.nativeGuards_morph_regmin_max),
  ("_morph.subm", "a", Generated.nativeGuards_morph_subm),
  ("_convolve.convolve", "output", Generated.nativeGuards_convolve_convolve),
  ("_convolve.convolve1d", "output", Generated.nativeGuards_convolve_convolve1d),
  ("_convolve.rank_filter", "output", Generated.nativeGuards_convolve_rank_filter),
  ("_convolve.mean_filter", "output", Generated.nativeGuards_convolve_mean_filter),
  ("_convolve.template_match", "output", Generated.nativeGuards_convolve_template_match),
  ("_labeled.label", "array", Generated.nativeGuards_labeled_label),
  ("_labeled.border", "output", Generated.nativeGuards_labeled_border),
  ("_labeled.borders", "output", Generated.nativeGuards_labeled_borders),
  ("_interpolate.zoom_shift", "output", Generated.nativeGuards_interpolate_zoom_shift)]

/-- **C09 (native re-checks accept every buffer `_get_output` accepts).** `_get_output` compares dtypes with numpy's `!=`,
for which `int64` created as `'l'` and as `'q'` (`np.longlong`) are EQUAL although their C type numbers differ (7/9; 8/10 for
the unsigned pair). Every native entry point that receives `out` re-checks its element type — and each of these re-checks, as
extracted from the current C++ source, is an equivalence test (or an exact test against a type number without a twin): so a
buffer accepted by `_get_output` is not rejected by the second line of defence for its type number. A re-check rewritten with
`PyArray_TYPE(output) == typenum`, or moved where the extraction no longer sees it, makes this `decide` fail. -/
theorem C09_native_out_type_tests_equivalence :
    C09.nativeOutKernels.all (fun k =>
      let tests := k.2.2.filterMap (C09.typeTestOn k.2.1)
      !tests.isEmpty && tests.all id) = true := by
  decide +kernel

example : C09.typeTestOn "output" (.typeNe "output" 9) = some false ∧
    C09.typeTestOn "output" (.whenNotNone "output" (.typesDiffer ["output", "array"])) = some true ∧
    C09.typeTestOn "output" (.notCArray "output") = none := by decide

/-! ### Round 4: the whole flow of `hitmiss`, degenerate buffers -/

/-- what `hitmiss` accepts: the input's shape, C-contiguous, and the input's dtype or a bool buffer for a uint8 input -/
def C09.HitmissAcceptable (inp o : Desc) : Prop :=
  o.shape = inp.shape ∧ o.ccontig = true ∧ (o.dtype = inp.dtype ∨ (o.dtype = C09.dtBool ∧ inp.dtype = C09.dtU8))

instance (inp o : Desc) : Decidable (C09.HitmissAcceptable inp o) := by
  unfold C09.HitmissAcceptable; infer_instance

/-- **C09 (`hitmiss`, the whole flow; until round 4 only its decision function was modelled).** With a buffer it accepts
(`C09.HitmissAcceptable`: also the bool buffer whose uint8 view is written) the call returns **that buffer** holding the result and
leaves the inputs alone; any other buffer raises (shape → contiguity → dtype, in source order) with the buffer still `old` and the
inputs intact; without `out` a fresh buffer holds the result; and with the image itself as `out` (`AliasSafe`) the guard makes the
kernel read a copy. -/
theorem C09_flow_hitmiss (g : Bool) (inp bc o : Desc) :
    ((hitmissP g 0 1 none (initSt [inp, bc] none)).retVal = some (.ap .kernel (.inp 0) (.inp 1)) ∧
      intact (hitmissP g 0 1 none (initSt [inp, bc] none)).st 2) ∧
    (C09.HitmissAcceptable inp o →
      (hitmissP g 0 1 (some 2) (initSt [inp, bc] (some o))).ret = some 2 ∧
      (hitmissP g 0 1 (some 2) (initSt [inp, bc] (some o))).st.val 2 = .ap .kernel (.inp 0) (.inp 1) ∧
      intact (hitmissP g 0 1 (some 2) (initSt [inp, bc] (some o))).st 2) ∧
    (¬ C09.HitmissAcceptable inp o →
      (hitmissP g 0 1 (some 2) (initSt [inp, bc] (some o))).ret = none ∧
      (hitmissP g 0 1 (some 2) (initSt [inp, bc] (some o))).st.val 2 = .old ∧
      intact (hitmissP g 0 1 (some 2) (initSt [inp, bc] (some o))).st 2) ∧
    (inp.ccontig = true → AliasSafe [inp, bc] 0 (hitmissP true 0 1) (.ap .kernel (.inp 0) (.inp 1))) := by
  refine ⟨?_, ?_, ?_, ?_⟩
  · cases g <;> flowG_eval hitmissP, hitmissOut
  · rintro ⟨h1, h2, h3⟩
    rcases h3 with h3 | ⟨h3, h4⟩
    · cases g <;> flowG_eval hitmissP, hitmissOut, h1, h2, h3
    · by_cases hd : o.dtype = inp.dtype
      · cases g <;> flowG_eval hitmissP, hitmissOut, h1, h2, hd
      · have hne : ¬ C09.dtBool = C09.dtU8 := by decide
        cases g <;> flowG_eval hitmissP, hitmissOut, h1, h2, h3, h4, hd, hne
  · intro h
    unfold C09.HitmissAcceptable at h
    by_cases h1 : o.shape = inp.shape
    · by_cases h2 : o.ccontig = true
      · have h3 : ¬ o.dtype = inp.dtype := fun e => h ⟨h1, h2, Or.inl e⟩
        have h4 : ¬ (o.dtype = C09.dtBool ∧ inp.dtype = C09.dtU8) := fun e => h ⟨h1, h2, Or.inr e⟩
        cases g <;> flowG_eval hitmissP, hitmissOut, h1, h2, h3, h4
      · have h2' : o.ccontig = false := by cases hc : o.ccontig <;> simp_all
        cases g <;> flowG_eval hitmissP, hitmissOut, h1, h2'
    · cases g <;> flowG_eval hitmissP, hitmissOut, h1
  · intro hc
    flowG_eval hitmissP, hitmissOut, hc

/-- **C09 (degenerate buffers: goal "reject + untouched").** A 0-d `out` for an array of rank ≥ 1, a zero-size `out` for an
array without an empty axis, and any buffer that is not C-contiguous (a view with negative strides, a zero-stride broadcast
view, a Fortran-ordered or strided buffer: `ccontig = false`) are never accepted by `_get_output` — so, by the flow theorems,
the call raises with the buffer untouched; a zero-size `out` IS accepted for an equally shaped empty array. -/
theorem C09_getOutput_degenerate_out (a o : Desc) (dt : Option Nat) :
    (o.shape = [] → a.shape ≠ [] → ∃ r, getOutput a (some o) dt = .reject r) ∧
    (0 ∈ o.shape → 0 ∉ a.shape → ∃ r, getOutput a (some o) dt = .reject r) ∧
    (o.ccontig = false → ∃ r, getOutput a (some o) dt = .reject r) ∧
    (0 ∈ a.shape → Acceptable a o dt → 0 ∈ o.shape ∧ getOutput a (some o) dt = .useOut) := by
  refine ⟨fun h1 h2 => ?_, fun h1 h2 => ?_, fun h => ?_, fun h1 h2 => ?_⟩
  · exact getOutput_reject_of_not a o dt (fun ⟨_, hs, _⟩ => h2 (hs ▸ h1))
  · exact getOutput_reject_of_not a o dt (fun ⟨_, hs, _⟩ => h2 (hs ▸ h1))
  · exact getOutput_reject_of_not a o dt (fun ⟨_, _, hc⟩ => by rw [h] at hc; exact absurd hc (by simp))
  · exact ⟨h2.2.1 ▸ h1, (getOutput_useOut_iff a o dt).2 h2⟩

example :
    let f : Desc := { dtype := C09.dtU8, shape := [3, 4], ccontig := true }
    C09.HitmissAcceptable f { f with dtype := C09.dtBool } ∧ ¬ C09.HitmissAcceptable f { f with ccontig := false } ∧
    (hitmissP true 0 1 (some 2) (initSt [f, f] (some { f with dtype := C09.dtBool }))).ret = some 2 ∧
    (∃ r, getOutput f (some { f with shape := [] }) none = .reject r) ∧
    getOutput { f with shape := [0, 4] } (some { f with shape := [0, 4] }) none = .useOut := by
  intro f
  refine ⟨by decide, by decide, by decide, ⟨.shape, by decide⟩, by decide⟩
