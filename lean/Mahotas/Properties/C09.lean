/-
C09 — property theorems: the out= convention (decision logic of `_get_output`, `hitmiss`'s own
validation, and the buffer-flow programs of the multi-pass wrappers). Helper lemmas: `Proofs/C09.lean`.
-/
import Mahotas.Proofs.C09
import Mahotas.Generated.OutConv
set_option linter.unusedSimpArgs false
open Mahotas Mahotas.C09

/-- **C09-T1 (acceptance).** `_get_output` returns the supplied buffer exactly when it has the expected
dtype (the `dtype` argument, by default the array's), the array's shape, and is C-contiguous. -/
theorem C09_getOutput_accepts_iff (a o : Desc) (dt : Option Nat) :
    getOutput a (some o) dt = .useOut ↔
      o.dtype = expectedDtype a dt ∧ o.shape = a.shape ∧ o.ccontig = true :=
  getOutput_useOut_iff a o dt

/-- **C09-T1 (rejection).** Any other supplied buffer is rejected (`ValueError`), for the first failing
test in source order (dtype, shape, contiguity); a supplied buffer is never silently replaced by a
fresh array. -/
theorem C09_getOutput_rejects_otherwise (a o : Desc) (dt : Option Nat)
    (h : ¬ (o.dtype = expectedDtype a dt ∧ o.shape = a.shape ∧ o.ccontig = true)) :
    (∃ r, getOutput a (some o) dt = .reject r) ∧
    getOutput a (some o) dt =
      (if o.dtype ≠ expectedDtype a dt then .reject .dtype
       else if o.shape ≠ a.shape then .reject .shape
       else .reject .contig) := by
  refine ⟨getOutput_reject_of_not a o dt h, ?_⟩
  rw [getOutput_reason]
  split_ifs <;> simp_all

/-- **C09-T3 (default).** Without `out` the result buffer has the documented dtype (the `dtype`
argument, by default the input's), the input's shape, and is C-contiguous. -/
theorem C09_getOutput_default (a : Desc) (dt : Option Nat) :
    getOutput a none dt = .fresh { dtype := expectedDtype a dt, shape := a.shape, ccontig := true } := by
  unfold getOutput expectedDtype; cases dt <;> rfl

/-- **C09-T1 on buffers.** On acceptance the buffer `_get_output` hands to the kernel **is** `out`
(same identity) and the heap is untouched; on rejection it raises with the heap untouched (nothing
was written before the raise). -/
theorem C09_getOut_out_itself_or_untouched (s : St) (a o : Nat) (dt : Option Nat) :
    (Acceptable (s.desc a) (s.desc o) dt → getOut a (some o) dt s = .ok o s) ∧
    (¬ Acceptable (s.desc a) (s.desc o) dt → ∃ r, getOut a (some o) dt s = .raise r s) := by
  constructor
  · intro h
    have := (getOutput_useOut_iff _ _ dt).2 h
    simp [getOut, this]
  · intro h
    obtain ⟨r, hr⟩ := getOutput_reject_of_not _ _ dt h
    exact ⟨r, by simp [getOut, hr]⟩

/-- **C09-T2 (single-pass wrappers).** `output = _get_output(A, out, dtype); return kernel(A, Bc, output)`
(erode, dilate, locmax/locmin/regmax/regmin, majority_filter, convolve, median/mean/rank filter,
template_match, label, border(s), spline filters, shift — for every kernel `op` and dtype argument). -/
theorem C09_flow_single_pass (op : Op) (A bc : Desc) (dt : Option Nat) :
    Honours [A, bc] A dt (fun out => kernel1 op 0 1 out dt) (.ap op (.inp 0) (.inp 1)) := by
  cases dt with
  | none => honours_tac A, none
  | some d => honours_tac A, (some d)

/-- **C09-T2 (`open`).** `eroded = erode(f, Bc, out=out); return dilate(eroded.copy(), Bc, out=eroded)`:
the user's buffer receives the *final* dilation of the erosion, not the intermediate erosion. -/
theorem C09_flow_open (f bc : Desc) :
    Honours [f, bc] f none (openP 0 1) (.ap .dilate (.ap .erode (.inp 0) (.inp 1)) (.inp 1)) := by
  honours_tac f, none

/-- **C09-T2 (`close`).** -/
theorem C09_flow_close (f bc : Desc) :
    Honours [f, bc] f none (closeP 0 1) (.ap .erode (.ap .dilate (.inp 0) (.inp 1)) (.inp 1)) := by
  honours_tac f, none

/-- **C09-T2 (`cerode`).** `f = maximum(f, g); out = _get_output(f, out); erode(f, Bc, out); maximum(out, g, out=out)`:
the temporary `maximum(f, g)` is allocated *before* the validation, but nothing is written to `out`
or to the inputs before a rejection. -/
theorem C09_flow_cerode (f g bc : Desc) :
    Honours [f, g, bc] f none (cerodeP 0 1 2)
      (.ap .maximum (.ap .erode (.ap .maximum (.inp 0) (.inp 1)) (.inp 2)) (.inp 1)) := by
  honours_tac f, none

/-- **C09-T2 (`subm`).** `out = _get_output(a, out); if out is not a: out[:] = a; return _morph.subm(out, b)`. -/
theorem C09_flow_subm (a b : Desc) :
    Honours [a, b] a none (submP 0 1) (.ap .subm (.inp 0) (.inp 1)) := by
  honours_tac a, none

/-- **C09 (`subm`, documented aliasing).** "Pass `a` as output to subtract in-place": with `out = a`
(buffer 0, acceptable because it is C-contiguous) the result lands in `a` and is `subm(a, b)`. -/
theorem C09_flow_subm_inplace (a b : Desc) (hc : a.ccontig = true) :
    (submP 0 1 (some 0) (initSt [a, b] none)).ret = some 0 ∧
    (submP 0 1 (some 0) (initSt [a, b] none)).st.val 0 = .ap .subm (.inp 0) (.inp 1) ∧
    (submP 0 1 (some 0) (initSt [a, b] none)).st.val 1 = .inp 1 := by
  flow_eval getOutput, hc

/-- **C09-T2 (`tophat_close`).** `out = _get_output(f, out); fc = close(f, Bc); return subm(fc, f, out=out)`. -/
theorem C09_flow_tophat_close (f bc : Desc) :
    Honours [f, bc] f none (tophatCloseP 0 1)
      (.ap .subm (.ap .erode (.ap .dilate (.inp 0) (.inp 1)) (.inp 1)) (.inp 0)) := by
  honours_tac f, none

/-- **C09-T2 (`tophat_open`).** `out = _get_output(f, out); fo = open(f, Bc); return subm(f, fo, out=out)`. -/
theorem C09_flow_tophat_open (f bc : Desc) :
    Honours [f, bc] f none (tophatOpenP 0 1)
      (.ap .subm (.inp 0) (.ap .dilate (.ap .erode (.inp 0) (.inp 1)) (.inp 1))) := by
  honours_tac f, none

/-- **C09 (Gaussian ping-pong, pinned tree: the convention is violated).** With a perfectly
acceptable `out`, two axes: the returned buffer is *not* `out`, and `out` is left holding a copy of
the input (known finding `gaussian_filter:out-ignored`, defect #14, repair owned by C06). -/
theorem C09_gaussian_pinned_violates (a bc o : Desc) (h : Acceptable a o none) :
    (gaussPinnedP 0 1 (some 2) 2 (initSt [a, bc] (some o))).ret ≠ some 2 ∧
    (gaussPinnedP 0 1 (some 2) 2 (initSt [a, bc] (some o))).st.val 2 = .inp 0 := by
  obtain ⟨h1, h2, h3⟩ := h
  simp only [expectedDtype] at h1
  flow_eval getOutput, h1, h2, h3

/-- **C09-T2 (Gaussian ping-pong honouring the convention), any number of axes.** Passes alternate
between the user's buffer and one scratch buffer (allocated by the first pass) and the last pass is
copied back when it landed in the scratch buffer: for every rank `n`, with an acceptable `out` the
returned buffer is `out` itself and holds the `n`-fold filtered input, exactly what the call without
`out` returns; an unacceptable `out` raises before anything is written. (This is the flow a repair of
defect #14 has to realise; the pinned flow is `C09_gaussian_pinned_violates`.) -/
theorem C09_flow_gaussian_pingpong (a bc : Desc) (n : Nat) :
    Honours [a, bc] a none (fun out => gaussRepairedP 0 1 out n) (gaussIter (.inp 1) n (.inp 0)) :=
  flow_gaussian_all a bc n

/-- **C09 (`hitmiss`, hand-written validation, as repaired).** The supplied buffer is used (itself, or
its uint8 view when a bool buffer is given for a uint8 input) exactly when it has the input's shape,
is C-contiguous and has the input's dtype (or is that bool/uint8 pair); otherwise `ValueError`
(shape, contiguity) or `TypeError` (dtype) — never a silent fresh array. -/
theorem C09_hitmiss_validation (inp o : Desc) :
    ((hitmissOut inp (some o) = .useOut ∨ hitmissOut inp (some o) = .useView) ↔
      (o.shape = inp.shape ∧ o.ccontig = true ∧
        (o.dtype = inp.dtype ∨ (o.dtype = dtBool ∧ inp.dtype = dtU8)))) ∧
    (hitmissOut inp (some o) ≠ .fresh) ∧
    (o.ccontig = false → hitmissOut inp (some o) = .valueError) := by
  simp only [hitmissOut]
  refine ⟨?_, ?_, ?_⟩
  · split_ifs <;> simp_all
  · split_ifs <;> simp
  · intro h; split_ifs <;> simp_all

/-! ### tie to the current source (regenerated by the translator on every run) -/

/-- the model's three tests are the tests of the current `internal._get_output`, in source order,
each raising `ValueError`; without `out` it allocates `np.empty(array.shape, dtype)`. -/
theorem C09_getOutput_source_tie :
    Generated.getOutputChecksSrc =
      [("out.dtype != dtype", "ValueError"), ("out.shape != array.shape", "ValueError"),
       ("not out.flags.contiguous", "ValueError")] ∧
    Generated.getOutputChecksSrc.length = getOutputChecks.length ∧
    Generated.getOutputDefault = "np.empty(array.shape, dtype)" := by
  decide

/-- how each wrapper that satisfies the convention consumes `out` in the current source: the array and
dtype arguments of its `_get_output` call and the calls `out` is forwarded to (the wrappers with open
known findings — gaussian filters, convolve1d, zoom — and `remove_bordering`, which documents no
requirement, are not pinned here so that their repair does not break the tie). -/
def C09.expectedSites : List (String × List String × List String) := [
  ("morph.dilate", ["get_output(A,out,None,output)"], []),
  ("morph.erode", ["get_output(A,out,None,output)"], []),
  ("morph.cerode", ["get_output(f,out,None,output)", "forward:maximum(out=f)"], []),
  ("morph.hitmiss", [], ["out.shape != input.shape->ValueError", "not out.flags.c_contiguous->ValueError"]),
  ("morph.open", ["forward:erode(out=out)", "forward:dilate(out=eroded)"], []),
  ("morph.close", ["forward:dilate(out=out)", "forward:erode(out=dilated)"], []),
  ("morph.majority_filter", ["get_output(img,out,np.bool_,output)"], []),
  ("morph.locmax", ["get_output(f,out,np.bool_,output)"], []),
  ("morph.locmin", ["get_output(f,out,np.bool_,output)"], []),
  ("morph.regmin", ["get_output(f,out,np.bool_,output)"], []),
  ("morph.regmax", ["get_output(f,out,np.bool_,output)"], []),
  ("morph.subm", ["get_output(a,out,None)"], []),
  ("morph.tophat_close", ["get_output(f,out,None)", "forward:subm(out=out)"], []),
  ("morph.tophat_open", ["get_output(f,out,None)", "forward:subm(out=out)"], []),
  ("convolve.convolve", ["get_output(f,out,None,output)"], []),
  ("convolve.median_filter", ["get_output(f,out,None,output)"], []),
  ("convolve.mean_filter", ["get_output(f,out,np.float64)"], []),
  ("convolve.rank_filter", ["get_output(f,out,None,output)"], []),
  ("convolve.template_match", ["get_output(f,out,None,output)"], []),
  ("labeled.label", ["get_output(array,out,np.int32,output)"], []),
  ("labeled.border", ["get_output(labeled,out,bool,output)"], []),
  ("labeled.borders", ["get_output(labeled,out,bool,output)"], []),
  ("interpolate.spline_filter1d", ["get_output(array,out,dtype,output)"], []),
  ("interpolate.spline_filter", ["get_output(array,out,dtype,output)"], []),
  ("interpolate.shift", ["get_output(array,out,np.float64,output)"], [])]

/-- the current source still contains, for this wrapper, every `_get_output` call / forwarding / own
raise-test the model relies on (additional ones — e.g. a repaired `output=` alias — are allowed) -/
def C09.siteOk (e : String × List String × List String) : Bool :=
  Generated.outSites.any fun s =>
    s.1 == e.1 && e.2.1.all (fun x => s.2.2.1.contains x) && e.2.2.all (fun x => s.2.2.2.contains x)

/-- every wrapper listed in `C09.expectedSites` still validates/forwards `out` in the current source
as the buffer-flow models assume: the `_get_output` call with its array and dtype arguments, the
forwarding of `out`, hitmiss's own tests are all still there (a weakened or removed guard changes
`Generated.outSites` and breaks this theorem; extra validation does not); and the public functions with an out/output parameter are exactly the
known ones (a new one must be modelled). -/
theorem C09_out_sites_source_tie :
    C09.expectedSites.all C09.siteOk = true ∧
    Generated.outSites.map (·.1) =
      ["morph.dilate", "morph.erode", "morph.cerode", "morph.hitmiss", "morph.open", "morph.close",
       "morph.majority_filter", "morph.locmax", "morph.locmin", "morph.regmin", "morph.regmax", "morph.subm",
       "morph.tophat_close", "morph.tophat_open", "convolve.convolve", "convolve.convolve1d",
       "convolve.median_filter", "convolve.mean_filter", "convolve.rank_filter", "convolve.template_match",
       "convolve.gaussian_filter1d", "convolve.gaussian_filter", "labeled.label", "labeled.remove_bordering",
       "labeled.border", "labeled.borders", "interpolate.spline_filter1d", "interpolate.spline_filter",
       "interpolate.zoom", "interpolate.shift"] := by
  decide +kernel


/-! ## Round 2 — the wrappers repaired after the first report -/

/-- **C09-T2 (`convolve1d` as repaired, both paths, every axis).** On the contiguous fast path `out` is validated by
`_get_output` against `f` itself; along the last axis the kernel writes the rows of `out` directly, along any other
axis it writes a temporary and `out[...] = tmp…transpose(rindices)` copies it back; off the fast path `out` is
forwarded to `convolve`. In all four cases the convention holds: no `out` → a fresh buffer with the result; an
acceptable `out` → **that buffer** is returned and holds the result; any other `out` → the `ValueError` of
`_get_output`, raised before anything is written. -/
theorem C09_flow_convolve1d (f w : Desc) (fast lastAxis : Bool) :
    Honours [f, w] f none (fun out => convolve1dP 0 1 out fast lastAxis) (.ap .kernel (.inp 0) (.inp 1)) := by
  cases fast <;> cases lastAxis <;>
  (refine ⟨?_, fun o => ⟨fun h => ?_, fun h => ?_⟩⟩
   · flow_eval getOutput, convolve1dP
   · obtain ⟨h1, h2, h3⟩ := h
     simp only [expectedDtype] at h1
     flow_eval getOutput, convolve1dP, h1, h2, h3
   · obtain ⟨r, hr⟩ := getOutput_reject_of_not f o none h
     flow_eval hr, convolve1dP)

/-- **C09-T2 (`gaussian_filter1d` / `gaussian_filter` as repaired, bc1f729).** One pass forwards `out` to
`convolve1d`; the n-D filter validates `out` once, copies the input into it, lets the passes alternate between it and
one scratch buffer and, when the last pass landed in the scratch buffer, copies the result back
(`if output is not result: result[...] = output`) and returns the user's buffer — for every number of axes.
(`gaussRepairedP` is now the flow of the source; the pinned flow of `C09_gaussian_pinned_violates` is history.) -/
theorem C09_flow_gaussian_repaired (a bc : Desc) (n : Nat) :
    Honours [a, bc] a none (gauss1dP 0 1) (.ap .gauss1d (.inp 0) (.inp 1)) ∧
    Honours [a, bc] a none (fun out => gaussRepairedP 0 1 out n) (gaussIter (.inp 1) n (.inp 0)) := by
  refine ⟨?_, flow_gaussian_all a bc n⟩
  honours_tac a, none

/-- **C09-T2 (`open` / `close` with the deprecated `output=` alias, as repaired 399d97f).** The alias is forwarded
to the first pass, where `_get_output` resolves it (`out` wins when both are given): a buffer passed as `output=`
is honoured exactly like one passed as `out=`. -/
theorem C09_flow_output_alias (f bc : Desc) :
    Honours [f, bc] f none (fun o => openAliasP 0 1 none o)
      (.ap .dilate (.ap .erode (.inp 0) (.inp 1)) (.inp 1)) ∧
    Honours [f, bc] f none (fun o => closeAliasP 0 1 none o)
      (.ap .erode (.ap .dilate (.inp 0) (.inp 1)) (.inp 1)) ∧
    (∀ out output, out ≠ none → resolveAlias out output = out) := by
  refine ⟨?_, ?_, ?_⟩
  · have := C09_flow_open f bc
    simpa [openAliasP, resolveAlias] using this
  · have := C09_flow_close f bc
    simpa [closeAliasP, resolveAlias] using this
  · intro out output h
    cases out with
    | none => exact absurd rfl h
    | some o => rfl

/-- **C09 (`zoom` as repaired, 1873bd9).** `out` fixes the shape and the dtype of the result, so the only
requirements are: an array of the input's rank, C-contiguous, writeable. Exactly then the call returns **`out`
itself** holding the zoomed image (directly, or through a float temporary when the dtypes differ), the input intact;
any other `out` raises (`ValueError`, from Python, before the native code runs) with `out` and the input untouched;
without `out` a fresh buffer of the computed shape is returned. -/
theorem C09_flow_zoom (a : Desc) (o : ZOut) (oshape : List Nat) :
    let ok := o.isArray = true ∧ o.desc.shape.length = a.shape.length ∧ o.desc.ccontig = true ∧ o.writeable = true
    let run := zoomP 0 (some 1) (some o) oshape (initSt [a] (some o.desc))
    (ok → run.ret = some 1 ∧ run.st.val 1 = .ap .kernel (.inp 0) (.inp 0) ∧ run.st.val 0 = .inp 0) ∧
    (¬ ok → zoomDecision a (some o) = .valueError ∧ run.ret = none ∧ run.st.val 1 = .old ∧ run.st.val 0 = .inp 0) ∧
    ((zoomP 0 none none oshape (initSt [a] none)).retVal = some (.ap .kernel (.inp 0) (.inp 0)) ∧
     (zoomP 0 none none oshape (initSt [a] none)).ret = some 1 ∧
     (zoomP 0 none none oshape (initSt [a] none)).st.val 0 = .inp 0) := by
  obtain ⟨od, ia, wr⟩ := o
  obtain ⟨odt, osh, oc⟩ := od
  intro ok run
  refine ⟨?_, ?_, ?_⟩
  · rintro ⟨h1, h2, h3, h4⟩
    simp only at h1 h2 h3 h4
    subst h1 h3 h4
    by_cases hd : odt = a.dtype
    · simp [run, zoomP, zoomDecision, initSt, St.desc, St.val, R.bind, alloc, write, List.zipIdx, R.ret, R.st, h2, hd]
    · simp [run, zoomP, zoomDecision, initSt, St.desc, St.val, R.bind, alloc, write, List.zipIdx, R.ret, R.st, h2, hd]
  · intro h
    have hv : zoomDecision a (some ⟨⟨odt, osh, oc⟩, ia, wr⟩) = .valueError := by
      simp only [zoomDecision]
      by_cases c1 : ia = true
      · by_cases c2 : osh.length = a.shape.length
        · by_cases c3 : oc = true
          · by_cases c4 : wr = true
            · exact absurd ⟨c1, c2, c3, c4⟩ h
            · simp [c1, c2, c3, c4]
          · simp [c1, c2, c3]
        · simp [c1, c2]
      · simp [c1]
    refine ⟨hv, ?_⟩
    have hd : (initSt [a] (some ⟨odt, osh, oc⟩)).desc 0 = a := by
      simp [initSt, St.desc, List.zipIdx]
    have hrun : run = .raise .contig (initSt [a] (some ⟨odt, osh, oc⟩)) := by
      show zoomP 0 (some 1) _ oshape _ = _
      unfold zoomP
      rw [hd, hv]
    rw [hrun]
    simp [R.ret, R.st, initSt, St.val, List.zipIdx]
  · simp [zoomP, zoomDecision, initSt, St.desc, St.val, R.bind, alloc, write, List.zipIdx, R.ret, R.retVal, R.st]

/-- how the repaired wrappers consume `out` in the current source (regenerated on every run): `convolve1d`
validates with `_get_output(f, out)`, stores the transposed temporary with `out[...] = …`, returns `out`, and forwards
`out` to `convolve` off the fast path; `gaussian_filter1d` forwards `out` to `convolve1d`; `gaussian_filter` validates
with `_get_output`, hands the spare buffer to `gaussian_filter1d` (positionally, in the `out` slot), copies the last
pass back with `result[...] = output` and returns `result`; `open`/`close` forward the `output=` alias; `zoom`
raises `ValueError` for a non-array / wrong-rank / non-contiguous / read-only `out`. -/
def C09.expectedSitesRepaired : List (String × List String × List String) := [
  ("convolve.convolve1d", ["get_output(f,out,None)", "forward:convolve(out=out)",
     "store:out[...]=tmp.reshape(tshape).transpose(rindices)", "return:out"], []),
  ("convolve.gaussian_filter1d", ["forward:convolve1d(out=out)"], []),
  ("convolve.gaussian_filter", ["get_output(array,out,None,output)", "forward:gaussian_filter1d(out=noutput)",
     "store:result[...]=output", "return:result"], []),
  ("morph.open", ["forward:erode(out=out)", "forward:erode(output=output)", "forward:dilate(out=eroded)"], []),
  ("morph.close", ["forward:dilate(out=out)", "forward:dilate(output=output)", "forward:erode(out=dilated)"], []),
  ("interpolate.zoom", ["return:out"],
     ["not isinstance(out, np.ndarray) or out.ndim != array.ndim->ValueError",
      "not (out.flags.c_contiguous and out.flags.writeable)->ValueError"])]

/-- **tie of the Round-2 flows to the current source**: every validation, forwarding, copy-back and `return` the
models `convolve1dP`, `gauss1dP`, `gaussRepairedP`, `openAliasP`, `closeAliasP`, `zoomP` rely on is still in the
source the translator read today; removing one (e.g. the `result[...] = output` copy-back, the `output=output`
forwarding, zoom's contiguity test) changes `Generated.outSites` and breaks `lake build`. -/
theorem C09_repaired_sites_source_tie : C09.expectedSitesRepaired.all C09.siteOk = true := by
  decide +kernel

/-! non-vacuity: a concrete acceptable and three concrete unacceptable buffers for a (3,4) uint8 image,
    and the full run of `open` on them. -/
example :
    let f : Desc := { dtype := dtU8, shape := [3, 4], ccontig := true }
    let good : Desc := { dtype := dtU8, shape := [3, 4], ccontig := true }
    Acceptable f good none ∧
    ¬ Acceptable f { good with dtype := dtBool } none ∧
    ¬ Acceptable f { good with shape := [4, 3] } none ∧
    ¬ Acceptable f { good with ccontig := false } none ∧
    (openP 0 1 (some 2) (initSt [f, f] (some good))).ret = some 2 ∧
    (openP 0 1 (some 2) (initSt [f, f] (some { good with ccontig := false }))).exc = some .contig := by
  decide
