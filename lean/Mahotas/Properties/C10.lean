/-
C10 — property theorems: bounds lemmas on the index-arithmetic models of `Model/C10.lean`
(helper lemmas live in `Proofs/C10*.lean`).
-/
import Mahotas.Proofs.C10
open Mahotas Mahotas.C10

/-! ## general index arithmetic -/

/-- The C-order flat index of a position inside the box `[0,shape)` is a valid flat index
(`< shapeSize shape`), for every rank and shape. -/
theorem C10_ravel_lt (shape : List Nat) (p : List Int) (h : inside shape p = true) :
    ravelI shape p < shapeSize shape := ravelI_lt shape p h

/-- The C-order position (`flat_to_pos`, the non-contiguous branch of `at_flat`) of a valid flat
index lies inside the box, for every rank and shape. -/
theorem C10_unravel_inside (shape : List Nat) (i : Nat) (h : i < shapeSize shape) :
    inside shape (unravelI shape i) = true := unravelI_inside shape i h

/-! ## B1 — filter iterator -/

/-- **B1, coordinates.** For every border mode, every rank, every array shape with positive axis
lengths, every filter shape (smaller, equal, larger than the array; even or odd), every position `p`
and every filter coordinate `k` — no restriction on either, `fix_offset` maps any integer into range —
the coordinates the offset table encodes (`fix_offset(mode, k_d - fshape_d/2 + p_d, ashape_d)` per
axis) are inside the array whenever the entry is not the border flag. -/
theorem C10_filter_offsets_in_bounds (m : Mode) (ashape fshape : List Nat) (p k q : List Int)
    (hpos : ∀ d ∈ ashape, 0 < d) (hf : fshape.length = ashape.length)
    (hp : p.length = ashape.length) (hk : k.length = ashape.length)
    (h : neighbourIndex m ashape fshape p k = some q) : inside ashape q = true :=
  neighbourIndex_inside m ashape fshape p k q hpos hf hp hk h

/-- **B1, per axis.** What `init_filter_offsets` stores for one axis is `cc - position` where
`cc = fix_offset(..)`; added back to the position it is a valid index of that axis. -/
theorem C10_filter_axis_offset (m : Mode) (a f : Nat) (p k cc : Int) (ha : 0 < a)
    (h : fixOffset m (k - origin f + p) a = some cc) :
    0 ≤ p + (cc - p) ∧ p + (cc - p) < (a : Int) := by
  have := fixOffset_range m _ (a : Int) (by omega) cc h
  omega

/-- **B1, addresses, any strides.** The entry of the offset table (the transliteration of the
accumulation `offset += astrides[ii] * (cc - position[ii])`) is the flag exactly when some axis is
flagged; otherwise, added to the address `Σ stride_d·p_d` of the position the iterator points at, it
is the address `Σ stride_d·q_d` of an element `q` inside the array — for arbitrary integer (element)
strides: C, Fortran, negative, sliced. -/
theorem C10_filter_address_is_element (m : Mode) (ashape fshape : List Nat) (strides p k : List Int)
    (hpos : ∀ d ∈ ashape, 0 < d) (hs : strides.length = ashape.length)
    (hf : fshape.length = ashape.length) (hp : p.length = ashape.length)
    (hk : k.length = ashape.length) :
    (tableOffset m ashape strides fshape p k = none ↔ neighbourIndex m ashape fshape p k = none) ∧
    ∀ off, tableOffset m ashape strides fshape p k = some off →
      ∃ q, inside ashape q = true ∧ dot strides p + off = dot strides q := by
  rw [tableOffset_eq m ashape strides fshape p k hs hf hp hk]
  refine ⟨by simp, ?_⟩
  intro off h
  cases hq : neighbourIndex m ashape fshape p k with
  | none => simp [hq] at h
  | some q =>
    simp only [hq, Option.map_some, Option.some.injEq] at h
    exact ⟨q, neighbourIndex_inside m ashape fshape p k q hpos hf hp hk hq, by omega⟩

/-- **B1, C-contiguous case.** The C-order flat index of the element read is in `[0, size)`. -/
theorem C10_filter_flat_index_in_range (m : Mode) (ashape fshape : List Nat) (p k q : List Int)
    (hpos : ∀ d ∈ ashape, 0 < d) (hf : fshape.length = ashape.length)
    (hp : p.length = ashape.length) (hk : k.length = ashape.length)
    (h : neighbourIndex m ashape fshape p k = some q) :
    0 ≤ ravelZ ashape q ∧ ravelZ ashape q < (shapeSize ashape : Int) :=
  ravelZ_range ashape q (neighbourIndex_inside m ashape fshape p k q hpos hf hp hk h)

/-- **B1, the table the driver prints.** For every mode and all shapes of equal rank with positive
array axes, the checker `filterOk` answers `true` and every entry of `filterIdx` (the `idx=` list of
`c10 kind=filter`) is the flag `-1` or a flat index in `[0, size)`. -/
theorem C10_filter_table_ok (m : Mode) (shape fshape : List Nat) (hpos : ∀ d ∈ shape, 0 < d)
    (hf : fshape.length = shape.length) :
    filterOk m shape fshape = true ∧
    ∀ i ∈ filterIdx m shape fshape, i = -1 ∨ (0 ≤ i ∧ i < (shapeSize shape : Int)) := by
  constructor
  · simp only [filterOk, List.all_eq_true]
    intro r hr
    cases r with
    | none => rfl
    | some q => exact filterReads_inside m shape fshape hpos hf q hr
  · intro i hi
    simp only [filterIdx, List.mem_map] at hi
    obtain ⟨r, hr, rfl⟩ := hi
    cases r with
    | none => left; rfl
    | some q => right; exact ravelZ_range shape q (filterReads_inside m shape fshape hpos hf q hr)

/-! non-vacuity (B1): a 1-D array of 3 elements, a filter of 5 (larger than the array), `reflect`:
    15 reads, none flagged, all in range; with `constant` the out-of-array ones are the flag. -/
example : filterIdx .reflect [3] [5] = [1, 0, 0, 1, 2, 0, 0, 1, 2, 2, 0, 1, 2, 2, 1] := by decide
example : filterIdx .constant [2, 2] [1, 3] =
    [-1, 0, 1, 0, 1, -1, -1, 2, 3, 2, 3, -1] := by decide
example : tableOffset .nearest [2, 3] [1, 2] [3, 3] [0, 2] [2, 2] = some 1 := by decide
