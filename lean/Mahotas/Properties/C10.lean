/-
C10 — property theorems: bounds lemmas on the index-arithmetic models of `Model/C10.lean`
(helper lemmas live in `Proofs/C10*.lean`).
-/
import Mahotas.Proofs.C10MiscLbp
import Mahotas.Proofs.C10MiscDist
import Mahotas.Proofs.C10MiscTerm
import Mahotas.Proofs.C10Odometer
import Mahotas.Proofs.C10Interp
import Mahotas.Proofs.C10IWavelet
import Mahotas.Proofs.C10Graham
import Mahotas.Proofs.C10Thin
import Mahotas.Proofs.C10Cw
import Mahotas.Proofs.C10Line
import Mahotas.Proofs.C10Surf
import Mahotas.Proofs.Modes
import Mahotas.Proofs.C10Labeled
import Mahotas.Proofs.C10Slic
import Mahotas.Proofs.C10Flood
import Mahotas.Proofs.C10Feat
import Mahotas.Proofs.C10Conv
import Mahotas.Proofs.C10Alloc
open Mahotas Mahotas.C10

/-! ## general index arithmetic -/

/-- The C-order flat index of a position inside the box `[0,shape)` is a valid flat index
(`< shapeSize shape`), for every rank and shape. -/
theorem C10_ravel_lt (shape : List Nat) (p : List Int) (h : inside shape p = true) :
    ravelI shape p < shapeSize shape := ravelI_lt shape p h

/-- The C-order position (`flat_to_pos`, the non-contiguous branch of `at_flat`) of a valid flat
index lies inside the box, for every rank and shape. -/
theorem C10_unravel_inside (shape : List Nat) (i : Nat) (h : i < shapeSize shape) :
    inside shape (unravelI shape i) = true := unravelI_inside shape i h

/-! ## B1 — filter iterator -/

/-- **B1, coordinates.** For every border mode, every rank, every array shape with positive axis
lengths, every filter shape (smaller, equal, larger than the array; even or odd), every position `p`
and every filter coordinate `k` — no restriction on either, `fix_offset` maps any integer into range —
the coordinates the offset table encodes (`fix_offset(mode, k_d - fshape_d/2 + p_d, ashape_d)` per
axis) are inside the array whenever the entry is not the border flag. -/
theorem C10_filter_offsets_in_bounds (m : Mode) (ashape fshape : List Nat) (p k q : List Int)
    (hpos : ∀ d ∈ ashape, 0 < d) (hf : fshape.length = ashape.length)
    (hp : p.length = ashape.length) (hk : k.length = ashape.length)
    (h : neighbourIndex m ashape fshape p k = some q) : inside ashape q = true :=
  neighbourIndex_inside m ashape fshape p k q hpos hf hp hk h

/-- **B1, per axis.** What `init_filter_offsets` stores for one axis is `cc - position` where
`cc = fix_offset(..)`; added back to the position it is a valid index of that axis. -/
theorem C10_filter_axis_offset (m : Mode) (a f : Nat) (p k cc : Int) (ha : 0 < a)
    (h : fixOffset m (k - origin f + p) a = some cc) :
    0 ≤ p + (cc - p) ∧ p + (cc - p) < (a : Int) := by
  have := fixOffset_range m _ (a : Int) (by omega) cc h
  omega

/-- **B1, addresses, any strides.** The entry of the offset table (the transliteration of the
accumulation `offset += astrides[ii] * (cc - position[ii])`) is the flag exactly when some axis is
flagged; otherwise, added to the address `Σ stride_d·p_d` of the position the iterator points at, it
is the address `Σ stride_d·q_d` of an element `q` inside the array — for arbitrary integer (element)
strides: C, Fortran, negative, sliced. -/
theorem C10_filter_address_is_element (m : Mode) (ashape fshape : List Nat) (strides p k : List Int)
    (hpos : ∀ d ∈ ashape, 0 < d) (hs : strides.length = ashape.length)
    (hf : fshape.length = ashape.length) (hp : p.length = ashape.length)
    (hk : k.length = ashape.length) :
    (tableOffset m ashape strides fshape p k = none ↔ neighbourIndex m ashape fshape p k = none) ∧
    ∀ off, tableOffset m ashape strides fshape p k = some off →
      ∃ q, inside ashape q = true ∧ dot strides p + off = dot strides q := by
  rw [tableOffset_eq m ashape strides fshape p k hs hf hp hk]
  refine ⟨by simp, ?_⟩
  intro off h
  cases hq : neighbourIndex m ashape fshape p k with
  | none => simp [hq] at h
  | some q =>
    simp only [hq, Option.map_some, Option.some.injEq] at h
    exact ⟨q, neighbourIndex_inside m ashape fshape p k q hpos hf hp hk hq, by omega⟩

/-- **B1, C-contiguous case.** The C-order flat index of the element read is in `[0, size)`. -/
theorem C10_filter_flat_index_in_range (m : Mode) (ashape fshape : List Nat) (p k q : List Int)
    (hpos : ∀ d ∈ ashape, 0 < d) (hf : fshape.length = ashape.length)
    (hp : p.length = ashape.length) (hk : k.length = ashape.length)
    (h : neighbourIndex m ashape fshape p k = some q) :
    0 ≤ ravelZ ashape q ∧ ravelZ ashape q < (shapeSize ashape : Int) :=
  ravelZ_range ashape q (neighbourIndex_inside m ashape fshape p k q hpos hf hp hk h)

/-- **B1, the table the driver prints.** For every mode and all shapes of equal rank with positive
array axes, the checker `filterOk` answers `true` and every entry of `filterIdx` (the `idx=` list of
`c10 kind=filter`) is the flag `-1` or a flat index in `[0, size)`. -/
theorem C10_filter_table_ok (m : Mode) (shape fshape : List Nat) (hpos : ∀ d ∈ shape, 0 < d)
    (hf : fshape.length = shape.length) :
    filterOk m shape fshape = true ∧
    ∀ i ∈ filterIdx m shape fshape, i = -1 ∨ (0 ≤ i ∧ i < (shapeSize shape : Int)) := by
  constructor
  · simp only [filterOk, List.all_eq_true]
    intro r hr
    cases r with
    | none => rfl
    | some q => exact filterReads_inside m shape fshape hpos hf q hr
  · intro i hi
    simp only [filterIdx, List.mem_map] at hi
    obtain ⟨r, hr, rfl⟩ := hi
    cases r with
    | none => left; rfl
    | some q => right; exact ravelZ_range shape q (filterReads_inside m shape fshape hpos hf q hr)

/-- **B1, one axis of the region table.** Along an axis of length `a` under a filter of length `f`
(any relation between them), following `iterate_both` from coordinate 0 to coordinate `p` selects the
region whose representative `position[]` (as produced by the "move to the next array region" code of
`init_filter_offsets`) is `p` itself, except on the interior `[f/2, a - f + f/2]`, which shares the
single region computed at `f/2`. -/
theorem C10_filter_region_axis (a f p : Nat) :
    regionPos a f (regionIndex a f p) =
      if origin f ≤ (p : Int) ∧ (p : Int) ≤ (a : Int) - f + origin f then origin f else (p : Int) :=
  regionRep_eq a f p

/-- **B1, stored offsets are valid where they are used.** The table entry a filter iterator uses at
array position `p` was computed at the representative `repPos p` of `p`'s border region, and
`retrieve`/`set` add it to the pointer at `p` itself. For every mode, rank, shapes, integer strides,
position `p` inside the array and filter coordinate `k` inside the filter: that entry equals the
entry computed at `p`; hence pointer-at-`p` plus the stored offset is the address of an element
inside the array (or the entry is the flag). (That the odometer of `init_filter_offsets` enumerates
the regions in the order `iterate_both` walks them is validated by the harness, not proved.) -/
theorem C10_filter_region_offset_valid (m : Mode) (ashape fshape : List Nat) (strides p k : List Int)
    (hs : strides.length = ashape.length) (hf : fshape.length = ashape.length)
    (hp : inside ashape p = true) (hk : inside fshape k = true) :
    tableOffset m ashape strides fshape (repPos ashape fshape p) k =
      tableOffset m ashape strides fshape p k ∧
    ∀ off, tableOffset m ashape strides fshape (repPos ashape fshape p) k = some off →
      ∃ q, inside ashape q = true ∧ dot strides p + off = dot strides q := by
  have h := tableOffset_rep m ashape strides fshape p k hp hk
  refine ⟨h, ?_⟩
  rw [h]
  exact (C10_filter_address_is_element m ashape fshape strides p k (inside_pos_of_dims ashape p hp)
    hs hf (inside_length ashape p hp) (by rw [inside_length fshape k hk, hf])).2

/-- **B1, the offsets table itself is read in range.** `retrieve` reads `cur_offsets_idx_[j]`,
`j < footprint_size`, where `cur_offsets_idx_` sits at row `Σ_d regionIndex_d(p_d)·strides[d]` of a
table of `offsets_size = Π_d min(ashape_d, fshape_d)` rows. For every rank, shapes (filter axes ≥ 1,
any relation to the array) and position `p` inside the array: per axis the region index is
`< min(a,f)`, the last coordinate `a-1` uses exactly the last region `min(a,f)-1` (so the carry
`-= backstrides[d] = (step-1)·strides[d]` of `iterate_both` returns to region 0 and never leaves the
table), the row is `< offsets_size`, and `row·size + j` is inside the vector of `offsets_size·size`
entries. -/
theorem C10_filter_table_row_in_bounds (ashape fshape : List Nat) (p : List Int)
    (hf : ∀ f ∈ fshape, 0 < f) (hlen : fshape.length = ashape.length)
    (hp : inside ashape p = true) (fsize j : Nat) (hj : j < fsize) :
    tableRow ashape fshape p < shapeSize (minShape ashape fshape) ∧
    tableRow ashape fshape p * fsize + j < shapeSize (minShape ashape fshape) * fsize ∧
    ∀ a f : Nat, 0 < f → 0 < a →
      (∀ q, q < a → regionIndex a f q < min a f) ∧ regionIndex a f (a - 1) = min a f - 1 := by
  have h := ravelI_lt _ _ (regionIdxPos_inside ashape fshape p hf hlen hp)
  refine ⟨h, ?_, fun a f hf' ha => ⟨fun q hq => regionIndex_lt a f q hf' hq, regionIndex_last a f hf' ha⟩⟩
  have h2 := Nat.mul_le_mul_right fsize (Nat.succ_le_of_lt h)
  rw [Nat.succ_mul] at h2
  unfold tableRow
  omega

/-- **B1, `iterate_both` keeps the row pointer in step with the array iterator.** Starting at the first
element with the pointer at row 0 and applying `iterate_both` `n` times (its transliterated pointer
arithmetic: `+= strides[d]` when the coordinate leaves/enters a border region, `-= backstrides[d]` on
a carry) while the array iterator advances in C scan order: the array position is inside the array,
and the pointer is at row `tableRow p` — the row of the per-axis region indices of `p` — which is
inside the table (`< offsets_size`). For every rank, every array shape (axes ≥ 1) and every filter
shape (axes ≥ 1; smaller, equal, larger). -/
theorem C10_filter_iterate_both_row (ashape fshape : List Nat) (hpos : ∀ d ∈ ashape, 0 < d)
    (hf : ∀ f ∈ fshape, 0 < f) (hlen : fshape.length = ashape.length) (n : Nat) (p : List Int)
    (row : Int) (h : scanState ashape fshape n = some (p, row)) :
    inside ashape p = true ∧ row = (tableRow ashape fshape p : Int) ∧
    0 ≤ row ∧ row < (shapeSize (minShape ashape fshape) : Int) := by
  obtain ⟨h1, h2⟩ := scanState_spec ashape fshape hpos hf hlen n p row h
  have h3 := ravelI_lt _ _ (regionIdxPos_inside ashape fshape p hf hlen h1)
  refine ⟨h1, h2, by omega, ?_⟩
  rw [h2]; unfold tableRow; omega

/-- **B1, the row in use at `p` was filled at `repPos p` (F6, model level).** Transliterating the
position odometer of `init_filter_offsets` ("move to the next array region", all axes, with the wrap
to 0 when `position[ii] >= ashape[ii]`): while row number `tableRow p` of the table is filled,
`position[]` equals `repPos p`. Together with `C10_filter_iterate_both_row` (the pointer is at row
`tableRow p` when the array iterator is at `p`) and `C10_filter_region_offset_valid` (offsets computed
at `repPos p` are valid at `p`): every offset a filter iterator retrieves, added to the array
iterator's pointer, addresses an element of the array — for every mode, rank, array shape (axes ≥ 1),
filter shape (axes ≥ 1: smaller, equal, larger, even, odd) and any integer strides. -/
theorem C10_filter_iterator_refines (m : Mode) (ashape fshape : List Nat) (strides : List Int)
    (hf : ∀ f ∈ fshape, 0 < f) (hlen : fshape.length = ashape.length)
    (hs : strides.length = ashape.length) (p k : List Int) (hp : inside ashape p = true)
    (hk : inside fshape k = true) :
    ∃ pos, fillPos ashape fshape (tableRow ashape fshape p) = some pos ∧
      ∀ off, tableOffset m ashape strides fshape pos k = some off →
        ∃ q, inside ashape q = true ∧ dot strides p + off = dot strides q :=
  ⟨repPos ashape fshape p, fillPos_tableRow ashape fshape p hf hlen hp,
    (C10_filter_region_offset_valid m ashape fshape strides p k hs hlen hp hk).2⟩

/-! non-vacuity (B1): a 1-D array of 3 elements, a filter of 5 (larger than the array), `reflect`:
    15 reads, none flagged, all in range; with `constant` the out-of-array ones are the flag. -/
example : filterIdx .reflect [3] [5] = [1, 0, 0, 1, 2, 0, 0, 1, 2, 2, 0, 1, 2, 2, 1] := by decide
example : filterIdx .constant [2, 2] [1, 3] =
    [-1, 0, 1, 0, 1, -1, -1, 2, 3, 2, 3, -1] := by decide
example : tableOffset .nearest [2, 3] [1, 2] [3, 3] [0, 2] [2, 2] = some 1 := by decide
example : (List.range 7).map (fun p => regionPos 7 3 (regionIndex 7 3 p)) = [0, 1, 1, 1, 1, 1, 6] ∧
    repPos [7, 3] [3, 5] [4, 1] = [1, 1] ∧ tableRow [7, 3] [3, 5] [6, 2] = 8 ∧
    shapeSize (minShape [7, 3] [3, 5]) = 9 ∧ scanState [7, 3] [3, 5] 20 = some ([6, 2], 8) ∧
    fillPos [7, 3] [3, 5] 8 = some [6, 2] ∧ fillPos [7, 3] [3, 5] 4 = some [1, 1] := by decide

/-! ## B2 — `fast_binary_dilate_erode_2d` -/

/-- **B2.** For every image size `Ny, Nx ≥ 1`, every row `y ∈ [0,Ny)`, every raw structuring-element
offset `(dy, dx)` (arbitrary integers: the element may be larger than the image) and both operations
(erosion gathers, dilation scatters), after the clamp of `dx` to `[-Nx, Nx]` (lines 181-182) and the two
row clamps (lines 200-203): the row indices `y` and `y+dy` are in `[0,Ny)`, and every column index used
by the border loop (`out[Nx-i-1]`, `in[Nx-1]`, `out[i]`, `in[0]`, … for `i < |dx|`, including the case
`|dx| = Nx` where it runs `Nx` times and the main loop not at all) and by the main loop
(`n = Nx - |dx|` steps from the shifted pointers) is in `[0,Nx)`; both `i != …` loops leave through
their test. -/
theorem C10_fastbinary_in_bounds (ny nx y dy dx : Int) (erosion : Bool)
    (hnx : 0 < nx) (hy0 : 0 ≤ y) (hy1 : y < ny) :
    (∀ a ∈ fbAccesses ny nx y dy (fbClampDx nx dx) erosion, 0 ≤ a.i ∧ a.i < a.size) ∧
    fbDone nx (fbClampDx nx dx) = true := by
  have h := fbClampDx_range nx dx (by omega)
  exact ⟨fbAccesses_ok ny nx y dy _ erosion hnx hy0 hy1 h.1 h.2, fbDone_ok nx _ hnx h.1 h.2⟩

/-! non-vacuity (B2): the hypotheses are met by a 2x3 image and the offset (-5, 9) (clamped to 3:
    the border loop runs 3 times, the main loop 0 times); without the clamp the model leaves the row. -/
example : fbClampDx 3 9 = 3 ∧ (fbAccesses 2 3 0 (-5) (fbClampDx 3 9) true).length = 8 ∧
    allOk (fbAccesses 2 3 0 (-5) (fbClampDx 3 9) true) = true ∧
    allOk (fbAccesses 2 3 0 (-5) 9 true) = false := by decide

/-! ## B3 — `convolve1d` fast path, `find2d`, `majority_filter` -/

/-- **B3, convolve1d.** For every row length `N1 ≥ 1`, every number of weights `Nf ≥ 0` with
`2·(Nf/2) ≤ N1` (this is the weakest condition under which the first loop
`for (x = centre; x != N1 - centre; ++x)` terminates; the kernel's own guard `centre >= N1` does NOT
imply it) and every border mode: every column read `base0[(x+j-centre)*step]`, every column written
through `result.data(y,centre) + (x-centre)`, every column read through `offsets[j]`
(= `fix_offset(mode, x + (j-centre), N1)`, skipped when it is the flag) and every column written by
the second loop is in `[0,N1)`; the first loop leaves through its test. The second loop is in
bounds for every `Nf`, `N1 ≥ 1` (it needs no guard). -/
theorem C10_convolve1d_in_bounds (m : Mode) (n1 nf : Int) (h1 : 0 < n1) (hf : 0 ≤ nf)
    (hg : 2 * (nf / 2) ≤ n1) :
    (∀ a ∈ conv1dAccesses m n1 nf, 0 ≤ a.i ∧ a.i < a.size) ∧ conv1dDone n1 nf = true :=
  ⟨conv1dAccesses_ok m n1 nf h1 hf hg, conv1dDone_ok n1 nf hf hg⟩

/-- **B3, convolve1d under the guard that exists.** `mahotas.convolve1d` (convolve.py:110) takes the
fast path only when `len(weights) < f.shape[axis]`, i.e. `Nf < N1`; this implies the condition of
`C10_convolve1d_in_bounds`. -/
theorem C10_convolve1d_python_guard (m : Mode) (n1 nf : Int) (hf : 0 ≤ nf) (hg : nf < n1) :
    (∀ a ∈ conv1dAccesses m n1 nf, 0 ≤ a.i ∧ a.i < a.size) ∧ conv1dDone n1 nf = true :=
  C10_convolve1d_in_bounds m n1 nf (by omega) hf (by omega)

/-- **B3, the kernel's own guard is not enough** (only reachable by calling `_convolve.convolve1d`
directly): `N1 = 3`, `Nf = 4` passes `if (centre >= N1) break;` (centre = 2) but `N1 - centre = 1 < 2`,
so `x != N1 - centre` never becomes false: the model reads column 3 of a row of 3 and runs out of budget. -/
theorem C10_convolve1d_kernel_guard_insufficient :
    ¬ ((4 : Int) / 2 ≥ 3) ∧ allOk (conv1dAccesses .reflect 3 4) = false ∧ conv1dDone 3 4 = false := by
  decide

/-- **B3, find2d.** For every image `N0 × N1` and every template `Nt0 × Nt1` with at least one element per
axis (larger than the image included: the loops are then empty), with the loop bounds as they are
(`y < N0 - Nt0`) and with inclusive bounds (`y <= N0 - Nt0`): every `array.at(y+sy, x+sx)`,
`target.at(sy,sx)` and `out.at(y,x)` has its row index in `[0,N0)` resp. `[0,Nt0)` and its column
index in `[0,N1)` resp. `[0,Nt1)`. -/
theorem C10_find2d_in_bounds (n0 n1 t0 t1 : Int) (incl : Bool) (ht0 : 1 ≤ t0) (ht1 : 1 ≤ t1) :
    ∀ a ∈ find2dAccesses n0 n1 t0 t1 incl, 0 ≤ a.i ∧ a.i < a.size :=
  find2dAccesses_ok n0 n1 t0 t1 incl ht0 ht1

/-- **B3, majority_filter.** For every image `rows × cols` and every window `N ≥ 0` (the wrapper
enforces `N > 1`): behind `if (rows < N || cols < N) return;` every `input.at(y+dy, x+dx)` has
`y+dy ∈ [0,rows)`, `x+dx ∈ [0,cols)`, the flat output index `(y+N/2)*cols + N/2 + x` is in
`[0, rows*cols)`, and all four `!=` loops leave through their test. -/
theorem C10_majority_in_bounds (rows cols n : Int) (hn : 0 ≤ n) :
    (∀ a ∈ majorityAccesses rows cols n, 0 ≤ a.i ∧ a.i < a.size) ∧
    majorityDone rows cols n = true :=
  ⟨majorityAccesses_ok rows cols n hn, majorityDone_ok rows cols n hn⟩

/-! non-vacuity (B3): parameters meeting the hypotheses produce accesses; parameters outside do not pass. -/
example : (conv1dAccesses .mirror 5 4).length = 25 ∧ allOk (conv1dAccesses .mirror 5 4) = true := by decide
example : (find2dAccesses 3 3 2 2 true).length = 72 ∧ allOk (find2dAccesses 3 3 0 2 true) = false := by decide
example : (majorityAccesses 4 5 3).length = 38 ∧ allOk (majorityAccesses 2 2 (-1)) = false := by decide

/-! ## B6 — `dist_transform` -/

/-- **B6.** For every line length `n ≥ 1`, with the two float comparisons abstracted as arbitrary
oracles subject only to the two facts the kernel relies on — (i) the test `s > z[0]` against
`z[0] = -inf` succeeds (`cmp q 0 = true`; true whenever `s` is not NaN, i.e. the input holds no NaN
and no `inf - inf`), (ii) `z[kmax+1] = +inf` is never `< q` (`lt2 q kmax = false`) — every access of
the two loops is in range: in the do-while `0 ≤ k ≤ q-1`, so `v[k]`, `z[k]`, `f[q]`, `f[v[k]]` are in
`v[n]`, `z[n+1]`, `f[n]` (the stored values `v[k]` are earlier `q`'s); after `++k`, `v[k]`, `z[k]`,
`z[k+1]` with `k ≤ q ≤ n-1`; in the second loop `z[k+1]`, `v[k]`, `Df[q]`, `f[v[k]]` with `k ≤ kmax < n`;
and `k` never becomes `-1` (the do-while leaves through `break`). -/
theorem C10_dist_transform_in_bounds (cmp lt2 : Nat → Nat → Bool) (n : Nat) (hn : 0 < n)
    (hcmp : ∀ q, cmp q 0 = true) (hlt : ∀ q, lt2 q (dtKmax cmp n) = false) :
    (∀ a ∈ dtAccesses cmp lt2 n, 0 ≤ a.i ∧ a.i < a.size) ∧
    (dtFirst cmp n (n - 1) 1 0 [0]).2.isSome = true :=
  dtAccesses_ok cmp lt2 n hn hcmp hlt

/-! non-vacuity (B6): always-pop (down to the guard) and never-pop oracles on n = 4 meet the
    hypotheses; without assumption (i) (a NaN) the model reaches `v[-1]`. -/
example : (∀ q : Nat, (fun (_ k : Nat) => k == 0) q 0 = true) ∧ dtKmax (fun _ k => k == 0) 4 = 1 ∧
    allOk (dtAccesses (fun _ k => k == 0) (fun _ k => decide (k < 1)) 4) = true ∧
    (dtAccesses (fun _ k => k == 0) (fun _ k => decide (k < 1)) 4).length = 49 :=
  ⟨fun _ => rfl, by decide, by decide, by decide⟩
example : dtKmax (fun _ _ => true) 4 = 3 ∧
    allOk (dtAccesses (fun _ _ => true) (fun _ k => decide (k < 3)) 4) = true := by decide
example : allOk (dtAccesses (fun _ _ => false) (fun _ _ => false) 3) = false := by decide

/-! ## B7 — label-indexed tables -/

/-- **B7, bbox_labeled.** With the allocation of `labeled.bbox` (`ndim·2·(max+1)` entries) every
`extrema[label·2·ndim + 2j (+1)]`, `j < ndim`, is in range when `0 ≤ label ≤ max`; and conversely,
for `ndim ≥ 1`, a label outside `[0, max]` — in particular any negative label — puts the very first
access outside the table: this is exactly why negative labels are outside the domain. -/
theorem C10_bbox_labeled_in_bounds (nd maxlabel label : Int) :
    (0 ≤ label → label ≤ maxlabel →
      ∀ a ∈ bboxAccesses nd maxlabel label, 0 ≤ a.i ∧ a.i < a.size) ∧
    (1 ≤ nd → (∀ a ∈ bboxAccesses nd maxlabel label, 0 ≤ a.i ∧ a.i < a.size) →
      0 ≤ label ∧ label ≤ maxlabel) :=
  ⟨bboxAccesses_ok nd maxlabel label, bboxAccesses_bad nd maxlabel label⟩

/-- **B7, labeled_foldl.** Behind the kernel's guard `label >= 0 && label < maxlabel` the access
`result[label]` is in range for every label value (negative and too large labels are skipped). -/
theorem C10_labeled_foldl_in_bounds (maxi label : Int) :
    ∀ a ∈ foldlAccesses maxi label, 0 ≤ a.i ∧ a.i < a.size :=
  foldlAccesses_ok maxi label

/-- **B7, center_of_mass with labels.** For every rank, every label with `0 ≤ label ≤ max_label`
(the kernel rejects negative labels and computes `max_label` itself) and every flat position
`i < size` of the image: `totals[label]`, `centers[label·ndim + j]` (`j < ndim`) are inside their
allocations (`max_label+1`, `ndim·(max_label+1)`), and `labels[i]` is inside the labels buffer
provided it has at least `size` elements — the guard `labels.shape == img.shape` of the wrapper. -/
theorem C10_center_of_mass_in_bounds (nd maxlabel label size lsize : Int) (h0 : 0 ≤ label)
    (h1 : label ≤ maxlabel) (hs : size ≤ lsize) :
    ∀ a ∈ comAccesses nd maxlabel label size lsize, 0 ≤ a.i ∧ a.i < a.size :=
  comAccesses_ok nd maxlabel label size lsize h0 h1 hs

/-- **B7, cooccurence.** `++res.at(val, val2)` is inside a result of shape `(m0, m1)` whenever both
dimensions exceed the largest pixel value (`output = zeros((max+1, max+1))`, the default allocation);
negative values are rejected by the kernel before the access. -/
theorem C10_cooccurence_in_bounds (m0 m1 maxv v v2 : Int) (hv : v ≤ maxv) (hv2 : v2 ≤ maxv)
    (hm0 : maxv < m0) (hm1 : maxv < m1) :
    ∀ a ∈ coocAccesses m0 m1 v v2, 0 ≤ a.i ∧ a.i < a.size :=
  coocAccesses_ok m0 m1 maxv v v2 hv hv2 hm0 hm1

/-- **B7, the wrapper's assertion for a user-supplied `output` is off by one**
(`texture.py:438`: `assert np.min(output.shape) >= f.max()`): a 3×3 output passes it for an image
whose maximum is 3, but the pixel value 3 indexes row 3 of 3. -/
theorem C10_cooccurence_assertion_off_by_one :
    min (3 : Int) 3 ≥ 3 ∧ allOk (coocAccesses 3 3 3 0) = false := by decide

/-- **B7, compute_plus_minus.** For an `N × N` matrix, `px_plus_y.at(i+j)` and `px_minus_y.at(|i-j|)`
are in range when the vectors have at least `2N-1` resp. `N` elements (`texture.py:267-268` allocates
`2·maxv` and `maxv` for `N = maxv`). -/
theorem C10_compute_plus_minus_in_bounds (n plus minus : Int) (hp : 2 * n - 1 ≤ plus)
    (hm : n ≤ minus) : ∀ a ∈ plusMinusAccesses n plus minus, 0 ≤ a.i ∧ a.i < a.size :=
  plusMinusAccesses_ok n plus minus hp hm

/-! non-vacuity (B7) -/
example : (bboxAccesses 2 3 3).length = 4 ∧ allOk (bboxAccesses 2 3 3) = true ∧
    allOk (bboxAccesses 2 3 (-1)) = false ∧ allOk (bboxAccesses 2 3 4) = false := by decide
example : foldlAccesses 3 2 = [⟨2, 3⟩] ∧ foldlAccesses 3 (-1) = [] ∧ foldlAccesses 3 3 = [] := by decide
example : (comAccesses 2 1 1 6 6).length = 24 ∧ allOk (comAccesses 2 1 1 6 6) = true ∧
    allOk (comAccesses 2 1 1 6 4) = false := by decide

/-! ## B4 — `hitmiss` -/

/-- **B4, the margin test is sufficient.** For every rank and all shapes of the image and of `Bc`
(equal rank; even and odd sizes), at every flat index `i < N` whose position `flat_to_pos(i)` passes
the margin test on every axis (`min(cur[d], dim(d)-cur[d]-1) >= Bc.dim(d)/2`), every neighbour
`i + delta`, `delta = pos_to_flat(k - centre)` for a coordinate `k` of `Bc`, is a flat index in
`[0,N)` — so `input.at_flat(i + delta)` is inside the buffer (for a non-contiguous input
`C10_unravel_inside` then gives a position inside the array). -/
theorem C10_hitmiss_margin_test_sufficient (shape bshape : List Nat) (i : Nat)
    (hlen : bshape.length = shape.length) (hi : i < shapeSize shape)
    (h : hmFirstFail shape bshape (unravelI shape i) = none) :
    ∀ δ ∈ hmDeltas shape bshape, 0 ≤ (i : Int) + δ ∧ (i : Int) + δ < (shapeSize shape : Int) :=
  hm_neighbour_ok shape bshape i hi
    (firstFail_none_fits shape bshape _ hlen (unravelI_length shape i) h)

/-- **B4, the whole loop including the `slack` shortcut.** For every rank ≥ 1 and all shapes of the
image and of `Bc` with positive axis lengths and equal rank (`Bc` smaller, equal or larger than the
image, even or odd), the transliterated main loop of `hitmiss` — state `(i, slack)`; margin test only
when `slack = 0`, skipping `size` elements (stopping at `N`) on failure; after a pass the next
`slack = dim(last) - Bc.dim(last) + 1` pixels of the row are processed WITHOUT re-testing — only
dereferences `res.at_flat(i)` with `i < N` and `input.at_flat(i + delta)` with `0 ≤ i + delta < N`,
and ends through `i == N` within `2N+2` steps (in particular `slack` is never set to a value `≤ 0`,
which would disable the test for good). The invariant proved: with `slack = 0` the column is `≤ c`
or beyond `W - bw + c` (`c = Bc.dim(last)/2`), hence the test can only pass at column exactly `c`;
with `slack > 0` the remaining columns are exactly `x … W - bw + c`, on which the element fits
(for even `bw` the last of them fails the conservative margin test but still fits). -/
theorem C10_hitmiss_in_bounds (shape bshape : List Nat) (hne : shape ≠ [])
    (hlen : bshape.length = shape.length) (hs : ∀ d ∈ shape, 0 < d) (hb : ∀ d ∈ bshape, 0 < d) :
    (∀ a ∈ (hmRun shape bshape true).1, 0 ≤ a.i ∧ a.i < a.size) ∧
    (hmRun shape bshape true).2 = true := by
  have hbne : bshape ≠ [] := by
    intro e; rw [e] at hlen; exact hne (List.length_eq_zero_iff.mp hlen.symm)
  obtain ⟨pre, W, rfl⟩ : ∃ pre W, shape = pre ++ [W] :=
    ⟨shape.dropLast, shape.getLast hne, (List.dropLast_concat_getLast hne).symm⟩
  obtain ⟨bpre, bw, rfl⟩ : ∃ bpre bw, bshape = bpre ++ [bw] :=
    ⟨bshape.dropLast, bshape.getLast hbne, (List.dropLast_concat_getLast hbne).symm⟩
  exact hmRun_ok pre bpre W bw (by simpa using hlen) (fun d hd => hs d (by simp [hd]))
    (hs W (by simp)) (hb bw (by simp))

/-! non-vacuity (B4): a 4x5 image and an even-sized 2x4 element (the slack covers the column that
    fails the margin test but fits); without the margin test the model leaves the buffer. -/
example : (hmRun [4, 5] [2, 4] true).1.length = 52 ∧ allOk (hmRun [4, 5] [2, 4] true).1 = true ∧
    (hmRun [4, 5] [2, 4] true).2 = true ∧ allOk (hmRun [4, 5] [2, 4] false).1 = false := by decide
/-! non-vacuity (B7, texture) -/
example : (plusMinusAccesses 3 6 3).length = 36 ∧ allOk (plusMinusAccesses 3 6 3) = true ∧
    allOk (plusMinusAccesses 3 4 3) = false ∧ allOk (coocAccesses 4 4 3 3) = true := by decide

/-! ## B8 — `zoom_shift`, `spline_filter1d`, wavelets, `integral`, Graham scan (round 2) -/

/-- **B8, zoom_shift.** For every rank, every array shape with at least one element per axis, every spline
order (0..5 and beyond), every border mode and every per-axis coordinate the border rule can produce —
in fact for ARBITRARY integer `start`s, one per axis — every index `idxs[fi]`, `fi < (order+1)^rank`, that
`zoom_shift` forms for an output position addresses an element of the array:
(i) with arbitrary integer element strides the index equals `Σ stride_r·q_r` for a position `q` inside the
array, where `q_r = start_r + ff_r` on an axis without edge offsets and the mirror-folded sample
(`s2 = 2·len-2` folding, `len ≤ 1 → 0`) on an axis with them — this covers both branches of the code, the
`on_edge` sum of `edge_offsets`/`ff[r]·stride(r)` plus `oo`, and `oo + foffsets[fi]`, where `foffsets`
and `fcoordinates` are produced by the transliterated odometer (`off += stride(r)` / `off -= stride(r)·order`);
(ii) for the C-contiguous array the entry point insists on (`PyArray_ISCARRAY`), `0 ≤ idx < size`;
(iii) the per-axis `start`s computed from a coordinate list of the right length have the right length, and
the base coordinate the border rule leaves (`cc` after `fix_offset`) is in `[0, len)` — so the `int(...)`
conversions act on small numbers;
(iv) the edge folding is the `mirror` rule of `fix_offset`. -/
theorem C10_zoom_shift_in_bounds (shape : List Nat) (order : Nat) (starts : List Int)
    (hpos : ∀ d ∈ shape, 0 < d) (hst : starts.length = shape.length) :
    (∀ (strides : List Int), strides.length = shape.length →
      ∀ idx ∈ zsAccesses shape strides order starts,
        ∃ q, inside shape q = true ∧ idx = dot strides q) ∧
    (∀ idx ∈ zsAccesses shape (cStrides shape) order starts, 0 ≤ idx ∧ idx < (shapeSize shape : Int)) ∧
    (∀ (m : Mode) (coord st : List Int), coord.length = shape.length →
      zsStarts m order shape coord = some st → st.length = shape.length) ∧
    (∀ (m : Mode) (len c b : Int), 0 < len → zsBase m len c = some b → 0 ≤ b ∧ b < len) ∧
    (∀ len idx : Int, 0 < len → fixOffset .mirror idx len = some (zsFold len idx) ∧
      0 ≤ zsFold len idx ∧ zsFold len idx < len) := by
  refine ⟨fun strides hs => zsAccesses_address shape strides order starts hpos hs hst, ?_,
    fun m coord st hl h => zsStarts_length m order shape coord st hl h,
    fun m len c b h hb => zsBase_range m len c b h hb,
    fun len idx h => ⟨zsFold_eq_mirror len idx h, zsFold_range len idx h⟩⟩
  intro idx hidx
  obtain ⟨q, hq, rfl⟩ :=
    zsAccesses_address shape (cStrides shape) order starts hpos (cStrides_length shape) hst idx hidx
  rw [dot_cStrides]
  exact ravelZ_range shape q hq

/-- **B8, zoom_shift, the per-axis tables.** The filter coordinates `ff[r] = fcoordinates[r + fi·rank]` produced by
the odometer have one entry per axis and stay in `[0, order]` for every `fi` (any number of steps, any strides):
so `splvals[r][kk][ff[r]]` and `edge_offsets[r][kk][ff[r]]` (vectors of `order+1` entries) are read in range, and
the running `off` stored in `foffsets[fi]` is `Σ stride(r)·ff[r]`. -/
theorem C10_zoom_shift_tables_in_bounds (order : Nat) (strides : List Int) (fi : Nat) :
    (zsOdo order strides fi).1.length = strides.length ∧
    (∀ f ∈ (zsOdo order strides fi).1, 0 ≤ f ∧ f < (order : Int) + 1) ∧
    (zsOdo order strides fi).2 = dot strides (zsOdo order strides fi).1 := by
  obtain ⟨h1, h2, h3⟩ := zsOdo_spec order (by omega) strides fi
  exact ⟨h1, fun f hf => by have := h2 f hf; omega, h3⟩

/-- **B8, spline_filter1d.** For every line length (the kernel returns at once when `len ≤ 1`), every number
of poles and every value — positive, zero, negative, larger than the line — of the horizon
`max = (int)ceil(log_tolerance / log|pole|)` of the truncated initial sum, every `line[stride·ll]` of the
weight loop, of the initial causal sum (`ll < max` when `max < len`, else the mirrored sum with
`line[stride·(len-1)]` and `ll ≤ len-2`), of the causal recursion (`ll`, `ll-1`, `1 ≤ ll < len`), of
`line[stride·(len-1)]`, `line[stride·(len-2)]` and of the anticausal recursion (`ll+1`, `ll`,
`len-2 ≥ ll ≥ 0`) has its axis coordinate `ll` in `[0, len)`. -/
theorem C10_spline_filter1d_in_bounds (len : Int) (mxs : List Int) :
    ∀ a ∈ splineAccesses len mxs, 0 ≤ a.i ∧ a.i < a.size :=
  splineAccesses_ok len mxs

/-- **B8, haar / ihaar.** For every row length `N1 ≥ 0`, odd lengths included: `haar` reads the columns `2x`,
`2x+1` (`x < N1/2`), writes `low[x]` and `high[x] = buffer[N1/2 + x]` inside the buffer of `N1` elements
(for odd `N1` the last buffer element is never written by the loop; it keeps the zero that
`bufdata.resize(N1)` put there) and copies `buffer[x]` to column `x`, `x < N1`; both `!=` loops leave through
their test. `ihaar`, for every column step `≥ 1`: the element offsets `x·step` (low) and
`step·N1/2 + x·step` (high; for odd `step·N1` not a column of the row) are inside the extent
`(N1-1)·step + 1` of the row, `buffer[2x]`, `buffer[2x+1]` inside the buffer. -/
theorem C10_haar_in_bounds (n1 : Int) (h : 0 ≤ n1) :
    (∀ a ∈ haarAccesses n1, 0 ≤ a.i ∧ a.i < a.size) ∧ haarDone n1 = true ∧
    ∀ step : Int, 1 ≤ step → ∀ a ∈ ihaarAccesses n1 step, 0 ≤ a.i ∧ a.i < a.size :=
  ⟨haarAccesses_ok n1 h, haarDone_ok n1 h, fun step hs => ihaarAccesses_ok n1 step h hs⟩

/-- **B8, wavelet / iwavelet (daubechies, idaubechies).** For every row length `N1 ≥ 0` (odd included) and
every number of coefficients `ncoeffs ≥ 0`: `_access(data, N, p, step)` dereferences only `0 ≤ p < N`
(it returns 0 otherwise), so every column read by `wavelet` (`p = 2x+ci`) is in `[0,N1)`; `coeffs[ci]`,
`coeffs[ncoeffs-ci-1]` are inside the coefficient array; `low[x]`, `high[x] = buffer[N1/2+x]`, `x < N1/2`,
and the copy loop stay inside the buffer of `N1` elements resp. the row. For `iwavelet` and every column
step `≥ 1`: `low[xmap·step]`, `high[xmap·step]` with `high = data + step·N1/2` and `0 ≤ xmap < N1/2` are
inside the extent of the row, `buffer[x]`, `x < N1`, inside the buffer. -/
theorem C10_wavelet_in_bounds (n1 nc : Int) (h : 0 ≤ n1) (hc : 0 ≤ nc) :
    (∀ a ∈ waveletAccesses n1 nc, 0 ≤ a.i ∧ a.i < a.size) ∧ waveletDone n1 nc = true ∧
    ∀ step : Int, 1 ≤ step → ∀ a ∈ iwaveletAccesses n1 nc step, 0 ≤ a.i ∧ a.i < a.size :=
  ⟨waveletAccesses_ok n1 nc h hc, waveletDone_ok n1 nc h hc,
    fun step hs => iwaveletAccesses_ok n1 nc step h hc hs⟩

/-- **B8, integral (SURF integral image).** For every `N0 × N1 ≥ 0` (behind `if (N0 == 0 || N1 == 0) return;`):
the recurrence reads `[i-1][j]`, `[i][j-1]`, `[i-1][j-1]` only for `i, j ≥ 1`, the first row only `[0][j-1]`,
`j ≥ 1`, the first column only `[i-1][0]`, `i ≥ 1`: every row index is in `[0,N0)`, every column index in
`[0,N1)`, and the `j != N1`, `i != N0` loops starting at 1 leave through their test. -/
theorem C10_integral_in_bounds (n0 n1 : Int) (h0 : 0 ≤ n0) (h1 : 0 ≤ n1) :
    (∀ a ∈ integralAccesses n0 n1, 0 ≤ a.i ∧ a.i < a.size) ∧ integralDone n0 n1 = true :=
  ⟨integralAccesses_ok n0 n1 h0 h1, integralDone_ok n0 n1 h0 h1⟩

/-- **B8, Graham scan.** For every number of points `N` and every outcome of the `isLeft(..) >= 0` tests
(two arbitrary oracles, one per scan; a pair `(i,h)` is tested at most once per scan): every `P[h-2]`,
`P[h-1]`, `P[i]`, `std::swap(P[h],P[i])` of both `inPlaceScan`s — the second on `P + h - 2` with `N - h + 2`
points, where `2 ≤ h ≤ N` — every `swap(P[i],P[i+1])`, `i < h-1`, and every `Pv[i]`, `i <` the returned hull
size, of the caller is inside the vector of `N` points; the returned size is in `[0, N]`; the `i != h-1`
loop leaves through its test. -/
theorem C10_graham_in_bounds (cmp1 cmp2 : Nat → Nat → Bool) (n : Nat) :
    (∀ a ∈ (grahamRun cmp1 cmp2 n).1, 0 ≤ a.i ∧ a.i < a.size) ∧
    0 ≤ (grahamRun cmp1 cmp2 n).2.1 ∧ (grahamRun cmp1 cmp2 n).2.1 ≤ n ∧
    (grahamRun cmp1 cmp2 n).2.2 = true :=
  grahamRun_ok cmp1 cmp2 n

/-- **B8, a line of an n-D array.** `spline_filter1d` works on `line = &*iter` at the positions `p` whose
coordinate along `axis` is 0 and dereferences `line[stride(axis)·ll]`; `haar` / `wavelet` work on
`data = array.data(y)` (position `(y, 0)`, `axis = 1`) and dereference `data[step·x]`. For every rank, shape,
integer element strides (any layout), position `p` inside the array with `p[axis] = 0` and every axis
coordinate `0 ≤ ll < shape[axis]` — which is what `C10_spline_filter1d_in_bounds`, `C10_haar_in_bounds` and
`C10_wavelet_in_bounds` establish — the address `Σ stride·p + stride(axis)·ll` is the address of the position
`p` with its `axis` coordinate set to `ll`, which is inside the array. -/
theorem C10_line_address (shape : List Nat) (strides p : List Int) (axis : Nat) (ll : Int)
    (hp : inside shape p = true) (hs : strides.length = shape.length) (ha : axis < shape.length)
    (h0 : p.getD axis 0 = 0) (hl0 : 0 ≤ ll) (hl1 : ll < ((shape.getD axis 0 : Nat) : Int)) :
    inside shape (p.set axis ll) = true ∧
    dot strides p + strides.getD axis 0 * ll = dot strides (p.set axis ll) :=
  line_address shape strides p axis ll hp hs ha h0 hl0 hl1

/-! non-vacuity (B8) -/
example : inside [3, 4] [2, 0] = true ∧ dot [4, 1] [2, 0] + ([4, 1] : List Int).getD 1 0 * 3 = 11 ∧
    inside [3, 4] ([2, 0].set 1 3) = true := by decide
example : zsAccesses [4, 5] (cStrides [4, 5]) 3 [-1, 3] =
    [8, 9, 8, 7, 3, 4, 3, 2, 8, 9, 8, 7, 13, 14, 13, 12] := by decide
example : zsOdo 3 [5, 1] 7 = ([1, 3], 8) ∧ zsOdo 3 [5, 1] 16 = ([0, 0], 0) := by decide
example : zsStarts .reflect 3 [4, 5] [0, 4] = some [-1, 3] ∧ zsStarts .constant 3 [4, 5] [-1, 4] = none ∧
    zsFold 5 (-3) = 3 ∧ zsFold 5 6 = 2 ∧ zsFold 1 9 = 0 := by decide
example : (splineAccesses 5 [3, 40]).length = 61 ∧ allOk (splineAccesses 5 [3, 40]) = true ∧
    splineAccesses 1 [3] = [] := by decide
example : (haarAccesses 5).length = 18 ∧ (waveletAccesses 5 4).length = 37 ∧
    (iwaveletAccesses 5 4 3).length = 53 ∧ allOk (iwaveletAccesses 5 4 3) = true ∧
    (integralAccesses 3 4).length = 68 ∧ allOk (ihaarAccesses 5 3) = true := by decide
example : (grahamRun (fun _ _ => true) (fun i _ => i % 2 == 0) 6).2.1 = 3 ∧
    (grahamRun (fun _ _ => true) (fun i _ => i % 2 == 0) 6).1.length = 52 := by decide

/-! ## B5 — `thin` -/

/-- **B5, thin.** On a `rows × cols` C-contiguous image (`cols ≥ 1`) with no set pixel on its one-pixel frame
(the image `thin.py` builds: the bounding box of the input surrounded by a frame of zeros), a whole
`fast_hitmiss` sweep — `match(first, elem)` at every flat index for all eight structuring elements, whose
offsets `d0·cols + d1` come from the delta tables extracted from `_thin.cpp` — dereferences `*array`
at indices `< rows·cols` and the six neighbours `*(array + offset[j])` only of set pixels, all of them
inside the buffer; and the update after each element (`if (*pb && *pa) *pa = false`) only clears pixels,
whatever the buffer holds, so the frame stays clear and the size unchanged: the statement holds again for
the next element and the next iteration, for every `max_iter`. -/
theorem C10_thin_in_bounds (rows cols : Int) (img : List Bool) (hc : 0 < cols)
    (hlen : (img.length : Int) = rows * cols) (hf : thinFrameClear rows cols img = true) :
    (∀ a ∈ thinSweep rows cols img, 0 ≤ a.i ∧ a.i < a.size) ∧
    ∀ buf : List Bool, buf.length = img.length →
      thinFrameClear rows cols (thinUpdate img buf) = true ∧
      ((thinUpdate img buf).length : Int) = rows * cols :=
  ⟨thinSweep_ok rows cols img hc hlen hf, fun buf hb =>
    ⟨thinUpdate_frameClear rows cols img buf hf, by rw [thinUpdate_length img buf hb]; exact hlen⟩⟩

/-! non-vacuity (B5): a framed 3x3 image; a set pixel on the frame of a 2x2 image leaves the buffer -/
example : thinFrameClear 3 3 [false, false, false, false, true, false, false, false, false] = true ∧
    (thinSweep 3 3 [false, false, false, false, true, false, false, false, false]).length = 57 ∧
    thinFrameClear 2 2 [true, false, false, false] = false ∧
    allOk (thinSweep 2 2 [true, false, false, false]) = false := by decide

/-! ## B4 — `cwatershed` -/

/-- **B4, cwatershed.** For every rank and shape, every flat position `pos < N` taken from the queue with a
margin that is a lower bound of its true distance to the border (`margin_of` itself at the marker scan;
the bound is re-established for every pushed neighbour and for the running margin — last three conjuncts),
and every offset `o` of the neighbourhood (entry `delta = pos_to_flat(o)`, `step` = Chebyshev length):
whenever the bounds decision of the inner loop lets the neighbour through (`nmargin = margin - step ≥ 0`,
or the recomputed `margin_of(position + o) ≥ 0`), `npos = pos + delta` is in `[0, N)` — so `status[npos]`,
`res[npos]`, `lines[npos]`, `array[npos]` are inside their buffers. From C04-T1 (margins) and C04-T2 (flat
deltas). -/
theorem C10_cwatershed_in_bounds (s : List Nat) (pos : Nat) (m : Int) (o : List Int) (nm m' : Int)
    (hi : pos < shapeSize s) (ho : o.length = s.length) (hm : m ≤ C04.marginOf s (unravelI s pos))
    (h : C04.nbCheck s pos m ⟨C04.posToFlat s o, C04.chebStep o, o⟩ = some (nm, m')) :
    (0 ≤ (pos : Int) + C04.posToFlat s o ∧ (pos : Int) + C04.posToFlat s o < (shapeSize s : Int)) ∧
    nm ≤ C04.marginOf s (addPos (unravelI s pos) o) ∧ m ≤ m' ∧ m' ≤ C04.marginOf s (unravelI s pos) :=
  cw_npos_range s pos m o nm m' hi ho hm h

/-- **B4, cwatershed, the table the driver prints.** For every shape and every list of offsets of the rank
of the image, all neighbour accesses enumerated by `cwAccesses` (every position, every offset, margin test
started from the exact margin) are in `[0, N)`. -/
theorem C10_cwatershed_table_ok (shape : List Nat) (offs : List (List Int))
    (ho : ∀ o ∈ offs, o.length = shape.length) :
    ∀ a ∈ cwAccesses shape offs, 0 ≤ a.i ∧ a.i < a.size :=
  cwAccesses_ok shape offs ho

example : (cwAccesses [2, 3] [[0, 1], [1, 0], [-1, -1]]).length = 9 ∧
    allOk (cwAccesses [2, 3] [[0, 1], [1, 0], [-1, -1]]) = true := by decide

/-! ## Round 3 — histogram, lbp map, bbox fast path, relabel/remove_regions, distance_multi -/

/-- **B7, histogram.** `compute_histogram` executes `++histogram[*data]` for the `N` elements of the array. Let the
dtype be one the type switch of `py_histogram` admits (`histTypeRange ty = some (lo, hi)`: NPY_UBYTE, NPY_USHORT,
NPY_UINT, NPY_ULONG, NPY_ULONGLONG — everything else is rejected with `RuntimeError` before any access), let the
elements be values of that dtype, and let the histogram have the `int(img.max()) + 1` bins `fullhistogram` allocates
(`histWrapperSize`; an empty array never reaches the kernel because `max()` raises). Then, for every array length
and every content: every `data[i]` is in `[0, N)` and every bin index `histogram[data[i]]` is in `[0, max+1)`. -/
theorem C10_histogram_in_bounds (ty : Nat) (lo hi : Int) (vals : List Int) (s : Int)
    (hty : C10Misc.histTypeRange ty = some (lo, hi)) (hv : ∀ v ∈ vals, lo ≤ v ∧ v ≤ hi)
    (hs : C10Misc.histWrapperSize vals = some s) :
    ∀ a ∈ C10Misc.histAccesses vals s, 0 ≤ a.i ∧ a.i < a.size := by
  have hlo := C10Misc.histTypeRange_lo ty lo hi hty
  exact C10Misc.histAccesses_ok vals s (fun v h => by have := hv v h; omega)
    (C10Misc.histWrapperSize_gt vals s hs)

/-- **B7, histogram: the unsigned guard is needed.** (i) Every dtype the switch admits has no negative values.
(ii) If the array could hold a negative value `v` (a signed dtype let through), the access `histogram[v]` is out of
bounds whatever the number of bins — in particular for the wrapper's `max()+1`. (iii) A value `≥` the number of
bins is out of bounds as well (a histogram shorter than `max()+1`, possible only in a direct native call). -/
theorem C10_histogram_needs_unsigned :
    (∀ ty lo hi, C10Misc.histTypeRange ty = some (lo, hi) → lo = 0) ∧
    (∀ (vals : List Int) (s v : Int), v ∈ vals → (v < 0 ∨ s ≤ v) →
      ¬ ∀ a ∈ C10Misc.histAccesses vals s, 0 ≤ a.i ∧ a.i < a.size) :=
  ⟨C10Misc.histTypeRange_lo, fun vals s v hv hb => C10Misc.histAccesses_bad vals s v hv hb⟩

/-! non-vacuity: an unsigned image; the same call with a negative element (bins = max()+1 = 4) leaves the buffer -/
example : C10Misc.histWrapperSize [3, 0, 2, 3] = some 4 ∧ (C10Misc.histAccesses [3, 0, 2, 3] 4).length = 8 ∧
    C10Misc.allOk (C10Misc.histAccesses [3, 0, 2, 3] 4) = true ∧
    C10Misc.histWrapperSize [3, -1, 2] = some 4 ∧ C10Misc.allOk (C10Misc.histAccesses [3, -1, 2] 4) = false ∧
    C10Misc.histTypeRange 5 = none ∧ C10Misc.histTypeRange 6 = some (0, 4294967295) := by decide

/-- **lbp map.** `_lbp.map(codes, points)` for `0 ≤ points ≤ 32` (no guard in the entry point; `lbp.py` builds
`np.arange(2**points, dtype=uint32)`, so `points ≤ 32` is what the uint32 code type can hold) and codes of `points`
bits (`codes = Σ bit_k·2^k`, `k < points`): every `data[i]` is inside the array; the shift count `points-1` of every
`roll_right` is in `[0, 32)`, the width of `npy_uint32`; the `i != points` loop leaves through its test; and the
mapped code — the index into the `2^points`-entry pivot table (`final[pivots[:len(final)]]` with
`len(final) = max code + 1`) — is `< 2^points`. Moreover for `points ≥ 1` the uint32 arithmetic never truncates:
`roll_right` and `map` agree with the unbounded model of C19 (`C19.rollRight`, `C19.lbpMap`, the orbit minimum). -/
theorem C10_lbp_map_in_bounds (P : Nat) (hP : P ≤ 32) :
    (∀ codes : List Nat, (∀ v ∈ codes, v < 2 ^ P) →
      ∀ a ∈ C10Misc.lbpAccesses (P : Int) codes, 0 ≤ a.i ∧ a.i < a.size) ∧
    C10Misc.lbpDone (P : Int) = true ∧
    (∀ v, v < 2 ^ P → C10Misc.lbpMap32 (P : Int) v < 2 ^ P) ∧
    (1 ≤ P → ∀ v, v < 2 ^ P → C10Misc.rollRight32 (P : Int) v = C19.rollRight P v ∧
      C10Misc.lbpMap32 (P : Int) v = C19.lbpMap P v) :=
  ⟨fun codes hc => C10Misc.lbpAccesses_ok P hP codes hc, by simp [C10Misc.lbpDone],
    fun v hv => C10Misc.lbpMap32_lt P v hP hv,
    fun h1 v hv => ⟨C10Misc.rollRight32_eq P v h1 hP hv, C10Misc.lbpMap32_eq P v h1 hP hv⟩⟩

/-! non-vacuity: 4-bit codes; `points = 33` shifts by 32; a 5-bit code under `points = 2` maps outside the table -/
example : (C10Misc.lbpAccesses 4 [6, 9, 15]).length = 21 ∧ C10Misc.allOk (C10Misc.lbpAccesses 4 [6, 9, 15]) = true ∧
    [6, 9, 15].map (C10Misc.lbpMap32 4) = [3, 3, 15] ∧
    C10Misc.allOk (C10Misc.lbpAccesses 33 [1]) = false ∧ C10Misc.lbpMap32 2 16 = 4 ∧
    C10Misc.allOk (C10Misc.lbpAccesses 2 [16]) = false ∧ C10Misc.lbpDone (-1) = false := by decide

/-- **B7, bbox.** Fast path (`carray2_bbox`, C-contiguous 2-D array of `N0 × N1` elements, any `N0, N1 ≥ 0`, ANY
content — `px` is an arbitrary predicate on pointer offsets): with `extrema = [N0, 0, N1, 0]` as `py_bbox` initialises
it, every `*array` is read at a pointer offset in `[0, N0·N1)` with the column `x` in `[0, N1)` — including after the
skip-ahead `step = extrema[3]-x-1; x += step; array += step`, because `extrema[3]` stays in `[0, N1]`, so the row loop
ends with the pointer exactly at the start of the next row —; the `extrema[0..3]` accesses are inside the `2·nd = 4`
entries; both loops leave through their tests; and the returned box satisfies `0 ≤ min_0, max_0 ≤ N0`,
`0 ≤ min_1, max_1 ≤ N1` (so slicing with it stays inside the array). Generic path (`bbox`, any rank, shape, content):
`where[j]`, `extrema[2j]`, `extrema[2j+1]`, `j < nd`, are inside `nd` resp. `2·nd` entries. -/
theorem C10_bbox_in_bounds (px : Int → Bool) (n0 n1 : Nat) :
    (∀ a ∈ (C10Misc.bboxFast px n0 n1).1, 0 ≤ a.i ∧ a.i < a.size) ∧ (C10Misc.bboxFast px n0 n1).2.2 = true ∧
    (0 ≤ (C10Misc.bboxFast px n0 n1).2.1.e0 ∧ (C10Misc.bboxFast px n0 n1).2.1.e0 ≤ n0 ∧
     0 ≤ (C10Misc.bboxFast px n0 n1).2.1.e1 ∧ (C10Misc.bboxFast px n0 n1).2.1.e1 ≤ n0 ∧
     0 ≤ (C10Misc.bboxFast px n0 n1).2.1.e2 ∧ (C10Misc.bboxFast px n0 n1).2.1.e2 ≤ n1 ∧
     0 ≤ (C10Misc.bboxFast px n0 n1).2.1.e3 ∧ (C10Misc.bboxFast px n0 n1).2.1.e3 ≤ n1) ∧
    ∀ (shape : List Nat) (img : List Bool), ∀ a ∈ (C10Misc.bboxGen shape img).1, 0 ≤ a.i ∧ a.i < a.size :=
  ⟨(C10Misc.bboxFast_ok px n0 n1).1, (C10Misc.bboxFast_ok px n0 n1).2.1, (C10Misc.bboxFast_ok px n0 n1).2.2,
    fun shape img => C10Misc.bboxGen_ok shape img⟩

/-! non-vacuity: a 3x4 image (skip-ahead taken in row 1); an initial `extrema[3] = 6 > N1` sends the pointer out -/
example : (C10Misc.bboxFast (fun k => k == 2 || k == 4 || k == 9) 3 4).2.1 = ⟨0, 3, 0, 3⟩ ∧
    (C10Misc.bboxFast (fun k => k == 2 || k == 4 || k == 9) 3 4).1.length = 30 ∧
    C10Misc.allOk (C10Misc.bboxFast (fun k => k == 2 || k == 4 || k == 9) 3 4).1 = true ∧
    C10Misc.allOk (C10Misc.bboxFast (fun k => k == 2 || k == 4 || k == 9) 3 4 6).1 = false ∧
    (C10Misc.bboxGen [2, 3] [false, false, true, false, true, false]).2 = [0, 2, 1, 3] := by decide

/-- **remove_regions, the search.** `std::lower_bound` on the window `[first, first+len)` of a buffer of `size`
elements, for ARBITRARY outcomes of the comparisons `*middle < val` (the oracle `lt`; the array need not be sorted):
every `*middle` is inside the window, hence inside the buffer; the loop ends (`len` at least halves); the returned
index is in `[first, first+len]`. -/
theorem C10_lower_bound_in_bounds (lt : Int → Bool) (size : Int) (f : Nat) (first len : Int)
    (h0 : 0 ≤ first) (h1 : 0 ≤ len) (h2 : first + len ≤ size) (hf : len < f) :
    (∀ a ∈ (C10Misc.lowerBound lt size f first len).1, 0 ≤ a.i ∧ a.i < a.size) ∧
    first ≤ (C10Misc.lowerBound lt size f first len).2.1 ∧
    (C10Misc.lowerBound lt size f first len).2.1 ≤ first + len ∧
    (C10Misc.lowerBound lt size f first len).2.2 = true :=
  C10Misc.lowerBound_spec lt size f first len h0 h1 h2 hf

/-- **remove_regions.** For every `labeled` and every `regions` array (any lengths incl. 0, any content, sorted or
not): every `data[i]` (read, and the write `data[i] = 0`), every `*middle` of `std::lower_bound` and the final `*i` of
`std::binary_search` (read only when `i != last`) is inside its buffer; all loops end; the result has the length of
the input. And when `regions` is sorted (what `np.unique` in `labeled.remove_regions` guarantees), the search
answers membership: a label is zeroed iff it is non-zero and occurs in `regions`. -/
theorem C10_remove_regions_in_bounds (regions labeled : List Int) :
    (∀ a ∈ (C10Misc.removeRegions regions labeled).1, 0 ≤ a.i ∧ a.i < a.size) ∧
    (C10Misc.removeRegions regions labeled).2.2 = true ∧
    (C10Misc.removeRegions regions labeled).2.1.length = labeled.length ∧
    ((∀ i j : Nat, i ≤ j → j < regions.length → regions.getD i 0 ≤ regions.getD j 0) →
      ∀ val, (C10Misc.binarySearch regions val).2.1 = true ↔ val ∈ regions) :=
  ⟨(C10Misc.removeRegions_ok regions labeled).1, (C10Misc.removeRegions_ok regions labeled).2.1,
    (C10Misc.removeRegions_ok regions labeled).2.2, fun hs val => C10Misc.binarySearch_sorted regions val hs⟩

example : (C10Misc.removeRegions [2, 5, 7] [0, 5, 3, 7, 9]).2.1 = [0, 0, 3, 0, 9] ∧
    (C10Misc.removeRegions [2, 5, 7] [0, 5, 3, 7, 9]).1.length = 18 ∧
    (C10Misc.removeRegions [] [4]).1.length = 1 ∧ (C10Misc.binarySearch [2, 5, 7] 9).2.1 = false := by decide

/-- **relabel.** For every `labeled` array: `data[i]` (read and write) is inside the array; the result has the same
length; the returned number of objects `n` satisfies `0 ≤ n ≤ N`; and every new label is in `[0, n]` — so any table
with `n+1` entries indexed by the relabelled array (`labeled_sum`, `bbox`, `center_of_mass` with
`max()+1` entries) is indexed in range. -/
theorem C10_relabel_in_bounds (labeled : List Int) :
    (∀ a ∈ (C10Misc.relabel labeled).1, 0 ≤ a.i ∧ a.i < a.size) ∧
    (C10Misc.relabel labeled).2.1.length = labeled.length ∧
    0 ≤ (C10Misc.relabel labeled).2.2 ∧ (C10Misc.relabel labeled).2.2 ≤ labeled.length ∧
    ∀ w ∈ (C10Misc.relabel labeled).2.1, 0 ≤ w ∧ w ≤ (C10Misc.relabel labeled).2.2 :=
  C10Misc.relabel_ok labeled

example : (C10Misc.relabel [7, 0, -2, 7, 3]).2 = ([1, 0, 2, 1, 3], 3) ∧
    (C10Misc.relabel [7, 0, -2, 7, 3]).1.length = 10 := by decide

/-- **B6, distance_multi: `validposition` precedes every access.** For EVERY shape (any rank, axes of length 0
included), every content of `array` and `res`, every list of deltas (`Bcs`: any number, any rank, any integers — so
also what `neighbours_delta` yields for a structuring element of another rank, where the C++ adds uninitialised
components) and every step budget of the queue loop: every position dereferenced by `distance_multi` — `*aiter`,
`*riter`, `array.at(next)`, `res.data(next)` in both phases, and the `res.at(next)` of a popped queue entry, which is
NOT itself preceded by `validposition` but was validated before it was pushed — is inside the array. The
transliterated `validposition` (rank test, then `pos[i] < 0 || pos[i] >= dim(i)` per axis) is exactly `inside`. By
`C10_ravel_lt` / `C10_line_address`-style arguments a position inside the box is an element for any strides. -/
theorem C10_distance_multi_in_bounds (shape : List Nat) (img : List Bool) (res : List Int)
    (deltas : List (List Int)) (fuel : Nat) :
    (∀ a ∈ (C10Misc.dmRun true shape img res deltas fuel).1, inside a.shape a.pos = true) ∧
    ∀ pos, C10Misc.validPosition shape pos = true ↔ inside shape pos = true :=
  ⟨C10Misc.dmRun_ok shape img res deltas fuel,
    fun pos => ⟨C10Misc.validPosition_inside shape pos, C10Misc.inside_validPosition shape pos⟩⟩

/-- **distance_multi: the native guards do not suffice.** `neighbours_delta` starts with
`numpy::position accumulated = rs[0];` unconditionally: its vector accesses are in range iff the structuring element
has at least one set element other than its centre. `py_distance_multi` checks types and `same_shape(array, res)`
only (`nativeGuards_morph_distance_multi`): an all-False, centre-only or 0-d `Bc` reads `rs[0]` of an empty vector
(observed: SIGSEGV / ASan SEGV in `neighbours_delta`). A rank mismatch between `Bc` and `array` is not checked
either, but is harmless for memory by `C10_distance_multi_in_bounds`. -/
theorem C10_distance_multi_needs_neighbour (rs : List (List Int)) :
    (∀ a ∈ (C10Misc.neighboursDelta rs).1, 0 ≤ a.i ∧ a.i < a.size) ↔ rs ≠ [] :=
  C10Misc.neighboursDelta_ok_iff rs

/-! non-vacuity: a 2x3 image with the cross; without `validposition` positions leave the array; centre-only `Bc` -/
example : C10Misc.neighbours [3, 3] [false, true, false, true, true, true, false, true, false] =
      [[-1, 0], [0, -1], [0, 1], [1, 0]] ∧
    (C10Misc.neighboursDelta [[-1, 0], [0, -1], [0, 1], [1, 0]]).2 = [[-1, 0], [1, -1], [0, 2], [1, -1]] ∧
    (C10Misc.dmRun true [2, 3] [true, true, false, true, true, true] [99, 99, 99, 99, 99, 99]
      [[-1, 0], [1, -1], [0, 2], [1, -1]] 50).2 = ([4, 1, 0, 5, 2, 1], true) ∧
    ((C10Misc.dmRun false [2, 3] [true, true, false, true, true, true] [99, 99, 99, 99, 99, 99]
      [[-1, 0], [1, -1], [0, 2], [1, -1]] 50).1.all C10Misc.PAcc.ok) = false ∧
    C10Misc.neighbours [3, 3] [false, false, false, false, true, false, false, false, false] = [] ∧
    C10Misc.allOk (C10Misc.neighboursDelta []).1 = false := by decide
/-! ## Round 3 — B9 SURF -/

section SurfB9
open Mahotas.C10Surf

/-- **B9, `sum_rect` (as repaired by 6faa5ae).** For ALL integers `y0, x0, y1, x1` — every window, also one that ends
before the image or begins beyond it — and every image size: an empty image (`N0 ≤ 0` or `N1 ≤ 0`) performs NO access
(`return 0.`), and for a non-empty image the four reads `integral.at(y0',x0')`, `at(y0',x1')`, `at(y1',x0')`, `at(y1',x1')`
behind the two-sided clamps `v' = min(max(v-1, 0), N-1)` of all four corners are inside the `N0 x N1` integral image. No
precondition is left. -/
theorem C10_surf_sum_rect_in_bounds (n0 n1 y0 x0 y1 x1 : Int) :
    sAllOk (sumRectAccesses n0 n1 y0 x0 y1 x1) = true ∧
    (sumRectAccesses n0 n1 y0 x0 y1 x1).length = if n0 ≤ 0 ∨ n1 ≤ 0 then 0 else 8 :=
  ⟨(sAllOk_iff _).2 (sumRect_ok n0 n1 y0 x0 y1 x1), sumRect_length n0 n1 y0 x0 y1 x1⟩

/-! non-vacuity: windows inside, beyond, before the image (the witnesses of the repaired defect) and an empty image -/
example : sAllOk (sumRectAccesses 40 40 (-5) 3 7 50) = true ∧ (sumRectAccesses 40 40 (-5) 3 7 50).length = 8 ∧
    sAllOk (sumRectAccesses 40 40 100 0 200 5) = true ∧ (sumRectAccesses 40 40 100 0 200 5).map (·.i) = [39, 0, 39, 4, 39, 0, 39, 4] ∧
    sAllOk (sumRectAccesses 40 40 (-5) 0 0 5) = true ∧ sumRectAccesses 0 4 0 0 1 1 = [] := by decide

/-- **B9, `sum_rect` as the entry point `_surf.sum_rect` runs it** (four arbitrary C `int`s; the decrement `v-1` wraps at
`INT_MIN` to `INT_MAX` as compiled with `-fno-strict-overflow`, modelled by `wrap32`): whatever the wrapped values are, the
two-sided clamps keep all reads inside a non-empty image, and an empty one is not read. -/
theorem C10_surf_sum_rect_entry_in_bounds (n0 n1 y0 x0 y1 x1 : Int) :
    sAllOk (sumRectEntry n0 n1 y0 x0 y1 x1) = true :=
  (sAllOk_iff _).2 (sumRectEntry_ok n0 n1 y0 x0 y1 x1)

example : sAllOk (sumRectEntry 5 5 (-2147483648) 0 3 3) = true ∧ (sumRectEntry 5 5 (-2147483648) 0 3 3).length = 8 ∧
    sAllOk (sumRectEntry 5 5 2 2 4 4) = true ∧ sumRectEntry 5 0 2 2 4 4 = [] := by decide

/-- **B9, `csum_rect`.** For all integers: `csum_rect(integral, y, x, dy, dx, h, w)` (`y0 = y+dy-h/2`, `x0 = x+dx-w/2` with C
division, `y1 = y0+h`, `x1 = x0+w`) reads inside the image (nothing for an empty image). -/
theorem C10_surf_csum_rect_in_bounds (n0 n1 y x dy dx h w : Int) :
    sAllOk (csumRectAccesses n0 n1 y x dy dx h w) = true :=
  (sAllOk_iff _).2 (csumRect_ok n0 n1 y x dy dx h w)

example : sAllOk (csumRectAccesses 9 9 4 4 (-2) 2 3 3) = true ∧ sAllOk (csumRectAccesses 9 9 0 4 (-2) 2 1 3) = true ∧
    (csumRectAccesses 9 9 0 4 (-2) 2 1 3).length = 8 := by decide

/-- **B9, `build_pyramid`.** For every image size `N0, N1` (any integers, also smaller than the filters), every number of
octaves and intervals and every `initial_step_size ≥ 1` (the guard of `check_pyramid_parameters`, fix d1a663a): every
access of the fill loops — `pyramid[o]` with `o < nr_octaves`; the 32 reads of the eight `csum_rect` windows (Dxx, Dyy, Dxy
lobes) at every sample `(y, x)`, `y = border, border+step, … < N0-border`; the write
`pyramid[o].at(i, y/step_size, x/step_size)` into the array of shape `(nr_intervals, N0/step_size, N1/step_size)` — is in
bounds, and every `y += step_size` loop terminates (`step_size ≥ 1`). The `csum_rect` windows may stick out of the image:
the two-sided clamps of `sum_rect` take care of that (`C10_surf_sum_rect_in_bounds`). The write needs `border ≥ step`
(`y < N0 - border` gives `y/step < N0/step` although `N0/step` rounds down). Arithmetic is over ℤ here; that the C `int`s
do not overflow is `C10_surf_pyramid_no_int_overflow`. -/
theorem C10_surf_pyramid_in_bounds (n0 n1 noct nint init : Int) (hi : 1 ≤ init) :
    sAllOk (pyramidAccesses n0 n1 noct nint init) = true ∧ pyramidDone noct init = true :=
  ⟨(sAllOk_iff _).2 (pyramidAccesses_ok n0 n1 noct nint init hi), pyramidDone_ok noct init hi⟩

example : (pyramidAccesses 20 21 1 1 1).length = 1341 ∧ sAllOk (pyramidAccesses 20 21 1 1 1) = true ∧
    pyramidDone 1 0 = false := by decide +kernel

/-- **B9, `build_pyramid`: the guard and the allocation.** When `check_pyramid_parameters` accepts (`0 < nr_octaves ≤ 30`,
`nr_intervals > 0`, `initial_step_size > 0`, `max_step*max_border < INT_MAX`) and the image has `N0, N1 ≥ 0`: all accesses are in
bounds, the loops terminate, and `pyramid[o]` is allocated with shape `(nr_intervals ≥ 1, N0/step ≥ 0, N1/step ≥ 0)` (a plane
may be empty when the image is smaller than the step: then nothing is written to it). -/
theorem C10_surf_pyramid_guarded (n0 n1 noct nint init : Int) (o : Nat) (h0 : 0 ≤ n0) (h1 : 0 ≤ n1)
    (hg : checkPyramidParameters noct nint init = true) :
    sAllOk (pyramidAccesses n0 n1 noct nint init) = true ∧ pyramidDone noct init = true ∧
    1 ≤ (pyramidDims n0 n1 nint init o).1 ∧ 0 ≤ (pyramidDims n0 n1 nint init o).2.1 ∧
    0 ≤ (pyramidDims n0 n1 nint init o).2.2 := by
  have hg' := hg
  simp only [checkPyramidParameters, Bool.and_eq_true, decide_eq_true_eq] at hg'
  obtain ⟨⟨⟨⟨_, _⟩, hn⟩, hin⟩, _⟩ := hg'
  have hs : 1 ≤ stepSize init o := by unfold stepSize; have := pow2_pos o; nlinarith
  refine ⟨(C10_surf_pyramid_in_bounds n0 n1 noct nint init (by omega)).1, pyramidDone_ok noct init (by omega), ?_, ?_, ?_⟩
  · simp only [pyramidDims]; omega
  · simp only [pyramidDims]; rw [Int.tdiv_eq_ediv_of_nonneg h0]; exact Int.ediv_nonneg h0 (by omega)
  · simp only [pyramidDims]; rw [Int.tdiv_eq_ediv_of_nonneg h1]; exact Int.ediv_nonneg h1 (by omega)

example : checkPyramidParameters 4 6 1 = true ∧ checkPyramidParameters 31 6 1 = false ∧ checkPyramidParameters 4 0 1 = false ∧
    checkPyramidParameters 4 6 0 = false ∧ checkPyramidParameters 30 6 1 = false ∧ checkPyramidParameters 1 700000000 1 = true := by
  decide +kernel

/-- **B9, `build_pyramid`: no `int` overflow.** Under `check_pyramid_parameters`, for every octave `o < nr_octaves` and interval
`0 ≤ i < nr_intervals`, the C `int`s computed from the parameters alone — `step_size = initial_step_size*2^o`,
`get_border_size(o, nr_intervals)`, `border_size = get_border_size*step_size`, `lobe_size = 2^(o+1)*(i+1)+1`,
`lobe_offset = lobe_size/2+1` — lie in `[1, INT_MAX]`: the computation over ℤ of `C10_surf_pyramid_in_bounds` is the
computation of the machine. (The window sizes `3*lobe_size`, `2*lobe_size-1` are evaluated only inside the `y` loop, where
`3*lobe_size ≤ 2*border < N0`; that last step is not formalised: see the report.) -/
theorem C10_surf_pyramid_no_int_overflow (noct nint init : Int) (o : Nat) (i : Int)
    (hg : checkPyramidParameters noct nint init = true) (ho : (o : Int) < noct) (hi : 0 ≤ i ∧ i < nint) :
    ∀ v ∈ pyramidInts nint init o i, 1 ≤ v ∧ v ≤ 2147483647 :=
  pyramidInts_range noct nint init o i hg ho hi

example : pyramidInts 6 1 3 5 = [8, 170, 1360, 97, 49] := by decide

/-- **B9, `get_interest_points`.** For every plane count `nr_intervals`, every plane size `nr x nc` (any integers) and every
border `get_border_size ≥ 0`: all reads of one octave — the scan `for (i = 1; i < nr_intervals-1; i += 3) for (r = border+1;
r < nr-border-1; r += 3) for (c …)`, the block `ii < min(i+3, nr_intervals-1)`, `rr < min(r+3, nr-border-1)`, `cc < …`, and, for
EVERY element of the block as candidate maximum (the float comparisons are not modelled: a superset of any run),
`is_maximum_in_region` (27 neighbours `(i-1..i+1, r-1..r+1, c-1..c+1)` behind `i <= 0 || i+1 >= nr_intervals`) and
`interpolate_point` (27 reads at offsets in `{-1,0,1}³`) — are inside the `nr_intervals x nr x nc` array. The border the code
uses is non-negative (`≥ 8`) whenever `nr_intervals ≥ 1`. -/
theorem C10_surf_interest_points_in_bounds (nint nr nc bs : Int) (hbs : 0 ≤ bs) :
    sAllOk (ipScanAccesses nint nr nc bs) = true ∧ ∀ o : Nat, 1 ≤ nint → 8 ≤ borderSize o nint :=
  ⟨(sAllOk_iff _).2 (ipScan_ok nint nr nc bs hbs), fun o h => borderSize_ge o nint h⟩

example : (ipScanAccesses 3 3 3 0).length = 171 ∧ sAllOk (ipScanAccesses 3 3 3 0) = true ∧
    sAllOk (ipScanAccesses 3 3 3 (-1)) = false := by decide +kernel

/-- **B9, gradient samples (`haar_x`, `haar_y`).** For all integers `y, x, w` and every image size: the 16 reads of
`haar_x(integral, y, x, w)` and `haar_y(integral, y, x, w)` are inside the image — also for a sample position in row or
column 0 (`y = 0`: the top window ends before the image; since 6faa5ae it is empty instead of reading `integral.at(-1, ·)`). -/
theorem C10_surf_haar_in_bounds (n0 n1 y x w : Int) :
    sAllOk (haarAccesses n0 n1 y x w) = true :=
  (sAllOk_iff _).2 (haar_ok n0 n1 y x w)

/-- **B9, descriptor / orientation sampling windows.** The sample positions of `compute_dominant_angle`
(`round(scale*r + center.y)`, …) and `compute_surf_descriptor` (`int(p.y())`, `int(p.x())` of the rotated grid) and the window
sizes (`(~1)&int(4*scale+.5)`, `int(2*scale+.5)`) are float-derived; here they are ARBITRARY integers — no hypothesis on
positions, window or scale is needed any more: all reads of all samples are in bounds. (On the pinned clamps this needed
`1 ≤ y ≤ N0`, `1 ≤ x ≤ N1`, which the border test of `compute_descriptors` does not ensure for scales below ~1.47:
`C10_surf_descriptor_pinned_guard_insufficient`.) -/
theorem C10_surf_descriptor_windows_in_bounds (n0 n1 : Int) (pts : List (Int × Int)) (w : Int) :
    sAllOk (descWindowAccesses n0 n1 pts w) = true :=
  (sAllOk_iff _).2 (descWindow_ok n0 n1 pts w)

example : sAllOk (descWindowAccesses 9 9 [(1, 1), (9, 9), (4, 5), (0, 3), (3, 0), (-7, 40)] 4) = true ∧
    (descWindowAccesses 9 9 [(1, 1), (9, 9), (4, 5)] 4).length = 96 ∧
    sAllOk (haarAccesses 9 9 0 3 2) = true ∧ sAllOk (haarAccesses 9 9 3 0 0) = true ∧
    sAllOk (haarPinnedAccesses 9 9 0 3 2) = false := by decide

/-- **B9, the descriptor vector.** The 16 cells of `for (r = -10; r < 10; r += 5) for (c = -10; c < 10; c += 5)` write
`des[count++]` four times each: exactly the indices `0 … 63` of `double des[64]`; `compute_dominant_angle` takes 109 samples
(so `samples[0]` exists). -/
theorem C10_surf_descriptor_index_in_bounds :
    sAllOk descIndexAccesses = true ∧ descIndexAccesses.map (·.i) = (List.range 64).map Int.ofNat ∧ angleGrid.length = 109 := by
  decide

/-- **B9, the PINNED clamps of `sum_rect` (history; NOT the current code).** Before 6faa5ae the clamps were one-sided
(`y0' = max(y0-1,0)`, `x0' = max(x0-1,0)`, `y1' = min(y1-1,N0-1)`, `x1' = min(x1-1,N1-1)`, no test for an empty image): the
reads were inside the image IF AND ONLY IF `N0, N1 ≥ 1`, `y0 ≤ N0`, `x0 ≤ N1`, `y1 ≥ 1`, `x1 ≥ 1`. -/
theorem C10_surf_sum_rect_pinned_in_bounds_iff (n0 n1 y0 x0 y1 x1 : Int) :
    sAllOk (sumRectPinnedAccesses n0 n1 y0 x0 y1 x1) = true ↔
      1 ≤ n0 ∧ 1 ≤ n1 ∧ y0 ≤ n0 ∧ x0 ≤ n1 ∧ 1 ≤ y1 ∧ 1 ≤ x1 := by
  rw [sAllOk_iff]; exact sumRectPinned_ok_iff n0 n1 y0 x0 y1 x1

/-- **B9, why the repair was needed (about the PINNED clamps; the current code is safe by
`C10_surf_descriptor_windows_in_bounds`).** In exact rational arithmetic: a 40x40 image, interest point `(15, 15)` with
`scale = 1` (what `surf.dense(f, 1)` passes) and rotation `sin = -20/29`, `cos = 21/29` (`sin² + cos² = 1`). The border test of
`compute_descriptors` accepts (`border_size = 31/2 = 15 ≤ 15`, `15 + 15 < 40`), the grid point `(x, y) = (-10, -10)` is sampled
at row `int(p.y) = 0`, column 14, window `int(2*1+.5) = 2`; over the pinned clamps `haar_y` read `integral.at(-1, ·)` (the defect
repaired by 6faa5ae, witnesses `corpus/C10/surf_*.json`), over the current clamps the same sample is in bounds. -/
theorem C10_surf_descriptor_pinned_guard_insufficient :
    descGuard 40 40 15 15 1 = true ∧
    ((-20 / 29 : Rat) * (-20 / 29) + (21 / 29) * (21 / 29) = 1) ∧
    descSample 15 15 1 (-20 / 29) (21 / 29) (-10) (-10) = (0, 14) ∧ descWindow 1 = 2 ∧
    sAllOk (haarPinnedAccesses 40 40 0 14 2) = false ∧ sAllOk (haarAccesses 40 40 0 14 2) = true := by
  decide +kernel

end SurfB9

/-- **C10 (tie to the source, generated tables).** The code by which the models number a border mode is the code the
current source gives it in both places: `mode2int` of `mahotas/_filters.py` (what the wrappers send) and
`enum ExtendMode` of `mahotas/_filters.h` (what the kernels switch on); neither table has further entries. Both tables
are regenerated from the source on every run. -/
theorem C10_mode_codes_agree (m : Mahotas.Mode) :
    (Mahotas.Generated.pyModes.lookup m.name = some m.code ∧ Mahotas.Generated.cppModes.lookup m.name = some m.code) ∧
    Mahotas.Generated.pyModes.length = 6 ∧ Mahotas.Generated.cppModes.length = 6 :=
  ⟨Mahotas.mode_codes_agree m, Mahotas.mode_tables_complete.1, Mahotas.mode_tables_complete.2.1⟩


namespace Mahotas
/-- the seeds along one axis: at least one, all inside (restated from `C11_slic_seeds_nonempty_in_range`, which lives downstream) -/
theorem slic_seeds_len (S N : Nat) (hN : S / 2 < N) :
    (1 ≤ (Mahotas.C11.seeds S N).length) ∧ ∀ y ∈ Mahotas.C11.seeds S N, y < N := by
  constructor
  · unfold Mahotas.C11.seeds
    obtain ⟨n, rfl⟩ : ∃ n, N = n + 1 := ⟨N - 1, by omega⟩
    simp [Mahotas.C11.seedLoop, hN]
  · have : ∀ fuel y0, ∀ y ∈ Mahotas.C11.seedLoop S N fuel y0, y < N := by
      intro fuel
      induction fuel with
      | zero => intro y0 y hy; simp [Mahotas.C11.seedLoop] at hy
      | succ k ih =>
        intro y0 y hy
        simp only [Mahotas.C11.seedLoop] at hy
        split at hy
        · rcases List.mem_cons.mp hy with rfl | h
          · assumption
          · exact ih _ _ h
        · simp at hy
    exact this _ _
end Mahotas

/-! ## Round 4 — Labeled: `_labeled.cpp` (label union-find, borders, slic, is_same_labeling), `_center_of_mass` label path, `_bbox` labeled n-D path -/
section Round4Labeled
open Mahotas.C10Labeled
-- (theorems of this package go between this line and the `end`)

/-- **C10, `_labeled.cpp: slic` — one assignment window.** For every image size, every `S ≥ 1` and EVERY (truncated) centroid position
inside the image — centroids are means of pixel coordinates, hence inside — the window
`[max(0, cy-2S), min(Ny, cy+2S)) × [max(0, cx-2S), min(Nx, cx+2S))` is non-empty in both directions (so the loops
`for (y = start_y; y != end_y; ++y)` end) and every `pos = y*Nx + x` is a cell of `distance` / `nlabels` (`N = Ny*Nx` cells; the
pixel reads are `array.at(y, x, c)`). For a centroid outside the image the `!=` loops would not end (second example). -/
theorem C10_slic_window_in_bounds (ny nx S cy cx : Int) (hS : 1 ≤ S) (hy0 : 0 ≤ cy) (hy : cy < ny) (hx0 : 0 ≤ cx) (hx : cx < nx) :
    ∃ l, Mahotas.C10Slic.windowPositions ny nx S cy cx = some l ∧ Mahotas.C10Slic.inN (ny * nx) l = true ∧
      Mahotas.C10Slic.winLo cy S < Mahotas.C10Slic.winHi ny cy S ∧ Mahotas.C10Slic.winLo cx S < Mahotas.C10Slic.winHi nx cx S := by
  obtain ⟨l, h1, h2, h3, h4⟩ := Mahotas.C10Slic.window_ok ny nx S cy cx hS hy0 hy hx0 hx
  exact ⟨l, h1, (Mahotas.C10Slic.inN_iff _ _).mpr h2, h3, h4⟩

example : Mahotas.C10Slic.windowPositions 5 4 1 0 3 = some [1, 2, 3, 5, 6, 7] ∧
    Mahotas.C10Slic.windowPositions 5 4 1 9 3 = none := by decide

/-- **C10, `slic` — the first iteration assigns every pixel (why no label `-1` is ever used as an index).** For `S ≥ 1` and an image
with a seed on both axes (`S/2 < Ny`, `S/2 < Nx`: the guards of `segmentation.slic`, `C11_slic_guards_imply_pre`), every pixel lies
inside the assignment window of at least one seed centroid — so in the first iteration every `nlabels[pos]` is overwritten with a
centroid index `< K` (a finite `D2` beats the initial `distance = 10e20`); `nlabels` is never reset afterwards, so `labels[p]`
stays in `[0, K)` and `centroid_counts[labels[pos]]`, `centroids[labels[pos]]`, `centroids[alabels.at(y,x)]` are valid. The seeds
themselves are inside the image and there is at least one (`C11_slic_seeds_nonempty_in_range`). -/
theorem C10_slic_first_iteration_covers (S ny nx : Nat) (hS : 1 ≤ S) (hy : S / 2 < ny) (hx : S / 2 < nx) :
    Mahotas.C10Slic.covered S ny nx = true ∧ 1 ≤ (Mahotas.C10Slic.seedCentroids S ny nx).length ∧
      ∀ c ∈ Mahotas.C10Slic.seedCentroids S ny nx, c.1 < ny ∧ c.2 < nx := by
  obtain ⟨ly, hly⟩ := Mahotas.slic_seeds_len S ny hy
  obtain ⟨lx, hlx⟩ := Mahotas.slic_seeds_len S nx hx
  refine ⟨Mahotas.C10Slic.covered_ok S ny nx hS hy hx, ?_, ?_⟩
  · simp only [Mahotas.C10Slic.seedCentroids, List.length_flatMap, List.length_map]
    obtain ⟨a, as, e⟩ := List.exists_cons_of_length_pos (show 0 < (Mahotas.C11.seeds S ny).length by omega)
    rw [e]; simp; omega
  · intro c hc
    simp only [Mahotas.C10Slic.seedCentroids, List.mem_flatMap, List.mem_map] at hc
    obtain ⟨y, hy', x, hx', rfl⟩ := hc
    exact ⟨hly y hy', hlx x hx'⟩

/-- the image smaller than `S/2` along an axis (the crash repaired by dbab495; now rejected by the wrapper): no centroid, nothing is
covered; a 14 × 20 image with `S = 16`: two centroids cover everything -/
example : Mahotas.C10Slic.covered 16 14 7 = false ∧ Mahotas.C10Slic.seedCentroids 16 14 7 = [] ∧
    Mahotas.C10Slic.covered 16 14 20 = true ∧ Mahotas.C10Slic.seedCentroids 16 14 20 = [(8, 8)] := by decide +kernel

/-- **C10, `_labeled.cpp: find` on ANY array.** If the parent pointers from cell `i` reach a root after `d` steps inside the array
(`C03.RootN par i r d`: the acyclicity/closedness fact) and `d < fuel`, the recursion of `find(data, i)` ends and every
`data[·]` it reads or writes (path compression) is a cell of the array. -/
theorem C10_find_in_bounds (fuel : Nat) (par : Array Int) (i r d : Nat) (h : Mahotas.C03.RootN par i r d) (hd : d < fuel) :
    (findAcc fuel par (i : Int)).2 = true ∧ inRange par.size (findAcc fuel par (i : Int)).1 = true := by
  obtain ⟨h1, h2⟩ := findAcc_ok fuel par i r d h hd
  exact ⟨h1, (inRange_iff _ _).mpr h2⟩

/-- non-vacuity: a chain 3 → 0 → 1 → 2 (root): four reads, three writes; a two-cycle never reaches a root (the recursion would
not end); a parent `-1` (a background mark used as an index) is dereferenced outside the array -/
example : findAcc 5 #[1, 2, 2, 0] 3 = ([3, 0, 1, 2, 1, 0, 3], true) ∧ (findAcc 9 #[1, 0] 0).2 = false ∧
    inRange 2 (findAcc 9 #[1, -1] 0).1 = false := by decide

/-- **C10, `_labeled.cpp: label` — the union–find array accesses (an invariant proof).** For EVERY image (any rank, any content,
`data.length` cells), every structuring element (any list of neighbour offsets `offs`, centre included or not) and both border
treatments of the filter iterator: during the scan loop (`join(data, i, arr_val)` for every retrieved neighbour value
`arr_val != -1`) and the compression loop (`compress(data, i)`), EVERY index dereferenced by `find` / `join` — each
`data[i]`, each `data[data[i]]` up the chain, each path-compression store `data[i] = j`, each root update `data[find i] = find j`
— is inside the `N` cells of the array, and no `find` recursion is deeper than `N + 1` calls (so the C++ recursion returns).
The reason is the invariant C03 proves (`C03.Inv`): at every moment each foreground cell holds the index of a foreground cell
from which the parent pointers reach a root without leaving the array (the neighbour VALUE `arr_val` handed to `join` is such a
parent index, never a raw label), each background cell holds `-1` and is never used as an index. The array the trace carries is
exactly `C03.parents` (the state C03's partition theorems are about), and at the end every cell holds `-1` or an index `< N`. -/
theorem C10_label_union_find_in_bounds (m : Mahotas.Mode) (shape : List Nat) (data : List Int) (offs : List (List Int)) :
    inRange data.length (labelUF m shape data offs (data.length + 1)).2.1 = true ∧
    (labelUF m shape data offs (data.length + 1)).2.2 = true ∧
    (labelUF m shape data offs (data.length + 1)).1 = Mahotas.C03.parents m shape data offs ∧
    ∀ i : Nat, (Mahotas.C03.parents m shape data offs).getD i (-1) = -1 ∨
      (0 ≤ (Mahotas.C03.parents m shape data offs).getD i (-1) ∧
        (Mahotas.C03.parents m shape data offs).getD i (-1) < (data.length : Int)) := by
  obtain ⟨⟨E, hE⟩, hr, ht⟩ := labelUF_good m shape data offs
  have hp := labelUF_parents m shape data offs
  refine ⟨(inRange_iff _ _).mpr hr, ht, hp, fun i => ?_⟩
  rw [hp] at hE
  exact inv_entries hE i

/-- non-vacuity: a 3×3 image with three components, cross neighbourhood (constant border): 38 dereferences, all inside the
9 cells; the parents afterwards -/
example : (labelUF Mahotas.Mode.constant [3, 3] [1, 1, 0, 0, 1, 0, 1, 0, 1] [[-1, 0], [0, -1], [0, 0], [0, 1], [1, 0]] 10).2.1.length = 38 ∧
    (labelUF Mahotas.Mode.constant [3, 3] [1, 1, 0, 0, 1, 0, 1, 0, 1] [[-1, 0], [0, -1], [0, 0], [0, 1], [1, 0]] 10).1 =
      #[4, 4, -1, -1, 4, -1, 6, -1, 8] := by decide +kernel

end Round4Labeled
-- ---------------------------------------------------------------------------------------------------------


/-! ## Round 4 — Flood: `_morph.cpp` flood/queue kernels (close_holes, regmin_max, locmin_max, distance_multi position_queue, subm, disk_2d, majority_filter) and the `_thin` full pass -/
section Round4Flood
open Mahotas.C10Flood
-- (theorems of this package go between this line and the `end`)

/-- **C10, `numpy::position_queue` (`numpypp/array.hpp`; used by `distance_multi`).** For every rank `size_ ≥ 1`, every compaction
constant `limit` (512 in the source) and EVERY sequence of `push` / `if (!empty()) top_pop()` (the protocol of the callers'
`while (!queue.empty())` loops): each `store_[next_*size_ + d]` read by `top()` is inside `store_`, and whenever `next_` reaches
the limit the erased range `[begin, begin + next_*size_)` lies inside `store_`; the vector always holds a whole number of
positions and `next_` never passes it (so the unsigned `size() = store_.size()/size_ - next_` does not wrap). -/
theorem C10_position_queue_in_bounds (limit sz : Nat) (hsz : 1 ≤ sz) (ops : List Bool) :
    vAllOk (qRun limit sz ops ⟨0, 0⟩).1 = true ∧
      ∃ m : Nat, (qRun limit sz ops ⟨0, 0⟩).2.1.len = m * sz ∧ (qRun limit sz ops ⟨0, 0⟩).2.1.next ≤ m :=
  qRun_ok limit sz hsz ops ⟨0, 0⟩ ⟨0, by simp, Nat.le_refl _⟩

/-- non-vacuity: rank 2, limit 3, four pushes and five guarded pops (the compaction happens at the third pop; the fifth pop finds
the queue empty): 4 × 2 reads + 1 erase; popping WITHOUT the `empty()` test reads past the vector -/
example : (qRun 3 2 [true, true, true, true, false, false, false, false, false] ⟨0, 0⟩) =
    ([⟨0, 8⟩, ⟨1, 8⟩, ⟨2, 8⟩, ⟨3, 8⟩, ⟨4, 8⟩, ⟨5, 8⟩, ⟨5, 8⟩, ⟨0, 2⟩, ⟨1, 2⟩], ⟨2, 1⟩, 4) ∧
    vAllOk (qTopPop 512 2 ⟨2, 1⟩).1 = false := by decide

/-- **C10, `numpy::position_stack` (`close_holes`, `remove_fake_regmin_max`).** For every rank `size_ ≥ 1` and every sequence of
`push` / `if (!empty()) top_pop()`: each `store_[store_.size() - size_ + d]` is inside `store_`; the vector always holds a whole
number of positions (so `end() - size_` is a valid iterator whenever the stack is not empty). -/
theorem C10_position_stack_in_bounds (sz : Nat) (hsz : 1 ≤ sz) (ops : List Bool) :
    vAllOk (sRun sz ops 0).1 = true ∧ ∃ m : Nat, (sRun sz ops 0).2.1 = m * sz :=
  sRun_ok sz hsz ops 0 ⟨0, by simp⟩

example : sRun 2 [true, true, false, false, false, true, false] 0 =
    ([⟨2, 4⟩, ⟨3, 4⟩, ⟨0, 2⟩, ⟨1, 2⟩, ⟨0, 2⟩, ⟨1, 2⟩], 0, 3) := by decide

/-- **C10, `close_holes`: the border seeding loops.** For EVERY 1-D and 2-D shape (zero-length axes included: the axis is skipped,
resp. `N/dim(d) = 0` iterations) every `ref.at(pos)` / `f.at(pos)` of the seeding — `pos[d] = 0`, `pos[d] = dim(d) - 1`, the other
coordinate advanced by the odometer `if (pos[j] < dim(j)) { ++pos[j]; break; }` — is inside the array. The odometer's test is `<`
where `< dim(j) - 1` would be needed to carry: for rank ≥ 3 it steps one past an axis (third conjunct: a `1 × 3 × 3` array is left);
the public `mahotas.close_holes` admits 2-D images only (`_check_2`, `C11_close_holes_safe`). -/
theorem C10_close_holes_seeding_in_bounds :
    (∀ n : Nat, pAllOk (chSeedAccesses [n]) = true) ∧ (∀ n0 n1 : Nat, pAllOk (chSeedAccesses [n0, n1]) = true) ∧
      pAllOk (chSeedAccesses [1, 3, 3]) = false :=
  ⟨chSeed_rank1, chSeed_rank2, by decide⟩

example : (chSeedAccesses [2, 3]).map (·.pos) =
    [[0, 0], [1, 0], [0, 1], [1, 1], [0, 2], [1, 2], [0, 0], [0, 2], [1, 0], [1, 2]] ∧ chSeedAccesses [0, 4] = [] := by decide


/-- **C10, `distance_multi`: the queue loop TERMINATES** (the item left open in round 3). For every shape (any rank), every image,
every list of deltas and every initial content of `res` (one cell per pixel: `same_shape(array, res)` is a native guard): a queue
entry is pushed only together with a store that strictly lowers a cell of `res` to a squared distance (a non-negative integer,
`*rpos > next_dist` ⇒ `*rpos = next_dist`), so `Σ max(res[p], 0)` drops by at least one per push and `while (!dist_q.empty())` ends
within `(pushes of the first phase) + Σ max(res[p], 0)` pops — with every budget at least that large the model's queue runs empty.
Together with `C10_distance_multi_in_bounds` (every dereference inside, for every budget) and `C10_position_queue_in_bounds`
(the queue's own index arithmetic) the kernel is covered; `neighbours_delta` still needs a non-empty neighbourhood
(`C10_distance_multi_needs_neighbour`). -/
theorem C10_distance_multi_terminates (shape : List Nat) (img : List Bool) (res : List Int) (deltas : List (List Int))
    (hlen : res.length = shapeSize shape) (fuel : Nat)
    (hf : (Mahotas.C10Misc.dmFirst true shape img deltas (List.range (shapeSize shape)) res).2.2.length +
      Mahotas.C10Misc.resMass (Mahotas.C10Misc.dmFirst true shape img deltas (List.range (shapeSize shape)) res).2.1 ≤ fuel) :
    (Mahotas.C10Misc.dmRun true shape img res deltas fuel).2.2 = true :=
  Mahotas.C10Misc.dmRun_terminates shape img res deltas hlen fuel hf

/-- non-vacuity: a 1×4 line with one background pixel, `res` = 100 everywhere, deltas ±1: budget 3 + 6 = 9 suffices (it ends after
3 pops); with budget 1 the queue is not yet empty -/
example : (Mahotas.C10Misc.dmRun true [1, 4] [false, true, true, true] [100, 100, 100, 100] [[0, -1], [0, 2]] 20).2 = ([0, 1, 4, 9], true) ∧
    (Mahotas.C10Misc.dmRun true [1, 4] [false, true, true, true] [100, 100, 100, 100] [[0, -1], [0, 2]] 1).2.2 = false := by
  decide +kernel

/-- **C10, the stack flood of `close_holes` and `remove_fake_regmin_max`: accesses AND termination.**
`while (!stack.empty()) { p = stack.top_pop(); for every neighbour delta: npos = p + delta; if (validposition(npos) && available(npos))
{ take(npos); stack.push(npos); } }` — the step is `C14.floodVisit`. For every shape (any rank), every neighbourhood, every
availability map and every initial stack: every position dereferenced is inside the array (all dereferences are behind
`validposition`), and — because a position is pushed exactly when its flag is cleared — the loop DRAINS the stack after at most
`stack length + number of available pixels` pops, and the stack never holds more positions than that. -/
theorem C10_stack_flood_in_bounds (shape : List Nat) (nb : List (List Int)) (fuel : Nat) (av : Array Bool)
    (st : List (List Int)) (hf : st.length + cntTrue av ≤ fuel) :
    pAllOk (floodRun shape nb fuel av st).1 = true ∧ (floodRun shape nb fuel av st).2.1 = true ∧
      (floodRun shape nb fuel av st).2.2.1 ≤ st.length + cntTrue av ∧
      (floodRun shape nb fuel av st).2.2.2.1 ≤ st.length + cntTrue av :=
  floodRun_ok shape nb fuel av st hf

/-- non-vacuity: a 3×3 map with two unavailable pixels, cross neighbourhood, seed (0,0): 6 pixels taken in 7 pops, the stack is
drained; with fuel 3 it is not -/
example :
    let av : Array Bool := #[false, true, true, true, false, true, true, true, false]
    let nb : List (List Int) := [[-1, 0], [0, -1], [0, 1], [1, 0]]
    ((floodRun [3, 3] nb 20 av [[0, 0]]).2.1, (floodRun [3, 3] nb 20 av [[0, 0]]).2.2.1,
      cntTrue (floodRun [3, 3] nb 20 av [[0, 0]]).2.2.2.2, (floodRun [3, 3] nb 3 av [[0, 0]]).2.1) = (true, 7, 0, false) := by
  decide


/-- **C10, `remove_fake_regmin_max` (behind `regmax` / `regmin`): the whole scan with its floods.** For every shape (any rank), every
neighbourhood, every initial marking (what `locmin_max` left in the zero-filled result) and EVERY outcome of the value tests on
the neighbours (`witness`): over all positions of the image in scan order — the iterator's positions, inside by construction
(`C10_unravel_inside`) — every `f.at(pos)`, every neighbour probe `regmin.at(npos)` / `f.at(npos)` (behind `validposition`), and
every dereference of every flood started at a marked pixel with a witness is inside the array, and EVERY flood drains its stack
(within `1 + #marked` pops: `C10_stack_flood_in_bounds`), so the function returns. -/
theorem C10_regmin_max_in_bounds (shape : List Nat) (nb : List (List Int)) (witness : List Int → Array Bool → Bool)
    (av : Array Bool) :
    pAllOk (regScan shape nb witness (allPos shape) av).1 = true ∧ (regScan shape nb witness (allPos shape) av).2.1 = true := by
  apply regScan_ok
  intro p hp
  simp only [allPos, List.mem_map, List.mem_range] at hp
  obtain ⟨i, hi, rfl⟩ := hp
  exact C10_unravel_inside shape i hi

/-- non-vacuity: a 2×3 plateau, all marked, the first pixel has a witness: one flood clears everything (6 probes + flood accesses) -/
example : (regScan [2, 3] [[-1, 0], [0, -1], [0, 1], [1, 0]] (fun p _ => p == [0, 0]) (allPos [2, 3])
    #[true, true, true, true, true, true]).2 = (true, #[false, false, false, false, false, false]) := by decide +kernel

/-- **C10, `close_holes` as `C14.closeHoles` runs it.** For every well-formed image (`data.size = ∏ shape`, any rank) and every
neighbourhood: the fuel `C14.closeHoles` passes to the flood (`size + #seeds + 1`) drains the stack — so the C14 correctness
theorems speak about a flood that has really ended — and every position the flood dereferences is inside the array. -/
theorem C10_close_holes_flood_terminates (ref : Img Int) (nb : List (List Int)) (hwf : ref.data.size = ref.size) :
    pAllOk (floodRun ref.shape nb (ref.size + (C14.chSeeds ref).length + 1) (C14.chAvail1 ref) (C14.chSeeds ref).reverse).1 = true ∧
      (floodRun ref.shape nb (ref.size + (C14.chSeeds ref).length + 1) (C14.chAvail1 ref) (C14.chSeeds ref).reverse).2.1 = true := by
  have hsz : ∀ (l : List (List Int)) (a : Array Bool),
      (l.foldl (fun a p => a.setIfInBounds (ravelI ref.shape p) false) a).size = a.size := by
    intro l
    induction l with
    | nil => intro a; rfl
    | cons p ps ih => intro a; simp only [List.foldl_cons]; rw [ih]; simp
  have h1 : (C14.chAvail1 ref).size = ref.size := by
    unfold C14.chAvail1
    rw [hsz]
    simp [C14.chAvail0, hwf]
  have h2 : cntTrue (C14.chAvail1 ref) ≤ ref.size := by
    rw [← h1]
    simp only [cntTrue]
    have := List.countP_le_length (p := id) (l := (C14.chAvail1 ref).toList)
    simpa using this
  have := floodRun_ok ref.shape nb (ref.size + (C14.chSeeds ref).length + 1) (C14.chAvail1 ref) (C14.chSeeds ref).reverse
    (by simp only [List.length_reverse]; omega)
  exact ⟨this.1, this.2.1⟩

end Round4Flood
-- ---------------------------------------------------------------------------------------------------------


/-! ## Round 4 — Feat: feature kernels (`_zernike` znl, SURF `compute_dominant_angle`, `_texture`, `_convex` entry point, `_histogram` otsu, `_interpolate` remaining pieces) -/
section Round4Feat
open Mahotas.C10Feat
-- (theorems of this package go between this line and the `end`)

/-- **C10, `_histogram.cpp: otsu(hist, n)`.** For EVERY `n` (0, 1 and negative included: no access, result 0) and every outcome of
the floating-point tests (`Hsum == 0`, `nB[T] == 0` → `continue`, `nO[T] == 0` → `break`, `sigma_between > best`): every `hist[i]`,
`nB[i]`, `nB[i-1]`, `nB[n-1]`, `nO[i]`, `nO[T-1]` is inside its `n` cells (`nB`, `nO` are `resize(n)`), and the threshold returned
is `0` for `n ≤ 1` and lies in `[0, n)` otherwise (a valid bin of the histogram). -/
theorem C10_otsu_in_bounds (n : Int) (hz : Bool) (nbz noz better : Nat → Bool) :
    allOk (otsuRun n hz nbz noz better).1 = true ∧
      (n ≤ 1 → (otsuRun n hz nbz noz better).2 = 0) ∧ (2 ≤ n → ((otsuRun n hz nbz noz better).2 : Int) < n) :=
  otsuRun_ok n hz nbz noz better

example : ((otsuRun 4 false (fun _ => false) (fun t => t == 3) (fun t => t == 2)).1.length,
           (otsuRun 4 false (fun _ => false) (fun t => t == 3) (fun t => t == 2)).2) = (53, 2) := by decide
/-- reading `nB[T-1]` for `T = 0` (a loop started at 0 instead of 1) would leave the vector -/
example : (FAcc.mk (0 - 1) 4).ok = false := by decide

/-- **C10, `_zernike.cpp: fact(k)`.** For every `k ≥ 0` the recursion `double(k) * fact(k-1)` ends (`max(0, k-12)` calls deep) at ONE
access `_factorialtable[k']` inside the table as extracted from the source (`Generated.factorialTable`, 13 entries). For `k < 0`
the recursion never reaches the table (`unsigned(k) ≥ 13`): no amount of fuel suffices — in C a stack overflow, reachable only
by calling `_zernike.znl` directly with `l > n` or `n < 0` (see `C11_znl_safe`). -/
theorem C10_znl_fact_in_bounds (k : Int) :
    (0 ≤ k → ∀ fuel : Nat, k < fuel → ∃ r, factRun fuel k = some r ∧ r.1.ok = true ∧ r.1.size = 13 ∧
        (r.2 : Int) = max 0 (k - 12)) ∧
    (k < 0 → ∀ fuel : Nat, factRun fuel k = none) := by
  refine ⟨fun h0 fuel hf => ?_, fun hk fuel => factRun_neg fuel k hk⟩
  obtain ⟨r, hr, hok, hd⟩ := factRun_nonneg fuel k h0 hf
  have hlen : factTableLen = 13 := by decide
  have hsz : ∀ (f : Nat) (k : Int) (r : FAcc × Nat), factRun f k = some r → r.1.size = factTableLen := by
    intro f
    induction f with
    | zero => intro k r h; simp [factRun] at h
    | succ f ih =>
      intro k r h
      simp only [factRun] at h
      split at h
      · simp only [Option.some.injEq] at h; subst h; rfl
      · simp only [Option.map_eq_some_iff] at h
        obtain ⟨q, hq, rfl⟩ := h
        exact ih _ q hq
  refine ⟨r, hr, ?_, by rw [hsz _ _ _ hr, hlen], by rw [hd, hlen]; rfl⟩
  simp only [FAcc.ok, Bool.and_eq_true, decide_eq_true_eq]
  exact hok

example : factRun 20 15 = some (⟨12, 13⟩, 3) ∧ factRun 20 0 = some (⟨0, 13⟩, 0) ∧ factRun 20 (-1) = none := by decide

/-- **C10, `_zernike.cpp: py_znl`.** For `0 ≤ l ≤ n` (what `zernike_moments` passes: `C11_zernike_loop_pre`), any parity of `n - l`,
`Nelems = SIZE(Da)` elements and arrays `Aa`, `Pa` with at least as many elements (the wrapper passes three arrays of one shape; the
entry point does not compare them): every `fact` call of the coefficient loop `m = 0 … (n-l)/2` comes back and reads inside the
factorial table, every `g_m[m]` is inside the `(n-l)/2 + 1` cells of the scratch array (filling loop and element loop), every
`D[i]`, `A[i]`, `P[i]` is inside its array. -/
theorem C10_znl_in_bounds (fuel : Nat) (n l : Int) (nd na np : Nat) (hl0 : 0 ≤ l) (hln : l ≤ n) (hn : n < fuel)
    (ha : nd ≤ na) (hp : nd ≤ np) :
    allOk (znlRun fuel n l nd na np).1 = true ∧ (znlRun fuel n l nd na np).2 = true :=
  znlRun_ok fuel n l nd na np hl0 hln hn ha hp

example : (znlRun 100 8 2 3 3 3).2 = true ∧ allOk (znlRun 100 8 2 3 3 3).1 = true ∧ (znlRun 100 8 2 3 3 3).1.length = 41 := by decide
/-- `n < 0` (direct call only): `fact(-1)` does not come back; a shorter `Pa`: `P[i]` leaves the array -/
example : (znlRun 20 (-1) 0 1 1 1).2 = false ∧ allOk (znlRun 20 4 2 3 3 2).1 = false := by decide

/-- **C10, the paired scans `_labeled.cpp: is_same_labeling` and `_morph.cpp: subm`.** `for (p = 0; p < N; ++p) … a[p] … b[p] …` with
`N` = the size of the FIRST array: the complete scan stays inside both buffers IF AND ONLY IF the second array has at least `N`
elements — `subm` checks `same_shape(a, b)` itself; `is_same_labeling` has NO native size test and relies on the wrapper's
`labeled0.shape != labeled1.shape → return False`. With enough elements every prefix of the scan (the early `return false` of
`is_same_labeling`) is inside as well. -/
theorem C10_pair_scan_in_bounds (na nb : Nat) :
    (allOk (pairScan na nb none) = true ↔ na ≤ nb) ∧
    (na ≤ nb → ∀ stop : Option Nat, allOk (pairScan na nb stop) = true) :=
  ⟨pairScan_ok_iff na nb, fun h stop => pairScan_ok na nb stop h⟩

example : allOk (pairScan 4 4 none) = true ∧ allOk (pairScan 4 3 none) = false ∧ (pairScan 4 3 (some 1)).length = 4 := by decide

/-- **C10, `_morph.cpp: py_disk_2d`.** For every `N0 × N1` C-contiguous bool array (zero-length axes included) and EVERY `radius`
(also values whose square wraps in `int`: the comparison then merely selects other cells): each store `*iter = true` is at
offset `x0*N1 + x1` inside the `N0*N1` cells. -/
theorem C10_disk_2d_in_bounds (n0 n1 : Nat) (radius : Int) : allOk (diskStores n0 n1 radius) = true :=
  diskStores_ok n0 n1 radius

example : (diskStores 5 5 2).map (·.i) = [6, 7, 8, 11, 12, 13, 16, 17, 18] ∧ diskStores 0 7 3 = [] := by decide


/-- **C10, `_interpolate.cpp`: the small tables of the spline code** (the pieces left open after round 2). `init_poles`: for the orders
2…5 every `pole[pi]` (`pi < npoles ≤ 2`, the stores and both loops over the poles) is inside `FT pole[2]`; every other order throws
before any access. `spline_coefficients`: for EVERY `order` the stores `result[hh]`, `hh ≤ order`, are inside the `order + 1` cells the
caller has `resize`d (`order < 0`: no store). -/
theorem C10_interpolate_small_tables_in_bounds (order : Int) :
    (∀ l, polesAccesses order = some l → allOk l = true) ∧ (polesAccesses order = none ↔ order < 2 ∨ 5 < order) ∧
      allOk (splineCoeffStores order) = true := by
  refine ⟨polesAccesses_ok order, ?_, splineCoeffStores_ok order⟩
  unfold polesAccesses
  split_ifs with h1 h2 <;> simp <;> omega

example : polesAccesses 4 = some [⟨0, 2⟩, ⟨1, 2⟩, ⟨0, 2⟩, ⟨1, 2⟩] ∧ polesAccesses 6 = none ∧
    (splineCoeffStores 3).map (·.i) = [0, 1, 2, 3] ∧ (FAcc.mk 2 2).ok = false := by decide

/-- **C10 (B9), SURF `compute_dominant_angle`: the window over the sorted samples** (the item left open in round 3). For every
number of samples `Nsamples ≥ 1` and EVERY outcome of `between_angles` (any angles, NaN included): `samples[0]`, every
`samples[j]` of the first loop (`j != Nsamples` tested first), every `samples[i]`, `samples[j]` of the update loop — where `j`
advances circularly (`++j; if (j == Nsamples) j = 0`) — is inside the vector; each `while (j != i && …)` ends within `Nsamples`
rounds (the circular distance from `j` to `i` decreases), so the function returns; after a non-early return `j < Nsamples`.
The sampling loops always collect exactly 109 samples (`r*r + c*c < 36`, `-6 ≤ r, c ≤ 6`). -/
theorem C10_surf_dominant_angle_in_bounds (ns : Nat) (btw : Nat → Nat → Bool) (hns : 1 ≤ ns) :
    allOk (angleRun ns btw).1 = true ∧ (angleRun ns btw).2.2.2 = true ∧
      ((angleRun ns btw).2.1 = false → (angleRun ns btw).2.2.1 < ns) ∧ angleSampleCount = 109 := by
  obtain ⟨h1, h2, h3⟩ := angleRun_ok ns btw hns
  exact ⟨h1, h2, h3, by decide⟩

/-- non-vacuity: 4 samples, every pair "between": the first loop takes everything (early return); nothing between: the update loop
runs with `j` parked; all but one: `j` wraps around; an empty sample vector (impossible: 109) would make `samples[0]` leave it -/
example : (angleRun 4 (fun _ _ => true)).2.1 = true ∧ (angleRun 4 (fun _ _ => false)).2 = (false, 1, true) ∧
    (angleRun 4 (fun i j => !(i == 0 && j == 3))).2 = (false, 3, true) ∧ allOk (angleRun 0 (fun _ _ => false)).1 = false := by decide

end Round4Feat
-- ---------------------------------------------------------------------------------------------------------


/-! ## Round 4 — Conv: `_convolve.cpp` (convolve, rank_filter, mean_filter, template_match, daubechies coefficient tables)  -/
section Round4Conv
open Mahotas.C10Conv
-- (theorems of this package go between this line and the `end`)

/-- **C10, `_convolve.cpp: rank_filter` — the scratch vector `n_data` (`resize(N2)`).** For every footprint size `N2`, every
`rank` with `0 ≤ rank < N2` (what `_check_rank` guarantees: `C11_rank_guards_imply_pre`; outside that range the kernel returns before
any access), every border mode and EVERY outcome of the `N2` `retrieve` calls of a pixel: each store `neighbours[n++]` and the read
`neighbours[currank]` is inside the `N2` cells; the final count satisfies `0 ≤ n ≤ N2` (`= N2` in constant mode);
`0 ≤ currank ≤ n`, so `std::nth_element(neighbours, neighbours + currank, neighbours + n)` gets a valid range; and whenever at
least one neighbour was retrieved `currank < n`: the value written to the result was stored for THIS pixel. (Only for `n = 0` —
`ignore` mode with a footprint that misses the image entirely — `neighbours[0]` is a value-initialised or stale cell of the
vector: defined memory, see `C08_rank_filter_ignore_stale_witness`.) -/
theorem C10_rank_filter_in_bounds (n2 rank : Int) (isConst : Bool) (retr : List Bool) (hlen : (retr.length : Int) = n2)
    (hr0 : 0 ≤ rank) (hr : rank < n2) :
    allOk (rankPixelAccesses n2 rank isConst retr) = true ∧
    0 ≤ (rankStores isConst retr 0).2 ∧ (rankStores isConst retr 0).2 ≤ n2 ∧
    (isConst = true → (rankStores isConst retr 0).2 = n2) ∧
    0 ≤ curRank n2 (rankStores isConst retr 0).2 rank ∧
    curRank n2 (rankStores isConst retr 0).2 rank ≤ (rankStores isConst retr 0).2 ∧
    (0 < (rankStores isConst retr 0).2 → curRank n2 (rankStores isConst retr 0).2 rank < (rankStores isConst retr 0).2) := by
  obtain ⟨h1, h2, h3, h4⟩ := rankStores_spec isConst retr 0
  have hn : (rankStores isConst retr 0).2 ≤ n2 := by omega
  obtain ⟨c1, c2, c3, c4⟩ := curRank_spec n2 _ rank hr0 hr h1 hn
  refine ⟨?_, h1, hn, fun hc => by have := h4 hc; omega, c1, c2, c4⟩
  rw [Mahotas.C10Conv.allOk_iff]
  intro a ha
  simp only [rankPixelAccesses] at ha
  rw [if_neg (by omega)] at ha
  simp only [List.mem_append, List.mem_map, List.mem_singleton] at ha
  rcases ha with ⟨i, hi, rfl⟩ | rfl
  · have := h3 i hi; simp only; omega
  · exact ⟨c1, c3⟩

/-- non-vacuity: a 5-cell footprint, `ignore` mode, two neighbours outside the image, rank 2 (the median): three stores at 0, 1, 2,
`currank = 3*2/5 = 1`; with `rank = 5` nothing is accessed; over a vector of 2 cells the third store would be outside -/
example : rankPixelAccesses 5 2 false [true, false, true, true, false] = [⟨0, 5⟩, ⟨1, 5⟩, ⟨2, 5⟩, ⟨1, 5⟩] ∧
    rankPixelAccesses 5 5 false [true, false, true, true, false] = [] ∧
    allOk ((rankStores false [true, true, true] 0).1.map (fun i => CAcc.mk i 2)) = false := by decide


/-- **C10, `py_daubechies` / `py_idaubechies`: the coefficient table selected by `dcoeffs(code)`.** For EVERY `int code`: the entry point
goes on exactly for `0 ≤ code ≤ 9` (otherwise `dcoeffs` sets an error and the entry point returns), and then every
`coeffs[j]`, `j < ncoeffs = 2*(code+1)`, of `wavelet` / `iwavelet` is inside the table the `switch` selected — the ten tables as
extracted from the current source have exactly `2*(code+1)` entries (so `nc` of `C10_wavelet_in_bounds` is the table length). -/
theorem C10_daubechies_tables_in_bounds (code : Int) :
    (daubCoeffReads code = none ↔ code < 0 ∨ 9 < code) ∧ ∀ l, daubCoeffReads code = some l → Mahotas.C10Conv.allOk l = true := by
  have hlen : Mahotas.Generated.dcoeffs.length = 10 := by decide
  have htab : ∀ c : Nat, c < 10 → (Mahotas.Generated.dcoeffs.getD c []).length = 2 * (c + 1) := by decide
  have h10 : (Int.ofNat 10 : Int) = 10 := rfl
  unfold daubCoeffReads
  rw [hlen, h10]
  constructor
  · split <;> simp <;> omega
  · intro l h
    split at h
    · rename_i hc
      simp only [Option.some.injEq] at h
      subst h
      rw [Mahotas.C10Conv.allOk_iff]
      intro a ha
      simp only [List.mem_map, List.mem_range, Int.ofNat_eq_natCast] at ha
      obtain ⟨j, hj, rfl⟩ := ha
      have := htab code.toNat (by omega)
      simp only
      rw [this]
      push_cast
      omega
    · simp at h

example : (daubCoeffReads 1).map (fun l => l.map (·.i)) = some [0, 1, 2, 3] ∧ daubCoeffReads 10 = none ∧ daubCoeffReads (-1) = none := by
  decide

/-- **C10, `rank_filter`: the rank test in front of the loop is necessary.** Without `rank >= N2` rejected, `rank = N2` with every
neighbour retrieved reads `neighbours[N2]`, one past the vector, for every footprint size. -/
theorem C10_rank_filter_needs_rank_guard (n2 : Int) : (CAcc.mk (curRank n2 n2 n2) n2).ok = false := by
  simp [curRank, CAcc.ok]

end Round4Conv
-- ---------------------------------------------------------------------------------------------------------


/-! ## Round 4 — Alloc: result buffers: write sets of the kernels whose result is allocated uninitialised -/
section Round4Alloc
open Mahotas.C10Alloc
-- (theorems of this package go between this line and the `end`)

/-- **C10, uninitialised results — `std::fill` / `fill_n` / `PyArray_FILLWBYTE` / `a.fill(v)` / `a[...] = v`.** For every size `n`:
every store is inside the buffer and EVERY cell `0 … n-1` is stored (so nothing of what the allocation left in the buffer survives). -/
theorem C10_alloc_fill_defined (n : Nat) : within n (fillWrites n) = true ∧ covers n (fillWrites n) = true := by
  rw [within_iff, covers_iff]
  exact ⟨fun i hi => (mem_fillWrites n i).mp hi, fun i hi => (mem_fillWrites n i).mpr ⟨by omega, by omega⟩⟩

example : fillWrites 3 = [0, 1, 2] ∧ covers 4 (fillWrites 3) = false := by decide

/-- **C10, uninitialised results — the pixel loop** (`convolve`, `rank_filter`, `mean_filter`, `template_match`, `erode`,
`zoom_shift`'s output iterator, `fast_hitmiss`, the footprint copy of `filter_iterator`, `hitmiss`'s cursor): a pointer that starts at
cell 0, ONE unconditional store per iteration, advanced once per iteration, `N` iterations. For every `N`: all stores inside the
buffer of `N` cells, and every cell stored. -/
theorem C10_alloc_pixel_loop_defined (n : Nat) : within n (pixelWrites n) = true ∧ covers n (pixelWrites n) = true := by
  rw [within_iff, covers_iff]
  exact ⟨fun i hi => (mem_pixelWrites n i).mp hi, fun i hi => (mem_pixelWrites n i).mpr ⟨by omega, by omega⟩⟩

example : pixelWrites 4 = [0, 1, 2, 3] := by decide
/-- a pixel loop that skips the store in one iteration (a `continue` in front of `*rpos = …`) leaves a cell undefined -/
example : covers 4 ((pixelWrites 4).erase 2) = false := by decide

/-- **C10, uninitialised results — row/column loops over a C-contiguous 2-D result** (`convolve1d` fast path into `out` / the
`np.empty` scratch `tmp`, `gaussian_filter`): for all `N0`, `N1` every `y*N1 + x` is inside the `N0*N1` cells and every cell is stored. -/
theorem C10_alloc_rows_defined (n0 n1 : Nat) :
    within (n0 * n1) (rowsWrites n0 n1) = true ∧ covers (n0 * n1) (rowsWrites n0 n1) = true := by
  rw [within_iff, covers_iff]
  exact ⟨grid_within n0 n1, grid_covers n0 n1⟩

example : rowsWrites 2 3 = [0, 1, 2, 3, 4, 5] := by decide

/-- **C10, `_convex.cpp: convexhull`.** The `(h, 2)` result of `PyArray_SimpleNew` is filled by `*oiter++ = y; *oiter++ = x` for
`i < h`: for every hull size `h` (0 included: an empty result has no cell) all stores are inside the `2h` cells and every cell is stored. -/
theorem C10_alloc_convexhull_output_defined (h : Nat) :
    within (h * 2) (pairsWrites h) = true ∧ covers (h * 2) (pairsWrites h) = true := by
  rw [within_iff, covers_iff]
  refine ⟨fun i hi => ?_, fun i hi => ?_⟩
  · have := (mem_pairsGo h 0 i).mp hi; push_cast; omega
  · exact (mem_pairsGo h 0 i).mpr ⟨by omega, by omega⟩

example : pairsWrites 2 = [0, 1, 2, 3] ∧ pairsWrites 0 = [] := by decide

/-- **C10, `_surf.cpp`: the point arrays returned by `surf`, `descriptors`, `interest_points`.** `new_array<double>(n, k)` followed by
`points[i].dump(arr.data(i))` for `i < n`, where `dump` stores `out[0 … k-1]`: for every `n`, `k` all stores are inside the `n*k` cells
and every cell is stored. -/
theorem C10_alloc_surf_records_defined (n k : Nat) :
    within (n * k) (recordsWrites n k) = true ∧ covers (n * k) (recordsWrites n k) = true := by
  rw [within_iff, covers_iff]
  exact ⟨grid_within n k, grid_covers n k⟩

example : recordsWrites 2 5 = [0, 1, 2, 3, 4, 5, 6, 7, 8, 9] := by decide

/-- **C10, `_bbox.cpp: py_bbox` / `py_bbox_labeled`.** The `2*nd` cells (`bbox_labeled`: `osize = 2*nd*(n+1)` cells, `j < osize/2`)
are stored by `extrema_v[2*j] = …; extrema_v[2*j+1] = 0` before the scan only reads-modifies them: for every `nd`, inside and complete. -/
theorem C10_alloc_bbox_extrema_defined (nd : Nat) :
    within (2 * nd) (bboxInitWrites nd) = true ∧ covers (2 * nd) (bboxInitWrites nd) = true := by
  rw [within_iff, covers_iff]
  refine ⟨fun i hi => ?_, fun i hi => ?_⟩
  · obtain ⟨j, hj, h | h⟩ := (mem_bboxInit nd i).mp hi <;> (push_cast; omega)
  · exact (mem_bboxInit nd i).mpr ⟨i / 2, by omega, by omega⟩

example : bboxInitWrites 2 = [0, 1, 2, 3] := by decide
/-- an odd `osize` would leave the last cell of the labeled output undefined (`labeled.py` allocates `f.ndim * 2 * (n+1)`: even) -/
example : covers 5 (bboxInitWrites (5 / 2)) = false := by decide

/-- **C10, `zernike.py: An = np.empty(…, complex128); An.real = …; An.imag = …`**: seen as `2n` doubles every cell is stored. -/
theorem C10_alloc_complex_halves_defined (n : Nat) :
    within (2 * n) (complexHalvesWrites n) = true ∧ covers (2 * n) (complexHalvesWrites n) = true := by
  rw [within_iff, covers_iff]
  refine ⟨fun i hi => ?_, fun i hi => ?_⟩
  · obtain ⟨j, hj, h | h⟩ := (mem_complexHalves n i).mp hi <;> (push_cast; omega)
  · exact (mem_complexHalves n i).mpr ⟨i / 2, by omega, by omega⟩

example : complexHalvesWrites 2 = [0, 2, 1, 3] := by decide

/-- **C10, `_filters.h: filter_iterator(…, compress = true)`.** `new_filter_data = new T[size_]` with `size_` = the number of non-zero
filter cells (what `init_filter_offsets` counts from `footprint[i] = !!filter[i]`), stored by `if (*fiter) new_filter_data[j++] = *fiter`:
for EVERY filter content the stores are inside the `size_` cells and every cell is stored (the kernels index `filter[j]`, `j < size_`). -/
theorem C10_alloc_filter_compress_defined (mask : List Bool) :
    within (compressSize mask) (compressWrites mask) = true ∧ covers (compressSize mask) (compressWrites mask) = true := by
  rw [within_iff, covers_iff]
  refine ⟨fun i hi => ?_, fun i hi => ?_⟩
  · have := (mem_compressGo mask 0 i).mp hi; simp only [compressSize]; omega
  · exact (mem_compressGo mask 0 i).mpr ⟨by omega, by simp only [compressSize] at hi; omega⟩

example : compressWrites [true, false, true, true, false] = [0, 1, 2] ∧ compressSize [true, false, true, true, false] = 3 := by decide
example : compressWrites [false, false] = [] ∧ compressSize [false, false] = 0 := by decide

/-- **C10, `_zernike.cpp: py_znl`, the scratch `g_m = new double[int((n-l)/2) + 1]`.** For ALL ints `n`, `l` (C division truncating
towards zero): every `g_m[m]` of the filling loop `m = 0 … (n-l)/2` is inside the allocation, every cell is stored, and every `g_m[m]`
the element loop reads was stored. (For `n - l ≤ -2` the allocation size is `≤ 0` and both loops run zero times.) -/
theorem C10_alloc_znl_gm_defined (n l : Int) :
    within (gmSize n l).toNat (gmIndices n l) = true ∧ covers (gmSize n l).toNat (gmIndices n l) = true ∧
      readsDefined (gmIndices n l) (gmIndices n l) = true := by
  rw [within_iff, covers_iff, readsDefined_iff]
  refine ⟨fun i hi => ?_, fun i hi => ?_, fun i hi => hi⟩
  · have := (mem_gmIndices n l i).mp hi; omega
  · exact (mem_gmIndices n l i).mpr ⟨by omega, by omega⟩

example : gmIndices 8 2 = [0, 1, 2, 3] ∧ gmSize 8 2 = 4 ∧ gmIndices 3 7 = [] := by decide

/-- **C10, `thin.py: imagebuf = np.empty((r+2, c+2), bool)`** (scratch of `_thin.thin`): in every round `fast_hitmiss` stores
`*output++` once per input byte, BEFORE the clearing loop reads `*pb` for `j < N`: all stores/reads inside, every cell stored,
every cell read was stored in the same round. -/
theorem C10_alloc_thin_buffer_defined (n : Nat) :
    within n (hitmissBufRound n).1 = true ∧ covers n (hitmissBufRound n).1 = true ∧
      within n (hitmissBufRound n).2 = true ∧ readsDefined (hitmissBufRound n).1 (hitmissBufRound n).2 = true := by
  refine ⟨(C10_alloc_pixel_loop_defined n).1, (C10_alloc_pixel_loop_defined n).2, (C10_alloc_pixel_loop_defined n).1, ?_⟩
  rw [readsDefined_iff]; exact fun i hi => hi


/-- **C10, `_distance.cpp: dist_transform` — the scratch arrays `v = new int[n]`, `z = new double[n+1]` of `py_dt` are never read before
they are written.** With the two float tests as arbitrary oracles subject to the same two facts as `C10_dist_transform_in_bounds`
((i) `s > z[0] = -inf` succeeds: no NaN; (ii) the sentinel `z[kfin+1] = +inf` is never `< q`): every `v[k]`, `z[k]` read by the
do-while of the first loop and every `z[k+1]`, `v[k]` read by the second loop addresses a cell that an earlier statement of the SAME
call has stored (`v[0]`, `z[0]`, `z[1]` at the start; `v[k]`, `z[k]`, `z[k+1]` after every `++k`; cells above the current `k` keep earlier
stores of this call), for every line length and every outcome of the comparisons; and the do-while always leaves through `break`.
(`Df[q]`, `ot[q]` are stored for every `q < n` by the second loop before the third loop reads them: the pixel-loop shape.) -/
theorem C10_alloc_dt_scratch_defined (cmp lt2 : Nat → Nat → Bool) (n : Nat) (hcmp : ∀ q, cmp q 0 = true)
    (hlt : ∀ q, lt2 q (dtKfin cmp n) = false) :
    (dtScratchReads cmp lt2 n).1.all DRead.ok = true ∧ (dtScratchReads cmp lt2 n).2.isSome = true := by
  obtain ⟨h1, h2⟩ := dtScratchReads_ok cmp lt2 n hcmp hlt
  exact ⟨(dOk_iff _).mpr h1, h2⟩

/-- non-vacuity: `n = 4`, never pop (`k` grows to 3), the second loop advances while `k < 3`: 17 reads, all of stored cells; a
second loop that ignores the sentinel (`lt2` always true) reads `z[5]`, which nobody stored -/
example : dtKfin (fun _ _ => true) 4 = 3 ∧ (dtScratchReads (fun _ _ => true) (fun _ k => decide (k < 3)) 4).1.length = 17 ∧
    (dtScratchReads (fun _ _ => true) (fun _ k => decide (k < 3)) 4).1.all DRead.ok = true ∧
    (dtScratchReads (fun _ _ => true) (fun _ _ => true) 4).1.all DRead.ok = false := by decide

/-- **C10, `majority_filter` (and `find2d`): fill, then window stores.** `PyArray_FILLWBYTE(res_a, 0)` stores every cell; the
stores of the window loops `output.data() + (y + N/2)*cols + N/2 + x` (`y < rows-N`, `x < cols-N`, taken only when `rows, cols ≥ N`)
stay inside the `rows*cols` cells, for every size and every window `N` (even, zero and larger than the image included). -/
theorem C10_alloc_window_defined (rows cols win : Nat) :
    within (rows * cols) (windowWrites rows cols win) = true ∧ covers (rows * cols) (windowWrites rows cols win) = true := by
  rw [within_iff, covers_iff]
  refine ⟨fun i hi => ?_, fun i hi => ?_⟩
  · simp only [windowWrites, List.mem_append] at hi
    rcases hi with hi | hi
    · exact (mem_fillWrites _ i).mp hi
    · split at hi
      · simp at hi
      · rename_i hw
        simp only [List.mem_flatMap, List.mem_map, List.mem_range, Int.ofNat_eq_natCast] at hi
        obtain ⟨y, hy, x, hx, rfl⟩ := hi
        have h1 : y + win / 2 < rows := by omega
        have h2 : win / 2 + x < cols := by omega
        have := grid_lt rows cols (y + win / 2) (win / 2 + x) h1 h2
        push_cast at this ⊢
        constructor
        · positivity
        · linarith
  · simp only [windowWrites, List.mem_append]
    exact Or.inl ((mem_fillWrites _ i).mpr ⟨by omega, by exact_mod_cast hi⟩)

example : windowWrites 4 4 3 = (fillWrites 16) ++ [5] := by decide
example : windowWrites 2 5 3 = fillWrites 10 := by decide

/-- one row of the cover: an allocation site of uninitialised memory (`file`, enclosing `fn`, variable, ordinal), the loop shape that
fills the buffer (`mech`, with the source text in `how`), the theorems of this file about that shape and about the kernel's index
arithmetic, and whether "every cell stored before it is read/returned" is PROVED for the shape (`false`: validated only, by the
two-heap-fillings sweep of `harness/props/c10.py`). -/
structure AllocCover where
  file : String
  fn : String
  var : String
  ord : Nat
  mech : String
  how : String
  thms : List Lean.Name
  proved : Bool

/-- the hand-written cover of `Generated.allocSiteTable` (regenerated from the sources on every run) -/
def allocCover : List AllocCover := [
  ⟨"_bbox.cpp", "py_bbox", "extrema", 0, "bboxinit", "for j != nd: extrema_v[2*j] = DIM(j); extrema_v[2*j+1] = 0 right after the allocation", [``C10_alloc_bbox_extrema_defined, ``C10_bbox_in_bounds], true⟩,
  ⟨"_center_of_mass.cpp", "py_center_of_mass", "centers", 0, "fill", "std::fill(centers_v, centers_v + dims[0], 0) before the kernel", [``C10_alloc_fill_defined, ``C10_center_of_mass_in_bounds], true⟩,
  ⟨"_center_of_mass.cpp", "py_center_of_mass", "totals", 0, "fill", "std::fill(totals, totals + max_label + 1, 0.0) right after new[]", [``C10_alloc_fill_defined], true⟩,
  ⟨"_convex.cpp", "convexhull", "output", 0, "pairs", "for i != h: *oiter++ = P[i].y; *oiter++ = P[i].x into the (h,2) result", [``C10_alloc_convexhull_output_defined, ``C10_graham_in_bounds], true⟩,
  ⟨"_convolve.cpp", "py_convolve", "output", 0, "pixel", "convolve<T>: one store *rpos per iteration of the pixel loop", [``C10_alloc_pixel_loop_defined], true⟩,
  ⟨"_distance.cpp", "py_dt", "z", 0, "dtscratch", "dist_transform stores z[0], z[1] first and z[k], z[k+1] after every ++k; every z[k] / z[k+1] read is at or below the watermark", [``C10_alloc_dt_scratch_defined, ``C10_dist_transform_in_bounds], true⟩,
  ⟨"_distance.cpp", "py_dt", "v", 0, "dtscratch", "dist_transform stores v[0] first and v[k] after every ++k; every v[k] read is below the watermark", [``C10_alloc_dt_scratch_defined, ``C10_dist_transform_in_bounds], true⟩,
  ⟨"_distance.cpp", "py_dt", "ot", 0, "pixel", "second loop: ot[q] = … for every q < n (one store per iteration), third loop reads ot[q] for q < n", [``C10_alloc_pixel_loop_defined, ``C10_alloc_thin_buffer_defined, ``C10_dist_transform_in_bounds], true⟩,
  ⟨"_distance.cpp", "py_dt", "Df", 0, "pixel", "second loop: Df[q] = … for every q < n (one store per iteration), third loop reads Df[q] for q < n", [``C10_alloc_pixel_loop_defined, ``C10_alloc_thin_buffer_defined, ``C10_dist_transform_in_bounds], true⟩,
  ⟨"_morph.cpp", "py_close_holes", "res_a", 0, "fill", "close_holes starts with std::fill_n(f.data(), f.size(), false)", [``C10_alloc_fill_defined], true⟩,
  ⟨"_surf.cpp", "build_pyramid", "pyramid", 0, "fill", "PyArray_FILLWBYTE(pyramid[o].raw_array(), 0) right after new_array", [``C10_alloc_fill_defined, ``C10_surf_pyramid_in_bounds], true⟩,
  ⟨"_surf.cpp", "py_surf", "arr", 0, "records", "for i: spoints[i].dump(arr.data(i)) stores all ndoubles cells of row i", [``C10_alloc_surf_records_defined], true⟩,
  ⟨"_surf.cpp", "py_descriptors", "arr", 0, "records", "for i: spoints[i].dump(arr.data(i))", [``C10_alloc_surf_records_defined], true⟩,
  ⟨"_surf.cpp", "py_interest_points", "arr", 0, "records", "for i: interest_points[i].dump(arr.data(i))", [``C10_alloc_surf_records_defined], true⟩,
  ⟨"_zernike.cpp", "py_znl", "g_m", 0, "gm", "for m <= (n-l)/2: g_m[m] = … before the element loop reads g_m[m] over the same range", [``C10_alloc_znl_gm_defined], true⟩,
  ⟨"_filters.h", "filter_iterator", "footprint", 0, "pixel", "for i != filter_size: footprint[i] = !!(*fiter)", [``C10_alloc_pixel_loop_defined], true⟩,
  ⟨"_filters.h", "filter_iterator", "new_filter_data", 0, "compress", "j = 0; for i: if (*fiter) new_filter_data[j++] = *fiter into new T[size_]", [``C10_alloc_filter_compress_defined], true⟩,
  ⟨"array.hpp", "new_array", "?", 0, "helper", "numpy::new_array: the allocation helper itself; its call sites are the four _surf.cpp rows", [``C10_alloc_surf_records_defined, ``C10_alloc_fill_defined], true⟩,
  ⟨"array.hpp", "array_like", "return", 0, "helper", "numpy::array_like: allocation helper without a call site in the current sources", [], true⟩,
  ⟨"convolve.py", "convolve", "output", 0, "pixel", "_convolve.convolve pixel loop", [``C10_alloc_pixel_loop_defined], true⟩,
  ⟨"convolve.py", "convolve1d", "out", 0, "rows", "native fast path: result.data(y)[x] for every row and column (C06 fastwrites); other axes: generic convolve pixel loop", [``C10_alloc_rows_defined, ``C10_alloc_pixel_loop_defined, ``C10_convolve1d_in_bounds], true⟩,
  ⟨"convolve.py", "convolve1d", "tmp", 0, "rows", "native fast path writes every column of every row of tmp before out[...] = tmp…", [``C10_alloc_rows_defined, ``C10_convolve1d_in_bounds], true⟩,
  ⟨"convolve.py", "median_filter", "output", 0, "pixel", "rank_filter pixel loop (rank in range by _check_rank: C11_rank_guards_imply_pre)", [``C10_alloc_pixel_loop_defined, ``C10_rank_filter_in_bounds], true⟩,
  ⟨"convolve.py", "mean_filter", "out", 0, "pixel", "mean_filter pixel loop", [``C10_alloc_pixel_loop_defined], true⟩,
  ⟨"convolve.py", "rank_filter", "output", 0, "pixel", "rank_filter pixel loop (rank in range by _check_rank: C11_rank_guards_imply_pre)", [``C10_alloc_pixel_loop_defined, ``C10_rank_filter_in_bounds], true⟩,
  ⟨"convolve.py", "template_match", "output", 0, "pixel", "template_match pixel loop", [``C10_alloc_pixel_loop_defined], true⟩,
  ⟨"convolve.py", "find", "out", 0, "window", "find2d: std::fill(rpos, rpos + N0*N1, false) before the window loops", [``C10_alloc_fill_defined, ``C10_find2d_in_bounds], true⟩,
  ⟨"convolve.py", "gaussian_filter", "output", 0, "rows", "filled by convolve1d (fast path rows / generic pixel loop) per axis", [``C10_alloc_rows_defined, ``C10_alloc_pixel_loop_defined], true⟩,
  ⟨"features/texture.py", "haralick", "cmat", 0, "fill", "cooccurence(f, dir, cmat, …) executes output.fill(0) before the kernel", [``C10_alloc_fill_defined, ``C10_cooccurence_in_bounds], true⟩,
  ⟨"features/texture.py", "haralick_features", "px_plus_y", 0, "fill", "px_plus_y.fill(0) before _texture.compute_plus_minus (which only adds)", [``C10_alloc_fill_defined, ``C10_compute_plus_minus_in_bounds], true⟩,
  ⟨"features/texture.py", "haralick_features", "px_minus_y", 0, "fill", "px_minus_y.fill(0) before _texture.compute_plus_minus", [``C10_alloc_fill_defined, ``C10_compute_plus_minus_in_bounds], true⟩,
  ⟨"features/zernike.py", "zernike_moments", "An", 0, "complexhalves", "An.real = Xn/Dn; An.imag = Yn/Dn", [``C10_alloc_complex_halves_defined], true⟩,
  ⟨"internal.py", "_get_output", "return", 0, "helper", "np.empty(array.shape, dtype) of _get_output: handed to the callers listed as get_output rows", [], true⟩,
  ⟨"interpolate.py", "spline_filter1d", "output", 0, "fill", "output[...] = array before the in-place kernel", [``C10_alloc_fill_defined, ``C10_spline_filter1d_in_bounds], true⟩,
  ⟨"interpolate.py", "spline_filter", "output", 0, "fill", "output[...] = array before the in-place kernel", [``C10_alloc_fill_defined, ``C10_spline_filter1d_in_bounds], true⟩,
  ⟨"interpolate.py", "zoom", "out", 0, "pixel", "zoom_shift: *io = cval or *io = t for every element of the output iterator", [``C10_alloc_pixel_loop_defined, ``C10_zoom_shift_in_bounds], true⟩,
  ⟨"interpolate.py", "zoom", "out", 1, "pixel", "zoom_shift: *io = cval or *io = t for every element of the output iterator", [``C10_alloc_pixel_loop_defined, ``C10_zoom_shift_in_bounds], true⟩,
  ⟨"interpolate.py", "shift", "output", 0, "pixel", "zoom_shift output iterator loop", [``C10_alloc_pixel_loop_defined, ``C10_zoom_shift_in_bounds], true⟩,
  ⟨"labeled.py", "label", "output", 0, "fill", "output[:] = (array != 0) before _labeled.label", [``C10_alloc_fill_defined], true⟩,
  ⟨"labeled.py", "border", "output", 0, "fill", "output.fill(False) before _labeled.border", [``C10_alloc_fill_defined], true⟩,
  ⟨"labeled.py", "borders", "output", 0, "fill", "output.fill(False) before _labeled.borders", [``C10_alloc_fill_defined], true⟩,
  ⟨"labeled.py", "labeled_sum", "output", 0, "fill", "labeled_foldl: std::fill(result, result + maxlabel, start)", [``C10_alloc_fill_defined, ``C10_labeled_foldl_in_bounds], true⟩,
  ⟨"labeled.py", "labeled_max", "output", 0, "fill", "labeled_foldl: std::fill(result, result + maxlabel, start)", [``C10_alloc_fill_defined, ``C10_labeled_foldl_in_bounds], true⟩,
  ⟨"labeled.py", "labeled_min", "output", 0, "fill", "labeled_foldl: std::fill(result, result + maxlabel, start)", [``C10_alloc_fill_defined, ``C10_labeled_foldl_in_bounds], true⟩,
  ⟨"labeled.py", "bbox", "output", 0, "bboxinit", "py_bbox_labeled: for j < osize/2: extrema_v[2*j] = …; extrema_v[2*j+1] = 0 (osize = 2*nd*(n+1) is even)", [``C10_alloc_bbox_extrema_defined, ``C10_bbox_labeled_in_bounds], true⟩,
  ⟨"morph.py", "dilate", "output", 0, "fill", "dilate<T>: std::fill / std::copy of the whole result before the scatter loop (C08_defined_everywhere_dilate, C08_defined_everywhere_fast_binary)", [``C10_alloc_fill_defined, ``C10_fastbinary_in_bounds], true⟩,
  ⟨"morph.py", "erode", "output", 0, "pixel", "erode<T>: pixel loop; fast binary path: std::copy / std::fill_n first (C08_defined_everywhere_erode, C08_defined_everywhere_fast_binary)", [``C10_alloc_pixel_loop_defined, ``C10_alloc_fill_defined, ``C10_fastbinary_in_bounds], true⟩,
  ⟨"morph.py", "cerode", "out", 0, "pixel", "_morph.erode(f, Bc, out)", [``C10_alloc_pixel_loop_defined, ``C10_alloc_fill_defined], true⟩,
  ⟨"morph.py", "hitmiss", "out", 0, "pixel", "hitmiss<T>: every store is res.at_flat(i) at the loop cursor i, which then advances by one (margin run: at_flat(i++) = 0), return only when i == N", [``C10_alloc_pixel_loop_defined, ``C10_hitmiss_in_bounds], true⟩,
  ⟨"morph.py", "majority_filter", "output", 0, "window", "PyArray_FILLWBYTE(res_a, 0) before the window loops", [``C10_alloc_window_defined, ``C10_majority_in_bounds], true⟩,
  ⟨"morph.py", "locmax", "output", 0, "fill", "PyArray_FILLWBYTE(output, 0) in py_locminmax", [``C10_alloc_fill_defined], true⟩,
  ⟨"morph.py", "locmin", "output", 0, "fill", "PyArray_FILLWBYTE(output, 0) in py_locminmax", [``C10_alloc_fill_defined], true⟩,
  ⟨"morph.py", "regmin", "output", 0, "fill", "PyArray_FILLWBYTE(output, 0) in py_regminmax", [``C10_alloc_fill_defined], true⟩,
  ⟨"morph.py", "regmax", "output", 0, "fill", "PyArray_FILLWBYTE(output, 0) in py_regminmax", [``C10_alloc_fill_defined], true⟩,
  ⟨"morph.py", "subm", "out", 0, "fill", "out[:] = a before _morph.subm (in place)", [``C10_alloc_fill_defined], true⟩,
  ⟨"morph.py", "tophat_close", "out", 0, "fill", "handed to subm(fc, f, out=out): out[:] = a", [``C10_alloc_fill_defined], true⟩,
  ⟨"morph.py", "tophat_open", "out", 0, "fill", "handed to subm(f, fo, out=out): out[:] = a", [``C10_alloc_fill_defined], true⟩,
  ⟨"resize.py", "resize_to", "out", 0, "pixel", "handed to zoom(out=out): zoom_shift output iterator loop", [``C10_alloc_pixel_loop_defined, ``C10_zoom_shift_in_bounds], true⟩,
  ⟨"resize.py", "imresize", "out", 0, "pixel", "handed to zoom(out=out): zoom_shift output iterator loop", [``C10_alloc_pixel_loop_defined, ``C10_zoom_shift_in_bounds], true⟩,
  ⟨"thin.py", "thin", "imagebuf", 0, "hitmissbuf", "scratch: fast_hitmiss stores every cell (*output++ per input byte) before the clearing loop reads it, in every round", [``C10_alloc_thin_buffer_defined, ``C10_thin_in_bounds], true⟩
]

/-- **C10, uninitialised results: every allocation site is classified.** `translator/allocs.py` lists every allocation of
uninitialised memory in the current sources (`PyArray_SimpleNew`, `PyArray_EMPTY`, `new_array`, `new T[n]`, `operator new`,
`np.empty`, `np.empty_like`, `np.ndarray(shape)`, and every call of `_get_output`): each of them has a row in `allocCover` naming the
loop shape that fills it and the theorems about that shape. A NEW result buffer that nobody has looked at makes this `decide` fail. -/
theorem C10_alloc_sites_covered :
    Mahotas.Generated.allocSiteTable.all (fun s =>
      allocCover.any fun c => c.file == s.1 && c.fn == s.2.1 && c.var == s.2.2.1 && c.ord == s.2.2.2.2) = true := by
  decide +kernel

/-- **C10, uninitialised results: nothing is left validated-only.** Every row of the cover is marked proved and (unless it is one
of the three allocation helpers, whose call sites have rows of their own) cites at least one theorem about the loop shape that fills
the buffer. (Until round 4 the scratch arrays `z`, `v`, `ot`, `Df` of `py_dt` were validated only; see `C10_alloc_dt_scratch_defined`.) -/
theorem C10_alloc_validated_only :
    (allocCover.filter fun c => !c.proved).map (fun c => (c.file, c.var)) = [] ∧
    allocCover.all (fun c => c.proved → (c.mech == "helper" || !c.thms.isEmpty)) = true := by
  decide +kernel

-- every theorem the cover cites exists (a renamed or deleted theorem breaks the build)
open Lean in
#eval show CoreM Unit from do
  let env ← getEnv
  for c in allocCover do
    for n in c.thms do
      unless env.contains n do throwError "allocCover: {c.file}:{c.fn}:{c.var} cites the unknown theorem {n}"

end Round4Alloc
-- ---------------------------------------------------------------------------------------------------------
