/-
C11 — property theorems: the guards extracted from the CURRENT source (Generated/Guards.lean, regenerated on every
run by translator/guards.py) imply the preconditions of the kernels. Decision logic over argument descriptors.
-/
import Mahotas.Model.C11
open Mahotas Mahotas.C11

/-- **C11-T1 (slic).** If the guards of the wrapper `segmentation.slic`, as they are in the source now, all pass on an
`array` argument that is an ndarray and integer `spacer`, `max_iters`, then the kernel precondition holds: the array
is (h, w, 3), `spacer ≥ 1` (the seeding loops `y += spacer` advance), `spacer/2 < h` and `spacer/2 < w` (at least one
seed exists, so no pixel keeps the label −1 that the kernel would use as an index) and `max_iters ≥ 1`. -/
theorem C11_slic_guards_imply_pre (env : Env)
    (ha : (env "array").kind = 1) (hs : (env "spacer").kind = 2) (hm : (env "max_iters").kind = 2)
    (hnd : (env "array").ndim = (env "array").shape.length)
    (h : passes Generated.guards_segmentation_slic env = true) : PreSlic env := by
  simp only [Generated.guards_segmentation_slic, passes, List.all_cons, List.all_nil, Atom.rejects, isArr, isInt,
    ha, hs, hm, Bool.and_true, Bool.true_and, Bool.not_eq_true', Bool.and_eq_true, beq_self_eq_true,
    decide_eq_false_iff_not, Bool.not_false, Bool.and_eq_false_iff] at h
  obtain ⟨h1, h2, h3, h4, h5⟩ := h
  have hnd3 : (env "array").ndim = 3 := by simpa using h1
  have hlen : (env "array").shape.length = 3 := by omega
  unfold PreSlic
  refine ⟨hnd3, ?_, ?_, ?_, ?_, ?_⟩
  · rcases h2 with h2 | h2
    · simpa using h2
    · omega
  · omega
  · omega
  · rcases h4 with h4 | h4
    · omega
    · omega
  · rcases h4 with h4 | h4
    · omega
    · omega

/-- **C11-T2 (slic seeding terminates and is non-empty).** Under the precondition (`S ≥ 1`, `S/2 < N`) the seeding loop
`for (y = S/2; y < N; y += S)` — run with fuel `N` — places at least one seed and every seed is inside `[0, N)`. -/
theorem C11_slic_seeds_nonempty_in_range (S N : Nat) (hN : S / 2 < N) :
    (seeds S N).length ≥ 1 ∧ ∀ y ∈ seeds S N, y < N := by
  constructor
  · unfold seeds
    obtain ⟨n, rfl⟩ : ∃ n, N = n + 1 := ⟨N - 1, by omega⟩
    simp [seedLoop, hN]
  · have : ∀ fuel y0, ∀ y ∈ seedLoop S N fuel y0, y < N := by
      intro fuel
      induction fuel with
      | zero => intro y0 y hy; simp [seedLoop] at hy
      | succ k ih =>
        intro y0 y hy
        simp only [seedLoop] at hy
        split at hy
        · rcases List.mem_cons.mp hy with rfl | hy
          · assumption
          · exact ih _ y hy
        · simp at hy
    intro y hy
    exact this N (S / 2) y hy

/-- **C11-T2' (fuel is sufficient).** With `S ≥ 1` the loop stops by itself within `N` steps: more fuel changes nothing. -/
theorem C11_slic_seed_fuel_sufficient (S N : Nat) (hS : 1 ≤ S) :
    ∀ fuel y, N ≤ y + fuel → seedLoop S N (fuel + 1) y = seedLoop S N fuel y := by
  intro fuel
  induction fuel with
  | zero => intro y h; simp [seedLoop]; omega
  | succ k ih =>
    intro y h
    have e1 : seedLoop S N (k + 1 + 1) y = if y < N then y :: seedLoop S N (k + 1) (y + S) else [] := rfl
    have e2 : seedLoop S N (k + 1) y = if y < N then y :: seedLoop S N k (y + S) else [] := rfl
    rw [e1, e2]
    split
    · rw [ih (y + S) (by omega)]
    · rfl

/-- **C11-T1 (2-D kernels).** `find`, `close_holes` and `convexhull` reach their 2-D kernels only with a matrix: if the
current wrapper guards pass on an ndarray argument, its rank is 2. -/
theorem C11_2d_guards_imply_pre (env : Env) :
    ((env "f").kind = 1 → passes Generated.guards_convolve_find env = true → Pre2D "f" env) ∧
    ((env "ref").kind = 1 → passes Generated.guards_morph_close_holes env = true → Pre2D "ref" env) ∧
    ((env "bwimg").kind = 1 → passes Generated.guards_polygon_convexhull env = true → Pre2D "bwimg" env) := by
  refine ⟨?_, ?_, ?_⟩ <;> intro hk h <;>
    simp [Generated.guards_convolve_find, Generated.guards_morph_close_holes, Generated.guards_polygon_convexhull,
      passes, Atom.rejects, isArr, hk] at h <;> (unfold Pre2D; first | exact h | omega | simp_all)

/-- **C11-T1 (cwatershed).** The markers are read at the flat positions of the surface: the wrapper lets the kernel run
only when both arrays have the same shape. -/
theorem C11_cwatershed_guards_imply_pre (env : Env) (hs : (env "surface").kind = 1) (hm : (env "markers").kind = 1)
    (h : passes Generated.guards_morph_cwatershed env = true) : PreCwatershed env := by
  unfold PreCwatershed
  simp [Generated.guards_morph_cwatershed, passes, Atom.rejects, isArr, hs, hm] at h
  simp_all

/-- **C11-T1 (disk).** `disk` builds its array only for a positive dimension. -/
theorem C11_disk_guards_imply_pre (env : Env) (hd : (env "dim").kind = 2)
    (h : passes Generated.guards_morph_disk env = true) : PreDisk env := by
  unfold PreDisk
  simp [Generated.guards_morph_disk, passes, Atom.rejects, isInt, hd] at h
  omega

/-- non-vacuity: a (14, 20, 3) array with spacer 16 passes the guards; a (14, 7, 3) array (no seed on the second axis:
the crash repaired by the guard) is rejected by atom 3 -/
example :
    passes Generated.guards_segmentation_slic (fun n =>
      if n = "array" then { kind := 1, ndim := 3, shape := [14, 20, 3] } else
      if n = "spacer" then { kind := 2, ival := 16 } else if n = "max_iters" then { kind := 2, ival := 8 } else {}) = true ∧
    firstReject Generated.guards_segmentation_slic (fun n =>
      if n = "array" then { kind := 1, ndim := 3, shape := [14, 7, 3] } else
      if n = "spacer" then { kind := 2, ival := 16 } else if n = "max_iters" then { kind := 2, ival := 8 } else {}) = some 3 := by
  decide

example : seeds 4 10 = [2, 6] := by decide
