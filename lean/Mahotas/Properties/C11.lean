/-
C11 — property theorems: the guards extracted from the CURRENT source (Generated/Guards.lean, regenerated on every
run by translator/guards.py) imply the preconditions of the kernels. Decision logic over argument descriptors.
-/
import Mahotas.Model.C11
import Mahotas.Proofs.C11Shapes
import Mahotas.Properties.C10
open Mahotas Mahotas.C11 Mahotas.C10

/-- **C11-T1 (slic).** If the guards of the wrapper `segmentation.slic`, as they are in the source now, all pass on an
`array` argument that is an ndarray and integer `spacer`, `max_iters`, then the kernel precondition holds: the array
is (h, w, 3), `spacer ≥ 1` (the seeding loops `y += spacer` advance), `spacer/2 < h` and `spacer/2 < w` (at least one
seed exists, so no pixel keeps the label −1 that the kernel would use as an index) and `max_iters ≥ 1`. -/
theorem C11_slic_guards_imply_pre (env : Env)
    (ha : (env "array").kind = 1) (hs : (env "spacer").kind = 2) (hm : (env "max_iters").kind = 2)
    (hnd : (env "array").ndim = (env "array").shape.length)
    (h : passes Generated.guards_segmentation_slic env = true) : PreSlic env := by
  simp only [Generated.guards_segmentation_slic, passes, List.all_cons, List.all_nil, Atom.rejects, isArr, isInt,
    ha, hs, hm, Bool.and_true, Bool.true_and, Bool.not_eq_true', Bool.and_eq_true, beq_self_eq_true,
    decide_eq_false_iff_not, Bool.not_false, Bool.and_eq_false_iff] at h
  obtain ⟨h1, h2, h3, h4, h5⟩ := h
  have hnd3 : (env "array").ndim = 3 := by simpa using h1
  have hlen : (env "array").shape.length = 3 := by omega
  unfold PreSlic
  refine ⟨hnd3, ?_, ?_, ?_, ?_, ?_⟩
  · rcases h2 with h2 | h2
    · simpa using h2
    · omega
  · omega
  · omega
  · rcases h4 with h4 | h4
    · omega
    · omega
  · rcases h4 with h4 | h4
    · omega
    · omega

/-- **C11-T2 (slic seeding terminates and is non-empty).** Under the precondition (`S ≥ 1`, `S/2 < N`) the seeding loop
`for (y = S/2; y < N; y += S)` — run with fuel `N` — places at least one seed and every seed is inside `[0, N)`. -/
theorem C11_slic_seeds_nonempty_in_range (S N : Nat) (hN : S / 2 < N) :
    (seeds S N).length ≥ 1 ∧ ∀ y ∈ seeds S N, y < N := by
  constructor
  · unfold seeds
    obtain ⟨n, rfl⟩ : ∃ n, N = n + 1 := ⟨N - 1, by omega⟩
    simp [seedLoop, hN]
  · have : ∀ fuel y0, ∀ y ∈ seedLoop S N fuel y0, y < N := by
      intro fuel
      induction fuel with
      | zero => intro y0 y hy; simp [seedLoop] at hy
      | succ k ih =>
        intro y0 y hy
        simp only [seedLoop] at hy
        split at hy
        · rcases List.mem_cons.mp hy with rfl | hy
          · assumption
          · exact ih _ y hy
        · simp at hy
    intro y hy
    exact this N (S / 2) y hy

/-- **C11-T2' (fuel is sufficient).** With `S ≥ 1` the loop stops by itself within `N` steps: more fuel changes nothing. -/
theorem C11_slic_seed_fuel_sufficient (S N : Nat) (hS : 1 ≤ S) :
    ∀ fuel y, N ≤ y + fuel → seedLoop S N (fuel + 1) y = seedLoop S N fuel y := by
  intro fuel
  induction fuel with
  | zero => intro y h; simp [seedLoop]; omega
  | succ k ih =>
    intro y h
    have e1 : seedLoop S N (k + 1 + 1) y = if y < N then y :: seedLoop S N (k + 1) (y + S) else [] := rfl
    have e2 : seedLoop S N (k + 1) y = if y < N then y :: seedLoop S N k (y + S) else [] := rfl
    rw [e1, e2]
    split
    · rw [ih (y + S) (by omega)]
    · rfl

/-- **C11-T1 (2-D kernels).** `find`, `close_holes` and `convexhull` reach their 2-D kernels only with a matrix: if the
current wrapper guards pass on an ndarray argument, its rank is 2. -/
theorem C11_2d_guards_imply_pre (env : Env) :
    ((env "f").kind = 1 → passes Generated.guards_convolve_find env = true → Pre2D "f" env) ∧
    ((env "ref").kind = 1 → passes Generated.guards_morph_close_holes env = true → Pre2D "ref" env) ∧
    ((env "bwimg").kind = 1 → passes Generated.guards_polygon_convexhull env = true → Pre2D "bwimg" env) := by
  refine ⟨?_, ?_, ?_⟩ <;> intro hk h <;>
    simp [Generated.guards_convolve_find, Generated.guards_morph_close_holes, Generated.guards_polygon_convexhull,
      passes, Atom.rejects, isArr, hk] at h <;> (unfold Pre2D; first | exact h | omega | simp_all)

/-- **C11-T1 (cwatershed).** The markers are read at the flat positions of the surface: the wrapper lets the kernel run
only when both arrays have the same shape. -/
theorem C11_cwatershed_guards_imply_pre (env : Env) (hs : (env "surface").kind = 1) (hm : (env "markers").kind = 1)
    (h : passes Generated.guards_morph_cwatershed env = true) : PreCwatershed env := by
  unfold PreCwatershed
  simp [Generated.guards_morph_cwatershed, passes, Atom.rejects, isArr, hs, hm] at h
  simp_all

/-- **C11-T1 (disk).** `disk` builds its array only for a positive dimension. -/
theorem C11_disk_guards_imply_pre (env : Env) (hd : (env "dim").kind = 2)
    (h : passes Generated.guards_morph_disk env = true) : PreDisk env := by
  unfold PreDisk
  simp [Generated.guards_morph_disk, passes, Atom.rejects, isInt, hd] at h
  omega

/-- non-vacuity: a (14, 20, 3) array with spacer 16 passes the guards; a (14, 7, 3) array (no seed on the second axis:
the crash repaired by the guard) is rejected by atom 3 -/
example :
    passes Generated.guards_segmentation_slic (fun n =>
      if n = "array" then { kind := 1, ndim := 3, shape := [14, 20, 3] } else
      if n = "spacer" then { kind := 2, ival := 16 } else if n = "max_iters" then { kind := 2, ival := 8 } else {}) = true ∧
    firstReject Generated.guards_segmentation_slic (fun n =>
      if n = "array" then { kind := 1, ndim := 3, shape := [14, 7, 3] } else
      if n = "spacer" then { kind := 2, ival := 16 } else if n = "max_iters" then { kind := 2, ival := 8 } else {}) = some 3 := by
  decide

example : seeds 4 10 = [2, 6] := by decide

/-! ## Round 2 — native entry points, more kernels, composed corollaries, exit actions -/

/-- **C11-T1 (template_match).** If the guards of the native `py_template_match`, as extracted from the source now, all
pass, then the three arguments are ndarrays, image and template have the same rank, the output has the shape of the
image and is a writeable aligned C array. Independently the wrapper `convolve.template_match` lets ndarrays through
only with equal ranks. -/
theorem C11_template_match_guards_imply_pre (env : Env) :
    (npasses Generated.nativeGuards_convolve_template_match env = true →
      ((env "array").kind = 1 ∧ (env "template_").kind = 1 ∧ (env "output").kind = 1) ∧ PreTemplateMatch env) ∧
    ((env "f").kind = 1 → (env "template").kind = 1 → passes Generated.guards_convolve_template_match env = true →
      (env "f").ndim = (env "template").ndim) := by
  constructor
  · intro h
    simp [Generated.nativeGuards_convolve_template_match, npasses, NAtom.rejects, isArr] at h
    obtain ⟨⟨ha, ht, ho⟩, -, h3, h4, h5⟩ := h
    simp [ha, ht, ho] at h3 h4 h5
    exact ⟨⟨ha, ht, ho⟩, h3, h4, h5⟩
  · intro hf ht h
    simp [Generated.guards_convolve_template_match, passes, Atom.rejects, isArr, hf, ht] at h
    exact h

/-- **C11-T1 (find2d).** If the guards of the native `py_find2d` pass, all three arguments are ndarrays, image and
template are matrices, and the boolean output is a C array of the shape of the image. -/
theorem C11_find2d_guards_imply_pre (env : Env)
    (h : npasses Generated.nativeGuards_convolve_find2d env = true) :
    ((env "array").kind = 1 ∧ (env "target").kind = 1 ∧ (env "output").kind = 1) ∧ PreFind2d env := by
  simp [Generated.nativeGuards_convolve_find2d, npasses, NAtom.rejects, isArr] at h
  obtain ⟨⟨ha, ht, ho⟩, h2, h3, h4, -, -, h7⟩ := h
  simp [ha, ht, ho] at h2 h3 h4 h7
  exact ⟨⟨ha, ht, ho⟩, h2, h3, h4, h7⟩

/-- **C11-T1 (hitmiss).** The wrapper `morph.hitmiss` lets ndarrays through only with equal rank ≥ 1; the native
`py_hitmiss` runs only with three ndarrays, the result of the shape of the input and a C array. (Neither checks that no
axis of `input` or `Bc` has length zero: see `C11_hitmiss_safe_partial`.) -/
theorem C11_hitmiss_guards_imply_pre (env : Env) :
    ((env "input").kind = 1 → (env "Bc").kind = 1 → passes Generated.guards_morph_hitmiss env = true → PreHitmissW env) ∧
    (npasses Generated.nativeGuards_morph_hitmiss env = true →
      ((env "array").kind = 1 ∧ (env "Bc").kind = 1 ∧ (env "res_a").kind = 1) ∧ PreHitmissN env) := by
  constructor
  · intro hi hb h
    simp [Generated.guards_morph_hitmiss, passes, Atom.rejects, isArr, hi, hb] at h
    unfold PreHitmissW
    omega
  · intro h
    simp [Generated.nativeGuards_morph_hitmiss, npasses, NAtom.rejects, isArr] at h
    obtain ⟨⟨ha, hb, hr⟩, h2, -, h4⟩ := h
    simp [ha, hr] at h2 h4
    exact ⟨⟨ha, hb, hr⟩, h2.symm, h4⟩

/-- **C11-T1 (majority_filter).** Wrapper: a matrix and `N ≥ 2`. Native `py_majority_filter`: boolean ndarrays, a
matrix, the result of the same shape and a C array. (The native entry point itself does not check `N ≥ 0`: only the
wrapper does.) -/
theorem C11_majority_guards_imply_pre (env : Env) :
    ((env "img").kind = 1 → (env "N").kind = 2 → passes Generated.guards_morph_majority_filter env = true → PreMajorityW env) ∧
    (npasses Generated.nativeGuards_morph_majority_filter env = true →
      ((env "array").kind = 1 ∧ (env "res_a").kind = 1) ∧ PreMajorityN env) := by
  constructor
  · intro hi hn h
    simp [Generated.guards_morph_majority_filter, passes, Atom.rejects, isArr, isInt, hi, hn] at h
    unfold PreMajorityW
    omega
  · intro h
    simp [Generated.nativeGuards_morph_majority_filter, npasses, NAtom.rejects, isArr] at h
    obtain ⟨ha, hr, -, -, h5, h6, h7⟩ := h
    simp [ha, hr] at h5 h6 h7
    exact ⟨⟨ha, hr⟩, h5, h6.symm, h7⟩

/-- **C11-T1 (dt / distance).** Native `py_dt`: when no guard takes its exit — the last one, `size == 0`, is an early
successful return in front of the loops, not an error — the array is 2-D and has no element-less axis, so `size/n`
divides by a positive `n`. Wrapper `distance`: rank ≥ 1 and at least one element. -/
theorem C11_dt_guards_imply_pre (env : Env) :
    (npasses Generated.nativeGuards_distance_dt env = true → (env "f").kind = 1 ∧ PreDt env) ∧
    ((env "bw").kind = 1 → passes Generated.guards_distance_distance env = true → PreDistance env) := by
  constructor
  · intro h
    simp [Generated.nativeGuards_distance_dt, npasses, NAtom.rejects, isArr] at h
    obtain ⟨hf, -, h3, h4⟩ := h
    simp [hf] at h3 h4
    exact ⟨hf, h3, h4⟩
  · intro hb h
    simp [Generated.guards_distance_distance, passes, Atom.rejects, isArr, hb] at h
    unfold PreDistance
    omega

/-- **C11-T1 (center_of_mass).** If the guards of the native `py_center_of_mass` pass and labels are given (not None),
then the labels are an ndarray of the SHAPE of the image (an aligned C array), hence have at least as many elements
as the image: the hypothesis `hs` of `C10_center_of_mass_in_bounds`. -/
theorem C11_center_of_mass_guards_imply_pre (env : Env)
    (h : npasses Generated.nativeGuards_center_of_mass_center_of_mass env = true) :
    (env "array").kind = 1 ∧ PreCenterOfMass env := by
  simp [Generated.nativeGuards_center_of_mass_center_of_mass, npasses, NAtom.rejects, isArr] at h
  obtain ⟨ha, h2, h3, -, h5⟩ := h
  refine ⟨ha, ?_⟩
  intro hk
  have hl : (env "labels_obj").kind = 1 := by omega
  simp [ha, hl] at h3 h5
  refine ⟨hl, h5.symm, h3, ?_⟩
  simp [Desc.size, h5]

/-- **C11-T1 (bbox).** `labeled.bbox` reaches `_bbox.bbox_labeled` only when no label is negative. -/
theorem C11_bbox_guards_imply_pre (env : Env) (hf : (env "f").kind = 1)
    (h : passes Generated.guards_labeled_bbox env = true) : PreBbox env := by
  simp [Generated.guards_labeled_bbox, passes, Atom.rejects, isArr, hf] at h
  exact h

/-- **C11-T1 (cooccurence).** With a caller-supplied 2-D `output` that passes the guards of `texture.cooccurence`, both
dimensions of the output exceed the largest pixel value. -/
theorem C11_cooccurence_guards_imply_pre (env : Env) (hf : (env "f").kind = 1) (ho : (env "output").kind = 1)
    (h2 : (env "output").shape.length = 2)
    (h : passes Generated.guards_features_texture_cooccurence env = true) : PreCooccurence env := by
  obtain ⟨a, b, hs⟩ := shape_of_len_two _ h2
  simp [Generated.guards_features_texture_cooccurence, passes, Atom.rejects, isArr, hf, ho, hs] at h
  unfold PreCooccurence
  simp [hs]
  omega

/-- **C11-T1 (rank_filter, median_filter) — partial.** The helper `convolve._check_rank(Bc, rank, fname)` raises unless
`0 ≤ rank < count_nonzero(Bc)`. NOT covered: that `rank_filter` and `median_filter` call it with the very `Bc` and
`rank` they pass on to `_convolve.rank_filter` (they do, textually; the call is recorded as an opaque statement, the
data flow is not modelled). -/
theorem C11_rank_guards_imply_pre_partial (env : Env) (hr : (env "rank").kind = 2) (hb : (env "Bc").kind = 1)
    (h : passes Generated.guards_convolve__check_rank env = true) : PreRank env := by
  simp [Generated.guards_convolve__check_rank, passes, Atom.rejects, isArr, isInt, hr, hb] at h
  exact h

/-- **C11-T1 (convolve1d fast path).** The test in front of the call of `_convolve.convolve1d` in `convolve.convolve1d`,
read on the values of the locals at that point, gives `len(weights) < f.shape[axis]`. -/
theorem C11_convolve1d_reach_implies_pre (env : Env)
    (h : passes Generated.reach_convolve_convolve1d env = true) : PreConv1dFast env := by
  simp [Generated.reach_convolve_convolve1d, passes, Atom.rejects, isArr, isInt] at h
  unfold PreConv1dFast
  have := h.2
  simp only [List.getD_eq_getElem?_getD]
  omega

/-- **C11-T1 (shift / zoom_shift).** Wrapper `interpolate.shift`: every entry of the shift is finite. Native
`py_zoom_shift`: image and output are ndarrays and C arrays; a `shifts` (`zooms`) ndarray is a C array, and when it has
at least one axis its first axis has one entry per dimension of the image. (A 0-dimensional `shifts`/`zooms` array is
not rejected: `PyArray_DIM(shifts, 0)` is then read past the empty dimension list — only reachable by calling the
native function directly.) -/
theorem C11_zoom_shift_guards_imply_pre (env : Env) :
    (passes Generated.guards_interpolate_shift env = true → PreShift env) ∧
    (npasses Generated.nativeGuards_interpolate_zoom_shift env = true →
      ((env "array").kind = 1 ∧ (env "output").kind = 1) ∧ PreZoomShift env) := by
  constructor
  · intro h
    simp [Generated.guards_interpolate_shift, passes, Atom.rejects] at h
    exact h
  · intro h
    simp [Generated.nativeGuards_interpolate_zoom_shift, npasses, NAtom.rejects, isArr] at h
    obtain ⟨⟨ha, ho⟩, h2, h3, -, h5, -, h7, h8, -, h10⟩ := h
    simp [ha, ho] at h2 h3 h7 h10
    refine ⟨⟨ha, ho⟩, h2, h3, ?_, ?_⟩
    · intro hs
      simp [hs] at h8 h10
      refine ⟨h8, fun hl => ?_⟩
      rcases h10 with h10 | h10
      · simp [h10] at hl
      · simpa using h10
    · intro hz
      simp [hz] at h5 h7
      refine ⟨h5, fun hl => ?_⟩
      rcases h7 with h7 | h7
      · simp [h7] at hl
      · simpa using h7

/-- **C11-T1 (get_structuring_elem).** An ndarray `Bc` that passes the guards has the rank of the image and at least one
element (no zero-length axis). -/
theorem C11_structuring_elem_guards_imply_pre (env : Env) (ha : (env "A").kind = 1) (hb : (env "Bc").kind = 1)
    (h : passes Generated.guards_morph_get_structuring_elem env = true) : PreStructElem env := by
  simp [Generated.guards_morph_get_structuring_elem, passes, Atom.rejects, isArr, ha, hb] at h
  unfold PreStructElem
  omega

/-! ### composed corollaries: guards pass ⇒ every access of the C10 index model is in bounds -/

/-- **C11+C10 (find).** Let the wrapper guards of `convolve.find` pass on ndarrays `f`, `template` and the guards of the
native `py_find2d` pass on (`array`, `target`, `output`), where — the link between the two calls, `_convolve.find2d(f,
template.astype(f.dtype), out)` — `array` has the shape of `f` and `target` the shape of `template` (well-formed
descriptors). Then the arrays are exactly what the 2-D index model of C10 speaks about: `array` is `n0 × n1`, `target`
is `t0 × t1`, `output` is `n0 × n1` in C order, and for a template with at least one element per axis every access
`array.at(y+sy, x+sx)`, `target.at(sy, sx)`, `out.at(y, x)` of the model (with the strict and with the inclusive loop
bound) is in bounds. -/
theorem C11_find2d_safe (env : Env) (incl : Bool)
    (hf : (env "f").kind = 1) (ht : (env "template").kind = 1)
    (hw : passes Generated.guards_convolve_find env = true)
    (hn : npasses Generated.nativeGuards_convolve_find2d env = true)
    (wfa : (env "array").wf) (wft : (env "target").wf)
    (la : (env "array").shape = (env "f").shape) (lt : (env "target").shape = (env "template").shape) :
    ∃ n0 n1 t0 t1 : Nat, (env "f").shape = [n0, n1] ∧ (env "template").shape = [t0, t1] ∧ (env "output").shape = [n0, n1] ∧
      (env "output").isCArray = true ∧
      (1 ≤ t0 → 1 ≤ t1 → ∀ a ∈ find2dAccesses n0 n1 t0 t1 incl, 0 ≤ a.i ∧ a.i < a.size) := by
  have _ := hw; have _ := hf; have _ := ht
  obtain ⟨-, h2, h3, h4, h5⟩ := C11_find2d_guards_imply_pre env hn
  obtain ⟨n0, n1, ea⟩ := shape_of_len_two (env "array").shape (by rw [← wfa]; exact h2)
  obtain ⟨t0, t1, et⟩ := shape_of_len_two (env "target").shape (by rw [← wft]; exact h3)
  refine ⟨n0, n1, t0, t1, by rw [← la, ea], by rw [← lt, et], by rw [h4, ea], h5, ?_⟩
  intro h0 h1
  exact C10_find2d_in_bounds n0 n1 t0 t1 incl (by omega) (by omega)

/-- **C11+C10 (majority_filter).** Let the wrapper guards of `morph.majority_filter` pass on an ndarray `img` and an
integer `N`, and the guards of the native `py_majority_filter` pass on (`array`, `N`, `res_a`) with the same `N` (one
environment) and `array` of the shape of `img`. Then `array` and `res_a` are `rows × cols`, `res_a` is a C array (so
the flat output index of the model is its address), every access of the C10 model is in bounds and all four `!=`
loops leave through their test. `N ≥ 0` comes from the WRAPPER only (`N <= 1` raises); the native entry point does
not check it. -/
theorem C11_majority_safe (env : Env)
    (hi : (env "img").kind = 1) (hN : (env "N").kind = 2)
    (hw : passes Generated.guards_morph_majority_filter env = true)
    (hn : npasses Generated.nativeGuards_morph_majority_filter env = true)
    (wfa : (env "array").wf) :
    ∃ rows cols : Nat, (env "array").shape = [rows, cols] ∧ (env "res_a").shape = [rows, cols] ∧ (env "res_a").isCArray = true ∧
      (∀ a ∈ majorityAccesses rows cols (env "N").ival, 0 ≤ a.i ∧ a.i < a.size) ∧
      majorityDone rows cols (env "N").ival = true := by
  obtain ⟨-, hN2⟩ := (C11_majority_guards_imply_pre env).1 hi hN hw
  obtain ⟨-, h2, h3, h4⟩ := (C11_majority_guards_imply_pre env).2 hn
  obtain ⟨r, c, ea⟩ := shape_of_len_two (env "array").shape (by rw [← wfa]; exact h2)
  have := C10_majority_in_bounds r c (env "N").ival (by omega)
  exact ⟨r, c, ea, by rw [h3, ea], h4, this.1, this.2⟩

/-- **C11+C10 (hitmiss) — partial.** Let the wrapper guards of `morph.hitmiss` pass on ndarrays `input`, `Bc` and the
guards of the native `py_hitmiss` pass on (`array`, `Bc`, `res_a`) with `array` of the shape of `input` (well-formed
descriptors). Then rank(`Bc`) = rank(`array`) ≥ 1, `res_a` has the shape of `array` and is a C array, and — PROVIDED no
axis of `array` or `Bc` has length zero, which NO guard of the wrapper or of the native entry point checks (the gap:
stated as the hypotheses `hs`, `hb`) — the whole main loop of the C10 model dereferences only `res.at_flat(i)`, `i < N`
and `input.at_flat(i + delta)` inside the buffer and ends through `i == N`. -/
theorem C11_hitmiss_safe_partial (env : Env)
    (hi : (env "input").kind = 1) (hB : (env "Bc").kind = 1)
    (hw : passes Generated.guards_morph_hitmiss env = true)
    (hn : npasses Generated.nativeGuards_morph_hitmiss env = true)
    (wfi : (env "input").wf) (wfb : (env "Bc").wf)
    (la : (env "array").shape = (env "input").shape)
    (hs : ∀ d ∈ (env "array").shape, 0 < d) (hb : ∀ d ∈ (env "Bc").shape, 0 < d) :
    (env "res_a").shape = (env "array").shape ∧ (env "res_a").isCArray = true ∧
    (∀ a ∈ (hmRun (env "array").shape (env "Bc").shape true).1, 0 ≤ a.i ∧ a.i < a.size) ∧
    (hmRun (env "array").shape (env "Bc").shape true).2 = true := by
  obtain ⟨h1, h2⟩ := (C11_hitmiss_guards_imply_pre env).1 hi hB hw
  obtain ⟨-, h3, h4⟩ := (C11_hitmiss_guards_imply_pre env).2 hn
  unfold Desc.wf at wfi wfb
  have hne : (env "array").shape ≠ [] := by
    intro e; rw [la] at e; rw [e] at wfi; simp at wfi; omega
  have hlen : (env "Bc").shape.length = (env "array").shape.length := by rw [la]; omega
  have := C10_hitmiss_in_bounds (env "array").shape (env "Bc").shape hne hlen hs hb
  exact ⟨h3, h4, this.1, this.2⟩

/-- **C11+C10 (center_of_mass).** If the guards of the native `py_center_of_mass` pass and labels are given, then for
every label in `[0, max_label]` (the kernel rejects negative labels and computes `max_label` itself) every access of the
C10 model — `labels[i]` for `i < img.size` in a labels buffer of `labels.size` elements, `totals[label]`,
`centers[label·ndim + j]` — is in bounds. -/
theorem C11_center_of_mass_safe (env : Env) (nd maxlabel label : Int)
    (hn : npasses Generated.nativeGuards_center_of_mass_center_of_mass env = true)
    (hl : (env "labels_obj").kind ≠ 0) (h0 : 0 ≤ label) (h1 : label ≤ maxlabel) :
    ∀ a ∈ comAccesses nd maxlabel label (env "array").size (env "labels_obj").size, 0 ≤ a.i ∧ a.i < a.size := by
  obtain ⟨-, hp⟩ := C11_center_of_mass_guards_imply_pre env hn
  obtain ⟨-, -, -, hsz⟩ := hp hl
  exact C10_center_of_mass_in_bounds nd maxlabel label _ _ h0 h1 hsz

/-- **C11+C10 (convolve1d fast path).** Whenever `convolve.convolve1d` reaches the native `_convolve.convolve1d` (the
extracted branch test holds on the locals), every column index of the C10 model of the kernel — for the row length
`N1 = f.shape[axis]` and `Nf = len(weights)` weights, any border mode — is in `[0, N1)` and the first loop leaves
through its test. -/
theorem C11_convolve1d_safe (env : Env) (m : Mode)
    (h : passes Generated.reach_convolve_convolve1d env = true) :
    (∀ a ∈ conv1dAccesses m ((env "f").shape.getD (env "axis").ival.toNat 0) ((env "weights").shape.getD 0 0),
        0 ≤ a.i ∧ a.i < a.size) ∧
    conv1dDone ((env "f").shape.getD (env "axis").ival.toNat 0) ((env "weights").shape.getD 0 0) = true :=
  C10_convolve1d_python_guard m _ _ (by omega) (C11_convolve1d_reach_implies_pre env h)

/-- **C11+C10 (bbox).** If the guard of `labeled.bbox` passes on an ndarray `f` whose descriptor flag "some element is
negative" means what it says for the label at hand (`hflag`), then for every label up to the maximum the wrapper
allocates for, every `extrema[label·2·ndim + …]` of the C10 model is in range. -/
theorem C11_bbox_safe (env : Env) (nd maxlabel label : Int) (hf : (env "f").kind = 1)
    (h : passes Generated.guards_labeled_bbox env = true)
    (hflag : (env "f").hasNeg = false → 0 ≤ label) (hmax : label ≤ maxlabel) :
    ∀ a ∈ bboxAccesses nd maxlabel label, 0 ≤ a.i ∧ a.i < a.size :=
  (C10_bbox_labeled_in_bounds nd maxlabel label).1 (hflag (C11_bbox_guards_imply_pre env hf h)) hmax

/-- **C11+C10 (cooccurence).** With a caller-supplied 2-D `output` that passes the guards of `texture.cooccurence`,
`++res.at(v, v2)` is inside the output for all pixel values up to the maximum of `f` (`(env "f").ival`). -/
theorem C11_cooccurence_safe (env : Env) (v v2 : Int) (hf : (env "f").kind = 1) (ho : (env "output").kind = 1)
    (h2 : (env "output").shape.length = 2)
    (h : passes Generated.guards_features_texture_cooccurence env = true)
    (hv : v ≤ (env "f").ival) (hv2 : v2 ≤ (env "f").ival) :
    ∀ a ∈ coocAccesses ((env "output").shape.getD 0 0) ((env "output").shape.getD 1 0) v v2, 0 ≤ a.i ∧ a.i < a.size := by
  obtain ⟨h0, h1⟩ := C11_cooccurence_guards_imply_pre env hf ho h2 h
  exact C10_cooccurence_in_bounds _ _ (env "f").ival v v2 hv hv2 h0 h1

/-- **C11+C10 (dt).** If no guard of the native `py_dt` takes its exit (including the early return for an empty array),
the array is `n0 × n1` with `n0, n1 ≥ 1`, and along either axis (line length `n ∈ {n0, n1}`) every access of the C10
model of `dist_transform` is in range, under the two facts about the float comparisons that C10 states (no NaN). -/
theorem C11_dt_safe (env : Env) (cmp lt2 : Nat → Nat → Bool)
    (hn : npasses Generated.nativeGuards_distance_dt env = true) (wf : (env "f").wf)
    (hcmp : ∀ q, cmp q 0 = true) :
    ∃ n0 n1 : Nat, (env "f").shape = [n0, n1] ∧ 0 < n0 ∧ 0 < n1 ∧
      ∀ n, (n = n0 ∨ n = n1) → (∀ q, lt2 q (dtKmax cmp n) = false) →
        ∀ a ∈ dtAccesses cmp lt2 n, 0 ≤ a.i ∧ a.i < a.size := by
  obtain ⟨-, h2, h3⟩ := (C11_dt_guards_imply_pre env).1 hn
  obtain ⟨n0, n1, e⟩ := shape_of_len_two (env "f").shape (by rw [← wf]; exact h2)
  have hp := all_pos_of_shapeSize_ne_zero _ h3
  rw [e] at hp
  have p0 : 0 < n0 := hp n0 (by simp)
  have p1 : 0 < n1 := hp n1 (by simp)
  refine ⟨n0, n1, e, p0, p1, ?_⟩
  intro n hnn hlt
  have hpos : 0 < n := by rcases hnn with rfl | rfl <;> assumption
  exact (C10_dist_transform_in_bounds cmp lt2 n hpos hcmp hlt).1

/-! ### T3 — what a guard does when its test holds -/

/-- **C11+C10 (shift / zoom → zoom_shift).** Let the guards of the native `py_zoom_shift` pass on an `array` of at least
one element per axis (well-formed descriptor) and a 1-D `shifts` array. Then `array` is an aligned C array — its element
strides are the C strides of its shape — and `shifts` has exactly one entry per axis, so the kernel forms one
coordinate per axis (`coord`, after rounding/flooring; any integers: the wrapper's guard only has to keep them finite);
for every border mode and spline order, whenever no axis is flagged, every index `idxs[fi]` the kernel dereferences
(`array.data()[idxs[fi]]`, model `zsAccesses`) is in `[0, size)`. Composition of `C11_zoom_shift_guards_imply_pre` with
`C10_zoom_shift_in_bounds`. -/
theorem C11_zoom_shift_safe (env : Env) (m : Mode) (order : Nat) (coord starts : List Int)
    (hn : npasses Generated.nativeGuards_interpolate_zoom_shift env = true)
    (hsk : (env "shifts").kind = 1) (hs1 : 1 ≤ (env "shifts").shape.length)
    (hnd : (env "array").ndim = (env "array").shape.length)
    (hpos : ∀ d ∈ (env "array").shape, 0 < d)
    (hc : coord.length = (env "shifts").shape.getD 0 0)
    (hst : C10.zsStarts m order (env "array").shape coord = some starts) :
    (env "array").isCArray = true ∧
    ∀ idx ∈ C10.zsAccesses (env "array").shape (C10.cStrides (env "array").shape) order starts,
      0 ≤ idx ∧ idx < (shapeSize (env "array").shape : Int) := by
  obtain ⟨_, hca, _, hsh, _⟩ := (C11_zoom_shift_guards_imply_pre env).2 hn
  have hlen : coord.length = (env "array").shape.length := by
    rw [hc, (hsh hsk).2 hs1, hnd]
  have hsl : starts.length = (env "array").shape.length :=
    C10.zsStarts_length m order (env "array").shape coord starts hlen hst
  exact ⟨hca, (C10_zoom_shift_in_bounds (env "array").shape order starts hpos hsl).2.1⟩

/-- **C11-T3 (rejects are exceptions).** Over the whole generated table of exit actions (every guard atom of the 50
wrappers and of the 52 native entry points; the table is aligned with the guard lists — its second component is the
length of the list): every wrapper guard `raise`s; every native guard either sets a Python error and returns NULL
(`PyErr_SetString`/`PyErr_Format`/`PyErr_NoMemory`/`throw PythonException`, or `!PyArg_ParseTuple`, or a failed callee
that has set the error itself: numpy allocation, `dcoeffs`, `check_pyramid_parameters`), or is an early successful
return (`py_dt` on an empty array, `py_majority_filter` with a window larger than the image) — EXCEPT exactly the two
type/layout tests of `_convex.convexhull` (`!PyArray_ISCARRAY(array)`, `!PyArray_EquivTypenums(PyArray_TYPE(array),
NPY_BOOL)`), which `return 0` with no error set: CPython turns that into `SystemError: NULL result without error`
(still an exception, never a crash; reachable only by calling `_convex.convexhull` directly, the wrapper converts
with `np.require(…, 'CAW')`). -/
theorem C11_rejects_are_exceptions :
    (Generated.guardActionTable.all fun e => e.2.1 == e.2.2.length) = true ∧
    ((Generated.guardActionTable.filter fun e => e.1 != "n:_convex.convexhull").all fun e =>
        e.2.2.all fun a => actionIsException a || a == 5 || actionIsEarlyReturn a) = true ∧
    (Generated.guardActionTable.filter fun e => e.2.2.any (· == 3)).map (·.2.2) = [[2, 3, 3]] ∧
    (Generated.guardActionTable.filter fun e => e.2.2.any actionIsEarlyReturn).map (·.2.2) =
      [[2, 1, 1, 1, 4], [2, 1, 1, 1, 1, 1, 1, 1, 4, 4]] ∧
    ((Generated.guardActionTable.filter fun e => (e.1.toList.take 2 == "w:".toList)).all fun e => e.2.2.all (· == 0)) = true := by
  decide

/-! non-vacuity (round 2): descriptors that pass / are rejected by the extracted native guards -/
example :
    npasses Generated.nativeGuards_convolve_find2d (fun n =>
      if n = "array" then { kind := 1, ndim := 2, shape := [3, 4], tnum := 2, flags := 7 } else
      if n = "target" then { kind := 1, ndim := 2, shape := [2, 2], tnum := 2, flags := 7 } else
      if n = "output" then { kind := 1, ndim := 2, shape := [3, 4], tnum := 0, flags := 7 } else {}) = true ∧
    nfirstReject Generated.nativeGuards_convolve_find2d (fun n =>
      if n = "array" then { kind := 1, ndim := 2, shape := [3, 4], tnum := 2, flags := 7 } else
      if n = "target" then { kind := 1, ndim := 1, shape := [2], tnum := 2, flags := 7 } else
      if n = "output" then { kind := 1, ndim := 2, shape := [3, 4], tnum := 0, flags := 7 } else {}) = some 3 := by
  decide
/-- labels of another shape are rejected by atom 5 (the guard added by the repair of center_of_mass); None labels pass -/
example :
    nfirstReject Generated.nativeGuards_center_of_mass_center_of_mass (fun n =>
      if n = "array" then { kind := 1, ndim := 2, shape := [3, 4], tnum := 12, flags := 7 } else
      if n = "labels_obj" then { kind := 1, ndim := 2, shape := [3, 3], tnum := 5, flags := 7 } else {}) = some 5 ∧
    npasses Generated.nativeGuards_center_of_mass_center_of_mass (fun n =>
      if n = "array" then { kind := 1, ndim := 2, shape := [3, 4], tnum := 12, flags := 7 } else {}) = true := by
  decide
/-- an empty 2-D array takes the early return of `py_dt` (atom 4, action 4); hitmiss with `Bc` of another rank is
    rejected by the wrapper; a structuring element with a zero-length axis by `get_structuring_elem` -/
example :
    nfirstReject Generated.nativeGuards_distance_dt (fun n =>
      if n = "f" then { kind := 1, ndim := 2, shape := [0, 3], tnum := 12, flags := 7 } else {}) = some 4 ∧
    firstReject Generated.guards_morph_hitmiss (fun n =>
      if n = "input" then { kind := 1, ndim := 2, shape := [4, 4] } else
      if n = "Bc" then { kind := 1, ndim := 1, shape := [3] } else {}) = some 0 ∧
    firstReject Generated.guards_morph_get_structuring_elem (fun n =>
      if n = "A" then { kind := 1, ndim := 2, shape := [4, 4] } else
      if n = "Bc" then { kind := 1, ndim := 2, shape := [0, 3] } else {}) = some 1 := by
  decide
example : Generated.guardActionTable.length = 102 ∧ Generated.nativeGuardTable.length = 52 := by decide
