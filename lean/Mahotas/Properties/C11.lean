/-
C11 — property theorems: the guards extracted from the CURRENT source (Generated/Guards.lean, regenerated on every
run by translator/guards.py) imply the preconditions of the kernels. Decision logic over argument descriptors.
-/
import Mahotas.Model.C11
import Mahotas.Proofs.C11Shapes
import Mahotas.Proofs.C11Hitmiss
import Mahotas.Properties.C10
open Mahotas Mahotas.C11 Mahotas.C10

/-- **C11-T1 (slic).** If the guards of the wrapper `segmentation.slic`, as they are in the source now, all pass on an
`array` argument that is an ndarray and integer `spacer`, `max_iters`, then the kernel precondition holds: the array
is (h, w, 3), `spacer ≥ 1` (the seeding loops `y += spacer` advance), `spacer/2 < h` and `spacer/2 < w` (at least one
seed exists, so no pixel keeps the label −1 that the kernel would use as an index) and `max_iters ≥ 1`. -/
theorem C11_slic_guards_imply_pre (env : Env)
    (ha : (env "array").kind = 1) (hs : (env "spacer").kind = 2) (hm : (env "max_iters").kind = 2)
    (hnd : (env "array").ndim = (env "array").shape.length)
    (h : passes Generated.guards_segmentation_slic env = true) : PreSlic env := by
  simp only [Generated.guards_segmentation_slic, passes, List.all_cons, List.all_nil, Atom.rejects, isArr, isInt,
    ha, hs, hm, Bool.and_true, Bool.true_and, Bool.not_eq_true', Bool.and_eq_true, beq_self_eq_true,
    decide_eq_false_iff_not, Bool.not_false, Bool.and_eq_false_iff] at h
  obtain ⟨h1, h2, h3, h4, h5⟩ := h
  have hnd3 : (env "array").ndim = 3 := by simpa using h1
  have hlen : (env "array").shape.length = 3 := by omega
  unfold PreSlic
  refine ⟨hnd3, ?_, ?_, ?_, ?_, ?_⟩
  · rcases h2 with h2 | h2
    · simpa using h2
    · omega
  · omega
  · omega
  · rcases h4 with h4 | h4
    · omega
    · omega
  · rcases h4 with h4 | h4
    · omega
    · omega

/-- **C11-T2 (slic seeding terminates and is non-empty).** Under the precondition (`S ≥ 1`, `S/2 < N`) the seeding loop
`for (y = S/2; y < N; y += S)` — run with fuel `N` — places at least one seed and every seed is inside `[0, N)`. -/
theorem C11_slic_seeds_nonempty_in_range (S N : Nat) (hN : S / 2 < N) :
    (seeds S N).length ≥ 1 ∧ ∀ y ∈ seeds S N, y < N := by
  constructor
  · unfold seeds
    obtain ⟨n, rfl⟩ : ∃ n, N = n + 1 := ⟨N - 1, by omega⟩
    simp [seedLoop, hN]
  · have : ∀ fuel y0, ∀ y ∈ seedLoop S N fuel y0, y < N := by
      intro fuel
      induction fuel with
      | zero => intro y0 y hy; simp [seedLoop] at hy
      | succ k ih =>
        intro y0 y hy
        simp only [seedLoop] at hy
        split at hy
        · rcases List.mem_cons.mp hy with rfl | hy
          · assumption
          · exact ih _ y hy
        · simp at hy
    intro y hy
    exact this N (S / 2) y hy

/-- **C11-T2' (fuel is sufficient).** With `S ≥ 1` the loop stops by itself within `N` steps: more fuel changes nothing. -/
theorem C11_slic_seed_fuel_sufficient (S N : Nat) (hS : 1 ≤ S) :
    ∀ fuel y, N ≤ y + fuel → seedLoop S N (fuel + 1) y = seedLoop S N fuel y := by
  intro fuel
  induction fuel with
  | zero => intro y h; simp [seedLoop]; omega
  | succ k ih =>
    intro y h
    have e1 : seedLoop S N (k + 1 + 1) y = if y < N then y :: seedLoop S N (k + 1) (y + S) else [] := rfl
    have e2 : seedLoop S N (k + 1) y = if y < N then y :: seedLoop S N k (y + S) else [] := rfl
    rw [e1, e2]
    split
    · rw [ih (y + S) (by omega)]
    · rfl

/-- **C11-T1 (2-D kernels).** `find`, `close_holes` and `convexhull` reach their 2-D kernels only with a matrix: if the
current wrapper guards pass on an ndarray argument, its rank is 2. -/
theorem C11_2d_guards_imply_pre (env : Env) :
    ((env "f").kind = 1 → passes Generated.guards_convolve_find env = true → Pre2D "f" env) ∧
    ((env "ref").kind = 1 → passes Generated.guards_morph_close_holes env = true → Pre2D "ref" env) ∧
    ((env "bwimg").kind = 1 → passes Generated.guards_polygon_convexhull env = true → Pre2D "bwimg" env) := by
  refine ⟨?_, ?_, ?_⟩ <;> intro hk h <;>
    simp [Generated.guards_convolve_find, Generated.guards_morph_close_holes, Generated.guards_polygon_convexhull,
      passes, Atom.rejects, isArr, hk] at h <;> (unfold Pre2D; first | exact h | omega | simp_all)

/-- **C11-T1 (cwatershed).** The markers are read at the flat positions of the surface: the wrapper lets the kernel run
only when both arrays have the same shape. -/
theorem C11_cwatershed_guards_imply_pre (env : Env) (hs : (env "surface").kind = 1) (hm : (env "markers").kind = 1)
    (h : passes Generated.guards_morph_cwatershed env = true) : PreCwatershed env := by
  unfold PreCwatershed
  simp [Generated.guards_morph_cwatershed, passes, Atom.rejects, isArr, hs, hm] at h
  simp_all

/-- **C11-T1 (disk).** `disk` builds its array only for a positive dimension. -/
theorem C11_disk_guards_imply_pre (env : Env) (hd : (env "dim").kind = 2)
    (h : passes Generated.guards_morph_disk env = true) : PreDisk env := by
  unfold PreDisk
  simp [Generated.guards_morph_disk, passes, Atom.rejects, isInt, hd] at h
  omega

/-- non-vacuity: a (14, 20, 3) array with spacer 16 passes the guards; a (14, 7, 3) array (no seed on the second axis:
the crash repaired by the guard) is rejected by atom 3 -/
example :
    passes Generated.guards_segmentation_slic (fun n =>
      if n = "array" then { kind := 1, ndim := 3, shape := [14, 20, 3] } else
      if n = "spacer" then { kind := 2, ival := 16 } else if n = "max_iters" then { kind := 2, ival := 8 } else {}) = true ∧
    firstReject Generated.guards_segmentation_slic (fun n =>
      if n = "array" then { kind := 1, ndim := 3, shape := [14, 7, 3] } else
      if n = "spacer" then { kind := 2, ival := 16 } else if n = "max_iters" then { kind := 2, ival := 8 } else {}) = some 3 := by
  decide

example : seeds 4 10 = [2, 6] := by decide

/-! ## Round 2 — native entry points, more kernels, composed corollaries, exit actions -/

/-- **C11-T1 (template_match).** If the guards of the native `py_template_match`, as extracted from the source now, all
pass, then the three arguments are ndarrays, image and template have the same rank, the output has the shape of the
image and is a writeable aligned C array. Independently the wrapper `convolve.template_match` lets ndarrays through
only with equal ranks. -/
theorem C11_template_match_guards_imply_pre (env : Env) :
    (npasses Generated.nativeGuards_convolve_template_match env = true →
      ((env "array").kind = 1 ∧ (env "template_").kind = 1 ∧ (env "output").kind = 1) ∧ PreTemplateMatch env) ∧
    ((env "f").kind = 1 → (env "template").kind = 1 → passes Generated.guards_convolve_template_match env = true →
      (env "f").ndim = (env "template").ndim) := by
  constructor
  · intro h
    simp [Generated.nativeGuards_convolve_template_match, npasses, NAtom.rejects, isArr] at h
    obtain ⟨⟨ha, ht, ho⟩, -, h3, h4, h5⟩ := h
    simp [ha, ht, ho] at h3 h4 h5
    exact ⟨⟨ha, ht, ho⟩, h3, h4, h5⟩
  · intro hf ht h
    simp [Generated.guards_convolve_template_match, passes, Atom.rejects, isArr, hf, ht] at h
    exact h

/-- **C11-T1 (find2d).** If the guards of the native `py_find2d` pass, all three arguments are ndarrays, image and
template are matrices, and the boolean output is a C array of the shape of the image. -/
theorem C11_find2d_guards_imply_pre (env : Env)
    (h : npasses Generated.nativeGuards_convolve_find2d env = true) :
    ((env "array").kind = 1 ∧ (env "target").kind = 1 ∧ (env "output").kind = 1) ∧ PreFind2d env := by
  simp [Generated.nativeGuards_convolve_find2d, npasses, NAtom.rejects, isArr] at h
  obtain ⟨⟨ha, ht, ho⟩, h2, h3, h4, -, -, h7⟩ := h
  simp [ha, ht, ho] at h2 h3 h4 h7
  exact ⟨⟨ha, ht, ho⟩, h2, h3, h4, h7⟩

/-- **C11-T1 (hitmiss).** The wrapper `morph.hitmiss` lets ndarrays through only with equal rank ≥ 1; the native
`py_hitmiss` runs only with three ndarrays, the result of the shape of the input and a C array. (Neither checks that no
axis of `input` or `Bc` has length zero: `C11_hitmiss_safe` shows that none is needed.) -/
theorem C11_hitmiss_guards_imply_pre (env : Env) :
    ((env "input").kind = 1 → (env "Bc").kind = 1 → passes Generated.guards_morph_hitmiss env = true → PreHitmissW env) ∧
    (npasses Generated.nativeGuards_morph_hitmiss env = true →
      ((env "array").kind = 1 ∧ (env "Bc").kind = 1 ∧ (env "res_a").kind = 1) ∧ PreHitmissN env) := by
  constructor
  · intro hi hb h
    simp [Generated.guards_morph_hitmiss, passes, Atom.rejects, isArr, hi, hb] at h
    unfold PreHitmissW
    omega
  · intro h
    simp [Generated.nativeGuards_morph_hitmiss, npasses, NAtom.rejects, isArr] at h
    obtain ⟨⟨ha, hb, hr⟩, h2, -, h4⟩ := h
    simp [ha, hr] at h2 h4
    exact ⟨⟨ha, hb, hr⟩, h2.symm, h4⟩

/-- **C11-T1 (majority_filter).** Wrapper: a matrix and `N ≥ 2`. Native `py_majority_filter`: boolean ndarrays, a
matrix, the result of the same shape and a C array. (The native entry point itself does not check `N ≥ 0`: only the
wrapper does.) -/
theorem C11_majority_guards_imply_pre (env : Env) :
    ((env "img").kind = 1 → (env "N").kind = 2 → passes Generated.guards_morph_majority_filter env = true → PreMajorityW env) ∧
    (npasses Generated.nativeGuards_morph_majority_filter env = true →
      ((env "array").kind = 1 ∧ (env "res_a").kind = 1) ∧ PreMajorityN env) := by
  constructor
  · intro hi hn h
    simp [Generated.guards_morph_majority_filter, passes, Atom.rejects, isArr, isInt, hi, hn] at h
    unfold PreMajorityW
    omega
  · intro h
    simp [Generated.nativeGuards_morph_majority_filter, npasses, NAtom.rejects, isArr] at h
    obtain ⟨ha, hr, -, -, h5, h6, h7⟩ := h
    simp [ha, hr] at h5 h6 h7
    exact ⟨⟨ha, hr⟩, h5, h6.symm, h7⟩

/-- **C11-T1 (dt / distance).** Native `py_dt`: when no guard takes its exit — the last one, `size == 0`, is an early
successful return in front of the loops, not an error — the array is 2-D and has no element-less axis, so `size/n`
divides by a positive `n`. Wrapper `distance`: rank ≥ 1 and at least one element. -/
theorem C11_dt_guards_imply_pre (env : Env) :
    (npasses Generated.nativeGuards_distance_dt env = true → (env "f").kind = 1 ∧ PreDt env) ∧
    ((env "bw").kind = 1 → passes Generated.guards_distance_distance env = true → PreDistance env) := by
  constructor
  · intro h
    simp [Generated.nativeGuards_distance_dt, npasses, NAtom.rejects, isArr] at h
    obtain ⟨hf, -, h3, h4⟩ := h
    simp [hf] at h3 h4
    exact ⟨hf, h3, h4⟩
  · intro hb h
    simp [Generated.guards_distance_distance, passes, Atom.rejects, isArr, hb] at h
    unfold PreDistance
    omega

/-- **C11-T1 (center_of_mass).** If the guards of the native `py_center_of_mass` pass and labels are given (not None),
then the labels are an ndarray of the SHAPE of the image (an aligned C array), hence have at least as many elements
as the image: the hypothesis `hs` of `C10_center_of_mass_in_bounds`. -/
theorem C11_center_of_mass_guards_imply_pre (env : Env)
    (h : npasses Generated.nativeGuards_center_of_mass_center_of_mass env = true) :
    (env "array").kind = 1 ∧ PreCenterOfMass env := by
  simp [Generated.nativeGuards_center_of_mass_center_of_mass, npasses, NAtom.rejects, isArr] at h
  obtain ⟨ha, h2, h3, -, h5⟩ := h
  refine ⟨ha, ?_⟩
  intro hk
  have hl : (env "labels_obj").kind = 1 := by omega
  simp [ha, hl] at h3 h5
  refine ⟨hl, h5.symm, h3, ?_⟩
  simp [Desc.size, h5]

/-- **C11-T1 (bbox).** `labeled.bbox` reaches `_bbox.bbox_labeled` only when no label is negative. -/
theorem C11_bbox_guards_imply_pre (env : Env) (hf : (env "f").kind = 1)
    (h : passes Generated.guards_labeled_bbox env = true) : PreBbox env := by
  simp [Generated.guards_labeled_bbox, passes, Atom.rejects, isArr, hf] at h
  exact h

/-- **C11-T1 (cooccurence).** With a caller-supplied 2-D `output` that passes the guards of `texture.cooccurence`, both
dimensions of the output exceed the largest pixel value. -/
theorem C11_cooccurence_guards_imply_pre (env : Env) (hf : (env "f").kind = 1) (ho : (env "output").kind = 1)
    (h2 : (env "output").shape.length = 2)
    (h : passes Generated.guards_features_texture_cooccurence env = true) : PreCooccurence env := by
  obtain ⟨a, b, hs⟩ := shape_of_len_two _ h2
  simp [Generated.guards_features_texture_cooccurence, passes, Atom.rejects, isArr, hf, ho, hs] at h
  unfold PreCooccurence
  simp [hs]
  omega

/-- **C11-T1 (the helper `_check_rank`).** `convolve._check_rank(Bc, rank, fname)` raises unless
`0 ≤ rank < count_nonzero(Bc)`. That `rank_filter` and `median_filter` hand the very objects it has checked to
`_convolve.rank_filter` is `C11_rank_guards_imply_pre` (round 3, from the extracted check flows). -/
theorem C11_check_rank_helper_pre (env : Env) (hr : (env "rank").kind = 2) (hb : (env "Bc").kind = 1)
    (h : passes Generated.guards_convolve__check_rank env = true) : PreRank env := by
  simp [Generated.guards_convolve__check_rank, passes, Atom.rejects, isArr, isInt, hr, hb] at h
  exact h

/-- **C11-T1 (convolve1d fast path).** The test in front of the call of `_convolve.convolve1d` in `convolve.convolve1d`,
read on the values of the locals at that point, gives `len(weights) < f.shape[axis]`. -/
theorem C11_convolve1d_reach_implies_pre (env : Env)
    (h : passes Generated.reach_convolve_convolve1d env = true) : PreConv1dFast env := by
  simp [Generated.reach_convolve_convolve1d, passes, Atom.rejects, isArr, isInt] at h
  unfold PreConv1dFast
  have := h.2
  simp only [List.getD_eq_getElem?_getD]
  omega

/-- **C11-T1 (shift / zoom_shift).** Wrapper `interpolate.shift`: every entry of the shift is finite. Native
`py_zoom_shift`: image and output are ndarrays and C arrays; a `shifts` (`zooms`) ndarray is a C array, and when it has
at least one axis its first axis has one entry per dimension of the image. (A 0-dimensional `shifts`/`zooms` array is
not rejected: `PyArray_DIM(shifts, 0)` is then read past the empty dimension list — only reachable by calling the
native function directly.) -/
theorem C11_zoom_shift_guards_imply_pre (env : Env) :
    (passes Generated.guards_interpolate_shift env = true → PreShift env) ∧
    (npasses Generated.nativeGuards_interpolate_zoom_shift env = true →
      ((env "array").kind = 1 ∧ (env "output").kind = 1) ∧ PreZoomShift env) := by
  constructor
  · intro h
    simp [Generated.guards_interpolate_shift, passes, Atom.rejects] at h
    exact h
  · intro h
    simp [Generated.nativeGuards_interpolate_zoom_shift, npasses, NAtom.rejects, isArr] at h
    obtain ⟨⟨ha, ho⟩, h2, h3, -, h5, -, h7, h8, -, h10⟩ := h
    simp [ha, ho] at h2 h3 h7 h10
    refine ⟨⟨ha, ho⟩, h2, h3, ?_, ?_⟩
    · intro hs
      simp [hs] at h8 h10
      refine ⟨h8, fun hl => ?_⟩
      rcases h10 with h10 | h10
      · simp [h10] at hl
      · simpa using h10
    · intro hz
      simp [hz] at h5 h7
      refine ⟨h5, fun hl => ?_⟩
      rcases h7 with h7 | h7
      · simp [h7] at hl
      · simpa using h7

/-- **C11-T1 (get_structuring_elem).** An ndarray `Bc` that passes the guards has the rank of the image and at least one
element (no zero-length axis). -/
theorem C11_structuring_elem_guards_imply_pre (env : Env) (ha : (env "A").kind = 1) (hb : (env "Bc").kind = 1)
    (h : passes Generated.guards_morph_get_structuring_elem env = true) : PreStructElem env := by
  simp [Generated.guards_morph_get_structuring_elem, passes, Atom.rejects, isArr, ha, hb] at h
  unfold PreStructElem
  omega

/-! ### composed corollaries: guards pass ⇒ every access of the C10 index model is in bounds -/

/-- **C11+C10 (find), links extracted.** Let the wrapper guards of `convolve.find` pass on ndarrays `f`, `template`
(well-formed descriptors `envW`), and let the descriptors `envN` of what the native `py_find2d` receives be linked to them
by the argument links the translator extracted from the CURRENT source of `convolve.find` for its call of
`_convolve.find2d` (`Generated.links_convolve_find__convolve_find2d`: `array` is `f` itself, `target` a rank-and-shape
preserving conversion of `template`, `output` a fresh C array of the shape of `f` — read off the table by `simp`, no
hand-written link hypothesis). Then `array` is `n0 × n1`, `target` is `t0 × t1`, `output` is `n0 × n1` in C order, and for a
template with at least one element per axis every access `array.at(y+sy, x+sx)`, `target.at(sy, sx)`, `out.at(y, x)` of the
C10 model (with the strict and with the inclusive loop bound) is in bounds. The native guards are not even needed. -/
theorem C11_find2d_safe (envW envN : Env) (incl : Bool)
    (hf : (envW "f").kind = 1) (ht : (envW "template").kind = 1)
    (wff : (envW "f").wf) (wft : (envW "template").wf)
    (hw : passes Generated.guards_convolve_find envW = true)
    (hl : Linked Generated.lookupTables Generated.links_convolve_find__convolve_find2d envW envN = true) :
    ∃ n0 n1 t0 t1 : Nat, (envN "array").shape = [n0, n1] ∧ (envN "target").shape = [t0, t1] ∧ (envN "output").shape = [n0, n1] ∧
      (envN "output").isCArray = true ∧
      (1 ≤ t0 → 1 ≤ t1 → ∀ a ∈ find2dAccesses n0 n1 t0 t1 incl, 0 ≤ a.i ∧ a.i < a.size) := by
  obtain ⟨h2, h3⟩ := (by
    simpa [Generated.guards_convolve_find, passes, Atom.rejects, isArr, hf, ht] using hw :
      (envW "f").ndim = 2 ∧ (envW "template").ndim = 2)
  simp [Linked, Generated.links_convolve_find__convolve_find2d, Link.holds, isArr, hf, ht] at hl
  obtain ⟨ha, ⟨-, hts⟩, ⟨-, hos⟩, hoc⟩ := hl
  obtain ⟨n0, n1, ea⟩ := shape_of_len_two (envW "f").shape (by rw [← wff]; exact h2)
  obtain ⟨t0, t1, et⟩ := shape_of_len_two (envW "template").shape (by rw [← wft]; exact h3)
  refine ⟨n0, n1, t0, t1, by rw [ha, ea], by rw [hts, et], by rw [hos, ea], hoc, ?_⟩
  intro h0 h1
  exact C10_find2d_in_bounds n0 n1 t0 t1 incl (by omega) (by omega)

/-- **C11+C10 (majority_filter), links extracted.** Let the wrapper guards of `morph.majority_filter` pass on an ndarray
`img` and an integer `N`; let `envN` be linked to the caller's arguments by the extracted links of the call of
`_morph.majority_filter` (`array` a rank-and-shape preserving conversion of `img`, `res_a` the output of `_get_output` for
it; the link of `N` is `other` — the wrapper may add 1 to an even `N` — so `N ≥ 2` at the native call is the hypothesis
`hN2`, which holds for `N` and for `N + 1` whenever the wrapper guard `N <= 1` has passed). Then `array` and `res_a` are
`rows × cols`, `res_a` is C-contiguous, every access of the C10 model is in bounds and all four `!=` loops leave through
their test. -/
theorem C11_majority_safe (envW envN : Env)
    (hi : (envW "img").kind = 1) (hN : (envW "N").kind = 2) (wfi : (envW "img").wf)
    (hw : passes Generated.guards_morph_majority_filter envW = true)
    (hl : Linked Generated.lookupTables Generated.links_morph_majority_filter__morph_majority_filter envW envN = true)
    (hN2 : (envN "N").ival = (envW "N").ival ∨ (envN "N").ival = (envW "N").ival + 1) :
    ∃ rows cols : Nat, (envN "array").shape = [rows, cols] ∧ (envN "res_a").shape = [rows, cols] ∧ (envN "res_a").isContig = true ∧
      (∀ a ∈ majorityAccesses rows cols (envN "N").ival, 0 ≤ a.i ∧ a.i < a.size) ∧
      majorityDone rows cols (envN "N").ival = true := by
  obtain ⟨h2, hNN⟩ := (C11_majority_guards_imply_pre envW).1 hi hN hw
  simp [Linked, Generated.links_morph_majority_filter__morph_majority_filter, Link.holds, isArr, hi] at hl
  obtain ⟨⟨-, has⟩, ⟨-, hrs⟩, hrc⟩ := hl
  obtain ⟨r, c, ea⟩ := shape_of_len_two (envW "img").shape (by rw [← wfi]; exact h2)
  have := C10_majority_in_bounds r c (envN "N").ival (by omega)
  exact ⟨r, c, by rw [has, ea], by rw [hrs, ea], hrc, this.1, this.2⟩

/-- **C11+C10 (hitmiss), links extracted, zero-length axes included.** Let the wrapper guards of `morph.hitmiss` pass on
ndarrays `input`, `Bc`, let `envN` be linked by the extracted links of the call of `_morph.hitmiss` (`array` and `Bc` are
`.view(dtype)`s / `astype` conversions of the caller's arguments: the same RANK), and let the guards of the native
`py_hitmiss` pass (well-formed descriptors). Then rank(`Bc`) = rank(`array`) ≥ 1, `res_a` has the shape of `array` and is a C
array, and the whole main loop of the C10 model dereferences only `res.at_flat(i)`, `i < N` and `input.at_flat(i + delta)`
inside the buffer and ends through `i == N` — for ALL axis lengths: NO guard excludes a zero-length axis of the image or of
`Bc` (`C11_hitmiss_zero_axis_passes_guards`), and none is needed: an image without elements is not iterated, an empty
`Bc` has no neighbours and `slack` is then re-armed with `W + 1 > 0` or the margin test of `C10_hitmiss_in_bounds` applies
(`Proofs/C11Hitmiss.lean: hmRun_ok_all`). This removes the `_partial` of round 2. -/
theorem C11_hitmiss_safe (envW envN : Env)
    (hi : (envW "input").kind = 1) (hB : (envW "Bc").kind = 1)
    (hw : passes Generated.guards_morph_hitmiss envW = true)
    (hl : Linked Generated.lookupTables Generated.links_morph_hitmiss__morph_hitmiss envW envN = true)
    (hn : npasses Generated.nativeGuards_morph_hitmiss envN = true)
    (wfa : (envN "array").wf) (wfb : (envN "Bc").wf) :
    (envN "res_a").shape = (envN "array").shape ∧ (envN "res_a").isCArray = true ∧
    (∀ a ∈ (hmRun (envN "array").shape (envN "Bc").shape true).1, 0 ≤ a.i ∧ a.i < a.size) ∧
    (hmRun (envN "array").shape (envN "Bc").shape true).2 = true := by
  obtain ⟨h1, h2⟩ := (C11_hitmiss_guards_imply_pre envW).1 hi hB hw
  obtain ⟨-, h3, h4⟩ := (C11_hitmiss_guards_imply_pre envN).2 hn
  simp [Linked, Generated.links_morph_hitmiss__morph_hitmiss, Link.holds, isArr, hi, hB] at hl
  obtain ⟨⟨-, hna⟩, -, hnb⟩ := hl
  unfold Desc.wf at wfa wfb
  have hne : (envN "array").shape ≠ [] := by
    intro e; rw [e] at wfa; simp at wfa; omega
  have hlen : (envN "Bc").shape.length = (envN "array").shape.length := by omega
  have := hmRun_ok_all (envN "array").shape (envN "Bc").shape hne hlen
  exact ⟨h3, h4, this.1, this.2⟩

/-- **C11+C10 (center_of_mass).** If the guards of the native `py_center_of_mass` pass and labels are given, then for
every label in `[0, max_label]` (the kernel rejects negative labels and computes `max_label` itself) every access of the
C10 model — `labels[i]` for `i < img.size` in a labels buffer of `labels.size` elements, `totals[label]`,
`centers[label·ndim + j]` — is in bounds. -/
theorem C11_center_of_mass_safe (env : Env) (nd maxlabel label : Int)
    (hn : npasses Generated.nativeGuards_center_of_mass_center_of_mass env = true)
    (hl : (env "labels_obj").kind ≠ 0) (h0 : 0 ≤ label) (h1 : label ≤ maxlabel) :
    ∀ a ∈ comAccesses nd maxlabel label (env "array").size (env "labels_obj").size, 0 ≤ a.i ∧ a.i < a.size := by
  obtain ⟨-, hp⟩ := C11_center_of_mass_guards_imply_pre env hn
  obtain ⟨-, -, -, hsz⟩ := hp hl
  exact C10_center_of_mass_in_bounds nd maxlabel label _ _ h0 h1 hsz

/-- **C11+C10 (convolve1d fast path).** Whenever `convolve.convolve1d` reaches the native `_convolve.convolve1d` (the
extracted branch test holds on the locals), every column index of the C10 model of the kernel — for the row length
`N1 = f.shape[axis]` and `Nf = len(weights)` weights, any border mode — is in `[0, N1)` and the first loop leaves
through its test. -/
theorem C11_convolve1d_safe (env : Env) (m : Mode)
    (h : passes Generated.reach_convolve_convolve1d env = true) :
    (∀ a ∈ conv1dAccesses m ((env "f").shape.getD (env "axis").ival.toNat 0) ((env "weights").shape.getD 0 0),
        0 ≤ a.i ∧ a.i < a.size) ∧
    conv1dDone ((env "f").shape.getD (env "axis").ival.toNat 0) ((env "weights").shape.getD 0 0) = true :=
  C10_convolve1d_python_guard m _ _ (by omega) (C11_convolve1d_reach_implies_pre env h)

/-- **C11+C10 (bbox).** If the guard of `labeled.bbox` passes on an ndarray `f` whose descriptor flag "some element is
negative" means what it says for the label at hand (`hflag`), then for every label up to the maximum the wrapper
allocates for, every `extrema[label·2·ndim + …]` of the C10 model is in range. -/
theorem C11_bbox_safe (env : Env) (nd maxlabel label : Int) (hf : (env "f").kind = 1)
    (h : passes Generated.guards_labeled_bbox env = true)
    (hflag : (env "f").hasNeg = false → 0 ≤ label) (hmax : label ≤ maxlabel) :
    ∀ a ∈ bboxAccesses nd maxlabel label, 0 ≤ a.i ∧ a.i < a.size :=
  (C10_bbox_labeled_in_bounds nd maxlabel label).1 (hflag (C11_bbox_guards_imply_pre env hf h)) hmax

/-- **C11+C10 (cooccurence).** With a caller-supplied 2-D `output` that passes the guards of `texture.cooccurence`,
`++res.at(v, v2)` is inside the output for all pixel values up to the maximum of `f` (`(env "f").ival`). -/
theorem C11_cooccurence_safe (env : Env) (v v2 : Int) (hf : (env "f").kind = 1) (ho : (env "output").kind = 1)
    (h2 : (env "output").shape.length = 2)
    (h : passes Generated.guards_features_texture_cooccurence env = true)
    (hv : v ≤ (env "f").ival) (hv2 : v2 ≤ (env "f").ival) :
    ∀ a ∈ coocAccesses ((env "output").shape.getD 0 0) ((env "output").shape.getD 1 0) v v2, 0 ≤ a.i ∧ a.i < a.size := by
  obtain ⟨h0, h1⟩ := C11_cooccurence_guards_imply_pre env hf ho h2 h
  exact C10_cooccurence_in_bounds _ _ (env "f").ival v v2 hv hv2 h0 h1

/-- **C11+C10 (dt).** If no guard of the native `py_dt` takes its exit (including the early return for an empty array),
the array is `n0 × n1` with `n0, n1 ≥ 1`, and along either axis (line length `n ∈ {n0, n1}`) every access of the C10
model of `dist_transform` is in range, under the two facts about the float comparisons that C10 states (no NaN). -/
theorem C11_dt_safe (env : Env) (cmp lt2 : Nat → Nat → Bool)
    (hn : npasses Generated.nativeGuards_distance_dt env = true) (wf : (env "f").wf)
    (hcmp : ∀ q, cmp q 0 = true) :
    ∃ n0 n1 : Nat, (env "f").shape = [n0, n1] ∧ 0 < n0 ∧ 0 < n1 ∧
      ∀ n, (n = n0 ∨ n = n1) → (∀ q, lt2 q (dtKmax cmp n) = false) →
        ∀ a ∈ dtAccesses cmp lt2 n, 0 ≤ a.i ∧ a.i < a.size := by
  obtain ⟨-, h2, h3⟩ := (C11_dt_guards_imply_pre env).1 hn
  obtain ⟨n0, n1, e⟩ := shape_of_len_two (env "f").shape (by rw [← wf]; exact h2)
  have hp := all_pos_of_shapeSize_ne_zero _ h3
  rw [e] at hp
  have p0 : 0 < n0 := hp n0 (by simp)
  have p1 : 0 < n1 := hp n1 (by simp)
  refine ⟨n0, n1, e, p0, p1, ?_⟩
  intro n hnn hlt
  have hpos : 0 < n := by rcases hnn with rfl | rfl <;> assumption
  exact (C10_dist_transform_in_bounds cmp lt2 n hpos hcmp hlt).1

/-! ### T3 — what a guard does when its test holds -/

/-- **C11+C10 (shift / zoom → zoom_shift).** Let the guards of the native `py_zoom_shift` pass on an `array` of at least
one element per axis (well-formed descriptor) and a 1-D `shifts` array. Then `array` is an aligned C array — its element
strides are the C strides of its shape — and `shifts` has exactly one entry per axis, so the kernel forms one
coordinate per axis (`coord`, after rounding/flooring; any integers: the wrapper's guard only has to keep them finite);
for every border mode and spline order, whenever no axis is flagged, every index `idxs[fi]` the kernel dereferences
(`array.data()[idxs[fi]]`, model `zsAccesses`) is in `[0, size)`. Composition of `C11_zoom_shift_guards_imply_pre` with
`C10_zoom_shift_in_bounds`. -/
theorem C11_zoom_shift_safe (env : Env) (m : Mode) (order : Nat) (coord starts : List Int)
    (hn : npasses Generated.nativeGuards_interpolate_zoom_shift env = true)
    (hsk : (env "shifts").kind = 1) (hs1 : 1 ≤ (env "shifts").shape.length)
    (hnd : (env "array").ndim = (env "array").shape.length)
    (hpos : ∀ d ∈ (env "array").shape, 0 < d)
    (hc : coord.length = (env "shifts").shape.getD 0 0)
    (hst : C10.zsStarts m order (env "array").shape coord = some starts) :
    (env "array").isCArray = true ∧
    ∀ idx ∈ C10.zsAccesses (env "array").shape (C10.cStrides (env "array").shape) order starts,
      0 ≤ idx ∧ idx < (shapeSize (env "array").shape : Int) := by
  obtain ⟨_, hca, _, hsh, _⟩ := (C11_zoom_shift_guards_imply_pre env).2 hn
  have hlen : coord.length = (env "array").shape.length := by
    rw [hc, (hsh hsk).2 hs1, hnd]
  have hsl : starts.length = (env "array").shape.length :=
    C10.zsStarts_length m order (env "array").shape coord starts hlen hst
  exact ⟨hca, (C10_zoom_shift_in_bounds (env "array").shape order starts hpos hsl).2.1⟩

/-- **C11-T3 (rejects are exceptions).** Over the whole generated table of exit actions (every guard atom of the 51
wrappers and of the 52 native entry points; the table is aligned with the guard lists — its second component is the
length of the list): every wrapper guard `raise`s; every native guard either sets a Python error and returns NULL
(`PyErr_SetString`/`PyErr_Format`/`PyErr_NoMemory`/`throw PythonException`, or `!PyArg_ParseTuple`, or a failed callee
that has set the error itself: numpy allocation, `dcoeffs`, `check_pyramid_parameters`), or is an early successful
return (`py_dt` on an empty array, `py_majority_filter` with a window larger than the image) — EXCEPT exactly the two
type/layout tests of `_convex.convexhull` (`!PyArray_ISCARRAY(array)`, `!PyArray_EquivTypenums(PyArray_TYPE(array),
NPY_BOOL)`), which `return 0` with no error set: CPython turns that into `SystemError: NULL result without error`
(still an exception, never a crash; reachable only by calling `_convex.convexhull` directly, the wrapper converts
with `np.require(…, 'CAW')`). -/
theorem C11_rejects_are_exceptions :
    (Generated.guardActionTable.all fun e => e.2.1 == e.2.2.length) = true ∧
    ((Generated.guardActionTable.filter fun e => e.1 != "n:_convex.convexhull").all fun e =>
        e.2.2.all fun a => actionIsException a || a == 5 || actionIsEarlyReturn a) = true ∧
    (Generated.guardActionTable.filter fun e => e.2.2.any (· == 3)).map (·.2.2) = [[2, 3, 3]] ∧
    (Generated.guardActionTable.filter fun e => e.2.2.any actionIsEarlyReturn).map (·.2.2) =
      [[2, 1, 1, 1, 4], [2, 1, 1, 1, 1, 1, 1, 1, 4, 4]] ∧
    ((Generated.guardActionTable.filter fun e => (e.1.toList.take 2 == "w:".toList)).all fun e => e.2.2.all (· == 0)) = true := by
  decide

/-! non-vacuity (round 2): descriptors that pass / are rejected by the extracted native guards -/
example :
    npasses Generated.nativeGuards_convolve_find2d (fun n =>
      if n = "array" then { kind := 1, ndim := 2, shape := [3, 4], tnum := 2, flags := 7 } else
      if n = "target" then { kind := 1, ndim := 2, shape := [2, 2], tnum := 2, flags := 7 } else
      if n = "output" then { kind := 1, ndim := 2, shape := [3, 4], tnum := 0, flags := 7 } else {}) = true ∧
    nfirstReject Generated.nativeGuards_convolve_find2d (fun n =>
      if n = "array" then { kind := 1, ndim := 2, shape := [3, 4], tnum := 2, flags := 7 } else
      if n = "target" then { kind := 1, ndim := 1, shape := [2], tnum := 2, flags := 7 } else
      if n = "output" then { kind := 1, ndim := 2, shape := [3, 4], tnum := 0, flags := 7 } else {}) = some 3 := by
  decide
/-- labels of another shape are rejected by atom 5 (the guard added by the repair of center_of_mass); None labels pass -/
example :
    nfirstReject Generated.nativeGuards_center_of_mass_center_of_mass (fun n =>
      if n = "array" then { kind := 1, ndim := 2, shape := [3, 4], tnum := 12, flags := 7 } else
      if n = "labels_obj" then { kind := 1, ndim := 2, shape := [3, 3], tnum := 5, flags := 7 } else {}) = some 5 ∧
    npasses Generated.nativeGuards_center_of_mass_center_of_mass (fun n =>
      if n = "array" then { kind := 1, ndim := 2, shape := [3, 4], tnum := 12, flags := 7 } else {}) = true := by
  decide
/-- an empty 2-D array takes the early return of `py_dt` (atom 4, action 4); hitmiss with `Bc` of another rank is
    rejected by the wrapper; a structuring element with a zero-length axis by `get_structuring_elem` -/
example :
    nfirstReject Generated.nativeGuards_distance_dt (fun n =>
      if n = "f" then { kind := 1, ndim := 2, shape := [0, 3], tnum := 12, flags := 7 } else {}) = some 4 ∧
    firstReject Generated.guards_morph_hitmiss (fun n =>
      if n = "input" then { kind := 1, ndim := 2, shape := [4, 4] } else
      if n = "Bc" then { kind := 1, ndim := 1, shape := [3] } else {}) = some 0 ∧
    firstReject Generated.guards_morph_get_structuring_elem (fun n =>
      if n = "A" then { kind := 1, ndim := 2, shape := [4, 4] } else
      if n = "Bc" then { kind := 1, ndim := 2, shape := [0, 3] } else {}) = some 1 := by
  decide
example : Generated.guardActionTable.length = 103 ∧ Generated.nativeGuardTable.length = 52 := by decide

/-! ## Round 3 — argument links extracted from the source, T1 for the remaining kernels, composed corollaries -/

/-- **C11 (links, border mode).** Over the whole extracted link table (every call of a native entry point in every
Python module of the package): each C parameter named `mode` receives `T[p]` for a module-level dictionary `T` whose
values — extracted into `Generated.lookupTables` — all lie in `0 … 5`, the six `ExtendMode` values the kernels switch on
(an unknown key raises `KeyError` in Python before the call). No native entry point checks its `mode` itself. -/
theorem C11_mode_links_in_range :
    (Generated.argLinkTable.all fun e => e.2.2.2.all fun pl =>
      match pl.2 with
      | .lookup t _ => pl.1 == "mode" &&
          Generated.lookupTables.any (fun tb => tb.1 == t && tb.2.all (fun v => decide (0 ≤ v) && decide (v ≤ 5)))
      | _ => pl.1 != "mode") = true := by
  decide

/-- the meaning of a `lookup` link into `mode2int` on a descriptor: an integer in `0 … 5` -/
theorem C11_mode_link_sound (envW : Env) (d : Desc) (p : String)
    (h : (Link.lookup "mode2int" p).holds Generated.lookupTables envW d = true) : d.kind = 2 ∧ modeInRange d := by
  simp [Link.holds, Generated.lookupTables, isInt] at h
  refine ⟨h.1, ?_⟩
  unfold modeInRange
  rcases h.2 with h | h | h | h | h | h <;> omega

/-- **C11-T1 (convolve).** Native `py_convolve`: `array` and `filter` are ndarrays of one element type and the same
rank; `output` is `None` or an ndarray, and then a C array of the shape (and type) of `array`. Wrapper
`convolve.convolve`: ndarrays `f`, `weights` pass only with equal ranks. -/
theorem C11_convolve_guards_imply_pre (env : Env) :
    (npasses Generated.nativeGuards_convolve_convolve env = true →
      ((env "array").kind = 1 ∧ (env "filter").kind = 1 ∧ ((env "output").kind = 0 ∨ (env "output").kind = 1)) ∧ PreConvolve env) ∧
    ((env "f").kind = 1 → (env "weights").kind = 1 → passes Generated.guards_convolve_convolve env = true →
      (env "f").ndim = (env "weights").ndim) := by
  constructor
  · intro h
    simp [Generated.nativeGuards_convolve_convolve, npasses, NAtom.rejects, isArr] at h
    obtain ⟨⟨ha, hf⟩, -, h3, h4, h5, -, h7⟩ := h
    simp [ha, hf] at h3 h5
    refine ⟨⟨ha, hf, h4⟩, h3, ?_⟩
    intro ho
    have ho1 : (env "output").kind = 1 := by omega
    simp [ho, ho1] at h5 h7
    exact ⟨h5, h7⟩
  · intro hf hw h
    simpa [Generated.guards_convolve_convolve, passes, Atom.rejects, isArr, hf, hw] using h

/-- **C11+C10 (convolve), links extracted.** Let the wrapper guard of `convolve.convolve` pass on ndarrays `f`,
`weights` (well-formed descriptors, `f` with at least one element per axis) and let `envN` be linked by the extracted
links of the call of `_convolve.convolve` (`array` is `f` or, since 4f4d652 (`out=` sharing memory with `f`), a copy of it: the link is `norm f`, same rank and shape; `filter` a rank-and-shape preserving conversion of
`weights`, `output` from `_get_output(f, out)`, `mode` a value of `mode2int`). Then the filter has the rank of the array,
the output has its shape and is contiguous, the mode is one of the six border modes, and for EVERY border mode the offset
table the filter iterator builds (C10 B1, `filterIdx`) holds only the flag or indices inside the array. -/
theorem C11_convolve_safe (envW envN : Env) (m : Mode)
    (hf : (envW "f").kind = 1) (hwk : (envW "weights").kind = 1)
    (wff : (envW "f").wf) (wfw : (envW "weights").wf)
    (hw : passes Generated.guards_convolve_convolve envW = true)
    (hl : Linked Generated.lookupTables Generated.links_convolve_convolve__convolve_convolve envW envN = true)
    (hpos : ∀ d ∈ (envW "f").shape, 0 < d) :
    (envN "filter").shape.length = (envN "array").shape.length ∧ (envN "output").shape = (envN "array").shape ∧
    (envN "output").isContig = true ∧ modeInRange (envN "mode") ∧
    filterOk m (envN "array").shape (envN "filter").shape = true ∧
    ∀ i ∈ filterIdx m (envN "array").shape (envN "filter").shape, i = -1 ∨ (0 ≤ i ∧ i < (shapeSize (envN "array").shape : Int)) := by
  have hr := (C11_convolve_guards_imply_pre envW).2 hf hwk hw
  have hmode : (Link.lookup "mode2int" "mode").holds Generated.lookupTables envW (envN "mode") = true := by
    simp [Linked, Generated.links_convolve_convolve__convolve_convolve] at hl
    exact hl.2.2.2
  simp [Linked, Generated.links_convolve_convolve__convolve_convolve, Link.holds, isArr, hf, hwk] at hl
  obtain ⟨⟨-, ha⟩, ⟨-, hfs⟩, ⟨⟨-, hos⟩, hoc⟩, -⟩ := hl
  unfold Desc.wf at wff wfw
  have hlen : (envN "filter").shape.length = (envN "array").shape.length := by rw [hfs, ha]; omega
  have := C10_filter_table_ok m (envN "array").shape (envN "filter").shape (by rw [ha]; exact hpos) hlen
  exact ⟨hlen, by rw [hos, ha], hoc, (C11_mode_link_sound envW _ _ hmode).2, this.1, this.2⟩

/-- **C11-T1 (erode, dilate).** Native `py_erode` / `py_dilate`: three ndarrays of one element type, `Bc` of the rank of
`array`, `output` of its shape. -/
theorem C11_morph_guards_imply_pre (env : Env) :
    (npasses Generated.nativeGuards_morph_erode env = true →
      ((env "array").kind = 1 ∧ (env "Bc").kind = 1 ∧ (env "output").kind = 1) ∧ PreMorph env) ∧
    (npasses Generated.nativeGuards_morph_dilate env = true →
      ((env "array").kind = 1 ∧ (env "Bc").kind = 1 ∧ (env "output").kind = 1) ∧ PreMorph env) := by
  constructor <;> intro h
  · simp [Generated.nativeGuards_morph_erode, npasses, NAtom.rejects, isArr] at h
    obtain ⟨⟨ha, hb, ho⟩, h2, h3, h4⟩ := h
    simp [ha, hb, ho] at h2 h3 h4
    exact ⟨⟨ha, hb, ho⟩, h4, h2.symm, h3.1, h3.2⟩
  · simp [Generated.nativeGuards_morph_dilate, npasses, NAtom.rejects, isArr] at h
    obtain ⟨⟨ha, hb, ho⟩, h2, h3, h4⟩ := h
    simp [ha, hb, ho] at h2 h3 h4
    exact ⟨⟨ha, hb, ho⟩, h4, h2.symm, h3.1, h3.2⟩

/-- **C11+C10 (erode / dilate), links extracted.** For an ndarray `A` with at least one element per axis: with the
extracted links of `morph.erode` → `_morph.erode` (the links of `morph.dilate` → `_morph.dilate` are the same list: second
conjunct) — `array` is `A` or, since be1beaf (`out=` sharing memory with `A`), a copy of it: the link is `norm A`, same rank and shape —, `Bc` comes from `get_structuring_elem(A, Bc)` (the rank of `A`, at least one element:
NON-EMPTY), `output` from `_get_output(A, out)` — the structuring element has the rank of the array and no zero-length
axis, the output has the shape of the array, and for every border mode the offset table of the filter iterator (C10 B1)
holds only the flag or indices inside the array. -/
theorem C11_erode_dilate_safe (envW envN : Env) (m : Mode)
    (hA : (envW "A").kind = 1) (wfA : (envW "A").wf)
    (hl : Linked Generated.lookupTables Generated.links_morph_erode__morph_erode envW envN = true)
    (hpos : ∀ d ∈ (envW "A").shape, 0 < d) :
    Generated.links_morph_dilate__morph_dilate = Generated.links_morph_erode__morph_erode ∧
    (envN "Bc").shape.length = (envN "array").shape.length ∧ (∀ d ∈ (envN "Bc").shape, 0 < d) ∧
    (envN "output").shape = (envN "array").shape ∧
    filterOk m (envN "array").shape (envN "Bc").shape = true ∧
    ∀ i ∈ filterIdx m (envN "array").shape (envN "Bc").shape, i = -1 ∨ (0 ≤ i ∧ i < (shapeSize (envN "array").shape : Int)) := by
  simp [Linked, Generated.links_morph_erode__morph_erode, Link.holds, isArr, hA] at hl
  obtain ⟨ha, ⟨⟨⟨-, hbn⟩, hbw⟩, hbs⟩, ⟨-, hos⟩, -⟩ := hl
  unfold Desc.wf at wfA
  have hlen : (envN "Bc").shape.length = (envN "array").shape.length := by rw [ha.2]; omega
  have hbpos := all_pos_of_shapeSize_ne_zero (envN "Bc").shape (by unfold Desc.size at hbs; omega)
  have := C10_filter_table_ok m (envN "array").shape (envN "Bc").shape (by rw [ha.2]; exact hpos) hlen
  exact ⟨by decide, hlen, hbpos, by rw [hos, ha.2], this.1, this.2⟩

/-- **C11-T1 (label).** Native `py_label`: `array` (labeled in place) is an int32 C array and `filter` has its element
type. With the extracted links of `labeled.label` → `_labeled.label` on an ndarray `array`: what is labeled is the output
of `_get_output(array, out, …, np.int32)` — of the SHAPE of the caller's array — and the structuring element comes from
`get_structuring_elem` for it: the rank of the array, non-empty. (The native entry point does not compare the ranks
itself.) -/
theorem C11_label_guards_imply_pre (envW envN : Env) :
    (npasses Generated.nativeGuards_labeled_label envN = true →
      ((envN "array").kind = 1 ∧ (envN "filter").kind = 1) ∧ PreLabel envN) ∧
    ((envW "array").kind = 1 →
      Linked Generated.lookupTables Generated.links_labeled_label__labeled_label envW envN = true →
      (envN "array").shape = (envW "array").shape ∧ (envN "filter").ndim = (envN "array").ndim ∧ 0 < (envN "filter").size) := by
  constructor
  · intro h
    simp [Generated.nativeGuards_labeled_label, npasses, NAtom.rejects, isArr] at h
    obtain ⟨⟨ha, hf⟩, h2, h3, h4⟩ := h
    simp [ha, hf] at h2 h3 h4
    exact ⟨⟨ha, hf⟩, by simpa [canonT] using h3, h4, h2⟩
  · intro hk hl
    simp [Linked, Generated.links_labeled_label__labeled_label, Link.holds, isArr, hk] at hl
    obtain ⟨⟨⟨⟨-, han⟩, has⟩, -⟩, ⟨⟨-, hfn⟩, -⟩, hfs⟩ := hl
    exact ⟨has, by omega, hfs⟩

/-- **C11+C10 (label).** With the links of `labeled.label` on an ndarray with at least one element per axis (well formed)
and a well-formed element descriptor: for every border mode the offset table of the filter iterator over the labeled
array and the structuring element (C10 B1) holds only the flag or indices inside the array. -/
theorem C11_label_safe (envW envN : Env) (m : Mode)
    (hk : (envW "array").kind = 1)
    (hl : Linked Generated.lookupTables Generated.links_labeled_label__labeled_label envW envN = true)
    (wfa : (envN "array").wf) (wff : (envN "filter").wf)
    (hpos : ∀ d ∈ (envW "array").shape, 0 < d) :
    filterOk m (envN "array").shape (envN "filter").shape = true ∧
    ∀ i ∈ filterIdx m (envN "array").shape (envN "filter").shape, i = -1 ∨ (0 ≤ i ∧ i < (shapeSize (envN "array").shape : Int)) := by
  obtain ⟨hs, hr, -⟩ := (C11_label_guards_imply_pre envW envN).2 hk hl
  unfold Desc.wf at wfa wff
  exact C10_filter_table_ok m (envN "array").shape (envN "filter").shape (by rw [hs]; exact hpos) (by omega)

/-- **C11-T1 (rank_filter, median_filter) — the data flow of `_check_rank` modelled.** `envH` describes the arguments of the
helper `convolve._check_rank(Bc, rank, fname)`, `envN` those of the native `_convolve.rank_filter`. The translator's value
numbering of the locals of `convolve.rank_filter` and `convolve.median_filter` (`Generated.checkFlowTable`, rows 1 and 0)
shows that the very `Bc` object the helper has checked, and the checked `rank` (`int(rank)` of it in `median_filter`), are
what the native entry point receives, with no store in between. Hence: if the helper's guards — as extracted — pass, the
rank selects an element of the neighbourhood at the native call: `0 ≤ rank < count_nonzero(Bc)`. The native guards add:
same rank of array and `Bc`, one element type, a C-array output. -/
theorem C11_rank_guards_imply_pre (envH envN : Env) (hr : (envH "rank").kind = 2) (hb : (envH "Bc").kind = 1)
    (h : passes Generated.guards_convolve__check_rank envH = true) :
    Generated.checkFlowTable.take 2 =
      [("convolve.median_filter", "_check_rank", "_convolve.rank_filter", 0, [("Bc", "Bc", 0), ("rank", "rank", 1)]),
       ("convolve.rank_filter", "_check_rank", "_convolve.rank_filter", 0, [("Bc", "Bc", 0), ("rank", "rank", 0)])] ∧
    (Flows [("Bc", "Bc", 0), ("rank", "rank", 0)] envH envN = true → PreRank envN) ∧
    (Flows [("Bc", "Bc", 0), ("rank", "rank", 1)] envH envN = true → PreRank envN) ∧
    (npasses Generated.nativeGuards_convolve_rank_filter envN = true → PreRankN envN) := by
  have hp := C11_check_rank_helper_pre envH hr hb h
  unfold PreRank at hp ⊢
  refine ⟨by rfl, ?_, ?_, ?_⟩
  · intro hf
    simp [Flows, flowHolds] at hf
    rw [hf.1, hf.2]; exact hp
  · intro hf
    simp [Flows, flowHolds, isInt, hr] at hf
    rw [hf.1, hf.2.2]; exact hp
  · intro hn
    simp [Generated.nativeGuards_convolve_rank_filter, npasses, NAtom.rejects, isArr] at hn
    obtain ⟨ha, hb', ho, h4, h5, h6, h7⟩ := hn
    simp [ha, hb', ho] at h4 h5 h6 h7
    exact ⟨h5, h4, h6, h7⟩

/-- **C11 (hitmiss): the precondition "every axis positive" is NOT implied by the guards.** A 4 × 4 image with a 0 × 3
structuring element (and a 4 × 4 C-array result) passes every guard of the wrapper `morph.hitmiss` and of the native
`py_hitmiss`, and is linked by the extracted links; the hypothesis `hb` of `C10_hitmiss_in_bounds` fails for it (`C11_hitmiss_safe` covers it all the same). (Run on
the real code by the corpus cases `corpus/C11/hitmiss_zero_axis_*.json` under AddressSanitizer: no crash — with a
zero-length axis the neighbour list is empty, so only `res.at_flat(i)`, `i < N`, is touched.) -/
theorem C11_hitmiss_zero_axis_passes_guards :
    let envW : Env := fun n =>
      if n = "input" then { kind := 1, ndim := 2, dcls := 2, shape := [4, 4], tnum := 2, flags := 7 } else
      if n = "Bc" then { kind := 1, ndim := 2, dcls := 2, shape := [0, 3], tnum := 2, flags := 7 } else {}
    let envN : Env := fun n =>
      if n = "array" then { kind := 1, ndim := 2, dcls := 2, shape := [4, 4], tnum := 2, flags := 7 } else
      if n = "Bc" then { kind := 1, ndim := 2, dcls := 2, shape := [0, 3], tnum := 2, flags := 7 } else
      if n = "res_a" then { kind := 1, ndim := 2, dcls := 2, shape := [4, 4], tnum := 2, flags := 7 } else {}
    passes Generated.guards_morph_hitmiss envW = true ∧ npasses Generated.nativeGuards_morph_hitmiss envN = true ∧
    Linked Generated.lookupTables Generated.links_morph_hitmiss__morph_hitmiss envW envN = true ∧
    ¬ (∀ d ∈ (envN "Bc").shape, 0 < d) := by
  decide

/-- **C11-T1 (surf, interest_points, pyramid).** The guards of the three native SURF entry points — with the tests of
`check_pyramid_parameters` (added by the repair of the octave/scale crashes) inlined by the translator — let the pyramid
be built only for a 2-D array, `1 ≤ nr_octaves ≤ 30`, `nr_intervals ≥ 1`, `initial_step_size ≥ 1` (the integer parameters
are C ints by the `"Oiii…"` format). The remaining test of the checker (filter sizes fit an `int`) is floating point and
stays opaque. -/
theorem C11_surf_guards_imply_pre (env : Env)
    (ho : (env "nr_octaves").kind = 2) (hi : (env "nr_intervals").kind = 2) (hs : (env "initial_step_size").kind = 2) :
    (npasses Generated.nativeGuards_surf_surf env = true → (env "array").kind = 1 ∧ (env "array").tnum = 12 ∧ PreSurf env) ∧
    (npasses Generated.nativeGuards_surf_interest_points env = true → (env "array").kind = 1 ∧ PreSurf env) ∧
    (npasses Generated.nativeGuards_surf_pyramid env = true → (env "array").kind = 1 ∧ PreSurf env) := by
  refine ⟨?_, ?_, ?_⟩ <;> intro h
  · simp [Generated.nativeGuards_surf_surf, npasses, NAtom.rejects, isArr, isInt, ho, hi, hs] at h
    obtain ⟨ha, h2, h3, h4, h5, h6, h7⟩ := h
    simp [ha] at h2 h3
    exact ⟨ha, h3, h2, by omega, h5, by omega, by omega⟩
  · simp [Generated.nativeGuards_surf_interest_points, npasses, NAtom.rejects, isArr, isInt, ho, hi, hs] at h
    obtain ⟨ha, h2, h4, h5, h6, h7⟩ := h
    simp [ha] at h2
    exact ⟨ha, h2, by omega, h5, by omega, by omega⟩
  · simp [Generated.nativeGuards_surf_pyramid, npasses, NAtom.rejects, isArr, isInt, ho, hi, hs] at h
    obtain ⟨ha, h2, h4, h5, h6, h7⟩ := h
    simp [ha] at h2
    exact ⟨ha, h2, by omega, h5, by omega, by omega⟩

/-- **C11-T1 (shift, zoom, spline_filter: spline order).** The helper `interpolate._check_interpolate(array, order, …)`
raises unless `1 ≤ order ≤ 4`; by the translator's value numbering (`Generated.checkFlowTable`, rows 2–5) the `order` it
has checked — reached from `shift` and `zoom` through `_maybe_filter` — is the very object passed as `order` to
`_interpolate.zoom_shift` / `_interpolate.spline_filter1d`. Together with `C11_zoom_shift_guards_imply_pre` (finite shift,
C arrays, one shift/zoom entry per axis). -/
theorem C11_interpolate_order_guards_imply_pre (envH envN : Env) (ho : (envH "order").kind = 2)
    (h : passes Generated.guards_interpolate__check_interpolate envH = true) :
    (Generated.checkFlowTable.drop 2).map (fun e => (e.1, e.2.2.1, e.2.2.2.2)) =
      [("interpolate.spline_filter1d", "_interpolate.spline_filter1d", [("order", "order", 0)]),
       ("interpolate.spline_filter", "_interpolate.spline_filter1d", [("order", "order", 0)]),
       ("interpolate.zoom", "_interpolate.zoom_shift", [("order", "order", 0)]),
       ("interpolate.shift", "_interpolate.zoom_shift", [("order", "order", 0)])] ∧
    (Flows [("order", "order", 0)] envH envN = true → PreOrder envN) := by
  refine ⟨by rfl, ?_⟩
  intro hf
  simp [Flows, flowHolds] at hf
  simp [Generated.guards_interpolate__check_interpolate, passes, Atom.rejects, isInt, ho] at h
  unfold PreOrder
  rw [hf]; omega

/-- **C11+C10 (haar, ihaar, daubechies, idaubechies): odd sizes are safe.** If the guards of a native wavelet entry point
pass, the array is a matrix `n0 × n1` (well-formed descriptor); NO guard asks for even sizes, and none is needed: for every
row length `n1 ≥ 0` — odd included — and every number of coefficients, every access of the C10 models of `haar`, `ihaar`
(any column step ≥ 1), `wavelet`, `iwavelet` is in bounds and the loops leave through their tests. (The second call of each
wrapper passes `f.T`: link `other`, a matrix again.) -/
theorem C11_wavelet_safe (env : Env) (wf : (env "array").wf) :
    (npasses Generated.nativeGuards_convolve_haar env = true ∨ npasses Generated.nativeGuards_convolve_ihaar env = true ∨
     npasses Generated.nativeGuards_convolve_wavelet env = true ∨ npasses Generated.nativeGuards_convolve_iwavelet env = true ∨
     npasses Generated.nativeGuards_convolve_daubechies env = true ∨ npasses Generated.nativeGuards_convolve_idaubechies env = true) →
    PreWavelet env ∧ ∃ n0 n1 : Nat, (env "array").shape = [n0, n1] ∧
      (∀ a ∈ haarAccesses n1, 0 ≤ a.i ∧ a.i < a.size) ∧ haarDone n1 = true ∧
      (∀ step : Int, 1 ≤ step → ∀ a ∈ ihaarAccesses n1 step, 0 ≤ a.i ∧ a.i < a.size) ∧
      ∀ nc : Nat, (∀ a ∈ waveletAccesses n1 nc, 0 ≤ a.i ∧ a.i < a.size) ∧ waveletDone n1 nc = true ∧
        ∀ step : Int, 1 ≤ step → ∀ a ∈ iwaveletAccesses n1 nc step, 0 ≤ a.i ∧ a.i < a.size := by
  intro h
  have h2 : (env "array").ndim = 2 := by
    rcases h with h | h | h | h | h | h <;>
      simp [Generated.nativeGuards_convolve_haar, Generated.nativeGuards_convolve_ihaar, Generated.nativeGuards_convolve_wavelet,
        Generated.nativeGuards_convolve_iwavelet, Generated.nativeGuards_convolve_daubechies, Generated.nativeGuards_convolve_idaubechies,
        npasses, NAtom.rejects, isArr] at h <;> first | omega | grind
  obtain ⟨n0, n1, e⟩ := shape_of_len_two (env "array").shape (by rw [← wf]; exact h2)
  have hh := C10_haar_in_bounds n1 (by omega)
  exact ⟨h2, n0, n1, e, hh.1, hh.2.1, hh.2.2, fun nc => C10_wavelet_in_bounds n1 nc (by omega) (by omega)⟩

/-- **C11+C10 (thin).** Native `py_thin`: Boolean, contiguous `array` and `buffer` of one shape. The extracted link of
`thin.thin` for `array` is `zeroFrame r c`: `np.zeros((r + 2, c + 2), bool)` into which the wrapper has stored only at
`[1:r + 1, 1:c + 1]` (any other store would have degraded the link) — a matrix with both sides ≥ 2 whose one-pixel frame
is still zero. For such an image (`thinFrameClear`, the hypothesis `hf`, is what the link MEANS for the pixel values; the
descriptor carries only the shape) a whole sweep of the eight structuring elements is in bounds (C10 B5). -/
theorem C11_thin_safe (envW envN : Env) (img : List Bool)
    (hl : Linked Generated.lookupTables Generated.links_thin_thin__thin_thin envW envN = true)
    (hn : npasses Generated.nativeGuards_thin_thin envN = true) :
    PreThin envN ∧ ∃ rows cols : Nat, (envN "array").shape = [rows, cols] ∧ 2 ≤ rows ∧ 2 ≤ cols ∧
      ((img.length : Int) = (rows : Int) * cols → thinFrameClear rows cols img = true →
        ∀ a ∈ thinSweep rows cols img, 0 ≤ a.i ∧ a.i < a.size) := by
  simp [Generated.nativeGuards_thin_thin, npasses, NAtom.rejects, isArr] at hn
  obtain ⟨⟨ha, hb⟩, h2, h3, h4, h5, h6⟩ := hn
  simp [ha, hb] at h2 h3 h4 h5 h6
  simp [Linked, Generated.links_thin_thin__thin_thin, Link.holds, isArr, ha] at hl
  obtain ⟨⟨⟨⟨-, hlen⟩, hr⟩, hc⟩, -⟩ := hl
  obtain ⟨r, c, e⟩ := shape_of_len_two (envN "array").shape hlen
  rw [e] at hr hc
  simp at hr hc
  refine ⟨⟨h2, h3, h4, h5, h6⟩, r, c, e, hr, hc, ?_⟩
  intro hlen2 hf
  exact (C10_thin_in_bounds r c img (by omega) hlen2 hf).1

/-- **C11+C10 (distance, gvoronoi → dt).** Both wrappers hand `_distance.dt` a freshly built array (links `other`: `np.zeros(
bw.shape, np.double)`), so the safety argument is the one of the native guards: whenever no guard of `py_dt` takes its
exit, `C11_dt_safe` applies. Here: the links table shows that `distance` passes `None` for `orig` at both of its calls and
`gvoronoi` a computed index array, and that `distance`'s own guards leave rank ≥ 1 and at least one element. -/
theorem C11_distance_links :
    (Generated.links_distance_distance__distance_dt.map (·.1) = ["f", "orig"]) ∧
    Generated.links_distance_distance__distance_dt.getD 1 default = ("orig", .noneLit) ∧
    Generated.links_distance_distance__distance_dt_1.getD 1 default = ("orig", .noneLit) ∧
    Generated.links_segmentation_gvoronoi__distance_dt.map (·.1) = ["f", "orig"] := by
  decide

/-- **C11+C10 (cooccurence), links extracted.** `array` is the caller's `f` itself and `result` the caller's `output`
(same object, zero-filled: the link is `norm output`) when one is given; with the wrapper guards passing on a 2-D
`output`, `++res.at(v, v2)` is inside the RESULT the native entry point receives for all pixel values up to the maximum of
`f`. The native guard adds that the result is int32. -/
theorem C11_cooccurence_linked_safe (envW envN : Env) (v v2 : Int) (hf : (envW "f").kind = 1) (ho : (envW "output").kind = 1)
    (h2 : (envW "output").shape.length = 2)
    (h : passes Generated.guards_features_texture_cooccurence envW = true)
    (hl : Linked Generated.lookupTables Generated.links_features_texture_cooccurence__texture_cooccurence envW envN = true)
    (hv : v ≤ (envW "f").ival) (hv2 : v2 ≤ (envW "f").ival) :
    envN "array" = envW "f" ∧
    ∀ a ∈ coocAccesses ((envN "result").shape.getD 0 0) ((envN "result").shape.getD 1 0) v v2, 0 ≤ a.i ∧ a.i < a.size := by
  simp [Linked, Generated.links_features_texture_cooccurence__texture_cooccurence, Link.holds, isArr, ho] at hl
  obtain ⟨ha, ⟨⟨-, -⟩, hrs⟩, -⟩ := hl
  refine ⟨ha, ?_⟩
  rw [hrs]
  exact C11_cooccurence_safe envW v v2 hf ho h2 h hv hv2

/-- **C11-T1 (lbp map, znl, cooccurence native).** What the three feature entry points check before casting the raw data
pointers: `_lbp.map` a contiguous 1-D uint32 array (mapped in place over `dim(0)` elements), `_zernike.znl` double /
complex double / double arrays, `_texture.cooccurence` an int32 result. (`znl` does NOT compare the sizes of its three
arrays — it reads `size(Da)` elements of each; `zernike_moments` builds all three with one Boolean mask.) -/
theorem C11_features_guards_imply_pre (env : Env) :
    (npasses Generated.nativeGuards_lbp_map env = true → (env "array").kind = 1 ∧ PreLbp env) ∧
    (npasses Generated.nativeGuards_zernike_znl env = true →
      ((env "Da").kind = 1 ∧ (env "Aa").kind = 1 ∧ (env "Pa").kind = 1) ∧ PreZnl env) ∧
    (npasses Generated.nativeGuards_texture_cooccurence env = true →
      ((env "array").kind = 1 ∧ (env "result").kind = 1 ∧ (env "Bc").kind = 1) ∧ PreCoocN env) := by
  refine ⟨?_, ?_, ?_⟩ <;> intro h
  · simp [Generated.nativeGuards_lbp_map, npasses, NAtom.rejects, isArr] at h
    obtain ⟨ha, h2, h3, h4⟩ := h
    simp [ha] at h2 h3 h4
    exact ⟨ha, h2, h3, h4⟩
  · simp [Generated.nativeGuards_zernike_znl, npasses, NAtom.rejects, isArr] at h
    obtain ⟨hd, ha, hp, h4, h5, h6⟩ := h
    simp [hd, ha, hp] at h4 h5 h6
    exact ⟨⟨hd, ha, hp⟩, h4, h5, h6⟩
  · simp [Generated.nativeGuards_texture_cooccurence, npasses, NAtom.rejects, isArr] at h
    obtain ⟨ha, hr, hb, h4⟩ := h
    simp [hr] at h4
    exact ⟨⟨ha, hr, hb⟩, h4⟩

/-- **C11 (zernike_moments: radius / degree).** For EVERY integer `degree` (negative: no call at all) the loops of
`zernike_moments` call `_zernike.znl(…, n, l)` only with `0 ≤ l ≤ n ≤ degree` and `n − l` even; then for every `m` of the
kernel's loop `0 ≤ m ≤ (n − l)/2` the index `m` is inside `g_m` (allocated with `(n − l)/2 + 1` entries) and all four
arguments of `fact(·)` are non-negative — `fact` recurses without end on a negative argument (a stack overflow reachable
only by calling `_zernike.znl` directly with `l > n` or `n < 0`). The radius only divides floating-point coordinates. -/
theorem C11_zernike_loop_pre (degree : Int) :
    ∀ nl ∈ znlPairs degree, nl.2 ≤ nl.1 ∧ (nl.1 : Int) ≤ degree ∧ (nl.1 - nl.2) % 2 = 0 ∧
      ∀ m : Int, 0 ≤ m → m ≤ ((nl.1 : Int) - nl.2) / 2 →
        m < ((nl.1 : Int) - nl.2) / 2 + 1 ∧ ∀ x ∈ znlFactArgs nl.1 nl.2 m, 0 ≤ x := by
  intro nl h
  simp only [znlPairs, List.mem_flatMap, List.mem_map, List.mem_filter, List.mem_range] at h
  obtain ⟨n, hn, l, ⟨hl, hpar⟩, rfl⟩ := h
  have hle : l ≤ n := by omega
  refine ⟨hle, by omega, by simpa using hpar, ?_⟩
  intro m hm0 hm1
  refine ⟨by omega, ?_⟩
  intro x hx
  simp only [znlFactArgs, List.mem_cons, List.mem_nil_iff, or_false] at hx
  rcases hx with rfl | rfl | rfl | rfl <;> omega

/-- non-vacuity (round 3): the pairs for degree 3; a linked find2d environment; the link table and the flow table -/
example : znlPairs 3 = [(0, 0), (1, 1), (2, 0), (2, 2), (3, 1), (3, 3)] ∧ znlPairs (-2) = [] := by decide
example :
    Linked Generated.lookupTables Generated.links_convolve_find__convolve_find2d
      (fun n => if n = "f" then { kind := 1, ndim := 2, shape := [3, 4], tnum := 2, flags := 7 } else
                if n = "template" then { kind := 1, ndim := 2, shape := [2, 2], tnum := 12, flags := 7 } else {})
      (fun n => if n = "array" then { kind := 1, ndim := 2, shape := [3, 4], tnum := 2, flags := 7 } else
                if n = "target" then { kind := 1, ndim := 2, shape := [2, 2], tnum := 2, flags := 7 } else
                if n = "output" then { kind := 1, ndim := 2, shape := [3, 4], tnum := 0, flags := 7 } else {}) = true ∧
    firstUnlinked Generated.lookupTables Generated.links_convolve_find__convolve_find2d
      (fun n => if n = "f" then { kind := 1, ndim := 2, shape := [3, 4], tnum := 2, flags := 7 } else
                if n = "template" then { kind := 1, ndim := 2, shape := [2, 2], tnum := 12, flags := 7 } else {})
      (fun n => if n = "array" then { kind := 1, ndim := 2, shape := [3, 4], tnum := 2, flags := 7 } else
                if n = "target" then { kind := 1, ndim := 1, shape := [4], tnum := 2, flags := 7 } else
                if n = "output" then { kind := 1, ndim := 2, shape := [3, 4], tnum := 0, flags := 7 } else {}) = some 1 := by
  decide
example : Generated.argLinkTable.length = 64 ∧ Generated.checkFlowTable.length = 6 := by decide

/-! ### round 3, composed with the C10 theorems of round 3 (histogram, lbp map) -/

/-- **C11+C10 (fullhistogram → histogram).** The extracted links of `histogram.fullhistogram` show what reaches
`_histogram.histogram`: a rank-and-shape preserving conversion of `img` (`np.require(img, requirements='CAW')`) and a bins
array built by exactly the expression `np.zeros(int(img.max()) + 1, np.uintc)` — the sizing `C10Misc.histWrapperSize`
models. If the native guards pass, both are C arrays and the bins are `uint32`; if moreover the type switch of the kernel
admits the array's type number (the UNSIGNED guard: `histTypeRange`, every admitted type has `lo = 0`) and the element
values are values of that C type, then every `data[i]` and every `++histogram[v]` is in bounds (C10 round 3). -/
theorem C11_histogram_safe (env : Env) (lo hi : Int) (vals : List Int) (s : Int)
    (hn : npasses Generated.nativeGuards_histogram_histogram env = true)
    (hty : C10Misc.histTypeRange (env "array").tnum = some (lo, hi))
    (hv : ∀ v ∈ vals, lo ≤ v ∧ v ≤ hi) (hs : C10Misc.histWrapperSize vals = some s) :
    Generated.links_histogram_fullhistogram__histogram_histogram =
      [("array", .norm "img"), ("histogram", .other "np.zeros(int(img.max()) + 1, np.uintc)")] ∧
    ((env "array").isCArray = true ∧ (env "histogram").isCArray = true ∧ (env "histogram").tnum = 6) ∧
    ∀ a ∈ C10Misc.histAccesses vals s, 0 ≤ a.i ∧ a.i < a.size := by
  simp [Generated.nativeGuards_histogram_histogram, npasses, NAtom.rejects, isArr] at hn
  obtain ⟨ha, hh, h3, h4, h5⟩ := hn
  simp [ha, hh] at h3 h4 h5
  exact ⟨by decide, ⟨h3, h4, h5⟩, C10_histogram_in_bounds (env "array").tnum lo hi vals s hty hv hs⟩

/-- **C11+C10 (lbp map) — partial.** If the guards of the native `py_map` pass, the array is a contiguous 1-D `uint32`
array, mapped in place over its `dim(0)` elements; for `npoints = P ≤ 32` and codes below `2^P` every access of the C10
model (the element, the shift count `P − 1` against the word size, the mapped code against the `2^P` entries of the
tables of `lbp.py`) is in bounds and the rotation loop ends. THE GAP: neither `P ≤ 32` nor `code < 2^P` is implied by a
guard — the second conjunct exhibits a descriptor with `npoints = 40` that passes every native guard (`lbp.py` passes its
`points` through unchanged: link `pass points`; the codes are sums of `points` distinct powers of two, a value fact
outside the descriptor DSL). For `P > 32` the shift count exceeds the word size (undefined behaviour, no memory access). -/
theorem C11_lbp_safe_partial (env : Env) (P : Nat) (hP : P ≤ 32)
    (hn : npasses Generated.nativeGuards_lbp_map env = true) :
    (PreLbp env ∧ ∀ codes : List Nat, (∀ v ∈ codes, v < 2 ^ P) →
      ∀ a ∈ C10Misc.lbpAccesses (P : Int) codes, 0 ≤ a.i ∧ a.i < a.size) ∧
    (npasses Generated.nativeGuards_lbp_map (fun n =>
        if n = "array" then { kind := 1, ndim := 1, shape := [5], tnum := 6, flags := 7 } else
        if n = "npoints" then { kind := 2, ival := 40 } else {}) = true ∧
      Generated.links_features_lbp_lbp_transform__lbp_map.getD 1 default = ("npoints", .pass "points")) :=
  ⟨⟨((C11_features_guards_imply_pre env).1 hn).2, (C10_lbp_map_in_bounds P hP).1⟩, by decide⟩

/-- **C11+C10 (surf / interest_points / pyramid → build_pyramid).** If the extracted guards of a native SURF entry point that
builds the pyramid pass (the integer parameters being C ints), the array is a matrix `n0 × n1` (well-formed descriptor)
and `initial_step_size ≥ 1`, which is all `C10_surf_pyramid_in_bounds` needs: every `pyramid[o]` index, all 32 integral-image
reads of the eight lobes of every sample and every write `at(i, y/step, x/step)` of the C10 model are in bounds and the
`y += step_size` loops terminate — for the octave and interval counts at hand (`1 … 30`, `≥ 1`). -/
theorem C11_surf_pyramid_safe (env : Env) (wf : (env "array").wf)
    (ho : (env "nr_octaves").kind = 2) (hi : (env "nr_intervals").kind = 2) (hs : (env "initial_step_size").kind = 2)
    (h : npasses Generated.nativeGuards_surf_surf env = true ∨ npasses Generated.nativeGuards_surf_interest_points env = true ∨
         npasses Generated.nativeGuards_surf_pyramid env = true) :
    PreSurf env ∧ ∃ n0 n1 : Nat, (env "array").shape = [n0, n1] ∧
      Mahotas.C10Surf.sAllOk (Mahotas.C10Surf.pyramidAccesses n0 n1 (env "nr_octaves").ival (env "nr_intervals").ival
        (env "initial_step_size").ival) = true ∧
      Mahotas.C10Surf.pyramidDone (env "nr_octaves").ival (env "initial_step_size").ival = true := by
  have hp : PreSurf env := by
    rcases h with h | h | h
    · exact ((C11_surf_guards_imply_pre env ho hi hs).1 h).2.2
    · exact ((C11_surf_guards_imply_pre env ho hi hs).2.1 h).2
    · exact ((C11_surf_guards_imply_pre env ho hi hs).2.2 h).2
  obtain ⟨n0, n1, e⟩ := shape_of_len_two (env "array").shape (by rw [← wf]; exact hp.1)
  have := C10_surf_pyramid_in_bounds n0 n1 (env "nr_octaves").ival (env "nr_intervals").ival (env "initial_step_size").ival hp.2.2.2.2
  exact ⟨hp, n0, n1, e, this.1, this.2⟩

/-- **C11+C10 (surf.descriptors / surf.dense → descriptor sampling).** If the extracted guards of the native
`py_descriptors` pass, the integral image is a matrix `n0 × n1` of doubles (well-formed descriptor) and the points are a
2-D double array; since the repair 6faa5ae of `sum_rect` (two-sided clamps, empty image not read) NOTHING more is needed:
for ARBITRARY sample positions and window size — whatever the float-derived scale, rotation and border test give, also for
the small scales `surf.dense(f, 1)` passes — every read of every `haar_x`/`haar_y` sample of the C10 model is inside the
integral image (`C10_surf_descriptor_windows_in_bounds`). (The defect this round found on the pinned clamps is kept as
`C10_surf_descriptor_pinned_guard_insufficient`.) -/
theorem C11_surf_descriptors_safe (env : Env) (wf : (env "array").wf)
    (h : npasses Generated.nativeGuards_surf_descriptors env = true) (pts : List (Int × Int)) (w : Int) :
    (env "array").tnum = 12 ∧ (env "points_arr").ndim = 2 ∧ ∃ n0 n1 : Nat, (env "array").shape = [n0, n1] ∧
      Mahotas.C10Surf.sAllOk (Mahotas.C10Surf.descWindowAccesses n0 n1 pts w) = true := by
  simp [Generated.nativeGuards_surf_descriptors, npasses, NAtom.rejects, isArr] at h
  obtain ⟨⟨ha, hp⟩, h2, h3, -, h5⟩ := h
  simp [ha, hp, canonT] at h2 h3 h5
  obtain ⟨n0, n1, e⟩ := shape_of_len_two (env "array").shape (by rw [← wf]; exact h2)
  exact ⟨by split at h3 <;> (try split at h3) <;> omega, h5, n0, n1, e, C10_surf_descriptor_windows_in_bounds n0 n1 pts w⟩

/-- non-vacuity: a 40 × 40 double image with one interest point row passes the guards of `py_descriptors` -/
example :
    npasses Generated.nativeGuards_surf_descriptors (fun n =>
      if n = "array" then { kind := 1, ndim := 2, dcls := 3, shape := [40, 40], tnum := 12, flags := 7 } else
      if n = "points_arr" then { kind := 1, ndim := 2, dcls := 3, shape := [1, 5], tnum := 12, flags := 7 } else {}) = true := by
  decide


/-! ## Round 4 — Labeled: compositions with the C10 theorems about `_labeled.cpp` (label union-find, borders, slic, is_same_labeling), `_center_of_mass` label path, `_bbox` labeled n-D path -/
section Round4Labeled
-- (theorems of this package go between this line and the `end`)

/-- a row of `Generated.indexGuardTable`: every index expression of the access has an atom `x >= 0` among the tests that dominate it -/
def idxLowerGuarded (r : String × String × List String × List String × List (String × String × String)) : Bool :=
  r.2.2.1.all fun x => r.2.2.2.2.any fun a => a.1 == "geZero" && a.2.1 == x

/-- … and an atom `x < bound` -/
def idxUpperGuarded (bound : String) (r : String × String × List String × List String × List (String × String × String)) : Bool :=
  r.2.2.1.all fun x => r.2.2.2.2.any fun a => a.1 == "lt" && a.2.1 == x && a.2.2 == bound

/-- **C11+C10 (labeled_sum / labeled_max / labeled_min: `labeled_foldl`) — the in-loop test is part of the tie.** The native guards of
`py_labeled_*` (extracted by guards.py from the front of the entry point) cannot keep a DATA-dependent index inside its table; what
does is the test inside the loop of `labeled_foldl`. `translator/allocs.py: extract_index_guards` extracts from the current source
the tests that dominate the store `result[…]`: the row of `Generated.indexGuardTable` for `labeled_foldl` has, for its index
expression, both `x >= 0` and `x < maxlabel` — and behind exactly that test (`C10_labeled_foldl_in_bounds`) the access is in range
for EVERY label value (negative, e.g. a uint32/int64 label that wrapped to `INT_MIN` when narrowed to C int, or too large: skipped).
A kernel that loses the lower-bound test (seeded change C11-r4m1) changes the generated row and this theorem no longer checks. -/
theorem C11_labeled_fold_safe (maxi label : Int) :
    ((Generated.indexGuardTable.find? fun r => r.1 == "_labeled.cpp" && r.2.1 == "labeled_foldl").map
        fun r => idxLowerGuarded r && idxUpperGuarded "maxlabel" r) = some true ∧
    ∀ a ∈ Mahotas.C10.foldlAccesses maxi label, 0 ≤ a.i ∧ a.i < a.size :=
  ⟨by decide +kernel, C10_labeled_foldl_in_bounds maxi label⟩

/-- the row a kernel without the lower-bound test would generate (what the seeded change produces) is rejected -/
example : (idxLowerGuarded ("_labeled.cpp", "labeled_foldl", ["label"], ["*literator"], [("lt", "label", "maxlabel")])) = false ∧
    Mahotas.C10.foldlAccesses 4 (-2147483648) = [] := by decide

/-- **C11+C10 (slic).** If the guards of the wrapper `segmentation.slic` (as extracted) pass on an ndarray and integer `spacer`,
`max_iters`, then (`C11_slic_guards_imply_pre`) the array is `(h, w, 3)`, `spacer ≥ 1`, a seed exists on both axes; hence
(`C10_slic_first_iteration_covers`) the seeding loops place at least one centroid, all inside the image, and the windows of the first
iteration cover every pixel — no pixel keeps a label that is not a centroid index — and (`C10_slic_window_in_bounds`) every window of
every later iteration, for any centroid position inside the image, is in bounds and its `!=` loops end. -/
theorem C11_slic_safe (env : Env)
    (ha : (env "array").kind = 1) (hs : (env "spacer").kind = 2) (hm : (env "max_iters").kind = 2)
    (hnd : (env "array").wf) (h : passes Generated.guards_segmentation_slic env = true) :
    ∃ S ny nx : Nat, (S : Int) = (env "spacer").ival ∧ ny = (env "array").shape.getD 0 0 ∧ nx = (env "array").shape.getD 1 0 ∧
      Mahotas.C10Slic.covered S ny nx = true ∧ 1 ≤ (Mahotas.C10Slic.seedCentroids S ny nx).length ∧
      (∀ c ∈ Mahotas.C10Slic.seedCentroids S ny nx, c.1 < ny ∧ c.2 < nx) ∧
      ∀ cy cx : Int, 0 ≤ cy → cy < ny → 0 ≤ cx → cx < nx →
        ∃ l, Mahotas.C10Slic.windowPositions ny nx S cy cx = some l ∧ Mahotas.C10Slic.inN ((ny : Int) * nx) l = true := by
  have hpre := C11_slic_guards_imply_pre env ha hs hm hnd h
  unfold PreSlic at hpre
  obtain ⟨-, -, hS, -, hy, hx⟩ := hpre
  refine ⟨(env "spacer").ival.toNat, _, _, by omega, rfl, rfl, ?_⟩
  have hy' : (env "spacer").ival.toNat / 2 < (env "array").shape.getD 0 0 := by omega
  have hx' : (env "spacer").ival.toNat / 2 < (env "array").shape.getD 1 0 := by omega
  obtain ⟨c1, c2, c3⟩ := C10_slic_first_iteration_covers _ _ _ (by omega) hy' hx'
  refine ⟨c1, c2, c3, ?_⟩
  intro cy cx h1 h2 h3 h4
  obtain ⟨l, e, hl, -, -⟩ := C10_slic_window_in_bounds _ _ ((env "spacer").ival.toNat : Int) cy cx (by omega) h1 h2 h3 h4
  exact ⟨l, e, hl⟩

/-- **C11+C10 (label, the union–find array).** With the links of `labeled.label` on an ndarray (the native `array` is the
`_get_output` buffer of the image's shape, written `output[:] = (array != 0)`), for EVERY content `data` of that buffer, every list
of neighbour offsets and both border treatments: the filter-iterator table is in bounds (`C11_label_safe`) and every index
`find` / `join` / `compress` dereference in the label buffer is inside it, no recursion deeper than `N + 1`
(`C10_label_union_find_in_bounds` needs no guard at all: the invariant is established by the kernel's own initialisation loop). -/
theorem C11_label_union_find_safe (envW envN : Env) (m : Mode)
    (hk : (envW "array").kind = 1)
    (hl : Linked Generated.lookupTables Generated.links_labeled_label__labeled_label envW envN = true)
    (data : List Int) (offs : List (List Int)) :
    (envN "array").shape = (envW "array").shape ∧
    Mahotas.C10Labeled.inRange data.length
      (Mahotas.C10Labeled.labelUF m (envN "array").shape data offs (data.length + 1)).2.1 = true ∧
    (Mahotas.C10Labeled.labelUF m (envN "array").shape data offs (data.length + 1)).2.2 = true := by
  obtain ⟨hs, -, -⟩ := (C11_label_guards_imply_pre envW envN).2 hk hl
  obtain ⟨h1, h2, -, -⟩ := C10_label_union_find_in_bounds m (envN "array").shape data offs
  exact ⟨hs, h1, h2⟩

end Round4Labeled
-- ---------------------------------------------------------------------------------------------------------


/-! ## Round 4 — Flood: compositions with the C10 theorems about `_morph.cpp` flood/queue kernels (close_holes, regmin_max, locmin_max, distance_multi position_queue, subm, disk_2d, majority_filter) and the `_thin` full pass -/
section Round4Flood
-- (theorems of this package go between this line and the `end`)

/-- **C11+C10 (close_holes).** If the guard of the wrapper `morph.close_holes` (as extracted: `ref.ndim != 2` raises) passes on
a well-formed ndarray, the native kernel runs on a matrix: every position of the border seeding loops is inside it
(`C10_close_holes_seeding_in_bounds`: the odometer is only correct up to rank 2 — the guard is what keeps the kernel inside
its domain), and for every neighbourhood, availability map and stack the flood dereferences only positions inside the array
and drains its stack within `stack + available` pops (`C10_stack_flood_in_bounds`). -/
theorem C11_close_holes_safe (env : Env) (hk : (env "ref").kind = 1) (wf : (env "ref").wf)
    (h : passes Generated.guards_morph_close_holes env = true) :
    (∃ n0 n1 : Nat, (env "ref").shape = [n0, n1] ∧
      Mahotas.C10Flood.pAllOk (Mahotas.C10Flood.chSeedAccesses (env "ref").shape) = true) ∧
    ∀ (nb : List (List Int)) (fuel : Nat) (av : Array Bool) (st : List (List Int)),
      st.length + Mahotas.C10Flood.cntTrue av ≤ fuel →
        Mahotas.C10Flood.pAllOk (Mahotas.C10Flood.floodRun (env "ref").shape nb fuel av st).1 = true ∧
        (Mahotas.C10Flood.floodRun (env "ref").shape nb fuel av st).2.1 = true := by
  have h2 : (env "ref").ndim = 2 := (C11_2d_guards_imply_pre env).2.1 hk h
  obtain ⟨n0, n1, e⟩ := shape_of_len_two (env "ref").shape (by unfold Desc.wf at wf; omega)
  refine ⟨⟨n0, n1, e, by rw [e]; exact C10_close_holes_seeding_in_bounds.2.1 n0 n1⟩, ?_⟩
  intro nb fuel av st hf
  have := C10_stack_flood_in_bounds (env "ref").shape nb fuel av st hf
  exact ⟨this.1, this.2.1⟩

/-- non-vacuity: a 4×5 image passes the guard; a 1×3×3 one is rejected — and would indeed be left by the seeding loops -/
example :
    passes Generated.guards_morph_close_holes (fun n => if n = "ref" then { kind := 1, ndim := 2, shape := [4, 5] } else {}) = true ∧
    passes Generated.guards_morph_close_holes (fun n => if n = "ref" then { kind := 1, ndim := 3, shape := [1, 3, 3] } else {}) = false ∧
    Mahotas.C10Flood.pAllOk (Mahotas.C10Flood.chSeedAccesses [1, 3, 3]) = false := by decide

end Round4Flood
-- ---------------------------------------------------------------------------------------------------------


/-! ## Round 4 — Feat: compositions with the C10 theorems about feature kernels (`_zernike` znl, SURF `compute_dominant_angle`, `_texture`, `_convex` entry point, `_histogram` otsu, `_interpolate` remaining pieces) -/
section Round4Feat
-- (theorems of this package go between this line and the `end`)

/-- **C11+C10 (cooccurence) — both matrix indices are tested before the access.** `++res.at(val, val2)` indexes the result by two pixel
VALUES; the tests that dominate it in the current source (`Generated.indexGuardTable`, row `cooccurence`) contain `val >= 0` AND
`val2 >= 0` (the negation of `if (val < 0 || val2 < 0) throw …`): a negative grey level — of the centre OR of the neighbour — raises
before it is used as an index, and then (`C10_cooccurence_in_bounds`) for values up to the maximum the wrapper sized the matrix for
both indices are inside it. A kernel that tests the centre only (seeded change C11-r4m2: a neighbour is used as an index before it
has been the centre) changes the generated row and this theorem no longer checks. -/
theorem C11_cooccurence_index_guarded (m0 m1 maxv v v2 : Int) (hv : v ≤ maxv) (hv2 : v2 ≤ maxv) (hm0 : maxv < m0) (hm1 : maxv < m1) :
    ((Generated.indexGuardTable.find? fun r => r.1 == "_texture.cpp" && r.2.1 == "cooccurence").map
        fun r => idxLowerGuarded r && decide (r.2.2.1.length = 2)) = some true ∧
    ∀ a ∈ Mahotas.C10.coocAccesses m0 m1 v v2, 0 ≤ a.i ∧ a.i < a.size :=
  ⟨by decide +kernel, C10_cooccurence_in_bounds m0 m1 maxv v v2 hv hv2 hm0 hm1⟩

example : idxLowerGuarded ("_texture.cpp", "cooccurence", ["val", "val2"], ["*iter", "0"], [("geZero", "val", "")]) = false ∧
    Mahotas.C10.coocAccesses 4 4 2 (-1073741824) = [] := by decide

/-- **C11+C10 (otsu).** If the guards of the native `py_otsu` pass, the histogram is a C-contiguous `double` array, read through a
raw pointer over `n = SIZE(histogram)` cells — and for every `n` and every outcome of the floating-point tests all accesses of
`hist`, `nB`, `nO` are in bounds and the threshold returned is a bin (`C10_otsu_in_bounds`; no further guard is needed). -/
theorem C11_otsu_safe (env : Env) (h : npasses Generated.nativeGuards_histogram_otsu env = true) (hk : (env "histogram").kind = 1)
    (n : Int) (hz : Bool) (nbz noz better : Nat → Bool) :
    (canonT (env "histogram").tnum = canonT 12 ∧ (env "histogram").isCArray = true) ∧
    Mahotas.C10Feat.allOk (Mahotas.C10Feat.otsuRun n hz nbz noz better).1 = true := by
  simp [Generated.nativeGuards_histogram_otsu, npasses, NAtom.rejects, isArr, hk] at h
  exact ⟨⟨by simpa using h.1, h.2⟩, (C10_otsu_in_bounds n hz nbz noz better).1⟩

/-- **C11+C10 (subm).** If the guards of the native `py_subm` pass on two ndarrays, they have the same shape, so the paired scan
`*ita … *itb` over `a.size()` elements stays inside both (`C10_pair_scan_in_bounds`). -/
theorem C11_subm_safe (env : Env) (ha : (env "a").kind = 1) (hb : (env "b").kind = 1)
    (h : npasses Generated.nativeGuards_morph_subm env = true) :
    (env "a").shape = (env "b").shape ∧
    Mahotas.C10Feat.allOk (Mahotas.C10Feat.pairScan (shapeSize (env "a").shape) (shapeSize (env "b").shape) none) = true := by
  simp [Generated.nativeGuards_morph_subm, npasses, NAtom.rejects, isArr, ha, hb] at h
  have hs : (env "a").shape = (env "b").shape := h.1
  exact ⟨hs, (C10_pair_scan_in_bounds _ _).1.mpr (by rw [hs])⟩

/-- **C11+C10 (is_same_labeling) — partial.** The native guards make both arguments C-contiguous `int` arrays but do NOT compare
their sizes (second conjunct: a 4-element and a 3-element array pass every native guard, and the complete scan would read
`b[3]`). What keeps the kernel inside the second buffer is the wrapper's `if labeled0.shape != labeled1.shape: return False`, which
is a `return`, not a raising guard, hence not in the extracted guard list: with equal shapes (hypothesis) every prefix of the scan is
in bounds. MISSING for a full corollary: extraction of early `return` statements as guards. The `featreal` cases run the public
function on arrays of different sizes under ASan. -/
theorem C11_is_same_labeling_safe_partial (env : Env) (h0 : (env "labeled0").kind = 1) (h1 : (env "labeled1").kind = 1)
    (h : npasses Generated.nativeGuards_labeled_is_same_labeling env = true)
    (hs : (env "labeled0").shape = (env "labeled1").shape) (stop : Option Nat) :
    ((env "labeled0").isCArray = true ∧ (env "labeled1").isCArray = true ∧
      Mahotas.C10Feat.allOk (Mahotas.C10Feat.pairScan (shapeSize (env "labeled0").shape) (shapeSize (env "labeled1").shape) stop) = true) ∧
    (npasses Generated.nativeGuards_labeled_is_same_labeling (fun n =>
        if n = "labeled0" then { kind := 1, ndim := 1, shape := [4], tnum := 5, flags := 7 } else
        if n = "labeled1" then { kind := 1, ndim := 1, shape := [3], tnum := 5, flags := 7 } else {}) = true ∧
      Mahotas.C10Feat.allOk (Mahotas.C10Feat.pairScan 4 3 none) = false) := by
  simp [Generated.nativeGuards_labeled_is_same_labeling, npasses, NAtom.rejects, isArr, h0, h1] at h
  refine ⟨⟨h.2.2.1, h.2.2.2, (C10_pair_scan_in_bounds _ _).2 (by rw [hs]) stop⟩, by decide⟩

/-- **C11+C10 (disk_2d).** If the guards of the native `py_disk_2d` pass on a well-formed ndarray, it is a C-contiguous 2-D bool
array and `radius ≥ 0`; every store of the kernel is inside it (`C10_disk_2d_in_bounds`, which needs none of this except the
rank: the C-array guard is what makes the running pointer `iter` address cell `x0*N1 + x1`). -/
theorem C11_disk_2d_safe (env : Env) (hk : (env "array").kind = 1) (hr : (env "radius").kind = 2) (wf : (env "array").wf)
    (h : npasses Generated.nativeGuards_morph_disk_2d env = true) :
    ∃ n0 n1 : Nat, (env "array").shape = [n0, n1] ∧ (env "array").isCArray = true ∧ 0 ≤ (env "radius").ival ∧
      Mahotas.C10Feat.allOk (Mahotas.C10Feat.diskStores n0 n1 (env "radius").ival) = true := by
  simp [Generated.nativeGuards_morph_disk_2d, npasses, NAtom.rejects, isArr, isInt, hk, hr] at h
  obtain ⟨n0, n1, e⟩ := shape_of_len_two (env "array").shape (by unfold Desc.wf at wf; omega)
  exact ⟨n0, n1, e, h.2.1, by omega, C10_disk_2d_in_bounds n0 n1 _⟩

/-- **C11+C10 (zernike).** For every `degree < 100000` the loops of `zernike_moments` call `_zernike.znl(D, A, P, n, l)` only with
pairs for which (`C11_zernike_loop_pre`) `0 ≤ l ≤ n`; then, for arrays `A`, `P` with at least as many elements as `D` (the wrapper
passes three arrays cut by one mask `k`; the links are `other`, so this is a hypothesis), every `fact` recursion comes back and
reads inside the factorial table, every `g_m[m]`, `D[i]`, `A[i]`, `P[i]` is in bounds (`C10_znl_in_bounds`). -/
theorem C11_znl_safe (degree : Int) (hd : degree < 100000) (nd na np : Nat) (ha : nd ≤ na) (hp : nd ≤ np) :
    ∀ nl ∈ znlPairs degree,
      Mahotas.C10Feat.allOk (Mahotas.C10Feat.znlRun 100000 nl.1 nl.2 nd na np).1 = true ∧
      (Mahotas.C10Feat.znlRun 100000 nl.1 nl.2 nd na np).2 = true := by
  intro nl h
  obtain ⟨hle, hdeg, -, -⟩ := C11_zernike_loop_pre degree nl h
  exact C10_znl_in_bounds 100000 nl.1 nl.2 nd na np (by omega) (by exact_mod_cast hle) (by push_cast; omega) ha hp

end Round4Feat
-- ---------------------------------------------------------------------------------------------------------


/-! ## Round 4 — Conv: compositions with the C10 theorems about `_convolve.cpp` (convolve, rank_filter, mean_filter, template_match, daubechies coefficient tables)  -/
section Round4Conv
-- (theorems of this package go between this line and the `end`)

/-- **C11+C10 (rank_filter, median_filter).** `envH` describes the arguments of `convolve._check_rank`, `envN` those of the native
`_convolve.rank_filter`. If the helper's guards pass and the extracted data flow holds (`Generated.checkFlowTable`: the checked
`Bc` and `rank` are what the native call receives), then `0 ≤ rank < count_nonzero(Bc) = N2`, and for every border mode and every
outcome of the `N2` `retrieve` calls of a pixel each `neighbours[n++]`, the `nth_element` range and `neighbours[currank]` are
valid (`C10_rank_filter_in_bounds`); the early `return` of the kernel for an out-of-range rank (which would leave the `np.empty`
output unwritten) is unreachable. -/
theorem C11_rank_filter_safe (envH envN : Env) (hr : (envH "rank").kind = 2) (hb : (envH "Bc").kind = 1)
    (h : passes Generated.guards_convolve__check_rank envH = true)
    (hf : Flows [("Bc", "Bc", 0), ("rank", "rank", 0)] envH envN = true)
    (isConst : Bool) (retr : List Bool) (hlen : retr.length = (envN "Bc").nnz) :
    (0 ≤ (envN "rank").ival ∧ (envN "rank").ival < ((envN "Bc").nnz : Int)) ∧
    Mahotas.C10Conv.allOk (Mahotas.C10Conv.rankPixelAccesses ((envN "Bc").nnz : Int) (envN "rank").ival isConst retr) = true ∧
    (0 < (Mahotas.C10Conv.rankStores isConst retr 0).2 →
      Mahotas.C10Conv.curRank ((envN "Bc").nnz : Int) (Mahotas.C10Conv.rankStores isConst retr 0).2 (envN "rank").ival <
        (Mahotas.C10Conv.rankStores isConst retr 0).2) := by
  have hp : PreRank envN := (C11_rank_guards_imply_pre envH envN hr hb h).2.1 hf
  unfold PreRank at hp
  obtain ⟨c1, -, -, -, -, -, c7⟩ :=
    C10_rank_filter_in_bounds ((envN "Bc").nnz : Int) (envN "rank").ival isConst retr (by exact_mod_cast hlen) hp.1 hp.2
  exact ⟨hp, c1, c7⟩

end Round4Conv
-- ---------------------------------------------------------------------------------------------------------


/-! ## Round 4 — Alloc: compositions with the C10 theorems about result buffers: write sets of the kernels whose result is allocated uninitialised -/
section Round4Alloc
-- (theorems of this package go between this line and the `end`)

/-- one row of the coverage table of native entry points: the Python name of the entry point, the C10 theorems about the index
arithmetic of its hot loops (and the `C10_alloc_*` theorem of the loop shape that fills its result), the C11 theorems that lead from
the extracted guards to those theorems, the level reached — `safe`: a `C11_*_safe` corollary composes guards ⇒ precondition ⇒
bounds; `pre`: guards ⇒ precondition proved, composition with the bounds theorem not stated; `bounds`: C10 theorem only (its
hypotheses are not derived from guards, or it has none); `partial`: a `_partial` corollary that names the gap — and what is open. -/
structure EntryCover where
  entry : String
  c10 : List Lean.Name
  c11 : List Lean.Name
  level : String
  note : String

/-- the coverage table (hand-written; `Generated.nativeGuardTable` is regenerated from the sources on every run) -/
def entryCover : List EntryCover := [
  ⟨"_bbox.bbox", [``C10_bbox_in_bounds, ``C10_alloc_bbox_extrema_defined], [], "bounds", "the entry point only needs an ndarray (every rank/layout handled); no composed corollary needed"⟩,
  ⟨"_bbox.bbox_labeled", [``C10_bbox_labeled_in_bounds, ``C10_alloc_bbox_extrema_defined], [``C11_bbox_guards_imply_pre, ``C11_bbox_safe], "safe", ""⟩,
  ⟨"_center_of_mass.center_of_mass", [``C10_center_of_mass_in_bounds, ``C10_alloc_fill_defined], [``C11_center_of_mass_guards_imply_pre, ``C11_center_of_mass_safe], "safe", "the std::reverse post-pass over the centers table is not modelled"⟩,
  ⟨"_convex.convexhull", [``C10_graham_in_bounds, ``C10_alloc_convexhull_output_defined], [``C11_2d_guards_imply_pre], "pre", "the pixel scan `barray.at(y,x)` is a rows loop (C10_alloc_rows_defined shape); no composed corollary"⟩,
  ⟨"_convolve.convolve1d", [``C10_convolve1d_in_bounds, ``C10_convolve1d_python_guard, ``C10_alloc_rows_defined], [``C11_convolve1d_reach_implies_pre, ``C11_convolve1d_safe], "safe", ""⟩,
  ⟨"_convolve.convolve", [``C10_filter_table_ok, ``C10_filter_iterator_refines, ``C10_alloc_pixel_loop_defined], [``C11_convolve_guards_imply_pre, ``C11_convolve_safe], "safe", ""⟩,
  ⟨"_convolve.haar", [``C10_haar_in_bounds], [``C11_wavelet_safe], "safe", ""⟩,
  ⟨"_convolve.wavelet", [``C10_wavelet_in_bounds], [``C11_wavelet_safe], "safe", "a user-supplied coefficient array: its length is `nc` of the theorem"⟩,
  ⟨"_convolve.iwavelet", [``C10_wavelet_in_bounds], [``C11_wavelet_safe], "safe", ""⟩,
  ⟨"_convolve.daubechies", [``C10_wavelet_in_bounds, ``C10_daubechies_tables_in_bounds], [``C11_wavelet_safe], "safe", ""⟩,
  ⟨"_convolve.idaubechies", [``C10_wavelet_in_bounds, ``C10_daubechies_tables_in_bounds], [``C11_wavelet_safe], "safe", ""⟩,
  ⟨"_convolve.ihaar", [``C10_haar_in_bounds], [``C11_wavelet_safe], "safe", ""⟩,
  ⟨"_convolve.rank_filter", [``C10_filter_table_ok, ``C10_filter_iterator_refines, ``C10_rank_filter_in_bounds, ``C10_rank_filter_needs_rank_guard, ``C10_alloc_pixel_loop_defined], [``C11_rank_guards_imply_pre, ``C11_rank_filter_safe], "safe", ""⟩,
  ⟨"_convolve.mean_filter", [``C10_filter_table_ok, ``C10_filter_iterator_refines, ``C10_alloc_pixel_loop_defined], [``C11_convolve_guards_imply_pre], "pre", "no model of its own (filter iterator + pixel loop); divisor for an empty neighbourhood not modelled"⟩,
  ⟨"_convolve.template_match", [``C10_filter_table_ok, ``C10_filter_iterator_refines, ``C10_alloc_pixel_loop_defined], [``C11_template_match_guards_imply_pre], "pre", "the raw template pointer `template[j]`, j < N2 is not modelled"⟩,
  ⟨"_convolve.find2d", [``C10_find2d_in_bounds, ``C10_alloc_fill_defined], [``C11_find2d_guards_imply_pre, ``C11_find2d_safe], "safe", ""⟩,
  ⟨"_distance.dt", [``C10_dist_transform_in_bounds, ``C10_line_address, ``C10_alloc_dt_scratch_defined], [``C11_dt_guards_imply_pre, ``C11_dt_safe], "safe", "scratch arrays z, v never read before written: C10_alloc_dt_scratch_defined"⟩,
  ⟨"_histogram.histogram", [``C10_histogram_in_bounds, ``C10_histogram_needs_unsigned], [``C11_histogram_safe], "safe", ""⟩,
  ⟨"_histogram.otsu", [``C10_otsu_in_bounds], [``C11_otsu_safe], "safe", ""⟩,
  ⟨"_interpolate.spline_filter1d", [``C10_spline_filter1d_in_bounds, ``C10_line_address, ``C10_interpolate_small_tables_in_bounds], [``C11_interpolate_order_guards_imply_pre], "pre", ""⟩,
  ⟨"_interpolate.zoom_shift", [``C10_zoom_shift_in_bounds, ``C10_zoom_shift_tables_in_bounds, ``C10_interpolate_small_tables_in_bounds, ``C10_alloc_pixel_loop_defined], [``C11_zoom_shift_guards_imply_pre, ``C11_zoom_shift_safe], "safe", "float->int conversions abstracted"⟩,
  ⟨"_labeled.label", [``C10_filter_table_ok, ``C10_filter_iterator_refines, ``C10_label_union_find_in_bounds, ``C10_find_in_bounds], [``C11_label_guards_imply_pre, ``C11_label_safe, ``C11_label_union_find_safe], "safe", "the renumbering pass (`std::map`) is a pixel loop over data[i]"⟩,
  ⟨"_labeled.relabel", [``C10_relabel_in_bounds], [], "bounds", "std::map trusted"⟩,
  ⟨"_labeled.is_same_labeling", [``C10_pair_scan_in_bounds], [``C11_is_same_labeling_safe_partial], "partial", "the size test is the wrapper's early `return False`, not an extracted guard"⟩,
  ⟨"_labeled.remove_regions", [``C10_remove_regions_in_bounds, ``C10_lower_bound_in_bounds], [], "bounds", ""⟩,
  ⟨"_labeled.borders", [``C10_filter_table_ok, ``C10_filter_iterator_refines, ``C10_alloc_fill_defined], [``C11_convolve_guards_imply_pre], "bounds", "filter iterator + stores at the pixel cursor; no model of its own"⟩,
  ⟨"_labeled.border", [``C10_filter_table_ok, ``C10_filter_iterator_refines, ``C10_alloc_fill_defined], [], "bounds", "filter iterator + stores at the pixel cursor; no model of its own"⟩,
  ⟨"_labeled.labeled_sum", [``C10_labeled_foldl_in_bounds, ``C10_alloc_fill_defined], [``C11_labeled_fold_safe], "safe", "the in-loop test `label >= 0 && label < maxlabel` is extracted from the source (indexGuardTable)"⟩,
  ⟨"_labeled.labeled_max_min", [``C10_labeled_foldl_in_bounds, ``C10_alloc_fill_defined], [``C11_labeled_fold_safe], "safe", ""⟩,
  ⟨"_labeled.slic", [``C10_slic_window_in_bounds, ``C10_slic_first_iteration_covers, ``C10_find_in_bounds], [``C11_slic_guards_imply_pre, ``C11_slic_seeds_nonempty_in_range, ``C11_slic_seed_fuel_sufficient, ``C11_slic_safe], "safe", "the stateful assignment fold, the connectivity post-pass (union-find over nlabels, priority queue) and its termination are not traced as a whole; float comparisons assumed finite (D2 < 10e20)"⟩,
  ⟨"_morph.subm", [``C10_pair_scan_in_bounds], [``C11_subm_safe], "safe", ""⟩,
  ⟨"_morph.erode", [``C10_filter_table_ok, ``C10_filter_iterator_refines, ``C10_fastbinary_in_bounds, ``C10_alloc_pixel_loop_defined], [``C11_morph_guards_imply_pre, ``C11_erode_dilate_safe], "safe", ""⟩,
  ⟨"_morph.locmin_max", [``C10_filter_table_ok, ``C10_filter_iterator_refines, ``C10_alloc_fill_defined], [], "bounds", "filter iterator + conditional stores at the pixel cursor; no model of its own"⟩,
  ⟨"_morph.regmin_max", [``C10_filter_table_ok, ``C10_filter_iterator_refines, ``C10_alloc_fill_defined, ``C10_regmin_max_in_bounds, ``C10_stack_flood_in_bounds, ``C10_position_stack_in_bounds], [], "bounds", "unconditional (every marking, every outcome of the value tests); the locmin_max part is filter iterator + stores at the pixel cursor"⟩,
  ⟨"_morph.dilate", [``C10_filter_table_ok, ``C10_filter_iterator_refines, ``C10_fastbinary_in_bounds, ``C10_alloc_fill_defined], [``C11_morph_guards_imply_pre, ``C11_erode_dilate_safe], "safe", "the scatter writes `filter.set(rpos, j, …)` use the same offset table as the reads"⟩,
  ⟨"_morph.disk_2d", [``C10_disk_2d_in_bounds], [``C11_disk_guards_imply_pre, ``C11_disk_2d_safe], "safe", ""⟩,
  ⟨"_morph.close_holes", [``C10_close_holes_seeding_in_bounds, ``C10_stack_flood_in_bounds, ``C10_close_holes_flood_terminates, ``C10_position_stack_in_bounds, ``C10_alloc_fill_defined], [``C11_2d_guards_imply_pre, ``C11_close_holes_safe], "safe", ""⟩,
  ⟨"_morph.cwatershed", [``C10_cwatershed_in_bounds, ``C10_cwatershed_table_ok], [``C11_cwatershed_guards_imply_pre], "pre", "priority queue by contract"⟩,
  ⟨"_morph.distance_multi", [``C10_distance_multi_in_bounds, ``C10_distance_multi_terminates, ``C10_distance_multi_needs_neighbour, ``C10_position_queue_in_bounds], [], "bounds", "needs a Bc with a set non-centre element (not guarded); direct native call only (no public wrapper reaches it)"⟩,
  ⟨"_morph.hitmiss", [``C10_hitmiss_in_bounds, ``C10_hitmiss_margin_test_sufficient], [``C11_hitmiss_guards_imply_pre, ``C11_hitmiss_safe], "safe", ""⟩,
  ⟨"_morph.majority_filter", [``C10_majority_in_bounds, ``C10_alloc_window_defined], [``C11_majority_guards_imply_pre, ``C11_majority_safe], "safe", ""⟩,
  ⟨"_thin.thin", [``C10_thin_in_bounds, ``C10_alloc_thin_buffer_defined], [``C11_thin_safe], "safe", "`coordinates_delta` / `fill_data` offsets come from the generated element tables"⟩,
  ⟨"_lbp.map", [``C10_lbp_map_in_bounds], [``C11_features_guards_imply_pre, ``C11_lbp_safe_partial], "partial", "`points <= 32` and `code < 2^points` are not guarded"⟩,
  ⟨"_surf.surf", [``C10_surf_pyramid_in_bounds, ``C10_surf_interest_points_in_bounds, ``C10_surf_descriptor_windows_in_bounds, ``C10_surf_dominant_angle_in_bounds, ``C10_surf_descriptor_index_in_bounds, ``C10_alloc_surf_records_defined], [``C11_surf_guards_imply_pre, ``C11_surf_pyramid_safe], "safe", "float->int conversions abstracted"⟩,
  ⟨"_surf.descriptors", [``C10_surf_descriptor_windows_in_bounds, ``C10_surf_dominant_angle_in_bounds, ``C10_surf_descriptor_index_in_bounds, ``C10_alloc_surf_records_defined], [``C11_surf_descriptors_safe], "safe", "float->int conversions abstracted"⟩,
  ⟨"_surf.interest_points", [``C10_surf_pyramid_in_bounds, ``C10_surf_interest_points_in_bounds, ``C10_alloc_surf_records_defined], [``C11_surf_guards_imply_pre, ``C11_surf_pyramid_safe], "safe", ""⟩,
  ⟨"_surf.pyramid", [``C10_surf_pyramid_in_bounds, ``C10_surf_pyramid_guarded, ``C10_surf_pyramid_no_int_overflow], [``C11_surf_guards_imply_pre, ``C11_surf_pyramid_safe], "safe", ""⟩,
  ⟨"_surf.integral", [``C10_integral_in_bounds], [], "bounds", ""⟩,
  ⟨"_surf.sum_rect", [``C10_surf_sum_rect_in_bounds, ``C10_surf_sum_rect_entry_in_bounds], [], "bounds", "unconditional: every argument tuple is safe"⟩,
  ⟨"_texture.cooccurence", [``C10_cooccurence_in_bounds, ``C10_cooccurence_assertion_off_by_one], [``C11_cooccurence_guards_imply_pre, ``C11_cooccurence_safe, ``C11_cooccurence_linked_safe, ``C11_cooccurence_index_guarded], "safe", "the in-loop tests `val >= 0`, `val2 >= 0` are extracted from the source (indexGuardTable)"⟩,
  ⟨"_texture.compute_plus_minus", [``C10_compute_plus_minus_in_bounds, ``C10_alloc_fill_defined], [], "bounds", "the sizes 2*maxv / maxv come from haralick_features (Python)"⟩,
  ⟨"_zernike.znl", [``C10_znl_in_bounds, ``C10_znl_fact_in_bounds, ``C10_alloc_znl_gm_defined], [``C11_features_guards_imply_pre, ``C11_zernike_loop_pre, ``C11_znl_safe], "safe", "the three array sizes are equal by construction in zernike.py (links `other`)"⟩
]

/-- **C11/C10, coverage of the native entry points.** EVERY `py_*` entry point of the current sources (the 52 rows of
`Generated.nativeGuardTable`) has a row in `entryCover`, every row names at least one theorem, and every theorem named exists
(the names are checked when this file is elaborated). A NEW entry point that nobody has looked at makes this `decide` fail.
The levels: 34 entry points reach a composed `C11_*_safe` corollary, 2 a `_partial` one, 5 have guards ⇒ precondition only, 11 a
C10 bounds theorem only; no entry point is left without an index model. -/
theorem C11_native_entry_points_covered :
    Generated.nativeGuardTable.all (fun e => entryCover.any fun c => c.entry == e.1) = true ∧
    entryCover.all (fun c => !(c.c10.isEmpty && c.c11.isEmpty)) = true ∧
    (entryCover.filter fun c => c.level == "safe").length = 34 ∧
    (entryCover.filter fun c => c.level == "partial").length = 2 ∧
    (entryCover.filter fun c => c.level == "pre").length = 5 ∧
    (entryCover.filter fun c => c.level == "bounds").length = 11 ∧
    (entryCover.filter fun c => c.c10.isEmpty).map (·.entry) = [] := by
  decide +kernel

end Round4Alloc
-- ---------------------------------------------------------------------------------------------------------
