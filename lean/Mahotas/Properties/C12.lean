/-
C12 — property theorems (statements only; helper lemmas live in `Proofs/C12.lean`).

What is proved here is the *reason* concurrent calls return the single-threaded results:
 T1  confinement ⇒ every interleaving gives every thread its solo result (model of Part 1),
 T2  the three control skeletons used around released-lock regions keep the lock discipline on
     every path (model of Part 2), and the extracted `gil_release` sites fall into these idioms
     with no interpreter call lexically inside a released region,
 T3  no C++ object with static storage duration is written by a kernel, and the Python module globals
     written by functions are idempotent lazy caches, without exception
     (`decide` over the table the translator extracts from the current sources),
 T4  the access programs of the kernels (erode, convolve, label, cwatershed, labeled folds) touch only
     the call's arguments and its own arrays, so any family of calls with disjoint outputs is confined
     and T1 applies to it; all five programs compute the models' values in their solo run;
     the roles of every program stay inside the kernel's arity; a call that raises after any number of
     kernel steps has written nothing outside its own arrays.
Real data races inside the compiled C++ and CPython's own guarantees are runtime behaviour and are
only validated (thread stress), see the evidence file.
-/
import Mahotas.Proofs.C12
import Mahotas.Proofs.C12Kernels
import Mahotas.Proofs.C12Roles
import Mahotas.Proofs.C12Exceptions
import Mahotas.Proofs.C12Label
import Mahotas.Proofs.C12Cwatershed
import Mahotas.Proofs.C12Kernels2
import Mahotas.Proofs.C12Histogram
import Mahotas.Proofs.C12Kernels3
import Mahotas.Generated.Statics
namespace Mahotas.C12
open Mahotas

/-- the lock discipline of a trace, declaratively (what `disciplined true tr` means, see
`disciplined_sound`): starting with the lock held, before every `release`, `validate`,
`interpAccess` and `ret` the lock is held; before every `acquire` it is not held (so releases and
acquisitions strictly alternate); `ret` occurs exactly once, as the last event; at the end the lock
is held. -/
def Discipline (tr : List Ev) : Prop :=
  (∀ (i : Nat) (e : Ev), tr[i]? = some e →
      ((e = .release ∨ e = .validate ∨ e = .interpAccess ∨ e = .ret) → heldAfter true (tr.take i) = true) ∧
      (e = .acquire → heldAfter true (tr.take i) = false) ∧
      (e = .ret → i + 1 = tr.length)) ∧
  tr.getLast? = some .ret ∧ heldAfter true tr = true

/-- T3 predicate for C++ objects with static storage duration: shared by concurrent calls only if
immutable (`const`) or never written by any function of its file (only the loader/interpreter touches
it at module initialisation). -/
def staticOk (o : Generated.StaticObj) : Bool :=
  o.isConst || (!o.written)

/-- T3 predicate for Python module globals that some function rebinds or mutates: a lazily
initialised cache whose complete value is published by a single guarded rebinding (every racing
initialiser publishes an equal value; readers never see it half built). There is NO exception list:
the former entry `labeled._perimeter_values` (published before it was filled in, finding
`thread-mismatch:perimeter-first-use`) is repaired in the sources — the table is now built in a local
and published by one rebinding. -/
def pyGlobalOk (o : Generated.StaticObj) : Bool :=
  o.lazyIdempotent

/-- T2 (site table) predicate: the site uses one of the three idioms and no Python C-API call is
lexically inside the released region -/
def siteOk (s : Generated.GilSite) : Bool :=
  decide (s.idiom ≤ 2) && decide (s.interpCalls = 0)

end Mahotas.C12

open Mahotas Mahotas.C12

/-- **C12-T1 (interleaving independence, every prefix).** If every step of every thread `t` writes only
memory private to `t` and reads only memory private to `t` or shared read-only memory, then for EVERY
schedule (any interleaving of any length, complete or not) and every initial memory `m`: after the
interleaved run, thread `t`'s private memory and program counter are exactly those of `t` running
alone from `m` for as many turns as the schedule gave it. Quantified over all thread counts, all
programs (arbitrary step functions) and all schedules. -/
theorem C12_interleaving_independent (progs : Progs) (hc : Confined progs) (sched : List Nat)
    (m : Mem) (t : Nat) :
    (∀ l : Loc, l.region = .priv t →
        (run progs sched (init m)).mem l = (soloSteps progs t (sched.count t) m).mem l) ∧
    (run progs sched (init m)).pc t = (soloSteps progs t (sched.count t) m).pc t := by
  have h := view_run progs hc t sched (init m)
  exact ⟨fun l hl => h.2 l (Or.inl hl), h.1⟩

/-- **C12-T1 (complete schedules).** Under the same confinement hypothesis, for every schedule that
gives each thread at least as many turns as it has steps, each thread's final private memory equals
the result of its complete solo run from the same initial memory — whatever the interleaving. -/
theorem C12_interleaving_independent_complete (progs : Progs) (hc : Confined progs)
    (sched : List Nat) (hs : Complete progs sched) (m : Mem) (t : Nat) (l : Loc)
    (hl : l.region = .priv t) :
    (run progs sched (init m)).mem l = solo progs t m l := by
  rw [(C12_interleaving_independent progs hc sched m t).1 l hl]
  unfold solo
  rw [soloSteps_ge progs t _ m (hs t)]

/-- **C12-T1 (schedule independence).** Any two complete schedules leave every thread's private
memory in the same state. -/
theorem C12_schedule_independent (progs : Progs) (hc : Confined progs) (s1 s2 : List Nat)
    (h1 : Complete progs s1) (h2 : Complete progs s2) (m : Mem) (t : Nat) (l : Loc)
    (hl : l.region = .priv t) :
    (run progs s1 (init m)).mem l = (run progs s2 (init m)).mem l := by
  rw [C12_interleaving_independent_complete progs hc s1 h1 m t l hl,
      C12_interleaving_independent_complete progs hc s2 h2 m t l hl]

/-- **C12-T1 (shared and interpreter memory untouched).** Under confinement no schedule changes any
location outside the private regions: shared read-only inputs and interpreter state keep their
initial values. -/
theorem C12_shared_unchanged (progs : Progs) (hc : Confined progs) (sched : List Nat) (m : Mem)
    (l : Loc) (hl : l.region = .sharedRO ∨ l.region = .interp) :
    (run progs sched (init m)).mem l = m l := by
  apply run_nonpriv progs hc sched (init m) l
  intro t ht
  rcases hl with h | h <;> rw [h] at ht <;> cases ht

/-- **C12-T1 (no call observes another call's temporaries).** Thread `t`'s result does not depend on
the other threads at all: replacing their private memories (any initial memory `m'` that agrees with
`m` on `t`'s private and on the shared read-only locations) leaves `t`'s final private memory unchanged,
for every schedule. -/
theorem C12_no_observation_of_others (progs : Progs) (hc : Confined progs) (sched : List Nat)
    (m m' : Mem) (t : Nat)
    (hagree : ∀ l : Loc, (l.region = .priv t ∨ l.region = .sharedRO) → m l = m' l)
    (l : Loc) (hl : l.region = .priv t) :
    (run progs sched (init m)).mem l = (run progs sched (init m')).mem l := by
  have h1 := view_run progs hc t sched (init m)
  have h2 := view_run progs hc t sched (init m')
  have h0 : View t (init m) (init m') := ⟨rfl, hagree⟩
  have h3 := view_run_self progs hc (sched.count t) h0
  exact ((h1.trans h3).trans h2.symm).2 l (Or.inl hl)

/-- **C12-T2 (lock discipline of the three idioms, every path).** For each of the three idioms —
(a) RAII `gil_release` as first statement of a kernel called inside `SAFE_SWITCH_ON_TYPES_OF`
(try / `CATCH_PYTHON_EXCEPTIONS`), (b) a braced `{ gil_release nogil; … }` block with
`nogil.restore()` before `PyErr_*` on its error path, (c) `try { gil_release … } catch (bad_alloc)` —
for every number `n` of kernel steps and every outcome the idiom's code can exhibit (normal
completion; a C++ exception after any number `k` of steps for (a) and (c); an in-place error after any
`k` steps for (b)), provided no reference-counted wrapper is constructed inside the released region:
every interpreter access (`validate`, `PyErr_*`, allocation, building the return value) happens with
the lock held, releases and acquisitions strictly alternate, and the call returns holding the lock. -/
theorem C12_gil_discipline_all_paths (i : Idiom) (n : Nat) (o : Outcome)
    (hp : Outcome.possible i o = true) : Discipline (skeleton i n false o) := by
  apply disciplined_sound
  have hk : ∀ (h : Bool) (k : Nat) (rest : List Ev), rest ≠ [] →
      disciplined h (steps k ++ rest) = disciplined h rest := disciplined_steps
  cases i <;> cases o <;> simp [Outcome.possible] at hp <;>
    simp [skeleton, gilScope, kernelBody, tryCatchRegion, andThen, disciplined, hk, List.append_assoc]

/-- **C12-T2 (validation failure path).** `PyErr_SetString(...); return NULL;` before any release
keeps the discipline trivially. -/
theorem C12_gil_discipline_invalid_args : Discipline skeletonInvalid := by
  apply disciplined_sound; decide

/-- **C12-T2 (why the hypotheses are needed).** (1) A reference-counted array wrapper constructed
inside the released region is an interpreter access without the lock — in every idiom, on every path,
for every number of steps: such a skeleton is never disciplined. (2) In idiom (b) (no handler) a C++
exception leaves the entry point without `ret`: not disciplined either. -/
theorem C12_gil_discipline_violations (i : Idiom) (n : Nat) (o : Outcome) (k : Nat) :
    disciplined true (skeleton i n true o) = false ∧
    disciplined true (skeleton .b n false (.throwAt k)) = false := by
  constructor
  · cases i <;> cases o <;>
      simp [skeleton, gilScope, kernelBody, tryCatchRegion, andThen, disciplined, List.append_assoc]
  · have hk := disciplined_steps
    simp [skeleton, gilScope, kernelBody, andThen, disciplined, hk, List.append_assoc]

/-- **C12-T2 (site table).** Every `gil_release` declaration of the current sources (extracted by
`translator/statics.py` on this run) uses one of the three idioms, and no Python C-API call
(`PyErr_*`, allocation, reference counting macros, …) is lexically inside its released region, except
after an explicit `restore()`. Array wrappers constructed inside a released region are NOT covered
by this statement: see `C12_release_sites_without_wrappers_partial`. -/
theorem C12_release_sites_disciplined :
    Generated.gilSites.all siteOk = true ∧ Generated.gilSites.length ≥ 30 := by
  decide

/-- **C12-T2 (partial: reference counts).** The released regions in which NO reference-counted array
wrapper (`numpy::aligned_array`, `array_base`) is constructed lexically — for these sites skeleton and
code agree with `C12_gil_discipline_all_paths` — are all sites but at most three.
Missing: the remaining sites (listed by the driver, `kind=sites`) touch a reference count of a possibly
shared array without the lock (`C12_gil_discipline_violations` (1)); helper objects whose constructor
builds a wrapper (field `helperWrappers`: `filter_iterator` of `_filters.h`, constructed inside 11 released
regions — an OPEN known finding) and wrappers copied *by value* into helper functions are not counted
here. These are covered by the reference-count stress run and the harness' site check only. -/
theorem C12_release_sites_without_wrappers_partial :
    (Generated.gilSites.filter (fun s => decide (s.wrappers ≠ 0))).length ≤ 3 := by
  decide

/-- **C12-T3 (no shared writes, C++).** Over the WHOLE table of objects with static storage duration
(namespace scope, class-static, function-`static`, in every `.cpp`/`.h`/`.hpp`) extracted from the
current sources on this run: every object is `const`, or no function of its file writes it or lets it
escape (it is touched only at module initialisation). `_factorialtable` is non-const but only read;
`methods`/`moduledef` are handed to the interpreter at import. A new `static int counter; counter++`
in a kernel makes this statement false. -/
theorem C12_no_shared_writes :
    (Generated.statics.filter (fun o => o.lang == "c++")).all staticOk = true ∧
    (Generated.statics.filter (fun o => o.lang == "c++")).length ≥ 40 := by
  decide

/-- **C12-T3 (Python module globals, no exceptions).** Every module global of `mahotas/**.py` that some
function rebinds (`global X` followed by a plain, augmented, annotated or tuple-unpacking assignment, a
`for` / `with … as` target, a walrus or a `del`) or mutates in place (item / attribute / slice store,
`del X[…]`, a mutating method such as `append`/`update`/`sort`/`fill` on the global or on something
reached from it) is a lazily initialised cache: the writes sit under an `if X is None:` guard, the
complete, argument-independent value is published by ONE rebinding and nothing mutates it afterwards.
NO function-written global is excused (the earlier `knownOpenGlobals` list is gone); the table is
extracted from the current sources on every run, so any NEW function-written global that is not an
idempotent lazy cache makes this statement false. -/
theorem C12_python_globals_benign :
    (Generated.statics.filter (fun o => o.lang == "py")).all pyGlobalOk = true ∧
    (Generated.statics.filter (fun o => o.lang == "py")).length ≥ 1 ∧
    (Generated.statics.any fun o => o.lang == "py" && o.name == "_perimeter_values" && o.lazyIdempotent) = true := by
  decide

/-! ## T4 — the kernels are confined; concurrent kernels with disjoint outputs are independent -/

/-- **C12-T4 (kernel confinement).** Each of the five kernel access programs of `Model/C12Kernels.lean`
— `erode` (gather through `fixPos`/`C08.View.addr`, result at the iterator address), `convolve` (same
shape, weights copied into the call's own filter buffer, flagged samples not read), `label` (reads Bc;
reads AND writes its own `labeled` buffer where the union-find parents live, its register and its
`seen` map), `cwatershed` (reads surface, markers, Bc; writes its result, `status`, priority queue,
`lines` and neighbour table) and the labeled folds (`labeled_foldl`: reads array and labels, writes
`result[label]`) — called on ANY footprint `c` with at least one owned array, for ALL shapes, strides,
base offsets, element values, border modes and fold functions:
(1) every step writes an array the call owns and reads only argument arrays or owned arrays
(`KStep.Within`: write set ⊆ outputs, read set ⊆ inputs ∪ outputs, stated on `writeSet`/`readSet`);
(2) in every family of calls with disjoint outputs in which this call is number `t`, every step of the
compiled thread program is `Step.Confined t` (writes `priv t`, reads `priv t` or `sharedRO`).
The read set over-approximates where the C++ leaves a loop early (`erode`'s break at the dtype minimum).
How the programs relate to the kernels' VALUES is a separate matter: see `C12_erode_program_computes_model`,
`C12_convolve_program_computes_model`, `C12_labeled_fold_program_computes_model`,
`C12_label_program_computes_model`, `C12_cwatershed_program_computes_model` (all five tied). -/
theorem C12_kernel_confined (k : Kernel) (c : Call) (hne : c.outputs ≠ []) :
    (∀ s ∈ (k.call c).prog, s.Within c) ∧
    (∀ l ∈ writeSet (k.call c).prog, l.arr ∈ c.outputs) ∧
    (∀ l ∈ readSet (k.call c).prog, l.arr ∈ c.inputs ∨ l.arr ∈ c.outputs) ∧
    (∀ (kcs : List KCall) (t : Nat), kcs[t]? = some (k.call c) → DisjointOutputs (kcs.map (·.call)) →
      ∀ s ∈ compile kcs t, s.Confined t) := by
  have hw : ∀ s ∈ (k.call c).prog, s.Within c := prog_within (k.call c) hne
  refine ⟨hw, ?_, ?_, ?_⟩
  · intro l hl
    simp only [writeSet, List.mem_map] at hl
    obtain ⟨s, hs, rfl⟩ := hl
    exact (hw s hs).1
  · intro l hl
    simp only [readSet, List.mem_flatMap] at hl
    obtain ⟨s, hs, hl⟩ := hl
    exact (hw s hs).2 l hl
  · intro kcs t ht hd s hs
    unfold compile at hs
    rw [ht] at hs
    simp only [List.mem_map] at hs
    obtain ⟨ks, hks, rfl⟩ := hs
    exact compile_step_confined _ hd t c (by simp [ht, Kernel.call]) ks (hw ks hks)

/-- **C12-T4 (concurrent kernels are independent).** Take any number of native calls in flight — any mix
of the five kernels with any parameters, call number `t` running kernel `ks[t].1` on the arrays
`ks[t].2` — such that every call owns at least one array and the outputs are disjoint: an array owned
by one call (result buffer, queue, status, filter copy, …) is neither owned nor read by another call
(shared ARGUMENT arrays are allowed). Then for EVERY schedule and every initial memory:
(1) after the interleaved run every location of every array owned by call `t` holds exactly what it
holds after `t` has run alone for as many turns as the schedule gave it — in particular
(2) for a complete schedule, exactly the result of its complete solo run — and
(3) every array that no call owns (the shared inputs) is unchanged.
Obtained from `C12_interleaving_independent(_complete)` and `C12_shared_unchanged` through
`compile_confined`. -/
theorem C12_concurrent_kernels_independent (ks : List (Kernel × Call))
    (hne : ∀ p ∈ ks, p.2.outputs ≠ []) (hd : DisjointOutputs (ks.map (·.2)))
    (sched : List Nat) (m : Mem) :
    let kcs := ks.map (fun p => p.1.call p.2)
    let calls := ks.map (·.2)
    (∀ (t : Nat) (p : Kernel × Call), ks[t]? = some p → ∀ l : KLoc, l.arr ∈ p.2.outputs →
      (run (compile kcs) sched (init m)).mem (l.toLoc calls) =
        (soloSteps (compile kcs) t (sched.count t) m).mem (l.toLoc calls) ∧
      (Complete (compile kcs) sched →
        (run (compile kcs) sched (init m)).mem (l.toLoc calls) = solo (compile kcs) t m (l.toLoc calls))) ∧
    (∀ l : KLoc, (∀ p ∈ ks, l.arr ∉ p.2.outputs) →
      (run (compile kcs) sched (init m)).mem (l.toLoc calls) = m (l.toLoc calls)) := by
  intro kcs calls
  have hcalls : kcs.map (·.call) = calls := by
    simp [kcs, calls, Kernel.call, Function.comp_def]
  have hconf : Confined (compile kcs) := by
    apply compile_confined
    · intro kc hkc
      simp only [kcs, List.mem_map] at hkc
      obtain ⟨p, hp, rfl⟩ := hkc
      exact hne p hp
    · rw [hcalls]; exact hd
  refine ⟨?_, ?_⟩
  · intro t p ht l hl
    have hreg : (l.toLoc calls).region = .priv t :=
      region_of_output calls hd t p.2 (by simp [calls, ht]) l.arr hl
    refine ⟨(C12_interleaving_independent _ hconf sched m t).1 _ hreg, fun hs => ?_⟩
    exact C12_interleaving_independent_complete _ hconf sched hs m t _ hreg
  · intro l hl
    apply C12_shared_unchanged _ hconf
    left
    show regionOfArr calls l.arr = .sharedRO
    unfold regionOfArr
    cases h : ownerFrom calls 0 l.arr with
    | none => rfl
    | some u =>
      obtain ⟨i, ci, h1, _, h3⟩ := ownerFrom_some calls 0 l.arr u h
      simp only [calls, List.getElem?_map, Option.map_eq_some_iff] at h1
      obtain ⟨p, hp, rfl⟩ := h1
      exact absurd h3 (hl p (List.mem_of_getElem? hp))

/-- **C12-T4 (tie: the erode program computes `C01.erodeModel`).** Let call number `t` of ANY family of
calls be `erode` (any dtype, any views of the array / result / structuring element: arbitrary base,
strides, shape with positive axis lengths; any structuring element) on arrays `[aA, aBc]` → `[aOut, aTmp]`
with the input array distinct from the owned ones. If the initial memory presents the logical image `A`
through the view `vA` at every position the border rule `nearest` delivers, and the result view does not
overlap itself (distinct iterator addresses for distinct pixels), then after the SOLO run of the compiled
step program the result location of pixel number `k` (the address `iterator_base` reaches after `k`
increments) holds exactly `(C01.erodeModel dt A sup)[k]` — the value of the model the driver runs
(`c01 kind=erode`), early exit included. Together with `C12_concurrent_kernels_independent` the same value
is there after every complete interleaving with any other calls that have disjoint outputs. -/
theorem C12_erode_program_computes_model (kcs : List KCall) (t : Nat) (dt : DT) (vA vOut vBc : C08.View)
    (bc : Array Int) (aA aBc aOut aTmp : Nat)
    (hk : kcs[t]? = some ((Kernel.erode dt vA vOut vBc bc).call ⟨[aA, aBc], [aOut, aTmp]⟩))
    (hne1 : aA ≠ aOut) (hne2 : aA ≠ aTmp)
    (A : Img Int) (hshape : A.shape = vA.shape) (hpos : ∀ d ∈ vA.shape, 0 < d) (m : Mem)
    (hA : ∀ q q', fixPos .nearest vA.shape q = some q' →
        m ((KLoc.mk aA (vA.addr (q'.map Int.toNat))).toLoc (kcs.map (·.call))) = A.getD q' 0)
    (hinj : ∀ k k', k < shapeSize vA.shape → k' < shapeSize vA.shape →
        iterAddr vOut k = iterAddr vOut k' → k = k')
    (k : Nat) (hkn : k < shapeSize vA.shape) :
    solo (compile kcs) t m ((KLoc.mk aOut (iterAddr vOut k)).toLoc (kcs.map (·.call))) =
      (C01.erodeModel dt A (C01.support vBc.shape bc dt.isBool)).getD k 0 :=
  erode_solo_value kcs t dt vA vOut vBc bc aA aBc aOut aTmp hk hne1 hne2 A hshape hpos m hA hinj k hkn

/-- **C12-T4 (tie: the convolve program computes `C06.convAcc`).** Same setting for `convolve` with ANY
border mode (flagged samples of `constant`/`ignore` are neither read nor accumulated): after the solo run
the result location of pixel `k` holds the accumulator `C06.convAcc mode f support (unravel k)` of the
polymorphic kernel model, here at `Int` (the driver instantiates the same definition at `Float`; the final
cast to the output dtype of `convolveModel` is not part of the access program). -/
theorem C12_convolve_program_computes_model (kcs : List KCall) (t : Nat) (md : Mode) (vA vOut vW : C08.View)
    (w : Array Int) (aA aW aOut aTmp : Nat)
    (hk : kcs[t]? = some ((Kernel.convolve md vA vOut vW w).call ⟨[aA, aW], [aOut, aTmp]⟩))
    (hne1 : aA ≠ aOut) (hne2 : aA ≠ aTmp)
    (f : Img Int) (hshape : f.shape = vA.shape) (m : Mem)
    (hA : ∀ q q', fixPos md vA.shape q = some q' →
        m ((KLoc.mk aA (vA.addr (q'.map Int.toNat))).toLoc (kcs.map (·.call))) = f.getD q' 0)
    (hinj : ∀ k k', k < shapeSize vA.shape → k' < shapeSize vA.shape →
        iterAddr vOut k = iterAddr vOut k' → k = k')
    (k : Nat) (hkn : k < shapeSize vA.shape) :
    solo (compile kcs) t m ((KLoc.mk aOut (iterAddr vOut k)).toLoc (kcs.map (·.call))) =
      C06.convAcc md f (C06.support (fun (x : Int) => x == 0) vW.shape w) (unravelI vA.shape k) :=
  convolve_solo_value kcs t md vA vOut vW w aA aW aOut aTmp hk hne1 hne2 f hshape m hA hinj k hkn

/-- **C12-T4 (tie: the labeled-fold program computes `C08.labeledFoldView`).** Let call number `t` be
`labeled_foldl` (any fold function — sum, max, min —, any start value, any `maxlabel`, any views of the
array and of the labels) on arrays `[aA, aL]` → `[aRes, aReg]`, the five array ids distinct as required.
If the initial memory holds `mA` in array `aA` and `mL` in array `aL` (the label memory the trace was
generated from), then after the solo run of the step program — `std::fill`, then one read-modify-write
of `result[label]` per in-range element — entry `j < maxlabel` of the result table is exactly
`(C08.labeledFoldView f start maxlabel mA vA mL vL)[j]`, the kernel model the driver runs (`c08 kind=lsum`). -/
theorem C12_labeled_fold_program_computes_model (kcs : List KCall) (t : Nat) (f : Val → Val → Val)
    (start : Val) (maxlabel : Nat) (vA vL : C08.View) (mA mL : Int → Int) (aA aL aRes aReg : Nat)
    (hk : kcs[t]? = some ((Kernel.fold f start maxlabel vA vL mL).call ⟨[aA, aL], [aRes, aReg]⟩))
    (h1 : aA ≠ aRes) (h2 : aA ≠ aReg) (h3 : aL ≠ aRes) (h4 : aL ≠ aReg) (h5 : aRes ≠ aReg) (m : Mem)
    (hA : ∀ a, m ((KLoc.mk aA a).toLoc (kcs.map (·.call))) = mA a)
    (hL : ∀ a, m ((KLoc.mk aL a).toLoc (kcs.map (·.call))) = mL a)
    (j : Nat) (hj : j < maxlabel) :
    (C08.labeledFoldView f start maxlabel mA vA mL vL)[j]? =
      some (solo (compile kcs) t m ((KLoc.mk aRes (j : Int)).toLoc (kcs.map (·.call)))) :=
  fold_solo_value kcs t f start maxlabel vA vL mA mL aA aL aRes aReg hk h1 h2 h3 h4 h5 m hA hL j hj

/-- **C12-T4 (tie: the label program computes `C03.labelModel`).** Let call number `t` of ANY family of calls be
`label` (any border mode, shape, structuring element) on arrays `[aBc]` → `[aL, aF, aReg, aSeen]` (the `labeled` buffer,
the filter copy, the registers, the `seen` map; `aL` distinct from the other three, registers distinct from `seen`). The
access program is a REAL step program: the addresses are generated along the run of the union-find model (`find` follows
the parent pointers, so they are data dependent, as in `labeled_foldl`), but every stored value is computed by the step
from the values it reads — `data[i] = data[i] ? i : -1`; `find` loads `data[i]`, returns the root through the register
and stores the register on the way back; `join` stores the register at the first root; the renumbering loop does
`data[i] = seen[val]` or `data[i] = next; seen[val] = next; ++next`. If the initial memory holds `data` in the `labeled`
buffer, then after the SOLO run of the compiled program element `j` of that buffer is exactly
`(C03.labelModel mode shape data bshape bc).1[j]` — the model the driver runs (`c03 kind=label`, proved equal to the
connected-component specification in C03) — and the `next` register holds the returned count plus one. With
`C12_concurrent_kernels_independent` the same labels are there after every complete interleaving with any other calls that
have disjoint outputs. (No well-formedness of the parent forest is assumed: the simulation holds for every input, using
only that every parent entry is `-1` or an index below `N`, which the program itself maintains.) -/
theorem C12_label_program_computes_model (kcs : List KCall) (t : Nat) (md : Mode) (shape : List Nat)
    (data : List Int) (vBc : C08.View) (bc : Array Int) (aBc aL aF aReg aSeen : Nat)
    (hk : kcs[t]? = some ((Kernel.label md shape data vBc bc).call ⟨[aBc], [aL, aF, aReg, aSeen]⟩))
    (hLF : aL ≠ aF) (hLR : aL ≠ aReg) (hLS : aL ≠ aSeen) (hRS : aReg ≠ aSeen) (m : Mem)
    (hM : ∀ j, j < data.length → m ((KLoc.mk aL (j : Int)).toLoc (kcs.map (·.call))) = data.getD j 0) :
    (∀ j, j < data.length →
      solo (compile kcs) t m ((KLoc.mk aL (j : Int)).toLoc (kcs.map (·.call))) =
        (C03.labelModel md shape data vBc.shape bc).1.getD j 0) ∧
    solo (compile kcs) t m ((KLoc.mk aReg 1).toLoc (kcs.map (·.call))) =
      (C03.labelModel md shape data vBc.shape bc).2 + 1 :=
  label_solo_value kcs t md shape data vBc bc aBc aL aF aReg aSeen hk hLF hLR hLS hRS m hM

/-- **C12-T4 (tie: the cwatershed program computes `C04.cwatershedModel`).** Let call number `t` of ANY family of calls
be `cwatershed` on arrays `[aS, aM, aBc]` (surface, markers, Bc) → `[aRes, aSt, aQ, aLn, aT, aR]` (result, `status`, priority
queue, `lines`, neighbour table, register) with `res`, `status`, `lines` distinct from each other and from the queue, the
table and the register, and the markers array distinct from the owned arrays written before it is read (`CDist`). Every
value the access program stores into `res`, `status`, `lines` is a constant the C++ stores as a constant
(`status[..] = grey/black`, `lines[..] = true`) or a copy of a value it reads (`res[mpos] = *miter`,
`rdata[npos] = rdata[next.position]`); the addresses are generated along the run of the model (the order in which the queue
delivers the pixels is data dependent). If markers and surface have the same shape, `Bc` has their rank, the initial
memory shows the markers through `vM`'s iterator and holds zeros in the `res` and `lines` buffers (the wrapper's
`np.zeros`), then after the SOLO run of the compiled program, for every pixel `j`: `res[j]`, `status[j]` (0 white / 1 grey
/ 2 black) and `lines[j]` (0/1) are exactly those of `C04.cwatershedModel surf markers bshape bc` — the model the driver
runs (`c04 kind=ws`), proved equal to the specification flooding in C04. That every address generated lies inside the
buffers (`next.position < N`, `npos < N`) is part of the proof (from `C04.Rel`: `C04.visit_rel`, `C04.rel_pop`,
`C04.nbCheck_sound`). The surface VALUES are irrelevant for this statement: they only flow into queue cells; the pop
order is the model's. -/
theorem C12_cwatershed_program_computes_model (kcs : List KCall) (t : Nat) (vS vM vBc : C08.View)
    (surf markers : Img Int) (bc : Array Int) (aS aM aBc aRes aSt aQ aLn aT aR : Nat)
    (hk : kcs[t]? = some ((Kernel.cwatershed vS vM vBc surf markers bc).call
      ⟨[aS, aM, aBc], [aRes, aSt, aQ, aLn, aT, aR]⟩))
    (hd : CDist aM aRes aSt aQ aLn aT aR)
    (hms : markers.shape = surf.shape) (hb : vBc.shape.length = surf.shape.length) (m : Mem)
    (hres : ∀ j, j < shapeSize surf.shape → m ((KLoc.mk aRes (j : Int)).toLoc (kcs.map (·.call))) = 0)
    (hln : ∀ j, j < shapeSize surf.shape → m ((KLoc.mk aLn (j : Int)).toLoc (kcs.map (·.call))) = 0)
    (hmk : ∀ i, i < shapeSize surf.shape →
      m ((KLoc.mk aM (iterAddr vM i)).toLoc (kcs.map (·.call))) = markers.data.getD i 0)
    (j : Nat) (hj : j < shapeSize surf.shape) :
    solo (compile kcs) t m ((KLoc.mk aRes (j : Int)).toLoc (kcs.map (·.call))) =
      (C04.cwatershedModel surf markers vBc.shape bc).res.getD j 0 ∧
    solo (compile kcs) t m ((KLoc.mk aSt (j : Int)).toLoc (kcs.map (·.call))) =
      (((C04.cwatershedModel surf markers vBc.shape bc).status.getD j 0 : Nat) : Int) ∧
    solo (compile kcs) t m ((KLoc.mk aLn (j : Int)).toLoc (kcs.map (·.call))) =
      (if (C04.cwatershedModel surf markers vBc.shape bc).lines.getD j false = true then 1 else 0) :=
  cwatershed_solo_value kcs t vS vM vBc surf markers bc aS aM aBc aRes aSt aQ aLn aT aR hk hd hms hb m hres hln hmk j hj

/-! ## T4, round 3 — well-formed roles, generic calls, exception paths -/

/-- **C12-T4 (roles are well formed: confinement is not an artefact of the fall-back).** `Call.arrOf` resolves a role
whose index does not exist to the call's first owned array, which makes `mkStep_within` true for ANY role-level
step. This theorem removes that crutch for the five kernel access programs: for every kernel `k` (any parameters,
any data) (1) every step `r` of `k.raw` mentions only roles inside `k.arity` (`RStep.rolesOk`: destination index
`< arity.2`, every source `inp i` with `i < arity.1`, `own i` with `i < arity.2`) — erode, convolve and the labeled
folds use 2 argument and 2 owned arrays, label 1 and 4, cwatershed 3 and 6; hence (2) for every footprint `c` with
at least `arity.1` argument arrays and `arity.2` owned arrays the STRICT resolution `mkStep?` (which fails instead of
falling back) succeeds on every step and returns exactly `mkStep c r`; (3) the array written is `c.outputs[r.dst]`,
the owned array the step names. So the write set of each kernel is contained in the call's owned arrays because
every destination IS one of the named owned arrays, and the read set in the named argument / owned arrays. -/
theorem C12_kernel_roles_wellformed (k : Kernel) :
    (∀ r ∈ k.raw, r.rolesOk k.arity = true) ∧
    (∀ c : Call, c.HasArity k.arity → ∀ r ∈ k.raw,
      mkStep? c r = some (mkStep c r) ∧ c.outputs[r.dst]? = some (mkStep c r).dst.arr) := by
  refine ⟨kernel_rolesOk k, fun c hc r hr => ⟨?_, ?_⟩⟩
  · exact mkStep?_of_rolesOk c k.arity hc r (kernel_rolesOk k r hr)
  · exact mkStep_dst_of_rolesOk c k.arity hc r (kernel_rolesOk k r hr)

/-- **C12-T4 (any role-level programs).** `C12_concurrent_kernels_independent` for an arbitrary family of calls, each
running an ARBITRARY role-level program (`KCall`: the five kernels, further kernels, truncated programs of calls that
raise): every call owns at least one array and an array owned by one call is neither owned nor read by another ⇒ for
every schedule and initial memory (1) every location of an array owned by call `t` holds what `t`'s solo run with the
same number of turns leaves there, (2) for a complete schedule the result of its complete solo run, (3) arrays nobody
owns are unchanged. -/
theorem C12_concurrent_calls_independent (kcs : List KCall)
    (hne : ∀ kc ∈ kcs, kc.call.outputs ≠ []) (hd : DisjointOutputs (kcs.map (·.call)))
    (sched : List Nat) (m : Mem) :
    let calls := kcs.map (·.call)
    (∀ (t : Nat) (kc : KCall), kcs[t]? = some kc → ∀ l : KLoc, l.arr ∈ kc.call.outputs →
      (run (compile kcs) sched (init m)).mem (l.toLoc calls) =
        (soloSteps (compile kcs) t (sched.count t) m).mem (l.toLoc calls) ∧
      (Complete (compile kcs) sched →
        (run (compile kcs) sched (init m)).mem (l.toLoc calls) = solo (compile kcs) t m (l.toLoc calls))) ∧
    (∀ l : KLoc, (∀ kc ∈ kcs, l.arr ∉ kc.call.outputs) →
      (run (compile kcs) sched (init m)).mem (l.toLoc calls) = m (l.toLoc calls)) := by
  intro calls
  have hconf : Confined (compile kcs) := compile_confined kcs hne hd
  refine ⟨?_, ?_⟩
  · intro t kc ht l hl
    have hreg : (l.toLoc calls).region = .priv t :=
      region_of_output calls hd t kc.call (by simp [calls, ht]) l.arr hl
    exact ⟨(C12_interleaving_independent _ hconf sched m t).1 _ hreg,
      fun hs => C12_interleaving_independent_complete _ hconf sched hs m t _ hreg⟩
  · intro l hl
    apply C12_shared_unchanged _ hconf
    left
    apply region_unowned
    intro c hc
    simp only [calls, List.mem_map] at hc
    obtain ⟨kc, hkc, rfl⟩ := hc
    exact hl kc hkc

/-- **C12 (exception paths release nothing).** Composition of the lock skeletons (T2) with the confinement of the
access programs (T4). Take any family `kcs` of native calls in flight (arbitrary role-level programs, every call owns an
array, disjoint outputs) and let call `t` = `kc` be wrapped in idiom `i` ∈ {(a) RAII release inside
`SAFE_SWITCH_ON_TYPES_OF`, (b) braced scope with `restore()`, (c) `try { gil_release … } catch (bad_alloc)`} and leave
its kernel with ANY outcome `o` the idiom can exhibit: a C++ exception after `k` steps ((a), (c)), an in-place error
after `k` steps ((b)), or normal completion. Then
(1) *control*: the trace keeps the lock `Discipline`; it is `validate, release`, then exactly as many `kernelStep`s as the
truncated access program `kc.truncate o` has steps (the first `min k n` steps of the program), then the exit sequence
(`throw, acquire, PyErr, ret` resp. `acquire, PyErr, ret`) — every kernel step lies between the release and the exit
sequence, none after the throw;
(2) *memory, the call alone*: the steps that did run leave every location of every array the call does not own
unchanged (its arguments included) — whatever `k` is;
(3) *memory, the other calls*: for every schedule, every location outside the arrays `t` owns holds exactly what it
holds when call `t` never runs its kernel at all (program `[]`): the other calls' results and the shared inputs cannot
tell whether, or where, `t` raised;
(4) the partial result left in `t`'s own arrays after a complete schedule is that of the first `min k n` steps of its
solo program, independent of the schedule. -/
theorem C12_exception_paths_release_nothing (kcs : List KCall)
    (hne : ∀ kc ∈ kcs, kc.call.outputs ≠ []) (hd : DisjointOutputs (kcs.map (·.call)))
    (t : Nat) (kc : KCall) (ht : kcs[t]? = some kc) (i : Idiom) (o : Outcome)
    (hp : Outcome.possible i o = true) (sched : List Nat) (m : Mem) :
    let n := kc.raw.length
    let tr := skeleton i n false o
    let kcs' := kcs.set t (kc.truncate o)
    let kcs0 := kcs.set t ⟨kc.call, []⟩
    let calls := kcs.map (·.call)
    (Discipline tr ∧
      tr = [.validate, .release] ++ steps (kc.truncate o).raw.length ++ exitSeq o ∧
      tr.count .kernelStep = (kc.truncate o).raw.length ∧
      (∀ j, tr[j]? = some .kernelStep → 2 ≤ j ∧ j < 2 + (kc.truncate o).raw.length) ∧
      Ev.kernelStep ∉ exitSeq o) ∧
    (∀ l : KLoc, l.arr ∉ kc.call.outputs →
      solo (compile kcs') t m (l.toLoc calls) = m (l.toLoc calls)) ∧
    (∀ l : KLoc, l.arr ∉ kc.call.outputs →
      (run (compile kcs') sched (init m)).mem (l.toLoc calls) =
        (run (compile kcs0) sched (init m)).mem (l.toLoc calls)) ∧
    (Complete (compile kcs') sched → ∀ l : KLoc, l.arr ∈ kc.call.outputs →
      (run (compile kcs') sched (init m)).mem (l.toLoc calls) =
        execAll ((compile kcs t).take (o.ran n)) m (l.toLoc calls)) := by
  intro n tr kcs' kcs0 calls
  have hlen : (kc.truncate o).raw.length = o.ran n := truncate_length kc o
  have hc' : kcs'.map (·.call) = calls := set_map_call kcs t kc _ ht (truncate_call kc o)
  have hc0 : kcs0.map (·.call) = calls := set_map_call kcs t kc _ ht rfl
  have hlt : t < kcs.length := (List.getElem?_eq_some_iff.1 ht).1
  have ht' : kcs'[t]? = some (kc.truncate o) := by simp [kcs', hlt]
  have ht0 : kcs0[t]? = some ⟨kc.call, []⟩ := by simp [kcs0, hlt]
  have hkcne : kc.call.outputs ≠ [] := hne kc (List.mem_of_getElem? ht)
  have hne' : ∀ x ∈ kcs', x.call.outputs ≠ [] := by
    intro x hx
    rcases List.mem_or_eq_of_mem_set hx with h | h
    · exact hne x h
    · rw [h, truncate_call]; exact hkcne
  have hne0 : ∀ x ∈ kcs0, x.call.outputs ≠ [] := by
    intro x hx
    rcases List.mem_or_eq_of_mem_set hx with h | h
    · exact hne x h
    · rw [h]; exact hkcne
  have hconf' : Confined (compile kcs') := compile_confined kcs' hne' (by rw [hc']; exact hd)
  have hconf0 : Confined (compile kcs0) := compile_confined kcs0 hne0 (by rw [hc0]; exact hd)
  refine ⟨⟨C12_gil_discipline_all_paths i n o hp, ?_, ?_, ?_, (exitSeq_no_kernelStep o).1⟩, ?_, ?_, ?_⟩
  · rw [hlen]; exact skeleton_shape i n o hp
  · rw [hlen]; exact skeleton_kernelSteps i n o hp
  · intro j hj; rw [hlen]; exact skeleton_kernelStep_pos i n o hp j hj
  · intro l hl
    have := solo_frame kcs' t (kc.truncate o) ht' (by rw [truncate_call]; exact hkcne) m l
      (by rw [truncate_call]; exact hl)
    rw [hc'] at this
    exact this
  · intro l hl
    rcases owner_cases calls l.arr with ⟨u, c, hu, ha⟩ | hnone
    · -- owned by call `u ≠ t`: both runs give `u`'s solo run, and `u`'s program is the same in both families
      have hut : u ≠ t := by
        intro h
        subst h
        have : c = kc.call := by
          have h2 : calls[u]? = some kc.call := by simp [calls, ht]
          rw [hu] at h2
          exact Option.some.inj h2
        exact hl (this ▸ ha)
      have hreg : (l.toLoc calls).region = .priv u := region_of_output calls hd u c hu l.arr ha
      rw [(C12_interleaving_independent _ hconf' sched m u).1 _ hreg,
        (C12_interleaving_independent _ hconf0 sched m u).1 _ hreg]
      rw [soloSteps_congr (compile kcs') (compile kcs0) u
        ((compile_set_other kcs t u kc _ ht (truncate_call kc o) hut).trans
          (compile_set_other kcs t u kc ⟨kc.call, []⟩ ht rfl hut).symm)]
    · have hreg : (l.toLoc calls).region = .sharedRO := region_unowned calls l.arr hnone
      rw [C12_shared_unchanged _ hconf' sched m _ (Or.inl hreg),
        C12_shared_unchanged _ hconf0 sched m _ (Or.inl hreg)]
  · intro hs l hl
    have hreg : (l.toLoc calls).region = .priv t :=
      region_of_output calls hd t kc.call (by simp [calls, ht]) l.arr hl
    rw [C12_interleaving_independent_complete _ hconf' sched hs m t _ hreg, solo_eq_execAll,
      compile_truncate kcs t kc ht o]

/-! ## T4, round 3 — eight more kernels (`Model/C12Kernels2.lean`) -/
/-- **C12-T4 (confinement of eight more kernels).** Each access program of `Model/C12Kernels2.lean` —
`dilate` (scatter: `std::fill`, then read-modify-writes of the RESULT at the clamped neighbour positions),
`rank_filter` (gather into the call's private `neighbours` buffer, `nth_element` inside that buffer, one
store per pixel), `template_match` (reads the image and the template, one store per pixel), `cooccurence`
(read-modify-write of `res[val][val2]`, address generated from the image content), `dist_transform`/`py_dt`
(reads and writes only the call's own array `f`, `orig` and its heap buffers `z`, `v`, `Df`, `ot`), `borders`
(reads up to the first differing neighbour, stores `true`), `thin` (work image, buffer, element table and
`any_change`, all owned) and `zoom_shift` (tables, `idxs`, knots of the input, one store per output
element) — called on ANY footprint `c` with at least one owned array, for ALL shapes, strides, base
offsets, element values, border modes, ranks, orders:
(1) every step writes an array the call owns and reads only argument arrays or owned arrays (`KStep.Within`),
(2) the write set lies in the outputs, (3) the read set lies in inputs ∪ outputs,
(4) in every family of calls with disjoint outputs in which this call is number `t`, every step of the
compiled thread program is `Step.Confined t`.
As for the first five kernels this is a statement about the hand-written access programs (they follow the
C++ by reading); see `C12_more_kernels_roles_ok` for "no role falls back to the default array". -/
theorem C12_more_kernels_confined (k : Kernel2) (c : Call) (hne : c.outputs ≠ []) :
    (∀ s ∈ (k.call c).prog, s.Within c) ∧
    (∀ l ∈ writeSet (k.call c).prog, l.arr ∈ c.outputs) ∧
    (∀ l ∈ readSet (k.call c).prog, l.arr ∈ c.inputs ∨ l.arr ∈ c.outputs) ∧
    (∀ (kcs : List KCall) (t : Nat), kcs[t]? = some (k.call c) → DisjointOutputs (kcs.map (·.call)) →
      ∀ s ∈ compile kcs t, s.Confined t) := by
  have hw : ∀ s ∈ (k.call c).prog, s.Within c := prog_within (k.call c) hne
  refine ⟨hw, ?_, ?_, ?_⟩
  · intro l hl
    simp only [writeSet, List.mem_map] at hl
    obtain ⟨s, hs, rfl⟩ := hl
    exact (hw s hs).1
  · intro l hl
    simp only [readSet, List.mem_flatMap] at hl
    obtain ⟨s, hs, hl⟩ := hl
    exact (hw s hs).2 l hl
  · intro kcs t ht hd s hs
    unfold compile at hs
    rw [ht] at hs
    simp only [List.mem_map] at hs
    obtain ⟨ks, hks, rfl⟩ := hs
    exact compile_step_confined _ hd t c (by simp [ht, Kernel2.call]) ks (hw ks hks)

/-- **C12-T4 (roles within the arity).** For every kernel of the second batch and every step `r` of its
role-level program, every role `r` mentions exists in a call of the kernel's arity
(`RStep.rolesOk k.arity`: the destination index is below the number of owned arrays, every source
`inp i` / `own i` below the number of argument / owned arrays).  Consequently, on a footprint `c` with exactly
`k.arity.1` argument arrays and `k.arity.2` owned arrays NO role falls back to the default array: the step
`mkStep c r` writes the array `c.outputs[r.dst]`, and every source role `inp i` / `own i` resolves to
`c.inputs[i]` / `c.outputs[i]`; and on every footprint with AT LEAST that arity the strict resolution `mkStep?`
(which fails instead of falling back, see `C12_kernel_roles_wellformed`) returns exactly `mkStep c r`. -/
theorem C12_more_kernels_roles_ok (k : Kernel2) :
    (∀ r ∈ k.raw, r.rolesOk k.arity = true) ∧
    (∀ (c : Call), c.inputs.length = k.arity.1 → c.outputs.length = k.arity.2 → ∀ r ∈ k.raw,
      (∃ h : r.dst < c.outputs.length, (mkStep c r).dst.arr = c.outputs[r.dst]) ∧
      (∀ l ∈ r.srcs, match l.role with
        | .inp i => ∃ h : i < c.inputs.length, c.arrOf l.role = c.inputs[i]
        | .own i => ∃ h : i < c.outputs.length, c.arrOf l.role = c.outputs[i])) ∧
    (∀ c : Call, c.HasArity k.arity → ∀ r ∈ k.raw, mkStep? c r = some (mkStep c r)) :=
  ⟨kernel2_rolesOk k, fun c hi ho r hr => mkStep_resolved c k.arity r (kernel2_rolesOk k r hr) hi ho,
   fun c hc r hr => mkStep?_of_rolesOk c k.arity hc r (kernel2_rolesOk k r hr)⟩

/-- **C12-T4 (tie: the template_match program computes `C07.tmAt`).** Let call number `t` of ANY family of
calls be `template_match` (`just_equality = false`, any border mode, any views of the image / result /
template) on arrays `[aF, aT]` → `[aOut]`, the result array distinct from both arguments. If the initial memory
presents the logical image `f` through the view `vA` at every position the border rule delivers, and the
template `tp` at `t.data()[j]` (`vT.base + j`, `j` below the template size: the wrapper passes a C-contiguous
template), and the result view does not overlap itself, then after the SOLO run of the compiled step program
— one step per pixel whose operation recomputes `diff2` from the values READ from the image and from the
template — the result location of pixel number `k` holds exactly `C07.tmAt mode f tshape tp (unravel k)`, the
value of the model the driver runs (`c07 kind=tm`). With `C12_concurrent_calls_independent` the same value is
there after every complete interleaving with any other calls that have disjoint outputs. -/
theorem C12_template_match_program_computes_model (kcs : List KCall) (t : Nat) (md : Mode)
    (vA vOut vT : C08.View) (aF aT aOut : Nat)
    (hk : kcs[t]? = some ((Kernel2.templateMatch md false vA vOut vT).call ⟨[aF, aT], [aOut]⟩))
    (hne1 : aF ≠ aOut) (hne2 : aT ≠ aOut)
    (f : Img Int) (hshape : f.shape = vA.shape) (tp : Array Int) (m : Mem)
    (hA : ∀ q q', fixPos md vA.shape q = some q' →
        m ((KLoc.mk aF (vA.addr (q'.map Int.toNat))).toLoc (kcs.map (·.call))) = f.getD q' 0)
    (hT : ∀ j : Nat, j < shapeSize vT.shape →
        m ((KLoc.mk aT (vT.base + (j : Int))).toLoc (kcs.map (·.call))) = tp.getD j 0)
    (hinj : ∀ k k', k < shapeSize vA.shape → k' < shapeSize vA.shape →
        iterAddr vOut k = iterAddr vOut k' → k = k')
    (k : Nat) (hkn : k < shapeSize vA.shape) :
    solo (compile kcs) t m ((KLoc.mk aOut (iterAddr vOut k)).toLoc (kcs.map (·.call))) =
      C07.tmAt md f vT.shape tp (unravelI vA.shape k) :=
  templateMatch_solo_value kcs t md vA vOut vT aF aT aOut hk hne1 hne2 f hshape tp m hA hT hinj k hkn

/-- **C12-T4 (tie: the rank_filter program computes `C07.rankAt`).** Let call number `t` of ANY family of calls
be `rank_filter` (any border mode, any rank, any views, any structuring element) on arrays `[aA, aBc]` →
`[aOut, aFd, aNb, aTmp]` (result, `filter_data_`, the private `neighbours` buffer, the locals of
`nth_element`), the input array distinct from the owned ones and result / `neighbours` / locals pairwise
distinct. If the initial memory presents the logical image `f` through the view `vA` at every position the
border rule delivers and the result view does not overlap itself, then after the SOLO run of the compiled step
program — per pixel: the samples are stored into `neighbours` one by one (`cval = 0` for a flagged sample in
mode constant), the range is snapshot and written back sorted (one admissible outcome of `nth_element`), and
`neighbours[currank]` is copied to the result — the result location of every pixel `k` at which the model is
defined (`C07.rankAt … = some v`: rank inside `[0, N2)`, at least one sample) holds exactly `v`, the value of the
model the driver runs (`c07 kind=rank`). The private buffer is reused by all pixels; that no later pixel
disturbs an earlier result is part of the proof. With `C12_concurrent_calls_independent` the same value is there
after every complete interleaving with any other calls that have disjoint outputs. -/
theorem C12_rank_filter_program_computes_model (kcs : List KCall) (t : Nat) (md : Mode) (rank : Int)
    (vA vOut vBc : C08.View) (bc : Array Int) (aA aBc aOut aFd aNb aTmp : Nat)
    (hk : kcs[t]? = some ((Kernel2.rank md rank vA vOut vBc bc).call ⟨[aA, aBc], [aOut, aFd, aNb, aTmp]⟩))
    (hA1 : aA ≠ aOut) (hA2 : aA ≠ aFd) (hA3 : aA ≠ aNb) (hA4 : aA ≠ aTmp)
    (h1 : aOut ≠ aNb) (h2 : aOut ≠ aTmp) (h3 : aNb ≠ aTmp)
    (f : Img Int) (hshape : f.shape = vA.shape) (m : Mem)
    (hA : ∀ q q', fixPos md vA.shape q = some q' →
        m ((KLoc.mk aA (vA.addr (q'.map Int.toNat))).toLoc (kcs.map (·.call))) = f.getD q' 0)
    (hinj : ∀ k k', k < shapeSize vA.shape → k' < shapeSize vA.shape →
        iterAddr vOut k = iterAddr vOut k' → k = k')
    (k : Nat) (hkn : k < shapeSize vA.shape) (v : Int)
    (hv : C07.rankAt md f (C07.footprint vBc.shape bc) rank (unravelI vA.shape k) = some v) :
    solo (compile kcs) t m ((KLoc.mk aOut (iterAddr vOut k)).toLoc (kcs.map (·.call))) = v :=
  rank_solo_value kcs t md rank vA vOut vBc bc aA aBc aOut aFd aNb aTmp hk hA1 hA2 hA3 hA4 h1 h2 h3 f hshape m hA
    hinj k hkn v hv

/-- **C12-T4 (tie: the dilate program computes `C01.dilateModel`).** Let call number `t` of ANY family of calls
be `dilate` — a SCATTER kernel: after `std::fill(res, min)` every pixel raises the result at its (clamped)
neighbour positions by read-modify-writes of the RESULT array — with any dtype, any view of the input, any
structuring element of the image's rank, on arrays `[aA, aBc]` → `[aOut, aFd]`, the input array distinct from the
owned ones. The result view has the image's shape and one stride per axis (any strides: then its iterator
visits `addr (unravel i)`, `C08_iterator_visits_C_order`) and does not overlap itself. If the initial memory
presents the logical image `A` through the iterator of `vA`, then after the SOLO run of the compiled step
program the result location of pixel number `k` holds exactly `(C01.dilateModel dt A sup)[k]`, the value of
the model the driver runs (`c01 kind=dilate`) — the `continue` at `*iter == min` and the conditional store
`if (nval > arr_val)` included (the step stores the old value back where the C++ does not store). The proof
carries the running result array of the model through all `N · N2` read-modify-writes (`dilate_step_inv`).
With `C12_concurrent_calls_independent` the same value is there after every complete interleaving with any
other calls that have disjoint outputs. -/
theorem C12_dilate_program_computes_model (kcs : List KCall) (t : Nat) (dt : DT) (vA vOut vBc : C08.View)
    (bc : Array Int) (aA aBc aOut aFd : Nat)
    (hk : kcs[t]? = some ((Kernel2.dilate dt vA vOut vBc bc).call ⟨[aA, aBc], [aOut, aFd]⟩))
    (hA1 : aA ≠ aOut) (hA2 : aA ≠ aFd)
    (A : Img Int) (hshape : A.shape = vA.shape) (hpos : ∀ d ∈ vA.shape, 0 < d)
    (hsup : ∀ kh ∈ C01.support vBc.shape bc dt.isBool, kh.1.length = vA.shape.length) (m : Mem)
    (hA : ∀ i, i < shapeSize vA.shape →
        m ((KLoc.mk aA (iterAddr vA i)).toLoc (kcs.map (·.call))) = A.getD (unravelI vA.shape i) dt.lo)
    (hOshape : vOut.shape = vA.shape) (hOlen : vOut.strides.length = vOut.shape.length)
    (hinj : ∀ k k', k < shapeSize vA.shape → k' < shapeSize vA.shape →
        iterAddr vOut k = iterAddr vOut k' → k = k')
    (k : Nat) (hkn : k < shapeSize vA.shape) :
    solo (compile kcs) t m ((KLoc.mk aOut (iterAddr vOut k)).toLoc (kcs.map (·.call))) =
      (C01.dilateModel dt A (C01.support vBc.shape bc dt.isBool)).getD k dt.lo :=
  dilate_solo_value kcs t dt vA vOut vBc bc aA aBc aOut aFd hk hA1 hA2 A hshape hpos hsup m hA
    (fun i hi => by
      have := iterAddr_eq_addr vOut hOlen i (by rw [hOshape]; exact hi)
      rw [hOshape] at this
      exact this) hinj k hkn

/-- **C12-T4 (tie: the cooccurence program computes `C19.coocModel`).** Let call number `t` of ANY family of
calls be `cooccurence` on arrays `[aA, aBc]` → `[aRes, aFd, aReg]` (result matrix, `filter_data_`, register), the
image array distinct from the owned ones and the result array distinct from the other two, with a structuring
element whose FIRST non-zero entry is at offset `d` (of the image's rank). Let the image view have one stride per
axis, let the initial memory of array `aA` be the memory `mA` the program was generated from, presenting the
logical image `im` (all values in `[0, mm)`: no exception is thrown and every increment lands inside the `mm × mm`
matrix), let the result view address the `mm × mm` cells injectively and let the matrix start at zero (as
`texture.py` allocates it). Then after the SOLO run of the compiled step program — one read-modify-write
`++res.at(val, val2)` per element whose neighbour at `d` lies inside the image (mode `ignore`), at an address
that depends on the two values read — cell `(i, j)` of the result holds exactly `(C19.coocModel mm im d)[i*mm + j]`,
the value of the model the driver runs (`c19 kind=cooc`). With `C12_concurrent_calls_independent` the same
matrix is there after every complete interleaving with any other calls that have disjoint outputs. -/
theorem C12_cooccurence_program_computes_model (kcs : List KCall) (t : Nat) (vA vR vBc : C08.View)
    (bc : Array Int) (mA : Int → Int) (aA aBc aRes aFd aReg : Nat)
    (hk : kcs[t]? = some ((Kernel2.cooccurence vA vR vBc bc mA).call ⟨[aA, aBc], [aRes, aFd, aReg]⟩))
    (hA1 : aA ≠ aRes) (hA2 : aA ≠ aFd) (hA3 : aA ≠ aReg) (hR1 : aRes ≠ aFd) (hR : aRes ≠ aReg)
    (d : List Int) (rest : List (List Int)) (hfp : C07.footprint vBc.shape bc = d :: rest)
    (hd : d.length = vA.shape.length)
    (mm : Nat) (im : Img Int) (hshape : im.shape = vA.shape)
    (hAlen : vA.strides.length = vA.shape.length)
    (hAv : ∀ q, inside vA.shape q = true → mA (vA.addr (q.map Int.toNat)) = im.getD q 0)
    (hval : ∀ q, inside vA.shape q = true → 0 ≤ im.getD q 0 ∧ im.getD q 0 < (mm : Int))
    (hRinj : ∀ i j i' j', i < mm → j < mm → i' < mm → j' < mm → vR.addr [i, j] = vR.addr [i', j'] →
      i = i' ∧ j = j')
    (m : Mem) (hm : ∀ a, m ((KLoc.mk aA a).toLoc (kcs.map (·.call))) = mA a)
    (hZ : ∀ i j, i < mm → j < mm → m ((KLoc.mk aRes (vR.addr [i, j])).toLoc (kcs.map (·.call))) = 0)
    (i j : Nat) (hi : i < mm) (hj : j < mm) :
    solo (compile kcs) t m ((KLoc.mk aRes (vR.addr [i, j])).toLoc (kcs.map (·.call))) =
      (((C19.coocModel mm im d).getD (i * mm + j) 0 : Nat) : Int) :=
  cooccurence_solo_value kcs t vA vR vBc bc mA aA aBc aRes aFd aReg hk hA1 hA2 hA3 hR1 hR d rest hfp hd mm im
    hshape hAlen hAv hval hRinj m hm hZ i j hi hj

/-- **C12-T4 (tie: the borders program computes `C13.bordersModel`).** Let call number `t` of ANY family of calls be
`borders` (any border mode, any structuring element of the image's rank, any view of the labeled image with one
stride per axis and positive axis lengths) on arrays `[aA, aBc]` → `[aOut, aFd, aReg]` (result, `filter_data_`,
register), the image array distinct from the owned ones and the result array from the other two. Let the initial
memory of array `aA` be the memory `mA` the program was generated from, presenting the flat label list `labels`,
let the result start at zero (`labeled.borders` zero-fills it) and not overlap itself. Then after the SOLO run
of the compiled step program — per pixel the neighbours are read up to the first one that differs and `true` is
stored only then; other pixels store nothing — the result location of pixel `k` holds `1` exactly when
`(C13.bordersModel mode shape labels footprint)[k]` is `true` and `0` otherwise: the model the driver runs
(`c13 kind=borders`). With `C12_concurrent_calls_independent` the same values are there after every complete
interleaving with any other calls that have disjoint outputs. -/
theorem C12_borders_program_computes_model (kcs : List KCall) (t : Nat) (md : Mode) (vA vOut vBc : C08.View)
    (bc : Array Int) (mA : Int → Int) (aA aBc aOut aFd aReg : Nat)
    (hk : kcs[t]? = some ((Kernel2.borders md vA vOut vBc bc mA).call ⟨[aA, aBc], [aOut, aFd, aReg]⟩))
    (hA1 : aA ≠ aOut) (hA2 : aA ≠ aFd) (hA3 : aA ≠ aReg) (hO1 : aOut ≠ aFd) (hO2 : aOut ≠ aReg)
    (labels : List Int) (hlen : labels.length = shapeSize vA.shape)
    (hpos : ∀ d ∈ vA.shape, 0 < d) (hAlen : vA.strides.length = vA.shape.length)
    (hoffs : ∀ d ∈ C07.footprint vBc.shape bc, d.length = vA.shape.length)
    (hAv : ∀ q, inside vA.shape q = true → mA (vA.addr (q.map Int.toNat)) = labels.getD (ravelI vA.shape q) 0)
    (m : Mem) (hm : ∀ a, m ((KLoc.mk aA a).toLoc (kcs.map (·.call))) = mA a)
    (hZ : ∀ k, k < shapeSize vA.shape → m ((KLoc.mk aOut (iterAddr vOut k)).toLoc (kcs.map (·.call))) = 0)
    (hinj : ∀ k k', k < shapeSize vA.shape → k' < shapeSize vA.shape →
        iterAddr vOut k = iterAddr vOut k' → k = k')
    (k : Nat) (hkn : k < shapeSize vA.shape) :
    solo (compile kcs) t m ((KLoc.mk aOut (iterAddr vOut k)).toLoc (kcs.map (·.call))) =
      if (C13.bordersModel md vA.shape labels (C07.footprint vBc.shape bc)).getD k false then 1 else 0 :=
  borders_solo_value kcs t md vA vOut vBc bc mA aA aBc aOut aFd aReg hk hA1 hA2 hA3 hO1 hO2 labels hlen hpos hAlen
    hoffs hAv m hm hZ hinj k hkn

/-! ## non-vacuity -/

/-! ## non-vacuity -/

namespace Mahotas.C12.Examples
open Mahotas.C12

/-- two confined threads sharing a read-only input: thread `t` computes `priv t [0] := sharedRO[0] + 1 + t`
then `priv t [1] := priv t [0] * …` -/
def progs : Progs := fun t =>
  if t < 2 then
    [ ⟨⟨.priv t, 0⟩, [⟨.sharedRO, 0⟩], fun vs => vs.foldl (· + ·) (1 + t)⟩,
      ⟨⟨.priv t, 1⟩, [⟨.priv t, 0⟩, ⟨.sharedRO, 1⟩], fun vs => vs.foldl (· + ·) 0⟩ ]
  else []

theorem progs_confined : Confined progs := by
  intro t s hs
  unfold progs at hs
  by_cases h : t < 2
  · simp [h] at hs
    rcases hs with rfl | rfl <;> simp [Step.Confined]
  · simp [h] at hs

def m0 : Mem := ⟨fun l => match l.region with
  | .sharedRO => 10 + l.idx
  | _ => 0⟩

/-- the hypotheses of T1 are satisfiable and the conclusion is not trivial: in the interleaving
`[1,0,0,1]` thread 1 ends with `priv 1 [1] = (10+2) + 11 = 23`, thread 0 with `22`. -/
example : (run progs [1, 0, 0, 1] (init m0)).mem ⟨.priv 1, 1⟩ = 23 ∧
    (run progs [1, 0, 0, 1] (init m0)).mem ⟨.priv 0, 1⟩ = 22 ∧
    solo progs 1 m0 ⟨.priv 1, 1⟩ = 23 ∧ Complete progs [1, 0, 0, 1] := by
  refine ⟨by decide, by decide, by decide, ?_⟩
  intro t
  unfold progs
  by_cases h : t < 2
  · have : t = 0 ∨ t = 1 := by omega
    rcases this with rfl | rfl <;> simp
  · simp [h]

/-- the confinement hypothesis is necessary: two threads incrementing / doubling a *shared*
location give schedule-dependent results (1·2 = 2 vs 0·2+1 = 1). -/
def racy : Progs := fun t =>
  if t = 0 then [⟨⟨.sharedRO, 0⟩, [⟨.sharedRO, 0⟩], fun vs => vs.foldl (· + ·) 1⟩]
  else if t = 1 then [⟨⟨.sharedRO, 0⟩, [⟨.sharedRO, 0⟩], fun vs => vs.foldl (· + ·) 0 * 2⟩]
  else []

example : (run racy [0, 1] (init ⟨fun _ => 0⟩)).mem ⟨.sharedRO, 0⟩ = 2 ∧
    (run racy [1, 0] (init ⟨fun _ => 0⟩)).mem ⟨.sharedRO, 0⟩ = 1 := by
  constructor <;> decide

/-- T2 is about non-trivial traces: idiom (a), 2 kernel steps, exception after 1 step -/
example : skeleton .a 2 false (.throwAt 1) =
    [.validate, .release, .kernelStep, .throw, .acquire, .interpAccess, .ret] := by decide

/-- idiom (b), in-place error after 1 step: explicit restore, then `PyErr_Format`, then `return` (the
destructor finds the object inactive and does not acquire twice) -/
example : skeleton .b 3 false (.errorAt 1) =
    [.validate, .release, .kernelStep, .acquire, .interpAccess, .ret] := by decide

/-- the checker rejects a `PyErr_*` call inside the released region and a double acquire -/
example : disciplined true [.validate, .release, .interpAccess, .acquire, .ret] = false ∧
    disciplined true [.validate, .release, .acquire, .acquire, .ret] = false ∧
    disciplined true [.validate, .release, .kernelStep, .ret] = false := by decide

/-- the generated tables are not empty and contain the objects the property names -/
example : (Generated.statics.any fun o => o.name == "_factorialtable" && !o.isConst && !o.written) = true ∧
    (Generated.statics.any fun o => o.name == "_perimeter_values" && o.lang == "py") = true ∧
    (Generated.gilSites.any fun s => s.func == "erode" && s.idiom == 0) = true ∧
    (Generated.gilSites.any fun s => s.func == "py_thin" && s.idiom == 1) = true ∧
    (Generated.gilSites.any fun s => s.func == "py_znl" && s.idiom == 2) = true := by decide

/-! T4: two concrete `erode` calls (uint8, 1-D, 3 pixels) reading the SAME input array 10 with
structuring elements 11 / 12 and results 20 / 30 -/

def memOf (calls : List Call) (content : List (KLoc × Val)) : Mem :=
  ⟨fun l => ((content.find? (fun p => p.1.toLoc calls == l)).map (·.2)).getD 0⟩

def v3 : C08.View := { base := 0, shape := [3], strides := [1] }
def k0 : Kernel := .erode (dtU 8) v3 v3 v3 #[1, 1, 0]
def k1 : Kernel := .erode (dtU 8) v3 v3 v3 #[0, 1, 1]
def ks : List (Kernel × Call) := [(k0, ⟨[10, 11], [20, 21]⟩), (k1, ⟨[10, 12], [30, 31]⟩)]
def content : List (KLoc × Val) :=
  [(⟨10,0⟩,5),(⟨10,1⟩,3),(⟨10,2⟩,7),(⟨11,0⟩,1),(⟨11,1⟩,1),(⟨11,2⟩,0),(⟨12,0⟩,0),(⟨12,1⟩,1),(⟨12,2⟩,1)]
def outOf (calls : List Call) (m : Mem) (a : Nat) : List Int :=
  (List.range 3).map fun (i : Nat) => m ((KLoc.mk a (i : Int)).toLoc calls)

/-- the hypothesis "disjoint outputs" of `C12_concurrent_kernels_independent` holds for `ks` -/
theorem ks_disjoint : DisjointOutputs (ks.map (·.2)) := by
  intro i j ci cj hi hj a ha hb
  have hi' : i = 0 ∨ i = 1 := by
    have := (List.getElem?_eq_some_iff.1 hi).1; simp [ks] at this; omega
  have hj' : j = 0 ∨ j = 1 := by
    have := (List.getElem?_eq_some_iff.1 hj).1; simp [ks] at this; omega
  rcases hi' with rfl | rfl <;> rcases hj' with rfl | rfl <;> simp [ks] at hi hj <;> subst hi <;> subst hj <;>
    simp at ha hb <;> omega

/-- … and the conclusion is not trivial: in the interleaving below each call ends with its own erosion
(`[4,2,2]` = `C01.erodeModel` of `[5,3,7]` with element `[1,1,0]`; `[2,2,6]` with `[0,1,1]`), equal to its
solo run; every step is inside its call's footprint -/
example :
    let kcs := ks.map (fun p => p.1.call p.2)
    let calls := ks.map (·.2)
    let m0 := memOf calls content
    let sched := [0,1,1,0,0,1,0,1,1,0,0,1]
    outOf calls (run (compile kcs) sched (init m0)).mem 20 = [4, 2, 2] ∧
    outOf calls (run (compile kcs) sched (init m0)).mem 30 = [2, 2, 6] ∧
    outOf calls (solo (compile kcs) 0 m0) 20 = [4, 2, 2] ∧
    outOf calls (solo (compile kcs) 1 m0) 30 = [2, 2, 6] ∧
    (C01.erodeModel (dtU 8) ⟨[3], #[5, 3, 7]⟩ (C01.support [3] #[1, 1, 0] false)).toList = [4, 2, 2] ∧
    (kcs.all fun kc => kc.prog.all (KStep.withinB kc.call)) = true := by
  decide +kernel

/-- the same two calls writing the SAME result array 20: not covered (`DisjointOutputs` fails) … -/
def bad : List (Kernel × Call) := [(k0, ⟨[10, 11], [20, 21]⟩), (k1, ⟨[10, 12], [20, 31]⟩)]

example : ¬ DisjointOutputs (bad.map (·.2)) := by
  intro h
  have := h 0 1 ⟨[10, 11], [20, 21]⟩ ⟨[10, 12], [20, 31]⟩ (by simp [bad]) (by simp [bad]) 20 (by simp) (by simp)
  omega

/-- … and they really race: the content of array 20 depends on the schedule, and the compiled program of
call 1 is not confined -/
example :
    let kcs := bad.map (fun p => p.1.call p.2)
    let calls := bad.map (·.2)
    let m0 := memOf calls content
    outOf calls (run (compile kcs) [0,0,0,0,0,0,1,1,1,1,1,1] (init m0)).mem 20 = [2, 2, 6] ∧
    outOf calls (run (compile kcs) [1,1,1,1,1,1,0,0,0,0,0,0] (init m0)).mem 20 = [4, 2, 2] ∧
    ((compile kcs 1).all (Step.confinedB 1)) = false := by
  decide +kernel

/-- a labeled sum through reversed / strided views, a `label` trace and a `cwatershed` trace are non-empty
programs inside their footprints; the fold program leaves `labeledFoldView` in the result table -/
example :
    let vA : C08.View := { base := 3, shape := [4], strides := [-1] }
    let vL : C08.View := { base := 0, shape := [4], strides := [2] }
    let mA : Int → Int := fun a => 10 + a
    let mL : Int → Int := fun a => if a = 6 then 7 else a / 4
    let kf : Kernel := .fold (fun x r => x + r) 0 2 vA vL mL
    let c : Call := ⟨[1, 2], [3, 4]⟩
    let kcs := [kf.call c]
    let m0 : Mem := memOf [c] ((List.range 8).flatMap fun (a : Nat) => [(⟨1, (a : Int)⟩, mA a), (⟨2, (a : Int)⟩, mL a)])
    (List.range 2).map (fun (j : Nat) => solo (compile kcs) 0 m0 ((KLoc.mk 3 (j : Int)).toLoc [c])) = [25, 11] ∧
    (C08.labeledFoldView (fun x r => x + r) 0 2 mA vA mL vL).toList = [25, 11] ∧
    (kf.call c).prog.length = 6 ∧
    let kl : Kernel := .label .constant [2, 2] [1, 1, 0, 1] { base := 0, shape := [3, 3], strides := [3, 1] }
      #[0, 1, 0, 1, 1, 1, 0, 1, 0]
    let cl : Call := ⟨[5], [6, 7, 8, 9]⟩
    ((kl.call cl).prog.all (KStep.withinB cl)) = true ∧ 20 ≤ (kl.call cl).prog.length ∧
    let v22 : C08.View := { base := 0, shape := [2, 2], strides := [2, 1] }
    let kw : Kernel := .cwatershed v22 v22 { base := 0, shape := [3, 3], strides := [3, 1] }
      ⟨[2, 2], #[1, 2, 3, 4]⟩ ⟨[2, 2], #[1, 0, 0, 2]⟩ #[0, 1, 0, 1, 1, 1, 0, 1, 0]
    let cw : Call := ⟨[1, 2, 3], [10, 11, 12, 13, 14, 15]⟩
    ((kw.call cw).prog.all (KStep.withinB cw)) = true ∧ 20 ≤ (kw.call cw).prog.length := by
  decide +kernel

/-- round 3, roles: the footprints of `ks` have the arity of `erode`; a step naming a sixth owned array in a call
with two is caught by the strict resolution (while `mkStep` silently falls back to the first owned array) -/
example : (⟨[10, 11], [20, 21]⟩ : Call).HasArity k0.arity ∧
    (k0.raw.all fun r => r.rolesOk k0.arity) = true ∧ k0.raw.length = 6 ∧
    (mkStep? ⟨[10, 11], [20, 21]⟩ ⟨5, 0, [], fun _ => 0⟩).isNone = true ∧
    (mkStep ⟨[10, 11], [20, 21]⟩ ⟨5, 0, [], fun _ => 0⟩).dst.arr = 20 ∧
    RStep.rolesOk (2, 2) ⟨5, 0, [], fun _ => 0⟩ = false := by
  refine ⟨⟨by decide, by decide⟩, by decide +kernel, by decide +kernel, by decide, by decide, by decide⟩

/-- round 3, exception paths: call 0 of `ks` (idiom (a)) throws after 4 of its 6 steps (3 filter copies, 1 pixel):
its trace has 4 kernel steps, its own result array holds the partial result `[4, 0, 0]`, call 1 still ends with its
full erosion `[2, 2, 6]`, the shared input array 10 is unchanged -/
example :
    let kcs := ks.map (fun p => p.1.call p.2)
    let calls := ks.map (·.2)
    let kcs' := kcs.set 0 ((k0.call ⟨[10, 11], [20, 21]⟩).truncate (.throwAt 4))
    let m0 := memOf calls content
    let sched := [0,1,1,0,0,1,0,1,1,0,0,1]
    skeleton .a 6 false (.throwAt 4) =
      [.validate, .release, .kernelStep, .kernelStep, .kernelStep, .kernelStep, .throw, .acquire, .interpAccess, .ret] ∧
    Outcome.possible .a (.throwAt 4) = true ∧
    outOf calls (run (compile kcs') sched (init m0)).mem 20 = [4, 0, 0] ∧
    outOf calls (run (compile kcs') sched (init m0)).mem 30 = [2, 2, 6] ∧
    outOf calls (run (compile kcs') sched (init m0)).mem 10 = [5, 3, 7] := by
  decide +kernel

/-- round 3, label: 2×2 image `[1,1,0,1]` with the 3×3 cross: the solo run of the step program leaves the labels
`[1,1,0,1]`… of `C03.labelModel` (one component: pixels 0,1,3 are 4-connected through pixel 1) in array 6 and
`count + 1` in the `next` register -/
example :
    let vB : C08.View := { base := 0, shape := [3, 3], strides := [3, 1] }
    let bc : Array Int := #[0, 1, 0, 1, 1, 1, 0, 1, 0]
    let kl : Kernel := .label .constant [2, 2] [1, 1, 0, 1] vB bc
    let cl : Call := ⟨[5], [6, 7, 8, 9]⟩
    let kcs := [kl.call cl]
    let m0 : Mem := memOf [cl] [(⟨6, 0⟩, 1), (⟨6, 1⟩, 1), (⟨6, 2⟩, 0), (⟨6, 3⟩, 1)]
    (List.range 4).map (fun (j : Nat) => solo (compile kcs) 0 m0 ((KLoc.mk 6 (j : Int)).toLoc [cl])) = [1, 1, 0, 1] ∧
    (C03.labelModel .constant [2, 2] [1, 1, 0, 1] [3, 3] bc).1 = [1, 1, 0, 1] ∧
    solo (compile kcs) 0 m0 ((KLoc.mk 8 1).toLoc [cl]) = 2 ∧
    let kl2 : Kernel := .label .constant [2, 2] [1, 0, 0, 1] vB bc
    let m1 : Mem := memOf [cl] [(⟨6, 0⟩, 1), (⟨6, 1⟩, 0), (⟨6, 2⟩, 0), (⟨6, 3⟩, 1)]
    (List.range 4).map (fun (j : Nat) => solo (compile [kl2.call cl]) 0 m1 ((KLoc.mk 6 (j : Int)).toLoc [cl])) =
      [1, 0, 0, 2] := by
  decide +kernel

/-- round 3, cwatershed: 2×2 surface `[1,2,3,4]`, markers `[1,0,0,2]`, 3×3 cross: the solo run of the step program
leaves `res = [1,1,1,2]` of `C04.cwatershedModel` in array 10 and `status` all black in array 11 -/
example :
    let v22 : C08.View := { base := 0, shape := [2, 2], strides := [2, 1] }
    let vB : C08.View := { base := 0, shape := [3, 3], strides := [3, 1] }
    let bc : Array Int := #[0, 1, 0, 1, 1, 1, 0, 1, 0]
    let kw : Kernel := .cwatershed v22 v22 vB ⟨[2, 2], #[1, 2, 3, 4]⟩ ⟨[2, 2], #[1, 0, 0, 2]⟩ bc
    let cw : Call := ⟨[1, 2, 3], [10, 11, 12, 13, 14, 15]⟩
    let m0 : Mem := memOf [cw] [(⟨1, 0⟩, 1), (⟨1, 1⟩, 2), (⟨1, 2⟩, 3), (⟨1, 3⟩, 4), (⟨2, 0⟩, 1), (⟨2, 3⟩, 2)]
    (List.range 4).map (fun (j : Nat) => solo (compile [kw.call cw]) 0 m0 ((KLoc.mk 10 (j : Int)).toLoc [cw])) =
      (C04.cwatershedModel ⟨[2, 2], #[1, 2, 3, 4]⟩ ⟨[2, 2], #[1, 0, 0, 2]⟩ [3, 3] bc).res.toList ∧
    (C04.cwatershedModel ⟨[2, 2], #[1, 2, 3, 4]⟩ ⟨[2, 2], #[1, 0, 0, 2]⟩ [3, 3] bc).res.toList = [1, 1, 1, 2] ∧
    (List.range 4).map (fun (j : Nat) => solo (compile [kw.call cw]) 0 m0 ((KLoc.mk 11 (j : Int)).toLoc [cw])) =
      [2, 2, 2, 2] ∧
    CDist 2 10 11 12 13 14 15 := by
  refine ⟨by decide +kernel, by decide +kernel, by decide +kernel, ?_⟩
  constructor <;> decide

end Mahotas.C12.Examples

namespace Mahotas.C12.Examples2
open Mahotas.C12

def memOf (calls : List Call) (content : List (KLoc × Val)) : Mem :=
  ⟨fun l => ((content.find? (fun p => p.1.toLoc calls == l)).map (·.2)).getD 0⟩

def v3 : C08.View := { base := 0, shape := [3], strides := [1] }
def v4 : C08.View := { base := 0, shape := [4], strides := [1] }
def outOf (calls : List Call) (m : Mem) (a n : Nat) : List Int :=
  (List.range n).map fun (i : Nat) => m ((KLoc.mk a (i : Int)).toLoc calls)

/-- a `dilate` call (uint8, 4 pixels, element `[1,1,0]`) and a `rank_filter` call (mode reflect, rank 1 of 3)
reading the SAME input array 10; structuring elements 11 / 12; owned arrays 20, 21 / 30 … 33 -/
def kd : Kernel2 := .dilate (dtU 8) v4 v4 v3 #[1, 1, 0]
def kr : Kernel2 := .rank .reflect 1 v4 v4 v3 #[1, 1, 1]
def kcs : List KCall := [kd.call ⟨[10, 11], [20, 21]⟩, kr.call ⟨[10, 12], [30, 31, 32, 33]⟩]
def content : List (KLoc × Val) :=
  [(⟨10,0⟩,5),(⟨10,1⟩,3),(⟨10,2⟩,7),(⟨10,3⟩,0),(⟨11,0⟩,1),(⟨11,1⟩,1),(⟨11,2⟩,0),(⟨12,0⟩,1),(⟨12,1⟩,1),(⟨12,2⟩,1)]

/-- the hypothesis "disjoint outputs" of `C12_concurrent_calls_independent` holds for `kcs` -/
theorem kcs_disjoint : DisjointOutputs (kcs.map (·.call)) := by
  intro i j ci cj hi hj a ha hb
  have hi' : i = 0 ∨ i = 1 := by
    have := (List.getElem?_eq_some_iff.1 hi).1; simp [kcs] at this; omega
  have hj' : j = 0 ∨ j = 1 := by
    have := (List.getElem?_eq_some_iff.1 hj).1; simp [kcs] at this; omega
  rcases hi' with rfl | rfl <;> rcases hj' with rfl | rfl <;> simp [kcs, Kernel2.call] at hi hj <;>
    subst hi <;> subst hj <;> simp at ha hb <;> omega

/-- … and the conclusion is not trivial: in the interleaving below (16 steps of the dilation, 43 of the rank
filter) the dilate call ends with `C01.dilateModel` of `[5,3,7,0]` = `[6,8,8,0]` and the rank filter with
`C07.rankAt` = `[5,5,3,0]`, each equal to its solo run; both programs are non-empty, every step is inside its
call's footprint and every role inside the arity -/
example :
    let calls := kcs.map (·.call)
    let m0 := memOf calls content
    let sched := (List.range 43).flatMap fun _ => [1, 0]
    outOf calls (run (compile kcs) sched (init m0)).mem 20 4 = [6, 8, 8, 0] ∧
    outOf calls (run (compile kcs) sched (init m0)).mem 30 4 = [5, 5, 3, 0] ∧
    outOf calls (solo (compile kcs) 0 m0) 20 4 = [6, 8, 8, 0] ∧
    outOf calls (solo (compile kcs) 1 m0) 30 4 = [5, 5, 3, 0] ∧
    (C01.dilateModel (dtU 8) ⟨[4], #[5, 3, 7, 0]⟩ (C01.support [3] #[1, 1, 0] false)).toList = [6, 8, 8, 0] ∧
    (kcs.map fun kc => kc.prog.length) = [16, 43] ∧
    (kcs.all fun kc => kc.prog.all (KStep.withinB kc.call)) = true ∧
    (kd.raw.all (RStep.rolesOk kd.arity) && kr.raw.all (RStep.rolesOk kr.arity)) = true := by
  decide +kernel

/-- `template_match` (mode constant), `cooccurence` (2×2 image, direction `(0,1)`, 3×3 result matrix) and
`borders`: the solo runs leave `C07.tmAt`, `C19.coocModel` and the border marks; roles inside the arities -/
example :
    let kt : Kernel2 := .templateMatch .constant false v4 v4 v3
    let ct : Call := ⟨[10, 11], [20]⟩
    outOf [ct] (solo (compile [kt.call ct]) 0 (memOf [ct] content)) 20 4 = [25, 69, 40, 37] ∧
    (allPos [4]).map (C07.tmAt .constant ⟨[4], #[5, 3, 7, 0]⟩ [3] #[1, 1, 0]) = [25, 69, 40, 37] ∧
    let v22 : C08.View := { base := 0, shape := [2, 2], strides := [2, 1] }
    let v33 : C08.View := { base := 0, shape := [3, 3], strides := [3, 1] }
    let mA : Int → Int := fun a => if a = 0 ∨ a = 2 then 1 else if a = 1 ∨ a = 3 then 2 else 0
    let kc : Kernel2 := .cooccurence v22 v33 v33 #[0, 0, 0, 0, 0, 1, 0, 0, 0] mA
    let cc : Call := ⟨[1, 2], [3, 4, 5]⟩
    outOf [cc] (solo (compile [kc.call cc]) 0
      (memOf [cc] ((List.range 4).map fun (a : Nat) => (⟨1, (a : Int)⟩, mA a)))) 3 9 = [0, 0, 0, 0, 0, 2, 0, 0, 0] ∧
    (C19.coocModel 3 ⟨[2, 2], #[1, 2, 1, 2]⟩ [0, 1]).toList = [0, 0, 0, 0, 0, 2, 0, 0, 0] ∧
    let mB : Int → Int := fun a => if a < 2 then 1 else 2
    let kb : Kernel2 := .borders .constant v4 v4 v3 #[1, 1, 1] mB
    outOf [cc] (solo (compile [kb.call cc]) 0
      (memOf [cc] ((List.range 4).map fun (a : Nat) => (⟨1, (a : Int)⟩, mB a)))) 3 4 = [0, 1, 1, 0] ∧
    (kt.raw.all (RStep.rolesOk kt.arity) && kc.raw.all (RStep.rolesOk kc.arity) &&
      kb.raw.all (RStep.rolesOk kb.arity)) = true ∧
    ((kc.call cc).prog.all (KStep.withinB cc) && (kb.call cc).prog.all (KStep.withinB cc)) = true := by
  decide +kernel

/-- `py_dt` on a 2×3 array with origins (104 steps: the run of `C05.pyDt` is reproduced, values and origins),
`thin` on a 4×4 square in its zero frame (1540 steps: the run of `C15.thinCore` is reproduced), `zoom_shift`
(order 1, shift 1/2, 3 output elements: 12 steps); all inside their footprints and arities -/
example :
    let f0 : Array Int := #[0, 100, 100, 100, 0, 100]
    let kdist : Kernel2 := .distance true (f0, #[0, 1, 2, 3, 4, 5]) 2 3 0 3 1 0 3 1
    let cdist : Call := ⟨[], [1, 2, 3, 4, 5, 6]⟩
    let m := solo (compile [kdist.call cdist]) 0
      (memOf [cdist] ((List.range 6).flatMap fun (a : Nat) => [(⟨1, (a : Int)⟩, f0.getD a 0), (⟨5, (a : Int)⟩, (a : Int))]))
    (outOf [cdist] m 1 6, outOf [cdist] m 5 6) = ([0, 1, 2, 1, 0, 1], [0, 0, 4, 0, 4, 4]) ∧
    C05.pyDt (f0, #[0, 1, 2, 3, 4, 5]) 2 3 0 3 1 0 3 1 = (#[0, 1, 2, 1, 0, 1], #[0, 0, 4, 0, 4, 4]) ∧
    (kdist.call cdist).prog.length = 104 ∧
    ((kdist.call cdist).prog.all (KStep.withinB cdist) && kdist.raw.all (RStep.rolesOk kdist.arity)) = true ∧
    let kz : Kernel2 := .zoomShift Rat.floor 1 .nearest v4 v3 [some (1 / 2 : Rat)] [none]
    let cz : Call := ⟨[1, 2, 3], [4, 5, 6]⟩
    (kz.call cz).prog.length = 12 ∧
    ((kz.call cz).prog.all (KStep.withinB cz) && kz.raw.all (RStep.rolesOk kz.arity)) = true := by
  decide +kernel

/-- a 2×2 block in its zero frame -/
def bin : C15.Bin := C15.Bin.ofInts 4 4 [0,0,0,0, 0,1,1,0, 0,1,1,0, 0,0,0,0]

/-- `thin` with `max_iter = 1` on the 2×2 block (482 steps: element table, one outer iteration of eight passes):
the solo run reproduces `C15.thinCore` (one pixel is cleared); inside footprint and arity -/
example :
    let v44 : C08.View := { base := 0, shape := [4, 4], strides := [4, 1] }
    let kth : Kernel2 := .thin v44 v44 bin 1
    let cth : Call := ⟨[], [1, 2, 3, 4]⟩
    (kth.call cth).prog.length = 482 ∧
    ((kth.call cth).prog.all (KStep.withinB cth) && kth.raw.all (RStep.rolesOk kth.arity)) = true ∧
    outOf [cth] (solo (compile [kth.call cth]) 0
      (memOf [cth] ((List.range 16).map fun (a : Nat) => (⟨1, (a : Int)⟩, bin.toInts.getD a 0)))) 1 16 =
      (C15.thinCore bin 1).toInts ∧
    (C15.thinCore bin 1).toInts ≠ bin.toInts := by
  decide +kernel

end Mahotas.C12.Examples2


/-! ## Round 4 — `compute_histogram` (`_histogram.cpp`, behind `fullhistogram`, `otsu`, `rc`, `pftas`) -/

open Mahotas Mahotas.C12 in
/-- **C12-T4 (tie: the histogram program computes `C13.histogram`).** `compute_histogram` is
`for (i = 0; i != N; ++i) { ++histogram[*data]; ++data; }`: the labeled fold `result[l] = f(v, result[l])` with the image as
its own label array and `f _ r = r + 1`, so its access program is `Kernel.fold` on the footprint `[aA, aA] → [aRes, aReg]`
(the same argument array in both input roles: confinement, role well-formedness and independence under every schedule are
the instances of `C12_kernel_confined`, `C12_kernel_roles_wellformed`, `C12_concurrent_kernels_independent`). Value tie: if
the memory of array `aA` holds `mA` and the values the iterator reads are non-negative (the wrapper admits unsigned images
only), then after the SOLO run of the compiled program — zero fill, then one read-modify-write of `histogram[value]` per
element — bin `j < n` holds exactly `(C13.histogram n values)[j]`, the model the driver runs (`c13 kind=hist`). -/
theorem C12_histogram_program_computes_model (kcs : List KCall) (t : Nat) (n : Nat) (vA : C08.View) (mA : Int → Int)
    (aA aRes aReg : Nat)
    (hk : kcs[t]? = some ((Kernel.fold (fun (_ r : Int) => r + 1) 0 n vA vA mA).call ⟨[aA, aA], [aRes, aReg]⟩))
    (h1 : aA ≠ aRes) (h2 : aA ≠ aReg) (h5 : aRes ≠ aReg) (m : Mem)
    (hA : ∀ a, m ((KLoc.mk aA a).toLoc (kcs.map (·.call))) = mA a)
    (hnn : ∀ k, k < shapeSize vA.shape → 0 ≤ C08.readIter mA vA k)
    (j : Nat) (hj : j < n) :
    solo (compile kcs) t m ((KLoc.mk aRes (j : Int)).toLoc (kcs.map (·.call))) =
      (((C13.histogram n ((List.range (shapeSize vA.shape)).map (C08.readIter mA vA))).getD j 0 : Nat) : Int) := by
  have h := C12_labeled_fold_program_computes_model kcs t (fun (_ r : Int) => r + 1) 0 n vA vA mA mA aA aA aRes aReg hk
    h1 h2 h1 h2 h5 m hA hA j hj
  unfold C08.labeledFoldView at h
  simp only at h
  rw [hist_fold_eq n _ (by
    intro v hv
    simp only [List.mem_map, List.mem_range] at hv
    obtain ⟨k, hk', rfl⟩ := hv
    exact hnn k hk')] at h
  rw [Array.getElem?_map] at h
  generalize C13.histogram n ((List.range (shapeSize vA.shape)).map (C08.readIter mA vA)) = H at h ⊢
  rw [Array.getD_eq_getD_getElem?]
  cases hH : H[j]? with
  | none => rw [hH] at h; simp at h
  | some c => rw [hH] at h; simp at h; simp [h]

namespace Mahotas.C12.Examples4
open Mahotas Mahotas.C12
/-- non-vacuity: the fold model with the image as its own labels IS the histogram, on a reversed strided view -/
def memH : Int → Int := fun a => [2, 9, 0, 9, 2, 9, 1].getD a.toNat 0
def vHr : C08.View := { base := 6, shape := [4], strides := [-2] }
example : (List.range 4).map (C08.readIter memH vHr) = [1, 2, 0, 2] ∧
    (C08.labeledFoldView (fun (_ r : Int) => r + 1) 0 3 memH vHr memH vHr).toList = [1, 1, 2] ∧
    (C13.histogram 3 [1, 2, 0, 2]).toList = [1, 1, 2] := by decide +kernel
end Mahotas.C12.Examples4


/-! ## Round 4 — hand-written releases of the interpreter lock -/

/-- a hand-written release is disciplined when a re-acquire follows it in the same function and nothing between the two can
leave the function (no `return`, `throw`, `goto`, no dispatch macro whose catch clause returns) -/
def rawSiteOk (s : Mahotas.Generated.RawGilSite) : Bool := decide (1 ≤ s.restores) && s.exits == 0

/-- **C12-T2 (source tie, hand-written releases).** The translator extracts EVERY use of the interpreter's own release API
(`PyEval_SaveThread`, `Py_BEGIN_ALLOW_THREADS`, `Py_UNBLOCK_THREADS`, `PyGILState_Release`) outside the body of the RAII class
`gil_release` (`Generated.rawGilSites`, regenerated on every run; today the list is empty: the code base releases the lock only
through the RAII object, whose sites `C12_release_sites_disciplined` covers). Each such site must be followed by a re-acquire in
the same function with no exit in between — otherwise an error path returns to the interpreter without the lock (the fourth
idiom, which none of the three proved skeletons covers). A release guarded by a size threshold whose error path skips the
re-acquire (`if (size >= 4096) ts = PyEval_SaveThread(); … SAFE_SWITCH…; if (ts) PyEval_RestoreThread(ts);`) is rejected
before any input runs. -/
theorem C12_raw_release_sites_disciplined : Mahotas.Generated.rawGilSites.all rawSiteOk = true := by decide

/-- the checker is not vacuous: it rejects the size-gated release whose dispatch macro can return in between, and a release
that is never followed by a re-acquire; it accepts a straight-line `Py_BEGIN_ALLOW_THREADS … Py_END_ALLOW_THREADS` pair -/
example : rawSiteOk ⟨"mahotas/_interpolate.cpp", "py_spline_filter1d", 387, "PyEval_SaveThread", 1, 3⟩ = false ∧
    rawSiteOk ⟨"mahotas/_x.cpp", "f", 10, "PyEval_SaveThread", 0, 0⟩ = false ∧
    rawSiteOk ⟨"mahotas/_x.cpp", "g", 20, "Py_BEGIN_ALLOW_THREADS", 1, 0⟩ = true := by decide

/-! ## Round 4 — third table of access programs (`Model/C12Kernels3.lean`): `majority_filter`, `locmin_max`, `hitmiss` -/

open Mahotas Mahotas.C12 in
/-- **C12-T4 (third table: confinement).** `C12_kernel_confined` for every kernel of `Kernel3` (`majority_filter`,
a gather kernel reading `input.at(y+dy, x+dx)` on any strides, and `locmin_max` behind locmax/locmin/regmax/regmin): on every footprint with at least one owned array every
step is `Within` the call (write set ⊆ outputs, read set ⊆ inputs ∪ outputs), and in every family of calls with pairwise
disjoint outputs every compiled step is `Step.Confined t` — so `C12_concurrent_calls_independent` gives: after EVERY
schedule each owned location equals the solo run. -/
theorem C12_kernels3_confined (k : Kernel3) (c : Call) (hne : c.outputs ≠ []) :
    (∀ s ∈ (k.call c).prog, s.Within c) ∧
    (∀ l ∈ writeSet (k.call c).prog, l.arr ∈ c.outputs) ∧
    (∀ l ∈ readSet (k.call c).prog, l.arr ∈ c.inputs ∨ l.arr ∈ c.outputs) ∧
    (∀ (kcs : List KCall) (t : Nat), kcs[t]? = some (k.call c) → DisjointOutputs (kcs.map (·.call)) →
      ∀ s ∈ compile kcs t, s.Confined t) := by
  have hw : ∀ s ∈ (k.call c).prog, s.Within c := prog_within (k.call c) hne
  refine ⟨hw, ?_, ?_, ?_⟩
  · intro l hl
    simp only [writeSet, List.mem_map] at hl
    obtain ⟨s, hs, rfl⟩ := hl
    exact (hw s hs).1
  · intro l hl
    simp only [readSet, List.mem_flatMap] at hl
    obtain ⟨s, hs, hl⟩ := hl
    exact (hw s hs).2 l hl
  · intro kcs t ht hd s hs
    unfold compile at hs
    rw [ht] at hs
    simp only [List.mem_map] at hs
    obtain ⟨ks, hks, rfl⟩ := hs
    exact compile_step_confined _ hd t c (by simp [ht, Kernel3.call]) ks (hw ks hks)

open Mahotas Mahotas.C12 in
/-- **C12-T4 (third table: roles within the arity).** Every role a step of a `Kernel3` program mentions exists in a call of
the kernel's arity; on every footprint with at least that arity the strict resolution `mkStep?` (which fails instead of
falling back to a default array) returns exactly `mkStep c r`. -/
theorem C12_kernels3_roles_ok (k : Kernel3) :
    (∀ r ∈ k.raw, r.rolesOk k.arity = true) ∧
    (∀ c : Call, c.HasArity k.arity → ∀ r ∈ k.raw, mkStep? c r = some (mkStep c r)) :=
  ⟨kernel3_rolesOk k, fun c hc r hr => mkStep?_of_rolesOk c k.arity hc r (kernel3_rolesOk k r hr)⟩

open Mahotas Mahotas.C12 in
/-- **C12-T4 (tie: the majority_filter program computes the kernel's count test).** Let call number `t` of ANY family of calls
be `majority_filter` with window `n` on a `rows × cols` image (`n ≤ rows`, `n ≤ cols`; any view `vA` of the image: the C++
reads `input.at(y+dy, x+dx)`) on arrays `[aA]` → `[aOut]`, `aA ≠ aOut`. If the initial memory holds `mA` in array `aA` and the
output array is zero (`PyArray_FILLWBYTE(res_a, 0)`), then after the SOLO run of the compiled step program — one step per
window `k`, whose operation recounts the window from the `n·n` values READ — the output cell `(y+n/2)*cols + n/2 + x` of
window `(y, x) = (k / (cols−n), k % (cols−n))` holds `1` exactly when `C08.majorityCount n pixels y x ≥ n*n/2` and `0`
otherwise: the very count and threshold of `C08.majorityLoops`, the model the driver runs (`c08 kind=kviewA
kernel=majority`, compared with the compiled `mahotas.majority_filter` on strided views). With
`C12_concurrent_calls_independent` the same values are there after every complete interleaving with any other calls that
have disjoint outputs. -/
theorem C12_majority_program_computes_model (kcs : List KCall) (t : Nat) (n rows cols : Nat) (vA vOut : C08.View)
    (aA aOut : Nat) (hsh : vA.shape = [rows, cols]) (hr : n ≤ rows) (hc : n ≤ cols)
    (hk : kcs[t]? = some ((Kernel3.majority n vA vOut).call ⟨[aA], [aOut]⟩))
    (hne : aA ≠ aOut) (mA : Int → Int) (m : Mem)
    (hA : ∀ a, m ((KLoc.mk aA a).toLoc (kcs.map (·.call))) = mA a)
    (hZ : ∀ a, m ((KLoc.mk aOut a).toLoc (kcs.map (·.call))) = 0)
    (k : Nat) (hkn : k < (rows - n) * (cols - n)) :
    solo (compile kcs) t m
        ((KLoc.mk aOut (vOut.base + ((majIdx n cols (k / (cols - n)) (k % (cols - n)) : Nat) : Int))).toLoc
          (kcs.map (·.call))) =
      if C08.majorityCount n (fun y x => mA (vA.at [y, x]) != 0) (k / (cols - n)) (k % (cols - n)) ≥ n * n / 2
      then 1 else 0 :=
  majority_solo_value kcs t n rows cols vA vOut aA aOut hsh hr hc hk hne mA m hA hZ k hkn

open Mahotas Mahotas.C12 in
/-- **C12-T4 (tie: the locmin_max program computes `C14.locAt`).** Let call number `t` of ANY family of calls be `locmin_max`
(minima or maxima; any views of the image and the result; `Bc` with its centre removed, as the wrappers of
locmax/locmin/regmax/regmin pass it) on arrays `[aA, aBc]` → `[aOut, aFd]` (result, `filter_data_`), the image array distinct
from both owned arrays and these from each other. If the initial memory presents the logical image `A` through the view `vA` —
at every position the `ExtendNearest` rule delivers and at the addresses the array iterator visits — the result array is zero
(`PyArray_FILLWBYTE(output, 0)`) and the result view does not overlap itself, then after the SOLO run of the compiled step
program — one step per pixel that re-evaluates the neighbour test from the values READ and stores `1` or the old cell — the
result location of pixel `k` holds `1` exactly when `C14.locAt isMin A (C14.neighbours bshape bc) (unravel k)` and `0`
otherwise: the model the driver runs (`c14 kind=loc`, and `C08.locView` over views), proved equal to "no neighbour inside the
image beats the pixel" in C14. With `C12_concurrent_calls_independent` the same marks are there after every complete
interleaving with any other calls that have disjoint outputs. -/
theorem C12_locminmax_program_computes_model (kcs : List KCall) (t : Nat) (isMin : Bool) (vA vOut vBc : C08.View)
    (bc : Array Int) (aA aBc aOut aFd : Nat)
    (hk : kcs[t]? = some ((Kernel3.locminmax isMin vA vOut vBc bc).call ⟨[aA, aBc], [aOut, aFd]⟩))
    (hne1 : aA ≠ aOut) (hne2 : aA ≠ aFd) (hne3 : aOut ≠ aFd)
    (A : Img Int) (hshape : A.shape = vA.shape) (hpos : ∀ d ∈ vA.shape, 0 < d) (m : Mem)
    (hA : ∀ q q', fixPos .nearest vA.shape q = some q' →
        m ((KLoc.mk aA (vA.addr (q'.map Int.toNat))).toLoc (kcs.map (·.call))) = A.getD q' 0)
    (hC : ∀ k, k < shapeSize vA.shape →
        m ((KLoc.mk aA (iterAddr vA k)).toLoc (kcs.map (·.call))) = A.getD (unravelI vA.shape k) 0)
    (hZ : ∀ a, m ((KLoc.mk aOut a).toLoc (kcs.map (·.call))) = 0)
    (hinj : ∀ k k', k < shapeSize vA.shape → k' < shapeSize vA.shape →
        iterAddr vOut k = iterAddr vOut k' → k = k')
    (k : Nat) (hkn : k < shapeSize vA.shape) :
    solo (compile kcs) t m ((KLoc.mk aOut (iterAddr vOut k)).toLoc (kcs.map (·.call))) =
      if C14.locAt isMin A (C14.neighbours vBc.shape bc) (unravelI vA.shape k) then 1 else 0 :=
  locminmax_solo_value kcs t isMin vA vOut vBc bc aA aBc aOut aFd hk hne1 hne2 hne3 A hshape hpos m hA hC hZ hinj k hkn

open Mahotas Mahotas.C12 in
/-- **C12-T4 (tie: the hitmiss program computes the C08 view model of `hitmiss`).** Let call number `t` of ANY family of calls
be `hitmiss` on arrays `[aA, aBc]` → `[aOut]` (`aA ≠ aOut`), its program generated from the neighbour table `tab`
(`C08.hmTable vA mB vB`: flat deltas and required values of the template entries different from 2) of a template of shape
`bshape`; the input may be ANY view (the kernel reads `input.at_flat(i + delta)`). If the initial memory holds `mA` in array
`aA` and the result view does not overlap itself, then after the SOLO run of the compiled step program — one unconditional
store per pixel, recomputed from the values READ — the result location of pixel `k` holds exactly the cell `k` of
`C08.hitmissView mA vA mB vB`: `0` where `C14.hmEvaluated` skips the pixel, else `1` iff every table entry matches. That model
is run by the driver (`c08 kind=kview kernel=hitmiss`, compared with the compiled function on strided views) and proved equal
to `C14.hitmissAt` and the hit-or-miss definition (`C08_hitmiss_view_correct`). -/
theorem C12_hitmiss_program_computes_model (kcs : List KCall) (t : Nat) (vA vOut : C08.View) (mB : Int → Int)
    (vB : C08.View) (aA aBc aOut : Nat)
    (hk : kcs[t]? = some ((Kernel3.hitmiss vA vOut (C08.hmTable vA mB vB) vB.shape).call ⟨[aA, aBc], [aOut]⟩))
    (hne : aA ≠ aOut) (mA : Int → Int) (m : Mem)
    (hA : ∀ a, m ((KLoc.mk aA a).toLoc (kcs.map (·.call))) = mA a)
    (hinj : ∀ k k', k < shapeSize vA.shape → k' < shapeSize vA.shape →
        iterAddr vOut k = iterAddr vOut k' → k = k')
    (k : Nat) (hkn : k < shapeSize vA.shape) :
    some (solo (compile kcs) t m ((KLoc.mk aOut (iterAddr vOut k)).toLoc (kcs.map (·.call)))) =
      (C08.hitmissView mA vA mB vB).getD k none := by
  rw [hitmiss_solo_value kcs t vA vOut (C08.hmTable vA mB vB) vB.shape aA aBc aOut hk hne mA m hA hinj k hkn]
  unfold C08.hitmissView
  rw [C08.pixelLoop_eq, Array.getD_eq_getD_getElem?, List.getElem?_toArray, List.getElem?_map, List.getElem?_range hkn]
  simp only [Option.map_some, Option.getD_some]

namespace Mahotas.C12.Examples4
open Mahotas.C12.Examples2
/-- non-vacuity: a 4×4 bool image in Fortran order (array 10), window 2, output array 20: the solo run of the compiled
program marks exactly the cells `C08.majorityView` marks; 4 steps, all inside the footprint, roles inside the arity -/
def vJ : C08.View := { base := 0, shape := [4, 4], strides := [1, 4] }
def vO : C08.View := { base := 0, shape := [4, 4], strides := [4, 1] }
def km : Kernel3 := .majority 2 vJ vO
def cm : Call := ⟨[10], [20]⟩
def contentJ : List (KLoc × Val) :=
  [(⟨10,0⟩,1),(⟨10,1⟩,1),(⟨10,2⟩,1),(⟨10,4⟩,1),(⟨10,5⟩,1),(⟨10,8⟩,1)]
example :
    outOf [cm] (solo (compile [km.call cm]) 0 (memOf [cm] contentJ)) 20 16 =
      [0, 0, 0, 0, 0, 1, 1, 0, 0, 1, 0, 0, 0, 0, 0, 0] ∧
    (C08.majorityView 2 (fun a => if a = 0 ∨ a = 1 ∨ a = 2 ∨ a = 4 ∨ a = 5 ∨ a = 8 then 1 else 0) vJ).toList.map
        (fun o => if o.getD false then (1 : Int) else 0) = [0, 0, 0, 0, 0, 1, 1, 0, 0, 1, 0, 0, 0, 0, 0, 0] ∧
    (km.call cm).prog.length = 4 ∧
    ((km.call cm).prog.all (KStep.withinB cm)) = true ∧
    (km.raw.all (RStep.rolesOk km.arity)) = true := by
  decide +kernel
/-- a `locmax` call on `[5,3,7,0]` with neighbourhood `[1,0,1]` (centre removed) running concurrently with the majority call on
disjoint outputs: interleaved = solo = `C14.locModel` -/
example :
    let kl : Kernel3 := .locminmax false v4 v4 v3 #[1, 0, 1]
    let cl : Call := ⟨[10, 11], [30, 31]⟩
    let contentL : List (KLoc × Val) := [(⟨10,0⟩,5),(⟨10,1⟩,3),(⟨10,2⟩,7),(⟨10,3⟩,0),(⟨11,0⟩,1),(⟨11,1⟩,0),(⟨11,2⟩,1)]
    outOf [cl] (solo (compile [kl.call cl]) 0 (memOf [cl] contentL)) 30 4 = [1, 0, 1, 0] ∧
    (C14.locModel false ⟨[4], #[5, 3, 7, 0]⟩ (C14.neighbours [3] #[1, 0, 1])).toList = [true, false, true, false] ∧
    ((kl.call cl).prog.all (KStep.withinB cl)) = true ∧
    (kl.raw.all (RStep.rolesOk kl.arity)) = true := by
  decide +kernel
/-- a `hitmiss` call: input `[1,0,1,1]` (array 10), template `[1,2,1]` read from Bc's memory; the solo run of the compiled
program = `C08.hitmissView` (the margins are skipped, pixel 2 does not match, pixel 1 does) -/
example :
    let mT : Int → Int := fun a => [1, 2, 1].getD a.toNat 0
    let mI : Int → Int := fun a => [1, 0, 1, 1].getD a.toNat 0
    let kh : Kernel3 := .hitmiss v4 v4 (C08.hmTable v4 mT v3) [3]
    let ch : Call := ⟨[10, 11], [30]⟩
    let contentH : List (KLoc × Val) := [(⟨10,0⟩,1),(⟨10,1⟩,0),(⟨10,2⟩,1),(⟨10,3⟩,1)]
    outOf [ch] (solo (compile [kh.call ch]) 0 (memOf [ch] contentH)) 30 4 = [0, 1, 0, 0] ∧
    (C08.hitmissView mI v4 mT v3).toList = [some 0, some 1, some 0, some 0] ∧
    ((kh.call ch).prog.all (KStep.withinB ch)) = true ∧
    (kh.raw.all (RStep.rolesOk kh.arity)) = true := by
  decide +kernel
end Mahotas.C12.Examples4
