/-
C12 — property theorems (statements only; helper lemmas live in `Proofs/C12.lean`).

What is proved here is the *reason* concurrent calls return the single-threaded results:
 T1  confinement ⇒ every interleaving gives every thread its solo result (model of Part 1),
 T2  the three control skeletons used around released-lock regions keep the lock discipline on
     every path (model of Part 2), and the extracted `gil_release` sites fall into these idioms
     with no interpreter call lexically inside a released region,
 T3  no C++ object with static storage duration is written by a kernel, and the Python module globals
     written by functions are idempotent lazy caches or listed open findings
     (`decide` over the table the translator extracts from the current sources).
Real data races inside the compiled C++ and CPython's own guarantees are runtime behaviour and are
only validated (thread stress), see the evidence file.
-/
import Mahotas.Proofs.C12
import Mahotas.Generated.Statics
namespace Mahotas.C12
open Mahotas

/-- the lock discipline of a trace, declaratively (what `disciplined true tr` means, see
`disciplined_sound`): starting with the lock held, before every `release`, `validate`,
`interpAccess` and `ret` the lock is held; before every `acquire` it is not held (so releases and
acquisitions strictly alternate); `ret` occurs exactly once, as the last event; at the end the lock
is held. -/
def Discipline (tr : List Ev) : Prop :=
  (∀ (i : Nat) (e : Ev), tr[i]? = some e →
      ((e = .release ∨ e = .validate ∨ e = .interpAccess ∨ e = .ret) → heldAfter true (tr.take i) = true) ∧
      (e = .acquire → heldAfter true (tr.take i) = false) ∧
      (e = .ret → i + 1 = tr.length)) ∧
  tr.getLast? = some .ret ∧ heldAfter true tr = true

/-- T3 predicate for C++ objects with static storage duration: shared by concurrent calls only if
immutable (`const`) or never written by any function of its file (only the loader/interpreter touches
it at module initialisation). -/
def staticOk (o : Generated.StaticObj) : Bool :=
  o.isConst || (!o.written)

/-- Python module globals that are written by a function and are NOT (yet) benign under threads —
hand-written exception list, each entry an OPEN known finding of `known_findings.d/C12.json`:
`mahotas/labeled.py` `_perimeter_values` is published (`= np.zeros(34)`) before it is filled in, so a
second thread can compute a perimeter from a half-built table (key `thread-mismatch:perimeter-first-use`).
The entry becomes unused once the table is built privately and published by one rebinding. -/
def knownOpenGlobals : List (String × String) := [("mahotas/labeled.py", "_perimeter_values")]

/-- T3 predicate for Python module globals that some function rebinds or mutates: a lazily
initialised cache whose complete value is published by a single guarded rebinding (every racing
initialiser publishes an equal value; readers never see it half built) — or a listed open finding. -/
def pyGlobalOk (o : Generated.StaticObj) : Bool :=
  o.lazyIdempotent || knownOpenGlobals.contains (o.file, o.name)

/-- T2 (site table) predicate: the site uses one of the three idioms and no Python C-API call is
lexically inside the released region -/
def siteOk (s : Generated.GilSite) : Bool :=
  decide (s.idiom ≤ 2) && decide (s.interpCalls = 0)

end Mahotas.C12

open Mahotas Mahotas.C12

/-- **C12-T1 (interleaving independence, every prefix).** If every step of every thread `t` writes only
memory private to `t` and reads only memory private to `t` or shared read-only memory, then for EVERY
schedule (any interleaving of any length, complete or not) and every initial memory `m`: after the
interleaved run, thread `t`'s private memory and program counter are exactly those of `t` running
alone from `m` for as many turns as the schedule gave it. Quantified over all thread counts, all
programs (arbitrary step functions) and all schedules. -/
theorem C12_interleaving_independent (progs : Progs) (hc : Confined progs) (sched : List Nat)
    (m : Mem) (t : Nat) :
    (∀ l : Loc, l.region = .priv t →
        (run progs sched (init m)).mem l = (soloSteps progs t (sched.count t) m).mem l) ∧
    (run progs sched (init m)).pc t = (soloSteps progs t (sched.count t) m).pc t := by
  have h := view_run progs hc t sched (init m)
  exact ⟨fun l hl => h.2 l (Or.inl hl), h.1⟩

/-- **C12-T1 (complete schedules).** Under the same confinement hypothesis, for every schedule that
gives each thread at least as many turns as it has steps, each thread's final private memory equals
the result of its complete solo run from the same initial memory — whatever the interleaving. -/
theorem C12_interleaving_independent_complete (progs : Progs) (hc : Confined progs)
    (sched : List Nat) (hs : Complete progs sched) (m : Mem) (t : Nat) (l : Loc)
    (hl : l.region = .priv t) :
    (run progs sched (init m)).mem l = solo progs t m l := by
  rw [(C12_interleaving_independent progs hc sched m t).1 l hl]
  unfold solo
  rw [soloSteps_ge progs t _ m (hs t)]

/-- **C12-T1 (schedule independence).** Any two complete schedules leave every thread's private
memory in the same state. -/
theorem C12_schedule_independent (progs : Progs) (hc : Confined progs) (s1 s2 : List Nat)
    (h1 : Complete progs s1) (h2 : Complete progs s2) (m : Mem) (t : Nat) (l : Loc)
    (hl : l.region = .priv t) :
    (run progs s1 (init m)).mem l = (run progs s2 (init m)).mem l := by
  rw [C12_interleaving_independent_complete progs hc s1 h1 m t l hl,
      C12_interleaving_independent_complete progs hc s2 h2 m t l hl]

/-- **C12-T1 (shared and interpreter memory untouched).** Under confinement no schedule changes any
location outside the private regions: shared read-only inputs and interpreter state keep their
initial values. -/
theorem C12_shared_unchanged (progs : Progs) (hc : Confined progs) (sched : List Nat) (m : Mem)
    (l : Loc) (hl : l.region = .sharedRO ∨ l.region = .interp) :
    (run progs sched (init m)).mem l = m l := by
  apply run_nonpriv progs hc sched (init m) l
  intro t ht
  rcases hl with h | h <;> rw [h] at ht <;> cases ht

/-- **C12-T1 (no call observes another call's temporaries).** Thread `t`'s result does not depend on
the other threads at all: replacing their private memories (any initial memory `m'` that agrees with
`m` on `t`'s private and on the shared read-only locations) leaves `t`'s final private memory unchanged,
for every schedule. -/
theorem C12_no_observation_of_others (progs : Progs) (hc : Confined progs) (sched : List Nat)
    (m m' : Mem) (t : Nat)
    (hagree : ∀ l : Loc, (l.region = .priv t ∨ l.region = .sharedRO) → m l = m' l)
    (l : Loc) (hl : l.region = .priv t) :
    (run progs sched (init m)).mem l = (run progs sched (init m')).mem l := by
  have h1 := view_run progs hc t sched (init m)
  have h2 := view_run progs hc t sched (init m')
  have h0 : View t (init m) (init m') := ⟨rfl, hagree⟩
  have h3 := view_run_self progs hc (sched.count t) h0
  exact ((h1.trans h3).trans h2.symm).2 l (Or.inl hl)

/-- **C12-T2 (lock discipline of the three idioms, every path).** For each of the three idioms —
(a) RAII `gil_release` as first statement of a kernel called inside `SAFE_SWITCH_ON_TYPES_OF`
(try / `CATCH_PYTHON_EXCEPTIONS`), (b) a braced `{ gil_release nogil; … }` block with
`nogil.restore()` before `PyErr_*` on its error path, (c) `try { gil_release … } catch (bad_alloc)` —
for every number `n` of kernel steps and every outcome the idiom's code can exhibit (normal
completion; a C++ exception after any number `k` of steps for (a) and (c); an in-place error after any
`k` steps for (b)), provided no reference-counted wrapper is constructed inside the released region:
every interpreter access (`validate`, `PyErr_*`, allocation, building the return value) happens with
the lock held, releases and acquisitions strictly alternate, and the call returns holding the lock. -/
theorem C12_gil_discipline_all_paths (i : Idiom) (n : Nat) (o : Outcome)
    (hp : Outcome.possible i o = true) : Discipline (skeleton i n false o) := by
  apply disciplined_sound
  have hk : ∀ (h : Bool) (k : Nat) (rest : List Ev), rest ≠ [] →
      disciplined h (steps k ++ rest) = disciplined h rest := disciplined_steps
  cases i <;> cases o <;> simp [Outcome.possible] at hp <;>
    simp [skeleton, gilScope, kernelBody, tryCatchRegion, andThen, disciplined, hk, List.append_assoc]

/-- **C12-T2 (validation failure path).** `PyErr_SetString(...); return NULL;` before any release
keeps the discipline trivially. -/
theorem C12_gil_discipline_invalid_args : Discipline skeletonInvalid := by
  apply disciplined_sound; decide

/-- **C12-T2 (why the hypotheses are needed).** (1) A reference-counted array wrapper constructed
inside the released region is an interpreter access without the lock — in every idiom, on every path,
for every number of steps: such a skeleton is never disciplined. (2) In idiom (b) (no handler) a C++
exception leaves the entry point without `ret`: not disciplined either. -/
theorem C12_gil_discipline_violations (i : Idiom) (n : Nat) (o : Outcome) (k : Nat) :
    disciplined true (skeleton i n true o) = false ∧
    disciplined true (skeleton .b n false (.throwAt k)) = false := by
  constructor
  · cases i <;> cases o <;>
      simp [skeleton, gilScope, kernelBody, tryCatchRegion, andThen, disciplined, List.append_assoc]
  · have hk := disciplined_steps
    simp [skeleton, gilScope, kernelBody, andThen, disciplined, hk, List.append_assoc]

/-- **C12-T2 (site table).** Every `gil_release` declaration of the current sources (extracted by
`translator/statics.py` on this run) uses one of the three idioms, and no Python C-API call
(`PyErr_*`, allocation, reference counting macros, …) is lexically inside its released region, except
after an explicit `restore()`. Array wrappers constructed inside a released region are NOT covered
by this statement: see `C12_release_sites_without_wrappers_partial`. -/
theorem C12_release_sites_disciplined :
    Generated.gilSites.all siteOk = true ∧ Generated.gilSites.length ≥ 30 := by
  decide

/-- **C12-T2 (partial: reference counts).** The released regions in which NO reference-counted array
wrapper (`numpy::aligned_array`, `array_base`) is constructed lexically — for these sites skeleton and
code agree with `C12_gil_discipline_all_paths` — are all sites but at most three.
Missing: the remaining sites (listed by the driver, `kind=sites`) touch a reference count of a possibly
shared array without the lock (`C12_gil_discipline_violations` (1)); helper objects whose constructor
builds a wrapper (field `helperWrappers`: `filter_iterator` of `_filters.h`, constructed inside 11 released
regions — an OPEN known finding) and wrappers copied *by value* into helper functions are not counted
here. These are covered by the reference-count stress run and the harness' site check only. -/
theorem C12_release_sites_without_wrappers_partial :
    (Generated.gilSites.filter (fun s => decide (s.wrappers ≠ 0))).length ≤ 3 := by
  decide

/-- **C12-T3 (no shared writes, C++).** Over the WHOLE table of objects with static storage duration
(namespace scope, class-static, function-`static`, in every `.cpp`/`.h`/`.hpp`) extracted from the
current sources on this run: every object is `const`, or no function of its file writes it or lets it
escape (it is touched only at module initialisation). `_factorialtable` is non-const but only read;
`methods`/`moduledef` are handed to the interpreter at import. A new `static int counter; counter++`
in a kernel makes this statement false. -/
theorem C12_no_shared_writes :
    (Generated.statics.filter (fun o => o.lang == "c++")).all staticOk = true ∧
    (Generated.statics.filter (fun o => o.lang == "c++")).length ≥ 40 := by
  decide

/-- **C12-T3 (Python module globals).** Every module global of `mahotas/**.py` that some function
rebinds (`global X`) or mutates in place is a lazily initialised cache published complete by ONE guarded
rebinding — or is listed in `knownOpenGlobals` (today: `labeled._perimeter_values`, an open known
finding: the table is published before it is filled). Any NEW function-written global that is not an
idempotent lazy cache makes this statement false. -/
theorem C12_python_globals_benign_except_known :
    (Generated.statics.filter (fun o => o.lang == "py")).all pyGlobalOk = true ∧
    (Generated.statics.filter (fun o => o.lang == "py")).length ≥ 1 := by
  decide

/-! ## non-vacuity -/

namespace Mahotas.C12.Examples
open Mahotas.C12

/-- two confined threads sharing a read-only input: thread `t` computes `priv t [0] := sharedRO[0] + 1 + t`
then `priv t [1] := priv t [0] * …` -/
def progs : Progs := fun t =>
  if t < 2 then
    [ ⟨⟨.priv t, 0⟩, [⟨.sharedRO, 0⟩], fun vs => vs.foldl (· + ·) (1 + t)⟩,
      ⟨⟨.priv t, 1⟩, [⟨.priv t, 0⟩, ⟨.sharedRO, 1⟩], fun vs => vs.foldl (· + ·) 0⟩ ]
  else []

theorem progs_confined : Confined progs := by
  intro t s hs
  unfold progs at hs
  by_cases h : t < 2
  · simp [h] at hs
    rcases hs with rfl | rfl <;> simp [Step.Confined]
  · simp [h] at hs

def m0 : Mem := ⟨fun l => match l.region with
  | .sharedRO => 10 + l.idx
  | _ => 0⟩

/-- the hypotheses of T1 are satisfiable and the conclusion is not trivial: in the interleaving
`[1,0,0,1]` thread 1 ends with `priv 1 [1] = (10+2) + 11 = 23`, thread 0 with `22`. -/
example : (run progs [1, 0, 0, 1] (init m0)).mem ⟨.priv 1, 1⟩ = 23 ∧
    (run progs [1, 0, 0, 1] (init m0)).mem ⟨.priv 0, 1⟩ = 22 ∧
    solo progs 1 m0 ⟨.priv 1, 1⟩ = 23 ∧ Complete progs [1, 0, 0, 1] := by
  refine ⟨by decide, by decide, by decide, ?_⟩
  intro t
  unfold progs
  by_cases h : t < 2
  · have : t = 0 ∨ t = 1 := by omega
    rcases this with rfl | rfl <;> simp
  · simp [h]

/-- the confinement hypothesis is necessary: two threads incrementing / doubling a *shared*
location give schedule-dependent results (1·2 = 2 vs 0·2+1 = 1). -/
def racy : Progs := fun t =>
  if t = 0 then [⟨⟨.sharedRO, 0⟩, [⟨.sharedRO, 0⟩], fun vs => vs.foldl (· + ·) 1⟩]
  else if t = 1 then [⟨⟨.sharedRO, 0⟩, [⟨.sharedRO, 0⟩], fun vs => vs.foldl (· + ·) 0 * 2⟩]
  else []

example : (run racy [0, 1] (init ⟨fun _ => 0⟩)).mem ⟨.sharedRO, 0⟩ = 2 ∧
    (run racy [1, 0] (init ⟨fun _ => 0⟩)).mem ⟨.sharedRO, 0⟩ = 1 := by
  constructor <;> decide

/-- T2 is about non-trivial traces: idiom (a), 2 kernel steps, exception after 1 step -/
example : skeleton .a 2 false (.throwAt 1) =
    [.validate, .release, .kernelStep, .throw, .acquire, .interpAccess, .ret] := by decide

/-- idiom (b), in-place error after 1 step: explicit restore, then `PyErr_Format`, then `return` (the
destructor finds the object inactive and does not acquire twice) -/
example : skeleton .b 3 false (.errorAt 1) =
    [.validate, .release, .kernelStep, .acquire, .interpAccess, .ret] := by decide

/-- the checker rejects a `PyErr_*` call inside the released region and a double acquire -/
example : disciplined true [.validate, .release, .interpAccess, .acquire, .ret] = false ∧
    disciplined true [.validate, .release, .acquire, .acquire, .ret] = false ∧
    disciplined true [.validate, .release, .kernelStep, .ret] = false := by decide

/-- the generated tables are not empty and contain the objects the property names -/
example : (Generated.statics.any fun o => o.name == "_factorialtable" && !o.isConst && !o.written) = true ∧
    (Generated.statics.any fun o => o.name == "_perimeter_values" && o.lang == "py") = true ∧
    (Generated.gilSites.any fun s => s.func == "erode" && s.idiom == 0) = true ∧
    (Generated.gilSites.any fun s => s.func == "py_thin" && s.idiom == 1) = true ∧
    (Generated.gilSites.any fun s => s.func == "py_znl" && s.idiom == 2) = true := by decide

end Mahotas.C12.Examples
