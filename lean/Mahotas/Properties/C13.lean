/-
C13 — property theorems about the executable models of the region measurements and label-map
utilities (`Model/C13.lean`; the driver runs exactly these definitions, the polymorphic fold at `Int`
and `Float`). Helper lemmas: `Proofs/C13.lean`, `Proofs/C13Maps.lean`, `Proofs/C13Regions.lean`,
`Proofs/C03Renum.lean`; round 3 (oracle = model): `Proofs/C13Oracles.lean`, `Proofs/C13OraclesNum.lean`.
-/
import Mahotas.Proofs.C13
import Mahotas.Proofs.C13Maps
import Mahotas.Proofs.C13Regions
import Mahotas.Proofs.C13BBox
import Mahotas.Proofs.C13Com
import Mahotas.Proofs.C13Filter
import Mahotas.Proofs.C13Oracles
import Mahotas.Proofs.C13OraclesNum
import Mahotas.Proofs.C13OraclesFloat
import Mahotas.Proofs.C13Wrappers
import Mahotas.Proofs.C13Rounded
import Mahotas.Proofs.C13RoundedP
import Mahotas.Proofs.C13Perimeter
import Mahotas.Proofs.Modes
open Mahotas Mahotas.C13 Mahotas.C05

/-- **C13-T1 (fold_eq, generic).** For every value type, operation `f`, identity `start`, number of
labels `n` and list of `(value, label)` pixels in scan order: slot `l < n` of the model of `labeled_foldl`
is the fold of `f` over exactly the values of the pixels carrying label `l` (negative and too-large labels
are ignored). The driver instantiates this very definition at `Int` and at `Float`. -/
theorem C13_fold_eq {α : Type} (f : α → α → α) (start : α) (n : Nat) (px : List (α × Int)) (l : Nat)
    (hl : l < n) :
    (labeledFold f start n px)[l]? = some ((valuesOf px (l : Int)).foldl (fun r a => f a r) start) ∧
    (labeledFold f start n px).size = n :=
  ⟨labeledFold_slot f start n px l hl, labeledFold_size f start n px⟩

/-- **C13-T1 (labeled_sum, integer dtypes).** For every integer dtype (generic in its range) the model of
`labeled_sum` returns in slot `l` the sum of the values labelled `l` reduced into the dtype
(two's-complement wrap-around, what `std::plus<T>` stores), hence exactly the sum whenever that sum is
representable — for values of both signs. -/
theorem C13_labeled_sum_int (dt : DT) (wf : dt.WF) (n : Nat) (px : List (Int × Int)) (l : Nat) (hl : l < n) :
    (sumInt dt n px)[l]? = some (dt.wrap (valuesOf px (l : Int)).sum) ∧
    (dt.InRange (valuesOf px (l : Int)).sum → (sumInt dt n px)[l]? = some (valuesOf px (l : Int)).sum) := by
  have h0 : dt.wrap 0 = 0 := by
    apply DT.wrap_in
    have := wf.hi_pos
    rcases wf.lo_cases with h | h <;> omega
  have key : (sumInt dt n px)[l]? = some (dt.wrap (valuesOf px (l : Int)).sum) := by
    unfold sumInt
    simp only [wf.notBool, Bool.false_eq_true, if_false]
    rw [labeledFold_slot _ _ n px l hl]
    have := foldl_wrap_add dt (valuesOf px (l : Int)) 0
    rw [h0] at this
    rw [this]; simp
  refine ⟨key, ?_⟩
  intro hr
  rw [key, DT.wrap_in dt _ hr]

/-- **C13-T1 (labeled_sum, any commutative additive monoid: ℤ, ℚ, ℝ, any ordered field).** With exact
arithmetic the slot of label `l` is the sum of the values labelled `l`, whatever their signs. (The driver
runs the same fold at `Float`; there the harness uses dyadic data so that every partial sum is exact.) -/
theorem C13_labeled_sum_exact {α : Type} [AddCommMonoid α] (n : Nat) (px : List (α × Int)) (l : Nat)
    (hl : l < n) :
    (labeledFold (fun a r => a + r) 0 n px)[l]? = some (valuesOf px (l : Int)).sum := by
  rw [labeledFold_slot _ _ n px l hl, foldl_add_comm_sum, zero_add]

/-- **C13-T1 (labeled_sum, bool).** For boolean images the fold is `or`: the slot is 1 iff some pixel
labelled `l` is set. -/
theorem C13_labeled_sum_bool (n : Nat) (px : List (Int × Int)) (l : Nat) (hl : l < n) :
    (sumInt dtBool n px)[l]? = some (if (valuesOf px (l : Int)).any (· ≠ 0) then 1 else 0) := by
  unfold sumInt
  simp only [dtBool, if_true]
  rw [labeledFold_slot _ _ n px l hl, foldl_or_any _ 0 (Or.inl rfl)]
  simp

/-- **C13-T1 (labeled_max / labeled_min, any linearly ordered value type).** If the identity element is a
lower bound of the values labelled `l` (for `labeled_max`; an upper bound for `labeled_min`) — i.e. it is
the least/greatest element of the *type*, as `lowest()`/`max()` are — and the label is not empty, the slot
holds the maximum (minimum) of those values: it is one of them and dominates (is dominated by) all of them.
Covers ℤ with any dtype range and every ordered field; NaN-free floats are such an order. -/
theorem C13_labeled_max_min {α : Type} [LinearOrder α] (lowest highest : α) (n : Nat) (px : List (α × Int))
    (l : Nat) (hl : l < n) (hne : valuesOf px (l : Int) ≠ [])
    (hlo : ∀ v ∈ valuesOf px (l : Int), lowest ≤ v) (hhi : ∀ v ∈ valuesOf px (l : Int), v ≤ highest) :
    (∃ m, (labeledFold stdMax lowest n px)[l]? = some m ∧ m ∈ valuesOf px (l : Int) ∧
        ∀ v ∈ valuesOf px (l : Int), v ≤ m) ∧
    (∃ m, (labeledFold stdMin highest n px)[l]? = some m ∧ m ∈ valuesOf px (l : Int) ∧
        ∀ v ∈ valuesOf px (l : Int), m ≤ v) := by
  obtain ⟨v0, hv0⟩ := List.exists_mem_of_ne_nil _ hne
  constructor
  · refine ⟨_, labeledFold_slot stdMax lowest n px l hl, ?_, (foldl_max_spec _ lowest).2.1⟩
    rcases (foldl_max_spec (valuesOf px (l : Int)) lowest).2.2 with h | h
    · have h1 := (foldl_max_spec (valuesOf px (l : Int)) lowest).2.1 v0 hv0
      rw [h] at h1 ⊢
      have : v0 = lowest := le_antisymm h1 (hlo v0 hv0)
      rw [← this]; exact hv0
    · exact h
  · refine ⟨_, labeledFold_slot stdMin highest n px l hl, ?_, (foldl_min_spec _ highest).2.1⟩
    rcases (foldl_min_spec (valuesOf px (l : Int)) highest).2.2 with h | h
    · have h1 := (foldl_min_spec (valuesOf px (l : Int)) highest).2.1 v0 hv0
      rw [h] at h1 ⊢
      have : v0 = highest := le_antisymm (hhi v0 hv0) h1
      rw [← this]; exact hv0
    · exact h

/-- **C13-T1 (labeled_max / labeled_min, integer dtypes).** For every integer dtype whose range contains the
data, the models `maxInt`/`minInt` (identities `numeric_limits<T>::lowest()`/`max()` = the ends of the range)
return the maximum / minimum of every non-empty label — for values of both signs. -/
theorem C13_labeled_max_min_int (dt : DT) (n : Nat) (px : List (Int × Int)) (l : Nat) (hl : l < n)
    (hne : valuesOf px (l : Int) ≠ []) (hr : ∀ v ∈ valuesOf px (l : Int), dt.InRange v) :
    (∃ m, (maxInt dt n px)[l]? = some m ∧ m ∈ valuesOf px (l : Int) ∧ ∀ v ∈ valuesOf px (l : Int), v ≤ m) ∧
    (∃ m, (minInt dt n px)[l]? = some m ∧ m ∈ valuesOf px (l : Int) ∧ ∀ v ∈ valuesOf px (l : Int), m ≤ v) :=
  C13_labeled_max_min dt.lo dt.hi n px l hl hne (fun v hv => (hr v hv).1) (fun v hv => (hr v hv).2)

/-- **C13-T1/T6 (labeled_size, fullhistogram).** Bin `l` of the model of `compute_histogram` counts the
pixels whose value is `l` (non-negative data, `n` bins). -/
theorem C13_histogram_counts (n : Nat) (vals : List Int) (hv : ∀ v ∈ vals, 0 ≤ v) (l : Nat) (hl : l < n) :
    (histogram n vals)[l]? = some ((vals.filter (· == (l : Int))).length) := by
  unfold histogram
  rw [histogram_slot n l hl vals _ hv]
  simp [hl]

/-- **C13-T4 (relabel).** `relabel` maps the label map through one function that fixes 0, is injective on
the labels that occur (so the partition and the background are preserved) and sends every other label to a
positive integer; the new labels are `1..n` in order of first appearance and `n` is returned. -/
theorem C13_relabel_spec (labels : List Int) :
    (∃ f : Int → Int, (relabel labels).1 = labels.map f ∧ f 0 = 0 ∧ (∀ v ∈ labels, v ≠ 0 → 1 ≤ f v) ∧
      (∀ a b, (a ∈ labels ∨ a = 0) → (b ∈ labels ∨ b = 0) → f a = f b → a = b)) ∧
    C03.Consec 1 (relabel labels).1 ∧
    (∀ l ∈ (relabel labels).1, l ≤ (relabel labels).2) ∧
    (∀ k, 1 ≤ k → k ≤ (relabel labels).2 → k ∈ (relabel labels).1) := by
  have hlt : ∀ (v l : Int), ([((0 : Int), (0 : Int))] : List (Int × Int)).lookup v = some l → l < 1 := by
    intro v l h
    have := (C03.seenInv_init 0).lt v l h
    omega
  obtain ⟨_, b, c⟩ := C03.renumGo_count labels _ _ hlt
  exact ⟨C03.renumber_map 0 labels, C03.renumGo_consec _ _ _ hlt, b, c⟩

/-- **C13-T4 (is_same_labeling).** The model answers `true` exactly when the pairs of corresponding labels,
together with the pair `(0, 0)`, form a partial bijection: equal labels in one map correspond to equal
labels in the other, in both directions, and background corresponds to background — i.e. the maps are
related by a bijection of label values fixing 0. -/
theorem C13_same_labeling_iff (a b : List Int) :
    isSameLabeling a b = true ↔ PBij (fun x y => (x = 0 ∧ y = 0) ∨ (x, y) ∈ a.zip b) := by
  have hl : ∀ x y : Int, ([((0 : Int), (0 : Int))] : List (Int × Int)).lookup x = some y ↔ (x = 0 ∧ y = 0) := by
    intro x y
    by_cases e : x = 0
    · subst e
      rw [C03.lookup_cons_self]
      constructor
      · intro h; exact ⟨rfl, (Option.some.inj h).symm⟩
      · rintro ⟨_, h⟩; rw [h]
    · rw [C03.lookup_cons_ne _ _ _ _ e]
      simp [e]
  unfold isSameLabeling
  rw [sameGo_spec (a.zip b) _ _ (by intro x y; rw [hl x y, hl y x]; exact and_comm)]
  have : (fun x y => ([((0 : Int), (0 : Int))] : List (Int × Int)).lookup x = some y ∨ (x, y) ∈ a.zip b) =
      (fun x y => (x = 0 ∧ y = 0) ∨ (x, y) ∈ a.zip b) := by
    funext x y
    rw [hl x y]
  rw [this]

/-- **C13-T5 (borders, all six modes).** With all axes non-empty the model of `borders` (neighbours through
the transliterated `fix_offset`) marks exactly the pixels having, among the neighbours defined by the
element *and the mathematical border rule of the mode* (edge replication, periodic, reflect, mirror; for
`constant`/`ignore`: inside the image only), one with a different label. -/
theorem C13_borders_spec (m : Mode) (shape : List Nat) (labels : List Int) (offs : List (List Int))
    (hs : ∀ d ∈ shape, 0 < d) : bordersModel m shape labels offs = bordersSpec m shape labels offs :=
  bordersModel_eq_spec m shape labels offs hs

/-- **C13-T5 (border(i, j)).** The model of `border` marks exactly the pixels labelled `i` having a
neighbour labelled `j` inside the image, and vice versa. -/
theorem C13_border_spec (shape : List Nat) (labels : List Int) (bshape : List Nat) (bc : Array Int)
    (hnd : bshape.length = shape.length) (li lj : Int) :
    borderModel shape labels (C03.offsets bshape bc) li lj = borderSpec2 shape labels (C03.offsets bshape bc) li lj :=
  borderModel_eq_spec shape labels _ li lj (by intro k hk; rw [C03.offsets_length bshape bc k hk, hnd])

/-- **C13-T5 (bwperim).** `bwperim = bw ∧ borders(bw)`: a pixel is marked iff it is set and has an unset
neighbour per the border rule. -/
theorem C13_bwperim_spec (m : Mode) (shape : List Nat) (bw : List Int) (offs : List (List Int))
    (hs : ∀ d ∈ shape, 0 < d) : bwperim m shape bw offs = bwperimSpec m shape bw offs :=
  bwperim_eq_spec m shape bw offs hs

/-- **C13-T4 (remove_bordering).** For a label map that fills its shape, the model of `remove_bordering`
(Python slices `[:r]` and `[n-r:]` per axis, including `r = 0` and `r > n`) zeroes exactly the non-zero
regions having a pixel closer than `rsize` to a face of the image. -/
theorem C13_remove_bordering_spec (shape : List Nat) (labels : List Int) (rsize : List Nat)
    (hlen : labels.length = shapeSize shape) :
    removeBordering shape labels rsize = removeBorderingSpec shape labels rsize :=
  removeBordering_eq_spec shape labels rsize hlen

/-- **C13-T4 (remove_regions, binary search).** On a sorted array `std::binary_search` as transliterated
(`lower_bound` by halving, then `!(x < *it)`) decides membership. -/
theorem C13_binary_search_mem (arr : Array Int) (x : Int)
    (hs : ∀ i j, i < j → j < arr.size → arr.getD i 0 ≤ arr.getD j 0) :
    binarySearch arr x = true ↔ ∃ i, i < arr.size ∧ arr.getD i 0 = x :=
  binarySearch_iff arr x hs

/-- **C13-T4 (remove_regions).** The model of `remove_regions` — `np.unique` (sort + drop duplicates), then
`std::binary_search` for every non-zero pixel — zeroes exactly the pixels whose label is in `regions`
(any list: unsorted, with duplicates, with labels that do not occur, with 0). -/
theorem C13_remove_regions_spec (labels regions : List Int) :
    removeRegions labels regions = removeRegionsSpec labels regions :=
  removeRegions_eq_spec labels regions

/-- **C13-T4 (filter_labeled).** For a non-negative label map that fills its shape, the model of
`filter_labeled` — optional `remove_bordering` + `relabel`, sizes by `labeled_size`, the size tests
(`min_size`/`max_size`, 0 = not given), `remove_regions` of the failing labels, final `relabel` — returns the
renumbering (`relabel`, characterised by `C13_relabel_spec`) of the label map in which exactly the selected
regions are zeroed: those touching the border (when asked) and those whose pixel count is below `min_size`
or above `max_size`. Uses that `relabel` is invariant under injective renaming (`relabel_map_inj`). -/
theorem C13_filter_labeled_spec (shape : List Nat) (labels : List Int) (rb : Bool) (minSize maxSize : Nat)
    (hnn : ∀ v ∈ labels, 0 ≤ v) (hlen : labels.length = shapeSize shape) :
    filterLabeled shape labels rb minSize maxSize = relabel (filterKept shape labels rb minSize maxSize) :=
  filterLabeled_eq shape labels rb minSize maxSize hnn hlen

/-- **C13-T2 (bbox, generic path).** Let `ps` be the positions of the non-zero pixels of an image that fills
its shape. On every axis `j` the model of the generic `bbox` loop leaves in `extrema[2j]`, `extrema[2j+1]`
a box that contains every non-zero pixel (`lo ≤ p_j < hi`) and, when there is such a pixel, is tight: the
lower bound is attained by a non-zero pixel and so is the upper bound (`p_j + 1 = hi`). Any rank and shape. -/
theorem C13_bbox_generic_tight (shape : List Nat) (data : List Int) (hlen : data.length = shapeSize shape)
    (j : Nat) (hj : j < shape.length) :
    let ps := ((List.range data.length).filter fun i => data.getD i 0 ≠ 0).map (unravelI shape)
    let ext := (List.range data.length).foldl (fun ext i =>
      if data.getD i 0 ≠ 0 then bboxUpdate ext (unravelI shape i) else ext) (bboxInit shape)
    (∀ p ∈ ps, ext.getD (2 * j) 0 ≤ p.getD j 0 ∧ p.getD j 0 + 1 ≤ ext.getD (2 * j + 1) 0) ∧
    (ps ≠ [] → (∃ p ∈ ps, p.getD j 0 = ext.getD (2 * j) 0) ∧ (∃ p ∈ ps, p.getD j 0 + 1 = ext.getD (2 * j + 1) 0)) :=
  bbox_tight shape data hlen j hj

/-- **C13-T2 (bbox: empty image / returned box).** For an image of rank ≥ 1 that fills its shape, the model
of `bbox` returns all zeros when no pixel is non-zero and otherwise exactly the box left by the loop (which is
tight by `C13_bbox_generic_tight`). -/
theorem C13_bbox_result (shape : List Nat) (data : List Int) (hlen : data.length = shapeSize shape)
    (hnd : 0 < shape.length) :
    let ps := ((List.range data.length).filter fun i => data.getD i 0 ≠ 0).map (unravelI shape)
    let ext := (List.range data.length).foldl (fun ext i =>
      if data.getD i 0 ≠ 0 then bboxUpdate ext (unravelI shape i) else ext) (bboxInit shape)
    (ps = [] → bboxGeneric shape data = (bboxInit shape).map (fun _ => 0)) ∧
    (ps ≠ [] → bboxGeneric shape data = ext) :=
  bboxGeneric_cases shape data hlen hnd

/-- **C13-T2 (bbox_fast_eq_generic).** For every `N0 × N1` C-contiguous image the model of `carray2_bbox` —
row scan with the skip-ahead `x += extrema[3] - x - 1` to the known right edge — returns the same four
numbers as the generic loop: the skipped pixels lie inside the box already known (invariant `Box`/`Att`:
every seen non-zero pixel is inside the box and every bound is initial or attained). -/
theorem C13_bbox_fast_eq_generic (N0 N1 : Nat) (data : List Int) (hlen : data.length = N0 * N1) :
    bboxFast N0 N1 data = bboxGeneric [N0, N1] data :=
  bboxFast_eq_generic N0 N1 data hlen

/-- **C13-T2 (labeled.bbox).** The model of `bbox_labeled` (+ the absent-label zeroing) returns, for every
label `l = 0..n`, exactly what the model of `bbox` returns on the indicator image of label `l` — so each
row is the tight box of the pixels carrying `l` (`C13_bbox_generic_tight`, `C13_bbox_result`) and all zeros
for an absent label. -/
theorem C13_bbox_labeled_eq_bbox_of_indicator (shape : List Nat) (labels : List Int) (n : Nat) :
    bboxLabeled shape labels n =
      (List.range (n + 1)).flatMap fun l => bboxGeneric shape (indicator labels l) :=
  bboxLabeled_eq shape labels n

/-- **C13-T3 (com_eq).** Over any field (the driver runs the same polymorphic definition with `Float`
arithmetic), the model of `center_of_mass` — one pass accumulating `totals[label] += v` and
`centers[label][j] += v * index_rev(j)`, then the division and the coordinate reversal — returns for every
label `l ≤ max label` (label 0 = the whole image when no label map is given) and every axis `j`, in the
documented coordinate order, `Σ v·coord_j / Σ v` over the pixels carrying label `l`. -/
theorem C13_com_eq {α : Type} [Field α] (shape : List Nat) (vals : List α) (labels : List Int) :
    comModelG (fieldOps α) shape vals labels =
      (List.range ((maxOf labels).toNat + 1)).flatMap fun l =>
        (List.range shape.length).map fun j =>
          (((List.range vals.length).filter fun i => (labels.getD i 0).toNat = l).map fun i =>
              vals.getD i 0 * (((unravel shape i).getD j 0 : Nat) : α)).sum /
          (((List.range vals.length).filter fun i => (labels.getD i 0).toNat = l).map fun i => vals.getD i 0).sum :=
  comModelG_eq shape vals labels

/-! non-vacuity and the pinned defect in miniature: an identity that is *not* a lower bound of the data
    (as `numeric_limits<double>::min()`, the smallest positive value, is not) breaks `labeled_max`;
    with the least element the maximum of an all-negative region is right. -/
example : (labeledFold stdMax (1 : Int) 2 [(-5, 1), (-3, 1), (-9, 0)]).toList = [1, 1] ∧
    (labeledFold stdMax (-128 : Int) 2 [(-5, 1), (-3, 1), (-9, 0)]).toList = [-9, -3] ∧
    (sumInt (dtI 8) 2 [(100, 1), (100, 1), (-9, 0)]).toList = [-9, -56] ∧
    (relabel [7, 0, 7, 3, -2, 3]).1 = [1, 0, 1, 2, 3, 2] ∧
    isSameLabeling [7, 0, 7, 3] [1, 0, 1, 2] = true ∧ isSameLabeling [7, 0, 7, 3] [1, 0, 1, 1] = false := by
  decide

/-! ## Round 3 — the executable oracles the harness judges the real code against equal the models

The harness compares the output of the real code with the `spec=` field the driver prints (`handle` in
`Model/C13.lean`). The theorems below prove, for every input, that each of these executable oracles equals the
executable model (whose Prop-level characterisation is proved above), so that "real = oracle" on a case means
"real = proved specification" on that case. Hypotheses are the ones under which oracle and model can be compared
at all; each docstring says what happens outside them. -/

/-- **C13 oracle (relabel).** For every list of labels (any length, any integers, negative ones included) the
executable oracle `relabelSpec` — 0 stays 0, a non-zero value gets 1 + the number of distinct non-zero values
whose first occurrence precedes its own, count = number of distinct non-zero values — returns exactly the pair
(new label map, count) that the model of the `relabel` loop returns. No hypothesis. -/
theorem C13_relabel_oracle_eq_model (labels : List Int) : relabelSpec labels = relabel labels :=
  relabelSpec_eq labels

/-- **C13 oracle (is_same_labeling).** For every pair of label lists (compared position-wise over the common
length, as both definitions `zip`) the quadratic oracle `sameSpec` — every pair agrees on "is background" and
every two pairs agree on "same label" in both maps — gives the same Boolean as the model of the two-`std::map`
loop. No hypothesis. (Both are equivalent to the partial-bijection statement of `C13_same_labeling_iff`.) -/
theorem C13_same_oracle_eq_model (a b : List Int) : sameSpec a b = isSameLabeling a b := by
  rw [Bool.eq_iff_iff, sameSpec_iff, C13_same_labeling_iff]

/-- **C13 oracle (remove_regions).** For every label list and every list of regions the oracle (zero the pixels
whose label is a member of `regions`) equals the model (`np.unique` + `std::binary_search`). No hypothesis. -/
theorem C13_remove_regions_oracle_eq_model (labels regions : List Int) :
    removeRegionsSpec labels regions = removeRegions labels regions :=
  (removeRegions_eq_spec labels regions).symm

/-- **C13 oracle (remove_bordering).** For a label map that fills its shape (any rank, zero-length axes included)
and any `rsize` the oracle (zero the non-zero regions having a pixel closer than `rsize` to a face) equals the
model (Python border slabs). Without `labels.length = shapeSize shape` the two are not comparable (the
coordinates of a flat index are then not those of a pixel); the harness always passes full arrays. -/
theorem C13_remove_bordering_oracle_eq_model (shape : List Nat) (labels : List Int) (rsize : List Nat)
    (hlen : labels.length = shapeSize shape) :
    removeBorderingSpec shape labels rsize = removeBordering shape labels rsize :=
  (removeBordering_eq_spec shape labels rsize hlen).symm

/-- **C13 oracle (filter_labeled).** For a non-negative label map that fills its shape, every choice of
`remove_bordering`, `min_size`, `max_size` (0 = not given): the oracle — `relabelSpec` of the map in which
exactly the selected regions are zeroed — returns the same (label map, count) as the model of the wrapper's
pipeline. Negative labels are outside the domain (the wrapper's `labeled_size` is undefined there). -/
theorem C13_filter_labeled_oracle_eq_model (shape : List Nat) (labels : List Int) (rb : Bool)
    (minSize maxSize : Nat) (hnn : ∀ v ∈ labels, 0 ≤ v) (hlen : labels.length = shapeSize shape) :
    filterLabeledSpec shape labels rb minSize maxSize = filterLabeled shape labels rb minSize maxSize :=
  filterLabeledSpec_eq shape labels rb minSize maxSize hnn hlen

/-- **C13 oracle (bbox, generic path).** For an image of rank ≥ 1 that fills its shape the oracle `bboxSpec`
(per axis the least coordinate and the greatest coordinate + 1 over the non-zero pixels) is `none` exactly when
every pixel is zero, and otherwise it is `some` of exactly the list the model of the generic `bbox` loop returns.
For an all-zero image (where the statement is silent and the harness compares with the model only) the model
returns zeros. -/
theorem C13_bbox_oracle_eq_model (shape : List Nat) (data : List Int) (hlen : data.length = shapeSize shape)
    (hnd : 0 < shape.length) :
    bboxSpec shape data = (if data.all (· == 0) then none else some (bboxGeneric shape data)) ∧
    (data.all (· == 0) = true → bboxGeneric shape data = List.replicate (2 * shape.length) 0) :=
  bboxSpec_eq_ite shape data hlen hnd

/-- **C13 oracle (bbox, C-contiguous 2-D fast path).** The same for the model of `carray2_bbox` (the `fast=`
field of the driver, judged on aligned C-contiguous 2-D inputs): for every `N0 × N1` image the oracle is `none`
for an all-zero image and otherwise `some` of what the skip-ahead loop returns. -/
theorem C13_bbox_fast_oracle_eq_model (N0 N1 : Nat) (data : List Int) (hlen : data.length = N0 * N1) :
    bboxSpec [N0, N1] data = (if data.all (· == 0) then none else some (bboxFast N0 N1 data)) := by
  rw [bboxFast_eq_generic N0 N1 data hlen]
  exact (bboxSpec_eq_ite [N0, N1] data (by simp [shapeSize, hlen]) (by simp)).1

/-- **C13 oracle (labeled.bbox).** For a non-negative label map that fills a shape of rank ≥ 1 and every `n`
(the driver passes the largest label) the oracle — for each label `0..n` the `bboxSpec` box of its indicator
image, zeros for an absent label — is exactly the list the model of `bbox_labeled` returns, rows of absent
labels included. Negative labels are outside the domain (the kernel indexes `extrema + label*2*nd`). -/
theorem C13_bbox_labeled_oracle_eq_model (shape : List Nat) (labels : List Int) (n : Nat)
    (hnn : ∀ v ∈ labels, 0 ≤ v) (hlen : labels.length = shapeSize shape) (hnd : 0 < shape.length) :
    bboxLabeledSpec shape labels n = bboxLabeled shape labels n :=
  bboxLabeledSpec_eq shape labels n hnn hlen hnd

/-- **C13 oracle (borders, six modes).** For every label list and every list of offsets the oracle (mathematical
border rule) is the model (transliterated `fix_offset`) when all axes are non-empty or there is no pixel at all —
which covers every array that fills its shape (second statement). -/
theorem C13_borders_oracle_eq_model (m : Mode) (shape : List Nat) (labels : List Int) (offs : List (List Int)) :
    ((∀ d ∈ shape, 0 < d) ∨ labels = [] → bordersSpec m shape labels offs = bordersModel m shape labels offs) ∧
    (labels.length = shapeSize shape → bordersSpec m shape labels offs = bordersModel m shape labels offs) :=
  ⟨bordersSpec_eq m shape labels offs,
   fun hlen => bordersSpec_eq m shape labels offs (pos_or_nil_of_full shape labels hlen)⟩

/-- **C13 oracle (border(i, j)).** For a structuring element of the rank of the image the oracle is the model. -/
theorem C13_border_oracle_eq_model (shape : List Nat) (labels : List Int) (bshape : List Nat) (bc : Array Int)
    (hnd : bshape.length = shape.length) (li lj : Int) :
    borderSpec2 shape labels (C03.offsets bshape bc) li lj = borderModel shape labels (C03.offsets bshape bc) li lj :=
  (C13_border_spec shape labels bshape bc hnd li lj).symm

/-- **C13 oracle (bwperim).** The oracle is the model when all axes are non-empty or there is no pixel at all;
in particular for every array that fills its shape. -/
theorem C13_bwperim_oracle_eq_model (m : Mode) (shape : List Nat) (bw : List Int) (offs : List (List Int)) :
    ((∀ d ∈ shape, 0 < d) ∨ bw = [] → bwperimSpec m shape bw offs = bwperim m shape bw offs) ∧
    (bw.length = shapeSize shape → bwperimSpec m shape bw offs = bwperim m shape bw offs) :=
  ⟨bwperimSpec_eq m shape bw offs, fun hlen => bwperimSpec_eq m shape bw offs (pos_or_nil_of_full shape bw hlen)⟩

/-- **C13 oracle (labeled_sum, integer and bool dtypes).** Slot `l < n` of the oracle the driver prints for
`op=sum` (`foldSpec`: the exact integer sum of the values labelled `l`; for bool the `or`) equals slot `l` of the
model, for bool data always and for every integer dtype whenever the exact sum is representable in the dtype.
When it is not representable the two differ by design (the model wraps around, as `std::plus<T>` does; the
statement is silent and the harness masks exactly these slots). -/
theorem C13_labeled_sum_oracle_eq_model (dt : DT) (n : Nat) (px : List (Int × Int)) (l : Nat) (hl : l < n)
    (h : dt = dtBool ∨ (dt.WF ∧ dt.InRange (valuesOf px (l : Int)).sum)) :
    (foldSpec dt.isBool "sum" n px)[l]? = (sumInt dt n px)[l]? := by
  rcases h with rfl | ⟨wf, hr⟩
  · rw [orSpec_eq_model]; simp
  · exact sumSpec_slot_eq_model dt wf n px l hl hr

/-- **C13 oracle (labeled_max / labeled_min, integer dtypes).** For every integer dtype range containing the
values of label `l`, and `l` non-empty, slot `l` of the oracle (`foldl max/min` from the first value) equals slot
`l` of the models `maxInt` / `minInt` (folds of `std_like_max/min` from `lowest()` / `max()`). For an empty label
they differ by design (oracle 0, model the identity): the statement is silent and the harness masks those slots. -/
theorem C13_labeled_max_min_oracle_eq_model (dt : DT) (n : Nat) (px : List (Int × Int)) (l : Nat) (hl : l < n)
    (hne : valuesOf px (l : Int) ≠ []) (hr : ∀ v ∈ valuesOf px (l : Int), dt.InRange v) :
    (foldSpec dt.isBool "max" n px)[l]? = (maxInt dt n px)[l]? ∧
    (foldSpec dt.isBool "min" n px)[l]? = (minInt dt n px)[l]? :=
  maxSpec_slot_eq_exact dt.isBool dt.lo dt.hi n px l hl hne (fun v hv => (hr v hv).1) (fun v hv => (hr v hv).2)

/-- **C13 oracle (labeled_sum/max/min, float dtypes) — partial.** For float data `k / scale` the driver's oracle
is `Float.ofInt v / scale` applied entrywise to `foldSpec false op n` of the scaled integers `k`. Proved here:
that integer list is exactly the polymorphic model `labeledFold` (the definition the driver runs at `Float`)
instantiated at ℤ with exact `+` (every slot, every input) and with `std_like_max/min` from any identities that
bound the values (every non-empty label). **Not proved** (validated by the run only): that `Float` addition and
comparison on the dyadic data the harness generates commute with `Float.ofInt · / scale` — Lean's `Float`
operations are opaque. The theorems `C13_labeled_sum_float_oracle_eq_model_of_exact` and
`C13_labeled_max_min_float_oracle_eq_model_of_monotone` below prove the `Float` instance equal to the oracle
under exactly these facts as hypotheses. -/
theorem C13_labeled_float_oracle_partial (n : Nat) (px : List (Int × Int)) :
    foldSpec false "sum" n px = (labeledFold (fun a r => a + r) (0 : Int) n px).toList ∧
    ∀ (lowest highest : Int) (l : Nat), l < n → valuesOf px (l : Int) ≠ [] →
      (∀ v ∈ valuesOf px (l : Int), lowest ≤ v) → (∀ v ∈ valuesOf px (l : Int), v ≤ highest) →
      (foldSpec false "max" n px)[l]? = (labeledFold stdMax lowest n px)[l]? ∧
      (foldSpec false "min" n px)[l]? = (labeledFold stdMin highest n px)[l]? :=
  ⟨sumSpec_eq_exact n px, fun lowest highest l hl hne hlo hhi =>
    maxSpec_slot_eq_exact false lowest highest n px l hl hne hlo hhi⟩

/-- **C13 oracle (labeled_size / fullhistogram).** For non-negative values (0/1 for a bool image) the oracle
`countSpec` (bin `i` = number of pixels equal to `i`, as many bins as the model returns) is exactly the list the
model of `fullhistogram` returns (`compute_histogram` into `max + 1` bins; `[zeros, ones]` for bool). Negative
values are outside the domain (the kernel would index before the buffer; the wrappers reject signed input). -/
theorem C13_hist_oracle_eq_model (isBool : Bool) (vals : List Int) (hv : ∀ v ∈ vals, 0 ≤ v)
    (hb : isBool = true → ∀ v ∈ vals, v ≤ 1) :
    countSpec vals (fullHistogram isBool vals).length = fullHistogram isBool vals :=
  countSpec_eq_model isBool vals hv hb

/-- **C13 oracle (center_of_mass).** Over any field (ℚ, ℝ, …), for non-negative labels (`labels = []` = no label
map) and integer data `ks`: the exact fractions `(Σ k·coord_j, Σ k)` that the oracle `comSpec` computes, read in the
field, are — entry for entry, rows of empty labels (`0/0`) included — the output of the polymorphic model
`comModelG` (the definition the driver runs with `Float` operations) run with the operations of that field on the
same data. The `Float` instance itself is validated by the run (data chosen so that every partial sum is exact;
entries with denominator 0 are masked there, `ok=`); `C13_com_float_oracle_eq_model_of_exact` below proves it
equal to the oracle under explicit exactness hypotheses. -/
theorem C13_com_oracle_eq_model {α : Type} [Field α] (shape : List Nat) (ks : List Int) (labels : List Int)
    (hnn : ∀ v ∈ labels, 0 ≤ v) :
    (comSpec shape ks labels).map (fun nd => ((nd.1 : Int) : α) / ((nd.2 : Int) : α)) =
      comModelG (fieldOps α) shape (ks.map fun k => ((k : Int) : α)) labels :=
  comSpec_eq_model shape ks labels hnn

/-- **C13 oracle (labeled_sum at `Float`, conditional).** About the very definitions the driver runs for float
data: with `emb k = Float.ofInt k / scale` (any function `emb : ℤ → Float` here) the driver's model is
`sumFloat n ((data.map emb).zip labels)` and its oracle is `(foldSpec false "sum" n (data.zip labels)).map emb`.
They agree in slot `l < n` **provided** `emb 0 = 0.0` and every partial sum of the values labelled `l` is exact:
`emb a + emb s = emb (a + s)` whenever `a` is a value labelled `l` and `s` the sum of the values labelled `l`
before it. These two facts about IEEE arithmetic on the dyadic data the harness generates are the whole
remaining trusted gap for `labeled_sum` on floats (Lean's `Float` is opaque; they are validated by the run). -/
theorem C13_labeled_sum_float_oracle_eq_model_of_exact (emb : Int → Float) (n : Nat) (data labels : List Int)
    (l : Nat) (hl : l < n) (h0 : emb 0 = 0.0)
    (hexact : ∀ pre a rest, valuesOf (data.zip labels) (l : Int) = pre ++ a :: rest →
      emb a + emb pre.sum = emb (a + pre.sum)) :
    (sumFloat n ((data.map emb).zip labels))[l]? = ((foldSpec false "sum" n (data.zip labels)).map emb)[l]? := by
  rw [List.getElem?_map]
  exact sumFloat_slot_of_exact emb n data labels l hl h0 hexact

/-- **C13 oracle (labeled_max / labeled_min at `Float`, conditional).** Same setting. The models
`maxFloat lowest` / `minFloat highest` agree with the image of the integer oracle under `emb` in the slot of every
non-empty label **provided** `emb` is strictly monotone on the values of that label (`emb a < emb b ↔ a < b`,
Float comparison) and the identities do not beat any value (`¬ emb v < lowest`, `¬ highest < emb v` — true for
`lowest()`/`max()`, false for the pinned `numeric_limits<double>::min()`: defect #22). -/
theorem C13_labeled_max_min_float_oracle_eq_model_of_monotone (emb : Int → Float) (lowest highest : Float)
    (n : Nat) (data labels : List Int) (l : Nat) (hl : l < n)
    (hne : valuesOf (data.zip labels) (l : Int) ≠ [])
    (hlow : ∀ v ∈ valuesOf (data.zip labels) (l : Int), ¬ (emb v < lowest))
    (hhigh : ∀ v ∈ valuesOf (data.zip labels) (l : Int), ¬ (highest < emb v))
    (hmono : ∀ a ∈ valuesOf (data.zip labels) (l : Int), ∀ b ∈ valuesOf (data.zip labels) (l : Int),
      (emb a < emb b ↔ a < b)) :
    (maxFloat lowest n ((data.map emb).zip labels))[l]? =
      ((foldSpec false "max" n (data.zip labels)).map emb)[l]? ∧
    (minFloat highest n ((data.map emb).zip labels))[l]? =
      ((foldSpec false "min" n (data.zip labels)).map emb)[l]? := by
  rw [List.getElem?_map, List.getElem?_map]
  exact maxMinFloat_slot_of_monotone emb lowest highest n data labels l hl hne hlow hhigh hmono

/-- **C13 oracle (center_of_mass at `Float`, conditional).** About the very definition the driver runs
(`comModel = comModelG floatOps`) on the data `ks.map emb` (the driver: `emb k = Float.ofInt k / scale`), for
non-negative labels (`labels = []` = no label map): the model's output is, entry for entry, `emb num / emb den`
of the exact integer pairs `(num, den) = (Σ k·coord_j, Σ k)` the oracle `comSpec` computes, **provided**
`emb 0 = 0.0` and every step of the two accumulations of the kernel is exact on the pixels of each label in scan
order: `totals[l] += v` (`emb s + emb k = emb (s + k)`) and `centers[l][j] += v * coord_j`
(`emb s + emb k * Float.ofNat c = emb (s + k·c)`). The driver prints the oracle as
`Float.ofInt num / Float.ofInt den`, which is `emb num / emb den` when dividing both by the power of two `scale`
is exact. These IEEE facts on the data the harness generates (|values| < 2^53, dyadic) are the whole remaining
trusted gap for `center_of_mass` (Lean's `Float` is opaque; validated by the run). -/
theorem C13_com_float_oracle_eq_model_of_exact (emb : Int → Float) (shape : List Nat) (ks labels : List Int)
    (hnn : ∀ v ∈ labels, 0 ≤ v) (h0 : emb 0 = 0.0)
    (htot : ∀ (l : Nat) (pre : List Nat) (i : Nat) (rest : List Nat),
      ((List.range ks.length).filter fun i => labels.getD i 0 == (l : Int)) = pre ++ i :: rest →
      emb (pre.map fun i => ks.getD i 0).sum + emb (ks.getD i 0) =
        emb ((pre.map fun i => ks.getD i 0).sum + ks.getD i 0))
    (hrow : ∀ (l j : Nat), j < shape.length → ∀ (pre : List Nat) (i : Nat) (rest : List Nat),
      ((List.range ks.length).filter fun i => labels.getD i 0 == (l : Int)) = pre ++ i :: rest →
      emb (pre.map fun i => ks.getD i 0 * ((unravel shape i).getD j 0 : Nat)).sum +
          emb (ks.getD i 0) * Float.ofNat ((unravel shape i).getD j 0) =
        emb ((pre.map fun i => ks.getD i 0 * ((unravel shape i).getD j 0 : Nat)).sum +
          ks.getD i 0 * ((unravel shape i).getD j 0 : Nat))) :
    comModel shape (ks.map emb) labels = (comSpec shape ks labels).map fun nd => emb nd.1 / emb nd.2 :=
  comModelG_of_exact floatOps emb shape ks labels hnn h0 htot hrow

/-- **C13 oracle soundness (relabel).** The oracle `relabelSpec` itself satisfies the Prop-level characterisation
of `C13_relabel_spec`: one function fixing 0, injective on the occurring labels, new labels `1..n` in order of
first appearance, `n` returned. -/
theorem C13_relabel_oracle_sound (labels : List Int) :
    (∃ f : Int → Int, (relabelSpec labels).1 = labels.map f ∧ f 0 = 0 ∧ (∀ v ∈ labels, v ≠ 0 → 1 ≤ f v) ∧
      (∀ a b, (a ∈ labels ∨ a = 0) → (b ∈ labels ∨ b = 0) → f a = f b → a = b)) ∧
    C03.Consec 1 (relabelSpec labels).1 ∧
    (∀ l ∈ (relabelSpec labels).1, l ≤ (relabelSpec labels).2) ∧
    (∀ k, 1 ≤ k → k ≤ (relabelSpec labels).2 → k ∈ (relabelSpec labels).1) := by
  rw [C13_relabel_oracle_eq_model]
  exact C13_relabel_spec labels

/-- **C13 oracle soundness (is_same_labeling).** The oracle `sameSpec` answers `true` exactly when the pairs of
corresponding labels together with `(0, 0)` form a partial bijection. -/
theorem C13_same_oracle_sound (a b : List Int) :
    sameSpec a b = true ↔ PBij (fun x y => (x = 0 ∧ y = 0) ∨ (x, y) ∈ a.zip b) :=
  sameSpec_iff a b

/-- **C13 oracle soundness (bbox).** When the oracle returns a box `b` for an image of rank ≥ 1 filling its
shape, there is a non-zero pixel, on every axis `j` the box contains every non-zero pixel
(`b[2j] ≤ p_j < b[2j+1]`) and both bounds are attained by non-zero pixels. -/
theorem C13_bbox_oracle_sound (shape : List Nat) (data : List Int) (hlen : data.length = shapeSize shape)
    (hnd : 0 < shape.length) (b : List Int) (hb : bboxSpec shape data = some b) (j : Nat) (hj : j < shape.length) :
    let ps := ((List.range data.length).filter fun i => data.getD i 0 ≠ 0).map (unravelI shape)
    ps ≠ [] ∧ (∀ p ∈ ps, b.getD (2 * j) 0 ≤ p.getD j 0 ∧ p.getD j 0 + 1 ≤ b.getD (2 * j + 1) 0) ∧
    (∃ p ∈ ps, p.getD j 0 = b.getD (2 * j) 0) ∧ (∃ p ∈ ps, p.getD j 0 + 1 = b.getD (2 * j + 1) 0) :=
  bboxSpec_sound shape data hlen hnd b hb j hj

/-! non-vacuity of the oracle theorems: the oracles compute non-trivial values on small inputs, and the
    hypotheses are satisfiable (a 2 × 3 image, labels with a gap, an out-of-range sum for the masked case) -/
example : relabelSpec [7, 0, 7, 3, -2, 3] = ([1, 0, 1, 2, 3, 2], 3) ∧
    sameSpec [7, 0, 7, 3] [1, 0, 1, 2] = true ∧ sameSpec [7, 0, 7, 3] [1, 0, 1, 1] = false ∧
    bboxSpec [2, 3] [0, 0, 1, 0, 1, 0] = some [0, 2, 1, 3] ∧ bboxSpec [2, 3] [0, 0, 0, 0, 0, 0] = none ∧
    bboxLabeledSpec [2, 2] [0, 2, 2, 0] 2 = [0, 2, 0, 2, 0, 0, 0, 0, 0, 2, 0, 2] ∧
    foldSpec false "sum" 2 [(100, 1), (100, 1), (-9, 0)] = [-9, 200] ∧
    (sumInt (dtI 8) 2 [(100, 1), (100, 1), (-9, 0)]).toList = [-9, -56] ∧
    foldSpec false "max" 2 [(-5, 1), (-3, 1), (-9, 0)] = [-9, -3] ∧
    countSpec [0, 2, 2, 1] 3 = [1, 1, 2] ∧
    comSpec [2, 2] [1, 2, 3, 4] [] = [(7, 10), (6, 10)] ∧
    filterLabeledSpec [1, 4] [1, 1, 0, 2] false 2 0 = ([1, 1, 0, 0], 1) := by
  decide

/-! non-vacuity of the conditional transfer theorem: its exactness hypotheses hold in every field (exact
    arithmetic), where it re-proves `C13_com_oracle_eq_model`; at `Float` they are IEEE facts Lean cannot state -/
example {α : Type} [Field α] (shape : List Nat) (ks labels : List Int) (hnn : ∀ v ∈ labels, 0 ≤ v) :
    comModelG (fieldOps α) shape (ks.map fun k => ((k : Int) : α)) labels =
      (comSpec shape ks labels).map fun nd => ((nd.1 : Int) : α) / ((nd.2 : Int) : α) :=
  comModelG_of_exact (fieldOps α) (fun k => ((k : Int) : α)) shape ks labels hnn (by simp [fieldOps])
    (by intros; simp [fieldOps]) (by intros; simp [fieldOps])

/-- **C13 (tie to the source, generated tables).** The code by which the models number a border mode is the code the
current source gives it in both places: `mode2int` of `mahotas/_filters.py` (what the wrappers send) and
`enum ExtendMode` of `mahotas/_filters.h` (what the kernels switch on); neither table has further entries. Both tables
are regenerated from the source on every run. -/
theorem C13_mode_codes_agree (m : Mahotas.Mode) :
    (Mahotas.Generated.pyModes.lookup m.name = some m.code ∧ Mahotas.Generated.cppModes.lookup m.name = some m.code) ∧
    Mahotas.Generated.pyModes.length = 6 ∧ Mahotas.Generated.cppModes.length = 6 :=
  ⟨Mahotas.mode_codes_agree m, Mahotas.mode_tables_complete.1, Mahotas.mode_tables_complete.2.1⟩

/-! ## Round 4 — the Python wrappers around the kernels (`bbox.py`, `labeled.py`, `histogram.py`) -/

/-- **C13 (remove_regions_where).** The model of `remove_regions_where(labeled, conditions)` — `np.where(conditions)`
(the indices of the true entries) handed to the model of `remove_regions` (`np.unique` + `std::binary_search`) — zeroes
exactly the pixels whose label `v` satisfies `0 ≤ v < len(conditions)` and `conditions[v]`; every other pixel (labels beyond
the table, negative labels, background) keeps its value. Any `conditions` (empty, shorter or longer than the label range). -/
theorem C13_remove_regions_where_spec (labels conds : List Int) :
    removeRegionsWhere labels conds = removeRegionsWhereSpec labels conds :=
  removeRegionsWhere_eq_spec labels conds

/-- **C13 (is_same_labeling, unequal shapes).** The wrapper's answer (`shape0 != shape1 → False`, else the kernel) is `true`
exactly when the two maps have the same shape and their label pairs together with `(0, 0)` form a partial bijection; the
executable oracle `sameSpecShaped` the harness judges against is the model. Maps of different shapes — also of equal size,
e.g. `(2,3)` against `(3,2)` — are never the same labeling. -/
theorem C13_same_labeling_shaped_iff (s0 s1 : List Nat) (a b : List Int) :
    (isSameLabelingShaped s0 s1 a b = true ↔ s0 = s1 ∧ PBij (fun x y => (x = 0 ∧ y = 0) ∨ (x, y) ∈ a.zip b)) ∧
    sameSpecShaped s0 s1 a b = isSameLabelingShaped s0 s1 a b := by
  constructor
  · unfold isSameLabelingShaped
    rw [Bool.and_eq_true, beq_iff_eq, C13_same_labeling_iff]
  · unfold isSameLabelingShaped sameSpecShaped
    rw [C13_same_oracle_eq_model]

/-- **C13 (labeled_size through `astype(uint32)`).** For every label list (any integers): the model of `labeled_size` —
reduce modulo 2^32, then `compute_histogram` into `max + 1` bins, also for a bool map — returns in bin `i` the number of
pixels whose label is `i` modulo 2^32 (`countSpec`); for labels in `[0, 2^32)` (every map `label()` produces) that is the
number of pixels labelled `i`, and there are `max + 1` bins. -/
theorem C13_labeled_size_counts (vals : List Int) :
    countSpec (vals.map (· % 4294967296)) (labeledSize vals).length = labeledSize vals ∧
    ((∀ v ∈ vals, 0 ≤ v ∧ v < 4294967296) →
      countSpec vals ((maxOf vals).toNat + 1) = labeledSize vals) := by
  refine ⟨labeledSize_counts vals, fun hv => ?_⟩
  have h := labeledSize_counts vals
  rw [map_emod_id vals hv] at h
  have hl : (labeledSize vals).length = (maxOf vals).toNat + 1 := by
    unfold labeledSize
    rw [map_emod_id vals hv]
    unfold fullHistogram
    simp only [Bool.false_eq_true, if_false, Array.length_toList, histogram_size]
  rw [← hl]
  exact h

/-- **C13 (labeled_sum with `minlength`).** The wrapper allocates `foldLen = max(labeled.max() + 1, minlength)` slots
(`labeled.max() + 1` without `minlength`), so the result covers every label and has at least `minlength` entries; and in
the model of `labeled_foldl` (any value type, operation and identity — the driver's `Int` and `Float` instances included)
every slot beyond the largest label holds the identity element (0 for `labeled_sum`): no pixel carries that label. -/
theorem C13_labeled_sum_minlength {α : Type} (f : α → α → α) (start : α) (data : List α) (labels : List Int)
    (ml : Option Int) :
    ((maxOf labels + 1).toNat ≤ foldLen labels ml ∧ (∀ m, ml = some m → m.toNat ≤ foldLen labels ml) ∧
      (ml = none → foldLen labels ml = (maxOf labels + 1).toNat)) ∧
    ∀ l : Nat, l < foldLen labels ml → maxOf labels < (l : Int) →
      (labeledFold f start (foldLen labels ml) (data.zip labels))[l]? = some start := by
  refine ⟨foldLen_ge labels ml, fun l hl hgt => ?_⟩
  rw [labeledFold_slot f start _ _ l hl, valuesOf_nil_of_gt data labels l hgt]
  rfl

/-- **C13 (bbox with `border`, `as_slice`, croptobbox).** Let `box = [lo_0, hi_0, lo_1, hi_1, …]` be a list of non-negative
numbers (the result of `bbox`, characterised by `C13_bbox_result`/`C13_bbox_oracle_sound`) and `b ≥ 0`. The model of
`croptobbox(img, border=b)` — `bbox`'s arithmetic `(max(lo - b, 0), hi + b)` (upper end not clipped), Python's slice
semantics per axis (`sliceBound`: clipping to the axis length) and the indexing `img[slices]` — shows exactly the pixels
`p` of the image with `lo_d - b ≤ p_d < hi_d + b` on every axis, in C order: the box grown by `b` and clipped to the image.
In particular (`b = 0`) the crop contains every pixel of the box, hence every non-zero pixel. -/
theorem C13_croptobbox_border_spec (shape : List Nat) (box : List Int) (b : Int) (hb : 0 ≤ b)
    (hlen : box.length = 2 * shape.length) (hnn : ∀ k, 0 ≤ box.getD k 0) :
    (cropTo shape (bboxBorder box b)).2 = cropSpec shape box b :=
  cropTo_eq_spec shape box b hb hlen hnn

/-- **C13 (croptobbox end to end).** For every image of rank ≥ 1 that fills its shape and every `border = b ≥ 0`: the
pixels `croptobbox(img, border=b)` shows — computed by the models of `bbox` (generic loop; the C-contiguous 2-D fast path
is equal by `C13_bbox_fast_eq_generic`), of the border arithmetic, and of Python slicing — are exactly the pixels within `b`
of the returned box on every axis (clipped to the image), and **every non-zero pixel of the image is among them**. (For an
all-zero image the box is `[0,0,…]` and the crop is the leading `b × … × b` corner: what the code does.) -/
theorem C13_croptobbox_contains_nonzero (shape : List Nat) (data : List Int) (hlen : data.length = shapeSize shape)
    (hnd : 0 < shape.length) (b : Int) (hb : 0 ≤ b) :
    (cropTo shape (bboxBorder (bboxGeneric shape data) b)).2 = cropSpec shape (bboxGeneric shape data) b ∧
    ∀ i, i < data.length → data.getD i 0 ≠ 0 → i ∈ cropSpec shape (bboxGeneric shape data) b :=
  croptobbox_contains shape data hlen hnd b hb

/-! non-vacuity of the round-4 wrapper theorems: concrete evaluations (a 3 × 4 image whose box `[1,2,1,3]` is grown by 1 and
    clipped; negative border through Python's negative-index rule; labels beyond 2^32; a `conditions` table shorter than the
    label range; equal-size maps of different shapes) -/
example : bboxBorder [1, 2, 1, 3] 1 = [0, 3, 0, 4] ∧ bboxBorder [1, 2, 1, 3] 5 = [0, 7, 0, 8] ∧
    cropTo [3, 4] (bboxBorder [1, 2, 1, 3] 1) = ([3, 4], [0, 1, 2, 3, 4, 5, 6, 7, 8, 9, 10, 11]) ∧
    cropTo [3, 4] [1, 2, 1, 3] = ([1, 2], [5, 6]) ∧ cropSpec [3, 4] [1, 2, 1, 3] 0 = [5, 6] ∧
    cropTo [4, 5] (bboxBorder [1, 3, 2, 5] (-3)) = ([0, 0], []) ∧ sliceBound 5 (-1) = 4 ∧ sliceBound 5 9 = 5 ∧
    labeledSize [4294967297, 0, 1] = [1, 2] ∧ labeledSize [1, 0, 1] = [1, 2] ∧
    foldLen [0, 2, 2] (some 5) = 5 ∧ foldLen [0, 2, 2] none = 3 ∧ foldLen [0, 2, 2] (some (-5)) = 3 ∧
    isSameLabelingShaped [2, 3] [3, 2] [1, 0, 1, 2, 2, 0] [1, 0, 1, 2, 2, 0] = false ∧
    isSameLabelingShaped [2, 3] [2, 3] [1, 0, 1, 2, 2, 0] [5, 0, 5, 7, 7, 0] = true := by
  decide

example : removeRegionsWhere [0, 1, 1, 2, 2, 3] [0, 1, 0] = [0, 0, 0, 2, 2, 3] := by
  rw [C13_remove_regions_where_spec]; decide

/-! ## Round 4 — the floating-point instances over the binary64 rounding model (`Proofs/C05Binary64.lean`)

The round-3 theorems `C13_labeled_sum_float_oracle_eq_model_of_exact` / `C13_com_float_oracle_eq_model_of_exact` assume
"every accumulation step is exact" as an IEEE fact about Lean's opaque `Float`. Below, the same polymorphic definitions
(`labeledFold`, `comModelG`) are run with correctly rounded rational arithmetic and that fact is a theorem. -/

/-- **C13 (binary64 is exact on dyadic data).** Round-to-nearest with a 53-bit significand — any tie rule (`rndBin n`), in
particular IEEE `roundTiesToEven` (`rne53`) — returns every dyadic rational `k / 2^s` with `|k| ≤ 2^53` unchanged, for every
scale `s`; and every abstract `Rounding` (monotone, relative error ≤ 2^-53, exact on integers up to 2^53) does so for `s = 0`
(integer-valued data). Exponent range unbounded (no overflow/underflow is modelled). -/
theorem C13_binary64_exact_on_dyadic (s : ℕ) :
    ExactDyadic rne53 s ∧
    (∀ (n : ℚ → ℤ), (∀ y, |(n y : ℚ) - y| ≤ 1 / 2) → ExactDyadic (rndBin n) s) ∧
    (∀ rnd : ℚ → ℚ, Rounding rnd → ExactDyadic rnd 0) :=
  ⟨exactDyadic_rne53 s, fun n hn => exactDyadic_rndBin n hn s, exactDyadic_of_rounding⟩

/-- **C13 (labeled_sum in rounded arithmetic = exact sum).** `sumRounded rnd` is `labeledFold` — the definition the driver runs
at `Float` — with the addition `rnd (a + r)` over ℚ. For every rounding exact on the dyadics of scale `s` (`rne53`, any
`rndBin n`; any `Rounding` when `s = 0`), data `k_i / 2^s` and label `l < n`: if every partial sum (in scan order) of the
integers `k_i` labelled `l` has magnitude at most `2^53`, then **no accumulation step rounds**: slot `l` is exactly
`(Σ k_i) / 2^s`, which is the `l`-th entry of the harness' oracle `(foldSpec false "sum" …).map (· / 2^s)`. This discharges
the exactness hypothesis of `C13_labeled_sum_float_oracle_eq_model_of_exact` in the rounding model — it is the fact the
harness relies on when it feeds `k/8` data (`s = 3`) and compares bit-for-bit. -/
theorem C13_labeled_sum_rounded_exact (rnd : ℚ → ℚ) (s : ℕ) (hr : ExactDyadic rnd s) (n : Nat)
    (data labels : List Int) (l : Nat) (hl : l < n)
    (hb : ∀ pre a rest, valuesOf (data.zip labels) (l : Int) = pre ++ a :: rest →
      |((a + pre.sum : Int) : ℚ)| ≤ 2 ^ 53) :
    (sumRounded rnd n ((data.map (dy s)).zip labels))[l]? = some (dy s (valuesOf (data.zip labels) (l : Int)).sum) ∧
    (sumRounded rnd n ((data.map (dy s)).zip labels))[l]? =
      ((foldSpec false "sum" n (data.zip labels)).map (dy s))[l]? :=
  sumRounded_exact rnd s hr n data labels l hl hb

/-- **C13 (labeled_sum in rounded arithmetic, sufficient bound).** The same conclusion when the absolute values of the
integers labelled `l` sum to at most `2^53` (the harness: `|k| ≤ 400`, at most 216 pixels). -/
theorem C13_labeled_sum_rounded_exact_of_abs_sum (rnd : ℚ → ℚ) (s : ℕ) (hr : ExactDyadic rnd s) (n : Nat)
    (data labels : List Int) (l : Nat) (hl : l < n)
    (hb : ((valuesOf (data.zip labels) (l : Int)).map fun v => |v|).sum ≤ 2 ^ 53) :
    (sumRounded rnd n ((data.map (dy s)).zip labels))[l]? = some (dy s (valuesOf (data.zip labels) (l : Int)).sum) ∧
    (sumRounded rnd n ((data.map (dy s)).zip labels))[l]? =
      ((foldSpec false "sum" n (data.zip labels)).map (dy s))[l]? :=
  sumRounded_exact rnd s hr n data labels l hl (partial_sums_bounded _ hb)

/-- **C13 (center_of_mass in rounded arithmetic = correctly rounded exact centroid).** `comModelG (rndOps rnd)` is the
definition the driver runs with `Float` operations, run with `rnd (a + b)`, `rnd (a * b)`, `rnd (a / b)`, `rnd c` over ℚ.
For a rounding exact on the dyadics of scale `s` and on the integers (`rne53`, any `rndBin n`), data `k_i / 2^s`,
non-negative labels (`[]` = no label map): if the coordinates, every product `k_i · coord_j`, and every partial sum (scan
order, per label) of the `k_i` and of the `k_i · coord_j` have magnitude at most `2^53`, then both accumulations of the
kernel are exact and the only rounding is the final division: every output entry is `rnd (Σ k·coord_j / Σ k)`, the
correctly rounded exact centroid (the scale cancels; rows of empty labels give `rnd (0/0) = rnd 0`). This discharges the
hypotheses of `C13_com_float_oracle_eq_model_of_exact` in the rounding model. -/
theorem C13_com_rounded_exact (rnd : ℚ → ℚ) (s : ℕ) (hr : ExactDyadic rnd s) (hr0 : ExactDyadic rnd 0)
    (shape : List Nat) (ks labels : List Int) (hnn : ∀ v ∈ labels, 0 ≤ v)
    (hc : ∀ i j, (((unravel shape i).getD j 0 : Nat) : ℚ) ≤ 2 ^ 53)
    (hprod : ∀ i j, |((ks.getD i 0 * ((unravel shape i).getD j 0 : Nat) : Int) : ℚ)| ≤ 2 ^ 53)
    (htot : ∀ (l : Nat) (pre : List Nat) (i : Nat) (rest : List Nat),
      ((List.range ks.length).filter fun i => labels.getD i 0 == (l : Int)) = pre ++ i :: rest →
      |(((pre.map fun i => ks.getD i 0).sum + ks.getD i 0 : Int) : ℚ)| ≤ 2 ^ 53)
    (hrow : ∀ (l j : Nat), j < shape.length → ∀ (pre : List Nat) (i : Nat) (rest : List Nat),
      ((List.range ks.length).filter fun i => labels.getD i 0 == (l : Int)) = pre ++ i :: rest →
      |(((pre.map fun i => ks.getD i 0 * ((unravel shape i).getD j 0 : Nat)).sum +
          ks.getD i 0 * ((unravel shape i).getD j 0 : Nat) : Int) : ℚ)| ≤ 2 ^ 53) :
    comModelG (rndOps rnd) shape (ks.map (dy s)) labels =
      (comSpec shape ks labels).map fun nd => rnd ((nd.1 : ℚ) / (nd.2 : ℚ)) :=
  comRounded_exact rnd s hr hr0 shape ks labels hnn hc hprod htot hrow

/-- **C13 (labeled_sum accumulated in binary32 / any `p`-bit format).** The kernel's accumulator has the dtype of the image
(`float` for float32 images). For round-to-nearest with a `p ≥ 1`-bit significand and any tie rule (`rndBinP p n`; `p = 24` is
binary32, `p = 53` is `rndBin`: `rndBinP_53`) every dyadic `k / 2^s` with `|k| ≤ 2^p` is returned unchanged, and therefore the
model of `labeled_sum` run with the addition `rnd (a + r)` in that format on data `k_i / 2^s` returns in slot `l` exactly
`(Σ k_i) / 2^s` — the harness' oracle — whenever every partial sum (scan order) of the integers labelled `l` has magnitude at
most `2^p` (the judge masks a float32 slot whose `Σ |k_i|` exceeds `2^24`; the generator stays far below). -/
theorem C13_labeled_sum_rounded_exact_any_precision (p : ℕ) (hp : 1 ≤ p) (nr : ℚ → ℤ)
    (hn : ∀ y, |(nr y : ℚ) - y| ≤ 1 / 2) (s : ℕ) (n : Nat) (data labels : List Int) (l : Nat) (hl : l < n)
    (hb : ∀ pre a rest, valuesOf (data.zip labels) (l : Int) = pre ++ a :: rest →
      |((a + pre.sum : Int) : ℚ)| ≤ 2 ^ p) :
    ExactDyadicB (rndBinP p nr) s (2 ^ p) ∧
    (sumRounded (rndBinP p nr) n ((data.map (dy s)).zip labels))[l]? =
      some (dy s (valuesOf (data.zip labels) (l : Int)).sum) ∧
    (sumRounded (rndBinP p nr) n ((data.map (dy s)).zip labels))[l]? =
      ((foldSpec false "sum" n (data.zip labels)).map (dy s))[l]? :=
  ⟨exactDyadicB_rndBinP p hp nr hn s,
   sumRounded_exactB _ s _ (exactDyadicB_rndBinP p hp nr hn s) n data labels l hl hb⟩

/-! non-vacuity: binary32 with ties-to-even leaves `5/8` and `-(2^24)/8` unchanged -/
example : rndBinP 24 roundEven ((5 : ℤ) / 2 ^ 3) = (5 : ℤ) / 2 ^ 3 ∧
    rndBinP 24 roundEven (((-(2 ^ 24) : ℤ) : ℚ) / 2 ^ 3) = ((-(2 ^ 24) : ℤ) : ℚ) / 2 ^ 3 :=
  ⟨exactDyadicB_rndBinP 24 (by norm_num) roundEven roundEven_near 3 5 (by norm_num),
   exactDyadicB_rndBinP 24 (by norm_num) roundEven roundEven_near 3 (-(2 ^ 24)) (by norm_num)⟩

/-! non-vacuity: binary64 `roundTiesToEven` on the harness' scale (`k/8`), label 1 of a three-pixel image: the rounded
    fold returns exactly `(3 - 5)/8` -/
example : (sumRounded rne53 2 (([3, -5, 12].map (dy 3)).zip [1, 1, 0]))[1]? = some (dy 3 (-2)) := by
  have h := (C13_labeled_sum_rounded_exact_of_abs_sum rne53 3 (exactDyadic_rne53 3) 2 [3, -5, 12] [1, 1, 0] 1
    (by decide) (by
      have : valuesOf (([3, -5, 12] : List Int).zip [1, 1, 0]) ((1 : Nat) : Int) = [3, -5] := by decide
      rw [this]; norm_num)).1
  have hv : valuesOf (([3, -5, 12] : List Int).zip [1, 1, 0]) ((1 : Nat) : Int) = [3, -5] := by decide
  rw [hv] at h
  exact h

/-! ## Round 4 — `labeled.perimeter` -/

/-- **C13 (labeled.perimeter, the discrete part).** For a 2-D image with non-empty axes (any border mode and element handed
to `bwperim`): the model of `perimeter` — `bwperim` through `fix_offset`, the 3×3 convolution with the mask
`[[10,2,10],[2,1,2],[10,2,10]]` in `reflect` mode, `fullhistogram` (`max + 1` bins) and the sums of the first 34 bins per
weight of the table `_perimeter_values` — yields exactly the numbers `[n1, n2, n3]` of perimeter pixels (per the proved
`bwperimSpec`) that the direct rule classifies as weight 1 (`a ∈ {2,3}` edge neighbours on the perimeter and `d ≤ 2` diagonal
ones), weight √2 (`(a,d) ∈ {(0,2),(1,3)}`) and weight (1+√2)/2 (`a = 1`, `d ∈ {1,2}`), neighbours taken by the mathematical
`reflect` rule; every other pixel has weight 0 (in particular bins ≥ 34 — e.g. `a = 2, d = 3` — are dropped by the code).
The returned float is `n1 + n2·√2 + n3·(1+√2)/2` evaluated in double (compared with a tolerance by the harness). -/
theorem C13_perimeter_counts_spec (m : Mode) (shape : List Nat) (bw : List Int) (offs : List (List Int))
    (hs : ∀ d ∈ shape, 0 < d) : perimeterCounts m shape bw offs = perimeterCountsSpec m shape bw offs :=
  perimeterCounts_eq_spec m shape bw offs hs

/-- **C13 (labeled.perimeter, the weight table).** Every histogram bin `c + 2a + 10d` the convolution can produce (`c ≤ 1`
centre, `a ≤ 4` edge and `d ≤ 4` diagonal neighbours on the perimeter; the decomposition is unique because `c + 2a ≤ 9`) has
in the code's table `[5,7,15,17,25,27] ↦ 1, [21,33] ↦ √2, [13,23] ↦ (1+√2)/2` exactly the class of the direct rule on
`(c, a, d)`; a pixel off the perimeter (`c = 0`) never counts. -/
theorem C13_perimeter_class_table (c a d : Nat) (hc : c ≤ 1) (ha : a ≤ 4) (hd : d ≤ 4) :
    perimClass (c + 2 * a + 10 * d) = perimClassAD c a d ∧ perimClassAD 0 a d = 0 :=
  ⟨perimClass_AD c a d hc ha hd, by unfold perimClassAD; simp⟩

/-! non-vacuity: the table, the mask, and two small images (a 2 × 2 anti-diagonal pair seen through `reflect`; the centre of a 3 × 3 diagonal) -/
example : perimClassAD 1 2 0 = 1 ∧ perimClassAD 1 1 3 = 2 ∧ perimClassAD 1 1 2 = 3 ∧ perimClassAD 1 2 3 = 0 ∧
    perimClass 33 = 2 ∧ perimClass 35 = 0 ∧ perimMagic [1, -1] = 10 ∧ perimMagic [0, 1] = 2 ∧ perimMagic [0, 0] = 1 ∧
    perimAt [2, 2] [true, false, false, true] 0 [1, 1] = 1 ∧ perimAt [2, 2] [true, false, false, true] 0 [-1, -1] = 1 ∧
    perimCls [2, 2] [true, false, false, true] 0 = 1 ∧ perimCls [3, 3] [true, false, false, false, true, false, false, false, true] 4 = 2 := by
  decide
