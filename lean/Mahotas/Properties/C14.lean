/-
C14 — property theorems (statements only; helper lemmas live in `Proofs/C14*.lean`).
-/
import Mahotas.Proofs.C14
import Mahotas.Proofs.C14Holes
import Mahotas.Proofs.C14Reg
import Mahotas.Proofs.StarCheck
import Mahotas.Proofs.C14Families
import Mahotas.Proofs.C14Hitmiss
import Mahotas.Proofs.C14Centre
import Mahotas.Proofs.C14RegSpec
import Mahotas.Proofs.C14HolesSpec
import Mahotas.Proofs.C14Order
import Mahotas.Proofs.C01Dispatch
open Mahotas Mahotas.C14

/-- **C14-T1 (local extrema).** For every image of every rank and shape, every pixel `p` inside it and
every neighbourhood (centre removed) that is coordinate-wise star-shaped — the centred cross and
every centred box are — the model of `locmin_max` (neighbours read through
`fix_offset(ExtendNearest)`, i.e. clamped onto the image) marks `p` exactly when no neighbour
*inside the image* exceeds it (`isMin = false`, `locmax`) / undercuts it (`isMin = true`, `locmin`):
clamping is unobservable because a clamped neighbour is the pixel itself or a genuine neighbour. -/
theorem C14_locmax_eq_spec (isMin : Bool) (A : Img Int) (nb : List (List Int)) (p : List Int)
    (hp : inside A.shape p = true) (hlen : ∀ k ∈ nb, k.length = p.length) (hstar : StarShaped nb) :
    locAt isMin A nb p = locSpecAt isMin A nb p :=
  locAt_eq_spec isMin A nb p hp hlen hstar

/-- **C14-T2 (regional ⊆ local), unconditional.** Whatever the image, the neighbourhood and the
order in which the flood visits pixels: every pixel marked by the model of `regmax`/`regmin`
(`locmin_max` followed by `remove_fake_regmin_max`) is marked by the model of `locmax`/`locmin`,
because the removal pass only ever clears marks. -/
theorem C14_regional_subset_local (isMin : Bool) (A : Img Int) (nb : List (List Int)) (i : Nat)
    (h : (regModel isMin A nb).getD i false = true) : (locModel isMin A nb).getD i false = true :=
  removeFake_sub isMin A nb (locModel isMin A nb) i h

/-- **C14-T2 (regional extrema = plateaus without a strictly better neighbour).** For every image of
every rank and shape, every neighbourhood (centre removed) that is symmetric (`SymNb`: with `k` also
`−k`, offsets of the rank of the image) and coordinate-wise star-shaped — cross and box are — and
every pixel `q` inside the image: the model of `regmax`/`regmin` (`locmin_max`, then the scan of
`remove_fake_regmin_max` with its stack flood through marked pixels) marks `q` exactly when **every**
pixel `r` of the plateau of `q` (`PConn`: reached from `q` by neighbourhood steps between pixels of
equal value inside the image) has no neighbour inside the image that is strictly higher
(`isMin = false`) / strictly lower (`isMin = true`). Ties between plateaus, plateaus touching the
border and any scan/stack order are covered. -/
theorem C14_regional_eq_spec (isMin : Bool) (A : Img Int) (nb : List (List Int)) (hn : SymNb A nb)
    (hstar : StarShaped nb) (q : List Int) (hq : inside A.shape q = true) :
    (regModel isMin A nb).getD (ravelI A.shape q) false = true ↔ Regional isMin A nb q :=
  regModel_spec hn hstar q hq

/-- **C14-T4 (hit-or-miss = its definition).** For every image, every template whose sides are all
odd (any rank ≥ 1, template of the rank of the image) and every position `p`: the model of
`hitmiss` (border skipping through the `slack` counter, then the conjunction over the entries
different from 2) is 1 exactly when the whole template lies inside the image and every 0/1 entry
equals the pixel under it. -/
theorem C14_hitmiss_eq_spec (A : Img Int) (bshape : List Nat) (bc : Array Int) (p : List Int)
    (hodd : ∀ b ∈ bshape, b % 2 = 1) (hne : A.shape ≠ [])
    (hl1 : bshape.length = A.shape.length) (hl2 : p.length = A.shape.length) :
    hitmissAt A bshape (hmEntries bshape bc) p = hitmissSpecAt A bshape bc p := by
  unfold hitmissAt hitmissSpecAt
  rw [hmEvaluated_eq_inside A.shape bshape p hodd hne hl1 hl2, hmEntries_all]
  cases templateInside A.shape bshape p <;> simp

/-- **C14-T4 (the shuffle is unobservable).** The C++ shuffles the list of tested entries with a
fixed-seed `mt19937` before scanning; the model's answer is the same for *every* permutation of
that list (a conjunction does not depend on the order of evaluation). -/
theorem C14_hitmiss_order_irrelevant (A : Img Int) (bshape : List Nat)
    (es es' : List (List Int × Int)) (hperm : es.Perm es') (p : List Int) :
    hitmissAt A bshape es p = hitmissAt A bshape es' p := by
  unfold hitmissAt
  rw [hperm.all_eq]

/-- **F14 (flood fill = reachability).** For every shape, neighbourhood, initial flag array and
initial stack whose own flags are already cleared: with fuel at least `|stack| + #set flags` the
stack flood shared by `remove_fake_regmin_max` and `close_holes` ends with exactly those flags
cleared that belong to pixels reachable from the stack by steps `p ↦ p + k` through pixels inside
the image whose flag was set — it takes every such pixel, takes nothing else, and the fuel is
never exhausted (each pop is paid for by one stack entry or one set flag). -/
theorem C14_flood_reachability (c : Ctx) (fuel : Nat) (hfuel : c.stack0.length + cnt c.avail0 ≤ fuel)
    (h0 : ∀ p ∈ c.stack0, c.fl c.avail0 p = false) (q : List Int) (hq : inside c.shape q = true) :
    c.fl (flood c.shape c.nb fuel c.avail0 c.stack0) q = true ↔
      (c.fl c.avail0 q = true ∧ ¬ Reach c q) :=
  flood_final c fuel hfuel h0 q hq

/-- **C14-T3 (hole closing).** For every image (any rank the model is given, any shape, `data` of the
size of the shape), every neighbourhood and every pixel `q` inside the image: the model of
`close_holes` (seed the background pixels of the border, flood through background pixels, complement)
is true at `q` exactly when `q` is **not** a background pixel connected to the image border
(`BorderConn`: a background border pixel, or reached from one by neighbourhood steps through
background pixels inside the image). In particular every foreground pixel stays set and exactly the
enclosed background is filled. -/
theorem C14_close_holes_eq_spec (ref : Img Int) (nb : List (List Int))
    (hwf : ref.data.size = shapeSize ref.shape) (q : List Int) (hq : inside ref.shape q = true) :
    (closeHoles ref nb).getD (ravelI ref.shape q) false = true ↔ ¬ BorderConn ref nb q :=
  closeHoles_spec ref nb hwf q hq

/-- the Boolean checks `starShapedB` / `symNbB` (enumerate every offset between 0 and each member) are
sound for the hypotheses `StarShaped` and `SymNb` of the theorems above: for a concrete neighbourhood
they are discharged by `decide`. -/
theorem C14_star_sym_check (A : Img Int) (nb : List (List Int))
    (h1 : starShapedB nb = true) (h2 : symNbB A.shape.length nb = true) : StarShaped nb ∧ SymNb A nb :=
  ⟨starShaped_of_check nb h1, symNb_of_check A nb h2⟩

/-! the neighbourhoods of the property's quantifier pass the checks: crosses and boxes in 1, 2 and 3 D -/
example : starShapedB (neighbours [3] #[1, 1, 1]) = true ∧ symNbB 1 (neighbours [3] #[1, 1, 1]) = true := by decide
example : starShapedB (neighbours [3, 3] #[0, 1, 0, 1, 1, 1, 0, 1, 0]) = true ∧
    symNbB 2 (neighbours [3, 3] #[0, 1, 0, 1, 1, 1, 0, 1, 0]) = true := by decide
example : starShapedB (neighbours [3, 3] #[1, 1, 1, 1, 1, 1, 1, 1, 1]) = true ∧
    symNbB 2 (neighbours [3, 3] #[1, 1, 1, 1, 1, 1, 1, 1, 1]) = true := by decide
example : starShapedB (neighbours [3, 3, 3] (C01.crossElem 3 1)) = true ∧
    symNbB 3 (neighbours [3, 3, 3] (C01.crossElem 3 1)) = true := by decide
example : starShapedB (neighbours [3, 3, 3] (Array.replicate 27 1)) = true ∧
    symNbB 3 (neighbours [3, 3, 3] (Array.replicate 27 1)) = true := by decide

/-! non-vacuity: the 2-D cross (centre removed) is star-shaped, and a 2×3 image with a plateau
    touching the border and a tie between two plateaus meets every hypothesis of `C14_locmax_eq_spec`;
    the regional maxima are a strict subset of the local ones there. -/
example : StarShaped (neighbours [3, 3] #[0, 1, 0, 1, 1, 1, 0, 1, 0]) := by
  intro k hk k' hb
  have hk' : k = [-1, 0] ∨ k = [0, -1] ∨ k = [0, 1] ∨ k = [1, 0] := by
    have : neighbours [3, 3] #[0, 1, 0, 1, 1, 1, 0, 1, 0] = [[-1, 0], [0, -1], [0, 1], [1, 0]] := by decide
    rw [this] at hk; simpa using hk
  have hn : neighbours [3, 3] #[0, 1, 0, 1, 1, 1, 0, 1, 0] = [[-1, 0], [0, -1], [0, 1], [1, 0]] := by decide
  rw [hn]
  match k', hb with
  | [a, b], hb =>
    rcases hk' with rfl | rfl | rfl | rfl <;>
    · simp only [C01.between, Bool.and_true, Bool.and_eq_true, Bool.or_eq_true, decide_eq_true_eq] at hb
      have ha : a = -1 ∨ a = 0 ∨ a = 1 := by omega
      have hb' : b = -1 ∨ b = 0 ∨ b = 1 := by omega
      rcases ha with rfl | rfl | rfl <;> rcases hb' with rfl | rfl | rfl <;> first | omega | decide
  | [], hb => rcases hk' with rfl | rfl | rfl | rfl <;> simp [C01.between] at hb
  | [_], hb => rcases hk' with rfl | rfl | rfl | rfl <;> simp [C01.between] at hb
  | _ :: _ :: _ :: _, hb => rcases hk' with rfl | rfl | rfl | rfl <;> simp [C01.between] at hb

example :
    let A : Img Int := { shape := [2, 3], data := #[2, 2, 1, 0, 1, 2] }
    let nb := neighbours [3, 3] #[0, 1, 0, 1, 1, 1, 0, 1, 0]
    (locModel false A nb).toList = [true, true, false, false, false, true] ∧
    (regModel false A nb).toList = [true, true, false, false, false, true] ∧
    (regModel false { shape := [1, 4], data := #[1, 1, 2, 0] } (neighbours [1, 3] #[1, 1, 1])).toList
      = [false, false, true, false] ∧
    (locModel false { shape := [1, 4], data := #[1, 1, 2, 0] } (neighbours [1, 3] #[1, 1, 1])).toList
      = [true, false, true, false] := by
  decide

/-! the 2-D cross is a symmetric neighbourhood of a 2×3 image -/
example : SymNb { shape := [2, 3], data := #[2, 2, 1, 0, 1, 2] } (neighbours [3, 3] #[0, 1, 0, 1, 1, 1, 0, 1, 0]) :=
  ⟨by decide, by decide⟩

/-! non-vacuity for hit-or-miss and hole closing: a 3×3 ring is closed, the template matches once. -/
example :
    let A : Img Int := { shape := [3, 3], data := #[1, 1, 1, 1, 0, 1, 1, 1, 1] }
    (closeHoles A (neighbours [3, 3] #[0, 1, 0, 1, 1, 1, 0, 1, 0])).toList = List.replicate 9 true ∧
    (allPos A.shape).map (hitmissAt A [3, 3] (hmEntries [3, 3] #[2, 1, 2, 1, 0, 1, 2, 1, 2]))
      = [0, 0, 0, 0, 1, 0, 0, 0, 0] := by
  decide

/-! ## Round 2 — the neighbourhood hypotheses proved for whole families

`C01.CrossBoxDisk d S bc` (`Proofs/C02Families.lean`, spelled out in `C02_cross_box_disk_family`): `(S, bc)` is
`crossElem d r` on the shape `3 × … × 3` (what `get_structuring_elem` builds; any radius), `diskElem d r` on
`(2r+1) × … × (2r+1)` (any radius), or an all-ones box of rank `d` with arbitrary odd sides.
`neighbours S bc` is the list the driver hands to the kernels' models (non-zero entries, centre removed). -/

/-- **`StarShaped` and `SymNb` for every cross, box and disk.** For every rank `d`, every radius and every
odd box shape, the neighbourhood list the driver builds from a cross `crossElem d r`, a disk `diskElem d r`
or an all-ones odd box is coordinate-wise star-shaped (hypothesis of `C14_locmax_eq_spec` and
`C14_regional_eq_spec`), consists of offsets of length `d`, is closed under negation, hence is a symmetric
neighbourhood (`SymNb`) of **every** image of rank `d`; and it is exactly the set of non-centre offsets of the
compressed support of C01/C02 (all of height 1). -/
theorem C14_cross_box_star_sym (d : Nat) (S : List Nat) (bc : Array Int) (h : C01.CrossBoxDisk d S bc) :
    StarShaped (neighbours S bc) ∧
    (∀ k ∈ neighbours S bc, k.length = d) ∧
    (∀ k ∈ neighbours S bc, negPos k ∈ neighbours S bc) ∧
    (∀ A : Img Int, A.shape.length = d → SymNb A (neighbours S bc)) ∧
    (∀ k, k ∈ neighbours S bc ↔ (k, (1 : Int)) ∈ C01.support S bc true ∧ isZeroPos k = false) := by
  have hr := h.regular
  refine ⟨starShaped_family hr, neighbours_len hr, ?_, fun A hd => symNb_family hr A hd, ?_⟩
  · intro k hk
    exact (symNb_family hr { shape := List.replicate d 1, data := #[] } (by simp)).neg k hk
  · intro k
    rw [mem_neighbours]
    constructor
    · rintro ⟨⟨kh, hkh, rfl⟩, hz⟩
      have : kh = (kh.1, 1) := Prod.ext rfl (hr.ones kh hkh)
      rw [← this]; exact ⟨hkh, hz⟩
    · rintro ⟨hk, hz⟩; exact ⟨⟨(k, 1), hk, rfl⟩, hz⟩

/-- **local extrema with any cross / box / disk = their definition**, with no hypothesis on the
neighbourhood: for every image of every rank and shape, every pixel `p` inside it and the neighbourhood of any
`crossElem`, `diskElem` (every radius) or all-ones odd box of the rank of the image, the model of
`locmin_max` marks `p` exactly when no neighbour inside the image exceeds / undercuts it; consequently the
whole output array of the model is the specification's (the two lists the driver prints). -/
theorem C14_locmax_eq_spec_cross_box_disk (isMin : Bool) (A : Img Int) (S : List Nat) (bc : Array Int)
    (hfam : C01.CrossBoxDisk A.shape.length S bc) :
    (∀ p, inside A.shape p = true →
      locAt isMin A (neighbours S bc) p = locSpecAt isMin A (neighbours S bc) p) ∧
    (locModel isMin A (neighbours S bc)).toList =
      (allPos A.shape).map (locSpecAt isMin A (neighbours S bc)) := by
  have hr := hfam.regular
  have key : ∀ p, inside A.shape p = true →
      locAt isMin A (neighbours S bc) p = locSpecAt isMin A (neighbours S bc) p := by
    intro p hp
    refine locAt_eq_spec isMin A _ p hp ?_ (starShaped_family hr)
    intro k hk
    rw [neighbours_len hr k hk, C01.inside_length hp]
  refine ⟨key, ?_⟩
  unfold locModel
  rw [List.toList_toArray]
  exact List.map_congr_left fun p hp => key p ((C01.mem_allPos A.shape p).mp hp)

/-- **regional extrema with any cross / box / disk = plateaus without a strictly better neighbour**, with no
hypothesis on the neighbourhood: for every image of every rank and shape, every pixel `q` inside it and the
neighbourhood of any `crossElem`, `diskElem` (every radius) or all-ones odd box of the rank of the image, the
model of `regmax`/`regmin` marks `q` exactly when every pixel of the plateau of `q` has no strictly better
neighbour inside the image (`Regional`). -/
theorem C14_regional_eq_spec_cross_box_disk (isMin : Bool) (A : Img Int) (S : List Nat) (bc : Array Int)
    (hfam : C01.CrossBoxDisk A.shape.length S bc) (q : List Int) (hq : inside A.shape q = true) :
    (regModel isMin A (neighbours S bc)).getD (ravelI A.shape q) false = true ↔
      Regional isMin A (neighbours S bc) q :=
  regModel_spec (symNb_family hfam.regular A rfl) (starShaped_family hfam.regular) q hq

/-! non-vacuity of Round 2: the 3-D cross of radius 2 (18 neighbours), the radius-2 disk (8 neighbours) and
    the 5×3 box (14 neighbours) are instances; the corollaries apply to the 2×3 image with a plateau
    touching the border used above, with no further hypothesis on the neighbourhood. -/
example : StarShaped (neighbours [3, 3, 3] (C01.crossElem 3 2)) ∧
    (neighbours [3, 3, 3] (C01.crossElem 3 2)).length = 18 :=
  ⟨(C14_cross_box_star_sym 3 _ _ (Or.inl ⟨2, rfl, rfl⟩)).1, by decide⟩
example : StarShaped (neighbours [5, 5] (C01.diskElem 2 2)) ∧
    (neighbours [5, 5] (C01.diskElem 2 2)).length = 8 :=
  ⟨(C14_cross_box_star_sym 2 _ _ (Or.inr (Or.inl ⟨2, rfl, rfl⟩))).1, by decide⟩
example : SymNb { shape := [2, 3], data := #[2, 2, 1, 0, 1, 2] } (neighbours [5, 3] (Array.replicate 15 1)) ∧
    (neighbours [5, 3] (Array.replicate 15 1)).length = 14 :=
  ⟨(C14_cross_box_star_sym 2 _ _ (Or.inr (Or.inr ⟨rfl, by decide, by decide⟩))).2.2.2.1 _ rfl, by decide⟩

example :
    let A : Img Int := { shape := [2, 3], data := #[2, 2, 1, 0, 1, 2] }
    (locModel false A (neighbours [3, 3] (C01.crossElem 2 1))).toList =
      (allPos A.shape).map (locSpecAt false A (neighbours [3, 3] (C01.crossElem 2 1))) ∧
    ((regModel false A (neighbours [3, 3] (C01.crossElem 2 1))).getD (ravelI A.shape [0, 1]) false = true ↔
      Regional false A (neighbours [3, 3] (C01.crossElem 2 1)) [0, 1]) ∧
    (regModel false A (neighbours [3, 3] (C01.crossElem 2 1))).toList = [true, true, false, false, false, true] := by
  intro A
  exact ⟨(C14_locmax_eq_spec_cross_box_disk false A [3, 3] (C01.crossElem 2 1) (Or.inl ⟨1, rfl, rfl⟩)).2,
    C14_regional_eq_spec_cross_box_disk false A [3, 3] (C01.crossElem 2 1) (Or.inl ⟨1, rfl, rfl⟩) [0, 1]
      (by decide), by decide⟩

/-! ## Round 4 — every template shape for `hitmiss`, the centre entry of `Bc`, boxes with even sides,
arbitrary neighbourhoods, the executable `regSpec`, plateaus of global extrema -/

/-- **`hitmiss` in closed form for every template shape** (odd sides, even sides, templates larger than
the image; any rank ≥ 1): the model of the kernel — the `slack` border skipping and the conjunction over
the entries different from 2 — is 1 at `p` exactly when (a) the whole template lies inside the image when
centred at `p` (centre `⌊b/2⌋` on every axis), (b) `p` is not skipped by the even-side rule
`hmEvenExcluded`: on an axis with an even side `b`, the **last** axis evaluates every fitting position unless
the image side equals `b` (then none), every **other** axis rejects the last fitting position `n − b/2`,
and (c) every 0/1 entry equals the pixel under it. This is `hitmissClosedAt`, which the driver prints next to
the model. -/
theorem C14_hitmiss_even_closed_form (A : Img Int) (bshape : List Nat) (bc : Array Int) (p : List Int)
    (hpos : ∀ b ∈ bshape, 0 < b) (hne : A.shape ≠ [])
    (hl1 : bshape.length = A.shape.length) (hl2 : p.length = A.shape.length) :
    hitmissAt A bshape (hmEntries bshape bc) p = hitmissClosedAt A bshape bc p := by
  unfold hitmissAt hitmissClosedAt
  rw [hmEvaluated_closed A.shape bshape p hpos hne hl1 hl2, hmEntries_all]
  cases (templateInside A.shape bshape p && !hmEvenExcluded A.shape bshape p) <;> simp

/-- the closed form is the property's definition when every template side is odd (nothing is skipped). -/
theorem C14_hitmiss_closed_form_odd (A : Img Int) (bshape : List Nat) (bc : Array Int) (p : List Int)
    (hodd : ∀ b ∈ bshape, b % 2 = 1) : hitmissClosedAt A bshape bc p = hitmissSpecAt A bshape bc p := by
  unfold hitmissClosedAt hitmissSpecAt
  rw [hmEvenExcluded_odd A.shape bshape p hodd]; simp

/-- **a template that does not fit gives the all-zero answer.** If on some axis `i` the template side exceeds
the image side — or equals it and is even — then the model of `hitmiss` is 0 at **every** position, whatever
the entries and the order in which they are tested (no hypothesis on ranks or on `p`). -/
theorem C14_hitmiss_template_larger_is_false (A : Img Int) (bshape : List Nat) (es : List (List Int × Int))
    (p : List Int) (i : Nat) (hi : i < A.shape.length)
    (h : A.shape.getD i 0 < bshape.getD i 0 ∨
         (A.shape.getD i 0 = bshape.getD i 0 ∧ bshape.getD i 0 % 2 = 0)) :
    hitmissAt A bshape es p = 0 := by
  unfold hitmissAt
  rw [hmEvaluated_false_of_small A.shape bshape p i hi (by omega)]; rfl

/-- **`_remove_centre` and the C++ centre skipping, as the driver runs them.** `locModelRaw` / `regModelRaw`
take the structuring element **as given**: `removeCentre` clears the entry at `tuple(s//2)` (Python), the
local pass runs over the compressed footprint `rawOffsets` of what is left, the removal pass over the C++
`neighbours(Bc)`. They equal the models on the neighbour list `neighbours S bc` that all other theorems of
this file talk about — so those theorems are about what the driver runs. -/
theorem C14_remove_centre_model (isMin : Bool) (A : Img Int) (S : List Nat) (bc : Array Int) :
    rawOffsets S (removeCentre S bc) = neighbours S bc ∧
    neighbours S (removeCentre S bc) = neighbours S bc ∧
    locModelRaw isMin A S bc = locModel isMin A (neighbours S bc) ∧
    regModelRaw isMin A S bc = regModel isMin A (neighbours S bc) :=
  ⟨rawOffsets_removeCentre S bc, neighbours_removeCentre S bc, locModelRaw_eq isMin A S bc,
    regModelRaw_eq isMin A S bc⟩

/-- **the centre entry of `Bc` is irrelevant.** For every image, every structuring element of every shape
(even sides and `1`-sides included) and **every** value `v` written at the centre entry
`Bc[tuple(s//2 for s in Bc.shape)]`: the models of `locmax`/`locmin` and of `regmax`/`regmin` on the element
as given return the same array, and so does the neighbour list `close_holes` floods with. -/
theorem C14_remove_centre_irrelevant (isMin : Bool) (A : Img Int) (S : List Nat) (bc : Array Int) (v : Int) :
    locModelRaw isMin A S (bc.setIfInBounds (ravelI S (centreOf S)) v) = locModelRaw isMin A S bc ∧
    regModelRaw isMin A S (bc.setIfInBounds (ravelI S (centreOf S)) v) = regModelRaw isMin A S bc ∧
    closeHoles A (neighbours S (bc.setIfInBounds (ravelI S (centreOf S)) v)) = closeHoles A (neighbours S bc) := by
  rw [locModelRaw_eq, locModelRaw_eq, regModelRaw_eq, regModelRaw_eq, neighbours_setCentre]
  exact ⟨rfl, rfl, rfl⟩

/-- **the Python `_remove_centre` is itself unobservable**: had the centre been left set, the kernel would
read the pixel itself through the zero offset, and a pixel does not beat itself. For every pixel inside
the image and every element of the rank of the image, the local pass over the *uncleared* footprint
answers as over the neighbour list. -/
theorem C14_remove_centre_unobservable (isMin : Bool) (A : Img Int) (S : List Nat) (bc : Array Int)
    (p : List Int) (hp : inside A.shape p = true) (hS : S.length = A.shape.length) :
    locAt isMin A (rawOffsets S bc) p = locAt isMin A (neighbours S bc) p :=
  locAt_rawOffsets isMin A S bc p hp hS

/-- **local extrema with an all-ones box of arbitrary sides (even sides included) = their definition.**
A box with an even side is not symmetric (its centre `⌊b/2⌋` is off-centre) but it is coordinate-wise
star-shaped; hence for every rank, every image, every all-ones box of the rank of the image — sides 1, 2, 3,
4, … in any combination — the model of `locmax`/`locmin` on the element as given marks exactly the pixels
that no neighbour inside the image exceeds / undercuts, pixel by pixel and as whole output arrays (the two
lists the driver prints). -/
theorem C14_locmax_eq_spec_any_box (isMin : Bool) (A : Img Int) (S : List Nat) (bc : Array Int)
    (hrank : S.length = A.shape.length) (hones : ∀ i, i < shapeSize S → bc.getD i 0 = 1) :
    StarShaped (neighbours S bc) ∧
    (∀ p, inside A.shape p = true →
      locAt isMin A (neighbours S bc) p = locSpecAt isMin A (neighbours S bc) p) ∧
    (locModelRaw isMin A S bc).toList = (allPos A.shape).map (locSpecAt isMin A (neighbours S bc)) := by
  have hstar := starShaped_box S bc hones
  have key : ∀ p, inside A.shape p = true →
      locAt isMin A (neighbours S bc) p = locSpecAt isMin A (neighbours S bc) p := by
    intro p hp
    refine locAt_eq_spec isMin A _ p hp ?_ hstar
    intro k hk
    rw [neighbours_box_len S bc hones k hk, hrank, C01.inside_length hp]
  refine ⟨hstar, key, ?_⟩
  rw [locModelRaw_eq]
  unfold locModel
  rw [List.toList_toArray]
  exact List.map_congr_left fun p hp => key p ((C01.mem_allPos A.shape p).mp hp)

/-- **arbitrary (irregular) neighbourhoods: what `locmax`/`locmin` compute.** For every non-empty image and
**every** list of offsets — not star-shaped, not symmetric, of any size — the model of `locmin_max`
(neighbours read through `fix_offset(ExtendNearest)`) marks `p` exactly when no value at a neighbour
position *clamped onto the image coordinate by coordinate* (`max 0 (min x (n−1))`) beats the pixel
(`locClampedSpecAt`, printed by the driver as `cspec`): the irregular cases of the correspondence are judged
against this specification. -/
theorem C14_locmax_clamped_spec (isMin : Bool) (A : Img Int) (nb : List (List Int)) (p : List Int)
    (hs : ∀ d ∈ A.shape, 0 < d) : locAt isMin A nb p = locClampedSpecAt isMin A nb p :=
  locAt_eq_clamped isMin A nb p hs

/-- **the executable specification `regSpec` = `Regional`.** The driver prints, next to the model of
`regmax`/`regmin`, the array `regSpec`: start from the pixels with a strictly better neighbour inside the
image and repeat `size` times "a pixel is rejected when an equal-valued neighbour (either direction) is
rejected". For every image of every rank and shape and every symmetric neighbourhood: (1) `size` rounds
always reach the fixed point — one more round changes nothing (`regSpecFixed`, which the driver also evaluates
and prints as `fix=1`): the rounds only ever set flags, a round that changes the array sets at least one more
of its `size` flags; (2) the accepted pixels are exactly the regional ones (`Regional`: every pixel of the
plateau has no strictly better neighbour inside the image). Together with `C14_regional_eq_spec` the two arrays
the driver prints for `reg` are equal for symmetric star-shaped neighbourhoods — by two different algorithms
(stack flood vs. fixed-point iteration). -/
theorem C14_regspec_eq_regional (isMin : Bool) (A : Img Int) (nb : List (List Int)) (hn : SymNb A nb) :
    regSpecFixed isMin A nb = true ∧
    ∀ q, inside A.shape q = true →
      ((regSpec isMin A nb).getD (ravelI A.shape q) false = true ↔ Regional isMin A nb q) :=
  ⟨regSpecFixed_always isMin, fun q hq => regSpec_iff hn (regSpecFixed_always isMin) q hq⟩

/-- **plateaus of global extrema are marked, wherever they lie** (specialising `C14_regional_eq_spec`): for
every cross / disk / odd box of the rank of the image and every pixel `q` inside the image whose value no
pixel of the image exceeds (`regmax`) / undercuts (`regmin`), the model of `regmax`/`regmin` on the element as
given marks `q` — in particular plateaus touching the border or a corner, several tied plateaus of the
maximal value, and every pixel of a constant image. -/
theorem C14_regmax_marks_global_extrema (isMin : Bool) (A : Img Int) (S : List Nat) (bc : Array Int)
    (hfam : C01.CrossBoxDisk A.shape.length S bc) (q : List Int) (hq : inside A.shape q = true)
    (hg : ∀ r, inside A.shape r = true → beats isMin (A.getD r 0) (A.getD q 0) = false) :
    (regModelRaw isMin A S bc).getD (ravelI A.shape q) false = true := by
  rw [regModelRaw_eq]
  exact (C14_regional_eq_spec_cross_box_disk isMin A S bc hfam q hq).mpr (regional_of_global q hg)

/-! non-vacuity of Round 4 -/

/-- 2×2 template on a 3×3 image: the template fits at rows/columns 1..2; the first axis rejects row 2 (the
    last fitting position), the last axis keeps both columns → positions (1,1), (1,2) are evaluated. -/
example :
    let A : Img Int := { shape := [3, 3], data := #[1, 1, 1, 1, 1, 1, 1, 1, 1] }
    (allPos A.shape).map (hitmissAt A [2, 2] (hmEntries [2, 2] #[1, 1, 1, 1])) = [0, 0, 0, 0, 1, 1, 0, 0, 0] ∧
    (allPos A.shape).map (hitmissClosedAt A [2, 2] #[1, 1, 1, 1]) = [0, 0, 0, 0, 1, 1, 0, 0, 0] ∧
    (allPos A.shape).map (hitmissSpecAt A [2, 2] #[1, 1, 1, 1]) = [0, 0, 0, 0, 1, 1, 0, 1, 1] := by decide

/-- a 1×4 template on a 2×3 image (larger on the last axis), a 2-template on a 2-image (even, equal) -/
example : hitmissAt { shape := [2, 3], data := #[1, 1, 1, 1, 1, 1] } [1, 4] [] [0, 1] = 0 :=
  C14_hitmiss_template_larger_is_false _ _ _ _ 1 (by decide) (Or.inl (by decide))
example : hitmissAt { shape := [2], data := #[1, 1] } [2] [] [1] = 0 :=
  C14_hitmiss_template_larger_is_false _ _ _ _ 0 (by decide) (Or.inr (by decide))

/-- centre set / cleared / set to 7: same neighbour list; 2×2 all-ones box (even sides): neighbours
    (-1,-1), (-1,0), (0,-1), star-shaped but not symmetric -/
example : neighbours [3] #[1, 1, 1] = [[-1], [1]] ∧ rawOffsets [3] #[1, 1, 1] = [[-1], [0], [1]] ∧
    rawOffsets [3] (removeCentre [3] #[1, 1, 1]) = [[-1], [1]] ∧
    neighbours [2, 2] #[1, 1, 1, 1] = [[-1, -1], [-1, 0], [0, -1]] ∧
    symNbB 2 (neighbours [2, 2] #[1, 1, 1, 1]) = false := by decide

example :
    let A : Img Int := { shape := [2, 3], data := #[2, 2, 1, 0, 1, 2] }
    (locModelRaw false A [2, 2] #[1, 1, 1, 1]).toList = (allPos A.shape).map (locSpecAt false A (neighbours [2, 2] #[1, 1, 1, 1])) ∧
    (locModelRaw false A [2, 2] #[1, 1, 1, 1]).toList = [true, true, false, false, false, true] :=
  ⟨(C14_locmax_eq_spec_any_box false _ [2, 2] #[1, 1, 1, 1] rfl (by decide)).2.2, by decide⟩

/-- an irregular neighbourhood (offset (0,2) without (0,1)): model = clamped specification ≠ `locSpecAt` -/
example :
    let A : Img Int := { shape := [1, 3], data := #[0, 1, 5] }
    (allPos A.shape).map (locAt false A [[0, 2]]) = [false, false, true] ∧
    (allPos A.shape).map (locClampedSpecAt false A [[0, 2]]) = [false, false, true] ∧
    (allPos A.shape).map (locSpecAt false A [[0, 2]]) = [false, true, true] := by decide

/-- `regSpec` reaches its fixed point on the 2×3 example (its rejected set is the complement of the model's marks); the maximal plateau
    {(0,0),(0,1)} touches the border and is marked. -/
example :
    let A : Img Int := { shape := [2, 3], data := #[2, 2, 1, 0, 1, 2] }
    regSpecFixed false A (neighbours [3, 3] (C01.crossElem 2 1)) = true ∧
    (regSpecBad false A (neighbours [3, 3] (C01.crossElem 2 1))).toList = [false, false, true, true, true, false] ∧
    (regModelRaw false A [3, 3] (C01.crossElem 2 1)).getD (ravelI A.shape [0, 1]) false = true := by
  intro A
  refine ⟨by decide, by decide, ?_⟩
  exact C14_regmax_marks_global_extrema false A [3, 3] (C01.crossElem 2 1) (Or.inl ⟨1, rfl, rfl⟩) [0, 1] (by decide)
    (by
      intro r hr
      have hall : ∀ r ∈ allPos A.shape, beats false (A.getD r 0) (A.getD [0, 1] 0) = false := by decide
      exact hall r ((C01.mem_allPos A.shape r).mpr hr))

/-- **the default / integer structuring elements** (`Bc=None`, `Bc=1`, `4`, `8`, `6`, any Python integer): the
driver obtains the element through C01's model of `get_structuring_elem` (the `translate_sizes` table
extracted from `morph.py`, the literal 3×3 cross, the cross loop). For every image of every rank, every dtype
the element is cast to and every integer `v` (or `None`): the element is the cross `crossElem d r` of radius
`r = seRadius d v` on `3 × … × 3` — a member of the cross/box/disk family — hence on it the model of
`locmax`/`locmin` prints the definition and the model of `regmax`/`regmin` marks exactly the regional plateaus,
with no hypothesis left about the neighbourhood. -/
theorem C14_extrema_default_elem (dt : DT) (isMin : Bool) (A : Img Int) (arg : C01.BcArg)
    (harg : arg = .none ∨ ∃ v : Int, arg = .int v) :
    ∃ S bc, C01.getStructuringElem dt A.shape.length arg = .ok (S, bc) ∧
      C01.CrossBoxDisk A.shape.length S bc ∧
      (locModelRaw isMin A S bc).toList = (allPos A.shape).map (locSpecAt isMin A (neighbours S bc)) ∧
      ∀ q, inside A.shape q = true →
        ((regModelRaw isMin A S bc).getD (ravelI A.shape q) false = true ↔ Regional isMin A (neighbours S bc) q) := by
  have key : ∀ r : Int, C01.CrossBoxDisk A.shape.length (List.replicate A.shape.length 3)
      (C01.crossElem A.shape.length r) := fun r => Or.inl ⟨r, rfl, rfl⟩
  have fin : ∀ r : Int,
      (locModelRaw isMin A (List.replicate A.shape.length 3) (C01.crossElem A.shape.length r)).toList =
        (allPos A.shape).map (locSpecAt isMin A (neighbours (List.replicate A.shape.length 3) (C01.crossElem A.shape.length r))) ∧
      ∀ q, inside A.shape q = true →
        ((regModelRaw isMin A (List.replicate A.shape.length 3) (C01.crossElem A.shape.length r)).getD (ravelI A.shape q) false = true ↔
          Regional isMin A (neighbours (List.replicate A.shape.length 3) (C01.crossElem A.shape.length r)) q) := by
    intro r
    refine ⟨?_, fun q hq => ?_⟩
    · rw [locModelRaw_eq]; exact (C14_locmax_eq_spec_cross_box_disk isMin A _ _ (key r)).2
    · rw [regModelRaw_eq]; exact C14_regional_eq_spec_cross_box_disk isMin A _ _ (key r) q hq
  rcases harg with rfl | ⟨v, rfl⟩
  · exact ⟨_, _, C01.getSE_none dt _, key 1, fin 1⟩
  · exact ⟨_, _, C01.getSE_int dt _ v, key _, fin _⟩

/-- `close_holes(ref)` with the default element and `regmax(f, 8)`: the elements the dispatch builds -/
example : C01.getStructuringElem dtBool 2 .none = .ok ([3, 3], #[0, 1, 0, 1, 1, 1, 0, 1, 0]) ∧
    C01.getStructuringElem (dtU 8) 2 (.int 8) = .ok ([3, 3], #[1, 1, 1, 1, 1, 1, 1, 1, 1]) ∧
    [256, 0, -1].map (C01.castTo (dtU 8)) = [0, 0, 255] :=
  ⟨by rfl, by rfl, by decide⟩

/-- **the executable specification `closeHolesSpec` = complement of `BorderConn`.** The driver prints, next to
the model of `close_holes` (border seeding + stack flood), the array `closeHolesSpec`: start from the background
pixels of the border and repeat `size` times "a background pixel is reached when a neighbour (either direction)
is reached"; the result is the complement. For every image of every rank and shape and every symmetric
neighbourhood: (1) `size` rounds reach the fixed point (a monotone iteration on `size` flags:
`iter_mono_fixed`), (2) the result is true at `q` exactly when `q` is not a background pixel connected to the
border, hence (3) with `C14_close_holes_eq_spec` the two arrays the driver prints for `holes` agree at every
pixel — by two different algorithms. -/
theorem C14_holesspec_eq_borderconn (ref : Img Int) (nb : List (List Int)) (hn : SymNb ref nb) :
    reachStep ref nb (reachFinal ref nb) = reachFinal ref nb ∧
    (∀ q, inside ref.shape q = true →
      ((closeHolesSpec ref nb).getD (ravelI ref.shape q) false = true ↔ ¬ BorderConn ref nb q)) ∧
    (ref.data.size = shapeSize ref.shape → ∀ q, inside ref.shape q = true →
      (closeHoles ref nb).getD (ravelI ref.shape q) false =
        (closeHolesSpec ref nb).getD (ravelI ref.shape q) false) := by
  refine ⟨reachFinal_fixed, fun q hq => closeHolesSpec_iff hn q hq, fun hwf q hq => ?_⟩
  have h1 := closeHoles_spec ref nb hwf q hq
  have h2 := closeHolesSpec_iff hn q hq
  cases ha : (closeHoles ref nb).getD (ravelI ref.shape q) false <;>
    cases hb : (closeHolesSpec ref nb).getD (ravelI ref.shape q) false <;> simp_all

/-- a 3×3 ring with the 3×3 cross: symmetric neighbourhood, the hole is closed by the specification as well -/
example :
    let A : Img Int := { shape := [3, 3], data := #[1, 1, 1, 1, 0, 1, 1, 1, 1] }
    SymNb A (neighbours [3, 3] #[0, 1, 0, 1, 1, 1, 0, 1, 0]) ∧
    (reachFinal A (neighbours [3, 3] #[0, 1, 0, 1, 1, 1, 0, 1, 0])).toList = List.replicate 9 false :=
  ⟨⟨by decide, by decide⟩, by decide⟩

/-- **the two lists the driver prints for `hitmiss` are equal** for every image of rank ≥ 1 and every template
of that rank with positive sides (odd, even, larger than the image): the model's output array (`model=`) is the
closed form's (`closed=`), position by position over the whole image. -/
theorem C14_hitmiss_closed_form_arrays (A : Img Int) (bshape : List Nat) (bc : Array Int)
    (hpos : ∀ b ∈ bshape, 0 < b) (hne : A.shape ≠ []) (hl1 : bshape.length = A.shape.length) :
    (allPos A.shape).map (hitmissAt A bshape (hmEntries bshape bc)) =
      (allPos A.shape).map (hitmissClosedAt A bshape bc) :=
  List.map_congr_left fun p hp =>
    C14_hitmiss_even_closed_form A bshape bc p hpos hne hl1
      (C01.inside_length ((C01.mem_allPos A.shape p).mp hp))

/-- **`hitmiss` never reads outside the image** — for every template shape, even sides and oversized templates
included: at every position the `slack` rule evaluates (`hmEvaluated`), each of the entries tested
(`hmEntries`: offset `k − ⌊b/2⌋` of every template entry different from 2) lies over a pixel inside the image, so
the flat reads `input.at_flat(i + delta)` of the kernel stay within the buffer; everywhere else the kernel
writes 0 without reading. -/
theorem C14_hitmiss_reads_inside (A : Img Int) (bshape : List Nat) (bc : Array Int) (p : List Int)
    (hpos : ∀ b ∈ bshape, 0 < b) (hne : A.shape ≠ [])
    (hl1 : bshape.length = A.shape.length) (hl2 : p.length = A.shape.length)
    (hev : hmEvaluated A.shape bshape p = true) :
    ∀ e ∈ hmEntries bshape bc, inside A.shape (addPos p e.1) = true := by
  intro e he
  rw [hmEvaluated_closed A.shape bshape p hpos hne hl1 hl2, Bool.and_eq_true] at hev
  unfold hmEntries at he
  simp only [List.mem_filterMap, List.mem_range] at he
  obtain ⟨i, hi, h⟩ := he
  split at h
  · cases h
  · cases h
    exact templateInside_reads A.shape bshape p _ hl1 hl2 hev.1 (inside_unravelI bshape i hi)

/-- a 2×2 template on a 3×3 image is evaluated at (1,1) and (1,2) only; all four reads are inside there -/
example : hmEvaluated [3, 3] [2, 2] [1, 2] = true ∧ hmEvaluated [3, 3] [2, 2] [2, 2] = false ∧
    (hmEntries [2, 2] #[1, 1, 1, 1]).map (fun e => addPos [1, 2] e.1) = [[0, 1], [0, 2], [1, 1], [1, 2]] := by
  decide

/-- **only the order of the pixel values matters** — the soundness of the harness's float embedding. For every
strictly increasing re-labelling `f` of the values, every image (`data` of the size of the shape), and every
neighbourhood whose offsets have the rank of the image: the models of `locmax`/`locmin` and of `regmax`/`regmin`
return the same arrays on the re-labelled image `mapImg f A` as on `A` (the kernels only ever compare two pixel
values with `<`, `>`, `<=`, `>=`). Hence feeding a float image through the order isomorphism
`x ↦ sign(x)·bits(|x|)` (NaN excluded) or through any other order-preserving integer labelling gives the same
model output, and the result for integer images does not depend on the dtype's value range. -/
theorem C14_order_embedding_invariant (f : Int → Int) (hf : ∀ a b : Int, a < b → f a < f b) (isMin : Bool)
    (A : Img Int) (hwf : A.data.size = shapeSize A.shape) (nb : List (List Int))
    (hlen : ∀ k ∈ nb, k.length = A.shape.length) :
    locModel isMin (mapImg f A) nb = locModel isMin A nb ∧
    regModel isMin (mapImg f A) nb = regModel isMin A nb :=
  ⟨locModel_mapImg f hf isMin A hwf nb hlen, regModel_mapImg f hf isMin A hwf nb hlen⟩

/-- re-labelling 0,1,2 as −7, 40, 41 keeps the regional maxima of the 2×3 example -/
example :
    let A : Img Int := { shape := [2, 3], data := #[2, 2, 1, 0, 1, 2] }
    let B : Img Int := { shape := [2, 3], data := #[41, 41, 40, -7, 40, 41] }
    (regModel false B (neighbours [3, 3] (C01.crossElem 2 1))).toList =
      (regModel false A (neighbours [3, 3] (C01.crossElem 2 1))).toList := by decide

/-- **the two arrays the driver prints for `reg` agree** (`model=` from the scan + stack flood of
`remove_fake_regmin_max`, `spec=` from the fixed-point iteration): for every image of every rank and shape, every
cross / disk / odd box of that rank (as given, centre set or not) and every pixel inside the image, the model of
`regmax`/`regmin` and the executable specification `regSpec` give the same flag. -/
theorem C14_reg_model_eq_regspec (isMin : Bool) (A : Img Int) (S : List Nat) (bc : Array Int)
    (hfam : C01.CrossBoxDisk A.shape.length S bc) (q : List Int) (hq : inside A.shape q = true) :
    (regModelRaw isMin A S bc).getD (ravelI A.shape q) false =
      (regSpec isMin A (neighbours S bc)).getD (ravelI A.shape q) false := by
  have h1 := C14_regional_eq_spec_cross_box_disk isMin A S bc hfam q hq
  have h2 := (C14_regspec_eq_regional isMin A (neighbours S bc) (symNb_family hfam.regular A rfl)).2 q hq
  rw [regModelRaw_eq]
  cases ha : (regModel isMin A (neighbours S bc)).getD (ravelI A.shape q) false <;>
    cases hb : (regSpec isMin A (neighbours S bc)).getD (ravelI A.shape q) false <;> simp_all

/-- **the `slack` loop of `hitmiss` and its closed form** (partial: a finite table instead of all sizes). `hmLoop`
transliterates the main loop of `hitmiss<T>` as far as *which flat indices are evaluated* goes (`while (!slack)`:
find the first axis with a too small margin and zero `size` positions, or set `slack = dim(last) − Bc.dim(last) + 1`;
then `--slack`, evaluate, `++i`); `hmEvaluated` — the definition every other `hitmiss` theorem is about — is its
closed form. They agree for every image length 1–10 × template length 1–7 in 1-D, all image sides 1–5 × template
sides 1–5 in 2-D, and image sides ≤ 3×3×4 × template sides ≤ 3×4×4 in 3-D (kernel evaluation). The driver
re-checks the agreement (`loopok=`) on every `hitmiss` line of the correspondence. Missing: the proof for all
shapes (the invariant "every axis whose later coordinates are not all zero has a sufficient margin"). -/
theorem C14_hitmiss_loop_table_partial :
    (∀ n ∈ List.range 10, ∀ b ∈ List.range 7, hmLoopOk [n + 1] [b + 1] = true) ∧
    (∀ h ∈ List.range 5, ∀ w ∈ List.range 5, ∀ a ∈ List.range 5, ∀ b ∈ List.range 5,
      hmLoopOk [h + 1, w + 1] [a + 1, b + 1] = true) ∧
    (∀ d ∈ List.range 3, ∀ h ∈ List.range 3, ∀ w ∈ List.range 4, ∀ c ∈ List.range 3, ∀ a ∈ List.range 4,
      ∀ b ∈ List.range 4, hmLoopOk [d + 1, h + 1, w + 1] [c + 1, a + 1, b + 1] = true) := by
  decide +kernel

/-- the loop on a 3×3 image with a 2×2 template: rows 0 and 2 are zeroed as whole rows, in row 1 column 0 is
    zeroed, then `slack = 2` positions are evaluated -/
example : hmLoopFlags [3, 3] [2, 2] = [false, false, false, false, true, true, false, false, false] := by decide
